/-
General binding (soundness core of C11): equal level-`l` hashes pin down every unpruned cell, for trees WITH inner
Merkle proof/update cells and for every level `l`.

The level-`l` hash of a non-pruned cell is `H` of its representation at the highest significant level `L ≤ l`
(`plainHashAt_top`); that representation holds the descriptor bytes (reference count, exotic flag, `mask % 2^L`,
bit-length descriptor), then the data bytes (L = 0) or the hash at level `L-1` (L > 0: hash chaining), then depths and
hashes of the children at level `L + μ`.  Under a LOCAL no-collision hypothesis on the representations occurring in the
two trees, equal hashes give equal representations, which give: same `L`, same kind, same bit string
(`Pad.dataBytes_inj`), same number of children, equal child hashes at level `L + μ` — and, through the chained hash,
the same again for every significant level below (`plain_binding`, induction on the level).  `binding_aux` is the
induction over the tree.
-/
import TonVerif.Proofs.Merkle
import TonVerif.Proofs.Pad

namespace TonVerif.Proofs.Binding
open TonVerif TonVerif.Model TonVerif.Proofs.CellSpec TonVerif.Proofs.Prune TonVerif.Proofs.Merkle TonVerif.Proofs.Pad

set_option linter.unusedSimpArgs false
set_option linter.unusedVariables false

/-! ### significant levels and the representation at a level -/

/-- level `L` is significant for the level mask `m`: level 0 always, level `j+1` iff bit `j` is set -/
def sigB (m L : Nat) : Bool := L == 0 || m.testBit (L - 1)

/-- what is hashed in place of the data at level `L`: the data bytes at level 0, the level-`(L-1)` hash above -/
def payload (H : Bytes → Bytes) (k : Spec.Kind) (bits : Bits) (ss : List Spec.SInfo) (m : Nat) : Nat → Bytes
  | 0 => Spec.dataBytes bits
  | j+1 => Spec.plainHashAt H k bits ss m j

/-- the representation of a non-pruned cell at level `L` -/
def reprAt (H : Bytes → Bytes) (k : Spec.Kind) (bits : Bits) (ss : List Spec.SInfo) (m L : Nat) : Bytes :=
  [Spec.d1 ss.length k.isExotic (m % 2 ^ L), Spec.d2 bits.length] ++ payload H k bits ss m L ++ Spec.childPart ss (L + k.mu)

/-- the representation of a pruned-branch cell (all levels at which it does not answer with a stored hash) -/
def prunedRepr (bits : Bits) (m : Nat) : Bytes := [Spec.d1 0 true m, Spec.d2 bits.length] ++ Spec.dataBytes bits

theorem sigB_zero (m : Nat) : sigB m 0 = true := by simp [sigB]

theorem sigB_succ (m j : Nat) : sigB m (j+1) = m.testBit j := by simp [sigB]

theorem plainHashAt_zero_repr (H : Bytes → Bytes) (k : Spec.Kind) (bits : Bits) (ss : List Spec.SInfo) (m : Nat) :
    Spec.plainHashAt H k bits ss m 0 = H (reprAt H k bits ss m 0) := by
  have e : m % 2 ^ 0 = 0 := by rw [Nat.pow_zero, Nat.mod_one]
  simp only [Spec.plainHashAt, reprAt, payload, e]

theorem plainHashAt_succ_repr (H : Bytes → Bytes) (k : Spec.Kind) (bits : Bits) (ss : List Spec.SInfo) (m l : Nat)
    (h : m.testBit l = true) : Spec.plainHashAt H k bits ss m (l+1) = H (reprAt H k bits ss m (l+1)) := by
  simp only [Spec.plainHashAt, reprAt, payload, h, if_true]

theorem plainHashAt_succ_skip (H : Bytes → Bytes) (k : Spec.Kind) (bits : Bits) (ss : List Spec.SInfo) (m l : Nat)
    (h : m.testBit l = false) : Spec.plainHashAt H k bits ss m (l+1) = Spec.plainHashAt H k bits ss m l := by
  simp only [Spec.plainHashAt, h, Bool.false_eq_true, if_false]

/-- the level-`l` hash is `H` of the representation at the highest significant level `L ≤ l` -/
theorem plainHashAt_top (H : Bytes → Bytes) (k : Spec.Kind) (bits : Bits) (ss : List Spec.SInfo) (m : Nat) :
    ∀ l, ∃ L, L ≤ l ∧ sigB m L = true ∧ (∀ j, L ≤ j → j < l → m.testBit j = false) ∧
      Spec.plainHashAt H k bits ss m l = H (reprAt H k bits ss m L) := by
  intro l
  induction l with
  | zero => exact ⟨0, Nat.le_refl _, sigB_zero m, fun j h1 h2 => by omega, plainHashAt_zero_repr H k bits ss m⟩
  | succ l ih =>
    by_cases htb : m.testBit l = true
    · exact ⟨l+1, Nat.le_refl _, by rw [sigB_succ]; exact htb, fun j h1 h2 => by omega,
        plainHashAt_succ_repr H k bits ss m l htb⟩
    · have htb' : m.testBit l = false := by simpa using htb
      obtain ⟨L, h1, h2, h3, h4⟩ := ih
      refine ⟨L, by omega, h2, ?_, ?_⟩
      · intro j hj1 hj2
        by_cases hjl : j = l
        · subst hjl; exact htb'
        · exact h3 j hj1 (by omega)
      · rw [plainHashAt_succ_skip H k bits ss m l htb']; exact h4

theorem plainHashAt_len (H : Bytes → Bytes) (h32 : ∀ x, (H x).length = 32) (k : Spec.Kind) (bits : Bits)
    (ss : List Spec.SInfo) (m : Nat) : ∀ l, (Spec.plainHashAt H k bits ss m l).length = 32 := by
  intro l
  obtain ⟨L, _, _, _, e⟩ := plainHashAt_top H k bits ss m l
  rw [e]; exact h32 _

/-! ### level arithmetic -/

theorem sig_mod_top (m L : Nat) (hs : sigB m L = true) (hL : 0 < L) : (m % 2 ^ L).testBit (L - 1) = true := by
  obtain ⟨j, rfl⟩ : ∃ j, L = j + 1 := ⟨L - 1, by omega⟩
  rw [sigB_succ] at hs
  rw [Nat.testBit_mod_two_pow]
  simp [hs]

theorem sig_level_le (a b La Lb : Nat) (ha : sigB a La = true) (hb : sigB b Lb = true)
    (he : a % 2 ^ La = b % 2 ^ Lb) : Lb ≤ La := by
  by_cases h : Lb ≤ La
  · exact h
  · exfalso
    have h1 := sig_mod_top b Lb hb (by omega)
    rw [← he] at h1
    have h2 : a % 2 ^ La < 2 ^ (Lb - 1) :=
      Nat.lt_of_lt_of_le (Nat.mod_lt _ (Nat.two_pow_pos _)) (Nat.pow_le_pow_right (by decide) (by omega))
    rw [Nat.testBit_lt_two_pow h2] at h1
    cases h1

/-- two significant levels with the same applied mask are the same level -/
theorem sig_level_eq (a b La Lb : Nat) (ha : sigB a La = true) (hb : sigB b Lb = true)
    (he : a % 2 ^ La = b % 2 ^ Lb) : La = Lb :=
  Nat.le_antisymm (sig_level_le b a Lb La hb ha he.symm) (sig_level_le a b La Lb ha hb he)

theorem mod_of_clear (m L l : Nat) (hLl : L ≤ l) (h : ∀ j, L ≤ j → j < l → m.testBit j = false) :
    m % 2 ^ l = m % 2 ^ L := by
  apply Nat.eq_of_testBit_eq
  intro i
  rw [Nat.testBit_mod_two_pow, Nat.testBit_mod_two_pow]
  by_cases hi : i < L
  · have : i < l := by omega
    simp [hi, this]
  · by_cases hil : i < l
    · simp [hi, hil, h i (by omega) hil]
    · simp [hi, hil]

/-! ### splitting a representation -/

theorem d1_inj (nP nT : Nat) (eP eT : Bool) (mP mT : Nat) (hP : nP ≤ 4) (hT : nT ≤ 4)
    (h : Spec.d1 nP eP mP = Spec.d1 nT eT mT) : nP = nT ∧ eP = eT ∧ mP = mT := by
  unfold Spec.d1 at h
  cases eP <;> cases eT <;> simp at h ⊢ <;> omega

theorem map_be2_length (ss : List Spec.SInfo) (cl : Nat) :
    ((ss.map (fun c => Spec.be2 (c.depthAt cl))).flatten).length = 2 * ss.length := by
  rw [length_flatten_const 2 _ (by
    intro x hx; simp only [List.mem_map] at hx; obtain ⟨c, _, rfl⟩ := hx; simp [Spec.be2])]
  simp

theorem childPart_inj (ssP ssT : List Spec.SInfo) (cl cl' : Nat) (hn : ssP.length = ssT.length)
    (hP : ∀ c ∈ ssP, (c.hashAt cl).length = 32) (hT : ∀ c ∈ ssT, (c.hashAt cl').length = 32)
    (h : Spec.childPart ssP cl = Spec.childPart ssT cl') :
    ssP.map (fun c => c.hashAt cl) = ssT.map (fun c => c.hashAt cl') ∧
    ssP.map (fun c => Spec.be2 (c.depthAt cl)) = ssT.map (fun c => Spec.be2 (c.depthAt cl')) := by
  simp only [Spec.childPart] at h
  have hdep : ((ssP.map (fun c => Spec.be2 (c.depthAt cl))).flatten).length
      = ((ssT.map (fun c => Spec.be2 (c.depthAt cl'))).flatten).length := by
    rw [map_be2_length, map_be2_length, hn]
  obtain ⟨e1, e2⟩ := List.append_inj h hdep
  constructor
  · apply flatten_inj 32 _ _ (by simp [hn]) _ _ e2
    · intro x hx; simp only [List.mem_map] at hx; obtain ⟨c, hc, rfl⟩ := hx; exact hP c hc
    · intro x hx; simp only [List.mem_map] at hx; obtain ⟨c, hc, rfl⟩ := hx; exact hT c hc
  · apply flatten_inj 2 _ _ (by simp [hn]) _ _ e1
    · intro x hx; simp only [List.mem_map] at hx; obtain ⟨c, _, rfl⟩ := hx; simp [Spec.be2]
    · intro x hx; simp only [List.mem_map] at hx; obtain ⟨c, _, rfl⟩ := hx; simp [Spec.be2]

/-- THE STANDARD REPRESENTATION IS INJECTIVE: `d1 d2 ++ data ++ depths ++ hashes` (≤ 4 references, 2-byte depths,
32-byte hashes) determines the reference count, the exotic flag, the level mask, the BIT STRING, every child depth
field and every child hash. -/
theorem repr_injective (n1 n2 : Nat) (e1 e2 : Bool) (m1 m2 : Nat) (b1 b2 : Bits) (ds1 ds2 hs1 hs2 : List Bytes)
    (hn1 : n1 ≤ 4) (hn2 : n2 ≤ 4) (hd1 : ds1.length = n1) (hd2 : ds2.length = n2) (hh1 : hs1.length = n1) (hh2 : hs2.length = n2)
    (hdl1 : ∀ x ∈ ds1, x.length = 2) (hdl2 : ∀ x ∈ ds2, x.length = 2)
    (hhl1 : ∀ x ∈ hs1, x.length = 32) (hhl2 : ∀ x ∈ hs2, x.length = 32)
    (h : [Spec.d1 n1 e1 m1, Spec.d2 b1.length] ++ Spec.dataBytes b1 ++ ds1.flatten ++ hs1.flatten
       = [Spec.d1 n2 e2 m2, Spec.d2 b2.length] ++ Spec.dataBytes b2 ++ ds2.flatten ++ hs2.flatten) :
    n1 = n2 ∧ e1 = e2 ∧ m1 = m2 ∧ b1 = b2 ∧ ds1 = ds2 ∧ hs1 = hs2 := by
  simp only [List.cons_append, List.nil_append, List.cons.injEq, List.append_assoc] at h
  obtain ⟨h1, h2, h3⟩ := h
  obtain ⟨en, ee, em⟩ := d1_inj _ _ _ _ _ _ hn1 hn2 h1
  have hdl : (Spec.dataBytes b1).length = (Spec.dataBytes b2).length := by
    rw [length_dataBytes, length_dataBytes]
    have := d2_aligned_iff _ _ h2
    omega
  obtain ⟨e1', e2'⟩ := List.append_inj h3 hdl
  have hfl : ds1.flatten.length = ds2.flatten.length := by
    rw [length_flatten_const 2 _ hdl1, length_flatten_const 2 _ hdl2, hd1, hd2, en]
  obtain ⟨e3, e4⟩ := List.append_inj e2' hfl
  exact ⟨en, ee, em, dataBytes_inj b1 b2 h2 e1',
    flatten_inj 2 _ _ (by rw [hd1, hd2, en]) hdl1 hdl2 e3, flatten_inj 32 _ _ (by rw [hh1, hh2, en]) hhl1 hhl2 e4⟩

/-- which numbers of references the exotic kinds have -/
def KindShape (k : Spec.Kind) (n : Nat) : Prop :=
  n ≤ 4 ∧ (k = .pruned → n = 0) ∧ (k = .library → n = 0) ∧ (k = .merkleProof → n = 1) ∧ (k = .merkleUpdate → n = 2)

theorem kind_of_shape (kP kT : Spec.Kind) (n : Nat) (npP : kP ≠ .pruned) (npT : kT ≠ .pruned)
    (shP : KindShape kP n) (shT : KindShape kT n) (hex : kP.isExotic = kT.isExotic) : kP = kT := by
  obtain ⟨_, _, p2, p3, p4⟩ := shP
  obtain ⟨_, _, t2, t3, t4⟩ := shT
  cases kP <;> cases kT <;> first
    | rfl
    | exact absurd rfl npP
    | exact absurd rfl npT
    | (have a := p2 rfl; have b := t3 rfl; omega)
    | (have a := p2 rfl; have b := t4 rfl; omega)
    | (have a := p3 rfl; have b := t2 rfl; omega)
    | (have a := p3 rfl; have b := t4 rfl; omega)
    | (have a := p4 rfl; have b := t2 rfl; omega)
    | (have a := p4 rfl; have b := t3 rfl; omega)
    | (exfalso; simp [Spec.Kind.isExotic] at hex)

/-- the pieces of a representation -/
theorem reprAt_split (H : Bytes → Bytes) (kP kT : Spec.Kind) (bP bT : Bits) (ssP ssT : List Spec.SInfo) (mP mT Lp Lt : Nat)
    (h : reprAt H kP bP ssP mP Lp = reprAt H kT bT ssT mT Lt) :
    Spec.d1 ssP.length kP.isExotic (mP % 2 ^ Lp) = Spec.d1 ssT.length kT.isExotic (mT % 2 ^ Lt) ∧
    Spec.d2 bP.length = Spec.d2 bT.length ∧
    payload H kP bP ssP mP Lp ++ Spec.childPart ssP (Lp + kP.mu) = payload H kT bT ssT mT Lt ++ Spec.childPart ssT (Lt + kT.mu) := by
  simp only [reprAt, List.cons_append, List.nil_append, List.cons.injEq, List.append_assoc] at h
  exact ⟨h.1, h.2.1, h.2.2⟩

/-! ### one pair of non-pruned cells, all levels -/

/-- NODE BINDING. Two non-pruned cells (kinds with their proper reference counts, children with 32-byte hashes) whose
level-`l` hashes coincide, when `H` does not collide between their representations at significant levels: same kind,
same BIT STRING, same number of references, level masks equal below `l`, and at every significant level `L ≤ l` the
children have pairwise equal hashes (and stored depths) at level `L + μ`. -/
theorem plain_binding (H : Bytes → Bytes) (h32 : ∀ x, (H x).length = 32)
    (kP kT : Spec.Kind) (bP bT : Bits) (ssP ssT : List Spec.SInfo) (mP mT : Nat)
    (npP : kP ≠ .pruned) (npT : kT ≠ .pruned) (shP : KindShape kP ssP.length) (shT : KindShape kT ssT.length)
    (hlP : ∀ c ∈ ssP, ∀ l, (c.hashAt l).length = 32) (hlT : ∀ c ∈ ssT, ∀ l, (c.hashAt l).length = 32)
    (nocoll : ∀ Lp Lt, sigB mP Lp = true → sigB mT Lt = true →
      H (reprAt H kP bP ssP mP Lp) = H (reprAt H kT bT ssT mT Lt) → reprAt H kP bP ssP mP Lp = reprAt H kT bT ssT mT Lt) :
    ∀ l, Spec.plainHashAt H kP bP ssP mP l = Spec.plainHashAt H kT bT ssT mT l →
      kP = kT ∧ bP = bT ∧ ssP.length = ssT.length ∧ mP % 2 ^ l = mT % 2 ^ l ∧
      ∀ L, L ≤ l → sigB mP L = true →
        ssP.map (fun c => c.hashAt (L + kP.mu)) = ssT.map (fun c => c.hashAt (L + kT.mu)) ∧
        ssP.map (fun c => Spec.be2 (c.depthAt (L + kP.mu))) = ssT.map (fun c => Spec.be2 (c.depthAt (L + kT.mu))) := by
  intro l
  induction l using Nat.strongRecOn with
  | _ l ih =>
    intro hh
    obtain ⟨Lp, hLp, sP, cP, eP⟩ := plainHashAt_top H kP bP ssP mP l
    obtain ⟨Lt, hLt, sT, cT, eT⟩ := plainHashAt_top H kT bT ssT mT l
    rw [eP, eT] at hh
    obtain ⟨hd1, hd2, hrest⟩ := reprAt_split H kP kT bP bT ssP ssT mP mT Lp Lt (nocoll Lp Lt sP sT hh)
    obtain ⟨hn, hex, hmm⟩ := d1_inj _ _ _ _ _ _ shP.1 shT.1 hd1
    have hk : kP = kT := kind_of_shape kP kT ssP.length npP npT shP (hn ▸ shT) hex
    have hL : Lp = Lt := sig_level_eq mP mT Lp Lt sP sT hmm
    subst hL
    subst hk
    have hmask : mP % 2 ^ l = mT % 2 ^ l := by
      rw [mod_of_clear mP Lp l hLp cP, mod_of_clear mT Lp l hLt cT, hmm]
    -- no significant level strictly between Lp and l
    have hnosig : ∀ L, Lp < L → L ≤ l → sigB mP L = true → False := by
      intro L h1 h2 h3
      obtain ⟨j, rfl⟩ : ∃ j, L = j + 1 := ⟨L - 1, by omega⟩
      rw [sigB_succ] at h3
      have := cP j (by omega) (by omega)
      rw [this] at h3; cases h3
    cases Lp with
    | zero =>
      simp only [payload] at hrest
      have hdl : (Spec.dataBytes bP).length = (Spec.dataBytes bT).length := by
        rw [length_dataBytes, length_dataBytes]
        have := (d2_aligned_iff _ _ hd2)
        omega
      obtain ⟨e1, e2⟩ := List.append_inj hrest hdl
      have hbits : bP = bT := dataBytes_inj bP bT hd2 e1
      obtain ⟨c1, c2⟩ := childPart_inj ssP ssT _ _ hn (fun c hc => hlP c hc _) (fun c hc => hlT c hc _) e2
      refine ⟨rfl, hbits, hn, hmask, ?_⟩
      intro L hL1 hL2
      by_cases hL0 : L = 0
      · subst hL0; exact ⟨c1, c2⟩
      · exact (hnosig L (by omega) hL1 hL2).elim
    | succ j =>
      simp only [payload] at hrest
      have hpl : (Spec.plainHashAt H kP bP ssP mP j).length = (Spec.plainHashAt H kP bT ssT mT j).length := by
        rw [plainHashAt_len H h32, plainHashAt_len H h32]
      obtain ⟨e1, e2⟩ := List.append_inj hrest hpl
      obtain ⟨c1, c2⟩ := childPart_inj ssP ssT _ _ hn (fun c hc => hlP c hc _) (fun c hc => hlT c hc _) e2
      obtain ⟨_, hbits, _, _, hlow⟩ := ih j (by omega) e1
      refine ⟨rfl, hbits, hn, hmask, ?_⟩
      intro L hL1 hL2
      by_cases hLj : L ≤ j
      · exact hlow L hLj hL2
      · by_cases hLe : L = j + 1
        · subst hLe; exact ⟨c1, c2⟩
        · exact (hnosig L (by omega) hL1 hL2).elim

/-! ### pruned branches -/

/-- the level mask a pruned-branch cell declares in its second data byte -/
def pmaskOf (bits : Bits) : Nat := natOfBits ((bits.drop 8).take 8)

/-- a pruned branch answers level `l` with a STORED hash (that of the subtree it stands for), not with its own -/
def StoredAt (kind : Int) (bits : Bits) (l : Nat) : Prop :=
  kind = 1 ∧ Spec.popcount (pmaskOf bits % 2 ^ l) ≠ Spec.popcount (pmaskOf bits)

theorem spopcount_mod_le (m l : Nat) : Spec.popcount (m % 2 ^ l) ≤ Spec.popcount m := by
  rw [← popcount_eq, ← popcount_eq]
  by_cases h : l ≤ bitLength m
  · have := popcount_mod_mono m h
    rwa [mod_ge_bitLength m (Nat.le_refl _)] at this
  · rw [mod_ge_bitLength m (by omega)]
    exact Nat.le_refl _

theorem nodeMask_nil (k : Spec.Kind) (bits : Bits) (np : k ≠ .pruned) : Spec.nodeMask k bits [] = 0 := by
  cases k <;> first | exact absurd rfl np | simp [Spec.nodeMask]

/-- the representation of a pruned branch (mask ≥ 1) is never a representation of a non-pruned cell -/
theorem pruned_vs_plain (H : Bytes → Bytes) (bits : Bits) (m : Nat) (hm : 1 ≤ m) (k : Spec.Kind) (b : Bits)
    (ss : List Spec.SInfo) (L : Nat) (np : k ≠ .pruned) (sh : KindShape k ss.length)
    (h : prunedRepr bits m = reprAt H k b ss (Spec.nodeMask k b ss) L) : False := by
  simp only [prunedRepr, reprAt, List.cons_append, List.nil_append, List.cons.injEq] at h
  obtain ⟨hn, _, hmm⟩ := d1_inj _ _ _ _ _ _ (by omega) sh.1 h.1
  have : ss = [] := List.eq_nil_of_length_eq_zero hn.symm
  subst this
  rw [nodeMask_nil k b np, Nat.zero_mod] at hmm
  omega

/-- two pruned branches with the same representation are the same cell -/
theorem pruned_vs_pruned (bP bT : Bits) (mP mT : Nat) (h : prunedRepr bP mP = prunedRepr bT mT) : bP = bT := by
  simp only [prunedRepr, List.cons_append, List.nil_append, List.cons.injEq] at h
  exact dataBytes_inj bP bT h.2.1 h.2.2

/-! ### trees -/

mutual
  /-- the shape every cell of a valid bag has: at most four references; a pruned branch has none, a non-zero level
  mask and all the hashes it declares (`16 + 256·popcount(mask)` bits at least); a library cell has no reference, a
  Merkle proof one, a Merkle update two. -/
  def Shape : Cell → Prop
    | .mk kind bits refs =>
      refs.length ≤ 4 ∧
      (kind = -1 ∨
        (kind = 1 ∧ refs = [] ∧ 1 ≤ pmaskOf bits ∧ 16 + 256 * Spec.popcount (pmaskOf bits) ≤ bits.length) ∨
        (kind = 2 ∧ refs = []) ∨ (kind = 3 ∧ refs.length = 1) ∨ (kind = 4 ∧ refs.length = 2)) ∧
      Shapes refs
  def Shapes : List Cell → Prop
    | [] => True
    | c :: cs => Shape c ∧ Shapes cs
end

mutual
  /-- ALL representations occurring in a tree: of every non-pruned cell the representation at each of its
  significant levels, of every pruned branch its own representation.  A finite list; the binding theorem assumes that
  `H` does not collide between `reprs p` and `reprs t`. -/
  def reprs (H : Bytes → Bytes) : Cell → List Bytes
    | .mk kind bits refs =>
      (match kindOf kind, specInfos H refs with
        | some k, some ss =>
          if k = .pruned then [prunedRepr bits (Spec.nodeMask k bits ss)]
          else ((List.range (bitLength (Spec.nodeMask k bits ss) + 1)).filter (sigB (Spec.nodeMask k bits ss))).map
                  (reprAt H k bits ss (Spec.nodeMask k bits ss))
        | _, _ => []) ++ reprss H refs
  def reprss (H : Bytes → Bytes) : List Cell → List Bytes
    | [] => []
    | c :: cs => reprs H c ++ reprss H cs
end

/-- μ of a cell type code -/
def muOf (kind : Int) : Nat := if kind = 3 ∨ kind = 4 then 1 else 0

mutual
  /-- `Agree H l p t`: `p` and `t` have the same level-`l` hash, and
  * `p` is a pruned branch that stores that hash (it stands for `t` at this level), or `t` is one, or
  * `p` and `t` are the same cell: same type, same BIT STRING, same number of references, and for every level
    `L ≤ l` at which the cell's hash is (re)computed, the children pairwise `Agree` at level `L + μ`. -/
  def Agree (H : Bytes → Bytes) : Nat → Cell → Cell → Prop
    | l, .mk kp bp rp, .mk kt bt rt =>
      (∃ sp st, specInfo H (.mk kp bp rp) = some sp ∧ specInfo H (.mk kt bt rt) = some st ∧ sp.hashAt l = st.hashAt l) ∧
      (StoredAt kp bp l ∨ StoredAt kt bt l ∨
        (kp = kt ∧ bp = bt ∧ rp.length = rt.length ∧
          ∀ sp, specInfo H (.mk kp bp rp) = some sp → ∀ L, L ≤ l → sigB sp.mask L = true →
            Agrees H (L + muOf kp) rp rt))
  def Agrees (H : Bytes → Bytes) : Nat → List Cell → List Cell → Prop
    | _, [], ts => ts = []
    | l, p :: ps, ts => ∃ t ts', ts = t :: ts' ∧ Agree H l p t ∧ Agrees H l ps ts'
end

theorem muOf_eq {kind : Int} {k : Spec.Kind} (h : kindOf kind = some k) : muOf kind = k.mu := by
  have := kindCode_of_kindOf h
  subst this
  cases k <;> simp [muOf, kindCode, Spec.Kind.mu]

theorem specInfo_mk (H : Bytes → Bytes) (kind : Int) (bits : Bits) (refs : List Cell) (s : Spec.SInfo)
    (h : specInfo H (.mk kind bits refs) = some s) :
    ∃ k ss, kindOf kind = some k ∧ specInfos H refs = some ss ∧ s = Spec.node H k bits ss := by
  simp only [specInfo, Option.bind_eq_bind] at h
  cases hk : kindOf kind with
  | none => rw [hk] at h; cases h
  | some k =>
    cases hss : specInfos H refs with
    | none => rw [hk, hss] at h; cases h
    | some ss =>
      rw [hk, hss] at h
      simp only [Option.bind_some, Option.pure_def, Option.some.injEq] at h
      exact ⟨k, ss, rfl, rfl, h.symm⟩

theorem specInfos_cons (H : Bytes → Bytes) (c : Cell) (cs : List Cell) (ss : List Spec.SInfo)
    (h : specInfos H (c :: cs) = some ss) :
    ∃ s ss0, specInfo H c = some s ∧ specInfos H cs = some ss0 ∧ ss = s :: ss0 := by
  simp only [specInfos, Option.bind_eq_bind] at h
  cases h1 : specInfo H c with
  | none => rw [h1] at h; cases h
  | some s =>
    cases h2 : specInfos H cs with
    | none => rw [h1, h2] at h; cases h
    | some ss0 =>
      rw [h1, h2] at h
      simp only [Option.bind_some, Option.pure_def, Option.some.injEq] at h
      exact ⟨s, ss0, rfl, rfl, h.symm⟩

theorem kindOf_cases {kind : Int} {k : Spec.Kind} (h : kindOf kind = some k) :
    (kind = -1 ∧ k = .ordinary) ∨ (kind = 1 ∧ k = .pruned) ∨ (kind = 2 ∧ k = .library) ∨
    (kind = 3 ∧ k = .merkleProof) ∨ (kind = 4 ∧ k = .merkleUpdate) := by
  have := kindCode_of_kindOf h
  subst this
  cases k <;> simp [kindCode]

theorem shape_kind (H : Bytes → Bytes) (kind : Int) (bits : Bits) (refs : List Cell) (k : Spec.Kind) (ss : List Spec.SInfo)
    (sh : Shape (.mk kind bits refs)) (hk : kindOf kind = some k) (hss : specInfos H refs = some ss) :
    KindShape k ss.length := by
  rw [Shape] at sh
  obtain ⟨h4, hc, _⟩ := sh
  rw [specInfos_length H refs ss hss]
  rcases kindOf_cases hk with ⟨e, rfl⟩ | ⟨e, rfl⟩ | ⟨e, rfl⟩ | ⟨e, rfl⟩ | ⟨e, rfl⟩ <;> subst e <;>
    refine ⟨h4, ?_, ?_, ?_, ?_⟩ <;> intro hx <;> first
      | exact absurd hx (by decide)
      | (simp at hc; simp [hc])
      | (simp at hc; omega)

theorem shape_pruned (kind : Int) (bits : Bits) (refs : List Cell) (sh : Shape (.mk kind bits refs)) (hk : kind = 1) :
    refs = [] ∧ 1 ≤ pmaskOf bits ∧ 16 + 256 * Spec.popcount (pmaskOf bits) ≤ bits.length := by
  rw [Shape] at sh
  obtain ⟨_, hc, _⟩ := sh
  subst hk
  rcases hc with c | c | c | c | c
  · exact absurd c (by decide)
  · exact c.2
  · exact absurd c.1 (by decide)
  · exact absurd c.1 (by decide)
  · exact absurd c.1 (by decide)

theorem node_pruned_hashAt (H : Bytes → Bytes) (bits : Bits) (ss : List Spec.SInfo) (l : Nat) :
    (Spec.node H .pruned bits ss).hashAt l =
      if Spec.popcount (pmaskOf bits % 2 ^ l) = Spec.popcount (pmaskOf bits) then H (prunedRepr bits (pmaskOf bits))
      else ((Spec.dataBytes bits).take (2 + 32 * (Spec.popcount (pmaskOf bits % 2 ^ l) + 1))).drop
              (2 + 32 * Spec.popcount (pmaskOf bits % 2 ^ l)) := rfl

/-- every hash a shaped cell reports has 32 bytes -/
theorem hashAt_len (H : Bytes → Bytes) (h32 : ∀ x, (H x).length = 32) (kind : Int) (bits : Bits) (refs : List Cell)
    (s : Spec.SInfo) (sh : Shape (.mk kind bits refs)) (hs : specInfo H (.mk kind bits refs) = some s) :
    ∀ l, (s.hashAt l).length = 32 := by
  obtain ⟨k, ss, hk, hss, rfl⟩ := specInfo_mk H kind bits refs s hs
  intro l
  by_cases hp : k = .pruned
  · subst hp
    have hk1 : kind = 1 := (kindCode_of_kindOf hk).symm
    obtain ⟨_, _, hlen⟩ := shape_pruned kind bits refs sh hk1
    rw [node_pruned_hashAt]
    split
    · exact h32 _
    · rename_i hne
      have hle := spopcount_mod_le (pmaskOf bits) l
      have hdl := length_dataBytes bits
      simp only [List.length_drop, List.length_take]
      omega
  · rw [node_plain H k bits ss hp]
    exact plainHashAt_len H h32 k bits ss _ l

theorem hashes_len (H : Bytes → Bytes) (h32 : ∀ x, (H x).length = 32) : ∀ (cs : List Cell) (ss : List Spec.SInfo),
    Shapes cs → specInfos H cs = some ss → ∀ c ∈ ss, ∀ l, (c.hashAt l).length = 32 := by
  intro cs
  induction cs with
  | nil => intro ss _ hs; simp only [specInfos, Option.some.injEq] at hs; subst hs; simp
  | cons c cs ih =>
    intro ss sh hs
    obtain ⟨s, ss0, h1, h2, rfl⟩ := specInfos_cons H c cs ss hs
    rw [Shapes] at sh
    intro x hx
    rcases List.mem_cons.mp hx with rfl | hx
    · cases c with
      | mk kind bits refs => exact hashAt_len H h32 kind bits refs x sh.1 h1
    · exact ih ss0 sh.2 h2 x hx

theorem reprs_root_plain (H : Bytes → Bytes) (kind : Int) (bits : Bits) (refs : List Cell) (k : Spec.Kind)
    (ss : List Spec.SInfo) (hk : kindOf kind = some k) (hss : specInfos H refs = some ss) (hp : k ≠ .pruned)
    (L : Nat) (hs : sigB (Spec.nodeMask k bits ss) L = true) :
    reprAt H k bits ss (Spec.nodeMask k bits ss) L ∈ reprs H (.mk kind bits refs) := by
  rw [reprs]
  apply List.mem_append_left
  simp only [hk, hss, hp, if_false]
  apply List.mem_map_of_mem
  rw [List.mem_filter]
  refine ⟨?_, hs⟩
  rw [List.mem_range]
  cases L with
  | zero => omega
  | succ j =>
    rw [sigB_succ] at hs
    apply Classical.byContradiction
    intro hc
    have := testBit_ge_bitLength (Spec.nodeMask k bits ss) (l := j) (by omega)
    rw [this] at hs; cases hs

theorem reprs_root_pruned (H : Bytes → Bytes) (kind : Int) (bits : Bits) (refs : List Cell)
    (ss : List Spec.SInfo) (hk : kindOf kind = some .pruned) (hss : specInfos H refs = some ss) :
    prunedRepr bits (pmaskOf bits) ∈ reprs H (.mk kind bits refs) := by
  rw [reprs]
  apply List.mem_append_left
  simp only [hk, hss, if_true]
  exact List.mem_singleton.mpr rfl

theorem reprs_kids (H : Bytes → Bytes) (kind : Int) (bits : Bits) (refs : List Cell) (x : Bytes)
    (hx : x ∈ reprss H refs) : x ∈ reprs H (.mk kind bits refs) := by
  rw [reprs]; exact List.mem_append_right _ hx

mutual
  /-- GENERAL BINDING, induction over the proof tree `p` (all levels, all cell types) -/
  theorem binding_aux (H : Bytes → Bytes) (h32 : ∀ x, (H x).length = 32) :
      ∀ (p t : Cell) (l : Nat) (sp st : Spec.SInfo), Shape p → Shape t → specInfo H p = some sp → specInfo H t = some st →
        (∀ x y, x ∈ reprs H p → y ∈ reprs H t → H x = H y → x = y) → sp.hashAt l = st.hashAt l → Agree H l p t
    | .mk kp bp rp, .mk kt bt rt, l, sp, st, shp, sht, hsp, hst, inj, hh => by
      rw [Agree]
      refine ⟨⟨sp, st, hsp, hst, hh⟩, ?_⟩
      obtain ⟨kP, ssP, hkp, hssp, rfl⟩ := specInfo_mk H kp bp rp sp hsp
      obtain ⟨kT, ssT, hkt, hsst, rfl⟩ := specInfo_mk H kt bt rt st hst
      have kshP := shape_kind H kp bp rp kP ssP shp hkp hssp
      have kshT := shape_kind H kt bt rt kT ssT sht hkt hsst
      by_cases pP : kP = .pruned
      · subst pP
        have hkp1 : kp = 1 := (kindCode_of_kindOf hkp).symm
        by_cases stP : Spec.popcount (pmaskOf bp % 2 ^ l) = Spec.popcount (pmaskOf bp)
        · rw [node_pruned_hashAt, if_pos stP] at hh
          by_cases pT : kT = .pruned
          · subst pT
            have hkt1 : kt = 1 := (kindCode_of_kindOf hkt).symm
            by_cases stT : Spec.popcount (pmaskOf bt % 2 ^ l) = Spec.popcount (pmaskOf bt)
            · rw [node_pruned_hashAt, if_pos stT] at hh
              have hr := inj _ _ (reprs_root_pruned H kp bp rp ssP hkp hssp) (reprs_root_pruned H kt bt rt ssT hkt hsst) hh
              have hb := pruned_vs_pruned bp bt _ _ hr
              have hrp := (shape_pruned kp bp rp shp hkp1).1
              have hrt := (shape_pruned kt bt rt sht hkt1).1
              subst hrp; subst hrt
              refine Or.inr (Or.inr ⟨by rw [hkp1, hkt1], hb, rfl, ?_⟩)
              intro _ _ L _ _
              rw [Agrees]
            · exact Or.inr (Or.inl ⟨hkt1, stT⟩)
          · exfalso
            rw [node_plain H kT bt ssT pT] at hh
            obtain ⟨L, _, sL, _, eL⟩ := plainHashAt_top H kT bt ssT (Spec.nodeMask kT bt ssT) l
            simp only at hh
            rw [eL] at hh
            have hr := inj _ _ (reprs_root_pruned H kp bp rp ssP hkp hssp) (reprs_root_plain H kt bt rt kT ssT hkt hsst pT L sL) hh
            exact pruned_vs_plain H bp _ (shape_pruned kp bp rp shp hkp1).2.1 kT bt ssT L pT kshT hr
        · exact Or.inl ⟨hkp1, stP⟩
      · by_cases pT : kT = .pruned
        · subst pT
          have hkt1 : kt = 1 := (kindCode_of_kindOf hkt).symm
          by_cases stT : Spec.popcount (pmaskOf bt % 2 ^ l) = Spec.popcount (pmaskOf bt)
          · exfalso
            rw [node_pruned_hashAt, if_pos stT, node_plain H kP bp ssP pP] at hh
            obtain ⟨L, _, sL, _, eL⟩ := plainHashAt_top H kP bp ssP (Spec.nodeMask kP bp ssP) l
            simp only at hh
            rw [eL] at hh
            have hr := inj _ _ (reprs_root_plain H kp bp rp kP ssP hkp hssp pP L sL) (reprs_root_pruned H kt bt rt ssT hkt hsst) hh
            exact pruned_vs_plain H bt _ (shape_pruned kt bt rt sht hkt1).2.1 kP bp ssP L pP kshP hr.symm
          · exact Or.inr (Or.inl ⟨hkt1, stT⟩)
        · refine Or.inr (Or.inr ?_)
          have shp' := shp; have sht' := sht
          rw [Shape] at shp' sht'
          rw [node_plain H kP bp ssP pP, node_plain H kT bt ssT pT] at hh
          simp only at hh
          obtain ⟨ek, eb, en, _, hkids⟩ := plain_binding H h32 kP kT bp bt ssP ssT _ _ pP pT kshP kshT
            (hashes_len H h32 rp ssP shp'.2.2 hssp) (hashes_len H h32 rt ssT sht'.2.2 hsst)
            (fun Lp Lt s1 s2 he => inj _ _ (reprs_root_plain H kp bp rp kP ssP hkp hssp pP Lp s1)
              (reprs_root_plain H kt bt rt kT ssT hkt hsst pT Lt s2) he) l hh
          subst ek
          refine ⟨?_, eb, ?_, ?_⟩
          · rw [← kindCode_of_kindOf hkp, ← kindCode_of_kindOf hkt]
          · rw [← specInfos_length H rp ssP hssp, ← specInfos_length H rt ssT hsst]; exact en
          · intro sp' hsp' L hL hsig
            rw [hsp] at hsp'
            cases hsp'
            rw [node_plain H kP bp ssP pP] at hsig
            simp only at hsig
            rw [muOf_eq hkp]
            exact bindings_aux H h32 rp rt (L + kP.mu) ssP ssT shp'.2.2 sht'.2.2 hssp hsst
              (fun x y hx hy => inj x y (reprs_kids H kp bp rp x hx) (reprs_kids H kt bt rt y hy)) (hkids L hL hsig).1
  theorem bindings_aux (H : Bytes → Bytes) (h32 : ∀ x, (H x).length = 32) :
      ∀ (ps ts : List Cell) (l : Nat) (sps sts : List Spec.SInfo), Shapes ps → Shapes ts →
        specInfos H ps = some sps → specInfos H ts = some sts →
        (∀ x y, x ∈ reprss H ps → y ∈ reprss H ts → H x = H y → x = y) →
        sps.map (fun c => c.hashAt l) = sts.map (fun c => c.hashAt l) → Agrees H l ps ts
    | [], ts, l, sps, sts, _, _, hsp, hst, _, hh => by
      rw [Agrees]
      simp only [specInfos, Option.some.injEq] at hsp
      subst hsp
      cases ts with
      | nil => rfl
      | cons t ts =>
        obtain ⟨s, ss0, _, _, rfl⟩ := specInfos_cons H t ts sts hst
        simp at hh
    | p :: ps, ts, l, sps, sts, mp, mt, hsp, hst, inj, hh => by
      rw [Agrees]
      obtain ⟨sp, sps0, hp1, hp2, rfl⟩ := specInfos_cons H p ps sps hsp
      cases ts with
      | nil =>
        simp only [specInfos, Option.some.injEq] at hst
        subst hst
        simp at hh
      | cons t ts =>
        obtain ⟨st, sts0, ht1, ht2, rfl⟩ := specInfos_cons H t ts sts hst
        rw [Shapes] at mp mt
        simp only [List.map_cons, List.cons.injEq] at hh
        exact ⟨t, ts, rfl,
          binding_aux H h32 p t l sp st mp.1 mt.1 hp1 ht1
            (fun x y hx hy => inj x y (by rw [reprss]; exact List.mem_append_left _ hx)
              (by rw [reprss]; exact List.mem_append_left _ hy)) hh.1,
          bindings_aux H h32 ps ts l sps0 sts0 mp.2 mt.2 hp2 ht2
            (fun x y hx hy => inj x y (by rw [reprss]; exact List.mem_append_right _ hx)
              (by rw [reprss]; exact List.mem_append_right _ hy)) hh.2⟩
end

/-! ### reading `Agree` along a path -/

/-- `AgreeAlong H π l p t`: follow the reference indices `π` simultaneously in `p` and `t`, starting at level `l` (a child
is looked at on level `μ(parent)`, the level of the parent's level-0 representation).  Until a pruned branch
answering with a stored hash is met on either side, both trees have the same number of references at every step, the
path exists in both or in neither, and the two cells reached `Agree`. -/
def AgreeAlong (H : Bytes → Bytes) : List Nat → Nat → Cell → Cell → Prop
  | [], l, p, t => Agree H l p t
  | i :: π, l, .mk kp bp rp, .mk kt bt rt =>
    StoredAt kp bp l ∨ StoredAt kt bt l ∨
      (rp.length = rt.length ∧ ∀ p' t', rp[i]? = some p' → rt[i]? = some t' → AgreeAlong H π (muOf kp) p' t')

theorem Agrees_get (H : Bytes → Bytes) : ∀ (ps ts : List Cell) (l : Nat), Agrees H l ps ts →
    ∀ (i : Nat) (p t : Cell), ps[i]? = some p → ts[i]? = some t → Agree H l p t
  | [], ts, l, h, i, p, t, hp, ht => by simp at hp
  | q :: ps, ts, l, h, i, p, t, hp, ht => by
    rw [Agrees] at h
    obtain ⟨u, ts', rfl, h1, h2⟩ := h
    cases i with
    | zero =>
      simp only [List.getElem?_cons_zero, Option.some.injEq] at hp ht
      subst hp; subst ht; exact h1
    | succ i =>
      simp only [List.getElem?_cons_succ] at hp ht
      exact Agrees_get H ps ts' l h2 i p t hp ht

/-- `Agree` at the roots gives agreement along EVERY path (every unpruned cell is reached by one) -/
theorem agree_along (H : Bytes → Bytes) : ∀ (π : List Nat) (l : Nat) (p t : Cell), Agree H l p t → AgreeAlong H π l p t
  | [], l, p, t, h => by rw [AgreeAlong]; exact h
  | i :: π, l, .mk kp bp rp, .mk kt bt rt, h => by
    rw [AgreeAlong]
    have h' := h
    rw [Agree] at h'
    obtain ⟨⟨sp, st, hsp, hst, hh⟩, hc⟩ := h'
    rcases hc with h1 | h1 | ⟨ek, eb, en, hk⟩
    · exact Or.inl h1
    · exact Or.inr (Or.inl h1)
    · refine Or.inr (Or.inr ⟨en, ?_⟩)
      intro p' t' hp' ht'
      have hkids := hk sp hsp 0 (Nat.zero_le _) (sigB_zero _)
      rw [Nat.zero_add] at hkids
      exact agree_along H π (muOf kp) p' t' (Agrees_get H rp rt _ hkids i p' t' hp' ht')

end TonVerif.Proofs.Binding
