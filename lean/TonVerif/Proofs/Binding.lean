/-
General binding (soundness core of C11): equal level-`l` hashes pin down every unpruned cell, for trees WITH inner
Merkle proof/update cells and for every level `l`.

The level-`l` hash of a non-pruned cell is `H` of its representation at the highest significant level `L ≤ l`
(`plainHashAt_top`); that representation holds the descriptor bytes (reference count, exotic flag, `mask % 2^L`,
bit-length descriptor), then the data bytes (L = 0) or the hash at level `L-1` (L > 0: hash chaining), then depths and
hashes of the children at level `L + μ`.  Under a LOCAL no-collision hypothesis on the representations occurring in the
two trees, equal hashes give equal representations, which give: same `L`, same kind, same bit string
(`Pad.dataBytes_inj`), same number of children, equal child hashes at level `L + μ` — and, through the chained hash,
the same again for every significant level below (`plain_binding`, induction on the level).  `binding_aux` is the
induction over the tree.
-/
import TonVerif.Proofs.Merkle
import TonVerif.Proofs.Pad

namespace TonVerif.Proofs.Binding
open TonVerif TonVerif.Model TonVerif.Proofs.CellSpec TonVerif.Proofs.Prune TonVerif.Proofs.Merkle TonVerif.Proofs.Pad

set_option linter.unusedSimpArgs false
set_option linter.unusedVariables false

/-! ### significant levels and the representation at a level -/

/-- level `L` is significant for the level mask `m`: level 0 always, level `j+1` iff bit `j` is set -/
def sigB (m L : Nat) : Bool := L == 0 || m.testBit (L - 1)

/-- what is hashed in place of the data at level `L`: the data bytes at level 0, the level-`(L-1)` hash above -/
def payload (H : Bytes → Bytes) (k : Spec.Kind) (bits : Bits) (ss : List Spec.SInfo) (m : Nat) : Nat → Bytes
  | 0 => Spec.dataBytes bits
  | j+1 => Spec.plainHashAt H k bits ss m j

/-- the representation of a non-pruned cell at level `L` -/
def reprAt (H : Bytes → Bytes) (k : Spec.Kind) (bits : Bits) (ss : List Spec.SInfo) (m L : Nat) : Bytes :=
  [Spec.d1 ss.length k.isExotic (m % 2 ^ L), Spec.d2 bits.length] ++ payload H k bits ss m L ++ Spec.childPart ss (L + k.mu)

/-- the representation of a pruned-branch cell (all levels at which it does not answer with a stored hash) -/
def prunedRepr (bits : Bits) (m : Nat) : Bytes := [Spec.d1 0 true m, Spec.d2 bits.length] ++ Spec.dataBytes bits

theorem sigB_zero (m : Nat) : sigB m 0 = true := by simp [sigB]

theorem sigB_succ (m j : Nat) : sigB m (j+1) = m.testBit j := by simp [sigB]

theorem plainHashAt_zero_repr (H : Bytes → Bytes) (k : Spec.Kind) (bits : Bits) (ss : List Spec.SInfo) (m : Nat) :
    Spec.plainHashAt H k bits ss m 0 = H (reprAt H k bits ss m 0) := by
  have e : m % 2 ^ 0 = 0 := by rw [Nat.pow_zero, Nat.mod_one]
  simp only [Spec.plainHashAt, reprAt, payload, e]

theorem plainHashAt_succ_repr (H : Bytes → Bytes) (k : Spec.Kind) (bits : Bits) (ss : List Spec.SInfo) (m l : Nat)
    (h : m.testBit l = true) : Spec.plainHashAt H k bits ss m (l+1) = H (reprAt H k bits ss m (l+1)) := by
  simp only [Spec.plainHashAt, reprAt, payload, h, if_true]

theorem plainHashAt_succ_skip (H : Bytes → Bytes) (k : Spec.Kind) (bits : Bits) (ss : List Spec.SInfo) (m l : Nat)
    (h : m.testBit l = false) : Spec.plainHashAt H k bits ss m (l+1) = Spec.plainHashAt H k bits ss m l := by
  simp only [Spec.plainHashAt, h, Bool.false_eq_true, if_false]

/-- the level-`l` hash is `H` of the representation at the highest significant level `L ≤ l` -/
theorem plainHashAt_top (H : Bytes → Bytes) (k : Spec.Kind) (bits : Bits) (ss : List Spec.SInfo) (m : Nat) :
    ∀ l, ∃ L, L ≤ l ∧ sigB m L = true ∧ (∀ j, L ≤ j → j < l → m.testBit j = false) ∧
      Spec.plainHashAt H k bits ss m l = H (reprAt H k bits ss m L) := by
  intro l
  induction l with
  | zero => exact ⟨0, Nat.le_refl _, sigB_zero m, fun j h1 h2 => by omega, plainHashAt_zero_repr H k bits ss m⟩
  | succ l ih =>
    by_cases htb : m.testBit l = true
    · exact ⟨l+1, Nat.le_refl _, by rw [sigB_succ]; exact htb, fun j h1 h2 => by omega,
        plainHashAt_succ_repr H k bits ss m l htb⟩
    · have htb' : m.testBit l = false := by simpa using htb
      obtain ⟨L, h1, h2, h3, h4⟩ := ih
      refine ⟨L, by omega, h2, ?_, ?_⟩
      · intro j hj1 hj2
        by_cases hjl : j = l
        · subst hjl; exact htb'
        · exact h3 j hj1 (by omega)
      · rw [plainHashAt_succ_skip H k bits ss m l htb']; exact h4

theorem plainHashAt_len (H : Bytes → Bytes) (h32 : ∀ x, (H x).length = 32) (k : Spec.Kind) (bits : Bits)
    (ss : List Spec.SInfo) (m : Nat) : ∀ l, (Spec.plainHashAt H k bits ss m l).length = 32 := by
  intro l
  obtain ⟨L, _, _, _, e⟩ := plainHashAt_top H k bits ss m l
  rw [e]; exact h32 _

/-! ### level arithmetic -/

theorem sig_mod_top (m L : Nat) (hs : sigB m L = true) (hL : 0 < L) : (m % 2 ^ L).testBit (L - 1) = true := by
  obtain ⟨j, rfl⟩ : ∃ j, L = j + 1 := ⟨L - 1, by omega⟩
  rw [sigB_succ] at hs
  rw [Nat.testBit_mod_two_pow]
  simp [hs]

theorem sig_level_le (a b La Lb : Nat) (ha : sigB a La = true) (hb : sigB b Lb = true)
    (he : a % 2 ^ La = b % 2 ^ Lb) : Lb ≤ La := by
  by_cases h : Lb ≤ La
  · exact h
  · exfalso
    have h1 := sig_mod_top b Lb hb (by omega)
    rw [← he] at h1
    have h2 : a % 2 ^ La < 2 ^ (Lb - 1) :=
      Nat.lt_of_lt_of_le (Nat.mod_lt _ (Nat.two_pow_pos _)) (Nat.pow_le_pow_right (by decide) (by omega))
    rw [Nat.testBit_lt_two_pow h2] at h1
    cases h1

/-- two significant levels with the same applied mask are the same level -/
theorem sig_level_eq (a b La Lb : Nat) (ha : sigB a La = true) (hb : sigB b Lb = true)
    (he : a % 2 ^ La = b % 2 ^ Lb) : La = Lb :=
  Nat.le_antisymm (sig_level_le b a Lb La hb ha he.symm) (sig_level_le a b La Lb ha hb he)

theorem mod_of_clear (m L l : Nat) (hLl : L ≤ l) (h : ∀ j, L ≤ j → j < l → m.testBit j = false) :
    m % 2 ^ l = m % 2 ^ L := by
  apply Nat.eq_of_testBit_eq
  intro i
  rw [Nat.testBit_mod_two_pow, Nat.testBit_mod_two_pow]
  by_cases hi : i < L
  · have : i < l := by omega
    simp [hi, this]
  · by_cases hil : i < l
    · simp [hi, hil, h i (by omega) hil]
    · simp [hi, hil]

/-! ### splitting a representation -/

theorem d1_inj (nP nT : Nat) (eP eT : Bool) (mP mT : Nat) (hP : nP ≤ 4) (hT : nT ≤ 4)
    (h : Spec.d1 nP eP mP = Spec.d1 nT eT mT) : nP = nT ∧ eP = eT ∧ mP = mT := by
  unfold Spec.d1 at h
  cases eP <;> cases eT <;> simp at h ⊢ <;> omega

theorem map_be2_length (ss : List Spec.SInfo) (cl : Nat) :
    ((ss.map (fun c => Spec.be2 (c.depthAt cl))).flatten).length = 2 * ss.length := by
  rw [length_flatten_const 2 _ (by
    intro x hx; simp only [List.mem_map] at hx; obtain ⟨c, _, rfl⟩ := hx; simp [Spec.be2])]
  simp

theorem childPart_inj (ssP ssT : List Spec.SInfo) (cl cl' : Nat) (hn : ssP.length = ssT.length)
    (hP : ∀ c ∈ ssP, (c.hashAt cl).length = 32) (hT : ∀ c ∈ ssT, (c.hashAt cl').length = 32)
    (h : Spec.childPart ssP cl = Spec.childPart ssT cl') :
    ssP.map (fun c => c.hashAt cl) = ssT.map (fun c => c.hashAt cl') ∧
    ssP.map (fun c => Spec.be2 (c.depthAt cl)) = ssT.map (fun c => Spec.be2 (c.depthAt cl')) := by
  simp only [Spec.childPart] at h
  have hdep : ((ssP.map (fun c => Spec.be2 (c.depthAt cl))).flatten).length
      = ((ssT.map (fun c => Spec.be2 (c.depthAt cl'))).flatten).length := by
    rw [map_be2_length, map_be2_length, hn]
  obtain ⟨e1, e2⟩ := List.append_inj h hdep
  constructor
  · apply flatten_inj 32 _ _ (by simp [hn]) _ _ e2
    · intro x hx; simp only [List.mem_map] at hx; obtain ⟨c, hc, rfl⟩ := hx; exact hP c hc
    · intro x hx; simp only [List.mem_map] at hx; obtain ⟨c, hc, rfl⟩ := hx; exact hT c hc
  · apply flatten_inj 2 _ _ (by simp [hn]) _ _ e1
    · intro x hx; simp only [List.mem_map] at hx; obtain ⟨c, _, rfl⟩ := hx; simp [Spec.be2]
    · intro x hx; simp only [List.mem_map] at hx; obtain ⟨c, _, rfl⟩ := hx; simp [Spec.be2]

/-- which numbers of references the exotic kinds have -/
def KindShape (k : Spec.Kind) (n : Nat) : Prop :=
  n ≤ 4 ∧ (k = .pruned → n = 0) ∧ (k = .library → n = 0) ∧ (k = .merkleProof → n = 1) ∧ (k = .merkleUpdate → n = 2)

theorem kind_of_shape (kP kT : Spec.Kind) (n : Nat) (npP : kP ≠ .pruned) (npT : kT ≠ .pruned)
    (shP : KindShape kP n) (shT : KindShape kT n) (hex : kP.isExotic = kT.isExotic) : kP = kT := by
  obtain ⟨_, _, p2, p3, p4⟩ := shP
  obtain ⟨_, _, t2, t3, t4⟩ := shT
  cases kP <;> cases kT <;> first
    | rfl
    | exact absurd rfl npP
    | exact absurd rfl npT
    | (have a := p2 rfl; have b := t3 rfl; omega)
    | (have a := p2 rfl; have b := t4 rfl; omega)
    | (have a := p3 rfl; have b := t2 rfl; omega)
    | (have a := p3 rfl; have b := t4 rfl; omega)
    | (have a := p4 rfl; have b := t2 rfl; omega)
    | (have a := p4 rfl; have b := t3 rfl; omega)
    | (exfalso; simp [Spec.Kind.isExotic] at hex)

/-- the pieces of a representation -/
theorem reprAt_split (H : Bytes → Bytes) (kP kT : Spec.Kind) (bP bT : Bits) (ssP ssT : List Spec.SInfo) (mP mT Lp Lt : Nat)
    (h : reprAt H kP bP ssP mP Lp = reprAt H kT bT ssT mT Lt) :
    Spec.d1 ssP.length kP.isExotic (mP % 2 ^ Lp) = Spec.d1 ssT.length kT.isExotic (mT % 2 ^ Lt) ∧
    Spec.d2 bP.length = Spec.d2 bT.length ∧
    payload H kP bP ssP mP Lp ++ Spec.childPart ssP (Lp + kP.mu) = payload H kT bT ssT mT Lt ++ Spec.childPart ssT (Lt + kT.mu) := by
  simp only [reprAt, List.cons_append, List.nil_append, List.cons.injEq, List.append_assoc] at h
  exact ⟨h.1, h.2.1, h.2.2⟩

/-! ### one pair of non-pruned cells, all levels -/

/-- NODE BINDING. Two non-pruned cells (kinds with their proper reference counts, children with 32-byte hashes) whose
level-`l` hashes coincide, when `H` does not collide between their representations at significant levels: same kind,
same BIT STRING, same number of references, level masks equal below `l`, and at every significant level `L ≤ l` the
children have pairwise equal hashes (and stored depths) at level `L + μ`. -/
theorem plain_binding (H : Bytes → Bytes) (h32 : ∀ x, (H x).length = 32)
    (kP kT : Spec.Kind) (bP bT : Bits) (ssP ssT : List Spec.SInfo) (mP mT : Nat)
    (npP : kP ≠ .pruned) (npT : kT ≠ .pruned) (shP : KindShape kP ssP.length) (shT : KindShape kT ssT.length)
    (hlP : ∀ c ∈ ssP, ∀ l, (c.hashAt l).length = 32) (hlT : ∀ c ∈ ssT, ∀ l, (c.hashAt l).length = 32)
    (nocoll : ∀ Lp Lt, sigB mP Lp = true → sigB mT Lt = true →
      H (reprAt H kP bP ssP mP Lp) = H (reprAt H kT bT ssT mT Lt) → reprAt H kP bP ssP mP Lp = reprAt H kT bT ssT mT Lt) :
    ∀ l, Spec.plainHashAt H kP bP ssP mP l = Spec.plainHashAt H kT bT ssT mT l →
      kP = kT ∧ bP = bT ∧ ssP.length = ssT.length ∧ mP % 2 ^ l = mT % 2 ^ l ∧
      ∀ L, L ≤ l → sigB mP L = true →
        ssP.map (fun c => c.hashAt (L + kP.mu)) = ssT.map (fun c => c.hashAt (L + kT.mu)) ∧
        ssP.map (fun c => Spec.be2 (c.depthAt (L + kP.mu))) = ssT.map (fun c => Spec.be2 (c.depthAt (L + kT.mu))) := by
  intro l
  induction l using Nat.strongRecOn with
  | _ l ih =>
    intro hh
    obtain ⟨Lp, hLp, sP, cP, eP⟩ := plainHashAt_top H kP bP ssP mP l
    obtain ⟨Lt, hLt, sT, cT, eT⟩ := plainHashAt_top H kT bT ssT mT l
    rw [eP, eT] at hh
    obtain ⟨hd1, hd2, hrest⟩ := reprAt_split H kP kT bP bT ssP ssT mP mT Lp Lt (nocoll Lp Lt sP sT hh)
    obtain ⟨hn, hex, hmm⟩ := d1_inj _ _ _ _ _ _ shP.1 shT.1 hd1
    have hk : kP = kT := kind_of_shape kP kT ssP.length npP npT shP (hn ▸ shT) hex
    have hL : Lp = Lt := sig_level_eq mP mT Lp Lt sP sT hmm
    subst hL
    subst hk
    have hmask : mP % 2 ^ l = mT % 2 ^ l := by
      rw [mod_of_clear mP Lp l hLp cP, mod_of_clear mT Lp l hLt cT, hmm]
    -- no significant level strictly between Lp and l
    have hnosig : ∀ L, Lp < L → L ≤ l → sigB mP L = true → False := by
      intro L h1 h2 h3
      obtain ⟨j, rfl⟩ : ∃ j, L = j + 1 := ⟨L - 1, by omega⟩
      rw [sigB_succ] at h3
      have := cP j (by omega) (by omega)
      rw [this] at h3; cases h3
    cases Lp with
    | zero =>
      simp only [payload] at hrest
      have hdl : (Spec.dataBytes bP).length = (Spec.dataBytes bT).length := by
        rw [length_dataBytes, length_dataBytes]
        have := (d2_aligned_iff _ _ hd2)
        omega
      obtain ⟨e1, e2⟩ := List.append_inj hrest hdl
      have hbits : bP = bT := dataBytes_inj bP bT hd2 e1
      obtain ⟨c1, c2⟩ := childPart_inj ssP ssT _ _ hn (fun c hc => hlP c hc _) (fun c hc => hlT c hc _) e2
      refine ⟨rfl, hbits, hn, hmask, ?_⟩
      intro L hL1 hL2
      by_cases hL0 : L = 0
      · subst hL0; exact ⟨c1, c2⟩
      · exact (hnosig L (by omega) hL1 hL2).elim
    | succ j =>
      simp only [payload] at hrest
      have hpl : (Spec.plainHashAt H kP bP ssP mP j).length = (Spec.plainHashAt H kP bT ssT mT j).length := by
        rw [plainHashAt_len H h32, plainHashAt_len H h32]
      obtain ⟨e1, e2⟩ := List.append_inj hrest hpl
      obtain ⟨c1, c2⟩ := childPart_inj ssP ssT _ _ hn (fun c hc => hlP c hc _) (fun c hc => hlT c hc _) e2
      obtain ⟨_, hbits, _, _, hlow⟩ := ih j (by omega) e1
      refine ⟨rfl, hbits, hn, hmask, ?_⟩
      intro L hL1 hL2
      by_cases hLj : L ≤ j
      · exact hlow L hLj hL2
      · by_cases hLe : L = j + 1
        · subst hLe; exact ⟨c1, c2⟩
        · exact (hnosig L (by omega) hL1 hL2).elim

end TonVerif.Proofs.Binding
