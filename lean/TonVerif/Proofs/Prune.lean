/-
Merkle pruning invariance (C02, second half), proved on the SPEC level (Spec/Cell.lean) and
connected to the model (`Cell.info`) through `tree_agrees`.

`PruneRel H d t t'` : `t'` is `t` with any set of subtrees replaced by pruned-branch cells.  A subtree `s`
at a position with `d` enclosing Merkle cells (the virtual outer proof counted) becomes the pruned branch
with level mask `(mask s % 2^(d-1)) ||| 2^(d-1)` that carries `hashAt s l`, `depthAt s l` for the
significant levels `l < d` (TON `CellBuilder::create_pruned_branch`).  Below a Merkle cell `d` grows by 1.

`prune_invariant` : for all `l < d` the level-`l` hash and depth of `t'` are those of `t`, and the level masks
agree below bit `l`.  No assumption on the hash function `H` is used, except what makes the pruned cell
well formed: the carried hashes are 32 valid bytes and the carried depths fit 2 bytes (`Prunable`).
-/
import TonVerif.Proofs.CellSpec

namespace TonVerif.Proofs.Prune
open TonVerif TonVerif.Model TonVerif.Proofs.CellSpec

set_option linter.unusedSimpArgs false
set_option linter.unusedVariables false

/-! ### bits <-> bytes -/

theorem natOfBits_append_one (xs : Bits) (b : Bool) : natOfBits (xs ++ [b]) = natOfBits xs * 2 + (if b then 1 else 0) := by
  simp [natOfBits, List.foldl_append]

theorem length_natToBits (w : Nat) : ∀ v, (natToBits w v).length = w := by
  induction w with
  | zero => intro v; rfl
  | succ w ih => intro v; simp [natToBits, ih]

theorem natOfBits_natToBits (w : Nat) : ∀ v, v < 2 ^ w → natOfBits (natToBits w v) = v := by
  induction w with
  | zero => intro v hv; simp at hv; subst hv; rfl
  | succ w ih =>
    intro v hv
    rw [natToBits, natOfBits_append_one, ih (v / 2) (by rw [Nat.pow_succ] at hv; omega)]
    have : v % 2 = 0 ∨ v % 2 = 1 := by omega
    rcases this with h | h <;> simp [h] <;> omega

theorem length_byteToBits (b : Nat) : (byteToBits b).length = 8 := length_natToBits 8 b

theorem length_bytesToBits (bs : Bytes) : (bytesToBits bs).length = 8 * bs.length := by
  induction bs with
  | nil => rfl
  | cons b bs ih =>
    simp only [bytesToBits, List.flatMap_cons, List.length_append, length_byteToBits, List.length_cons] at ih ⊢
    omega

theorem bytesToBits_cons (b : Nat) (bs : Bytes) : bytesToBits (b :: bs) = byteToBits b ++ bytesToBits bs := by
  simp [bytesToBits]

theorem bitsToBytes_byte (b : Nat) (hb : b < 256) (rest : Bits) :
    bitsToBytes (byteToBits b ++ rest) = b :: bitsToBytes rest := by
  have hl := length_byteToBits b
  cases h : byteToBits b with
  | nil => rw [h] at hl; simp at hl
  | cons b0 r0 =>
    rw [List.cons_append, bitsToBytes]
    rw [← List.cons_append, ← h]
    have e1 : List.take 8 (byteToBits b ++ rest) = byteToBits b := List.take_left' hl
    have e2 : List.drop 8 (byteToBits b ++ rest) = rest := List.drop_left' hl
    rw [e1, e2, hl]
    simp only [Nat.sub_self, List.replicate_zero, List.append_nil]
    congr 1
    exact natOfBits_natToBits 8 b (by omega)

theorem bitsToBytes_bytesToBits (bs : Bytes) (h : Bytes.WF bs) : bitsToBytes (bytesToBits bs) = bs := by
  induction bs with
  | nil => simp [bytesToBits, bitsToBytes]
  | cons b bs ih =>
    rw [bytesToBits_cons, bitsToBytes_byte b (h b (by simp)), ih (fun x hx => h x (by simp [hx]))]

/-- a cell whose data is a whole number of bytes has exactly these bytes as its data -/
theorem dataBytes_bytesToBits (bs : Bytes) (h : Bytes.WF bs) : Spec.dataBytes (bytesToBits bs) = bs := by
  unfold Spec.dataBytes Spec.padBits
  rw [length_bytesToBits, if_pos (by omega), bitsToBytes_bytesToBits bs h]

/-- the second byte, read as the pruned-branch level mask -/
theorem maskByte_bytesToBits (a m : Nat) (rest : Bytes) (hm : m < 256) :
    natOfBits (((bytesToBits (a :: m :: rest)).drop 8).take 8) = m := by
  rw [bytesToBits_cons, bytesToBits_cons, List.drop_left' (length_byteToBits a), List.take_left' (length_byteToBits m)]
  exact natOfBits_natToBits 8 m (by omega)

/-! ### slices of a concatenation of equally long fields -/

theorem slice_flatten (w : Nat) : ∀ (xs : List Bytes) (i : Nat) (h : Bytes) (pre post : Bytes),
    (∀ x ∈ xs, x.length = w) → xs[i]? = some h →
    ((pre ++ xs.flatten ++ post).take (pre.length + w * (i + 1))).drop (pre.length + w * i) = h := by
  intro xs
  induction xs with
  | nil => intro i h pre post _ hi; simp at hi
  | cons x xs ih =>
    intro i h pre post hw hi
    have hx : x.length = w := hw x (by simp)
    cases i with
    | zero =>
      simp only [List.getElem?_cons_zero, Option.some.injEq] at hi
      subst hi
      simp only [List.flatten_cons, Nat.mul_zero, Nat.add_zero, Nat.zero_add, Nat.mul_one]
      rw [List.append_assoc, List.append_assoc, List.take_length_add_append, List.drop_left' rfl]
      rw [List.take_left' hx]
    | succ i =>
      simp only [List.getElem?_cons_succ] at hi
      have := ih i h (pre ++ x) post (fun y hy => hw y (by simp [hy])) hi
      simp only [List.length_append, hx] at this
      simp only [List.flatten_cons]
      rw [← List.append_assoc pre x]
      have e1 : pre.length + w * (i + 1 + 1) = pre.length + w + w * (i + 1) := by
        rw [Nat.mul_add w (i+1) 1]; omega
      have e2 : pre.length + w * (i + 1) = pre.length + w + w * i := by
        rw [Nat.mul_add w i 1]; omega
      rw [e1, e2]
      exact this

theorem length_flatten_const (w : Nat) : ∀ (xs : List Bytes), (∀ x ∈ xs, x.length = w) → xs.flatten.length = w * xs.length := by
  intro xs
  induction xs with
  | nil => intro _; simp
  | cons x xs ih =>
    intro h
    simp only [List.flatten_cons, List.length_append, List.length_cons, h x (by simp), ih (fun y hy => h y (by simp [hy]))]
    rw [Nat.mul_add]; omega

theorem natOfBE_be2 (x : Nat) (h : x < 65536) : natOfBE (Spec.be2 x) = x := by
  simp [natOfBE, Spec.be2]; omega

/-! ### the values of the significant levels below `n` -/

/-- `[f l | l < n, l significant for mask]` (level 0 is always significant; level l+1 iff bit l of the mask) -/
def sigList {α : Type} (f : Nat → α) (mask : Nat) : Nat → List α
  | 0 => []
  | 1 => [f 0]
  | n+2 => sigList f mask (n+1) ++ (if mask.testBit n then [f (n+1)] else [])

theorem sigList_length {α : Type} (f : Nat → α) (mask : Nat) : ∀ n, (sigList f mask (n+1)).length = popcount (mask % 2 ^ n) + 1 := by
  intro n
  induction n with
  | zero => simp [sigList, Nat.mod_one, popcount]
  | succ n ih =>
    rw [sigList, List.length_append, ih, popcount_mod_succ]
    split <;> simp

theorem sigList_get {α : Type} (f : Nat → α) (mask : Nat)
    (mono : ∀ j, mask.testBit j = false → f (j+1) = f j) :
    ∀ n l, l ≤ n → (sigList f mask (n+1))[popcount (mask % 2 ^ l)]? = some (f l) := by
  intro n
  induction n with
  | zero =>
    intro l hl
    have : l = 0 := by omega
    subst this
    simp [sigList, Nat.mod_one, popcount]
  | succ n ih =>
    intro l hl
    rw [sigList]
    have hlen := sigList_length f mask n
    by_cases hl' : l ≤ n
    · have hmono := popcount_mod_mono mask hl'
      rw [List.getElem?_append_left (by omega)]
      exact ih l hl'
    · have : l = n + 1 := by omega
      subst this
      have hpc := popcount_mod_succ n mask
      by_cases htb : mask.testBit n = true
      · rw [if_pos htb] at hpc ⊢
        rw [List.getElem?_append_right (by omega)]
        have : popcount (mask % 2 ^ (n + 1)) - (sigList f mask (n + 1)).length = 0 := by omega
        rw [this]; rfl
      · have htb' : mask.testBit n = false := by simpa using htb
        rw [if_neg htb] at hpc
        rw [if_neg htb, List.append_nil, hpc, Nat.add_zero, mono n htb']
        exact ih n (Nat.le_refl _)

theorem sigList_mem {α : Type} (f : Nat → α) (mask : Nat) (P : α → Prop) :
    ∀ n, (∀ l < n, P (f l)) → ∀ x ∈ sigList f mask n, P x := by
  intro n
  induction n using Nat.strongRecOn with
  | _ n ih =>
    match n with
    | 0 => intro _ x hx; simp [sigList] at hx
    | 1 => intro h x hx; simp [sigList] at hx; subst hx; exact h 0 (by omega)
    | n+2 =>
      intro h x hx
      rw [sigList, List.mem_append] at hx
      rcases hx with hx | hx
      · exact ih (n+1) (by omega) (fun l hl => h l (by omega)) x hx
      · split at hx
        · simp at hx; subst hx; exact h (n+1) (by omega)
        · simp at hx

/-- the level mask of a sigList only matters below `n - 1` -/
theorem sigList_congr {α : Type} (f : Nat → α) (m m' : Nat) :
    ∀ n, (∀ j, j + 1 < n → m.testBit j = m'.testBit j) → sigList f m n = sigList f m' n := by
  intro n
  induction n using Nat.strongRecOn with
  | _ n ih =>
    match n with
    | 0 => intro _; rfl
    | 1 => intro _; rfl
    | n+2 =>
      intro h
      rw [sigList, sigList, ih (n+1) (by omega) (fun j hj => h j (by omega)), h n (by omega)]

/-! ### the pruned-branch cell of a subtree -/

/-- level mask of the pruned branch that replaces a cell of mask `m` under `d` Merkle cells -/
def pmask (d m : Nat) : Nat := (m % 2 ^ (d - 1)) ||| 2 ^ (d - 1)

theorem pmask_eq_add (d m : Nat) : pmask d m = 2 ^ (d - 1) + m % 2 ^ (d - 1) := by
  have := Nat.two_pow_add_eq_or_of_lt (i := d - 1) (b := m % 2 ^ (d - 1)) (Nat.mod_lt _ (Nat.two_pow_pos _)) 1
  rw [Nat.mul_one] at this
  rw [pmask, Nat.or_comm, this]

theorem pmask_mod (d m l : Nat) (h : l + 1 ≤ d) : pmask d m % 2 ^ l = m % 2 ^ l := by
  rw [pmask_eq_add]
  have e : 2 ^ (d - 1) = 2 ^ l * 2 ^ (d - 1 - l) := by rw [← Nat.pow_add]; congr 1; omega
  rw [e, Nat.mul_add_mod, Nat.mod_mul_right_mod]

theorem popcount_two_pow_add (k : Nat) : ∀ x, x < 2 ^ k → popcount (2 ^ k + x) = popcount x + 1 := by
  induction k with
  | zero => intro x hx; have : x = 0 := by simpa using hx
            subst this; simp [popcount]
  | succ k ih =>
    intro x hx
    rw [popcount_unfold (2 ^ (k+1) + x), popcount_unfold x]
    have e1 : (2 ^ (k+1) + x) % 2 = x % 2 := by rw [Nat.pow_succ]; omega
    have e2 : (2 ^ (k+1) + x) / 2 = 2 ^ k + x / 2 := by rw [Nat.pow_succ]; omega
    rw [e1, e2, ih (x / 2) (by rw [Nat.pow_succ] at hx; omega)]
    omega

theorem popcount_pmask (d m : Nat) : popcount (pmask d m) = popcount (m % 2 ^ (d - 1)) + 1 := by
  rw [pmask_eq_add, popcount_two_pow_add _ _ (Nat.mod_lt _ (Nat.two_pow_pos _))]

theorem pmask_lt (d m : Nat) (hd : d ≤ 3) : pmask d m < 8 := by
  rw [pmask_eq_add]
  have h := Nat.mod_lt m (Nat.two_pow_pos (d - 1))
  have : d - 1 = 0 ∨ d - 1 = 1 ∨ d - 1 = 2 := by omega
  rcases this with e | e | e <;> rw [e] at h ⊢ <;> omega

theorem pmask_pos (d m : Nat) : 1 ≤ pmask d m := by
  rw [pmask_eq_add]; have := Nat.two_pow_pos (d - 1); omega

/-- the data bytes of the pruned branch: tag 1, mask, the hashes then the depths of the significant levels `< d` -/
def prunedData (d : Nat) (s : Spec.SInfo) : Bytes :=
  [1, pmask d s.mask] ++ (sigList s.hashAt s.mask d).flatten ++ (sigList (fun l => Spec.be2 (s.depthAt l)) s.mask d).flatten

/-- the pruned-branch cell that replaces a subtree with spec values `s` under `d` Merkle cells -/
def prunedCell (d : Nat) (s : Spec.SInfo) : Cell := .mk 1 (bytesToBits (prunedData d s)) []

/-- what must hold of a subtree to prune it at Merkle depth `d` (1 ≤ d ≤ 3): the carried hashes are 32 valid
bytes, the carried depths fit two bytes, and hashes/depths only change at significant levels (true of every
spec cell, see `prunable_node`). -/
structure Prunable (d : Nat) (s : Spec.SInfo) : Prop where
  d_pos : 1 ≤ d
  d_le : d ≤ 3
  hlen : ∀ l, l < d → (s.hashAt l).length = 32 ∧ Bytes.WF (s.hashAt l)
  dlt : ∀ l, l < d → s.depthAt l < 65536
  mono : ∀ j, s.mask.testBit j = false → s.hashAt (j+1) = s.hashAt j ∧ s.depthAt (j+1) = s.depthAt j

/-- agreement of two spec cells below level `d` -/
def Inv (d : Nat) (s' s : Spec.SInfo) : Prop :=
  ∀ l, l < d → s'.hashAt l = s.hashAt l ∧ s'.depthAt l = s.depthAt l ∧ s'.mask % 2 ^ l = s.mask % 2 ^ l

theorem be2_wf (x : Nat) : Bytes.WF (Spec.be2 x) := by
  intro b hb
  simp [Spec.be2] at hb
  rcases hb with rfl | rfl <;> omega

theorem flatten_wf : ∀ (xs : List Bytes), (∀ x ∈ xs, Bytes.WF x) → Bytes.WF xs.flatten := by
  intro xs h b hb
  simp only [List.mem_flatten] at hb
  obtain ⟨x, hx, hbx⟩ := hb
  exact h x hx b hbx

theorem prunedData_wf (d : Nat) (s : Spec.SInfo) (hp : Prunable d s) : Bytes.WF (prunedData d s) := by
  intro b hb
  simp only [prunedData, List.mem_append, List.mem_cons, List.mem_nil_iff, or_false] at hb
  rcases hb with (((rfl | rfl) | hb) | hb)
  · omega
  · have := pmask_lt d s.mask hp.d_le; omega
  · exact flatten_wf _ (sigList_mem s.hashAt s.mask Bytes.WF d (fun l hl => (hp.hlen l hl).2)) b hb
  · exact flatten_wf _ (sigList_mem _ s.mask Bytes.WF d (fun l hl => be2_wf _)) b hb

/-- MAIN NODE LEMMA (pruning): the pruned branch of `s` for Merkle depth `d` has the mask bits, hashes and
depths of `s` at every level below `d`. -/
theorem prunedCell_inv (H : Bytes → Bytes) (d : Nat) (s : Spec.SInfo) (hp : Prunable d s) :
    Inv d (Spec.node H .pruned (bytesToBits (prunedData d s)) []) s := by
  obtain ⟨n, rfl⟩ : ∃ n, d = n + 1 := ⟨d - 1, by have := hp.d_pos; omega⟩
  have hwf := prunedData_wf _ s hp
  have hmask : Spec.nodeMask .pruned (bytesToBits (prunedData (n+1) s)) [] = pmask (n+1) s.mask := by
    have := pmask_lt (n+1) s.mask hp.d_le
    simp only [Spec.nodeMask, prunedData, List.cons_append, List.nil_append]
    exact maskByte_bytesToBits 1 _ _ (by omega)
  have hH : ∀ x ∈ sigList s.hashAt s.mask (n+1), x.length = 32 :=
    sigList_mem s.hashAt s.mask (fun (x : Bytes) => x.length = 32) (n+1) (fun l hl => (hp.hlen l hl).1)
  have hD : ∀ x ∈ sigList (fun l => Spec.be2 (s.depthAt l)) s.mask (n+1), x.length = 2 :=
    sigList_mem _ s.mask (fun (x : Bytes) => x.length = 2) (n+1) (fun l hl => by simp [Spec.be2])
  have hpc : popcount (pmask (n+1) s.mask) = popcount (s.mask % 2 ^ n) + 1 := by
    simpa using popcount_pmask (n+1) s.mask
  intro l hl
  have hle : l ≤ n := by omega
  have hmod := pmask_mod (n+1) s.mask l (by omega)
  have hmono := popcount_mod_mono s.mask hle
  have hne : ¬ (popcount (s.mask % 2 ^ l) = popcount (s.mask % 2 ^ n) + 1) := by omega
  refine ⟨?_, ?_, ?_⟩
  · show Spec.prunedHashAt H _ (Spec.nodeMask .pruned _ []) l = _
    rw [hmask]
    simp only [Spec.prunedHashAt, ← popcount_eq, hmod, hpc, hne, if_false, dataBytes_bytesToBits _ hwf]
    have hget := sigList_get s.hashAt s.mask (fun j hj => (hp.mono j hj).1) n l hle
    have := slice_flatten 32 _ _ _ [1, pmask (n+1) s.mask]
      (sigList (fun l => Spec.be2 (s.depthAt l)) s.mask (n+1)).flatten hH hget
    simpa [prunedData] using this
  · show Spec.prunedDepthAt _ (Spec.nodeMask .pruned _ []) l = _
    rw [hmask]
    simp only [Spec.prunedDepthAt, ← popcount_eq, hmod, hpc, hne, if_false, dataBytes_bytesToBits _ hwf]
    have hget := sigList_get (fun l => Spec.be2 (s.depthAt l)) s.mask
      (fun j hj => by simp only [(hp.mono j hj).2]) n l hle
    have hlenH : (sigList s.hashAt s.mask (n+1)).flatten.length = 32 * (popcount (s.mask % 2 ^ n) + 1) := by
      rw [length_flatten_const 32 _ hH, sigList_length]
    have := slice_flatten 2 _ _ _ ([1, pmask (n+1) s.mask] ++ (sigList s.hashAt s.mask (n+1)).flatten) [] hD hget
    simp only [List.append_nil, List.length_append, List.length_cons, List.length_nil, hlenH] at this
    have e1 : 2 + 32 * (popcount (s.mask % 2 ^ n) + 1) + 2 * popcount (s.mask % 2 ^ l) + 2
        = 0 + 1 + 1 + 32 * (popcount (s.mask % 2 ^ n) + 1) + 2 * (popcount (s.mask % 2 ^ l) + 1) := by omega
    have e2 : 2 + 32 * (popcount (s.mask % 2 ^ n) + 1) + 2 * popcount (s.mask % 2 ^ l)
        = 0 + 1 + 1 + 32 * (popcount (s.mask % 2 ^ n) + 1) + 2 * popcount (s.mask % 2 ^ l) := by omega
    rw [e1, e2]
    simp only [prunedData]
    rw [this]
    exact natOfBE_be2 _ (hp.dlt l hl)
  · show Spec.nodeMask .pruned _ [] % 2 ^ l = _
    rw [hmask, hmod]

/-! ### a kept node over pruned children -/

def InvList (d : Nat) : List Spec.SInfo → List Spec.SInfo → Prop
  | [], [] => True
  | s' :: ss', s :: ss => Inv d s' s ∧ InvList d ss' ss
  | _, _ => False

theorem InvList.length_eq {d : Nat} : ∀ {ss' ss}, InvList d ss' ss → ss'.length = ss.length
  | [], [], _ => rfl
  | _ :: _, _ :: _, h => by simp [InvList.length_eq h.2]
  | [], _ :: _, h => h.elim
  | _ :: _, [], h => h.elim

theorem InvList.hashes {d : Nat} : ∀ {ss' ss}, InvList d ss' ss → ∀ cl, cl < d →
    ss'.map (fun c => c.hashAt cl) = ss.map (fun c => c.hashAt cl)
  | [], [], _, _, _ => rfl
  | _ :: _, _ :: _, h, cl, hcl => by simp [(h.1 cl hcl).1, InvList.hashes h.2 cl hcl]
  | [], _ :: _, h, _, _ => h.elim
  | _ :: _, [], h, _, _ => h.elim

theorem InvList.depths {d : Nat} : ∀ {ss' ss}, InvList d ss' ss → ∀ cl, cl < d →
    ss'.map (fun c => c.depthAt cl) = ss.map (fun c => c.depthAt cl)
  | [], [], _, _, _ => rfl
  | _ :: _, _ :: _, h, cl, hcl => by simp [(h.1 cl hcl).2.1, InvList.depths h.2 cl hcl]
  | [], _ :: _, h, _, _ => h.elim
  | _ :: _, [], h, _, _ => h.elim

theorem InvList.masks {d : Nat} : ∀ {ss' ss}, InvList d ss' ss → ∀ l, l < d → ∀ a' a, a' % 2 ^ l = a % 2 ^ l →
    (ss'.foldl (fun m c => m ||| c.mask) a') % 2 ^ l = (ss.foldl (fun m c => m ||| c.mask) a) % 2 ^ l
  | [], [], _, _, _, _, _, ha => ha
  | _ :: _, _ :: _, h, l, hl, a', a, ha => by
    simp only [List.foldl_cons]
    apply InvList.masks h.2 l hl
    rw [Nat.or_mod_two_pow, Nat.or_mod_two_pow, ha, (h.1 l hl).2.2]
  | [], _ :: _, h, _, _, _, _, _ => h.elim
  | _ :: _, [], h, _, _, _, _, _ => h.elim

theorem InvList.childPart {d : Nat} {ss' ss} (h : InvList d ss' ss) (cl : Nat) (hcl : cl < d) :
    Spec.childPart ss' cl = Spec.childPart ss cl := by
  have h1 := h.hashes cl hcl
  have h2 := h.depths cl hcl
  have h3 : ss'.map (fun c => Spec.be2 (c.depthAt cl)) = ss.map (fun c => Spec.be2 (c.depthAt cl)) := by
    have := congrArg (List.map Spec.be2) h2
    simpa [List.map_map, Function.comp_def] using this
  simp only [Spec.childPart, h1, h3]

theorem InvList.depthOver {d : Nat} {ss' ss} (h : InvList d ss' ss) (cl : Nat) (hcl : cl < d) :
    Spec.depthOver ss' cl = Spec.depthOver ss cl := by
  have hl := h.length_eq
  have he : ss'.isEmpty = ss.isEmpty := by
    cases ss' <;> cases ss <;> simp_all
  simp only [Spec.depthOver, h.depths cl hcl, he]

theorem testBit_of_mod_eq {a b l : Nat} (h : a % 2 ^ (l+1) = b % 2 ^ (l+1)) : a.testBit l = b.testBit l := by
  have h1 := Nat.testBit_mod_two_pow a (l+1) l
  have h2 := Nat.testBit_mod_two_pow b (l+1) l
  simp only [Nat.lt_succ_self, decide_true, Bool.true_and] at h1 h2
  rw [← h1, ← h2, h]

theorem plainHashAt_inv (H : Bytes → Bytes) (k : Spec.Kind) (bits : Bits) (ss' ss : List Spec.SInfo) (m' m d : Nat)
    (h : InvList (d + k.mu) ss' ss) (hm : ∀ l, l < d → m' % 2 ^ l = m % 2 ^ l) :
    ∀ l, l < d → Spec.plainHashAt H k bits ss' m' l = Spec.plainHashAt H k bits ss m l := by
  intro l
  induction l with
  | zero =>
    intro hl
    simp only [Spec.plainHashAt, h.length_eq, h.childPart (0 + k.mu) (by omega)]
  | succ l ih =>
    intro hl
    have htb := testBit_of_mod_eq (hm (l+1) hl)
    simp only [Spec.plainHashAt, htb, h.length_eq, hm (l+1) hl, ih (by omega), h.childPart (l + 1 + k.mu) (by omega)]

theorem plainDepthAt_inv (k : Spec.Kind) (ss' ss : List Spec.SInfo) (m' m d : Nat)
    (h : InvList (d + k.mu) ss' ss) (hm : ∀ l, l < d → m' % 2 ^ l = m % 2 ^ l) :
    ∀ l, l < d → Spec.plainDepthAt k ss' m' l = Spec.plainDepthAt k ss m l := by
  intro l
  induction l with
  | zero =>
    intro hl
    simp only [Spec.plainDepthAt, h.depthOver (0 + k.mu) (by omega)]
  | succ l ih =>
    intro hl
    have htb := testBit_of_mod_eq (hm (l+1) hl)
    simp only [Spec.plainDepthAt, htb, ih (by omega), h.depthOver (l + 1 + k.mu) (by omega)]

theorem nodeMask_inv (k : Spec.Kind) (bits : Bits) (ss' ss : List Spec.SInfo) (d : Nat)
    (h : InvList (d + k.mu) ss' ss) :
    ∀ l, l < d → Spec.nodeMask k bits ss' % 2 ^ l = Spec.nodeMask k bits ss % 2 ^ l := by
  intro l hl
  cases k with
  | ordinary => exact h.masks l (by simp [Spec.Kind.mu] at *; omega) 0 0 rfl
  | pruned => rfl
  | library => rfl
  | merkleProof =>
    have := h.masks (l+1) (by simp [Spec.Kind.mu]; omega) 0 0 rfl
    simp only [Spec.nodeMask]
    rw [← Nat.mod_mul_right_div_self, ← Nat.mod_mul_right_div_self, ← Nat.pow_succ', this]
  | merkleUpdate =>
    have := h.masks (l+1) (by simp [Spec.Kind.mu]; omega) 0 0 rfl
    simp only [Spec.nodeMask]
    rw [← Nat.mod_mul_right_div_self, ← Nat.mod_mul_right_div_self, ← Nat.pow_succ', this]

/-- MAIN NODE LEMMA (keeping): a node over children that agree with the original children below level
`d + μ` agrees with the original node below level `d`. -/
theorem node_inv (H : Bytes → Bytes) (k : Spec.Kind) (bits : Bits) (ss' ss : List Spec.SInfo) (d : Nat)
    (h : InvList (d + k.mu) ss' ss) : Inv d (Spec.node H k bits ss') (Spec.node H k bits ss) := by
  by_cases hk : k = .pruned
  · subst hk
    intro l hl
    exact ⟨rfl, rfl, rfl⟩
  · rw [node_plain H k bits ss' hk, node_plain H k bits ss hk]
    have hm := nodeMask_inv k bits ss' ss d h
    intro l hl
    exact ⟨plainHashAt_inv H k bits ss' ss _ _ d h hm l hl, plainDepthAt_inv k ss' ss _ _ d h hm l hl, hm l hl⟩

/-! ### trees -/

mutual
  /-- `PruneRel H d t t'`: `t'` is `t` (living under `d` Merkle cells) with any set of subtrees replaced by
  their pruned branches; the whole of `t` may be replaced if `d ≥ 1`. Children of Merkle cells live under
  `d + 1` Merkle cells. Kept cells keep kind and data. -/
  def PruneRel (H : Bytes → Bytes) : Nat → Cell → Cell → Prop
    | d, .mk kind bits refs, t' =>
      (∃ s, specInfo H (.mk kind bits refs) = some s ∧ Prunable d s ∧ t' = prunedCell d s) ∨
      (∃ k refs', kindOf kind = some k ∧ t' = .mk kind bits refs' ∧ PruneRels H (d + k.mu) refs refs')
  def PruneRels (H : Bytes → Bytes) : Nat → List Cell → List Cell → Prop
    | _, [], ts' => ts' = []
    | d, t :: ts, ts' => ∃ t' ts'', ts' = t' :: ts'' ∧ PruneRel H d t t' ∧ PruneRels H d ts ts''
end

theorem specInfo_prunedCell (H : Bytes → Bytes) (d : Nat) (s : Spec.SInfo) :
    specInfo H (prunedCell d s) = some (Spec.node H .pruned (bytesToBits (prunedData d s)) []) := by
  simp [prunedCell, specInfo, specInfos, kindOf]

mutual
  theorem prune_inv_aux (H : Bytes → Bytes) : ∀ (t : Cell) (d : Nat) (t' : Cell) (s : Spec.SInfo),
      PruneRel H d t t' → specInfo H t = some s → ∃ s', specInfo H t' = some s' ∧ Inv d s' s
    | .mk kind bits refs, d, t', s, hrel, hs => by
      rw [PruneRel] at hrel
      rcases hrel with ⟨s0, hs0, hp, rfl⟩ | ⟨k, refs', hk, rfl, hrels⟩
      · rw [hs] at hs0; cases hs0
        exact ⟨_, specInfo_prunedCell H d s, prunedCell_inv H d s hp⟩
      · simp only [specInfo, hk, Option.bind_eq_bind, Option.bind_some] at hs
        cases hss : specInfos H refs with
        | none => rw [hss] at hs; cases hs
        | some ss =>
          rw [hss] at hs
          simp only [Option.bind_some, Option.pure_def, Option.some.injEq] at hs
          subst hs
          obtain ⟨ss', hss', hinv⟩ := prunes_inv_aux H refs (d + k.mu) refs' ss hrels hss
          refine ⟨Spec.node H k bits ss', ?_, node_inv H k bits ss' ss d hinv⟩
          simp [specInfo, hk, hss']
  theorem prunes_inv_aux (H : Bytes → Bytes) : ∀ (ts : List Cell) (d : Nat) (ts' : List Cell) (ss : List Spec.SInfo),
      PruneRels H d ts ts' → specInfos H ts = some ss → ∃ ss', specInfos H ts' = some ss' ∧ InvList d ss' ss
    | [], d, ts', ss, hrel, hs => by
      rw [PruneRels] at hrel
      subst hrel
      simp only [specInfos, Option.some.injEq] at hs
      subst hs
      exact ⟨[], by simp [specInfos], trivial⟩
    | t :: ts, d, ts', ss, hrel, hs => by
      rw [PruneRels] at hrel
      obtain ⟨t', ts'', rfl, h1, h2⟩ := hrel
      simp only [specInfos, Option.bind_eq_bind] at hs
      cases hst : specInfo H t with
      | none => rw [hst] at hs; cases hs
      | some s =>
        cases hsts : specInfos H ts with
        | none => rw [hst, hsts] at hs; cases hs
        | some ss0 =>
          rw [hst, hsts] at hs
          simp only [Option.bind_some, Option.pure_def, Option.some.injEq] at hs
          subst hs
          obtain ⟨s', hs', hi⟩ := prune_inv_aux H t d t' s h1 hst
          obtain ⟨ss', hss', his⟩ := prunes_inv_aux H ts d ts'' ss0 h2 hsts
          exact ⟨s' :: ss', by simp [specInfos, hs', hss'], ⟨hi, his⟩⟩
end

/-- PRUNING INVARIANCE (spec level): if `t'` is `t` with any subtrees pruned at Merkle depth `d`, then
`t'` has spec values, and at every level below `d` its hash, depth and mask bits are those of `t`. -/
theorem prune_invariant (H : Bytes → Bytes) (d : Nat) (t t' : Cell) (s : Spec.SInfo)
    (hrel : PruneRel H d t t') (hs : specInfo H t = some s) :
    ∃ s', specInfo H t' = some s' ∧
      ∀ l, l < d → s'.hashAt l = s.hashAt l ∧ s'.depthAt l = s.depthAt l ∧ s'.mask % 2 ^ l = s.mask % 2 ^ l :=
  prune_inv_aux H t d t' s hrel hs

/-! ### every spec cell can be pruned -/

theorem plainHashAt_length (H : Bytes → Bytes) (h32 : ∀ x, (H x).length = 32 ∧ Bytes.WF (H x)) (k bits kids mask) :
    ∀ l, (Spec.plainHashAt H k bits kids mask l).length = 32 ∧ Bytes.WF (Spec.plainHashAt H k bits kids mask l) := by
  intro l
  induction l with
  | zero => exact h32 _
  | succ l ih =>
    rw [Spec.plainHashAt]
    split
    · exact h32 _
    · exact ih

/-- a non-pruned spec-valid node can be pruned at any Merkle depth 1..3, provided `H` returns 32 valid bytes -/
theorem prunable_node (H : Bytes → Bytes) (h32 : ∀ x, (H x).length = 32 ∧ Bytes.WF (H x))
    (k : Spec.Kind) (bits : Bits) (kids : List Spec.SInfo) (hk : k ≠ .pruned) (wf : NodeWF H k bits kids)
    (d : Nat) (h1 : 1 ≤ d) (h3 : d ≤ 3) : Prunable d (Spec.node H k bits kids) := by
  have hd := wf.depthOk hk
  rw [node_plain H k bits kids hk] at hd ⊢
  refine ⟨h1, h3, fun l _ => plainHashAt_length H h32 _ _ _ _ l, fun l _ => ?_, fun j hj => ?_⟩
  · have := hd l; simp only at this ⊢; omega
  · simp only at hj ⊢
    constructor
    · rw [Spec.plainHashAt, hj]; simp
    · rw [Spec.plainDepthAt, hj]; simp

end TonVerif.Proofs.Prune
