/-
CRC-32C detects every non-zero error confined to one byte, for EVERY message length:
the one-bit step of the (reflected) shift register is xor-linear with trivial kernel
(the polynomial 0x82F63B78 has bit 31 set), so a non-zero difference of the register never dies out.
-/
import TonVerif.Spec.Crc
import TonVerif.Proofs.Crc
import TonVerif.Model.Crc
import TonVerif.Properties.C18

namespace TonVerif.Proofs.CrcFlip
open TonVerif TonVerif.Spec TonVerif.Proofs.Crc

theorem step32_eq_zero (x : BitVec 32) (h : step32 x = 0#32) : x = 0#32 := by
  rw [step32_eq] at h
  by_cases h0 : x.getLsbD 0 = true
  · simp only [h0, if_true] at h
    have := congrArg (fun v => v.getLsbD 31) h
    simp at this
  · simp only [h0] at h
    simp only [Bool.false_eq_true, if_false, BitVec.xor_zero] at h
    ext i hi
    simp only [BitVec.getElem_zero]
    cases i with
    | zero => simpa [BitVec.getLsbD_eq_getElem hi] using h0
    | succ i =>
      have := congrArg (fun v => v.getLsbD i) h
      simp only [BitVec.getLsbD_ushiftRight, BitVec.getLsbD_zero] at this
      rw [← BitVec.getLsbD_eq_getElem hi]
      rw [Nat.add_comm] at this
      exact this

theorem iter_step32_ne_zero (k : Nat) : ∀ (x : BitVec 32), x ≠ 0#32 → iter step32 k x ≠ 0#32 := by
  induction k with
  | zero => intro x h; simpa [iter] using h
  | succ k ih =>
    intro x h
    simp only [iter]
    exact ih _ (fun h0 => h (step32_eq_zero x h0))

theorem zeroExtend_xor (a b : BitVec 8) : (a ^^^ b).zeroExtend 32 = a.zeroExtend 32 ^^^ b.zeroExtend 32 := by
  ext i hi; simp

theorem byte32_xor_state (c d : BitVec 32) (b : BitVec 8) : byte32 (c ^^^ d) b = byte32 c b ^^^ iter step32 8 d := by
  unfold byte32
  rw [← iter_xor _ step32_xor]
  congr 1
  ac_rfl

theorem byte32_xor_byte (c : BitVec 32) (b e : BitVec 8) :
    byte32 c (b ^^^ e) = byte32 c b ^^^ iter step32 8 (e.zeroExtend 32) := by
  unfold byte32
  rw [← iter_xor _ step32_xor, zeroExtend_xor]
  congr 1
  ac_rfl

theorem foldl_byte32_xor (xs : List (BitVec 8)) : ∀ (c d : BitVec 32),
    xs.foldl byte32 (c ^^^ d) = xs.foldl byte32 c ^^^ iter step32 (8 * xs.length) d := by
  induction xs with
  | nil => intro c d; simp [iter]
  | cons x xs ih =>
    intro c d
    simp only [List.foldl_cons, List.length_cons]
    rw [byte32_xor_state, ih]
    congr 1

theorem xor_ne_self_of_ne_zero {n} (a d : BitVec n) (h : d ≠ 0#n) : a ^^^ d ≠ a := by
  intro e
  apply h
  have : (a ^^^ a) ^^^ d = a ^^^ a := by
    calc (a ^^^ a) ^^^ d = a ^^^ (a ^^^ d) := by ac_rfl
      _ = a ^^^ a := by rw [e]
  simpa using this

theorem zeroExtend_ne_zero (e : BitVec 8) (he : e ≠ 0#8) : e.zeroExtend 32 ≠ 0#32 := by
  intro h
  apply he
  ext i hi
  have := congrArg (fun v => v.getLsbD i) h
  simp only [BitVec.getLsbD_setWidth, BitVec.getLsbD_zero] at this
  simp only [BitVec.getElem_zero]
  rw [← BitVec.getLsbD_eq_getElem hi]
  have hi' : i < 32 := by omega
  simpa [hi'] using this

/-- BitVec level: xoring a non-zero pattern `e` into byte `j` of message `m` changes CRC-32C. -/
theorem crc32c_flip_ne (m : List (BitVec 8)) (j : Nat) (hj : j < m.length) (e : BitVec 8) (he : e ≠ 0#8) :
    Spec.crc32c (m.set j (m[j] ^^^ e)) ≠ Spec.crc32c m := by
  have hsplit : m = m.take j ++ m[j] :: m.drop (j + 1) := by
    rw [List.getElem_cons_drop hj, List.take_append_drop]
  have hset : m.set j (m[j] ^^^ e) = m.take j ++ (m[j] ^^^ e) :: m.drop (j + 1) := by
    rw [List.set_eq_take_append_cons_drop]; simp [hj]
  unfold Spec.crc32c
  rw [hset]
  conv => rhs; rw [hsplit]
  simp only [List.foldl_append, List.foldl_cons]
  rw [byte32_xor_byte, foldl_byte32_xor]
  intro h
  have hd : iter step32 (8 * (m.drop (j + 1)).length) (iter step32 8 (e.zeroExtend 32)) ≠ 0#32 :=
    iter_step32_ne_zero _ _ (iter_step32_ne_zero _ _ (zeroExtend_ne_zero e he))
  generalize iter step32 (8 * (m.drop (j + 1)).length) (iter step32 8 (e.zeroExtend 32)) = D at h hd
  generalize List.foldl byte32 (byte32 (List.foldl byte32 4294967295#32 (List.take j m)) m[j]) (List.drop (j + 1) m) = A at h
  apply xor_ne_self_of_ne_zero A D hd
  have : (A ^^^ D ^^^ 4294967295#32) ^^^ 4294967295#32 = (A ^^^ 4294967295#32) ^^^ 4294967295#32 := by rw [h]
  simpa [BitVec.xor_assoc] using this

theorem le32_toNat_inj (v w : BitVec 32) (h : (le32 v).map BitVec.toNat = (le32 w).map BitVec.toNat) : v = w := by
  apply BitVec.eq_of_toNat_eq
  have hv := v.isLt
  have hw := w.isLt
  simp only [le32, List.map_cons, List.map_nil, List.cons.injEq, and_true, BitVec.toNat_setWidth,
    BitVec.toNat_ushiftRight, Nat.shiftRight_eq_div_pow] at h
  omega

theorem wf_set (data : Bytes) (hwf : Bytes.WF data) (j v : Nat) (hv : v < 256) : Bytes.WF (data.set j v) := by
  intro b hb
  rcases List.mem_or_eq_of_mem_set hb with h | h
  · exact hwf b h
  · omega

theorem ofNat8_xor (a e : Nat) : BitVec.ofNat 8 (a ^^^ e) = BitVec.ofNat 8 a ^^^ BitVec.ofNat 8 e := by
  apply BitVec.eq_of_toNat_eq
  simp [BitVec.toNat_xor, BitVec.toNat_ofNat]

/-- bytes level, about the MODEL function (the translated Python loop): a non-zero error inside one byte changes `crc32c`. -/
theorem model_crc32c_flip_ne (data : Bytes) (hwf : Bytes.WF data) (j : Nat) (hj : j < data.length)
    (e : Nat) (he0 : 0 < e) (he : e < 256) :
    Model.crc32c (data.set j (data[j] ^^^ e)) ≠ Model.crc32c data := by
  have hb : data[j] < 256 := hwf _ (List.getElem_mem hj)
  have hx : data[j] ^^^ e < 256 := Nat.xor_lt_two_pow (n := 8) hb he
  rw [TonVerif.Properties.C18.c18_crc32c _ (wf_set data hwf j _ hx) false,
    TonVerif.Properties.C18.c18_crc32c _ hwf false]
  simp only [Bool.false_eq_true, if_false, ne_eq, Option.some.injEq]
  intro h
  have h2 := le32_toNat_inj _ _ h
  rw [List.map_set, ofNat8_xor] at h2
  have hj' : j < (data.map (BitVec.ofNat 8)).length := by simpa using hj
  have hne : BitVec.ofNat 8 e ≠ 0#8 := by
    intro h0
    have := congrArg BitVec.toNat h0
    simp only [BitVec.toNat_ofNat] at this
    omega
  have := crc32c_flip_ne (data.map (BitVec.ofNat 8)) j hj' (BitVec.ofNat 8 e) hne
  apply this
  simpa using h2

end TonVerif.Proofs.CrcFlip
