/-
C03, the composition: what `Cell.to_boc` emits (Model/BocEmit.lean, builder `boc`) IS an encoding of the parser-side spec
encoder `Spec.BocEncode.encodeWith` (builder `bocin`) for the freedoms the library uses — generic magic b5ee9c72, minimal
size width, minimal offset width (computed from the DOUBLED length with cache bits), no stored hashes, cache flags 0,
one root at position 0 — of the listing `ord.map (scOf ord)` (one entry per distinct cell, references = positions).
That listing is `Valid` and denotes the tree unfoldings of the cells of the order, so C05's `encode_accepts` applies and
`Cell.from_boc` returns exactly `[(t, p.info)]`.
-/
import TonVerif.Proofs.BocSemFinal
import TonVerif.Proofs.BocParse
import TonVerif.Proofs.BocForms

namespace TonVerif.Proofs.BocRoundTrip
open TonVerif TonVerif.Model TonVerif.Proofs.BocOrder TonVerif.Proofs.BocEmit TonVerif.Proofs.BocSem
open TonVerif.Spec.BocEncode (SCell Freedoms Magic encodeCell records endOffsets indexEntries encodeBody encodeWith crcBytes
  Valid CellsOK denote denoteFrom)

/-! ### vocabulary bridge -/

mutual
  /-- the tree a constructed cell object unfolds to -/
  def treeOf : PCell → Cell
    | .mk i refs => .mk i.kind i.bits (treesOf refs)
  def treesOf : List PCell → List Cell
    | [] => []
    | c :: cs => treeOf c :: treesOf cs
end

theorem treesOf_eq_map : ∀ (cs : List PCell), treesOf cs = cs.map treeOf
  | [] => by simp [treesOf]
  | c :: cs => by simp [treesOf, treesOf_eq_map cs]

theorem treeOf_eq (c : PCell) : treeOf c = .mk c.info.kind c.info.bits (c.refs.map treeOf) := by
  cases c with
  | mk i refs => rw [treeOf, treesOf_eq_map]; rfl

/-- the listing entry (parser-side spec vocabulary) of a cell of the order: content, references as positions, level mask.
The stored-hash block is never written by `to_boc` (`with_hashes = 0`); `Valid` only asks it to have the advertised shape. -/
def scOf (ord : List PCell) (c : PCell) : SCell :=
  { kind := c.info.kind, bits := c.info.bits, refs := c.refs.map (fun r => posOf ord r.key), mask := c.info.mask,
    hashes := List.replicate (Spec.popcount c.info.mask + 1) (List.replicate 32 0),
    depths := List.replicate (Spec.popcount c.info.mask + 1) 0 }

/-- the freedoms `to_boc` uses for option set `o` on the records `as` -/
def frOf (o : Opts) (as : List ARec) : Freedoms :=
  { magic := .generic, size := sizeW as, offBytes := offOf o as, hasIdx := o.hasIdx, hasCrc := o.hasCrc,
    hasCacheBits := o.hasCache, storeHashes := [], cacheFlags := [] }

/-- the emitter-side record of a cell of the order -/
def recOf (ord : List PCell) (c : PCell) : ARec := cellARec c (c.refs.map (fun r => posOf ord r.key))

theorem orderRecs_eq (ord : List PCell) : orderRecs ord = ord.map (recOf ord) := rfl

/-! ### records -/

theorem d2_eq (len : Nat) : Spec.d2 len = cellD2 len := by
  unfold Spec.d2 cellD2
  split <;> rename_i h <;> simp at h <;> omega

theorem encodeCell_eq (size : Nat) (ord : List PCell) (c : PCell) (ok : CellOK c) :
    encodeCell size (scOf ord c) false = (recOf ord c).bytes size := by
  simp only [encodeCell, scOf, recOf, cellARec, ARec.bytes, cellD1, List.length_map, ← ok.nrefs, d2_eq,
    PCell.data, CellSpec.dataBytes_eq, List.flatMap_def]
  by_cases h : c.info.kind = -1 <;> simp [h, kOrdinary]

theorem records_eq (size : Nat) (ord : List PCell) : ∀ (l : List PCell) (base : Nat), (∀ c ∈ l, CellOK c) →
    records size [] (l.map (scOf ord)) base = (l.map (recOf ord)).map (ARec.bytes size)
  | [], _, _ => by simp [records]
  | c :: l, base, h => by
    have ih := records_eq size ord l (base + 1) (fun x hx => h x (by simp [hx]))
    simp only [List.map_cons, records, ih, List.getD_eq_getElem?_getD, List.getElem?_nil, Option.getD_none,
      encodeCell_eq size ord c (h c (by simp))]

theorem endOffsets_eq : ∀ (rs : List Bytes) (acc : Nat), endOffsets rs acc = cumulativeFrom acc (rs.map List.length)
  | [], _ => by simp [endOffsets, cumulativeFrom]
  | r :: rs, acc => by simp [endOffsets, cumulativeFrom, endOffsets_eq rs]

theorem indexEntries_eq (cache : Bool) : ∀ (es : List Nat) (k : Nat),
    indexEntries cache [] es k = es.map (fun e => if cache = true then e * 2 else e)
  | [], _ => by simp [indexEntries]
  | e :: es, k => by
    simp only [indexEntries, indexEntries_eq cache es (k + 1), List.map_cons, List.getD_eq_getElem?_getD,
      List.getElem?_nil, Option.getD_none]
    cases cache <;> simp <;> omega

/-! ### the whole serialisation -/

/-- everything before the CRC: the emitter's closed form is the spec encoder's body -/
theorem body_eq (o : Opts) (ord : List PCell) (ok : ∀ c ∈ ord, CellOK c) :
    encodeBody (frOf o (orderRecs ord)) (ord.map (scOf ord)) [0] = bodyOf o (orderRecs ord) := by
  have hrec := records_eq (sizeW (orderRecs ord)) ord ord 0 ok
  unfold encodeBody bodyOf
  simp only [frOf, Freedoms.withCache, hrec, Magic.bytes, endOffsets_eq, indexEntries_eq, List.length_map,
    List.length_cons, List.length_nil, List.flatMap_def]
  simp only [bocMagic, payloadOf, indexOf, cumulative, lensOf, orderRecs_eq, List.map_map, Function.comp_def,
    List.append_assoc, List.cons_append, List.nil_append, Nat.zero_add]
  obtain ⟨i, c, h, f⟩ := o
  cases i <;> cases c <;> cases h <;> simp [flagByte, b2n]

theorem crc_eq (body : Bytes) : crcBytes body = Spec.Boc.crc32cLE body := rfl

/-- **the emitter's output is an instance of the parser-side spec encoder** -/
theorem emitted_eq_encodeWith (o : Opts) (ord : List PCell) (ok : ∀ c ∈ ord, CellOK c) :
    bodyOf o (orderRecs ord) ++ tailOf o (orderRecs ord) =
      encodeWith (frOf o (orderRecs ord)) (ord.map (scOf ord)) [0] := by
  unfold encodeWith tailOf
  simp only [body_eq o ord ok, crc_eq]
  simp only [frOf, Spec.BocEncode.Freedoms.withCrc]
  by_cases hc : o.hasCrc = true <;> simp [hc]

/-! ### the listing is `Valid` for these freedoms -/

/-- every listing entry is well formed in the sense of the parser-side spec -/
theorem cellsOK_order (H : Bytes → Bytes) (ord : List PCell) (h : OrdOK H ord) : CellsOK (ord.map (scOf ord)) := by
  intro pos hpos
  have hpos' : pos < ord.length := by simpa using hpos
  have hc : ord[pos]? = some ord[pos] := List.getElem?_eq_getElem hpos'
  have hmem : ord[pos] ∈ ord := List.getElem_mem hpos'
  have okc := h.ok _ hmem
  have semc := h.sem _ hmem
  rw [List.getElem_map]
  generalize ord[pos] = c at hc hmem okc semc
  refine ⟨okc.bits_le, by simpa [scOf] using okc.refs_le, ?_, ?_, ?_, by simp [scOf], ?_, by simp [scOf]⟩
  · intro r hr
    simp only [scOf, List.mem_map] at hr
    obtain ⟨q, hq, rfl⟩ := hr
    obtain ⟨j, hij, hj⟩ := h.refsAt pos c hc q hq
    have hjn : j < ord.length := by
      apply Nat.lt_of_not_le; intro hle
      rw [List.getElem?_eq_none hle] at hj; cases hj
    rw [posOf_at ord h.nodup j q hj]
    simp only [List.length_map]
    exact ⟨hij, hjn⟩
  · intro hk
    have hk' : c.info.kind ≠ kOrdinary := hk
    obtain ⟨h8, ht⟩ := semc.typed hk'
    have hcases := kind_cases H c semc
    simp only [scOf] at hk ⊢
    refine ⟨h8, ?_, ?_, ?_⟩ <;> omega
  · have := okc.mask_le
    simp only [scOf]; omega
  · intro x hx
    simp only [scOf, List.mem_replicate] at hx
    rw [hx.2]
    exact ⟨by simp, by intro b hb; simp only [List.mem_replicate] at hb; omega⟩

/-- minimal widths are admissible: the size width holds the count, the offset width holds the (doubled, +1) total -/
theorem valid_order (H : Bytes → Bytes) (o : Opts) (hv : o.valid = true) (ord : List PCell) (h : OrdOK H ord)
    (h1 : 1 ≤ ord.length) (hn : ord.length < 2 ^ 32)
    (hP : (payloadOf (sizeW (orderRecs ord)) (orderRecs ord)).length * 2 < 2 ^ 64) :
    Valid (frOf o (orderRecs ord)) (ord.map (scOf ord)) [0] := by
  have hlen : (orderRecs ord).length = ord.length := by simp [orderRecs]
  have hsz1 : 1 ≤ sizeW (orderRecs ord) := byteWidth_pos _ (by omega)
  have hsz4 : sizeW (orderRecs ord) ≤ 4 := byteWidth_le _ 4 (by rw [hlen]; simpa using hn)
  have hnlt : (orderRecs ord).length < 256 ^ sizeW (orderRecs ord) := lt_pow_byteWidth _
  have hoff8 : offOf o (orderRecs ord) ≤ 8 := by
    unfold offOf
    apply byteWidth_le
    split <;> omega
  have hrec := records_eq (sizeW (orderRecs ord)) ord ord 0 h.ok
  have htot : (records (sizeW (orderRecs ord)) [] (ord.map (scOf ord)) 0).flatten =
      payloadOf (sizeW (orderRecs ord)) (orderRecs ord) := by
    rw [hrec]; rfl
  have h2 : 2 ≤ (payloadOf (sizeW (orderRecs ord)) (orderRecs ord)).length := by
    rw [orderRecs_eq]
    match ord, h1 with
    | a :: rest, _ => simp [payloadOf, ARec.bytes]
  have hci : o.hasCache = true → o.hasIdx = true := by
    simp [Opts.valid] at hv
    intro hc; cases hi : o.hasIdx <;> simp_all
  refine ⟨cellsOK_order H ord h, hsz1, hsz4, by simpa [frOf, hlen] using hnlt, hoff8, ?_, ?_⟩
  · simp only [frOf, Freedoms.withCache, Freedoms.withIdx, htot]
    generalize hT : (payloadOf (sizeW (orderRecs ord)) (orderRecs ord)).length = T at h2
    unfold offOf
    rw [hT]
    by_cases hc : o.hasCache = true
    · have hi := hci hc
      simp only [hc, hi, and_self, if_true]
      have hlt := lt_pow_byteWidth (T * 2)
      have hpos : 1 ≤ byteWidth (T * 2) := byteWidth_pos _ (by omega)
      obtain ⟨k, hk⟩ : ∃ k, byteWidth (T * 2) = k + 1 := ⟨byteWidth (T * 2) - 1, by omega⟩
      rw [hk, Nat.pow_succ] at hlt ⊢
      omega
    · simp only [hc, false_and, if_false, Bool.false_eq_true]
      exact lt_pow_byteWidth T
  · simp only [frOf, List.length_map]
    refine ⟨by simp, by intro r hr; simp at hr; omega, ?_, hci⟩
    exact Nat.one_lt_pow (by omega) (by decide)

/-! ### the listing denotes the unfoldings of the cells of the order -/

theorem denote_suffix (ord : List PCell) (nd : (ord.map PCell.key).Nodup)
    (refsAt : ∀ (i : Nat) (c : PCell), ord[i]? = some c → ∀ r ∈ c.refs, ∃ j, i < j ∧ ord[j]? = some r) :
    ∀ (suf pre : List PCell), ord = pre ++ suf → denoteFrom (suf.map (scOf ord)) pre.length = some (suf.map treeOf)
  | [], _, _ => by simp [denoteFrom]
  | c :: suf, pre, he => by
    have ih := denote_suffix ord nd refsAt suf (pre ++ [c]) (by rw [he]; simp)
    have hc : ord[pre.length]? = some c := by rw [he]; simp
    have hkids : (c.refs.map (fun r => posOf ord r.key)).mapM
        (fun r => if r ≤ pre.length then none else (suf.map treeOf)[r - pre.length - 1]?) = some (c.refs.map treeOf) := by
      apply mapM_map_eq
      intro r hr
      obtain ⟨j, hij, hj⟩ := refsAt _ c hc r hr
      rw [posOf_at ord nd j r hj]
      have hnle : ¬ j ≤ pre.length := by omega
      simp only [hnle, if_false]
      rw [he, List.getElem?_append_right (by omega)] at hj
      obtain ⟨d, hd⟩ : ∃ d, j - pre.length = d + 1 := ⟨j - pre.length - 1, by omega⟩
      rw [hd, List.getElem?_cons_succ] at hj
      rw [show j - pre.length - 1 = d by omega, List.getElem?_map, hj]
      rfl
    simp only [List.length_append, List.length_cons, List.length_nil, Nat.zero_add] at ih
    simp only [List.map_cons, denoteFrom, ih, Option.bind_some]
    rw [show (scOf ord c).refs = c.refs.map (fun r => posOf ord r.key) from rfl, hkids]
    simp [scOf, treeOf_eq c]

theorem denote_order (H : Bytes → Bytes) (ord : List PCell) (h : OrdOK H ord) :
    denote (ord.map (scOf ord)) = some (ord.map treeOf) :=
  denote_suffix ord h.nodup h.refsAt ord [] rfl

/-! ### `Cell.build` and the unfolding -/

mutual
  /-- a built object unfolds to the tree it was built from; it and every cell object below it cache exactly the
  constructor's info of their unfoldings -/
  theorem build_tree (H : Bytes → Bytes) : ∀ (t : Cell) (p : PCell), Cell.build H t = some p →
      treeOf p = t ∧ Cell.info H t = some p.info ∧ ∀ c ∈ subcells p, Cell.info H (treeOf c) = some c.info
    | .mk kind bits refs, p, hb => by
      rw [Cell.build] at hb
      simp only [Option.bind_eq_bind, Option.bind_eq_some_iff] at hb
      obtain ⟨rs, hrs, i, hi, hp⟩ := hb
      cases hp
      obtain ⟨h1, h2, h3, _, _⟩ := construct_limits H kind bits _ i hi
      obtain ⟨a1, a2, a3⟩ := builds_tree H refs rs hrs
      have ht : treeOf (.mk i rs) = .mk kind bits refs := by rw [treeOf, h2, h3, a1]
      have hinfo : Cell.info H (.mk kind bits refs) = some i := by
        rw [Cell.info]; simp [a2, hi]
      refine ⟨ht, hinfo, ?_⟩
      intro c hc
      rw [subcells] at hc
      rcases List.mem_cons.1 hc with rfl | hc
      · rw [ht]; exact hinfo
      · exact a3 c hc
  theorem builds_tree (H : Bytes → Bytes) : ∀ (ts : List Cell) (ps : List PCell), Cell.builds H ts = some ps →
      treesOf ps = ts ∧ Cell.infos H ts = some (ps.map PCell.info) ∧
      ∀ c ∈ subcellsList ps, Cell.info H (treeOf c) = some c.info
    | [], ps, hb => by
      rw [Cell.builds] at hb; cases hb
      refine ⟨by simp [treesOf], by simp [Cell.infos], ?_⟩
      intro c hc; simp [subcellsList] at hc
    | t :: ts, ps, hb => by
      rw [Cell.builds] at hb
      simp only [Option.bind_eq_bind, Option.bind_eq_some_iff] at hb
      obtain ⟨p, hp, ps', hps, hq⟩ := hb
      cases hq
      obtain ⟨a1, a2, a3⟩ := build_tree H t p hp
      obtain ⟨b1, b2, b3⟩ := builds_tree H ts ps' hps
      refine ⟨by rw [treesOf, a1, b1], by simp [Cell.infos, a2, b2], ?_⟩
      intro c hc
      rw [subcellsList] at hc
      rcases List.mem_append.1 hc with hc | hc
      · exact a3 c hc
      · exact b3 c hc
end

/-! ### composition -/

/-- `Cell.to_boc` (order + index lookups + layout) returns exactly the spec encoder's bytes for the library's freedoms -/
theorem toBoc_eq_encodeWith (root : PCell) (fuel : Nat) (ord : List PCell) (o : Opts) (hv : o.valid = true)
    (nc : NoCollision root) (ok : ∀ c ∈ subcells root, CellOK c) (h : root.order fuel = some ord)
    (hn : ord.length < 2 ^ 32) (hP : (payloadOf (sizeW (orderRecs ord)) (orderRecs ord)).length * 2 < 2 ^ 64) :
    root.toBoc fuel o = some (encodeWith (frOf o (orderRecs ord)) (ord.map (scOf ord)) [0]) ∧
    root.toBoc fuel o = some (bodyOf o (orderRecs ord) ++ tailOf o (orderRecs ord)) := by
  have vo := order_valid root fuel ord nc h
  have okord : ∀ c ∈ ord, CellOK c := fun c hc => ok c (vo.sound c hc)
  obtain ⟨hfl, hok, _⟩ := flatten_order root ord vo okord
  have hlen : (orderRecs ord).length = ord.length := by simp [orderRecs]
  have h1 : 1 ≤ (orderRecs ord).length := by
    rw [hlen]
    have := vo.root_first
    cases ord with
    | nil => simp at this
    | cons a l => simp
  have he := emit_eq o (orderRecs ord) hv h1 (by rw [hlen]; exact hn) hP hok
  have hb : root.toBoc fuel o = some (bodyOf o (orderRecs ord) ++ tailOf o (orderRecs ord)) := by
    simp only [PCell.toBoc, h, hfl, Option.bind_eq_bind, Option.bind_some, he]
    rfl
  exact ⟨by rw [hb, emitted_eq_encodeWith o ord okord], hb⟩

/-- **THE ROUND TRIP on bytes**: for a spec-valid typed tree, the parser model applied to what the emitter model produces
returns exactly one root: the same tree, with the cached info of the original object. -/
theorem fromBoc_toBoc (H : Bytes → Bytes) (t : Cell) (wf : CellSpec.TreeWF H t) (ty : Typed t) (p : PCell)
    (hb : Cell.build H t = some p) (nc : NoCollision p) (fuel : Nat) (ord : List PCell) (h : p.order fuel = some ord)
    (o : Opts) (hv : o.valid = true) (hn : ord.length < 2 ^ 32)
    (hP : (payloadOf (sizeW (orderRecs ord)) (orderRecs ord)).length * 2 < 2 ^ 64) :
    p.toBoc fuel o = some (bodyOf o (orderRecs ord) ++ tailOf o (orderRecs ord)) ∧
    BocParse.fromBoc H (bodyOf o (orderRecs ord) ++ tailOf o (orderRecs ord)) = some [(t, p.info)] := by
  have okp := build_ok H t p (shape_of H t wf ty) hb
  obtain ⟨sem, _⟩ := sem_of_tree H t p wf ty hb
  have vo := order_valid p fuel ord nc h
  have oo := ordOK_of_valid H p ord vo nc okp sem
  obtain ⟨rest, hord⟩ : ∃ rest, ord = p :: rest := by
    have := vo.root_first
    cases ord with
    | nil => simp at this
    | cons a l => simp at this; exact ⟨l, by rw [this]⟩
  have h1 : 1 ≤ ord.length := by rw [hord]; simp
  obtain ⟨henc, hbs⟩ := toBoc_eq_encodeWith p fuel ord o hv nc okp h hn hP
  obtain ⟨t1, t2, t3⟩ := build_tree H t p hb
  have hcon : ∀ t' ∈ ord.map treeOf, (Cell.info H t').isSome := by
    intro t' ht'
    obtain ⟨c, hc, rfl⟩ := List.mem_map.1 ht'
    rw [t3 c (vo.sound c hc)]; rfl
  obtain ⟨out, hout, hroots, hinfo⟩ := Proofs.BocParse.encode_accepts H _ _ [0] (valid_order H o hv ord oo h1 hn hP)
    _ (denote_order H ord oo) hcon
  refine ⟨hbs, ?_⟩
  rw [emitted_eq_encodeWith o ord oo.ok, hout]
  have h0 : (ord.map treeOf)[0]? = some t := by rw [hord]; simp [t1]
  simp only [List.mapM_cons, List.mapM_nil, h0, Option.pure_def, Option.bind_eq_bind, Option.bind_some] at hroots
  have hmap : out.map (·.1) = [t] := (Option.some.inj hroots).symm
  match out, hmap, hinfo with
  | [(t', i')], hmap, hinfo =>
    simp only [List.map_cons, List.map_nil, List.cons.injEq, and_true] at hmap
    subst hmap
    have := hinfo (t', i') (by simp)
    simp only at this
    rw [t2] at this
    rw [Option.some.inj this]

/-! ### the two models of `Boc.__init__` agree on the texts at hand

`Model/BocForms.lean` (`inputBytes`, CPython's non-strict `a2b_base64` state machine) is the reference model of the input
form detection; `Model/BocParse.lean` carries a second, simpler one (`bocInit`: same `fromhex`, canonical base64 only).
`bytes.fromhex` is the same function in both; on the base64 text `b64encode` produces the simpler decoder succeeds with
the same bytes. -/

theorem parse_fromHex_eq : ∀ (n : Nat) (s : List Char), s.length ≤ n → BocParse.fromHex s = BocForms.fromHex s
  | _, [], _ => rfl
  | 0, _ :: _, h => by simp at h
  | n + 1, c :: rest, h => by
    have hs : BocParse.isAsciiSpace c = BocForms.isAsciiSpace c := rfl
    have ih := parse_fromHex_eq n rest (by simpa using h)
    rw [BocParse.fromHex.eq_def]; simp only []
    unfold BocForms.fromHex at ih ⊢
    rw [BocForms.fromHexGo, hs]
    by_cases hsp : BocForms.isAsciiSpace c = true
    · simp only [hsp, if_true]; exact ih
    · simp only [hsp, if_false, Bool.false_eq_true]
      cases rest with
      | nil => cases hexVal? c <;> simp [BocForms.fromHexGo]
      | cons d rest' =>
        have ih' := parse_fromHex_eq n rest' (by simp at h ⊢; omega)
        unfold BocForms.fromHex at ih'
        cases hx : hexVal? c with
        | none => simp
        | some x =>
          simp only [Option.bind_eq_bind, Option.bind_some, BocForms.fromHexGo]
          cases hy : hexVal? d with
          | none => simp
          | some y =>
            simp only [Option.bind_some, ih']
            cases BocForms.fromHexGo rest' none <;> rfl

theorem parse_fromHex (s : List Char) : BocParse.fromHex s = BocForms.fromHex s := parse_fromHex_eq s.length s (Nat.le_refl _)

theorem parse_b64Val_b64Char : ∀ n, n < 64 → BocParse.b64Val? (BocForms.b64Char n) = some n := by decide

theorem parse_fromB64_b64Enc : ∀ (b : Bytes), Bytes.WF b → BocParse.fromB64 (BocForms.b64Enc b) = some b
  | [], _ => rfl
  | [a], h => by
    have ha : a < 256 := h a (by simp)
    rw [BocForms.b64Enc, BocParse.fromB64]
    simp only [parse_b64Val_b64Char _ (show a / 4 < 64 by omega), parse_b64Val_b64Char _ (show a % 4 * 16 < 64 by omega),
      Option.bind_eq_bind, Option.bind_some, Option.pure_def, Option.some.injEq, List.cons.injEq, and_true]
    omega
  | [a, b], h => by
    have ha : a < 256 := h a (by simp)
    have hb : b < 256 := h b (by simp)
    have hne : BocForms.b64Char (b % 16 * 4) ≠ '=' := BocForms.b64Char_ne_pad _ (by omega)
    rw [BocForms.b64Enc, BocParse.fromB64.eq_3 _ _ _ (by intro h1; exact absurd h1 hne)]
    simp only [parse_b64Val_b64Char _ (show a / 4 < 64 by omega), parse_b64Val_b64Char _ (show a % 4 * 16 + b / 16 < 64 by omega),
      parse_b64Val_b64Char _ (show b % 16 * 4 < 64 by omega),
      Option.bind_eq_bind, Option.bind_some, Option.pure_def, Option.some.injEq, List.cons.injEq, and_true]
    omega
  | a :: b :: c :: rest, h => by
    have ha : a < 256 := h a (by simp)
    have hb : b < 256 := h b (by simp)
    have hc : c < 256 := h c (by simp)
    have ih := parse_fromB64_b64Enc rest (fun x hx => h x (by simp [hx]))
    have hne3 : BocForms.b64Char (b % 16 * 4 + c / 64) ≠ '=' := BocForms.b64Char_ne_pad _ (by omega)
    have hne4 : BocForms.b64Char (c % 64) ≠ '=' := BocForms.b64Char_ne_pad _ (by omega)
    rw [BocForms.b64Enc, BocParse.fromB64.eq_4 _ _ _ _ _ (by intro h1; exact absurd h1 hne3) (by intro h1; exact absurd h1 hne4)]
    simp only [parse_b64Val_b64Char _ (show a / 4 < 64 by omega), parse_b64Val_b64Char _ (show a % 4 * 16 + b / 16 < 64 by omega),
      parse_b64Val_b64Char _ (show b % 16 * 4 + c / 64 < 64 by omega), parse_b64Val_b64Char _ (show c % 64 < 64 by omega), ih,
      Option.bind_eq_bind, Option.bind_some, Option.pure_def, Option.some.injEq, List.cons.injEq, and_true]
    omega

/-! ### input forms of an emitted serialisation, both models of `Boc.__init__` -/

open TonVerif.Model.BocForms TonVerif.Proofs.BocForms in
/-- an emitted serialisation is `b5ee9c72 ++ rest` with every byte < 256 -/
theorem emitted_magic (o : Opts) (as : List ARec) (h1 : 1 ≤ as.length) (hn : as.length < 2 ^ 32)
    (hP : (payloadOf (sizeW as) as).length * 2 < 2 ^ 64) (ok : ∀ a ∈ as, a.OK as.length) :
    ∃ rest, Bytes.WF rest ∧ bodyOf o as ++ tailOf o as = [0xb5, 0xee, 0x9c, 0x72] ++ rest :=
  ⟨_, emitted_wf o as h1 hn hP ok, by simp [bodyOf, tailOf, bocMagic, List.append_assoc]⟩

open TonVerif.Model.BocForms TonVerif.Proofs.BocForms in
/-- reference model (`inputBytes`): bytes, hex text and base64 text of a BoC all give the bytes -/
theorem forms_inputBytes (rest : Bytes) (h : Bytes.WF rest) (form : Sum Bytes (List Char))
    (hf : form ∈ [Sum.inl ([0xb5, 0xee, 0x9c, 0x72] ++ rest), Sum.inr (hexEnc ([0xb5, 0xee, 0x9c, 0x72] ++ rest)),
      Sum.inr (b64Enc ([0xb5, 0xee, 0x9c, 0x72] ++ rest))]) :
    inputBytes form = some ([0xb5, 0xee, 0x9c, 0x72] ++ rest) := by
  have hb : Bytes.WF ([0xb5, 0xee, 0x9c, 0x72] ++ rest) := WF_append (by decide) h
  simp only [List.mem_cons, List.not_mem_nil, or_false] at hf
  rcases hf with rfl | rfl | rfl
  · rfl
  · rw [inputBytes_hex _ hb]; rfl
  · rw [inputBytes_b64 rest h]; rfl

open TonVerif.Model.BocForms TonVerif.Proofs.BocForms in
/-- the parser builder's model (`BocParse.bocInit`) gives the same bytes on the same three forms -/
theorem forms_bocInit (rest : Bytes) (h : Bytes.WF rest) (inp : BocParse.BocInput)
    (hf : inp = .bytes ([0xb5, 0xee, 0x9c, 0x72] ++ rest) ∨ inp = .str (String.ofList (hexEnc ([0xb5, 0xee, 0x9c, 0x72] ++ rest))) ∨
      inp = .str (String.ofList (b64Enc ([0xb5, 0xee, 0x9c, 0x72] ++ rest)))) :
    BocParse.bocInit inp = some ([0xb5, 0xee, 0x9c, 0x72] ++ rest) := by
  have hb : Bytes.WF ([0xb5, 0xee, 0x9c, 0x72] ++ rest) := WF_append (by decide) h
  rcases hf with rfl | rfl | rfl
  · rfl
  · simp only [BocParse.bocInit, String.toList_ofList, parse_fromHex, fromHex_hexEnc _ hb]
  · simp only [BocParse.bocInit, String.toList_ofList, parse_fromHex, fromHex_b64_magic rest, parse_fromB64_b64Enc _ hb]

/-! ### a decision procedure for `NoCollision` on concrete DAGs (non-vacuity examples with sharing) -/

mutual
  /-- structural equality test of cell objects -/
  def pbeq : PCell → PCell → Bool
    | .mk i rs, .mk j ss => decide (i = j) && pbeqL rs ss
  def pbeqL : List PCell → List PCell → Bool
    | [], [] => true
    | a :: as, b :: bs => pbeq a b && pbeqL as bs
    | [], _ :: _ => false
    | _ :: _, [] => false
end

mutual
  theorem pbeq_eq : ∀ (a b : PCell), pbeq a b = true → a = b
    | .mk i rs, .mk j ss, h => by
      rw [pbeq] at h
      simp only [Bool.and_eq_true, decide_eq_true_eq] at h
      rw [h.1, pbeqL_eq rs ss h.2]
  theorem pbeqL_eq : ∀ (as bs : List PCell), pbeqL as bs = true → as = bs
    | [], [], _ => rfl
    | a :: as, b :: bs, h => by
      rw [pbeqL] at h
      simp only [Bool.and_eq_true] at h
      rw [pbeq_eq a b h.1, pbeqL_eq as bs h.2]
    | [], _ :: _, h => by rw [pbeqL] at h; cases h
    | _ :: _, [], h => by rw [pbeqL] at h; cases h
end

/-- executable `NoCollision` -/
def noCollisionB (root : PCell) : Bool :=
  (subcells root).all fun a => (subcells root).all fun b => a.key != b.key || pbeq a b

theorem noCollision_of_B (root : PCell) (h : noCollisionB root = true) : NoCollision root := by
  intro a ha b hb hk
  simp only [noCollisionB, List.all_eq_true] at h
  have := h a ha b hb
  simp only [Bool.or_eq_true, bne_iff_ne, ne_eq] at this
  rcases this with h' | h'
  · exact absurd hk h'
  · exact pbeq_eq a b h'

/-! ### facts the property file needs about the emitted bytes and the root -/

/-- what `to_boc` returns starts with the magic b5ee9c72 and consists of bytes -/
theorem toBoc_magic (root : PCell) (fuel : Nat) (ord : List PCell) (o : Opts)
    (nc : NoCollision root) (ok : ∀ c ∈ subcells root, CellOK c) (h : root.order fuel = some ord)
    (hn : ord.length < 2 ^ 32) (hP : (payloadOf (sizeW (orderRecs ord)) (orderRecs ord)).length * 2 < 2 ^ 64) :
    ∃ rest, Bytes.WF rest ∧
      bodyOf o (orderRecs ord) ++ tailOf o (orderRecs ord) = [0xb5, 0xee, 0x9c, 0x72] ++ rest := by
  have vo := order_valid root fuel ord nc h
  have okord : ∀ c ∈ ord, CellOK c := fun c hc => ok c (vo.sound c hc)
  obtain ⟨_, hok, _⟩ := flatten_order root ord vo okord
  have hlen : (orderRecs ord).length = ord.length := by simp [orderRecs]
  have h1 : 1 ≤ (orderRecs ord).length := by
    rw [hlen]
    have := vo.root_first
    cases ord with
    | nil => simp at this
    | cons a l => simp
  exact emitted_magic o (orderRecs ord) h1 (by rw [hlen]; exact hn) hP hok

/-- the root of a spec-valid typed tree is within the builder's capacity -/
theorem root_limits (H : Bytes → Bytes) (kind : Int) (bits : Bits) (refs : List Cell)
    (wf : CellSpec.TreeWF H (.mk kind bits refs)) (ty : Typed (.mk kind bits refs)) : bits.length ≤ 1023 ∧ refs.length ≤ 4 := by
  obtain ⟨p, hb⟩ := tree_builds H _ wf
  have okp := build_ok H _ p (shape_of H _ wf ty) hb p (self_mem_subcells p)
  have ht := (build_tree H _ p hb).1
  rw [treeOf_eq] at ht
  injection ht with _ h2 h3
  rw [← h2, ← h3, List.length_map]
  exact ⟨okp.bits_le, okp.refs_le⟩

end TonVerif.Proofs.BocRoundTrip
