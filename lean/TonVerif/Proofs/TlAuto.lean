/-
C14, auto-deserialisation ON in general: parsing the serialisation of a well-typed value returns its `normalize`d
form (Model/TlNorm.lean) and consumes exactly the serialised bytes; both raise together.
-/
import TonVerif.Model.TlNorm
import TonVerif.Proofs.Tl

namespace TonVerif.Proofs.Tl
open TonVerif TonVerif.Spec.Tl TonVerif.Model.Tl

/-! ### the parsed prefix and its normal form agree on keys and on integer values (flags lookups) -/

def FlagRel : Fields → Fields → Prop
  | [], [] => True
  | (k, v) :: r, (k', w) :: r' => k = k' ∧ (∀ m, v = .int m → w = .int m) ∧ FlagRel r r'
  | _, _ => False

theorem flagRel_lookup (k : Nat) : ∀ (acc accN : Fields), FlagRel acc accN →
    (acc.lookup k = none → accN.lookup k = none) ∧ (∀ m, acc.lookup k = some (.int m) → accN.lookup k = some (.int m))
  | [], [], _ => ⟨fun _ => rfl, fun _ h => by simp at h⟩
  | [], _ :: _, h => by simp [FlagRel] at h
  | _ :: _, [], h => by simp [FlagRel] at h
  | (k1, v) :: r, (k2, w) :: r', h => by
    obtain ⟨rfl, hv, hr⟩ := h
    have ih := flagRel_lookup k r r' hr
    by_cases hk : k = k1
    · subst hk
      simp only [List.lookup_cons, beq_self_eq_true]
      refine ⟨fun h => ?_, fun m h => ?_⟩
      · cases h
      · rw [hv m (Option.some.inj h)]
    · have : (k == k1) = false := by simpa using hk
      simp only [List.lookup_cons, this]
      exact ih

theorem flagRel_snoc : ∀ (acc accN : Fields) (n : Nat) (v w : Val), FlagRel acc accN → (∀ m, v = .int m → w = .int m) →
    FlagRel (acc ++ [(n, v)]) (accN ++ [(n, w)])
  | [], [], n, v, w, _, hv => ⟨rfl, hv, trivial⟩
  | [], _ :: _, _, _, _, h, _ => by simp [FlagRel] at h
  | _ :: _, [], _, _, _, h, _ => by simp [FlagRel] at h
  | (k1, v1) :: r, (k2, w1) :: r', n, v, w, h, hv => by
    obtain ⟨rfl, hv1, hr⟩ := h
    exact ⟨rfl, hv1, flagRel_snoc r r' n v w hr hv⟩

theorem flagVal_rel (T : Table) (acc accN : Fields) (h : FlagRel acc accN) (m : Int)
    (hf : flagVal T acc = some (.int m)) : flagVal T accN = some (.int m) := by
  unfold flagVal at hf ⊢
  have h1 := flagRel_lookup T.modeKey acc accN h
  have h2 := flagRel_lookup T.flagsKey acc accN h
  cases hm : acc.lookup T.modeKey with
  | none =>
    rw [hm] at hf
    simp only at hf
    rw [h1.1 hm]
    exact h2.2 m hf
  | some x =>
    rw [hm] at hf
    simp only [Option.some.injEq] at hf
    subst hf
    rw [h1.2 m hm]

/-! ### integers are left alone -/

theorem normOne_int (T : Table) (rep : Bytes → Option Val) (rec : Option Nat → List Arg → Fields → Option Fields)
    (ut : Bool) (e : ETy) (m : Int) : normOne T rep rec ut e (.int m) = some (.int m) := by
  cases e <;> rfl

theorem normArg_int (T : Table) (rep : Bytes → Option Val) (rec : Option Nat → List Arg → Fields → Option Fields)
    (ut : Bool) (a : Arg) (m : Int) (w : Val) (h : normArg T rep rec ut a (.int m) = some w) : w = .int m := by
  unfold normArg at h
  split at h
  · simpa using h.symm
  · rw [normOne_int] at h; simpa using h.symm

/-! ### the parser returns the normal form -/

def NormOK (T : Table) (fuel : Nat) : Item → Bytes → Prop
  | .one e iv v, bs => ∀ rest ut,
      deserOne T true (deserObj T true fuel) ut e iv (bs ++ rest) =
        (normOne T (reparse T fuel) (normObj T fuel) ut e v).map (fun w => (some w, bs.length))
  | .many e vs, bs => ∀ rest,
      deserMany (deserElem T true (deserObj T true fuel) e) vs.length (bs ++ rest) =
        (normMany (normOne T (reparse T fuel) (normObj T fuel) false e) vs).map (fun ws => (ws, bs.length))
  | .field a v, bs => ∀ rest ut,
      deserArg T true (deserObj T true fuel) ut a (bs ++ rest) =
        (normArg T (reparse T fuel) (normObj T fuel) ut a v).map (fun w => (some w, bs.length))
  | .body args whole, bs => ∀ rest pre schema accN, condOK T pre args = true → FlagRel (canonFields pre whole) accN →
      deserBody T true (deserObj T true fuel) schema args accN (bs ++ rest) =
        (normBody T (reparse T fuel) (normObj T fuel) schema args whole).map (fun fs => (accN ++ fs, bs.length))

theorem deserObj_bare_succ (T : Table) (auto : Bool) (k : Nat) (d : Bytes) (args : List Arg) :
    deserObj T auto (k + 1) d (some args) =
      (deserBody T auto (deserObj T auto k) none args [] d).map (fun (fs, j) => (.obj none fs, j)) := rfl

theorem normalized (T : Table) (hT : TableOK T) {item : Item} {bs : Bytes} (h : Enc T (fun _ => True) item bs) :
    ∃ N, ∀ fuel, N ≤ fuel → NormOK T fuel item bs := by
  induction h with
  | int h1 h2 =>
    exact ⟨0, fun fuel _ rest ut => by
      simp [deserOne, readFixed, normOne, take_append_len _ _ 4 (intLE_length 4 _), intOfLE_intLE4 _ h1 h2, intLE_length]⟩
  | long h1 h2 =>
    exact ⟨0, fun fuel _ rest ut => by
      simp [deserOne, readFixed, normOne, take_append_len _ _ 8 (intLE_length 8 _), intOfLE_intLE8 _ h1 h2, intLE_length]⟩
  | nat h1 h2 =>
    exact ⟨0, fun fuel _ rest ut => by
      simp [deserOne, readFixed, normOne, take_append_len _ _ 4 (intLE_length 4 _), natOfLE_intLE4 _ h1 h2, intLE_length]⟩
  | int128 h1 h2 =>
    exact ⟨0, fun fuel _ rest ut => by simp [deserOne, readFixed, normOne, take_append_len _ _ 16 h1, h1]⟩
  | int256 h1 h2 =>
    exact ⟨0, fun fuel _ rest ut => by simp [deserOne, readFixed, normOne, take_append_len _ _ 32 h1, h1]⟩
  | boolT => exact ⟨0, fun fuel _ rest ut => by simp [deserOne, readFixed, normOne, boolTrueId, natToLE]⟩
  | boolF => exact ⟨0, fun fuel _ rest ut => by simp [deserOne, readFixed, normOne, boolFalseId, natToLE]⟩
  | bytes h1 h2 h3 =>
    refine ⟨0, fun fuel _ rest ut => ?_⟩
    simp only [deserOne, readFrame_encodeBytes _ rest h2, normOne, reparse]
    cases ut with
    | true => simp
    | false =>
      simp only [Bool.not_true, Bool.or_self, Bool.false_eq_true, if_false]
      cases autoParse (fun x => deserObj T true fuel x none) _ _ <;> simp
  | string h1 h2 h3 h4 =>
    rename_i iv b
    refine ⟨0, fun fuel _ rest ut => ?_⟩
    simp only [deserOne, readFrame_encodeBytes _ rest h3, normOne, reparse]
    cases ut with
    | true => simp [h2]
    | false =>
      simp only [Bool.not_true, Bool.or_self, Bool.false_eq_true, if_false]
      cases autoParse (fun x => deserObj T true fuel x none) b b.length with
      | none => rfl
      | some w =>
        cases w with
        | bytes b' => by_cases hu : utf8Valid b' = true <;> simp [hu]
        | _ => rfl
  | bare hn hc hb ih =>
    obtain ⟨N, hN⟩ := ih
    refine ⟨N + 1, fun fuel hf rest ut => ?_⟩
    obtain ⟨k, rfl, hk⟩ := succ_of_le hf
    rename_i iv n c fs bs
    have hok := hT c (mem_of_byName hn)
    simp only [ctorOK, Bool.and_eq_true] at hok
    have := hN k hk rest [] none [] hok.1.2 trivial
    simp only [List.nil_append] at this
    simp only [deserOne, hn, deserObj_bare_succ, this, normOne, normObj]
    cases normBody T (reparse T k) (normObj T k) none c.args fs <;> simp
  | boxed hm hn hc hb ih =>
    obtain ⟨N, hN⟩ := ih
    refine ⟨N + 1, fun fuel hf rest ut => ?_⟩
    obtain ⟨k, rfl, hk⟩ := succ_of_le hf
    rename_i iv cl c fs bs
    have hok := hT c (mem_of_byClass hm)
    simp only [ctorOK, Bool.and_eq_true, decide_eq_true_eq] at hok
    obtain ⟨⟨hid, hcond⟩, hby⟩ := hok
    cases hb' : T.byId c.id with
    | none => simp [hb'] at hby
    | some c' =>
      simp only [hb', Bool.and_eq_true, beq_iff_eq] at hby
      obtain ⟨hname, hargs⟩ := hby
      have hid' : byIdLE T (natToLE 4 c.id ++ bs ++ rest) = some c' := by
        unfold byIdLE
        rw [List.append_assoc, take_append_len _ _ 4 (natToLE_length 4 _)]
        simp [natOfLE_natToLE_lt 4 c.id (by simpa using hid), hb']
      have := hN k hk rest [] (some c.name) [] hcond trivial
      simp only [List.nil_append] at this
      have hd : (natToLE 4 c.id ++ bs ++ rest).drop 4 = bs ++ rest := by
        rw [List.append_assoc]; exact drop_append_len _ _ 4 (natToLE_length 4 _)
      simp only [deserOne, deserObj, hid', hd, hargs, this, hname, normOne, hn, normObj]
      cases normBody T (reparse T k) (normObj T k) (some c.name) c.args fs <;> simp
  | manyNil => exact ⟨0, fun fuel _ rest => by simp [deserMany, normMany]⟩
  | manyCons h1 h2 ih1 ih2 =>
    obtain ⟨N1, hN1⟩ := ih1
    obtain ⟨N2, hN2⟩ := ih2
    refine ⟨max N1 N2, fun fuel hf rest => ?_⟩
    rename_i e v vs b1 b2
    have a := hN1 fuel (by omega) (b2 ++ rest) false
    have b := hN2 fuel (by omega) rest
    simp only [List.length_cons, deserMany, deserElem, List.append_assoc, a, normMany]
    cases normOne T (reparse T fuel) (normObj T fuel) false e v with
    | none => simp
    | some w =>
      simp only [Option.map_some, Option.bind_eq_bind, Option.bind_some, drop_append_len _ _ _ rfl, b]
      cases normMany (normOne T (reparse T fuel) (normObj T fuel) false e) vs <;> simp
  | scalar hv h1 ih =>
    obtain ⟨N, hN⟩ := ih
    refine ⟨N, fun fuel hf rest ut => ?_⟩
    have a := hN fuel hf rest ut
    simp [deserArg, normArg, hv, a]
  | vector hv hl hb h1 ih =>
    obtain ⟨N, hN⟩ := ih
    refine ⟨N, fun fuel hf rest ut => ?_⟩
    rename_i a0 vs bs
    have a := hN fuel hf rest
    have ht : (natToLE 4 vs.length ++ bs ++ rest).take 4 = natToLE 4 vs.length := by
      rw [List.append_assoc]; exact take_append_len _ _ 4 (natToLE_length 4 _)
    have hd : (natToLE 4 vs.length ++ bs ++ rest).drop 4 = bs ++ rest := by
      rw [List.append_assoc]; exact drop_append_len _ _ 4 (natToLE_length 4 _)
    have hlen : ¬ (natToLE 4 vs.length ++ bs ++ rest).length < 4 + vs.length := by
      simp only [List.length_append, natToLE_length]; omega
    simp only [deserArg, normArg, hv, if_true, ht, natOfLE_natToLE_lt 4 vs.length (by simpa using hl), hlen, if_false, hd, a]
    cases normMany (normOne T (reparse T fuel) (normObj T fuel) false a0.ty) vs <;> simp
  | bodyNil => exact ⟨0, fun fuel _ rest pre schema accN _ _ => by simp [deserBody, normBody]⟩
  | bodyReq hc hl h1 h2 ih1 ih2 =>
    obtain ⟨N1, hN1⟩ := ih1
    obtain ⟨N2, hN2⟩ := ih2
    refine ⟨max N1 N2, fun fuel hf rest pre schema accN hco hrel => ?_⟩
    rename_i a as whole v b1 b2
    simp only [condOK, Bool.and_eq_true] at hco
    have e1 : canonFields (pre ++ [a]) whole = canonFields pre whole ++ [(a.name, v)] := by
      rw [canonFields_append]; simp [canonFields, hl]
    simp only [deserBody, hc, List.append_assoc, hN1 fuel (by omega) (b2 ++ rest) _, normBody, hl]
    cases hw : normArg T (reparse T fuel) (normObj T fuel)
        (match schema with | some s => T.untouch.contains (s, a.name) | none => false) a v with
    | none => simp
    | some w =>
      have hint : ∀ m, v = .int m → w = .int m := fun m hm => by subst hm; exact normArg_int _ _ _ _ _ _ _ hw
      have hx := hN2 fuel (by omega) rest (pre ++ [a]) schema (accN ++ [(a.name, w)]) hco.2
        (by rw [e1]; exact flagRel_snoc _ _ _ _ _ hrel hint)
      simp only [Option.map_some, drop_append_len _ _ _ rfl, hx]
      cases normBody T (reparse T fuel) (normObj T fuel) schema as whole <;> simp
  | bodyOn hc hf h0 hb hl h1 h2 ih1 ih2 =>
    obtain ⟨N1, hN1⟩ := ih1
    obtain ⟨N2, hN2⟩ := ih2
    refine ⟨max N1 N2, fun fuel hfu rest pre schema accN hco hrel => ?_⟩
    rename_i a as whole fl bit m v b1 b2
    simp only [condOK, hc, Bool.and_eq_true] at hco
    have hfv := flagVal_rel T _ accN hrel m (flagVal_canon T pre whole fl _ hco.1.1 hco.1.2 hf)
    have e1 : canonFields (pre ++ [a]) whole = canonFields pre whole ++ [(a.name, v)] := by
      rw [canonFields_append]; simp [canonFields, hl]
    have hm : maskBit m bit = true := by simp [maskBit, h0, hb]
    simp only [deserBody, hc, hfv, hm, List.append_assoc, hN1 fuel (by omega) (b2 ++ rest) _, normBody, hl]
    cases hw : normArg T (reparse T fuel) (normObj T fuel)
        (match schema with | some s => T.untouch.contains (s, a.name) | none => false) a v with
    | none => simp
    | some w =>
      have hint : ∀ m, v = .int m → w = .int m := fun m hm => by subst hm; exact normArg_int _ _ _ _ _ _ _ hw
      have hx := hN2 fuel (by omega) rest (pre ++ [a]) schema (accN ++ [(a.name, w)]) hco.2
        (by rw [e1]; exact flagRel_snoc _ _ _ _ _ hrel hint)
      simp only [Option.map_some, drop_append_len _ _ _ rfl, hx]
      cases normBody T (reparse T fuel) (normObj T fuel) schema as whole <;> simp
  | bodyOff hc hf h0 hb hl h1 ih =>
    obtain ⟨N, hN⟩ := ih
    refine ⟨N, fun fuel hfu rest pre schema accN hco hrel => ?_⟩
    rename_i a as whole fl bit m bs
    simp only [condOK, hc, Bool.and_eq_true] at hco
    have hfv := flagVal_rel T _ accN hrel m (flagVal_canon T pre whole fl _ hco.1.1 hco.1.2 hf)
    have e1 : canonFields (pre ++ [a]) whole = canonFields pre whole := by
      rw [canonFields_append]; simp [canonFields, hl]
    have hx := hN fuel hfu rest (pre ++ [a]) schema accN hco.2 (by rw [e1]; exact hrel)
    have hm : maskBit m bit = false := by simp [maskBit, h0, hb]
    simp only [deserBody, hc, hfv, hm, hx, normBody, hl]

/-- top level: `deserialize` with auto-deserialisation on returns `normalize` of the value, consuming exactly the
serialisation, and raises exactly when `normalize` is `none`. -/
theorem normalized_top (T : Table) (hT : TableOK T) (c : Ctor) (hc : c ∈ T.ctors) (fs : Fields) (body : Bytes)
    (hb : Enc T (fun _ => True) (.body c.args fs) body) :
    ∃ N, ∀ fuel, N ≤ fuel → ∀ rest, deserialize T true fuel (natToLE 4 c.id ++ body ++ rest) =
      (normalize T fuel c (.obj (some c.name) fs)).map (fun w => (w, (natToLE 4 c.id ++ body).length)) := by
  obtain ⟨N, hN⟩ := normalized T hT hb
  refine ⟨N + 1, fun fuel hf rest => ?_⟩
  obtain ⟨k, rfl, hk⟩ := succ_of_le hf
  have hok := hT c hc
  simp only [ctorOK, Bool.and_eq_true, decide_eq_true_eq] at hok
  obtain ⟨⟨hid, hcond⟩, hby⟩ := hok
  cases hb' : T.byId c.id with
  | none => simp [hb'] at hby
  | some c' =>
    simp only [hb', Bool.and_eq_true, beq_iff_eq] at hby
    obtain ⟨hname, hargs⟩ := hby
    have hid' : byIdLE T (natToLE 4 c.id ++ body ++ rest) = some c' := by
      unfold byIdLE
      rw [List.append_assoc, take_append_len _ _ 4 (natToLE_length 4 _)]
      simp [natOfLE_natToLE_lt 4 c.id (by simpa using hid), hb']
    have := hN k hk rest [] (some c.name) [] hcond trivial
    simp only [List.nil_append] at this
    have hd : (natToLE 4 c.id ++ body ++ rest).drop 4 = body ++ rest := by
      rw [List.append_assoc]; exact drop_append_len _ _ 4 (natToLE_length 4 _)
    simp only [deserialize, deserObj, hid', hd, hargs, hname, this, normalize, normObj]
    cases normBody T (reparse T k) (normObj T k) (some c.name) c.args fs <;> simp

/-! ### the side condition can be weakened; the identity case -/

theorem enc_mono (T : Table) {P Q : Bytes → Prop} (hPQ : ∀ b, P b → Q b) {item : Item} {bs : Bytes}
    (h : Enc T P item bs) : Enc T Q item bs := by
  induction h with
  | int h1 h2 => exact Enc.int h1 h2
  | long h1 h2 => exact Enc.long h1 h2
  | nat h1 h2 => exact Enc.nat h1 h2
  | int128 h1 h2 => exact Enc.int128 h1 h2
  | int256 h1 h2 => exact Enc.int256 h1 h2
  | boolT => exact Enc.boolT
  | boolF => exact Enc.boolF
  | bytes h1 h2 h3 => exact Enc.bytes h1 h2 (hPQ _ h3)
  | string h1 h2 h3 h4 => exact Enc.string h1 h2 h3 (hPQ _ h4)
  | bare hn hc _ ih => exact Enc.bare hn hc ih
  | boxed hm hn hc _ ih => exact Enc.boxed hm hn hc ih
  | manyNil => exact Enc.manyNil
  | manyCons _ _ ih1 ih2 => exact Enc.manyCons ih1 ih2
  | scalar hv _ ih => exact Enc.scalar hv ih
  | vector hv hl hb _ ih => exact Enc.vector hv hl hb ih
  | bodyNil => exact Enc.bodyNil
  | bodyReq hc hl _ _ ih1 ih2 => exact Enc.bodyReq hc hl ih1 ih2
  | bodyOn hc hf h0 hb hl _ _ ih1 ih2 => exact Enc.bodyOn hc hf h0 hb hl ih1 ih2
  | bodyOff hc hf h0 hb hl _ ih => exact Enc.bodyOff hc hf h0 hb hl ih

/-- when no `bytes`/`string` content starts with a registered id the normal form is the value itself. -/
theorem normalize_id (T : Table) (hT : TableOK T) (c : Ctor) (hc : c ∈ T.ctors) (fs : Fields) (body : Bytes)
    (hcan : fs = canonFields c.args fs) (hb : Enc T (fun b => byIdLE T b = none) (.body c.args fs) body) :
    ∃ N, ∀ fuel, N ≤ fuel → normalize T fuel c (.obj (some c.name) fs) = some (.obj (some c.name) fs) := by
  obtain ⟨N1, h1⟩ := roundtrip_top T _ true hT (fun _ b hb => hb) c hc fs body hcan hb
  obtain ⟨N2, h2⟩ := normalized_top T hT c hc fs body (enc_mono T (fun _ _ => trivial) hb)
  refine ⟨max N1 N2, fun fuel hf => ?_⟩
  have a := h1 fuel (by omega) []
  have b := h2 fuel (by omega) []
  rw [a] at b
  cases hn : normalize T fuel c (.obj (some c.name) fs) with
  | none => rw [hn] at b; simp at b
  | some w => rw [hn] at b; simp only [Option.map_some, Option.some.injEq, Prod.mk.injEq] at b; rw [← b.1]

/-! ### contents that are serialised objects: the field becomes the object's own normal form / a list of them -/

/-- a `bytes` content that is the serialisation of one well-typed object is replaced by that object's normal form
(and the outer call raises iff the inner normalisation does). -/
theorem reparse_one (T : Table) (hT : TableOK T) (c : Ctor) (hc : c ∈ T.ctors) (fs : Fields) (body : Bytes)
    (hb : Enc T (fun _ => True) (.body c.args fs) body) :
    ∃ N, ∀ fuel, N ≤ fuel →
      reparse T fuel (natToLE 4 c.id ++ body) = normalize T fuel c (.obj (some c.name) fs) := by
  obtain ⟨N, hN⟩ := normalized_top T hT c hc fs body hb
  refine ⟨N, fun fuel hf => ?_⟩
  have h := hN fuel hf []
  simp only [List.append_nil, deserialize] at h
  simp only [reparse, autoParse, h]
  cases normalize T fuel c (.obj (some c.name) fs) <;> simp

/-- serialised objects one after the other: (constructor, fields, encoding of the fields). -/
def catSer : List (Ctor × Fields × Bytes) → Bytes
  | [] => []
  | (c, _, body) :: l => (natToLE 4 c.id ++ body) ++ catSer l

/-- the normal forms of all of them (`none` if one of them raises). -/
def normEach (T : Table) (fuel : Nat) : List (Ctor × Fields × Bytes) → Option (List Val)
  | [] => some []
  | (c, fs, _) :: l =>
    match normalize T fuel c (.obj (some c.name) fs) with
    | none => none
    | some w => (normEach T fuel l).map (fun ws => w :: ws)

def AllEnc (T : Table) (l : List (Ctor × Fields × Bytes)) : Prop :=
  ∀ x ∈ l, x.1 ∈ T.ctors ∧ Enc T (fun _ => True) (.body x.1.args x.2.1) x.2.2

theorem catSer_length (l : List (Ctor × Fields × Bytes)) : 4 * l.length ≤ (catSer l).length := by
  induction l with
  | nil => simp [catSer]
  | cons x l ih =>
    obtain ⟨c, fs, body⟩ := x
    simp only [catSer, List.length_append, natToLE_length, List.length_cons]
    omega

theorem autoLoop_catSer (T : Table) (hT : TableOK T) (l : List (Ctor × Fields × Bytes)) (hl : AllEnc T l) :
    ∃ N, ∀ fuel, N ≤ fuel → ∀ (pre : Bytes) (acc : List Val) (k : Nat), l.length ≤ k →
      autoLoop (fun x => deserObj T true fuel x none) (pre ++ catSer l) (pre ++ catSer l).length k pre.length acc =
        (normEach T fuel l).map (fun ws => .list (acc ++ ws)) := by
  induction l with
  | nil =>
    refine ⟨0, fun fuel _ pre acc k _ => ?_⟩
    cases k <;> simp [autoLoop, catSer, normEach]
  | cons x l ih =>
    obtain ⟨c, fs, body⟩ := x
    obtain ⟨N1, h1⟩ := ih (fun y hy => hl y (List.mem_cons_of_mem _ hy))
    have hx := hl (c, fs, body) (List.mem_cons_self ..)
    obtain ⟨N2, h2⟩ := normalized_top T hT c hx.1 fs body hx.2
    refine ⟨max N1 N2, fun fuel hf pre acc k hk => ?_⟩
    obtain ⟨k', rfl⟩ : ∃ k', k = k' + 1 := ⟨k - 1, by simp only [List.length_cons] at hk; omega⟩
    have hj : pre.length < (pre ++ catSer ((c, fs, body) :: l)).length := by
      simp only [catSer, List.length_append, natToLE_length]; omega
    have hd : (pre ++ catSer ((c, fs, body) :: l)).drop pre.length = natToLE 4 c.id ++ body ++ catSer l := by
      simp [catSer]
    have ht := h2 fuel (by omega) (catSer l)
    simp only [deserialize] at ht
    simp only [autoLoop, hj, if_true, hd, ht, normEach]
    cases hn : normalize T fuel c (.obj (some c.name) fs) with
    | none => simp
    | some w =>
      have hne : ¬ (natToLE 4 c.id ++ body).length = 0 := by simp only [List.length_append, natToLE_length]; omega
      have hi := h1 fuel (by omega) (pre ++ (natToLE 4 c.id ++ body)) (acc ++ [w]) k'
        (by simp only [List.length_cons] at hk; omega)
      have e : pre ++ catSer ((c, fs, body) :: l) = pre ++ (natToLE 4 c.id ++ body) ++ catSer l := by
        simp [catSer]
      simp only [Option.map_some, hne, if_false]
      rw [e, show pre.length + (natToLE 4 c.id ++ body).length = (pre ++ (natToLE 4 c.id ++ body)).length by simp, hi]
      cases normEach T fuel l <;> simp

/-- a `bytes` content that consists of two or more serialised well-typed objects is replaced by the list of their
normal forms. -/
theorem reparse_many (T : Table) (hT : TableOK T) (x y : Ctor × Fields × Bytes) (l : List (Ctor × Fields × Bytes))
    (hl : AllEnc T (x :: y :: l)) :
    ∃ N, ∀ fuel, N ≤ fuel →
      reparse T fuel (catSer (x :: y :: l)) = (normEach T fuel (x :: y :: l)).map (fun ws => .list ws) := by
  obtain ⟨c, fs, body⟩ := x
  have hx := hl (c, fs, body) (List.mem_cons_self ..)
  obtain ⟨N1, h1⟩ := autoLoop_catSer T hT (y :: l) (fun z hz => hl z (List.mem_cons_of_mem _ hz))
  obtain ⟨N2, h2⟩ := normalized_top T hT c hx.1 fs body hx.2
  refine ⟨max N1 N2, fun fuel hf => ?_⟩
  have ht := h2 fuel (by omega) (catSer (y :: l))
  simp only [deserialize] at ht
  have e : catSer ((c, fs, body) :: y :: l) = natToLE 4 c.id ++ body ++ catSer (y :: l) := by simp [catSer]
  have hlen := catSer_length (y :: l)
  simp only [reparse, autoParse]
  rw [e, ht, normEach]
  cases hn : normalize T fuel c (.obj (some c.name) fs) with
  | none => simp
  | some w =>
    have hj : (natToLE 4 c.id ++ body).length < (natToLE 4 c.id ++ body ++ catSer (y :: l)).length := by
      simp only [List.length_append, List.length_cons] at hlen ⊢; omega
    have hi := h1 fuel (by omega) (natToLE 4 c.id ++ body) [w] (natToLE 4 c.id ++ body ++ catSer (y :: l)).length
      (by simp only [List.length_append, List.length_cons] at hlen ⊢; omega)
    simp only [Option.map_some, hj, if_true, hi]
    cases normEach T fuel (y :: l) <;> simp

end TonVerif.Proofs.Tl
