/-
C17 round trip: the model parser (`De.*`) inverts the schema relation of `Spec/Tlb/VmStack.lean`.
`de_*`: `IsX view ord x b r → From (De.x view ord) b r x` — for every fuel from some bound on, the parser
consumes exactly `b` / `r` from the front of any slice and returns `x`.
-/
import TonVerif.Proofs.VmStack

namespace TonVerif.Proofs.Vm
open TonVerif TonVerif.Model TonVerif.Model.Vm TonVerif.Spec.Vm

variable {R : Type} {view : R → Bits × List R} {ord : R → Bool}

/-! ### combinators -/

theorem Reads.of_eq {α : Type} {p q : SOp R α} {xs rs a} (hq : Reads q xs rs a)
    (h : ∀ b' r', p ⟨xs ++ b', rs ++ r'⟩ = q ⟨xs ++ b', rs ++ r'⟩) : Reads p xs rs a := by
  intro b' r'; rw [h]; exact hq b' r'

theorem Reads.ite_pos {α : Type} {c : Prop} [Decidable c] {p q : SOp R α} {xs rs a} (hc : c)
    (h : Reads p xs rs a) : Reads (if c then p else q) xs rs a := by rw [if_pos hc]; exact h

theorem Reads.ite_neg {α : Type} {c : Prop} [Decidable c] {p q : SOp R α} {xs rs a} (hc : ¬ c)
    (h : Reads q xs rs a) : Reads (if c then p else q) xs rs a := by rw [if_neg hc]; exact h

/-! ### tag bytes -/

theorem bitsToBytes_head (xs rest : Bits) (h : xs.length = 8) :
    (bitsToBytes (xs ++ rest)).take 1 = [natOfBits xs] := by
  match xs, h with
  | x :: xs', h =>
    rw [List.cons_append, bitsToBytes]
    have : List.take 8 (x :: (xs' ++ rest)) = x :: xs' := by
      rw [← List.cons_append]; exact List.take_left' h
    simp [this, h]

theorem tagByte_length (k : Nat) : (tagByte k).length = 8 := natToBits_length _ _

theorem tag_take16 (k : Nat) (rest : Bits) (hk : k < 256) :
    (bitsToBytes ((tagByte k ++ rest).take 16)).take 1 = [k] := by
  have : (tagByte k ++ rest).take 16 = tagByte k ++ rest.take 8 := by
    rw [List.take_append, tagByte_length]
    rw [List.take_of_length_le (by rw [tagByte_length]; omega)]
  rw [this, bitsToBytes_head _ _ (tagByte_length k), tagByte, natOfBits_natToBits, Nat.mod_eq_of_lt (by omega)]

theorem tag_take15 (k : Nat) (rest : Bits) (hk : k < 256) (h2 : k ≠ 2) :
    ((tagByte k ++ rest).take 15 == tagInt257) = false := by
  apply Bool.eq_false_iff.mpr
  intro h
  have h := eq_of_beq h
  have h8 := congrArg (List.take 8) h
  rw [List.take_take, show min 8 15 = 8 by decide, List.take_left' (tagByte_length k)] at h8
  have : natOfBits (tagByte k) = natOfBits (List.take 8 tagInt257) := by rw [h8]
  rw [tagByte, natOfBits_natToBits, Nat.mod_eq_of_lt (by omega)] at this
  exact h2 (this.trans (by decide))


/-! ### tag dispatch of `VmStackValue.deserialize` -/

open SOp in
/-- the branch `VmStackValue.deserialize` takes on a one-byte tag `k` -/
def valBranch (view : R → Bits × List R) (ord : R → Bool) (fuel : Nat) : Nat → SOp R (Val R)
  | 0 => do let _ ← loadBytes 1; return Val.null
  | 1 => do let _ ← loadBytes 1; let v ← loadInt 64; return Val.int v
  | 3 => do let _ ← loadBytes 1; let c ← loadRef; return Val.cell c
  | 4 => do let _ ← loadBytes 1; let r ← De.cellSlice view; return Val.slice r.1 r.2
  | 5 => do let _ ← loadBytes 1
            let c ← loadRef
            if ord c then return Val.builder (view c).1 (view c).2 else SOp.fail
  | 6 => do let _ ← loadBytes 1
            let known ← (fun s' => (s', some (De.contTagKnown s')))
            if known then do let k ← De.cont view ord fuel; return Val.cont k
            else (if fuel = 0 then SOp.fail else return Val.null)
  | 7 => do let _ ← loadBytes 1
            let len ← loadUint 16
            let vs ← De.tuple view ord fuel len.toNat
            return Val.tuple vs
  | _ => SOp.fail

theorem val_dispatch (fuel k : Nat) (hk : k = 0 ∨ k = 1 ∨ k = 3 ∨ k = 4 ∨ k = 5 ∨ k = 6 ∨ k = 7)
    (rest : Bits) (rs : List R) :
    De.val view ord (fuel + 1) ⟨tagByte k ++ rest, rs⟩ = valBranch view ord fuel k ⟨tagByte k ++ rest, rs⟩ := by
  have h15 := tag_take15 k rest (by omega) (by omega)
  have h16 := tag_take16 k rest (by omega)
  have hne : ¬ bitsToBytes (List.take 16 (tagByte k ++ rest)) = [2, 255] := by
    intro h; rw [h] at h16; simp at h16; omega
  rw [De.val]
  simp only [h15, h16]
  rcases hk with rfl | rfl | rfl | rfl | rfl | rfl | rfl <;> simp [valBranch, hne]

theorem val_dispatch257 (fuel : Nat) (rest : Bits) (rs : List R) :
    De.val view ord (fuel + 1) ⟨tag0201 ++ rest, rs⟩ =
      (do let _ ← SOp.loadBits 15; let v ← SOp.loadInt 257; return Val.int v : SOp R (Val R)) ⟨tag0201 ++ rest, rs⟩ := by
  have : List.take 15 (tag0201 ++ rest) = tagInt257 := by
    rw [← tagInt257_eq]; exact List.take_left' (by decide)
  rw [De.val]
  simp only [this]
  simp


/-! ### tag dispatch of `VmCont.deserialize` -/

/-- `cls.deserialize(cell_slice.load_ref().begin_parse())` -/
def contRef (view : R → Bits × List R) (ord : R → Bool) (fuel : Nat) : SOp R (Cont R) := do
  let c ← SOp.loadRef; De.sub view (De.cont view ord fuel) c

open SOp in
/-- the `i`-th branch of `VmCont.deserialize` -/
def contBranch (view : R → Bits × List R) (ord : R → Bool) (fuel : Nat) : Nat → SOp R (Cont R)
  | 0 => do skipBits 2; let cd ← De.ctl view ord fuel; let cs ← De.cellSlice view; return Cont.std cd cs.1 cs.2
  | 1 => do skipBits 2; let cd ← De.ctl view ord fuel; let n ← contRef view ord fuel; return Cont.envelope cd n
  | 2 => do skipBits 4; let c ← loadInt 32; return Cont.quit c
  | 3 => do skipBits 4; return Cont.quitExc
  | 4 => do skipBits 5; let c ← loadUint 63; let b ← contRef view ord fuel; let a ← contRef view ord fuel
            return Cont.repeat_ c b a
  | 5 => do skipBits 6; let b ← contRef view ord fuel; let a ← contRef view ord fuel; return Cont.until_ b a
  | 6 => do skipBits 6; let b ← contRef view ord fuel; return Cont.again b
  | 7 => do skipBits 6; let c ← contRef view ord fuel; let b ← contRef view ord fuel; let a ← contRef view ord fuel
            return Cont.whileCond c b a
  | 8 => do skipBits 6; let c ← contRef view ord fuel; let b ← contRef view ord fuel; let a ← contRef view ord fuel
            return Cont.whileBody c b a
  | 9 => do skipBits 4; let v ← loadInt 32; let n ← contRef view ord fuel; return Cont.pushint v n
  | _ => SOp.fail

theorem cont_dispatch (fuel i : Nat) (hi : i < 10) (rest : Bits) (rs : List R) :
    De.cont view ord (fuel + 1) ⟨De.contTags.getD i [] ++ rest, rs⟩ =
      contBranch view ord fuel i ⟨De.contTags.getD i [] ++ rest, rs⟩ := by
  rw [De.cont]
  have : i = 0 ∨ i = 1 ∨ i = 2 ∨ i = 3 ∨ i = 4 ∨ i = 5 ∨ i = 6 ∨ i = 7 ∨ i = 8 ∨ i = 9 := by omega
  rcases this with rfl | rfl | rfl | rfl | rfl | rfl | rfl | rfl | rfl | rfl <;>
    simp [De.contTags, De.isPrefix, contBranch, contRef]

theorem contTagKnown_of (i : Nat) (hi : i < 10) (rest : Bits) (rs : List R) :
    De.contTagKnown (⟨De.contTags.getD i [] ++ rest, rs⟩ : Slice R) = true := by
  have : i = 0 ∨ i = 1 ∨ i = 2 ∨ i = 3 ∨ i = 4 ∨ i = 5 ∨ i = 6 ∨ i = 7 ∨ i = 8 ∨ i = 9 := by omega
  rcases this with rfl | rfl | rfl | rfl | rfl | rfl | rfl | rfl | rfl | rfl <;>
    simp [De.contTagKnown, De.contTags, De.isPrefix]


/-! ### fuel -/

theorem From.succ {α : Type} {p : Nat → SOp R α} {xs rs a} (n : Nat)
    (h : ∀ f, n ≤ f → Reads (p (f + 1)) xs rs a) : From p xs rs a :=
  ⟨n + 1, fun fuel hf => by
    obtain ⟨f, rfl⟩ : ∃ f, fuel = f + 1 := ⟨fuel - 1, by omega⟩
    exact h f (by omega)⟩

/-! ### `VmStackValue`: one lemma per constructor of `IsValue` (recursive calls as hypotheses) -/

theorem reads_val_of_branch (fuel k : Nat) (hk : k = 0 ∨ k = 1 ∨ k = 3 ∨ k = 4 ∨ k = 5 ∨ k = 6 ∨ k = 7)
    {body : Bits} {rs : List R} {a : Val R}
    (h : Reads (valBranch view ord fuel k) (tagByte k ++ body) rs a) :
    Reads (De.val view ord (fuel + 1)) (tagByte k ++ body) rs a :=
  h.of_eq (fun b' r' => by rw [List.append_assoc]; exact val_dispatch fuel k hk _ _)

theorem reads_val_null (fuel : Nat) : Reads (De.val view ord (fuel + 1)) (tagByte 0) [] Val.null := by
  have := reads_val_of_branch (view := view) (ord := ord) fuel 0 (by simp) (body := []) (rs := []) (a := Val.null)
    (Reads.cast (Reads.bind (reads_loadByte 0) (reads_pure _)) (by simp) (by simp))
  simpa using this

theorem reads_val_tinyint (fuel : Nat) (v : Int) (hv : IntOk 64 v) :
    Reads (De.val view ord (fuel + 1)) (tagByte 1 ++ intBits 64 v) [] (Val.int v) :=
  reads_val_of_branch fuel 1 (by simp)
    (Reads.cast (Reads.bind (reads_loadByte 1) (Reads.bind (reads_loadInt (by decide) hv) (reads_pure _)))
      (by simp) (by simp))

theorem reads_val_cell (fuel : Nat) (c : R) :
    Reads (De.val view ord (fuel + 1)) (tagByte 3) [c] (Val.cell c) := by
  have := reads_val_of_branch (view := view) (ord := ord) fuel 3 (by simp) (body := []) (rs := [c]) (a := Val.cell c)
    (Reads.cast (Reads.bind (reads_loadByte 3) (Reads.bind (reads_loadRef c) (reads_pure _))) (by simp) (by simp))
  simpa using this


theorem reads_val_int257 (fuel : Nat) (v : Int) (hv : IntOk 257 v) :
    Reads (De.val view ord (fuel + 1)) (tag0201 ++ intBits 257 v) [] (Val.int v) := by
  have h1 : Reads (SOp.loadBits 15 : SOp R Bits) tag0201 [] tag0201 := reads_loadBits tag0201 15 (natToBits_length _ _)
  have h2 : Reads (SOp.loadInt 257 : SOp R Int) (intBits 257 v) [] v := reads_loadInt (by omega) hv
  have h3 := Reads.bind h1 (f := fun _ => (SOp.loadInt 257 : SOp R Int) >>= fun v => (pure (Val.int v) : SOp R (Val R)))
    (Reads.bind h2 (reads_pure (Val.int v : Val R)))
  refine Reads.of_eq (Reads.cast h3 (by rw [List.append_nil]) rfl) ?_
  intro b' r'
  rw [List.append_assoc]; exact val_dispatch257 fuel _ _

theorem reads_val_slice (fuel : Nat) {bits : Bits} {refs : List R} {b : Bits} {r : List R}
    (h : IsCellSlice view bits refs b r) :
    Reads (De.val view ord (fuel + 1)) (tagByte 4 ++ b) r (Val.slice bits refs) :=
  reads_val_of_branch fuel 4 (by simp)
    (Reads.cast (Reads.bind (reads_loadByte 4) (Reads.bind (reads_cellSlice h) (reads_pure _))) (by simp) (by simp))

theorem reads_val_builder (fuel : Nat) (c : R) (hc : ord c = true) :
    Reads (De.val view ord (fuel + 1)) (tagByte 5) [c] (Val.builder (view c).1 (view c).2) := by
  have := reads_val_of_branch (view := view) (ord := ord) fuel 5 (by simp) (body := []) (rs := [c])
    (a := Val.builder (view c).1 (view c).2)
    (Reads.cast (Reads.bind (reads_loadByte 5) (Reads.bind (reads_loadRef c) (Reads.ite_pos hc (reads_pure _))))
      (by simp) (by simp))
  simpa using this

theorem reads_val_tuple (fuel : Nat) {vs : List (Val R)} {b : Bits} {r : List R} (hl : vs.length < 2 ^ 16)
    (h : Reads (De.tuple view ord fuel vs.length) b r vs) :
    Reads (De.val view ord (fuel + 1)) (tagByte 7 ++ uintBits 16 vs.length ++ b) r (Val.tuple vs) := by
  have h' : Reads (De.tuple view ord fuel (Int.toNat (vs.length : Int))) b r vs := by simpa using h
  have := reads_val_of_branch (view := view) (ord := ord) fuel 7 (by simp) (rs := r)
    (Reads.cast (Reads.bind (reads_loadByte 7) (Reads.bind (reads_loadUint (by decide) (uintOk_nat hl))
      (Reads.bind h' (reads_pure _)))) rfl (by simp))
  simpa [List.append_assoc] using this

theorem reads_val_cont (fuel : Nat) {k : Cont R} {b : Bits} {r : List R} (i : Nat) (hi : i < 10) (rest : Bits)
    (hb : b = De.contTags.getD i [] ++ rest) (hk : Reads (De.cont view ord fuel) b r k) :
    Reads (De.val view ord (fuel + 1)) (tagByte 6 ++ b) r (Val.cont k) := by
  refine reads_val_of_branch fuel 6 (by simp) ?_
  refine Reads.cast (Reads.bind (reads_loadByte 6) (?_ : Reads _ b r _)) rfl (by simp)
  refine Reads.of_eq (q := De.cont view ord fuel >>= fun k => pure (Val.cont k))
    (Reads.cast (Reads.bind hk (reads_pure _)) (by simp) (by simp)) ?_
  intro b' r'
  subst hb
  show SOp.bind _ _ _ = _
  simp only [SOp.bind, List.append_assoc, contTagKnown_of i hi, if_true]

end TonVerif.Proofs.Vm
