/-
C16: the hand model `Rd.loadAddress` of `Slice.load_address()` (Model/TlbRdTx.lean - what the regenerated TL-B parsers of
tlb/transaction.py call for an address) equals the REGENERATED `load_address` of boc/slice.py (Generated/SliceOps.lean) as a
value function on the remaining bits: the same decision to raise, the same Python value (`None` / `ExternalAddress` / `Address`
with its `Anycast`), the same bits left.  Route: regenerated = `SOp.loadAddress` (Proofs/SrcSlice.lean `src_load_address_eq`, all
states), then the two hand models are compared case by case (`rd_eq_sop`).
-/
import TonVerif.Model.TlbRdTx
import TonVerif.Proofs.SrcSlice
import TonVerif.Proofs.Hashmap
import TonVerif.Proofs.Pad

namespace TonVerif.Proofs.SrcLoadAddress
open TonVerif TonVerif.Model TonVerif.Tlb TonVerif.Proofs.Slice TonVerif.Proofs.SrcSlice
set_option linter.unusedSimpArgs false
set_option linter.unusedVariables false

/-- the Python value `load_address` returns, as the TL-B readers see it (attributes of `Address` / `ExternalAddress` / `Anycast`;
`hash_part` as its bits) -/
def valOfAddr : Addr → Val
  | .none => .unit
  | .ext len v => Rd.obj "ExternalAddress" [("external_address", .int v), ("len", .int len)]
  | .std ac wc h => Rd.obj "Address" [("wc", .int wc), ("hash_part", .bits (bytesToBits h)),
      ("anycast", match ac with
        | none => .unit
        | some (d, p) => Rd.obj "Anycast" [("depth", .int d), ("rewrite_pfx", .int p)])]

/-- a model result read as a result of the TL-B reader monad: the value, the remaining bits, the (untouched) references -/
def asRd {R : Type} (refs : List Tlb.Cell) (r : Slice R × Option Addr) : Rd.R :=
  match r.2 with
  | some a => some (valOfAddr a, ⟨r.1.bits, refs⟩)
  | none => none

theorem ba2intS_sint (b : Bits) (h : b ≠ []) : SOp.ba2intS b = some (Rd.sintOfBits b) := by
  cases b with
  | nil => exact absurd rfl h
  | cons sign rest =>
    simp only [SOp.ba2intS, Rd.sintOfBits, Option.some.injEq, List.length_cons, Nat.add_sub_cancel]
    have hc := TonVerif.Proofs.Hashmap.natOfBits_cons sign rest
    have hlt := TonVerif.Proofs.Hashmap.natOfBits_lt rest
    have hp : (2 : Nat) ^ (rest.length + 1) = 2 * 2 ^ rest.length := by rw [Nat.pow_succ]; omega
    cases sign with
    | true =>
      simp only [if_true] at hc ⊢
      rw [if_neg (by omega)]
    | false =>
      simp only [Bool.false_eq_true, if_false] at hc ⊢
      rw [if_pos (by omega)]

variable {R : Type} {α : Type}

/-! ### the primitives of both models in closed form -/

theorem bind_loadUint (n : Nat) (bits : Bits) (mrefs : List R) (g : Int → SOp R α) :
    SOp.bind (SOp.loadUint n) g ⟨bits, mrefs⟩ =
      if n = 0 ∨ bits.length < n then (⟨bits, mrefs⟩, none) else g (natOfBits (bits.take n) : Int) ⟨bits.drop n, mrefs⟩ := by
  by_cases h : n = 0 ∨ bits.length < n <;> simp [SOp.bind, loadUint_eq, h]

theorem bind_loadInt (n : Nat) (bits : Bits) (mrefs : List R) (g : Int → SOp R α) :
    SOp.bind (SOp.loadInt n) g ⟨bits, mrefs⟩ =
      if n = 0 ∨ bits.length < n then (⟨bits, mrefs⟩, none) else g (Rd.sintOfBits (bits.take n)) ⟨bits.drop n, mrefs⟩ := by
  by_cases h : n = 0 ∨ bits.length < n
  · simp [SOp.bind, loadInt_eq, h]
  · have h1 : n ≠ 0 := fun e => h (Or.inl e)
    have h2 : ¬ bits.length < n := fun e => h (Or.inr e)
    have hne : bits.take n ≠ [] := by
      intro e; have := congrArg List.length e
      rw [List.length_take, List.length_nil] at this; omega
    simp [SOp.bind, loadInt_eq, h, ba2intS_sint _ hne]

theorem bind_loadBytes (n : Nat) (bits : Bits) (mrefs : List R) (g : Bytes → SOp R α) :
    SOp.bind (SOp.loadBytes n) g ⟨bits, mrefs⟩ =
      if bits.length < n * 8 then (⟨bits, mrefs⟩, none) else g (bitsToBytes (bits.take (n * 8))) ⟨bits.drop (n * 8), mrefs⟩ := by
  by_cases h : bits.length < n * 8 <;> simp [SOp.bind, loadBytes_eq, h]

theorem bind_loadBit (bits : Bits) (mrefs : List R) (g : Bool → SOp R α) :
    SOp.bind SOp.loadBit g ⟨bits, mrefs⟩ =
      match bits with
      | [] => (⟨[], mrefs⟩, none)
      | b :: rest => g b ⟨rest, mrefs⟩ := by
  cases bits <;> rfl

theorem rd_loadUint (n : Nat) (bits : Bits) (refs : List Tlb.Cell) :
    Rd.loadUint n ⟨bits, refs⟩ =
      if n = 0 ∨ bits.length < n then none else some (.int (natOfBits (bits.take n)), ⟨bits.drop n, refs⟩) := by
  unfold Rd.loadUint Rd.takeBits
  by_cases h0 : n = 0
  · simp [h0]
  · by_cases h : bits.length < n <;> simp [h0, h]

theorem rd_loadInt (n : Nat) (bits : Bits) (refs : List Tlb.Cell) :
    Rd.loadInt n ⟨bits, refs⟩ =
      if n = 0 ∨ bits.length < n then none else some (.int (Rd.sintOfBits (bits.take n)), ⟨bits.drop n, refs⟩) := by
  unfold Rd.loadInt Rd.takeBits
  by_cases h0 : n = 0
  · simp [h0]
  · by_cases h : bits.length < n <;> simp [h0, h]

theorem rd_loadBytes (k : Nat) (bits : Bits) (refs : List Tlb.Cell) :
    Rd.loadBytes k ⟨bits, refs⟩ =
      if bits.length < 8 * k then none else some (.bits (bits.take (8 * k)), ⟨bits.drop (8 * k), refs⟩) := by
  unfold Rd.loadBytes Rd.loadBits Rd.takeBits
  by_cases h : bits.length < 8 * k <;> simp [h]

theorem asRd_none (refs : List Tlb.Cell) (s : Slice R) : asRd refs (s, none) = none := rfl
theorem asRd_some (refs : List Tlb.Cell) (s : Slice R) (a : Addr) : asRd refs (s, some a) = some (valOfAddr a, ⟨s.bits, refs⟩) := rfl

theorem asRd_of_none (refs : List Tlb.Cell) (r : Slice R × Option Addr) (h : r.2 = none) : asRd refs r = none := by
  unfold asRd; rw [h]

theorem bind_fail_snd {β : Type} (f : SOp R β) (s : Slice R) : ((f.bind fun _ => (SOp.fail : SOp R α)) s).2 = none := by
  simp only [SOp.bind]
  rcases f s with ⟨s1, _ | a⟩ <;> rfl

/-- the Python value of the `anycast` attribute -/
def valOfAnycast : Option (Nat × Int) → Val
  | none => .unit
  | some (d, p) => Rd.obj "Anycast" [("depth", .int d), ("rewrite_pfx", .int p)]

/-- `wc:int8`, `hash_part:bits256` and the `Address` object, after the anycast prefix -/
theorem std_tail (ac : Option (Nat × Int)) (b : Bits) (refs : List Tlb.Cell) (mrefs : List R) :
    (match Rd.loadInt 8 ⟨b, refs⟩ with
      | some (wc, s3) =>
        match Rd.loadBytes 32 s3 with
        | some (h, s4) => some (Rd.obj "Address" [("wc", wc), ("hash_part", h), ("anycast", valOfAnycast ac)], s4)
        | none => none
      | none => none) =
    asRd refs (((SOp.loadInt 8).bind fun wc => (SOp.loadBytes 32).bind fun h => SOp.pure (Addr.std ac wc h)) ⟨b, mrefs⟩) := by
  rw [bind_loadInt, rd_loadInt]
  by_cases h8 : (8 = 0 ∨ b.length < 8)
  · rw [if_pos h8, if_pos h8]; rfl
  · rw [if_neg h8, if_neg h8]
    generalize Rd.sintOfBits (b.take 8) = wc
    generalize b.drop 8 = b3
    simp only [bind_loadBytes, rd_loadBytes]
    by_cases h256 : b3.length < 256
    · simp [h256, asRd]
    · have hl : (b3.take 256).length = 8 * 32 := by rw [List.length_take]; omega
      have hb := TonVerif.Proofs.Pad.bytesToBits_bitsToBytes 32 _ hl
      cases ac with
      | none => simp [h256, asRd, SOp.pure, valOfAddr, valOfAnycast, hb]
      | some p => obtain ⟨d, px⟩ := p; simp [h256, asRd, SOp.pure, valOfAddr, valOfAnycast, hb]

theorem tag_cases (b : Bits) (h : b.length = 2) : natOfBits b = 0 ∨ natOfBits b = 1 ∨ natOfBits b = 2 ∨ natOfBits b = 3 := by
  have := TonVerif.Proofs.Hashmap.natOfBits_lt b
  rw [h] at this
  omega

/-- the two hand models agree: `Rd.loadAddress` (TL-B reader monad) is `SOp.loadAddress` (C06's model) read through `asRd` -/
theorem rd_eq_sop (bits : Bits) (refs : List Tlb.Cell) (mrefs : List R) :
    Rd.loadAddress ⟨bits, refs⟩ = asRd refs (SOp.loadAddress (⟨bits, mrefs⟩ : Slice R)) := by
  unfold Rd.loadAddress SOp.loadAddress
  simp only [bind_eq, pure_eq]
  rw [bind_loadUint, rd_loadUint]
  by_cases h2 : (2 = 0 ∨ bits.length < 2)
  · rw [if_pos h2, if_pos h2]; rfl
  · rw [if_neg h2, if_neg h2]
    have hl2 : (bits.take 2).length = 2 := by rw [List.length_take]; omega
    have htag := tag_cases _ hl2
    generalize natOfBits (bits.take 2) = tag at htag ⊢
    generalize bits.drop 2 = b1
    rcases htag with rfl | rfl | rfl | rfl
    · simp [asRd, SOp.pure, valOfAddr]
    · -- addr_extern
      simp only [Nat.cast_one, one_ne_zero, if_false, if_true]
      rw [bind_loadUint, rd_loadUint]
      by_cases h9 : (9 = 0 ∨ b1.length < 9)
      · rw [if_pos h9, if_pos h9]; rfl
      · rw [if_neg h9, if_neg h9]
        generalize natOfBits (b1.take 9) = len
        generalize b1.drop 9 = b2
        simp only [Rd.natOfVal, Int.toNat_natCast]
        by_cases hl0 : len = 0
        · subst hl0; simp [asRd, SOp.pure, valOfAddr]
        · have hl0' : ((len : Nat) : Int) ≠ 0 := by omega
          simp only [hl0, hl0', if_false, bind_loadUint, rd_loadUint, false_or]
          by_cases hv : b2.length < len <;> simp [hv, asRd, SOp.pure, valOfAddr]
    · -- addr_std
      simp only [Nat.cast_ofNat, OfNat.ofNat_ne_zero, OfNat.ofNat_ne_one, if_false, if_true]
      rw [bind_loadBit]
      unfold Rd.loadAnycast Rd.loadBool
      cases b1 with
      | nil => rfl
      | cons any r =>
        cases any with
        | false =>
          simp only [Bool.false_eq_true, if_false]
          exact std_tail none r refs mrefs
        | true =>
          simp only [if_true]
          rw [SrcSlice.sop_bind_assoc, bind_loadUint, rd_loadUint]
          by_cases h5 : (5 = 0 ∨ r.length < 5)
          · rw [if_pos h5, if_pos h5]; rfl
          · rw [if_neg h5, if_neg h5]
            generalize natOfBits (r.take 5) = depth
            generalize r.drop 5 = r2
            simp only [Rd.natOfVal, Int.toNat_natCast]
            by_cases hd : depth < 1
            · have hd' : ((depth : Nat) : Int) < 1 := by omega
              simp only [hd, hd', if_true]
              exact (asRd_of_none refs _ (by simp [SOp.bind, SOp.fail])).symm
            · have hd' : ¬ ((depth : Nat) : Int) < 1 := by omega
              simp only [hd, hd', if_false, SrcSlice.sop_bind_assoc, bind_loadUint, rd_loadUint, Int.toNat_natCast]
              by_cases hp : (depth = 0 ∨ r2.length < depth)
              · simp only [hp, if_true]; rfl
              · simp only [hp, if_false, SrcSlice.sop_pure_bind]
                exact std_tail (some (depth, _)) _ refs mrefs
    · -- addr_var: the anycast prefix is read, then the code raises
      refine (asRd_of_none refs _ ?_).symm
      simp only [show ((3 : Nat) : Int) ≠ 0 by omega, show ((3 : Nat) : Int) ≠ 1 by omega, show ((3 : Nat) : Int) ≠ 2 by omega,
        if_false]
      rw [bind_loadBit]
      cases b1 with
      | nil => rfl
      | cons any r => exact bind_fail_snd _ _

/-- the Python value of what the REGENERATED `load_address` returns (`Py.AddrR`: `None` / `ExternalAddress` / `Address`) -/
def valOfAddrR (a : Py.AddrR) : Val := valOfAddr (addrM a)

/-- `Rd.loadAddress` on the remaining bits / references of a slice IS the regenerated `Slice.load_address` on that slice: it
raises exactly when the method raises, otherwise returns the method's value and the method's remaining bits; the references are
not touched. -/
theorem rd_loadAddress_src (st : Py.SliceSt Tlb.Cell) :
    Rd.loadAddress ⟨st.bits, st.refs.drop st.ref_offset⟩ =
      match Generated.SliceOps.load_address st with
      | (st', some a) => some (valOfAddrR a, ⟨st'.bits, st.refs.drop st.ref_offset⟩)
      | (_, none) => none := by
  rw [rd_eq_sop st.bits (st.refs.drop st.ref_offset) (st.refs.drop st.ref_offset)]
  have h := src_load_address_eq st
  rw [show view st = ⟨st.bits, st.refs.drop st.ref_offset⟩ from rfl] at h
  rw [← h]
  unfold asRd viewR valOfAddrR
  rcases Generated.SliceOps.load_address st with ⟨st', _ | a⟩ <;> rfl

end TonVerif.Proofs.SrcLoadAddress
