/-
The TYPED stores / loads at the alias level, through one generic lemma each.

The regenerated value-level methods (Generated/BuilderOps.lean, Generated/SliceOps.lean; translator harness/translate/bsops.py,
validated there) read a Builder as the VALUE (bits, refs) of the two containers `self._bits` / `self._refs` point to, a Slice as
(bits, refs, ref_offset).  Here:

  * `Ext A f`  - a builder transformer only EXTENDS: bits' = bits ++ xs, refs' = refs ++ cs with every new reference taken from the
    arguments `A` (closed under sequencing; proved for every `store_*` of Generated/BuilderOps.lean, partial writes of a raising
    call included);
  * `Shr f`    - a slice transformer only DELETES A PREFIX of the bits, leaves the list as it is and moves `ref_offset` forward,
    never past the end (proved for the `load_*` / `preload_*` / `skip_bits` of Generated/SliceOps.lean);
  * `liftB_own` / `liftS_own` - ONE lemma each: writing the result of such a transformer back into the receiver's OWN two containers
    (and its own `ref_offset`) keeps `Sep ∧ WF ∧ Coh`, allocates nothing, changes no other container, no object record other than the
    slice's own offset, and no cell.
-/
import TonVerif.Proofs.Heap
import TonVerif.Proofs.SrcBuilder
import TonVerif.Proofs.SrcSlice

set_option linter.unusedSimpArgs false
set_option linter.unusedVariables false

namespace TonVerif.Proofs.SrcHeapOps
open TonVerif TonVerif.Model TonVerif.Proofs.Heap
open TonVerif.Model.Heap (State step Op Tag ObjRec)

/-! ## builders -/

section ext
variable {R : Type}

/-- the transformer only extends the builder: new bits at the end, new references at the end, each one of the arguments `A` -/
def Ext (A : List R) (f : BOp R) : Prop :=
  ∀ b, ∃ xs cs, (f b).1.bits = b.bits ++ xs ∧ (f b).1.refs = b.refs ++ cs ∧ ∀ c ∈ cs, c ∈ A

theorem ext_fail (A : List R) : Ext A (BOp.fail) := fun b => ⟨[], [], by simp [BOp.fail], by simp [BOp.fail], by simp⟩
theorem ext_skip (A : List R) : Ext A (BOp.skip) := fun b => ⟨[], [], by simp [BOp.skip], by simp [BOp.skip], by simp⟩

theorem ext_extend (A : List R) (xs : Bits) : Ext A (BOp.extend xs) := by
  intro b
  by_cases h : b.bits.length + xs.length > 1023
  · exact ⟨[], [], by simp [BOp.extend, h], by simp [BOp.extend, h], by simp⟩
  · exact ⟨xs, [], by simp [BOp.extend, h], by simp [BOp.extend, h], by simp⟩

theorem ext_storeRef (A : List R) (r : R) (hr : r ∈ A) : Ext A (BOp.storeRef r) := by
  intro b
  by_cases h : b.refs.length ≥ 4
  · exact ⟨[], [], by simp [BOp.storeRef, h], by simp [BOp.storeRef, h], by simp⟩
  · exact ⟨[], [r], by simp [BOp.storeRef, h], by simp [BOp.storeRef, h], by simpa using hr⟩

theorem ext_andThen {A : List R} {f g : BOp R} (hf : Ext A f) (hg : Ext A g) : Ext A (f ⊳ g) := by
  intro b
  obtain ⟨xs, cs, h1, h2, h3⟩ := hf b
  by_cases hr : (f b).2 = true
  · obtain ⟨ys, ds, k1, k2, k3⟩ := hg (f b).1
    refine ⟨xs ++ ys, cs ++ ds, ?_, ?_, ?_⟩
    · simp [BOp.andThen, hr, k1, h1]
    · simp [BOp.andThen, hr, k2, h2]
    · intro c hc; rcases List.mem_append.1 hc with h | h; exact h3 c h; exact k3 c h
  · exact ⟨xs, cs, by simp [BOp.andThen, hr, h1], by simp [BOp.andThen, hr, h2], h3⟩

theorem ext_ite {A : List R} {f g : BOp R} (c : Prop) [Decidable c] (hf : Ext A f) (hg : Ext A g) : Ext A (if c then f else g) := by
  by_cases h : c <;> simp [h, hf, hg]

theorem ext_storeUint (A : List R) (v : Int) (n : Nat) : Ext A (BOp.storeUint v n) := by
  unfold BOp.storeUint; cases BOp.int2baU v n <;> simp [ext_fail, ext_extend]
theorem ext_storeInt (A : List R) (v : Int) (n : Nat) : Ext A (BOp.storeInt v n) := by
  unfold BOp.storeInt; cases BOp.int2baS v n <;> simp [ext_fail, ext_extend]
theorem ext_storeBit (A : List R) (v : Bool) : Ext A (BOp.storeBit v) := ext_extend A _
theorem ext_storeBits (A : List R) (v : Bits) : Ext A (BOp.storeBits v) := ext_extend A _
theorem ext_storeBytes (A : List R) (v : Bytes) : Ext A (BOp.storeBytes v) := ext_extend A _
theorem ext_storeVarUint (A : List R) (v : Int) (k : Nat) : Ext A (BOp.storeVarUint v k) := by
  unfold BOp.storeVarUint; exact ext_ite _ (ext_storeUint A _ _) (ext_andThen (ext_storeUint A _ _) (ext_storeUint A _ _))
theorem ext_storeVarInt (A : List R) (v : Int) (k : Nat) : Ext A (BOp.storeVarInt v k) := by
  unfold BOp.storeVarInt; exact ext_ite _ (ext_storeUint A _ _) (ext_andThen (ext_storeUint A _ _) (ext_storeInt A _ _))
theorem ext_storeCoins (A : List R) (v : Int) : Ext A (BOp.storeCoins v) := ext_storeVarUint A v 4
theorem ext_storeMaybeRef (A : List R) (r : Option R) (hr : ∀ c, r = some c → c ∈ A) : Ext A (BOp.storeMaybeRef r) := by
  cases r with
  | none => exact ext_storeBit A false
  | some c => exact ext_andThen (ext_storeBit A true) (ext_storeRef A c (hr c rfl))
theorem ext_storeString (A : List R) (v : Bytes) : Ext A (BOp.storeString v) := by
  unfold BOp.storeString; exact ext_ite _ (ext_fail A) (ext_storeBytes A v)

theorem ext_storeCell (A : List R) (cb : Bits) (cr : List R) (hr : ∀ c ∈ cr, c ∈ A) : Ext A (BOp.storeCell cb cr) := by
  intro b
  by_cases h : b.refs.length + cr.length > 4
  · exact ⟨[], [], by simp [BOp.storeCell, h], by simp [BOp.storeCell, h], by simp⟩
  · by_cases h2 : b.bits.length + cb.length > 1023
    · exact ⟨[], [], by simp [BOp.storeCell, h, BOp.extend, h2], by simp [BOp.storeCell, h, BOp.extend, h2], by simp⟩
    · exact ⟨cb, cr, by simp [BOp.storeCell, h, BOp.extend, h2], by simp [BOp.storeCell, h, BOp.extend, h2], hr⟩

theorem ext_storeRefs (A : List R) : ∀ (rs : List R), (∀ c ∈ rs, c ∈ A) → Ext A (BOp.storeRefs rs)
  | [], _ => ext_skip A
  | r :: rs, h => ext_andThen (ext_storeRef A r (h r (by simp))) (ext_storeRefs A rs (fun c hc => h c (by simp [hc])))

theorem ext_storeSlice (A : List R) (sb : Bits) (sr : List R) (hr : ∀ c ∈ sr, c ∈ A) : Ext A (BOp.storeSlice sb sr) := by
  intro b
  by_cases h : b.refs.length + sr.length > 4
  · exact ⟨[], [], by simp [BOp.storeSlice, h], by simp [BOp.storeSlice, h], by simp⟩
  · have := ext_andThen (ext_extend A sb) (ext_storeRefs A sr hr) b
    simpa [BOp.storeSlice, h] using this

theorem ext_guard (A : List R) (r : Builder R × Bool) (g : Bits → BOp R) (hg : ∀ x, Ext A (g x)) :
    Ext A (fun b => if r.2 then g r.1.bits b else (b, false)) := by
  intro b
  by_cases hr : r.2 = true
  · simpa [hr] using hg r.1.bits b
  · exact ⟨[], [], by simp [hr], by simp [hr], by simp⟩

theorem ext_storeAddress (A : List R) (a : Addr) : Ext A (BOp.storeAddress a) := by
  cases a with
  | none => exact ext_storeBits A _
  | ext len val =>
    simp only [BOp.storeAddress]
    exact ext_guard A _ _ (fun x => ext_storeCell A x [] (by simp))
  | std anycast wc hash =>
    simp only [BOp.storeAddress]
    refine ext_andThen (ext_andThen (ext_andThen (ext_storeBits A _) ?_) (ext_storeInt A _ _)) (ext_storeBytes A _)
    cases anycast with
    | none => exact ext_storeBit A false
    | some p => exact ext_andThen (ext_andThen (ext_storeBit A true) (ext_storeUint A _ _)) (ext_storeUint A _ _)

end ext

/-! ### the regenerated `store_*` only extend -/

open TonVerif.Generated.BuilderOps TonVerif.Proofs.SrcBuilder in
/-- a regenerated method (state, `some ()` / `none`) read as a model operation -/
def asBOp {R : Type} (f : Builder R → Builder R × Option Unit) : BOp R := fun b => ((f b).1, (f b).2.isSome)

theorem ext_of_eq {R : Type} {A : List R} {f : Builder R → Builder R × Option Unit} {g : BOp R}
    (h : ∀ b, (f b).1 = (g b).1) (hg : Ext A g) : Ext A (asBOp f) := by
  intro b
  obtain ⟨xs, cs, a, c, d⟩ := hg b
  exact ⟨xs, cs, by simp [asBOp, h, a], by simp [asBOp, h, c], d⟩

section gen
variable {R : Type}
open TonVerif.Generated.BuilderOps TonVerif.Proofs.SrcBuilder

/-- EVERY `store_*` of Generated/BuilderOps.lean only extends the builder's bit array and reference list; a new reference is the
argument itself (`store_ref`, `store_maybe_ref`, `store_dict`) or an element of the argument's list (`store_cell`, `store_slice`). -/
theorem gen_stores_extend (A : List R) :
    (∀ v n, Ext A (asBOp (store_uint (R := R) v n))) ∧ (∀ v n, Ext A (asBOp (store_int (R := R) v n))) ∧
    (∀ bs, Ext A (asBOp (store_bits (R := R) bs))) ∧ (∀ bs, Ext A (asBOp (store_bytes (R := R) bs))) ∧
    (∀ v, Ext A (asBOp (store_bool (R := R) v))) ∧ (∀ v, Ext A (asBOp (store_bit (R := R) v))) ∧
    (∀ v, Ext A (asBOp (store_bit_int (R := R) v))) ∧
    (∀ r, r ∈ A → Ext A (asBOp (store_ref r))) ∧ (∀ r, (∀ c, r = some c → c ∈ A) → Ext A (asBOp (store_maybe_ref r))) ∧
    (∀ r, (∀ c, r = some c → c ∈ A) → Ext A (asBOp (store_dict r))) ∧
    (∀ v k, Ext A (asBOp (store_var_uint (R := R) v k))) ∧ (∀ v k, Ext A (asBOp (store_var_int (R := R) v k))) ∧
    (∀ v, Ext A (asBOp (store_coins (R := R) v))) ∧ (∀ v, Ext A (asBOp (store_string (R := R) v))) ∧
    (∀ c : Py.CellV R, (∀ x ∈ c.refs, x ∈ A) → Ext A (asBOp (store_cell c))) ∧
    (∀ s : Py.SliceSt R, s.ref_offset ≤ s.refs.length → (∀ x ∈ s.refs, x ∈ A) → Ext A (asBOp (store_slice s))) ∧
    (∀ u, Ext A (asBOp (store_address_none (R := R) u))) ∧ (∀ a, Ext A (asBOp (store_address_address (R := R) a))) := by
  refine ⟨?_, ?_, ?_, ?_, ?_, ?_, ?_, ?_, ?_, ?_, ?_, ?_, ?_, ?_, ?_, ?_, ?_, ?_⟩
  · intro v n; exact ext_of_eq (fun b => by rw [src_store_uint_eq]; rfl) (ext_storeUint A v n)
  · intro v n; exact ext_of_eq (fun b => by rw [src_store_int_eq]; rfl) (ext_storeInt A v n)
  · intro bs; exact ext_of_eq (fun b => by rw [src_store_bits_eq]; rfl) (ext_storeBits A bs)
  · intro bs; exact ext_of_eq (fun b => by rw [src_store_bytes_eq]; rfl) (ext_storeBytes A bs)
  · intro v; exact ext_of_eq (fun b => by rw [src_store_bool_eq]; rfl) (ext_storeBit A v)
  · intro v
    exact ext_of_eq (g := if v < 2 then BOp.storeBit (decide (v = 1)) else BOp.fail)
      (fun b => by rw [src_store_bit_eq]; by_cases h : v < 2 <;> simp [h, ofFlag, BOp.fail]) (ext_ite _ (ext_storeBit A _) (ext_fail A))
  · intro v
    exact ext_of_eq (g := if v < 2 then BOp.storeBit (decide (v = 1)) else BOp.fail)
      (fun b => by rw [src_store_bit_int_eq]; by_cases h : v < 2 <;> simp [h, ofFlag, BOp.fail]) (ext_ite _ (ext_storeBit A _) (ext_fail A))
  · intro r hr; exact ext_of_eq (fun b => by rw [src_store_ref_eq]; rfl) (ext_storeRef A r hr)
  · intro r hr; exact ext_of_eq (fun b => by rw [src_store_maybe_ref_eq]; rfl) (ext_storeMaybeRef A r hr)
  · intro r hr; exact ext_of_eq (fun b => by rw [src_store_dict_eq]; rfl) (ext_storeMaybeRef A r hr)
  · intro v k; exact ext_of_eq (fun b => by rw [src_store_var_uint_eq]; rfl) (ext_storeVarUint A v k)
  · intro v k; exact ext_of_eq (fun b => by rw [src_store_var_int_eq]; rfl) (ext_storeVarInt A v k)
  · intro v; exact ext_of_eq (fun b => by rw [src_store_coins_eq]; rfl) (ext_storeCoins A v)
  · intro v; exact ext_of_eq (fun b => by rw [src_store_string_eq]; rfl) (ext_storeString A v)
  · intro c hc; exact ext_of_eq (fun b => by rw [src_store_cell_eq]; rfl) (ext_storeCell A c.bits c.refs hc)
  · intro s hs hc
    exact ext_of_eq (fun b => by rw [src_store_slice_eq s hs]; rfl)
      (ext_storeSlice A s.bits (s.refs.drop s.ref_offset) (fun x hx => hc x (List.mem_of_mem_drop hx)))
  · intro u; exact ext_of_eq (fun b => by rw [src_store_address_none_eq]; rfl) (ext_storeAddress A .none)
  · intro a; exact ext_of_eq (fun b => by rw [src_store_address_std_eq]; rfl) (ext_storeAddress A (addrOf a))

end gen

/-! ### the generic heap lemma for builders -/

/-- the VALUE of builder `b`: what its two containers hold -/
def bval (σ : State) (b : Nat) : Builder Nat := ⟨σ.bitsOf b, σ.refsOf b⟩

/-- run a value-level builder operation on the heap: the result is written into the receiver's OWN two containers -/
def liftB (f : BOp Nat) (σ : State) (b : Nat) : State :=
  (σ.setB (σ.obj b).bitsId (f (bval σ b)).1.bits).setR (σ.obj b).refsId (f (bval σ b)).1.refs

/-- ONE LEMMA for all stores: an extend-only operation whose new references are live cells, written into the builder's own containers,
keeps `Sep ∧ WF ∧ Coh`; it allocates nothing, touches no object record, no container other than the builder's own two, and no cell. -/
theorem liftB_own (H : Bytes → Bytes) (σ : State) (h : Inv H σ) (b : Nat) (hb : σ.has b .builder = true) (A : List Nat)
    (hA : CellsAt σ A) (f : BOp Nat) (hf : Ext A f) :
    Inv H (liftB f σ b) ∧
    (liftB f σ b).obj = σ.obj ∧ (liftB f σ b).nObj = σ.nObj ∧ (liftB f σ b).nBit = σ.nBit ∧ (liftB f σ b).nRef = σ.nRef ∧
    (∀ k, k ≠ (σ.obj b).bitsId → (liftB f σ b).bitBuf k = σ.bitBuf k) ∧
    (∀ k, k ≠ (σ.obj b).refsId → (liftB f σ b).refBuf k = σ.refBuf k) ∧
    (∃ xs cs, (liftB f σ b).bitBuf (σ.obj b).bitsId = σ.bitBuf (σ.obj b).bitsId ++ xs ∧
       (liftB f σ b).refBuf (σ.obj b).refsId = σ.refBuf (σ.obj b).refsId ++ cs) ∧
    (∀ i, i < σ.nObj → (σ.obj i).tag = .cell → cellObs (liftB f σ b) i = cellObs σ i) := by
  obtain ⟨hi, ht⟩ := has_iff.1 hb
  have ho : (σ.obj b).tag.owner = true := builder_owner ht
  have o0 : (σ.obj b).off = 0 := h.wf.off0 b hi (by rw [ht]; decide)
  obtain ⟨xs, cs, e1, e2, e3⟩ := hf (bval σ b)
  have hrefs : CellsAt σ ((f (bval σ b)).1.refs) := by
    rw [e2]
    exact cellsAt_append (cellsAt_refsOf h hi (owner_hasRefs ho)) (fun c hc => hA c (e3 c hc))
  have h1 := inv_setB h b hi ho (f (bval σ b)).1.bits
  have h2 := inv_setR h1 b hi ho (f (bval σ b)).1.refs hrefs (by simp [o0])
  refine ⟨h2, rfl, rfl, rfl, rfl, ?_, ?_, ⟨xs, cs, ?_, ?_⟩, ?_⟩
  · intro k hk; simp [liftB, State.setB, State.setR, hk]
  · intro k hk; simp [liftB, State.setB, State.setR, hk]
  · simp only [liftB, State.setB, State.setR, ↓reduceIte]; exact e1
  · simp only [liftB, State.setB, State.setR, ↓reduceIte]; rw [e2]; simp [bval, State.refsOf, o0]
  · intro i hi' hc
    exact cell_frame h (frame_setBR σ b hi ho _ _) i hi' hc

/-! ## slices -/

section shr
variable {R : Type}
open TonVerif.Generated.SliceOps TonVerif.Proofs.SrcSlice

/-- `s'` is `s` after reads only: the SAME list, a suffix of the bits, `ref_offset` moved forward and not past the end -/
def Le (s s' : Py.SliceSt R) : Prop :=
  s'.refs = s.refs ∧ (∃ n, s'.bits = s.bits.drop n) ∧ s.ref_offset ≤ s'.ref_offset ∧
    (s.ref_offset ≤ s.refs.length → s'.ref_offset ≤ s.refs.length)

/-- the transformer only deletes a prefix of the bits and moves `ref_offset` forward (the state of a raising call included) -/
def Shr {α : Type} (f : Py.SliceSt R → Py.SliceSt R × Option α) : Prop := ∀ s, Le s (f s).1

theorem le_refl (s : Py.SliceSt R) : Le s s := ⟨rfl, ⟨0, rfl⟩, Nat.le_refl _, id⟩

theorem le_trans {a b c : Py.SliceSt R} (h1 : Le a b) (h2 : Le b c) : Le a c := by
  obtain ⟨r1, ⟨n, b1⟩, o1, l1⟩ := h1
  obtain ⟨r2, ⟨m, b2⟩, o2, l2⟩ := h2
  refine ⟨r2.trans r1, ⟨n + m, by rw [b2, b1, List.drop_drop]⟩, Nat.le_trans o1 o2, fun h => ?_⟩
  have := l2 (by rw [r1]; exact l1 h)
  rwa [r1] at this

theorem shr_bindS {α β : Type} {f : Py.SliceSt R → Py.SliceSt R × Option α} {k : Py.SliceSt R → α → Py.SliceSt R × Option β}
    (hf : Shr f) (hk : ∀ a, Shr (fun s => k s a)) : Shr (fun s => Py.bindS (f s) k) := by
  intro s
  have h1 := hf s
  unfold Py.bindS
  cases h : (f s).2 with
  | none => simpa [h] using h1
  | some a => simpa [h] using le_trans h1 (hk a (f s).1)

theorem drop_ex (bits : Bits) (n : Nat) : ∃ k, List.drop n bits = List.drop k bits := ⟨n, rfl⟩
theorem drop_ex0 (bits : Bits) : ∃ k, bits = List.drop k bits := ⟨0, rfl⟩
theorem drop_ex2 (bits : Bits) (n m : Nat) : ∃ k, List.drop n (List.drop m bits) = List.drop k bits := ⟨m + n, by simp [List.drop_drop]⟩
theorem tail_ex (b : Bool) (bits : Bits) : ∃ k, bits = List.drop k (b :: bits) := ⟨1, rfl⟩

/-- unfold the method down to `TvmBitarray.__delitem__` (characterised by `src_delitem_slice` / `src_delitem_nat`) and look at every path -/
macro "shr_brute" : tactic => `(tactic| (
  intro s; obtain ⟨bits, refs, off⟩ := s
  simp only [Le, skip_bits, preload_bits, load_bits, preload_uint, load_uint, preload_int, load_int, preload_bytes, load_bytes, preload_bit, load_bit,
    preload_bool, load_bool, load_ref, preload_ref, load_maybe_ref, preload_maybe_ref,
    preload_var_uint, preload_var_int, preload_coins, load_string, preload_string, preload_dict,
    Py.bindS, Py.bindO, Py.zoom, src_delitem_slice, src_delitem_nat]
  repeat' split
  all_goals (refine ⟨?_, ?_, ?_, ?_⟩ <;>
    first | exact drop_ex _ _ | exact drop_ex0 _ | exact drop_ex2 _ _ _ | exact tail_ex _ _ | rfl | exact Nat.le_refl _ | exact id |
      (simp_all <;> first | omega | exact ⟨1, rfl⟩ | exact ⟨0, rfl⟩ |
        (intro _; obtain ⟨hh, _⟩ := List.getElem?_eq_some_iff.1 (by assumption); omega) |
        (obtain ⟨hh, _⟩ := List.getElem?_eq_some_iff.1 (by assumption); omega)))))

theorem shr_skip_bits (n : Nat) : Shr (skip_bits (R := R) n) := by shr_brute
theorem shr_preload_bits (n : Nat) : Shr (preload_bits (R := R) n) := by shr_brute
theorem shr_load_bits (n : Nat) : Shr (load_bits (R := R) n) := by shr_brute
theorem shr_preload_uint (n : Nat) : Shr (preload_uint (R := R) n) := by shr_brute
theorem shr_load_uint (n : Nat) : Shr (load_uint (R := R) n) := by shr_brute
theorem shr_preload_int (n : Nat) : Shr (preload_int (R := R) n) := by shr_brute
theorem shr_load_int (n : Nat) : Shr (load_int (R := R) n) := by shr_brute
theorem shr_preload_bytes (n : Nat) : Shr (preload_bytes (R := R) n) := by shr_brute
theorem shr_load_bytes (n : Nat) : Shr (load_bytes (R := R) n) := by shr_brute
theorem shr_preload_bit : Shr (preload_bit (R := R)) := by shr_brute
theorem shr_load_bit : Shr (load_bit (R := R)) := by shr_brute
theorem shr_preload_bool : Shr (preload_bool (R := R)) := by shr_brute
theorem shr_load_bool : Shr (load_bool (R := R)) := by shr_brute
theorem shr_load_ref : Shr (load_ref (R := R)) := by shr_brute
theorem shr_preload_ref (k : Nat) : Shr (preload_ref (R := R) k) := by shr_brute
theorem shr_load_maybe_ref : Shr (load_maybe_ref (R := R)) := by shr_brute
theorem shr_preload_maybe_ref : Shr (preload_maybe_ref (R := R)) := by shr_brute
theorem shr_preload_var_uint (n : Nat) : Shr (preload_var_uint (R := R) n) := by shr_brute
theorem shr_preload_var_int (n : Nat) : Shr (preload_var_int (R := R) n) := by shr_brute
theorem shr_preload_coins : Shr (preload_coins (R := R)) := by shr_brute
theorem shr_load_string (n : Nat) : Shr (load_string (R := R) n) := by shr_brute
theorem shr_preload_string (n : Nat) : Shr (preload_string (R := R) n) := by shr_brute
theorem shr_preload_dict (k : Nat) (a b : Unit) : Shr (preload_dict (R := R) k a b) := by shr_brute

/-- the two-stage reads, by sequencing -/
theorem shr_load_var_uint (n : Nat) : Shr (load_var_uint (R := R) n) := by
  unfold load_var_uint
  refine shr_bindS (shr_load_uint n) (fun a s => ?_)
  dsimp only; split
  · exact le_refl _
  · exact shr_bindS (shr_load_uint _) (fun r s => le_refl _) s
theorem shr_load_var_int (n : Nat) : Shr (load_var_int (R := R) n) := by
  unfold load_var_int
  refine shr_bindS (shr_load_uint n) (fun a s => ?_)
  dsimp only; split
  · exact le_refl _
  · exact shr_bindS (shr_load_int _) (fun r s => le_refl _) s
theorem shr_load_coins : Shr (load_coins (R := R)) := by
  unfold load_coins
  refine shr_bindS (shr_load_uint 4) (fun a s => ?_)
  dsimp only; split
  · exact le_refl _
  · exact shr_bindS (shr_load_uint _) (fun r s => le_refl _) s
theorem shr_load_dict (k : Nat) (a b : Unit) : Shr (load_dict (R := R) k a b) := by
  unfold load_dict
  refine shr_bindS shr_load_bit (fun a s => ?_)
  dsimp only; split
  · exact shr_bindS shr_load_ref (fun r s => le_refl _) s
  · exact le_refl _

end shr

/-! ### the generic heap lemma for slices -/

/-- the VALUE-level state of slice `i`: the content of its two containers and its offset -/
def sval (σ : State) (i : Nat) : Py.SliceSt Nat := ⟨σ.bitBuf (σ.obj i).bitsId, σ.refBuf (σ.obj i).refsId, (σ.obj i).off⟩

/-- run a value-level slice method on the heap: the remaining bits go into the slice's OWN bit container, the offset into its record;
the list is not written at all -/
def liftS {α : Type} (f : Py.SliceSt Nat → Py.SliceSt Nat × Option α) (σ : State) (i : Nat) : State :=
  (σ.setB (σ.obj i).bitsId (f (sval σ i)).1.bits).setObj i { σ.obj i with off := (f (sval σ i)).1.ref_offset }

/-- ONE LEMMA for all loads: a read-only-shrinking method written back into the slice's own bit container and offset keeps
`Sep ∧ WF ∧ Coh`; nothing is allocated, no list changes, no bit container other than the slice's own, no record other than the slice's
own (whose pointers stay), and no cell. -/
theorem liftS_own {α : Type} (H : Bytes → Bytes) (σ : State) (h : Inv H σ) (i : Nat) (hs : σ.has i .slice = true)
    (f : Py.SliceSt Nat → Py.SliceSt Nat × Option α) (hf : Shr f) :
    Inv H (liftS f σ i) ∧
    (liftS f σ i).refBuf = σ.refBuf ∧ (liftS f σ i).nObj = σ.nObj ∧ (liftS f σ i).nBit = σ.nBit ∧ (liftS f σ i).nRef = σ.nRef ∧
    (∀ k, k ≠ (σ.obj i).bitsId → (liftS f σ i).bitBuf k = σ.bitBuf k) ∧
    (∀ j, j ≠ i → (liftS f σ i).obj j = σ.obj j) ∧
    ((liftS f σ i).obj i).bitsId = (σ.obj i).bitsId ∧ ((liftS f σ i).obj i).refsId = (σ.obj i).refsId ∧
    (σ.obj i).off ≤ ((liftS f σ i).obj i).off ∧
    (∃ n, (liftS f σ i).bitBuf (σ.obj i).bitsId = (σ.bitBuf (σ.obj i).bitsId).drop n) ∧
    (∀ c, c < σ.nObj → (σ.obj c).tag = .cell → cellObs (liftS f σ i) c = cellObs σ c) := by
  obtain ⟨hi, ht⟩ := has_iff.1 hs
  have ho : (σ.obj i).tag.owner = true := slice_owner ht
  obtain ⟨e1, ⟨n, e2⟩, e3, e4⟩ := hf (sval σ i)
  have h1 := inv_setB h i hi ho (f (sval σ i)).1.bits
  have h2 := inv_setOff h1 i ht (f (sval σ i)).1.ref_offset (e4 (h.wf.offLe i hi))
  refine ⟨h2, rfl, rfl, rfl, rfl, ?_, ?_, ?_, ?_, ?_, ⟨n, ?_⟩, ?_⟩
  · intro k hk; simp [liftS, State.setB, State.setObj, hk]
  · intro j hj; simp [liftS, State.setB, State.setObj, hj]
  · simp [liftS, State.setB, State.setObj]
  · simp [liftS, State.setB, State.setObj]
  · simp only [liftS, State.setB, State.setObj, ↓reduceIte]; exact e3
  · simp only [liftS, State.setB, State.setObj, ↓reduceIte]; exact e2
  · intro c hc hcell
    have f1 := frame_setB σ i hi ho (f (sval σ i)).1.bits
    have e := cell_frame h f1 c hc hcell
    have hne : c ≠ i := by intro e'; subst e'; rw [ht] at hcell; cases hcell
    rw [← e]
    simp [cellObs, liftS, State.setObj, hne]

/-! ### the statements in one word each -/

/-- heap `σ'` is heap `σ` after builder `b` was only EXTENDED in its own two containers -/
def OwnB (H : Bytes → Bytes) (σ : State) (b : Nat) (σ' : State) : Prop :=
  Inv H σ' ∧ σ'.obj = σ.obj ∧ σ'.nObj = σ.nObj ∧ σ'.nBit = σ.nBit ∧ σ'.nRef = σ.nRef ∧
  (∀ k, k ≠ (σ.obj b).bitsId → σ'.bitBuf k = σ.bitBuf k) ∧ (∀ k, k ≠ (σ.obj b).refsId → σ'.refBuf k = σ.refBuf k) ∧
  (∃ xs cs, σ'.bitBuf (σ.obj b).bitsId = σ.bitBuf (σ.obj b).bitsId ++ xs ∧ σ'.refBuf (σ.obj b).refsId = σ.refBuf (σ.obj b).refsId ++ cs) ∧
  (∀ i, i < σ.nObj → (σ.obj i).tag = .cell → cellObs σ' i = cellObs σ i)

/-- heap `σ'` is heap `σ` after slice `i` only LOST A PREFIX of its own bit container and moved its own `ref_offset` forward -/
def OwnS (H : Bytes → Bytes) (σ : State) (i : Nat) (σ' : State) : Prop :=
  Inv H σ' ∧ σ'.refBuf = σ.refBuf ∧ σ'.nObj = σ.nObj ∧ σ'.nBit = σ.nBit ∧ σ'.nRef = σ.nRef ∧
  (∀ k, k ≠ (σ.obj i).bitsId → σ'.bitBuf k = σ.bitBuf k) ∧ (∀ j, j ≠ i → σ'.obj j = σ.obj j) ∧
  (σ'.obj i).bitsId = (σ.obj i).bitsId ∧ (σ'.obj i).refsId = (σ.obj i).refsId ∧ (σ.obj i).off ≤ (σ'.obj i).off ∧
  (∃ n, σ'.bitBuf (σ.obj i).bitsId = (σ.bitBuf (σ.obj i).bitsId).drop n) ∧
  (∀ c, c < σ.nObj → (σ.obj c).tag = .cell → cellObs σ' c = cellObs σ c)

theorem liftB_ownB (H : Bytes → Bytes) (σ : State) (h : Inv H σ) (b : Nat) (hb : σ.has b .builder = true) (A : List Nat)
    (hA : CellsAt σ A) (f : BOp Nat) (hf : Ext A f) : OwnB H σ b (liftB f σ b) := liftB_own H σ h b hb A hA f hf

theorem liftS_ownS {α : Type} (H : Bytes → Bytes) (σ : State) (h : Inv H σ) (i : Nat) (hs : σ.has i .slice = true)
    (f : Py.SliceSt Nat → Py.SliceSt Nat × Option α) (hf : Shr f) : OwnS H σ i (liftS f σ i) := liftS_own H σ h i hs f hf

/-! ### the regenerated methods, as one family each -/

open TonVerif.Generated.BuilderOps in
/-- the `store_*` of Generated/BuilderOps.lean whose new references (if any) are among `A` -/
inductive TypedStore (A : List Nat) : (Builder Nat → Builder Nat × Option Unit) → Prop where
  | uint (v : Int) (n : Nat) : TypedStore A (store_uint v n)
  | int (v : Int) (n : Nat) : TypedStore A (store_int v n)
  | bits (bs : Bits) : TypedStore A (store_bits bs)
  | bytes (bs : Bytes) : TypedStore A (store_bytes bs)
  | bool (v : Bool) : TypedStore A (store_bool v)
  | bit (v : Nat) : TypedStore A (store_bit v)
  | bit_int (v : Nat) : TypedStore A (store_bit_int v)
  | ref (r : Nat) (hr : r ∈ A) : TypedStore A (store_ref r)
  | maybe_ref (r : Option Nat) (hr : ∀ c, r = some c → c ∈ A) : TypedStore A (store_maybe_ref r)
  | dict (r : Option Nat) (hr : ∀ c, r = some c → c ∈ A) : TypedStore A (store_dict r)
  | var_uint (v : Int) (k : Nat) : TypedStore A (store_var_uint v k)
  | var_int (v : Int) (k : Nat) : TypedStore A (store_var_int v k)
  | coins (v : Int) : TypedStore A (store_coins v)
  | string (v : Bytes) : TypedStore A (store_string v)
  | cell (c : Py.CellV Nat) (hc : ∀ x ∈ c.refs, x ∈ A) : TypedStore A (store_cell c)
  | slice (s : Py.SliceSt Nat) (hs : s.ref_offset ≤ s.refs.length) (hc : ∀ x ∈ s.refs, x ∈ A) : TypedStore A (store_slice s)
  | address_none (u : Unit) : TypedStore A (store_address_none u)
  | address (a : Py.AddrV) : TypedStore A (store_address_address a)

theorem typedStore_ext {A : List Nat} {f : Builder Nat → Builder Nat × Option Unit} (h : TypedStore A f) : Ext A (asBOp f) := by
  obtain ⟨g1, g2, g3, g4, g5, g6, g7, g8, g9, g10, g11, g12, g13, g14, g15, g16, g17, g18⟩ := gen_stores_extend A
  cases h with
  | uint v n => exact g1 v n
  | int v n => exact g2 v n
  | bits bs => exact g3 bs
  | bytes bs => exact g4 bs
  | bool v => exact g5 v
  | bit v => exact g6 v
  | bit_int v => exact g7 v
  | ref r hr => exact g8 r hr
  | maybe_ref r hr => exact g9 r hr
  | dict r hr => exact g10 r hr
  | var_uint v k => exact g11 v k
  | var_int v k => exact g12 v k
  | coins v => exact g13 v
  | string v => exact g14 v
  | cell c hc => exact g15 c hc
  | slice s hs hc => exact g16 s hs hc
  | address_none u => exact g17 u
  | address a => exact g18 a

open TonVerif.Generated.SliceOps in
/-- the `load_*` / `preload_*` / `skip_bits` of Generated/SliceOps.lean -/
inductive TypedLoad : {α : Type} → (Py.SliceSt Nat → Py.SliceSt Nat × Option α) → Prop where
  | skip_bits (n : Nat) : TypedLoad (skip_bits n)
  | preload_bits (n : Nat) : TypedLoad (preload_bits n)
  | load_bits (n : Nat) : TypedLoad (load_bits n)
  | preload_uint (n : Nat) : TypedLoad (preload_uint n)
  | load_uint (n : Nat) : TypedLoad (load_uint n)
  | preload_int (n : Nat) : TypedLoad (preload_int n)
  | load_int (n : Nat) : TypedLoad (load_int n)
  | preload_bytes (n : Nat) : TypedLoad (preload_bytes n)
  | load_bytes (n : Nat) : TypedLoad (load_bytes n)
  | preload_bit : TypedLoad preload_bit
  | load_bit : TypedLoad load_bit
  | preload_bool : TypedLoad preload_bool
  | load_bool : TypedLoad load_bool
  | load_ref : TypedLoad load_ref
  | preload_ref (k : Nat) : TypedLoad (preload_ref k)
  | load_maybe_ref : TypedLoad load_maybe_ref
  | preload_maybe_ref : TypedLoad preload_maybe_ref
  | preload_var_uint (n : Nat) : TypedLoad (preload_var_uint n)
  | load_var_uint (n : Nat) : TypedLoad (load_var_uint n)
  | preload_var_int (n : Nat) : TypedLoad (preload_var_int n)
  | load_var_int (n : Nat) : TypedLoad (load_var_int n)
  | preload_coins : TypedLoad preload_coins
  | load_coins : TypedLoad load_coins
  | preload_string (n : Nat) : TypedLoad (preload_string n)
  | load_string (n : Nat) : TypedLoad (load_string n)
  | preload_dict (k : Nat) (a b : Unit) : TypedLoad (preload_dict k a b)
  | load_dict (k : Nat) (a b : Unit) : TypedLoad (load_dict k a b)

theorem typedLoad_shr {α : Type} {f : Py.SliceSt Nat → Py.SliceSt Nat × Option α} (h : TypedLoad f) : Shr f := by
  cases h
  · exact shr_skip_bits _
  · exact shr_preload_bits _
  · exact shr_load_bits _
  · exact shr_preload_uint _
  · exact shr_load_uint _
  · exact shr_preload_int _
  · exact shr_load_int _
  · exact shr_preload_bytes _
  · exact shr_load_bytes _
  · exact shr_preload_bit
  · exact shr_load_bit
  · exact shr_preload_bool
  · exact shr_load_bool
  · exact shr_load_ref
  · exact shr_preload_ref _
  · exact shr_load_maybe_ref
  · exact shr_preload_maybe_ref
  · exact shr_preload_var_uint _
  · exact shr_load_var_uint _
  · exact shr_preload_var_int _
  · exact shr_load_var_int _
  · exact shr_preload_coins
  · exact shr_load_coins
  · exact shr_preload_string _
  · exact shr_load_string _
  · exact shr_preload_dict _ _ _
  · exact shr_load_dict _ _ _

end TonVerif.Proofs.SrcHeapOps
