/-
Helper lemmas for C08: invariants of the abstract heap (`Model/Heap.lean`), the value-level
("every object is an independent immutable value") semantics `sem`, and the refinement lemmas.
-/
import TonVerif.Model.Heap
namespace TonVerif.Proofs.Heap
open TonVerif TonVerif.Model TonVerif.Model.Heap

/-! ### Projections of the primitive state updates -/
section proj
variable (σ : State) (bs : Bits) (rs : List Nat) (o : ObjRec) (k : Nat)
@[simp] theorem allocB_bitBuf : (σ.allocB bs).bitBuf = fun j => if j = σ.nBit then bs else σ.bitBuf j := rfl
@[simp] theorem allocB_nBit : (σ.allocB bs).nBit = σ.nBit + 1 := rfl
@[simp] theorem allocB_refBuf : (σ.allocB bs).refBuf = σ.refBuf := rfl
@[simp] theorem allocB_nRef : (σ.allocB bs).nRef = σ.nRef := rfl
@[simp] theorem allocB_obj : (σ.allocB bs).obj = σ.obj := rfl
@[simp] theorem allocB_nObj : (σ.allocB bs).nObj = σ.nObj := rfl
@[simp] theorem allocR_bitBuf : (σ.allocR rs).bitBuf = σ.bitBuf := rfl
@[simp] theorem allocR_nBit : (σ.allocR rs).nBit = σ.nBit := rfl
@[simp] theorem allocR_refBuf : (σ.allocR rs).refBuf = fun j => if j = σ.nRef then rs else σ.refBuf j := rfl
@[simp] theorem allocR_nRef : (σ.allocR rs).nRef = σ.nRef + 1 := rfl
@[simp] theorem allocR_obj : (σ.allocR rs).obj = σ.obj := rfl
@[simp] theorem allocR_nObj : (σ.allocR rs).nObj = σ.nObj := rfl
@[simp] theorem setB_bitBuf : (σ.setB k bs).bitBuf = fun j => if j = k then bs else σ.bitBuf j := rfl
@[simp] theorem setB_nBit : (σ.setB k bs).nBit = σ.nBit := rfl
@[simp] theorem setB_refBuf : (σ.setB k bs).refBuf = σ.refBuf := rfl
@[simp] theorem setB_nRef : (σ.setB k bs).nRef = σ.nRef := rfl
@[simp] theorem setB_obj : (σ.setB k bs).obj = σ.obj := rfl
@[simp] theorem setB_nObj : (σ.setB k bs).nObj = σ.nObj := rfl
@[simp] theorem setR_bitBuf : (σ.setR k rs).bitBuf = σ.bitBuf := rfl
@[simp] theorem setR_nBit : (σ.setR k rs).nBit = σ.nBit := rfl
@[simp] theorem setR_refBuf : (σ.setR k rs).refBuf = fun j => if j = k then rs else σ.refBuf j := rfl
@[simp] theorem setR_nRef : (σ.setR k rs).nRef = σ.nRef := rfl
@[simp] theorem setR_obj : (σ.setR k rs).obj = σ.obj := rfl
@[simp] theorem setR_nObj : (σ.setR k rs).nObj = σ.nObj := rfl
@[simp] theorem push_bitBuf : (σ.push o).bitBuf = σ.bitBuf := rfl
@[simp] theorem push_nBit : (σ.push o).nBit = σ.nBit := rfl
@[simp] theorem push_refBuf : (σ.push o).refBuf = σ.refBuf := rfl
@[simp] theorem push_nRef : (σ.push o).nRef = σ.nRef := rfl
@[simp] theorem push_obj : (σ.push o).obj = fun j => if j = σ.nObj then o else σ.obj j := rfl
@[simp] theorem push_nObj : (σ.push o).nObj = σ.nObj + 1 := rfl
@[simp] theorem setObj_bitBuf : (σ.setObj k o).bitBuf = σ.bitBuf := rfl
@[simp] theorem setObj_nBit : (σ.setObj k o).nBit = σ.nBit := rfl
@[simp] theorem setObj_refBuf : (σ.setObj k o).refBuf = σ.refBuf := rfl
@[simp] theorem setObj_nRef : (σ.setObj k o).nRef = σ.nRef := rfl
@[simp] theorem setObj_obj : (σ.setObj k o).obj = fun j => if j = k then o else σ.obj j := rfl
@[simp] theorem setObj_nObj : (σ.setObj k o).nObj = σ.nObj := rfl
end proj

theorem owner_hasBits {t : Tag} (h : t.owner = true) : t.hasBits = true := by cases t <;> simp_all [Tag.owner, Tag.hasBits]
theorem owner_hasRefs {t : Tag} (h : t.owner = true) : t.hasRefs = true := by cases t <;> simp_all [Tag.owner, Tag.hasRefs]

/-! ### Invariants -/

/-- well-formedness: every container id an object names is allocated; lists hold live cells only -/
structure WF (σ : State) : Prop where
  idB : ∀ i, i < σ.nObj → (σ.obj i).tag.hasBits = true → (σ.obj i).bitsId < σ.nBit
  idR : ∀ i, i < σ.nObj → (σ.obj i).tag.hasRefs = true → (σ.obj i).refsId < σ.nRef
  refsCells : ∀ r, r < σ.nRef → ∀ j ∈ σ.refBuf r, j < σ.nObj ∧ (σ.obj j).tag = .cell
  off0 : ∀ i, i < σ.nObj → (σ.obj i).tag ≠ .slice → (σ.obj i).off = 0
  bk : ∀ i, i < σ.nObj → (σ.obj i).tag = .builder → (σ.obj i).kind = -1

/-- SEPARATION: a container a Slice or Builder points to (and mutates) is pointed to by no other object -
not by a Cell, not by another Slice/Builder, not by an array/list the caller holds. -/
structure Sep (σ : State) : Prop where
  sepB : ∀ i j, i < σ.nObj → j < σ.nObj → i ≠ j → (σ.obj i).tag.owner = true → (σ.obj j).tag.hasBits = true →
    (σ.obj i).bitsId ≠ (σ.obj j).bitsId
  sepR : ∀ i j, i < σ.nObj → j < σ.nObj → i ≠ j → (σ.obj i).tag.owner = true → (σ.obj j).tag.hasRefs = true →
    (σ.obj i).refsId ≠ (σ.obj j).refsId

def vals (σ : State) (l : List Nat) : List Tree := l.map fun j => (σ.obj j).val

/-- COHERENCE: what a Cell object cached at construction (its value, its hashes) is what one reads off the heap now -/
structure Coh (H : Bytes → Bytes) (σ : State) : Prop where
  coh : ∀ i, i < σ.nObj → (σ.obj i).tag = .cell →
    (σ.obj i).val = .mk (σ.obj i).kind (σ.bitBuf (σ.obj i).bitsId) (vals σ (σ.refBuf (σ.obj i).refsId))
  cohInfo : ∀ i, i < σ.nObj → (σ.obj i).tag = .cell → Cell.info H (σ.obj i).val = some (σ.obj i).info

structure Inv (H : Bytes → Bytes) (σ : State) : Prop where
  wf : WF σ
  sep : Sep σ
  coh : Coh H σ

theorem inv_init (H) : Inv H init := by
  refine ⟨⟨?_, ?_, ?_, ?_, ?_⟩, ⟨?_, ?_⟩, ⟨?_, ?_⟩⟩ <;> simp [init]

/-! ### Frame lemmas for the primitives -/

theorem vals_congr {σ σ' : State} {l : List Nat} (h : ∀ j ∈ l, (σ'.obj j).val = (σ.obj j).val) :
    vals σ' l = vals σ l := by
  unfold vals; exact List.map_congr_left h

theorem inv_allocB {H σ} (h : Inv H σ) (bs : Bits) : Inv H (σ.allocB bs) := by
  obtain ⟨⟨a1, a2, a3, a4, a5⟩, ⟨s1, s2⟩, ⟨c1, c2⟩⟩ := h
  refine ⟨⟨?_, a2, a3, a4, a5⟩, ⟨s1, s2⟩, ⟨?_, c2⟩⟩
  · intro i hi ht; have := a1 i hi ht; simp; omega
  · intro i hi ht
    simp only [allocB_obj, allocB_nObj] at hi ht
    have hb := a1 i hi (by simp [ht, Tag.hasBits])
    have : (σ.obj i).bitsId ≠ σ.nBit := by omega
    simpa [this, vals] using c1 i hi ht

theorem inv_allocR {H σ} (h : Inv H σ) (rs : List Nat) (hrs : ∀ j ∈ rs, j < σ.nObj ∧ (σ.obj j).tag = .cell) :
    Inv H (σ.allocR rs) := by
  obtain ⟨⟨a1, a2, a3, a4, a5⟩, ⟨s1, s2⟩, ⟨c1, c2⟩⟩ := h
  refine ⟨⟨a1, ?_, ?_, a4, a5⟩, ⟨s1, s2⟩, ⟨?_, c2⟩⟩
  · intro i hi ht; have := a2 i hi ht; simp; omega
  · intro r hr j hj
    simp only [allocR_refBuf, allocR_nRef, allocR_obj, allocR_nObj] at hr hj ⊢
    by_cases e : r = σ.nRef
    · simp [e] at hj; exact hrs j hj
    · simp [e] at hj; exact a3 r (by omega) j hj
  · intro i hi ht
    simp only [allocR_obj, allocR_nObj] at hi ht
    have hb := a2 i hi (by simp [ht, Tag.hasRefs])
    have : (σ.obj i).refsId ≠ σ.nRef := by omega
    simpa [this, vals] using c1 i hi ht

theorem vals_push {σ : State} (o : ObjRec) {l : List Nat} (h : ∀ j ∈ l, j < σ.nObj) : vals (σ.push o) l = vals σ l := by
  apply vals_congr; intro j hj; have := h j hj
  have e : j ≠ σ.nObj := by omega
  simp [e]

theorem inv_push {H σ} (h : Inv H σ) (o : ObjRec)
    (hB : o.tag.hasBits = true → o.bitsId < σ.nBit)
    (hR : o.tag.hasRefs = true → o.refsId < σ.nRef)
    (hoff : o.tag ≠ .slice → o.off = 0)
    (hbk : o.tag = .builder → o.kind = -1)
    (hsB1 : o.tag.owner = true → ∀ j, j < σ.nObj → (σ.obj j).tag.hasBits = true → (σ.obj j).bitsId ≠ o.bitsId)
    (hsB2 : o.tag.hasBits = true → ∀ j, j < σ.nObj → (σ.obj j).tag.owner = true → (σ.obj j).bitsId ≠ o.bitsId)
    (hsR1 : o.tag.owner = true → ∀ j, j < σ.nObj → (σ.obj j).tag.hasRefs = true → (σ.obj j).refsId ≠ o.refsId)
    (hsR2 : o.tag.hasRefs = true → ∀ j, j < σ.nObj → (σ.obj j).tag.owner = true → (σ.obj j).refsId ≠ o.refsId)
    (hc : o.tag = .cell → o.val = .mk o.kind (σ.bitBuf o.bitsId) (vals σ (σ.refBuf o.refsId)) ∧ Cell.info H o.val = some o.info) :
    Inv H (σ.push o) := by
  obtain ⟨⟨a1, a2, a3, a4, a5⟩, ⟨s1, s2⟩, ⟨c1, c2⟩⟩ := h
  have obj_old : ∀ j, j < σ.nObj → (σ.push o).obj j = σ.obj j := by
    intro j hj; have e : j ≠ σ.nObj := by omega
    simp [e]
  have obj_new : (σ.push o).obj σ.nObj = o := by simp
  have lt_cases : ∀ i, i < (σ.push o).nObj → i < σ.nObj ∨ i = σ.nObj := by intro i hi; simp at hi; omega
  refine ⟨⟨?_, ?_, ?_, ?_, ?_⟩, ⟨?_, ?_⟩, ⟨?_, ?_⟩⟩
  · intro i hi ht
    rcases lt_cases i hi with h1 | rfl
    · rw [obj_old i h1] at ht ⊢; exact a1 i h1 ht
    · rw [obj_new] at ht ⊢; exact hB ht
  · intro i hi ht
    rcases lt_cases i hi with h1 | rfl
    · rw [obj_old i h1] at ht ⊢; exact a2 i h1 ht
    · rw [obj_new] at ht ⊢; exact hR ht
  · intro r hr j hj
    have := a3 r hr j hj
    rw [obj_old j this.1]; simp; exact ⟨by omega, this.2⟩
  · intro i hi ht
    rcases lt_cases i hi with h1 | rfl
    · rw [obj_old i h1] at ht ⊢; exact a4 i h1 ht
    · rw [obj_new] at ht ⊢; exact hoff ht
  · intro i hi ht
    rcases lt_cases i hi with h1 | rfl
    · rw [obj_old i h1] at ht ⊢; exact a5 i h1 ht
    · rw [obj_new] at ht ⊢; exact hbk ht
  · intro i j hi hj hne ho hb
    rcases lt_cases i hi with h1 | rfl <;> rcases lt_cases j hj with h2 | rfl
    · rw [obj_old i h1] at ho ⊢; rw [obj_old j h2] at hb ⊢; exact s1 i j h1 h2 hne ho hb
    · rw [obj_old i h1] at ho ⊢; rw [obj_new] at hb ⊢; exact hsB2 hb i h1 ho
    · rw [obj_new] at ho ⊢; rw [obj_old j h2] at hb ⊢; exact fun e => hsB1 ho j h2 hb e.symm
    · exact absurd rfl hne
  · intro i j hi hj hne ho hb
    rcases lt_cases i hi with h1 | rfl <;> rcases lt_cases j hj with h2 | rfl
    · rw [obj_old i h1] at ho ⊢; rw [obj_old j h2] at hb ⊢; exact s2 i j h1 h2 hne ho hb
    · rw [obj_old i h1] at ho ⊢; rw [obj_new] at hb ⊢; exact hsR2 hb i h1 ho
    · rw [obj_new] at ho ⊢; rw [obj_old j h2] at hb ⊢; exact fun e => hsR1 ho j h2 hb e.symm
    · exact absurd rfl hne
  · intro i hi ht
    rcases lt_cases i hi with h1 | rfl
    · rw [obj_old i h1] at ht ⊢
      have hr := a2 i h1 (by simp [ht, Tag.hasRefs])
      rw [push_bitBuf, push_refBuf, vals_push o (fun j hj => (a3 _ hr j hj).1)]
      exact c1 i h1 ht
    · rw [obj_new] at ht ⊢
      have hr := hR (by simp [ht, Tag.hasRefs])
      rw [push_bitBuf, push_refBuf, vals_push o (fun j hj => (a3 _ hr j hj).1)]
      exact (hc ht).1
  · intro i hi ht
    rcases lt_cases i hi with h1 | rfl
    · rw [obj_old i h1] at ht ⊢; exact c2 i h1 ht
    · rw [obj_new] at ht ⊢; exact (hc ht).2

/-- an owner's bit buffer may be overwritten: no cell (nor anything else) points to it -/
theorem inv_setB {H σ} (h : Inv H σ) (i : Nat) (hi : i < σ.nObj) (ho : (σ.obj i).tag.owner = true) (bs : Bits) :
    Inv H (σ.setB (σ.obj i).bitsId bs) := by
  obtain ⟨⟨a1, a2, a3, a4, a5⟩, ⟨s1, s2⟩, ⟨c1, c2⟩⟩ := h
  refine ⟨⟨a1, a2, a3, a4, a5⟩, ⟨s1, s2⟩, ⟨?_, c2⟩⟩
  intro c hc ht
  simp only [setB_obj, setB_nObj] at hc ht
  have hne : i ≠ c := by intro e; subst e; rw [ht] at ho; simp [Tag.owner] at ho
  have := s1 i c hi hc hne ho (by simp [ht, Tag.hasBits])
  have e : (σ.obj c).bitsId ≠ (σ.obj i).bitsId := fun e => this e.symm
  simpa [e, vals] using c1 c hc ht

theorem inv_setR {H σ} (h : Inv H σ) (i : Nat) (hi : i < σ.nObj) (ho : (σ.obj i).tag.owner = true) (rs : List Nat)
    (hrs : ∀ j ∈ rs, j < σ.nObj ∧ (σ.obj j).tag = .cell) :
    Inv H (σ.setR (σ.obj i).refsId rs) := by
  obtain ⟨⟨a1, a2, a3, a4, a5⟩, ⟨s1, s2⟩, ⟨c1, c2⟩⟩ := h
  refine ⟨⟨a1, a2, ?_, a4, a5⟩, ⟨s1, s2⟩, ⟨?_, c2⟩⟩
  · intro r hr j hj
    simp only [setR_refBuf, setR_nRef, setR_obj, setR_nObj] at hr hj ⊢
    by_cases e : r = (σ.obj i).refsId
    · simp [e] at hj; exact hrs j hj
    · simp [e] at hj; exact a3 r hr j hj
  · intro c hc ht
    simp only [setR_obj, setR_nObj] at hc ht
    have hne : i ≠ c := by intro e; subst e; rw [ht] at ho; simp [Tag.owner] at ho
    have := s2 i c hi hc hne ho (by simp [ht, Tag.hasRefs])
    have e : (σ.obj c).refsId ≠ (σ.obj i).refsId := fun e => this e.symm
    simpa [e, vals] using c1 c hc ht

/-- bumping a slice's `ref_offset` -/
theorem inv_setOff {H σ} (h : Inv H σ) (i : Nat) (ht : (σ.obj i).tag = .slice) (n : Nat) :
    Inv H (σ.setObj i { σ.obj i with off := n }) := by
  obtain ⟨⟨a1, a2, a3, a4, a5⟩, ⟨s1, s2⟩, ⟨c1, c2⟩⟩ := h
  have tg : ∀ j, ((σ.setObj i { σ.obj i with off := n }).obj j).tag = (σ.obj j).tag := by
    intro j; by_cases e : j = i <;> simp [e]
  have bI : ∀ j, ((σ.setObj i { σ.obj i with off := n }).obj j).bitsId = (σ.obj j).bitsId := by
    intro j; by_cases e : j = i <;> simp [e]
  have rI : ∀ j, ((σ.setObj i { σ.obj i with off := n }).obj j).refsId = (σ.obj j).refsId := by
    intro j; by_cases e : j = i <;> simp [e]
  have kd : ∀ j, ((σ.setObj i { σ.obj i with off := n }).obj j).kind = (σ.obj j).kind := by
    intro j; by_cases e : j = i <;> simp [e]
  have vl : ∀ j, ((σ.setObj i { σ.obj i with off := n }).obj j).val = (σ.obj j).val := by
    intro j; by_cases e : j = i <;> simp [e]
  have inf : ∀ j, ((σ.setObj i { σ.obj i with off := n }).obj j).info = (σ.obj j).info := by
    intro j; by_cases e : j = i <;> simp [e]
  have vs : ∀ l, vals (σ.setObj i { σ.obj i with off := n }) l = vals σ l := fun l => vals_congr (fun j _ => vl j)
  refine ⟨⟨?_, ?_, ?_, ?_, ?_⟩, ⟨?_, ?_⟩, ⟨?_, ?_⟩⟩
  · intro j hj; rw [tg, bI]; exact a1 j hj
  · intro j hj; rw [tg, rI]; exact a2 j hj
  · intro r hr j hj; rw [tg]; exact a3 r hr j hj
  · intro j hj hs; rw [tg] at hs
    have e : j ≠ i := by intro e; subst e; exact hs ht
    simpa [e] using a4 j hj hs
  · intro j hj; rw [tg, kd]; exact a5 j hj
  · intro a b ha hb; rw [tg, tg, bI, bI]; exact s1 a b ha hb
  · intro a b ha hb; rw [tg, tg, rI, rI]; exact s2 a b ha hb
  · intro j hj; rw [tg, vl, kd, bI, rI, vs]; exact c1 j hj
  · intro j hj; rw [tg, vl, inf]; exact c2 j hj

/-! ### Cell construction: the cached info of a new cell is the info of its tree value -/

def CellsAt (σ : State) (l : List Nat) : Prop := ∀ j ∈ l, j < σ.nObj ∧ (σ.obj j).tag = .cell

theorem infos_vals {H σ} (h : Coh H σ) {l : List Nat} (hl : CellsAt σ l) :
    Cell.infos H (vals σ l) = some (l.map fun j => (σ.obj j).info) := by
  induction l with
  | nil => simp [vals, Cell.infos]
  | cons a l ih =>
    have ha := hl a (by simp)
    have := ih (fun j hj => hl j (by simp [hj]))
    simp only [vals, List.map_cons] at this ⊢
    simp [Cell.infos, h.cohInfo a ha.1 ha.2, this]

theorem info_mk {H} (k : Int) (b : Bits) (ts : List Tree) :
    Cell.info H (.mk k b ts) = (Cell.infos H ts).bind (construct H k b) := by
  rw [Cell.info]; cases Cell.infos H ts <;> rfl

theorem mkCellRec_some {H σ} (h : Coh H σ) {bI rI : Nat} {kind : Int} {bits : Bits} {refs : List Nat} {c : ObjRec}
    (hl : CellsAt σ refs) (e : mkCellRec H σ bI rI kind bits refs = some c) :
    c.tag = .cell ∧ c.bitsId = bI ∧ c.refsId = rI ∧ c.off = 0 ∧ c.kind = kind ∧
    c.val = .mk kind bits (vals σ refs) ∧ Cell.info H c.val = some c.info := by
  unfold mkCellRec at e
  cases hc : construct H kind bits (refs.map fun j => (σ.obj j).info) with
  | none => simp [hc] at e
  | some info =>
    simp [hc] at e; subst e
    refine ⟨rfl, rfl, rfl, rfl, rfl, rfl, ?_⟩
    show Cell.info H (.mk kind bits (vals σ refs)) = some info
    rw [info_mk, infos_vals h hl]; exact hc

theorem mkCellRec_none {H σ} (h : Coh H σ) {bI rI : Nat} {kind : Int} {bits : Bits} {refs : List Nat}
    (hl : CellsAt σ refs) (e : mkCellRec H σ bI rI kind bits refs = none) :
    Cell.info H (.mk kind bits (vals σ refs)) = none := by
  unfold mkCellRec at e
  rw [info_mk, infos_vals h hl]
  cases hc : construct H kind bits (refs.map fun j => (σ.obj j).info) with
  | none => simpa using hc
  | some info => simp [hc] at e

theorem allCells_iff {σ : State} {cs : List Nat} : allCells σ cs = true ↔ CellsAt σ cs := by
  simp [allCells, CellsAt, State.has]

theorem has_iff {σ : State} {i : Nat} {t : Tag} : σ.has i t = true ↔ i < σ.nObj ∧ (σ.obj i).tag = t := by
  simp [State.has]

theorem inv_freshObj {H σ} (h : Inv H σ) (o : ObjRec) (bits : Bits) (refs : List Nat) (hrs : CellsAt σ refs)
    (hoff : o.tag ≠ .slice → o.off = 0) (hbk : o.tag = .builder → o.kind = -1)
    (hc : o.tag = .cell → o.val = .mk o.kind bits (vals σ refs) ∧ Cell.info H o.val = some o.info) :
    Inv H (freshObj σ o bits refs).1 := by
  have h2 : Inv H ((σ.allocB bits).allocR refs) := inv_allocR (inv_allocB h bits) refs hrs
  have a1 := h.wf.idB
  have a2 := h.wf.idR
  unfold freshObj
  apply inv_push h2
  · intro _; simp
  · intro _; simp
  · exact hoff
  · exact hbk
  · intro _ j hj hb; simp at hj ⊢; have := a1 j hj hb; omega
  · intro _ j hj ho; simp at hj ⊢
    have := a1 j hj (owner_hasBits ho); omega
  · intro _ j hj hb; simp at hj ⊢; have := a2 j hj hb; omega
  · intro _ j hj ho; simp at hj ⊢
    have := a2 j hj (owner_hasRefs ho); omega
  · intro ht
    have := hc ht
    simp [vals] at this ⊢
    exact this

theorem cellsAt_drop {σ : State} {l : List Nat} (n : Nat) (h : CellsAt σ l) : CellsAt σ (l.drop n) :=
  fun j hj => h j (List.mem_of_mem_drop hj)

theorem cellsAt_refBuf {H σ} (h : Inv H σ) {i : Nat} (hi : i < σ.nObj) (ht : (σ.obj i).tag.hasRefs = true) :
    CellsAt σ (σ.refBuf (σ.obj i).refsId) :=
  h.wf.refsCells _ (h.wf.idR i hi ht)

theorem cellsAt_refsOf {H σ} (h : Inv H σ) {i : Nat} (hi : i < σ.nObj) (ht : (σ.obj i).tag.hasRefs = true) :
    CellsAt σ (σ.refsOf i) := cellsAt_drop _ (cellsAt_refBuf h hi ht)

theorem cellsAt_append {σ : State} {l l' : List Nat} (h : CellsAt σ l) (h' : CellsAt σ l') : CellsAt σ (l ++ l') := by
  intro j hj; rcases List.mem_append.mp hj with e | e
  · exact h j e
  · exact h' j e

/-! ### Every transition preserves the invariants -/

theorem inv_pushUBits {H σ} (h : Inv H σ) (bs : Bits) :
    Inv H ((σ.allocB bs).push { ObjRec.blank with tag := .ubits, bitsId := σ.nBit }) := by
  have a1 := h.wf.idB
  apply inv_push (inv_allocB h bs) <;> simp [Tag.hasRefs, Tag.owner, ObjRec.blank]
  intro _ j hj ho; have := a1 j hj (owner_hasBits ho); omega

theorem inv_pushURefs {H σ} (h : Inv H σ) (cs : List Nat) (hcs : CellsAt σ cs) :
    Inv H ((σ.allocR cs).push { ObjRec.blank with tag := .urefs, refsId := σ.nRef }) := by
  have a2 := h.wf.idR
  apply inv_push (inv_allocR h cs hcs) <;> simp [Tag.hasBits, Tag.owner, ObjRec.blank]
  intro _ j hj ho; have := a2 j hj (owner_hasRefs ho); omega

theorem inv_cellCtor {H σ} (h : Inv H σ) (ub ur : Nat) (kind : Int) : Inv H (step H σ (.cellCtor ub ur kind)).1 := by
  simp only [step]
  split
  · rename_i hv
    simp only [Bool.and_eq_true, has_iff] at hv
    obtain ⟨⟨hub, tub⟩, ⟨hur, tur⟩⟩ := hv
    have hl : CellsAt σ (σ.refBuf (σ.obj ur).refsId) := cellsAt_refBuf h hur (by simp [tur, Tag.hasRefs])
    split
    · rename_i c e
      obtain ⟨e1, e2, e3, e4, e5, e6, e7⟩ := mkCellRec_some h.coh hl e
      apply inv_push h
      · intro _; rw [e2]; exact h.wf.idB ub hub (by simp [tub, Tag.hasBits])
      · intro _; rw [e3]; exact h.wf.idR ur hur (by simp [tur, Tag.hasRefs])
      · intro _; exact e4
      · intro e; rw [e1] at e; cases e
      · intro e; rw [e1] at e; simp [Tag.owner] at e
      · intro _ j hj ho; rw [e2]
        exact h.sep.sepB j ub hj hub (by intro e; subst e; rw [tub] at ho; simp [Tag.owner] at ho) ho (by simp [tub, Tag.hasBits])
      · intro e; rw [e1] at e; simp [Tag.owner] at e
      · intro _ j hj ho; rw [e3]
        exact h.sep.sepR j ur hj hur (by intro e; subst e; rw [tur] at ho; simp [Tag.owner] at ho) ho (by simp [tur, Tag.hasRefs])
      · intro _; rw [e2, e3, e5]; exact ⟨e6, e7⟩
    · exact h
  · exact h

theorem inv_cellFresh {H σ} (h : Inv H σ) (bs : Bits) (cs : List Nat) (kind : Int) : Inv H (step H σ (.cellFresh bs cs kind)).1 := by
  simp only [step]
  split
  · rename_i hv
    rw [allCells_iff] at hv
    split
    · rename_i c e
      obtain ⟨e1, e2, e3, e4, e5, e6, e7⟩ := mkCellRec_some h.coh hv e
      apply inv_freshObj h c bs cs hv (fun _ => e4) (by intro e; rw [e1] at e; cases e)
      intro _; rw [e5]; exact ⟨e6, e7⟩
    · exact h
  · exact h

theorem inv_sliceFresh {H σ} (h : Inv H σ) (bs : Bits) (cs : List Nat) (kind : Int) : Inv H (step H σ (.sliceFresh bs cs kind)).1 := by
  simp only [step]
  split
  · rename_i hv
    rw [allCells_iff] at hv
    apply inv_freshObj h _ bs cs hv <;> simp
  · exact h

theorem inv_builderNew {H σ} (h : Inv H σ) : Inv H (step H σ .builderNew).1 := by
  simp only [step]
  apply inv_freshObj h _ [] [] (by intro j hj; cases hj) <;> simp [ObjRec.blank]

theorem src_hasRefs {σ : State} {src : Nat}
    (hv : (σ.has src .cell || σ.has src .slice || σ.has src .builder) = true) :
    src < σ.nObj ∧ (σ.obj src).tag.hasRefs = true ∧ (σ.obj src).tag.hasBits = true := by
  simp only [Bool.or_eq_true, has_iff] at hv
  rcases hv with (⟨a, b⟩ | ⟨a, b⟩) | ⟨a, b⟩ <;> simp [a, b, Tag.hasRefs, Tag.hasBits]

theorem inv_derive {H σ} (h : Inv H σ) (src : Nat) (dst : Kind) : Inv H (step H σ (.derive src dst)).1 := by
  simp only [step]
  split
  · rename_i hv
    obtain ⟨hs, hr, _⟩ := src_hasRefs hv
    have hl : CellsAt σ (σ.refsOf src) := cellsAt_refsOf h hs hr
    cases dst with
    | cell =>
      simp only
      split
      · rename_i c e
        obtain ⟨e1, e2, e3, e4, e5, e6, e7⟩ := mkCellRec_some h.coh hl e
        apply inv_freshObj h c _ _ hl (fun _ => e4) (by intro e; rw [e1] at e; cases e)
        intro _; rw [e5]; exact ⟨e6, e7⟩
      · exact h
    | slice => simp only; apply inv_freshObj h _ _ _ hl <;> simp
    | builder =>
      simp only
      split
      · exact h
      · apply inv_freshObj h _ _ _ hl <;> simp [ObjRec.blank]
  · exact h

theorem slice_owner {σ : State} {s : Nat} (h : (σ.obj s).tag = .slice) : (σ.obj s).tag.owner = true := by simp [h, Tag.owner]
theorem builder_owner {σ : State} {s : Nat} (h : (σ.obj s).tag = .builder) : (σ.obj s).tag.owner = true := by simp [h, Tag.owner]

theorem inv_dropBits {H σ} (h : Inv H σ) (s n : Nat) (ret : Bool) : Inv H (step H σ (.dropBits s n ret)).1 := by
  simp only [step]
  split
  · rename_i hv
    rw [has_iff] at hv
    split
    · exact h
    · have h1 := inv_setB h s hv.1 (slice_owner hv.2) ((σ.bitsOf s).drop n)
      split
      · exact inv_pushUBits h1 _
      · exact h1
  · exact h

theorem inv_peekBits {H σ} (h : Inv H σ) (s n : Nat) : Inv H (step H σ (.peekBits s n)).1 := by
  simp only [step]
  split
  · exact inv_pushUBits h _
  · exact h

theorem inv_loadRef {H σ} (h : Inv H σ) (s : Nat) : Inv H (step H σ (.loadRef s)).1 := by
  simp only [step]
  split
  · rename_i hv
    rw [has_iff] at hv
    split
    · exact h
    · exact inv_setOff h s hv.2 _
  · exact h

theorem inv_storeBits {H σ} (h : Inv H σ) (b : Nat) (bs : Bits) : Inv H (step H σ (.storeBits b bs)).1 := by
  simp only [step]
  split
  · rename_i hv
    rw [has_iff] at hv
    split
    · exact h
    · exact inv_setB h b hv.1 (builder_owner hv.2) _
  · exact h

theorem inv_storeFrom {H σ} (h : Inv H σ) (b src : Nat) : Inv H (step H σ (.storeFrom b src)).1 := by
  simp only [step]
  split
  · rename_i hv
    rw [has_iff] at hv
    split
    · split
      · exact h
      · exact inv_setB h b hv.1 (builder_owner hv.2) _
    · split
      · rename_i hs
        split
        · exact h
        · split
          · exact h
          · have h1 := inv_setB h b hv.1 (builder_owner hv.2) (σ.bitsOf b ++ σ.bitsOf src)
            have hsrc : src < σ.nObj ∧ (σ.obj src).tag.hasRefs = true := by
              simp only [Bool.or_eq_true, has_iff] at hs
              rcases hs with ⟨a, c⟩ | ⟨a, c⟩ <;> simp [a, c, Tag.hasRefs]
            have hl := cellsAt_append (cellsAt_refsOf h hv.1 (owner_hasRefs (builder_owner hv.2))) (cellsAt_refsOf h hsrc.1 hsrc.2)
            exact inv_setR h1 b hv.1 (builder_owner hv.2) _ hl
      · exact h
  · exact h

theorem inv_storeRef {H σ} (h : Inv H σ) (b c : Nat) : Inv H (step H σ (.storeRef b c)).1 := by
  simp only [step]
  split
  · rename_i hv
    simp only [Bool.and_eq_true, has_iff] at hv
    split
    · exact h
    · refine inv_setR h b hv.1.1 (builder_owner hv.1.2) _ ?_
      apply cellsAt_append (cellsAt_refsOf h hv.1.1 (owner_hasRefs (builder_owner hv.1.2)))
      intro j hj; simp at hj; subst hj; exact hv.2
  · exact h

theorem inv_step {H σ} (h : Inv H σ) (op : Op) : Inv H (step H σ op).1 := by
  cases op with
  | newBits bs => exact inv_pushUBits h bs
  | newRefs cs =>
    simp only [step]; split
    · rename_i hv; exact inv_pushURefs h cs (allCells_iff.mp hv)
    · exact h
  | cellCtor ub ur kind => exact inv_cellCtor h ub ur kind
  | cellFresh bs cs kind => exact inv_cellFresh h bs cs kind
  | sliceFresh bs cs kind => exact inv_sliceFresh h bs cs kind
  | builderNew => exact inv_builderNew h
  | derive src dst => exact inv_derive h src dst
  | dropBits s n ret => exact inv_dropBits h s n ret
  | peekBits s n => exact inv_peekBits h s n
  | loadRef s => exact inv_loadRef h s
  | storeBits b bs => exact inv_storeBits h b bs
  | storeFrom b src => exact inv_storeFrom h b src
  | storeRef b c => exact inv_storeRef h b c
  | observe c => simp only [step]; split <;> exact h

theorem inv_run {H σ} (h : Inv H σ) (ops : List Op) : Inv H (run H σ ops) := by
  induction ops generalizing σ with
  | nil => exact h
  | cons op ops ih => exact ih (inv_step h op)

/-! ### Footprint of a transition (no invariant needed: read off `step`) -/

/-- the object a call mutates (its `self`), if any -/
def recvOf : Op → Option Nat
  | .dropBits s _ _ => some s
  | .loadRef s => some s
  | .storeBits b _ => some b
  | .storeFrom b _ => some b
  | .storeRef b _ => some b
  | _ => none

structure Frame (σ σ' : State) (recv : Option Nat) : Prop where
  nObj : σ.nObj ≤ σ'.nObj
  nBit : σ.nBit ≤ σ'.nBit
  nRef : σ.nRef ≤ σ'.nRef
  obj : ∀ j, j < σ.nObj → recv ≠ some j → σ'.obj j = σ.obj j
  robj : ∀ r, recv = some r → σ'.obj r = { σ.obj r with off := (σ'.obj r).off }
  bits : ∀ k, k < σ.nBit → (∀ r, recv = some r → k ≠ (σ.obj r).bitsId) → σ'.bitBuf k = σ.bitBuf k
  refs : ∀ k, k < σ.nRef → (∀ r, recv = some r → k ≠ (σ.obj r).refsId) → σ'.refBuf k = σ.refBuf k
  owner : σ' = σ ∨ ∀ r, recv = some r → r < σ.nObj ∧ (σ.obj r).tag.owner = true

theorem frame_refl (σ : State) (r : Option Nat) : Frame σ σ r :=
  ⟨Nat.le_refl _, Nat.le_refl _, Nat.le_refl _, fun _ _ _ => rfl, fun _ _ => rfl, fun _ _ _ => rfl, fun _ _ _ => rfl, .inl rfl⟩

theorem frame_freshObj (σ : State) (o : ObjRec) (bits : Bits) (refs : List Nat) : Frame σ (freshObj σ o bits refs).1 none := by
  unfold freshObj
  refine ⟨by simp, by simp, by simp, ?_, by simp, ?_, ?_, .inr (by simp)⟩
  · intro j hj _; have : j ≠ σ.nObj := by omega
    simp [this]
  · intro k hk _; have : k ≠ σ.nBit := by omega
    simp [this]
  · intro k hk _; have : k ≠ σ.nRef := by omega
    simp [this]

theorem frame_pushUBits (σ : State) (bs : Bits) (o : ObjRec) : Frame σ ((σ.allocB bs).push o) none := by
  refine ⟨by simp, by simp, by simp, ?_, by simp, ?_, ?_, .inr (by simp)⟩
  · intro j hj _; have : j ≠ σ.nObj := by omega
    simp [this]
  · intro k hk _; have : k ≠ σ.nBit := by omega
    simp [this]
  · intro k hk _; simp

theorem frame_setB (σ : State) (r : Nat) (hr : r < σ.nObj) (ho : (σ.obj r).tag.owner = true) (bs : Bits) :
    Frame σ (σ.setB (σ.obj r).bitsId bs) (some r) := by
  refine ⟨by simp, by simp, by simp, by simp, by simp, ?_, by simp, .inr ?_⟩
  · intro k _ hk; have := hk r rfl; simp [this]
  · intro r' e; cases e; exact ⟨hr, ho⟩

theorem frame_setR (σ : State) (r : Nat) (hr : r < σ.nObj) (ho : (σ.obj r).tag.owner = true) (rs : List Nat) :
    Frame σ (σ.setR (σ.obj r).refsId rs) (some r) := by
  refine ⟨by simp, by simp, by simp, by simp, by simp, by simp, ?_, .inr ?_⟩
  · intro k _ hk; have := hk r rfl; simp [this]
  · intro r' e; cases e; exact ⟨hr, ho⟩

theorem frame_setBR (σ : State) (r : Nat) (hr : r < σ.nObj) (ho : (σ.obj r).tag.owner = true) (bs : Bits) (rs : List Nat) :
    Frame σ ((σ.setB (σ.obj r).bitsId bs).setR (σ.obj r).refsId rs) (some r) := by
  refine ⟨by simp, by simp, by simp, by simp, by simp, ?_, ?_, .inr ?_⟩
  · intro k _ hk; have := hk r rfl; simp [this]
  · intro k _ hk; have := hk r rfl; simp [this]
  · intro r' e; cases e; exact ⟨hr, ho⟩

theorem frame_setOff (σ : State) (r : Nat) (hr : r < σ.nObj) (ho : (σ.obj r).tag.owner = true) (n : Nat) :
    Frame σ (σ.setObj r { σ.obj r with off := n }) (some r) := by
  refine ⟨by simp, by simp, by simp, ?_, ?_, by simp, by simp, .inr ?_⟩
  · intro j _ hj; have : j ≠ r := fun e => hj (by rw [e])
    simp [this]
  · intro r' e; cases e; simp
  · intro r' e; cases e; exact ⟨hr, ho⟩

theorem frame_dropRet (σ : State) (r : Nat) (hr : r < σ.nObj) (ho : (σ.obj r).tag.owner = true) (bs bs' : Bits) (o : ObjRec) :
    Frame σ (((σ.setB (σ.obj r).bitsId bs).allocB bs').push o) (some r) := by
  refine ⟨by simp, by simp, by simp, ?_, ?_, ?_, by simp, .inr ?_⟩
  · intro j hj _; have : j ≠ σ.nObj := by omega
    simp [this]
  · intro r' e; cases e; have : r ≠ σ.nObj := by omega
    simp [this]
  · intro k hk hne; have := hne r rfl; have : k ≠ σ.nBit := by omega
    simp [*]
  · intro r' e; cases e; exact ⟨hr, ho⟩

theorem frame_step (H) (σ : State) (op : Op) : Frame σ (step H σ op).1 (recvOf op) := by
  cases op with
  | newBits bs => exact frame_pushUBits σ bs _
  | newRefs cs =>
    simp only [step, recvOf]; split
    · refine ⟨by simp, by simp, by simp, ?_, by simp, by simp, ?_, .inr (by simp)⟩
      · intro j hj _; have : j ≠ σ.nObj := by omega
        simp [this]
      · intro k hk _; have : k ≠ σ.nRef := by omega
        simp [this]
    · exact frame_refl _ _
  | cellCtor ub ur kind =>
    simp only [step, recvOf]; split
    · split
      · refine ⟨by simp, by simp, by simp, ?_, by simp, by simp, by simp, .inr (by simp)⟩
        intro j hj _; have : j ≠ σ.nObj := by omega
        simp [this]
      · exact frame_refl _ _
    · exact frame_refl _ _
  | cellFresh bs cs kind =>
    simp only [step, recvOf]; split
    · split
      · exact frame_freshObj _ _ _ _
      · exact frame_refl _ _
    · exact frame_refl _ _
  | sliceFresh bs cs kind =>
    simp only [step, recvOf]; split
    · exact frame_freshObj _ _ _ _
    · exact frame_refl _ _
  | builderNew => exact frame_freshObj _ _ _ _
  | derive src dst =>
    simp only [step, recvOf]; split
    · cases dst with
      | cell => simp only; split
                · exact frame_freshObj _ _ _ _
                · exact frame_refl _ _
      | slice => exact frame_freshObj _ _ _ _
      | builder => simp only; split
                   · exact frame_refl _ _
                   · exact frame_freshObj _ _ _ _
    · exact frame_refl _ _
  | dropBits s n ret =>
    simp only [step, recvOf]; split
    · rename_i hv; rw [has_iff] at hv
      split
      · exact frame_refl _ _
      · split
        · exact frame_dropRet σ s hv.1 (slice_owner hv.2) _ _ _
        · exact frame_setB σ s hv.1 (slice_owner hv.2) _
    · exact frame_refl _ _
  | peekBits s n =>
    simp only [step, recvOf]; split
    · exact frame_pushUBits σ _ _
    · exact frame_refl _ _
  | loadRef s =>
    simp only [step, recvOf]; split
    · rename_i hv; rw [has_iff] at hv
      split
      · exact frame_refl _ _
      · exact frame_setOff σ s hv.1 (slice_owner hv.2) _
    · exact frame_refl _ _
  | storeBits b bs =>
    simp only [step, recvOf]; split
    · rename_i hv; rw [has_iff] at hv
      split
      · exact frame_refl _ _
      · exact frame_setB σ b hv.1 (builder_owner hv.2) _
    · exact frame_refl _ _
  | storeFrom b src =>
    simp only [step, recvOf]; split
    · rename_i hv; rw [has_iff] at hv
      split
      · split
        · exact frame_refl _ _
        · exact frame_setB σ b hv.1 (builder_owner hv.2) _
      · split
        · split
          · exact frame_refl _ _
          · split
            · exact frame_refl _ _
            · exact frame_setBR σ b hv.1 (builder_owner hv.2) _ _
        · exact frame_refl _ _
    · exact frame_refl _ _
  | storeRef b c =>
    simp only [step, recvOf]; split
    · rename_i hv; simp only [Bool.and_eq_true, has_iff] at hv
      split
      · exact frame_refl _ _
      · exact frame_setR σ b hv.1.1 (builder_owner hv.1.2) _
    · exact frame_refl _ _
  | observe c => simp only [step, recvOf]; split <;> exact frame_refl _ _

/-! ### Cells are outside every footprint -/

/-- what can be observed of a Cell object on the heap: the record (attribute pointers, type, cached hashes) and the
content of the two containers its attributes point to -/
def cellObs (σ : State) (i : Nat) : ObjRec × Bits × List Nat :=
  (σ.obj i, σ.bitBuf (σ.obj i).bitsId, σ.refBuf (σ.obj i).refsId)

theorem frame_other {H σ σ'} {recv : Option Nat} (h : Inv H σ) (f : Frame σ σ' recv) (i : Nat) (hi : i < σ.nObj)
    (hne : recv ≠ some i) :
    σ'.obj i = σ.obj i ∧ ((σ.obj i).tag.hasBits = true → σ'.bitBuf (σ.obj i).bitsId = σ.bitBuf (σ.obj i).bitsId) ∧
      ((σ.obj i).tag.hasRefs = true → σ'.refBuf (σ.obj i).refsId = σ.refBuf (σ.obj i).refsId) := by
  rcases f.owner with e | ho
  · subst e; exact ⟨rfl, fun _ => rfl, fun _ => rfl⟩
  · refine ⟨f.obj i hi hne, ?_, ?_⟩
    · intro hb
      apply f.bits _ (h.wf.idB i hi hb)
      intro r hr
      obtain ⟨h1, h2⟩ := ho r hr
      have : r ≠ i := by intro e; subst e; exact hne hr
      exact fun e => h.sep.sepB r i h1 hi this h2 hb e.symm
    · intro hb
      apply f.refs _ (h.wf.idR i hi hb)
      intro r hr
      obtain ⟨h1, h2⟩ := ho r hr
      have : r ≠ i := by intro e; subst e; exact hne hr
      exact fun e => h.sep.sepR r i h1 hi this h2 hb e.symm

theorem frame_recv_not_cell {σ σ'} {recv : Option Nat} (f : Frame σ σ' recv) (i : Nat) (ht : (σ.obj i).tag = .cell) :
    σ' = σ ∨ recv ≠ some i := by
  rcases f.owner with e | ho
  · exact .inl e
  · right; intro e; have := (ho i e).2; rw [ht] at this; simp [Tag.owner] at this

theorem cell_frame {H σ σ'} {recv : Option Nat} (h : Inv H σ) (f : Frame σ σ' recv) (i : Nat) (hi : i < σ.nObj)
    (ht : (σ.obj i).tag = .cell) : cellObs σ' i = cellObs σ i := by
  rcases frame_recv_not_cell f i ht with e | hne
  · rw [e]
  · obtain ⟨a, b, c⟩ := frame_other h f i hi hne
    unfold cellObs; rw [a, b (by simp [ht, Tag.hasBits]), c (by simp [ht, Tag.hasRefs])]

theorem cell_frame_run {H σ} (h : Inv H σ) (ops : List Op) (i : Nat) (hi : i < σ.nObj) (ht : (σ.obj i).tag = .cell) :
    cellObs (run H σ ops) i = cellObs σ i ∧ i < (run H σ ops).nObj := by
  induction ops generalizing σ with
  | nil => exact ⟨rfl, hi⟩
  | cons op ops ih =>
    have f := frame_step H σ op
    have e := cell_frame h f i hi ht
    have hi' : i < (step H σ op).1.nObj := Nat.lt_of_lt_of_le hi f.nObj
    have ht' : ((step H σ op).1.obj i).tag = .cell := by
      have : (cellObs (step H σ op).1 i).1 = (cellObs σ i).1 := by rw [e]
      simp only [cellObs] at this; rw [this]; exact ht
    obtain ⟨a, b⟩ := ih (inv_step h op) hi' ht'
    exact ⟨by simp only [run]; rw [a, e], b⟩

end TonVerif.Proofs.Heap
