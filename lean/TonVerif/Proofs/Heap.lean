/-
Helper lemmas for C08: invariants of the abstract heap (`Model/Heap.lean`), the value-level
("every object is an independent immutable value") semantics `sem`, and the refinement lemmas.
-/
import TonVerif.Model.Heap
namespace TonVerif.Proofs.Heap
open TonVerif TonVerif.Model TonVerif.Model.Heap

/-! ### Projections of the primitive state updates -/
section proj
variable (σ : State) (bs : Bits) (rs : List Nat) (o : ObjRec) (k : Nat)
@[simp] theorem allocB_bitBuf : (σ.allocB bs).bitBuf = fun j => if j = σ.nBit then bs else σ.bitBuf j := rfl
@[simp] theorem allocB_nBit : (σ.allocB bs).nBit = σ.nBit + 1 := rfl
@[simp] theorem allocB_refBuf : (σ.allocB bs).refBuf = σ.refBuf := rfl
@[simp] theorem allocB_nRef : (σ.allocB bs).nRef = σ.nRef := rfl
@[simp] theorem allocB_obj : (σ.allocB bs).obj = σ.obj := rfl
@[simp] theorem allocB_nObj : (σ.allocB bs).nObj = σ.nObj := rfl
@[simp] theorem allocR_bitBuf : (σ.allocR rs).bitBuf = σ.bitBuf := rfl
@[simp] theorem allocR_nBit : (σ.allocR rs).nBit = σ.nBit := rfl
@[simp] theorem allocR_refBuf : (σ.allocR rs).refBuf = fun j => if j = σ.nRef then rs else σ.refBuf j := rfl
@[simp] theorem allocR_nRef : (σ.allocR rs).nRef = σ.nRef + 1 := rfl
@[simp] theorem allocR_obj : (σ.allocR rs).obj = σ.obj := rfl
@[simp] theorem allocR_nObj : (σ.allocR rs).nObj = σ.nObj := rfl
@[simp] theorem setB_bitBuf : (σ.setB k bs).bitBuf = fun j => if j = k then bs else σ.bitBuf j := rfl
@[simp] theorem setB_nBit : (σ.setB k bs).nBit = σ.nBit := rfl
@[simp] theorem setB_refBuf : (σ.setB k bs).refBuf = σ.refBuf := rfl
@[simp] theorem setB_nRef : (σ.setB k bs).nRef = σ.nRef := rfl
@[simp] theorem setB_obj : (σ.setB k bs).obj = σ.obj := rfl
@[simp] theorem setB_nObj : (σ.setB k bs).nObj = σ.nObj := rfl
@[simp] theorem setR_bitBuf : (σ.setR k rs).bitBuf = σ.bitBuf := rfl
@[simp] theorem setR_nBit : (σ.setR k rs).nBit = σ.nBit := rfl
@[simp] theorem setR_refBuf : (σ.setR k rs).refBuf = fun j => if j = k then rs else σ.refBuf j := rfl
@[simp] theorem setR_nRef : (σ.setR k rs).nRef = σ.nRef := rfl
@[simp] theorem setR_obj : (σ.setR k rs).obj = σ.obj := rfl
@[simp] theorem setR_nObj : (σ.setR k rs).nObj = σ.nObj := rfl
@[simp] theorem push_bitBuf : (σ.push o).bitBuf = σ.bitBuf := rfl
@[simp] theorem push_nBit : (σ.push o).nBit = σ.nBit := rfl
@[simp] theorem push_refBuf : (σ.push o).refBuf = σ.refBuf := rfl
@[simp] theorem push_nRef : (σ.push o).nRef = σ.nRef := rfl
@[simp] theorem push_obj : (σ.push o).obj = fun j => if j = σ.nObj then o else σ.obj j := rfl
@[simp] theorem push_nObj : (σ.push o).nObj = σ.nObj + 1 := rfl
@[simp] theorem setObj_bitBuf : (σ.setObj k o).bitBuf = σ.bitBuf := rfl
@[simp] theorem setObj_nBit : (σ.setObj k o).nBit = σ.nBit := rfl
@[simp] theorem setObj_refBuf : (σ.setObj k o).refBuf = σ.refBuf := rfl
@[simp] theorem setObj_nRef : (σ.setObj k o).nRef = σ.nRef := rfl
@[simp] theorem setObj_obj : (σ.setObj k o).obj = fun j => if j = k then o else σ.obj j := rfl
@[simp] theorem setObj_nObj : (σ.setObj k o).nObj = σ.nObj := rfl
end proj

theorem owner_hasBits {t : Tag} (h : t.owner = true) : t.hasBits = true := by cases t <;> simp_all [Tag.owner, Tag.hasBits]
theorem owner_hasRefs {t : Tag} (h : t.owner = true) : t.hasRefs = true := by cases t <;> simp_all [Tag.owner, Tag.hasRefs]

/-! ### Invariants -/

/-- well-formedness: every container id an object names is allocated; lists hold live cells only -/
structure WF (σ : State) : Prop where
  idB : ∀ i, i < σ.nObj → (σ.obj i).tag.hasBits = true → (σ.obj i).bitsId < σ.nBit
  idR : ∀ i, i < σ.nObj → (σ.obj i).tag.hasRefs = true → (σ.obj i).refsId < σ.nRef
  refsCells : ∀ r, r < σ.nRef → ∀ j ∈ σ.refBuf r, j < σ.nObj ∧ (σ.obj j).tag = .cell
  off0 : ∀ i, i < σ.nObj → (σ.obj i).tag ≠ .slice → (σ.obj i).off = 0
  bk : ∀ i, i < σ.nObj → (σ.obj i).tag = .builder → (σ.obj i).kind = -1
  /-- `ref_offset ≤ len(refs)`: `load_ref` raises at the end of the list instead of moving past it; lists only grow -/
  offLe : ∀ i, i < σ.nObj → (σ.obj i).off ≤ (σ.refBuf (σ.obj i).refsId).length

/-- SEPARATION: a container a Slice or Builder points to (and mutates) is pointed to by no other object -
not by a Cell, not by another Slice/Builder, not by an array/list the caller holds. -/
structure Sep (σ : State) : Prop where
  sepB : ∀ i j, i < σ.nObj → j < σ.nObj → i ≠ j → (σ.obj i).tag.owner = true → (σ.obj j).tag.hasBits = true →
    (σ.obj i).bitsId ≠ (σ.obj j).bitsId
  sepR : ∀ i j, i < σ.nObj → j < σ.nObj → i ≠ j → (σ.obj i).tag.owner = true → (σ.obj j).tag.hasRefs = true →
    (σ.obj i).refsId ≠ (σ.obj j).refsId

def vals (σ : State) (l : List Nat) : List Tree := l.map fun j => (σ.obj j).val

/-- COHERENCE: what a Cell object cached at construction (its value, its hashes) is what one reads off the heap now -/
structure Coh (H : Bytes → Bytes) (σ : State) : Prop where
  coh : ∀ i, i < σ.nObj → (σ.obj i).tag = .cell →
    (σ.obj i).val = .mk (σ.obj i).kind (σ.bitBuf (σ.obj i).bitsId) (vals σ (σ.refBuf (σ.obj i).refsId))
  cohInfo : ∀ i, i < σ.nObj → (σ.obj i).tag = .cell → Cell.info H (σ.obj i).val = some (σ.obj i).info

structure Inv (H : Bytes → Bytes) (σ : State) : Prop where
  wf : WF σ
  sep : Sep σ
  coh : Coh H σ

theorem inv_init (H) : Inv H init := by
  refine ⟨⟨?_, ?_, ?_, ?_, ?_, ?_⟩, ⟨?_, ?_⟩, ⟨?_, ?_⟩⟩ <;> simp [init, ObjRec.blank]

/-! ### Frame lemmas for the primitives -/

theorem vals_congr {σ σ' : State} {l : List Nat} (h : ∀ j ∈ l, (σ'.obj j).val = (σ.obj j).val) :
    vals σ' l = vals σ l := by
  unfold vals; exact List.map_congr_left h

theorem inv_allocB {H σ} (h : Inv H σ) (bs : Bits) : Inv H (σ.allocB bs) := by
  obtain ⟨⟨a1, a2, a3, a4, a5, a6⟩, ⟨s1, s2⟩, ⟨c1, c2⟩⟩ := h
  refine ⟨⟨?_, a2, a3, a4, a5, a6⟩, ⟨s1, s2⟩, ⟨?_, c2⟩⟩
  · intro i hi ht; have := a1 i hi ht; simp; omega
  · intro i hi ht
    simp only [allocB_obj, allocB_nObj] at hi ht
    have hb := a1 i hi (by simp [ht, Tag.hasBits])
    have : (σ.obj i).bitsId ≠ σ.nBit := by omega
    simpa [this, vals] using c1 i hi ht

theorem inv_allocR {H σ} (h : Inv H σ) (rs : List Nat) (hrs : ∀ j ∈ rs, j < σ.nObj ∧ (σ.obj j).tag = .cell) :
    Inv H (σ.allocR rs) := by
  obtain ⟨⟨a1, a2, a3, a4, a5, a6⟩, ⟨s1, s2⟩, ⟨c1, c2⟩⟩ := h
  refine ⟨⟨a1, ?_, ?_, a4, a5, ?_⟩, ⟨s1, s2⟩, ⟨?_, c2⟩⟩
  · intro i hi ht; have := a2 i hi ht; simp; omega
  · intro r hr j hj
    simp only [allocR_refBuf, allocR_nRef, allocR_obj, allocR_nObj] at hr hj ⊢
    by_cases e : r = σ.nRef
    · simp [e] at hj; exact hrs j hj
    · simp [e] at hj; exact a3 r (by omega) j hj
  · intro i hi
    simp only [allocR_refBuf, allocR_obj, allocR_nObj] at hi ⊢
    by_cases hs : (σ.obj i).tag = .slice
    · have := a2 i hi (by simp [hs, Tag.hasRefs])
      have e : (σ.obj i).refsId ≠ σ.nRef := by omega
      simpa [e] using a6 i hi
    · rw [a4 i hi hs]; exact Nat.zero_le _
  · intro i hi ht
    simp only [allocR_obj, allocR_nObj] at hi ht
    have hb := a2 i hi (by simp [ht, Tag.hasRefs])
    have : (σ.obj i).refsId ≠ σ.nRef := by omega
    simpa [this, vals] using c1 i hi ht

theorem vals_push {σ : State} (o : ObjRec) {l : List Nat} (h : ∀ j ∈ l, j < σ.nObj) : vals (σ.push o) l = vals σ l := by
  apply vals_congr; intro j hj; have := h j hj
  have e : j ≠ σ.nObj := by omega
  simp [e]

theorem inv_push {H σ} (h : Inv H σ) (o : ObjRec)
    (hB : o.tag.hasBits = true → o.bitsId < σ.nBit)
    (hR : o.tag.hasRefs = true → o.refsId < σ.nRef)
    (hoff : o.tag ≠ .slice → o.off = 0)
    (hbk : o.tag = .builder → o.kind = -1)
    (hsB1 : o.tag.owner = true → ∀ j, j < σ.nObj → (σ.obj j).tag.hasBits = true → (σ.obj j).bitsId ≠ o.bitsId)
    (hsB2 : o.tag.hasBits = true → ∀ j, j < σ.nObj → (σ.obj j).tag.owner = true → (σ.obj j).bitsId ≠ o.bitsId)
    (hsR1 : o.tag.owner = true → ∀ j, j < σ.nObj → (σ.obj j).tag.hasRefs = true → (σ.obj j).refsId ≠ o.refsId)
    (hsR2 : o.tag.hasRefs = true → ∀ j, j < σ.nObj → (σ.obj j).tag.owner = true → (σ.obj j).refsId ≠ o.refsId)
    (hc : o.tag = .cell → o.val = .mk o.kind (σ.bitBuf o.bitsId) (vals σ (σ.refBuf o.refsId)) ∧ Cell.info H o.val = some o.info)
    (hle : o.off ≤ (σ.refBuf o.refsId).length) :
    Inv H (σ.push o) := by
  obtain ⟨⟨a1, a2, a3, a4, a5, a6⟩, ⟨s1, s2⟩, ⟨c1, c2⟩⟩ := h
  have obj_old : ∀ j, j < σ.nObj → (σ.push o).obj j = σ.obj j := by
    intro j hj; have e : j ≠ σ.nObj := by omega
    simp [e]
  have obj_new : (σ.push o).obj σ.nObj = o := by simp
  have lt_cases : ∀ i, i < (σ.push o).nObj → i < σ.nObj ∨ i = σ.nObj := by intro i hi; simp at hi; omega
  refine ⟨⟨?_, ?_, ?_, ?_, ?_, ?_⟩, ⟨?_, ?_⟩, ⟨?_, ?_⟩⟩
  · intro i hi ht
    rcases lt_cases i hi with h1 | rfl
    · rw [obj_old i h1] at ht ⊢; exact a1 i h1 ht
    · rw [obj_new] at ht ⊢; exact hB ht
  · intro i hi ht
    rcases lt_cases i hi with h1 | rfl
    · rw [obj_old i h1] at ht ⊢; exact a2 i h1 ht
    · rw [obj_new] at ht ⊢; exact hR ht
  · intro r hr j hj
    have := a3 r hr j hj
    rw [obj_old j this.1]; simp; exact ⟨by omega, this.2⟩
  · intro i hi ht
    rcases lt_cases i hi with h1 | rfl
    · rw [obj_old i h1] at ht ⊢; exact a4 i h1 ht
    · rw [obj_new] at ht ⊢; exact hoff ht
  · intro i hi ht
    rcases lt_cases i hi with h1 | rfl
    · rw [obj_old i h1] at ht ⊢; exact a5 i h1 ht
    · rw [obj_new] at ht ⊢; exact hbk ht
  · intro i hi
    rcases lt_cases i hi with h1 | rfl
    · rw [obj_old i h1, push_refBuf]; exact a6 i h1
    · rw [obj_new, push_refBuf]; exact hle
  · intro i j hi hj hne ho hb
    rcases lt_cases i hi with h1 | rfl <;> rcases lt_cases j hj with h2 | rfl
    · rw [obj_old i h1] at ho ⊢; rw [obj_old j h2] at hb ⊢; exact s1 i j h1 h2 hne ho hb
    · rw [obj_old i h1] at ho ⊢; rw [obj_new] at hb ⊢; exact hsB2 hb i h1 ho
    · rw [obj_new] at ho ⊢; rw [obj_old j h2] at hb ⊢; exact fun e => hsB1 ho j h2 hb e.symm
    · exact absurd rfl hne
  · intro i j hi hj hne ho hb
    rcases lt_cases i hi with h1 | rfl <;> rcases lt_cases j hj with h2 | rfl
    · rw [obj_old i h1] at ho ⊢; rw [obj_old j h2] at hb ⊢; exact s2 i j h1 h2 hne ho hb
    · rw [obj_old i h1] at ho ⊢; rw [obj_new] at hb ⊢; exact hsR2 hb i h1 ho
    · rw [obj_new] at ho ⊢; rw [obj_old j h2] at hb ⊢; exact fun e => hsR1 ho j h2 hb e.symm
    · exact absurd rfl hne
  · intro i hi ht
    rcases lt_cases i hi with h1 | rfl
    · rw [obj_old i h1] at ht ⊢
      have hr := a2 i h1 (by simp [ht, Tag.hasRefs])
      rw [push_bitBuf, push_refBuf, vals_push o (fun j hj => (a3 _ hr j hj).1)]
      exact c1 i h1 ht
    · rw [obj_new] at ht ⊢
      have hr := hR (by simp [ht, Tag.hasRefs])
      rw [push_bitBuf, push_refBuf, vals_push o (fun j hj => (a3 _ hr j hj).1)]
      exact (hc ht).1
  · intro i hi ht
    rcases lt_cases i hi with h1 | rfl
    · rw [obj_old i h1] at ht ⊢; exact c2 i h1 ht
    · rw [obj_new] at ht ⊢; exact (hc ht).2

/-- an owner's bit buffer may be overwritten: no cell (nor anything else) points to it -/
theorem inv_setB {H σ} (h : Inv H σ) (i : Nat) (hi : i < σ.nObj) (ho : (σ.obj i).tag.owner = true) (bs : Bits) :
    Inv H (σ.setB (σ.obj i).bitsId bs) := by
  obtain ⟨⟨a1, a2, a3, a4, a5, a6⟩, ⟨s1, s2⟩, ⟨c1, c2⟩⟩ := h
  refine ⟨⟨a1, a2, a3, a4, a5, a6⟩, ⟨s1, s2⟩, ⟨?_, c2⟩⟩
  intro c hc ht
  simp only [setB_obj, setB_nObj] at hc ht
  have hne : i ≠ c := by intro e; subst e; rw [ht] at ho; simp [Tag.owner] at ho
  have := s1 i c hi hc hne ho (by simp [ht, Tag.hasBits])
  have e : (σ.obj c).bitsId ≠ (σ.obj i).bitsId := fun e => this e.symm
  simpa [e, vals] using c1 c hc ht

theorem inv_setR {H σ} (h : Inv H σ) (i : Nat) (hi : i < σ.nObj) (ho : (σ.obj i).tag.owner = true) (rs : List Nat)
    (hrs : ∀ j ∈ rs, j < σ.nObj ∧ (σ.obj j).tag = .cell) (hle : (σ.obj i).off ≤ rs.length) :
    Inv H (σ.setR (σ.obj i).refsId rs) := by
  obtain ⟨⟨a1, a2, a3, a4, a5, a6⟩, ⟨s1, s2⟩, ⟨c1, c2⟩⟩ := h
  refine ⟨⟨a1, a2, ?_, a4, a5, ?_⟩, ⟨s1, s2⟩, ⟨?_, c2⟩⟩
  · intro r hr j hj
    simp only [setR_refBuf, setR_nRef, setR_obj, setR_nObj] at hr hj ⊢
    by_cases e : r = (σ.obj i).refsId
    · simp [e] at hj; exact hrs j hj
    · simp [e] at hj; exact a3 r hr j hj
  · intro j hj
    simp only [setR_refBuf, setR_obj, setR_nObj] at hj ⊢
    by_cases e : j = i
    · subst e; simpa using hle
    · by_cases hs : (σ.obj j).tag = .slice
      · have := s2 j i hj hi e (by simp [hs, Tag.owner]) (owner_hasRefs ho)
        simpa [this] using a6 j hj
      · rw [a4 j hj hs]; exact Nat.zero_le _
  · intro c hc ht
    simp only [setR_obj, setR_nObj] at hc ht
    have hne : i ≠ c := by intro e; subst e; rw [ht] at ho; simp [Tag.owner] at ho
    have := s2 i c hi hc hne ho (by simp [ht, Tag.hasRefs])
    have e : (σ.obj c).refsId ≠ (σ.obj i).refsId := fun e => this e.symm
    simpa [e, vals] using c1 c hc ht

/-- bumping a slice's `ref_offset` -/
theorem inv_setOff {H σ} (h : Inv H σ) (i : Nat) (ht : (σ.obj i).tag = .slice) (n : Nat)
    (hle : n ≤ (σ.refBuf (σ.obj i).refsId).length) :
    Inv H (σ.setObj i { σ.obj i with off := n }) := by
  obtain ⟨⟨a1, a2, a3, a4, a5, a6⟩, ⟨s1, s2⟩, ⟨c1, c2⟩⟩ := h
  have tg : ∀ j, ((σ.setObj i { σ.obj i with off := n }).obj j).tag = (σ.obj j).tag := by
    intro j; by_cases e : j = i <;> simp [e]
  have bI : ∀ j, ((σ.setObj i { σ.obj i with off := n }).obj j).bitsId = (σ.obj j).bitsId := by
    intro j; by_cases e : j = i <;> simp [e]
  have rI : ∀ j, ((σ.setObj i { σ.obj i with off := n }).obj j).refsId = (σ.obj j).refsId := by
    intro j; by_cases e : j = i <;> simp [e]
  have kd : ∀ j, ((σ.setObj i { σ.obj i with off := n }).obj j).kind = (σ.obj j).kind := by
    intro j; by_cases e : j = i <;> simp [e]
  have vl : ∀ j, ((σ.setObj i { σ.obj i with off := n }).obj j).val = (σ.obj j).val := by
    intro j; by_cases e : j = i <;> simp [e]
  have inf : ∀ j, ((σ.setObj i { σ.obj i with off := n }).obj j).info = (σ.obj j).info := by
    intro j; by_cases e : j = i <;> simp [e]
  have vs : ∀ l, vals (σ.setObj i { σ.obj i with off := n }) l = vals σ l := fun l => vals_congr (fun j _ => vl j)
  refine ⟨⟨?_, ?_, ?_, ?_, ?_, ?_⟩, ⟨?_, ?_⟩, ⟨?_, ?_⟩⟩
  · intro j hj; rw [tg, bI]; exact a1 j hj
  · intro j hj; rw [tg, rI]; exact a2 j hj
  · intro r hr j hj; rw [tg]; exact a3 r hr j hj
  · intro j hj hs; rw [tg] at hs
    have e : j ≠ i := by intro e; subst e; exact hs ht
    simpa [e] using a4 j hj hs
  · intro j hj; rw [tg, kd]; exact a5 j hj
  · intro j hj
    rw [rI]
    by_cases e : j = i
    · subst e; simpa using hle
    · simpa [e] using a6 j hj
  · intro a b ha hb; rw [tg, tg, bI, bI]; exact s1 a b ha hb
  · intro a b ha hb; rw [tg, tg, rI, rI]; exact s2 a b ha hb
  · intro j hj; rw [tg, vl, kd, bI, rI, vs]; exact c1 j hj
  · intro j hj; rw [tg, vl, inf]; exact c2 j hj

/-! ### Cell construction: the cached info of a new cell is the info of its tree value -/

def CellsAt (σ : State) (l : List Nat) : Prop := ∀ j ∈ l, j < σ.nObj ∧ (σ.obj j).tag = .cell

theorem infos_vals {H σ} (h : Coh H σ) {l : List Nat} (hl : CellsAt σ l) :
    Cell.infos H (vals σ l) = some (l.map fun j => (σ.obj j).info) := by
  induction l with
  | nil => simp [vals, Cell.infos]
  | cons a l ih =>
    have ha := hl a (by simp)
    have := ih (fun j hj => hl j (by simp [hj]))
    simp only [vals, List.map_cons] at this ⊢
    simp [Cell.infos, h.cohInfo a ha.1 ha.2, this]

theorem info_mk {H} (k : Int) (b : Bits) (ts : List Tree) :
    Cell.info H (.mk k b ts) = (Cell.infos H ts).bind (construct H k b) := by
  rw [Cell.info]; cases Cell.infos H ts <;> rfl

theorem mkCellRec_some {H σ} (h : Coh H σ) {bI rI : Nat} {kind : Int} {bits : Bits} {refs : List Nat} {c : ObjRec}
    (hl : CellsAt σ refs) (e : mkCellRec H σ bI rI kind bits refs = some c) :
    c.tag = .cell ∧ c.bitsId = bI ∧ c.refsId = rI ∧ c.off = 0 ∧ c.kind = kind ∧
    c.val = .mk kind bits (vals σ refs) ∧ Cell.info H c.val = some c.info := by
  unfold mkCellRec at e
  cases hc : construct H kind bits (refs.map fun j => (σ.obj j).info) with
  | none => simp [hc] at e
  | some info =>
    simp [hc] at e; subst e
    refine ⟨rfl, rfl, rfl, rfl, rfl, rfl, ?_⟩
    show Cell.info H (.mk kind bits (vals σ refs)) = some info
    rw [info_mk, infos_vals h hl]; exact hc

theorem mkCellRec_none {H σ} (h : Coh H σ) {bI rI : Nat} {kind : Int} {bits : Bits} {refs : List Nat}
    (hl : CellsAt σ refs) (e : mkCellRec H σ bI rI kind bits refs = none) :
    Cell.info H (.mk kind bits (vals σ refs)) = none := by
  unfold mkCellRec at e
  rw [info_mk, infos_vals h hl]
  cases hc : construct H kind bits (refs.map fun j => (σ.obj j).info) with
  | none => simpa using hc
  | some info => simp [hc] at e

theorem allCells_iff {σ : State} {cs : List Nat} : allCells σ cs = true ↔ CellsAt σ cs := by
  simp [allCells, CellsAt, State.has]

theorem has_iff {σ : State} {i : Nat} {t : Tag} : σ.has i t = true ↔ i < σ.nObj ∧ (σ.obj i).tag = t := by
  simp [State.has]

theorem inv_freshObj {H σ} (h : Inv H σ) (o : ObjRec) (bits : Bits) (refs : List Nat) (hrs : CellsAt σ refs)
    (hoff : o.tag ≠ .slice → o.off = 0) (hbk : o.tag = .builder → o.kind = -1)
    (hc : o.tag = .cell → o.val = .mk o.kind bits (vals σ refs) ∧ Cell.info H o.val = some o.info)
    (hle : o.off = 0) :
    Inv H (freshObj σ o bits refs).1 := by
  have h2 : Inv H ((σ.allocB bits).allocR refs) := inv_allocR (inv_allocB h bits) refs hrs
  have a1 := h.wf.idB
  have a2 := h.wf.idR
  unfold freshObj
  apply inv_push h2
  · intro _; simp
  · intro _; simp
  · exact hoff
  · exact hbk
  · intro _ j hj hb; simp at hj ⊢; have := a1 j hj hb; omega
  · intro _ j hj ho; simp at hj ⊢
    have := a1 j hj (owner_hasBits ho); omega
  · intro _ j hj hb; simp at hj ⊢; have := a2 j hj hb; omega
  · intro _ j hj ho; simp at hj ⊢
    have := a2 j hj (owner_hasRefs ho); omega
  · intro ht
    have := hc ht
    simp [vals] at this ⊢
    exact this
  · simp [hle]

theorem cellsAt_drop {σ : State} {l : List Nat} (n : Nat) (h : CellsAt σ l) : CellsAt σ (l.drop n) :=
  fun j hj => h j (List.mem_of_mem_drop hj)

theorem cellsAt_refBuf {H σ} (h : Inv H σ) {i : Nat} (hi : i < σ.nObj) (ht : (σ.obj i).tag.hasRefs = true) :
    CellsAt σ (σ.refBuf (σ.obj i).refsId) :=
  h.wf.refsCells _ (h.wf.idR i hi ht)

theorem cellsAt_refsOf {H σ} (h : Inv H σ) {i : Nat} (hi : i < σ.nObj) (ht : (σ.obj i).tag.hasRefs = true) :
    CellsAt σ (σ.refsOf i) := cellsAt_drop _ (cellsAt_refBuf h hi ht)

theorem cellsAt_append {σ : State} {l l' : List Nat} (h : CellsAt σ l) (h' : CellsAt σ l') : CellsAt σ (l ++ l') := by
  intro j hj; rcases List.mem_append.mp hj with e | e
  · exact h j e
  · exact h' j e

/-! ### Every transition preserves the invariants -/

theorem inv_pushUBits {H σ} (h : Inv H σ) (bs : Bits) :
    Inv H ((σ.allocB bs).push { ObjRec.blank with tag := .ubits, bitsId := σ.nBit }) := by
  have a1 := h.wf.idB
  apply inv_push (inv_allocB h bs) <;> simp [Tag.hasRefs, Tag.owner, ObjRec.blank]
  intro _ j hj ho; have := a1 j hj (owner_hasBits ho); omega

theorem inv_pushURefs {H σ} (h : Inv H σ) (cs : List Nat) (hcs : CellsAt σ cs) :
    Inv H ((σ.allocR cs).push { ObjRec.blank with tag := .urefs, refsId := σ.nRef }) := by
  have a2 := h.wf.idR
  apply inv_push (inv_allocR h cs hcs) <;> simp [Tag.hasBits, Tag.owner, ObjRec.blank]
  intro _ j hj ho; have := a2 j hj (owner_hasRefs ho); omega

theorem inv_cellCtor {H σ} (h : Inv H σ) (ub ur : Nat) (kind : Int) : Inv H (step H σ (.cellCtor ub ur kind)).1 := by
  simp only [step]
  split
  · rename_i hv
    simp only [Bool.and_eq_true, has_iff] at hv
    obtain ⟨⟨hub, tub⟩, ⟨hur, tur⟩⟩ := hv
    have hl : CellsAt σ (σ.refBuf (σ.obj ur).refsId) := cellsAt_refBuf h hur (by simp [tur, Tag.hasRefs])
    split
    · rename_i c e
      obtain ⟨e1, e2, e3, e4, e5, e6, e7⟩ := mkCellRec_some h.coh hl e
      apply inv_push h
      · intro _; rw [e2]; exact h.wf.idB ub hub (by simp [tub, Tag.hasBits])
      · intro _; rw [e3]; exact h.wf.idR ur hur (by simp [tur, Tag.hasRefs])
      · intro _; exact e4
      · intro e; rw [e1] at e; cases e
      · intro e; rw [e1] at e; simp [Tag.owner] at e
      · intro _ j hj ho; rw [e2]
        exact h.sep.sepB j ub hj hub (by intro e; subst e; rw [tub] at ho; simp [Tag.owner] at ho) ho (by simp [tub, Tag.hasBits])
      · intro e; rw [e1] at e; simp [Tag.owner] at e
      · intro _ j hj ho; rw [e3]
        exact h.sep.sepR j ur hj hur (by intro e; subst e; rw [tur] at ho; simp [Tag.owner] at ho) ho (by simp [tur, Tag.hasRefs])
      · intro _; rw [e2, e3, e5]; exact ⟨e6, e7⟩
      · rw [e4]; exact Nat.zero_le _
    · exact h
  · exact h

theorem inv_cellFresh {H σ} (h : Inv H σ) (bs : Bits) (cs : List Nat) (kind : Int) : Inv H (step H σ (.cellFresh bs cs kind)).1 := by
  simp only [step]
  split
  · rename_i hv
    rw [allCells_iff] at hv
    split
    · rename_i c e
      obtain ⟨e1, e2, e3, e4, e5, e6, e7⟩ := mkCellRec_some h.coh hv e
      apply inv_freshObj h c bs cs hv (fun _ => e4) (by intro e; rw [e1] at e; cases e) _ e4
      intro _; rw [e5]; exact ⟨e6, e7⟩
    · exact h
  · exact h

theorem inv_sliceFresh {H σ} (h : Inv H σ) (bs : Bits) (cs : List Nat) (kind : Int) : Inv H (step H σ (.sliceFresh bs cs kind)).1 := by
  simp only [step]
  split
  · rename_i hv
    rw [allCells_iff] at hv
    apply inv_freshObj h _ bs cs hv <;> simp [ObjRec.blank]
  · exact h

theorem inv_builderNew {H σ} (h : Inv H σ) : Inv H (step H σ .builderNew).1 := by
  simp only [step]
  apply inv_freshObj h _ [] [] (by intro j hj; cases hj) <;> simp [ObjRec.blank]

theorem src_hasRefs {σ : State} {src : Nat}
    (hv : (σ.has src .cell || σ.has src .slice || σ.has src .builder) = true) :
    src < σ.nObj ∧ (σ.obj src).tag.hasRefs = true ∧ (σ.obj src).tag.hasBits = true := by
  simp only [Bool.or_eq_true, has_iff] at hv
  rcases hv with (⟨a, b⟩ | ⟨a, b⟩) | ⟨a, b⟩ <;> simp [a, b, Tag.hasRefs, Tag.hasBits]

theorem inv_derive {H σ} (h : Inv H σ) (src : Nat) (dst : Kind) : Inv H (step H σ (.derive src dst)).1 := by
  simp only [step]
  split
  · rename_i hv
    obtain ⟨hs, hr, _⟩ := src_hasRefs hv
    have hl : CellsAt σ (σ.refsOf src) := cellsAt_refsOf h hs hr
    cases dst with
    | cell =>
      simp only
      split
      · rename_i c e
        obtain ⟨e1, e2, e3, e4, e5, e6, e7⟩ := mkCellRec_some h.coh hl e
        apply inv_freshObj h c _ _ hl (fun _ => e4) (by intro e; rw [e1] at e; cases e) _ e4
        intro _; rw [e5]; exact ⟨e6, e7⟩
      · exact h
    | slice => simp only; apply inv_freshObj h _ _ _ hl <;> simp [ObjRec.blank]
    | builder =>
      simp only
      split
      · exact h
      · apply inv_freshObj h _ _ _ hl <;> simp [ObjRec.blank]
  · exact h

theorem slice_owner {σ : State} {s : Nat} (h : (σ.obj s).tag = .slice) : (σ.obj s).tag.owner = true := by simp [h, Tag.owner]
theorem builder_owner {σ : State} {s : Nat} (h : (σ.obj s).tag = .builder) : (σ.obj s).tag.owner = true := by simp [h, Tag.owner]

theorem inv_dropBits {H σ} (h : Inv H σ) (s n : Nat) (ret : Bool) : Inv H (step H σ (.dropBits s n ret)).1 := by
  simp only [step]
  split
  · rename_i hv
    rw [has_iff] at hv
    split
    · exact h
    · have h1 := inv_setB h s hv.1 (slice_owner hv.2) ((σ.bitsOf s).drop n)
      split
      · exact inv_pushUBits h1 _
      · exact h1
  · exact h

theorem inv_peekBits {H σ} (h : Inv H σ) (s n : Nat) : Inv H (step H σ (.peekBits s n)).1 := by
  simp only [step]
  split
  · exact inv_pushUBits h _
  · exact h

theorem inv_loadRef {H σ} (h : Inv H σ) (s : Nat) : Inv H (step H σ (.loadRef s)).1 := by
  simp only [step]
  split
  · rename_i hv
    rw [has_iff] at hv
    split
    · exact h
    · rename_i c cs hd
      refine inv_setOff h s hv.2 _ ?_
      have := congrArg List.length hd
      simp only [State.refsOf, List.length_drop, List.length_cons] at this
      omega
  · exact h

theorem inv_storeBits {H σ} (h : Inv H σ) (b : Nat) (bs : Bits) : Inv H (step H σ (.storeBits b bs)).1 := by
  simp only [step]
  split
  · rename_i hv
    rw [has_iff] at hv
    split
    · exact h
    · exact inv_setB h b hv.1 (builder_owner hv.2) _
  · exact h

theorem inv_storeFrom {H σ} (h : Inv H σ) (b src : Nat) : Inv H (step H σ (.storeFrom b src)).1 := by
  simp only [step]
  split
  · rename_i hv
    rw [has_iff] at hv
    split
    · split
      · exact h
      · exact inv_setB h b hv.1 (builder_owner hv.2) _
    · split
      · rename_i hs
        split
        · exact h
        · split
          · exact h
          · have h1 := inv_setB h b hv.1 (builder_owner hv.2) (σ.bitsOf b ++ σ.bitsOf src)
            have hsrc : src < σ.nObj ∧ (σ.obj src).tag.hasRefs = true := by
              simp only [Bool.or_eq_true, has_iff] at hs
              rcases hs with ⟨a, c⟩ | ⟨a, c⟩ <;> simp [a, c, Tag.hasRefs]
            have hl := cellsAt_append (cellsAt_refsOf h hv.1 (owner_hasRefs (builder_owner hv.2))) (cellsAt_refsOf h hsrc.1 hsrc.2)
            exact inv_setR h1 b hv.1 (builder_owner hv.2) _ hl (by have := h.wf.off0 b hv.1 (by rw [hv.2]; decide); simp [this])
      · exact h
  · exact h

theorem inv_storeRef {H σ} (h : Inv H σ) (b c : Nat) : Inv H (step H σ (.storeRef b c)).1 := by
  simp only [step]
  split
  · rename_i hv
    simp only [Bool.and_eq_true, has_iff] at hv
    split
    · exact h
    · refine inv_setR h b hv.1.1 (builder_owner hv.1.2) _ ?_ (by have := h.wf.off0 b hv.1.1 (by rw [hv.1.2]; decide); simp [this])
      apply cellsAt_append (cellsAt_refsOf h hv.1.1 (owner_hasRefs (builder_owner hv.1.2)))
      intro j hj; simp at hj; subst hj; exact hv.2
  · exact h

theorem inv_step {H σ} (h : Inv H σ) (op : Op) : Inv H (step H σ op).1 := by
  cases op with
  | newBits bs => exact inv_pushUBits h bs
  | newRefs cs =>
    simp only [step]; split
    · rename_i hv; exact inv_pushURefs h cs (allCells_iff.mp hv)
    · exact h
  | cellCtor ub ur kind => exact inv_cellCtor h ub ur kind
  | cellFresh bs cs kind => exact inv_cellFresh h bs cs kind
  | sliceFresh bs cs kind => exact inv_sliceFresh h bs cs kind
  | builderNew => exact inv_builderNew h
  | derive src dst => exact inv_derive h src dst
  | dropBits s n ret => exact inv_dropBits h s n ret
  | peekBits s n => exact inv_peekBits h s n
  | loadRef s => exact inv_loadRef h s
  | storeBits b bs => exact inv_storeBits h b bs
  | storeFrom b src => exact inv_storeFrom h b src
  | storeRef b c => exact inv_storeRef h b c
  | observe c => simp only [step]; split <;> exact h

theorem inv_run {H σ} (h : Inv H σ) (ops : List Op) : Inv H (run H σ ops) := by
  induction ops generalizing σ with
  | nil => exact h
  | cons op ops ih => exact ih (inv_step h op)

/-! ### Footprint of a transition (no invariant needed: read off `step`) -/

/-- the object a call mutates (its `self`), if any -/
def recvOf : Op → Option Nat
  | .dropBits s _ _ => some s
  | .loadRef s => some s
  | .storeBits b _ => some b
  | .storeFrom b _ => some b
  | .storeRef b _ => some b
  | _ => none

structure Frame (σ σ' : State) (recv : Option Nat) : Prop where
  nObj : σ.nObj ≤ σ'.nObj
  nBit : σ.nBit ≤ σ'.nBit
  nRef : σ.nRef ≤ σ'.nRef
  obj : ∀ j, j < σ.nObj → recv ≠ some j → σ'.obj j = σ.obj j
  robj : ∀ r, recv = some r → σ'.obj r = { σ.obj r with off := (σ'.obj r).off }
  bits : ∀ k, k < σ.nBit → (∀ r, recv = some r → k ≠ (σ.obj r).bitsId) → σ'.bitBuf k = σ.bitBuf k
  refs : ∀ k, k < σ.nRef → (∀ r, recv = some r → k ≠ (σ.obj r).refsId) → σ'.refBuf k = σ.refBuf k
  owner : σ' = σ ∨ ∀ r, recv = some r → r < σ.nObj ∧ (σ.obj r).tag.owner = true

theorem frame_refl (σ : State) (r : Option Nat) : Frame σ σ r :=
  ⟨Nat.le_refl _, Nat.le_refl _, Nat.le_refl _, fun _ _ _ => rfl, fun _ _ => rfl, fun _ _ _ => rfl, fun _ _ _ => rfl, .inl rfl⟩

theorem frame_freshObj (σ : State) (o : ObjRec) (bits : Bits) (refs : List Nat) : Frame σ (freshObj σ o bits refs).1 none := by
  unfold freshObj
  refine ⟨by simp, by simp, by simp, ?_, by simp, ?_, ?_, .inr (by simp)⟩
  · intro j hj _; have : j ≠ σ.nObj := by omega
    simp [this]
  · intro k hk _; have : k ≠ σ.nBit := by omega
    simp [this]
  · intro k hk _; have : k ≠ σ.nRef := by omega
    simp [this]

theorem frame_pushUBits (σ : State) (bs : Bits) (o : ObjRec) : Frame σ ((σ.allocB bs).push o) none := by
  refine ⟨by simp, by simp, by simp, ?_, by simp, ?_, ?_, .inr (by simp)⟩
  · intro j hj _; have : j ≠ σ.nObj := by omega
    simp [this]
  · intro k hk _; have : k ≠ σ.nBit := by omega
    simp [this]
  · intro k hk _; simp

theorem frame_setB (σ : State) (r : Nat) (hr : r < σ.nObj) (ho : (σ.obj r).tag.owner = true) (bs : Bits) :
    Frame σ (σ.setB (σ.obj r).bitsId bs) (some r) := by
  refine ⟨by simp, by simp, by simp, by simp, by simp, ?_, by simp, .inr ?_⟩
  · intro k _ hk; have := hk r rfl; simp [this]
  · intro r' e; cases e; exact ⟨hr, ho⟩

theorem frame_setR (σ : State) (r : Nat) (hr : r < σ.nObj) (ho : (σ.obj r).tag.owner = true) (rs : List Nat) :
    Frame σ (σ.setR (σ.obj r).refsId rs) (some r) := by
  refine ⟨by simp, by simp, by simp, by simp, by simp, by simp, ?_, .inr ?_⟩
  · intro k _ hk; have := hk r rfl; simp [this]
  · intro r' e; cases e; exact ⟨hr, ho⟩

theorem frame_setBR (σ : State) (r : Nat) (hr : r < σ.nObj) (ho : (σ.obj r).tag.owner = true) (bs : Bits) (rs : List Nat) :
    Frame σ ((σ.setB (σ.obj r).bitsId bs).setR (σ.obj r).refsId rs) (some r) := by
  refine ⟨by simp, by simp, by simp, by simp, by simp, ?_, ?_, .inr ?_⟩
  · intro k _ hk; have := hk r rfl; simp [this]
  · intro k _ hk; have := hk r rfl; simp [this]
  · intro r' e; cases e; exact ⟨hr, ho⟩

theorem frame_setOff (σ : State) (r : Nat) (hr : r < σ.nObj) (ho : (σ.obj r).tag.owner = true) (n : Nat) :
    Frame σ (σ.setObj r { σ.obj r with off := n }) (some r) := by
  refine ⟨by simp, by simp, by simp, ?_, ?_, by simp, by simp, .inr ?_⟩
  · intro j _ hj; have : j ≠ r := fun e => hj (by rw [e])
    simp [this]
  · intro r' e; cases e; simp
  · intro r' e; cases e; exact ⟨hr, ho⟩

theorem frame_dropRet (σ : State) (r : Nat) (hr : r < σ.nObj) (ho : (σ.obj r).tag.owner = true) (bs bs' : Bits) (o : ObjRec) :
    Frame σ (((σ.setB (σ.obj r).bitsId bs).allocB bs').push o) (some r) := by
  refine ⟨by simp, by simp, by simp, ?_, ?_, ?_, by simp, .inr ?_⟩
  · intro j hj _; have : j ≠ σ.nObj := by omega
    simp [this]
  · intro r' e; cases e; have : r ≠ σ.nObj := by omega
    simp [this]
  · intro k hk hne; have := hne r rfl; have : k ≠ σ.nBit := by omega
    simp [*]
  · intro r' e; cases e; exact ⟨hr, ho⟩

theorem frame_step (H) (σ : State) (op : Op) : Frame σ (step H σ op).1 (recvOf op) := by
  cases op with
  | newBits bs => exact frame_pushUBits σ bs _
  | newRefs cs =>
    simp only [step, recvOf]; split
    · refine ⟨by simp, by simp, by simp, ?_, by simp, by simp, ?_, .inr (by simp)⟩
      · intro j hj _; have : j ≠ σ.nObj := by omega
        simp [this]
      · intro k hk _; have : k ≠ σ.nRef := by omega
        simp [this]
    · exact frame_refl _ _
  | cellCtor ub ur kind =>
    simp only [step, recvOf]; split
    · split
      · refine ⟨by simp, by simp, by simp, ?_, by simp, by simp, by simp, .inr (by simp)⟩
        intro j hj _; have : j ≠ σ.nObj := by omega
        simp [this]
      · exact frame_refl _ _
    · exact frame_refl _ _
  | cellFresh bs cs kind =>
    simp only [step, recvOf]; split
    · split
      · exact frame_freshObj _ _ _ _
      · exact frame_refl _ _
    · exact frame_refl _ _
  | sliceFresh bs cs kind =>
    simp only [step, recvOf]; split
    · exact frame_freshObj _ _ _ _
    · exact frame_refl _ _
  | builderNew => exact frame_freshObj _ _ _ _
  | derive src dst =>
    simp only [step, recvOf]; split
    · cases dst with
      | cell => simp only; split
                · exact frame_freshObj _ _ _ _
                · exact frame_refl _ _
      | slice => exact frame_freshObj _ _ _ _
      | builder => simp only; split
                   · exact frame_refl _ _
                   · exact frame_freshObj _ _ _ _
    · exact frame_refl _ _
  | dropBits s n ret =>
    simp only [step, recvOf]; split
    · rename_i hv; rw [has_iff] at hv
      split
      · exact frame_refl _ _
      · split
        · exact frame_dropRet σ s hv.1 (slice_owner hv.2) _ _ _
        · exact frame_setB σ s hv.1 (slice_owner hv.2) _
    · exact frame_refl _ _
  | peekBits s n =>
    simp only [step, recvOf]; split
    · exact frame_pushUBits σ _ _
    · exact frame_refl _ _
  | loadRef s =>
    simp only [step, recvOf]; split
    · rename_i hv; rw [has_iff] at hv
      split
      · exact frame_refl _ _
      · exact frame_setOff σ s hv.1 (slice_owner hv.2) _
    · exact frame_refl _ _
  | storeBits b bs =>
    simp only [step, recvOf]; split
    · rename_i hv; rw [has_iff] at hv
      split
      · exact frame_refl _ _
      · exact frame_setB σ b hv.1 (builder_owner hv.2) _
    · exact frame_refl _ _
  | storeFrom b src =>
    simp only [step, recvOf]; split
    · rename_i hv; rw [has_iff] at hv
      split
      · split
        · exact frame_refl _ _
        · exact frame_setB σ b hv.1 (builder_owner hv.2) _
      · split
        · split
          · exact frame_refl _ _
          · split
            · exact frame_refl _ _
            · exact frame_setBR σ b hv.1 (builder_owner hv.2) _ _
        · exact frame_refl _ _
    · exact frame_refl _ _
  | storeRef b c =>
    simp only [step, recvOf]; split
    · rename_i hv; simp only [Bool.and_eq_true, has_iff] at hv
      split
      · exact frame_refl _ _
      · exact frame_setR σ b hv.1.1 (builder_owner hv.1.2) _
    · exact frame_refl _ _
  | observe c => simp only [step, recvOf]; split <;> exact frame_refl _ _

/-! ### Cells are outside every footprint -/

/-- what can be observed of a Cell object on the heap: the record (attribute pointers, type, cached hashes) and the
content of the two containers its attributes point to -/
def cellObs (σ : State) (i : Nat) : ObjRec × Bits × List Nat :=
  (σ.obj i, σ.bitBuf (σ.obj i).bitsId, σ.refBuf (σ.obj i).refsId)

theorem frame_other {H σ σ'} {recv : Option Nat} (h : Inv H σ) (f : Frame σ σ' recv) (i : Nat) (hi : i < σ.nObj)
    (hne : recv ≠ some i) :
    σ'.obj i = σ.obj i ∧ ((σ.obj i).tag.hasBits = true → σ'.bitBuf (σ.obj i).bitsId = σ.bitBuf (σ.obj i).bitsId) ∧
      ((σ.obj i).tag.hasRefs = true → σ'.refBuf (σ.obj i).refsId = σ.refBuf (σ.obj i).refsId) := by
  rcases f.owner with e | ho
  · subst e; exact ⟨rfl, fun _ => rfl, fun _ => rfl⟩
  · refine ⟨f.obj i hi hne, ?_, ?_⟩
    · intro hb
      apply f.bits _ (h.wf.idB i hi hb)
      intro r hr
      obtain ⟨h1, h2⟩ := ho r hr
      have : r ≠ i := by intro e; subst e; exact hne hr
      exact fun e => h.sep.sepB r i h1 hi this h2 hb e.symm
    · intro hb
      apply f.refs _ (h.wf.idR i hi hb)
      intro r hr
      obtain ⟨h1, h2⟩ := ho r hr
      have : r ≠ i := by intro e; subst e; exact hne hr
      exact fun e => h.sep.sepR r i h1 hi this h2 hb e.symm

theorem frame_recv_not_cell {σ σ'} {recv : Option Nat} (f : Frame σ σ' recv) (i : Nat) (ht : (σ.obj i).tag = .cell) :
    σ' = σ ∨ recv ≠ some i := by
  rcases f.owner with e | ho
  · exact .inl e
  · right; intro e; have := (ho i e).2; rw [ht] at this; simp [Tag.owner] at this

theorem cell_frame {H σ σ'} {recv : Option Nat} (h : Inv H σ) (f : Frame σ σ' recv) (i : Nat) (hi : i < σ.nObj)
    (ht : (σ.obj i).tag = .cell) : cellObs σ' i = cellObs σ i := by
  rcases frame_recv_not_cell f i ht with e | hne
  · rw [e]
  · obtain ⟨a, b, c⟩ := frame_other h f i hi hne
    unfold cellObs; rw [a, b (by simp [ht, Tag.hasBits]), c (by simp [ht, Tag.hasRefs])]

theorem cell_frame_run {H σ} (h : Inv H σ) (ops : List Op) (i : Nat) (hi : i < σ.nObj) (ht : (σ.obj i).tag = .cell) :
    cellObs (run H σ ops) i = cellObs σ i ∧ i < (run H σ ops).nObj := by
  induction ops generalizing σ with
  | nil => exact ⟨rfl, hi⟩
  | cons op ops ih =>
    have f := frame_step H σ op
    have e := cell_frame h f i hi ht
    have hi' : i < (step H σ op).1.nObj := Nat.lt_of_lt_of_le hi f.nObj
    have ht' : ((step H σ op).1.obj i).tag = .cell := by
      have : (cellObs (step H σ op).1 i).1 = (cellObs σ i).1 := by rw [e]
      simp only [cellObs] at this; rw [this]; exact ht
    obtain ⟨a, b⟩ := ih (inv_step h op) hi' ht'
    exact ⟨by simp only [run]; rw [a, e], b⟩

/-! ### Value-level semantics: every object is an independent immutable VALUE -/

/-- the value of an object: cells are trees; a slice is (type, remaining bits, remaining referenced trees); ... -/
inductive Val where
  | cell (t : Tree)
  | slice (kind : Int) (bits : Bits) (refs : List Tree)
  | builder (bits : Bits) (refs : List Tree)
  | bits (bs : Bits)
  | refs (ts : List Tree)

/-- abstraction function: the value of object `i`, read off the heap -/
def valOf (σ : State) (i : Nat) : Val :=
  match (σ.obj i).tag with
  | .cell => .cell (.mk (σ.obj i).kind (σ.bitsOf i) (vals σ (σ.refsOf i)))
  | .slice => .slice (σ.obj i).kind (σ.bitsOf i) (vals σ (σ.refsOf i))
  | .builder => .builder (σ.bitsOf i) (vals σ (σ.refsOf i))
  | .ubits => .bits (σ.bitsOf i)
  | .urefs => .refs (vals σ (σ.refsOf i))

inductive OutVal where
  | err | unit
  | val (v : Val)
  | bits (bs : Bits)
  | hash (h : Bytes)

def outVal (σ' : State) : Out → OutVal
  | .err => .err
  | .unit => .unit
  | .obj i => .val (valOf σ' i)
  | .bits b => .bits b
  | .hash h => .hash h

def Val.isCell : Val → Bool
  | .cell _ => true
  | _ => false
def Val.tree : Val → Tree
  | .cell t => t
  | _ => noTree
def Val.isBuilder : Val → Bool
  | .builder _ _ => true
  | _ => false

/-- (type, bits, remaining refs) of a cell / slice / builder value -/
def Val.content : Val → Option (Int × Bits × List Tree)
  | .cell (.mk k b r) => some (k, b, r)
  | .slice k b r => some (k, b, r)
  | .builder b r => some (-1, b, r)
  | _ => none

/-- the `Cell` constructor on values: succeeds iff the tree is constructible (depth, exotic layout, ...) -/
def mkCellV (H : Bytes → Bytes) (k : Int) (b : Bits) (ts : List Tree) : OutVal :=
  if (Cell.info H (.mk k b ts)).isSome then .val (.cell (.mk k b ts)) else .err

/-- THE SPECIFICATION: each API call as a pure function of the VALUES of its arguments (`v` is consulted at the
call's argument objects only - `sem_congr`).  Result value, and the new value of `self` when the call mutates it. -/
def sem (H : Bytes → Bytes) (v : Nat → Val) : Op → OutVal × Option Val
  | .newBits bs => (.val (.bits bs), none)
  | .newRefs cs =>
    (if cs.all (fun j => (v j).isCell) then .val (.refs (cs.map fun j => (v j).tree)) else .err, none)
  | .cellCtor ub ur kind =>
    (match v ub, v ur with
     | .bits b, .refs ts => mkCellV H kind b ts
     | _, _ => .err, none)
  | .cellFresh bs cs kind =>
    (if cs.all (fun j => (v j).isCell) then mkCellV H kind bs (cs.map fun j => (v j).tree) else .err, none)
  | .sliceFresh bs cs kind =>
    (if cs.all (fun j => (v j).isCell) then .val (.slice kind bs (cs.map fun j => (v j).tree)) else .err, none)
  | .builderNew => (.val (.builder [] []), none)
  | .derive src dst =>
    (match (v src).content with
     | none => .err
     | some (k, b, r) =>
       match dst with
       | .cell => mkCellV H k b r
       | .slice => .val (.slice k b r)
       | .builder =>
         if (v src).isBuilder || k != -1 || r.length > 4 || b.length > 1023 then .err else .val (.builder b r), none)
  | .dropBits s n ret =>
    match v s with
    | .slice k b r =>
      if n > b.length then (.err, none)
      else (if ret then .val (.bits (b.take n)) else .bits (b.take n), some (.slice k (b.drop n) r))
    | _ => (.err, none)
  | .peekBits s n =>
    (match v s with
     | .slice _ b _ => .val (.bits (b.take n))
     | _ => .err, none)
  | .loadRef s =>
    match v s with
    | .slice k b (t :: r) => (.val (.cell t), some (.slice k b r))
    | _ => (.err, none)
  | .storeBits b bs =>
    match v b with
    | .builder bb r => if bb.length + bs.length > 1023 then (.err, none) else (.unit, some (.builder (bb ++ bs) r))
    | _ => (.err, none)
  | .storeFrom b src =>
    match v b with
    | .builder bb r =>
      (match v src with
       | .bits sb => if bb.length + sb.length > 1023 then (.err, none) else (.unit, some (.builder (bb ++ sb) r))
       | .cell (.mk _ sb sr) =>
         if r.length + sr.length > 4 then (.err, none) else if bb.length + sb.length > 1023 then (.err, none)
         else (.unit, some (.builder (bb ++ sb) (r ++ sr)))
       | .slice _ sb sr =>
         if r.length + sr.length > 4 then (.err, none) else if bb.length + sb.length > 1023 then (.err, none)
         else (.unit, some (.builder (bb ++ sb) (r ++ sr)))
       | _ => (.err, none))
    | _ => (.err, none)
  | .storeRef b c =>
    match v b, v c with
    | .builder bb r, .cell t => if r.length ≥ 4 then (.err, none) else (.unit, some (.builder bb (r ++ [t])))
    | _, _ => (.err, none)
  | .observe c =>
    (match v c with
     | .cell t => (match Cell.info H t with
                   | some i => .hash i.hash
                   | none => .err)
     | _ => .err, none)

/-- all object ids an operation mentions -/
def opIds : Op → List Nat
  | .newBits _ => []
  | .newRefs cs => cs
  | .cellCtor ub ur _ => [ub, ur]
  | .cellFresh _ cs _ => cs
  | .sliceFresh _ cs _ => cs
  | .builderNew => []
  | .derive src _ => [src]
  | .dropBits s _ _ => [s]
  | .peekBits s _ => [s]
  | .loadRef s => [s]
  | .storeBits b _ => [b]
  | .storeFrom b src => [b, src]
  | .storeRef b c => [b, c]
  | .observe c => [c]

/-- the same call with its argument objects renamed -/
def renameOp (ρ : Nat → Nat) : Op → Op
  | .newBits bs => .newBits bs
  | .newRefs cs => .newRefs (cs.map ρ)
  | .cellCtor ub ur k => .cellCtor (ρ ub) (ρ ur) k
  | .cellFresh bs cs k => .cellFresh bs (cs.map ρ) k
  | .sliceFresh bs cs k => .sliceFresh bs (cs.map ρ) k
  | .builderNew => .builderNew
  | .derive src dst => .derive (ρ src) dst
  | .dropBits s n r => .dropBits (ρ s) n r
  | .peekBits s n => .peekBits (ρ s) n
  | .loadRef s => .loadRef (ρ s)
  | .storeBits b bs => .storeBits (ρ b) bs
  | .storeFrom b src => .storeFrom (ρ b) (ρ src)
  | .storeRef b c => .storeRef (ρ b) (ρ c)
  | .observe c => .observe (ρ c)

theorem all_congr {v1 v2 : Nat → Val} {cs : List Nat} (h : ∀ i ∈ cs, v1 i = v2 i) :
    cs.all (fun j => (v1 j).isCell) = cs.all (fun j => (v2 j).isCell) := by
  induction cs with
  | nil => rfl
  | cons a l ih => simp only [List.all_cons]; rw [h a (by simp), ih (fun i hi => h i (by simp [hi]))]

theorem map_tree_congr {v1 v2 : Nat → Val} {cs : List Nat} (h : ∀ i ∈ cs, v1 i = v2 i) :
    (cs.map fun j => (v1 j).tree) = cs.map fun j => (v2 j).tree :=
  List.map_congr_left (fun i hi => by rw [h i hi])

/-- `sem` reads `v` at the call's arguments only -/
theorem sem_congr (H) (v1 v2 : Nat → Val) (op : Op) (h : ∀ i ∈ opIds op, v1 i = v2 i) : sem H v1 op = sem H v2 op := by
  cases op <;> simp only [opIds, List.mem_cons, List.not_mem_nil, or_false, forall_eq_or_imp, forall_eq] at h <;>
    simp only [sem]
  case newRefs cs => rw [all_congr h, map_tree_congr h]
  case cellCtor => rw [h.1, h.2]
  case cellFresh cs k => rw [all_congr h, map_tree_congr h]
  case sliceFresh cs k => rw [all_congr h, map_tree_congr h]
  case derive => rw [h]
  case dropBits => rw [h]
  case peekBits => rw [h]
  case loadRef => rw [h]
  case storeBits => rw [h]
  case storeFrom => rw [h.1, h.2]
  case storeRef => rw [h.1, h.2]
  case observe => rw [h]

theorem sem_rename (H) (v : Nat → Val) (ρ : Nat → Nat) (op : Op) : sem H v (renameOp ρ op) = sem H (v ∘ ρ) op := by
  cases op <;> simp [sem, renameOp, List.all_map, Function.comp_def]

/-! ### Refinement: the heap transition computes `sem` on values and touches no other object's value -/

theorem val_frame {σ σ'} {recv : Option Nat} (f : Frame σ σ' recv) (j : Nat) (hj : j < σ.nObj) :
    (σ'.obj j).val = (σ.obj j).val := by
  by_cases e : recv = some j
  · rw [f.robj j e]
  · rw [f.obj j hj e]

theorem vals_frame {σ σ'} {recv : Option Nat} (f : Frame σ σ' recv) {l : List Nat} (hl : CellsAt σ l) :
    vals σ' l = vals σ l :=
  vals_congr (fun j hj => val_frame f j (hl j hj).1)

/-- ISOLATION: a transition does not change the value of any object other than its `self` -/
theorem valOf_frame {H σ σ'} {recv : Option Nat} (h : Inv H σ) (f : Frame σ σ' recv) (i : Nat) (hi : i < σ.nObj)
    (hne : recv ≠ some i) : valOf σ' i = valOf σ i := by
  obtain ⟨a, b, c⟩ := frame_other h f i hi hne
  have hv : (σ.obj i).tag.hasRefs = true →
      vals σ' (List.drop (σ.obj i).off (σ.refBuf (σ.obj i).refsId)) = vals σ (List.drop (σ.obj i).off (σ.refBuf (σ.obj i).refsId)) :=
    fun hr => vals_frame f (cellsAt_refsOf h hi hr)
  unfold valOf State.bitsOf State.refsOf
  rw [a]
  cases ht : (σ.obj i).tag <;> simp only
  · rw [b (by simp [ht, Tag.hasBits]), c (by simp [ht, Tag.hasRefs]), hv (by simp [ht, Tag.hasRefs])]
  · rw [b (by simp [ht, Tag.hasBits]), c (by simp [ht, Tag.hasRefs]), hv (by simp [ht, Tag.hasRefs])]
  · rw [b (by simp [ht, Tag.hasBits]), c (by simp [ht, Tag.hasRefs]), hv (by simp [ht, Tag.hasRefs])]
  · rw [b (by simp [ht, Tag.hasBits])]
  · rw [c (by simp [ht, Tag.hasRefs]), hv (by simp [ht, Tag.hasRefs])]

theorem valOf_cell {H σ} (h : Inv H σ) {i : Nat} (hi : i < σ.nObj) (ht : (σ.obj i).tag = .cell) :
    valOf σ i = .cell (σ.obj i).val ∧ (σ.obj i).val = .mk (σ.obj i).kind (σ.bitsOf i) (vals σ (σ.refsOf i)) := by
  have c := h.coh.coh i hi ht
  have o := h.wf.off0 i hi (by simp [ht])
  have e : σ.refsOf i = σ.refBuf (σ.obj i).refsId := by simp [State.refsOf, o]
  refine ⟨?_, ?_⟩
  · simp only [valOf, ht, State.bitsOf, e]; rw [c]
  · rw [e]; exact c

theorem isCell_valOf (σ : State) (i : Nat) : (valOf σ i).isCell = decide ((σ.obj i).tag = .cell) := by
  unfold valOf; cases (σ.obj i).tag <;> simp [Val.isCell]

theorem all_isCell {σ : State} {cs : List Nat} (hcs : ∀ i ∈ cs, i < σ.nObj) :
    cs.all (fun j => (valOf σ j).isCell) = allCells σ cs := by
  unfold allCells
  induction cs with
  | nil => rfl
  | cons a l ih =>
    simp only [List.all_cons]
    rw [ih (fun i hi => hcs i (by simp [hi])), isCell_valOf]
    simp [State.has, hcs a (by simp)]

theorem trees_vals {H σ} (h : Inv H σ) {cs : List Nat} (hcs : CellsAt σ cs) :
    (cs.map fun j => (valOf σ j).tree) = vals σ cs := by
  unfold vals
  apply List.map_congr_left
  intro j hj
  rw [(valOf_cell h (hcs j hj).1 (hcs j hj).2).1]; rfl

/-- value of the object created by `freshObj` -/
theorem valOf_fresh {σ : State} (o : ObjRec) (bits : Bits) (refs : List Nat) (hl : CellsAt σ refs) :
    valOf (freshObj σ o bits refs).1 σ.nObj =
      match o.tag with
      | .cell => .cell (.mk o.kind bits (vals σ (refs.drop o.off)))
      | .slice => .slice o.kind bits (vals σ (refs.drop o.off))
      | .builder => .builder bits (vals σ (refs.drop o.off))
      | .ubits => .bits bits
      | .urefs => .refs (vals σ (refs.drop o.off)) := by
  have hv : ∀ o' : ObjRec, vals (((σ.allocB bits).allocR refs).push o') (refs.drop o.off) = vals σ (refs.drop o.off) := by
    intro o'
    apply vals_congr; intro j hj
    have := (hl j (List.mem_of_mem_drop hj)).1
    have e : j ≠ σ.nObj := by omega
    simp [e]
  unfold valOf State.bitsOf State.refsOf
  simp only [freshObj]
  simp only [push_obj, push_bitBuf, push_refBuf, allocR_bitBuf, allocR_refBuf, allocB_bitBuf, allocB_refBuf,
    allocB_nRef, allocR_nObj, allocB_nObj, if_true]
  cases o.tag <;> simp only [hv]

theorem mkCellV_eq {H σ} (h : Inv H σ) {bI rI : Nat} {kind : Int} {bits : Bits} {refs : List Nat} (hl : CellsAt σ refs) :
    mkCellV H kind bits (vals σ refs) =
      match mkCellRec H σ bI rI kind bits refs with
      | some _ => .val (.cell (.mk kind bits (vals σ refs)))
      | none => .err := by
  unfold mkCellV
  cases e : mkCellRec H σ bI rI kind bits refs with
  | none => simp [mkCellRec_none h.coh hl e]
  | some c =>
    obtain ⟨_, _, _, _, _, e6, e7⟩ := mkCellRec_some h.coh hl e
    rw [e6] at e7; simp [e7]

theorem content_valOf {H σ} (h : Inv H σ) {i : Nat} (hi : i < σ.nObj) :
    (valOf σ i).content =
      if σ.has i .cell || σ.has i .slice || σ.has i .builder then some ((σ.obj i).kind, σ.bitsOf i, vals σ (σ.refsOf i))
      else none := by
  have bk := h.wf.bk i hi
  unfold valOf
  cases ht : (σ.obj i).tag <;> simp [Val.content, State.has, hi, ht]
  exact (bk ht).symm

theorem isBuilder_valOf (σ : State) {i : Nat} (hi : i < σ.nObj) : (valOf σ i).isBuilder = σ.has i .builder := by
  unfold valOf; cases ht : (σ.obj i).tag <;> simp [Val.isBuilder, State.has, hi, ht]

/-- what `step_sem` establishes for one transition -/
structure Refines (H : Bytes → Bytes) (σ : State) (op : Op) : Prop where
  out : outVal (step H σ op).1 (step H σ op).2 = (sem H (valOf σ) op).1
  recv : ∀ w, (sem H (valOf σ) op).2 = some w → ∃ r, recvOf op = some r ∧ r < σ.nObj ∧ valOf (step H σ op).1 r = w
  same : (sem H (valOf σ) op).2 = none → recvOf op = none ∨ (step H σ op).1 = σ

theorem Refines_iff {H σ op} : Refines H σ op ↔
    (outVal (step H σ op).1 (step H σ op).2 = (sem H (valOf σ) op).1 ∧
     (∀ w, (sem H (valOf σ) op).2 = some w → ∃ r, recvOf op = some r ∧ r < σ.nObj ∧ valOf (step H σ op).1 r = w) ∧
     ((sem H (valOf σ) op).2 = none → recvOf op = none ∨ (step H σ op).1 = σ)) :=
  ⟨fun h => ⟨h.out, h.recv, h.same⟩, fun h => ⟨h.1, h.2.1, h.2.2⟩⟩

theorem ref_newBits {H σ} (bs : Bits) : Refines H σ (.newBits bs) := by
  refine ⟨?_, by simp [sem], fun _ => .inl rfl⟩
  simp [step, sem, outVal, valOf, State.bitsOf]

theorem ref_newRefs {H σ} (h : Inv H σ) (cs : List Nat) (hid : ∀ i ∈ cs, i < σ.nObj) : Refines H σ (.newRefs cs) := by
  refine ⟨?_, by simp [sem], fun _ => .inl rfl⟩
  simp only [step, sem]
  rw [all_isCell hid]
  split
  · rename_i hv
    have hc := allCells_iff.mp hv
    rw [trees_vals h hc]
    have : ∀ o', vals ((σ.allocR cs).push o') cs = vals σ cs := by
      intro o'; apply vals_congr; intro j hj; have := hid j hj; have e : j ≠ σ.nObj := by omega
      simp [e]
    simp [outVal, valOf, State.refsOf, ObjRec.blank, this]
  · rfl

theorem valOf_push_cell {H σ} (h : Inv H σ) (c : ObjRec) (hr : c.refsId < σ.nRef) (ht : c.tag = .cell) (ho : c.off = 0) :
    valOf (σ.push c) σ.nObj = .cell (.mk c.kind (σ.bitBuf c.bitsId) (vals σ (σ.refBuf c.refsId))) := by
  have : vals (σ.push c) (σ.refBuf c.refsId) = vals σ (σ.refBuf c.refsId) :=
    vals_push c (fun j hj => (h.wf.refsCells _ hr j hj).1)
  simp [valOf, State.bitsOf, State.refsOf, ht, ho, this]

theorem ref_cellCtor {H σ} (h : Inv H σ) (ub ur : Nat) (kind : Int) (h1 : ub < σ.nObj) (h2 : ur < σ.nObj) :
    Refines H σ (.cellCtor ub ur kind) := by
  refine ⟨?_, by simp [sem], fun _ => .inl rfl⟩
  simp only [step, sem]
  cases t1 : (σ.obj ub).tag <;> cases t2 : (σ.obj ur).tag <;>
    simp only [State.has, h1, h2, t1, t2, valOf, decide_true, decide_false, Bool.and_true, Bool.and_false,
      if_true, if_false, outVal, Bool.false_eq_true, reduceCtorEq] <;> try rfl
  -- ub is an array, ur a list
  have o := h.wf.off0 ur h2 (by simp [t2])
  have hl : CellsAt σ (σ.refBuf (σ.obj ur).refsId) := cellsAt_refBuf h h2 (by simp [t2, Tag.hasRefs])
  have e : σ.refsOf ur = σ.refBuf (σ.obj ur).refsId := by simp [State.refsOf, o]
  rw [e, State.bitsOf, mkCellV_eq h (bI := (σ.obj ub).bitsId) (rI := (σ.obj ur).refsId) hl]
  cases ec : mkCellRec H σ (σ.obj ub).bitsId (σ.obj ur).refsId kind (σ.bitBuf (σ.obj ub).bitsId) (σ.refBuf (σ.obj ur).refsId) with
  | none => rfl
  | some c =>
    obtain ⟨e1, e2, e3, e4, e5, e6, e7⟩ := mkCellRec_some h.coh hl ec
    have hr : c.refsId < σ.nRef := by rw [e3]; exact h.wf.idR ur h2 (by simp [t2, Tag.hasRefs])
    show OutVal.val (valOf (σ.push c) σ.nObj) = _
    rw [valOf_push_cell h c hr e1 e4, e2, e3, e5]

theorem valOf_slice {σ : State} {i : Nat} (ht : (σ.obj i).tag = .slice) :
    valOf σ i = .slice (σ.obj i).kind (σ.bitsOf i) (vals σ (σ.refsOf i)) := by simp [valOf, ht]
theorem valOf_builder {σ : State} {i : Nat} (ht : (σ.obj i).tag = .builder) :
    valOf σ i = .builder (σ.bitsOf i) (vals σ (σ.refsOf i)) := by simp [valOf, ht]
theorem valOf_ubits {σ : State} {i : Nat} (ht : (σ.obj i).tag = .ubits) : valOf σ i = .bits (σ.bitsOf i) := by simp [valOf, ht]
theorem valOf_cell' {σ : State} {i : Nat} (ht : (σ.obj i).tag = .cell) :
    valOf σ i = .cell (.mk (σ.obj i).kind (σ.bitsOf i) (vals σ (σ.refsOf i))) := by simp [valOf, ht]

theorem ref_cellFresh {H σ} (h : Inv H σ) (bs : Bits) (cs : List Nat) (kind : Int) (hid : ∀ i ∈ cs, i < σ.nObj) :
    Refines H σ (.cellFresh bs cs kind) := by
  refine ⟨?_, by simp [sem], fun _ => .inl rfl⟩
  simp only [step, sem]
  rw [all_isCell hid]
  cases hv : allCells σ cs with
  | false => rfl
  | true =>
    have hc := allCells_iff.mp hv
    simp only [if_true]
    rw [trees_vals h hc, mkCellV_eq h (bI := σ.nBit) (rI := σ.nRef) hc]
    cases ec : mkCellRec H σ σ.nBit σ.nRef kind bs cs with
    | none => rfl
    | some c =>
      obtain ⟨e1, _, _, e4, e5, _, _⟩ := mkCellRec_some h.coh hc ec
      show OutVal.val (valOf (freshObj σ c bs cs).1 σ.nObj) = _
      rw [valOf_fresh c bs cs hc, e1, e4, e5]; rfl

theorem ref_sliceFresh {H σ} (h : Inv H σ) (bs : Bits) (cs : List Nat) (kind : Int) (hid : ∀ i ∈ cs, i < σ.nObj) :
    Refines H σ (.sliceFresh bs cs kind) := by
  refine ⟨?_, by simp [sem], fun _ => .inl rfl⟩
  simp only [step, sem]
  rw [all_isCell hid]
  cases hv : allCells σ cs with
  | false => rfl
  | true =>
    have hc := allCells_iff.mp hv
    simp only [if_true]
    rw [trees_vals h hc]
    show OutVal.val (valOf (freshObj σ _ bs cs).1 σ.nObj) = _
    rw [valOf_fresh _ bs cs hc]; rfl

theorem ref_builderNew {H σ} : Refines H σ .builderNew := by
  refine ⟨?_, by simp [sem], fun _ => .inl rfl⟩
  simp only [step, sem]
  show OutVal.val (valOf (freshObj σ _ [] []).1 σ.nObj) = _
  rw [valOf_fresh _ [] [] (by intro j hj; cases hj)]; rfl

theorem ref_derive {H σ} (h : Inv H σ) (src : Nat) (dst : Kind) (hi : src < σ.nObj) : Refines H σ (.derive src dst) := by
  refine ⟨?_, by simp [sem], fun _ => .inl rfl⟩
  simp only [step, sem]
  rw [content_valOf h hi]
  cases hv : (σ.has src .cell || σ.has src .slice || σ.has src .builder) with
  | false => rfl
  | true =>
    obtain ⟨_, hr, _⟩ := src_hasRefs hv
    have hl : CellsAt σ (σ.refsOf src) := cellsAt_refsOf h hi hr
    simp only [if_true]
    cases dst with
    | cell =>
      simp only
      rw [mkCellV_eq h (bI := σ.nBit) (rI := σ.nRef) hl]
      cases ec : mkCellRec H σ σ.nBit σ.nRef (σ.obj src).kind (σ.bitsOf src) (σ.refsOf src) with
      | none => rfl
      | some c =>
        obtain ⟨e1, _, _, e4, e5, _, _⟩ := mkCellRec_some h.coh hl ec
        show OutVal.val (valOf (freshObj σ c _ _).1 σ.nObj) = _
        rw [valOf_fresh c _ _ hl, e1, e4, e5]; rfl
    | slice =>
      simp only
      show OutVal.val (valOf (freshObj σ _ _ _).1 σ.nObj) = _
      rw [valOf_fresh _ _ _ hl]; rfl
    | builder =>
      simp only
      rw [isBuilder_valOf σ hi]
      have : (vals σ (σ.refsOf src)).length = (σ.refsOf src).length := by simp [vals]
      rw [this]
      cases hc : (σ.has src Tag.builder || (σ.obj src).kind != -1 || decide ((σ.refsOf src).length > 4) ||
          decide ((σ.bitsOf src).length > 1023)) with
      | true => rfl
      | false =>
        simp only [Bool.false_eq_true, if_false]
        show OutVal.val (valOf (freshObj σ _ _ _).1 σ.nObj) = _
        rw [valOf_fresh _ _ _ hl]; rfl

theorem not_slice_sem {σ : State} {s : Nat} (ht : (σ.obj s).tag ≠ .slice) :
    (∀ k b r, valOf σ s ≠ .slice k b r) := by
  intro k b r; unfold valOf; cases e : (σ.obj s).tag <;> simp_all

theorem not_builder_sem {σ : State} {s : Nat} (ht : (σ.obj s).tag ≠ .builder) :
    (∀ b r, valOf σ s ≠ .builder b r) := by
  intro b r; unfold valOf; cases e : (σ.obj s).tag <;> simp_all

theorem ref_dropBits {H σ} (h : Inv H σ) (s n : Nat) (ret : Bool) (hi : s < σ.nObj) : Refines H σ (.dropBits s n ret) := by
  by_cases ht : (σ.obj s).tag = .slice
  · have hb := h.wf.idB s hi (by simp [ht, Tag.hasBits])
    have hne : (σ.obj s).bitsId ≠ σ.nBit := by omega
    have hs : s ≠ σ.nObj := by omega
    have hhas : σ.has s .slice = true := has_iff.mpr ⟨hi, ht⟩
    by_cases hn : n > (σ.bitsOf s).length
    · refine ⟨?_, ?_, fun _ => .inr ?_⟩ <;> simp [step, sem, valOf_slice ht, hhas, hn, outVal]
    · have hsem : sem H (valOf σ) (.dropBits s n ret) =
          (if ret then .val (.bits ((σ.bitsOf s).take n)) else .bits ((σ.bitsOf s).take n),
            some (.slice (σ.obj s).kind ((σ.bitsOf s).drop n) (vals σ (σ.refsOf s)))) := by
        simp only [sem, valOf_slice ht]; rw [if_neg hn]
      cases ret with
      | false =>
        have hstep : step H σ (.dropBits s n false) =
            (σ.setB (σ.obj s).bitsId ((σ.bitsOf s).drop n), .bits ((σ.bitsOf s).take n)) := by
          simp only [step, hhas, if_true]; rw [if_neg hn]; rfl
        rw [Refines_iff, hstep, hsem]
        refine ⟨rfl, ?_, by simp⟩
        intro w hw; cases hw
        refine ⟨s, rfl, hi, ?_⟩
        simp [valOf, ht, State.bitsOf, State.refsOf, vals]
      | true =>
        have hstep : step H σ (.dropBits s n true) =
            (((σ.setB (σ.obj s).bitsId ((σ.bitsOf s).drop n)).allocB ((σ.bitsOf s).take n)).push
              { ObjRec.blank with tag := .ubits, bitsId := σ.nBit }, .obj σ.nObj) := by
          simp only [step, hhas, if_true]; rw [if_neg hn]; rfl
        rw [Refines_iff, hstep, hsem]
        refine ⟨?_, ?_, by simp⟩
        · simp [outVal, valOf, State.bitsOf]
        · intro w hw; cases hw
          refine ⟨s, rfl, hi, ?_⟩
          have hv : ∀ (σ2 : State) o', σ2.obj = σ.obj → σ2.nObj = σ.nObj → vals (σ2.push o')
              (List.drop (σ.obj s).off (σ.refBuf (σ.obj s).refsId)) = vals σ (List.drop (σ.obj s).off (σ.refBuf (σ.obj s).refsId)) := by
            intro σ2 o' e1 e2
            rw [vals_push (σ := σ2) o' (fun j hj => by rw [e2]; exact (cellsAt_refsOf h hi (by simp [ht, Tag.hasRefs]) j hj).1)]
            unfold vals; rw [e1]
          simp [valOf, ht, State.bitsOf, State.refsOf, hs, hne]
          apply hv <;> rfl
  · have hhas : σ.has s .slice = false := by simp [State.has, ht]
    have := not_slice_sem ht
    refine ⟨?_, ?_, fun _ => .inr ?_⟩ <;> simp only [step, sem, hhas] <;> split <;> simp_all [outVal]

theorem ref_peekBits {H σ} (s n : Nat) (hi : s < σ.nObj) : Refines H σ (.peekBits s n) := by
  refine ⟨?_, by simp [sem], fun _ => .inl rfl⟩
  by_cases ht : (σ.obj s).tag = .slice
  · have hhas : σ.has s .slice = true := has_iff.mpr ⟨hi, ht⟩
    simp only [step, sem, valOf_slice ht, hhas, if_true, outVal]
    simp [valOf, State.bitsOf]
  · have hhas : σ.has s .slice = false := by simp [State.has, ht]
    have := not_slice_sem ht
    simp only [step, sem, hhas]; split <;> simp_all [outVal]

theorem ref_loadRef {H σ} (h : Inv H σ) (s : Nat) (hi : s < σ.nObj) : Refines H σ (.loadRef s) := by
  by_cases ht : (σ.obj s).tag = .slice
  · have hhas : σ.has s .slice = true := has_iff.mpr ⟨hi, ht⟩
    have hl := cellsAt_refsOf h hi (by simp [ht, Tag.hasRefs])
    cases hr : σ.refsOf s with
    | nil =>
      have hstep : step H σ (.loadRef s) = (σ, .err) := by simp only [step, hhas, if_true, hr]
      have hsem : sem H (valOf σ) (.loadRef s) = (.err, none) := by simp only [sem, valOf_slice ht, hr, vals, List.map_nil]
      rw [Refines_iff, hstep, hsem]; exact ⟨rfl, by simp, fun _ => .inr rfl⟩
    | cons c rest =>
      have hstep : step H σ (.loadRef s) = (σ.setObj s { σ.obj s with off := (σ.obj s).off + 1 }, .obj c) := by
        simp only [step, hhas, if_true, hr]
      have hsem : sem H (valOf σ) (.loadRef s) =
          (.val (.cell (σ.obj c).val), some (.slice (σ.obj s).kind (σ.bitsOf s) (vals σ rest))) := by
        simp only [sem, valOf_slice ht, hr, vals, List.map_cons]
      have hc := hl c (by rw [hr]; simp)
      have hcs : c ≠ s := by intro e; rw [e] at hc; rw [hc.2] at ht; cases ht
      have hrest : List.drop ((σ.obj s).off + 1) (σ.refBuf (σ.obj s).refsId) = rest := by
        have : (List.drop (σ.obj s).off (σ.refBuf (σ.obj s).refsId)).tail = rest := by
          have := hr; simp only [State.refsOf] at this; rw [this]; rfl
        rw [← this, List.tail_drop]
      have f := frame_setOff σ s hi (slice_owner ht) ((σ.obj s).off + 1)
      rw [Refines_iff, hstep, hsem]
      refine ⟨?_, ?_, by simp⟩
      · simp only [outVal]
        rw [valOf_frame h f c hc.1 (by intro e; cases e; exact hcs rfl), (valOf_cell h hc.1 hc.2).1]
      · intro w hw; cases hw
        refine ⟨s, rfl, hi, ?_⟩
        have hv : ∀ o' : ObjRec, o'.val = (σ.obj s).val → vals (σ.setObj s o') rest = vals σ rest := by
          intro o' e; apply vals_congr; intro j _
          by_cases ej : j = s <;> simp [ej, e]
        simp [valOf, ht, State.bitsOf, State.refsOf, hrest]
        exact hv _ rfl
  · have hhas : σ.has s .slice = false := by simp [State.has, ht]
    have := not_slice_sem ht
    refine ⟨?_, ?_, fun _ => .inr ?_⟩ <;> simp only [step, sem, hhas] <;> split <;> simp_all [outVal]

theorem ref_storeBits {H σ} (b : Nat) (bs : Bits) (hi : b < σ.nObj) : Refines H σ (.storeBits b bs) := by
  by_cases ht : (σ.obj b).tag = .builder
  · have hhas : σ.has b .builder = true := has_iff.mpr ⟨hi, ht⟩
    by_cases hn : (σ.bitsOf b).length + bs.length > 1023
    · have hstep : step H σ (.storeBits b bs) = (σ, .err) := by simp only [step, hhas, if_true]; rw [if_pos hn]
      have hsem : sem H (valOf σ) (.storeBits b bs) = (.err, none) := by simp only [sem, valOf_builder ht]; rw [if_pos hn]
      rw [Refines_iff, hstep, hsem]; exact ⟨rfl, by simp, fun _ => .inr rfl⟩
    · have hstep : step H σ (.storeBits b bs) = (σ.setB (σ.obj b).bitsId (σ.bitsOf b ++ bs), .unit) := by
        simp only [step, hhas, if_true]; rw [if_neg hn]
      have hsem : sem H (valOf σ) (.storeBits b bs) = (.unit, some (.builder (σ.bitsOf b ++ bs) (vals σ (σ.refsOf b)))) := by
        simp only [sem, valOf_builder ht]; rw [if_neg hn]
      rw [Refines_iff, hstep, hsem]
      refine ⟨rfl, ?_, by simp⟩
      intro w hw; cases hw
      exact ⟨b, rfl, hi, by simp [valOf, ht, State.bitsOf, State.refsOf, vals]⟩
  · have hhas : σ.has b .builder = false := by simp [State.has, ht]
    have := not_builder_sem ht
    refine ⟨?_, ?_, fun _ => .inr ?_⟩ <;> simp only [step, sem, hhas] <;> split <;> simp_all [outVal]

theorem ref_storeRef {H σ} (h : Inv H σ) (b c : Nat) (hi : b < σ.nObj) (hc : c < σ.nObj) : Refines H σ (.storeRef b c) := by
  by_cases ht : (σ.obj b).tag = .builder
  · by_cases hcell : (σ.obj c).tag = .cell
    · have hhas : (σ.has b .builder && σ.has c .cell) = true := by simp [State.has, hi, hc, ht, hcell]
      have vc := (valOf_cell h hc hcell).1
      have hlen : (vals σ (σ.refsOf b)).length = (σ.refsOf b).length := by simp [vals]
      by_cases hn : (σ.refsOf b).length ≥ 4
      · have hstep : step H σ (.storeRef b c) = (σ, .err) := by simp only [step, hhas, if_true]; rw [if_pos hn]
        have hsem : sem H (valOf σ) (.storeRef b c) = (.err, none) := by
          simp only [sem, valOf_builder ht, vc, hlen]; rw [if_pos hn]
        rw [Refines_iff, hstep, hsem]; exact ⟨rfl, by simp, fun _ => .inr rfl⟩
      · have hstep : step H σ (.storeRef b c) = (σ.setR (σ.obj b).refsId (σ.refsOf b ++ [c]), .unit) := by
          simp only [step, hhas, if_true]; rw [if_neg hn]
        have hsem : sem H (valOf σ) (.storeRef b c) =
            (.unit, some (.builder (σ.bitsOf b) (vals σ (σ.refsOf b) ++ [(σ.obj c).val]))) := by
          simp only [sem, valOf_builder ht, vc, hlen]; rw [if_neg hn]
        have o := h.wf.off0 b hi (by simp [ht])
        rw [Refines_iff, hstep, hsem]
        refine ⟨rfl, ?_, by simp⟩
        intro w hw; cases hw
        exact ⟨b, rfl, hi, by simp [valOf, ht, State.bitsOf, State.refsOf, vals, o]⟩
    · have hhas : (σ.has b .builder && σ.has c .cell) = false := by simp [State.has, hcell]
      have : ∀ t, valOf σ c ≠ .cell t := by
        intro t; unfold valOf; cases e : (σ.obj c).tag <;> simp_all
      refine ⟨?_, ?_, fun _ => .inr ?_⟩ <;> simp only [step, sem, hhas, valOf_builder ht] <;> split <;> simp_all [outVal]
  · have hhas : (σ.has b .builder && σ.has c .cell) = false := by simp [State.has, ht]
    have := not_builder_sem ht
    refine ⟨?_, ?_, fun _ => .inr ?_⟩ <;> simp only [step, sem, hhas] <;> split <;> simp_all [outVal]

theorem ref_observe {H σ} (h : Inv H σ) (c : Nat) (hc : c < σ.nObj) : Refines H σ (.observe c) := by
  refine ⟨?_, by simp [sem], fun _ => .inl rfl⟩
  by_cases hcell : (σ.obj c).tag = .cell
  · have hhas : σ.has c .cell = true := has_iff.mpr ⟨hc, hcell⟩
    simp only [step, sem, hhas, if_true, (valOf_cell h hc hcell).1, h.coh.cohInfo c hc hcell, outVal]
  · have hhas : σ.has c .cell = false := by simp [State.has, hcell]
    have : ∀ t, valOf σ c ≠ .cell t := by
      intro t; unfold valOf; cases e : (σ.obj c).tag <;> simp_all
    simp only [step, sem, hhas]; split <;> simp_all [outVal]

theorem vals_append (σ : State) (l l' : List Nat) : vals σ (l ++ l') = vals σ l ++ vals σ l' := by simp [vals]
theorem vals_length (σ : State) (l : List Nat) : (vals σ l).length = l.length := by simp [vals]

theorem ref_storeFrom {H σ} (h : Inv H σ) (b src : Nat) (hi : b < σ.nObj) (hs : src < σ.nObj) : Refines H σ (.storeFrom b src) := by
  by_cases ht : (σ.obj b).tag = .builder
  · have hhas : σ.has b .builder = true := has_iff.mpr ⟨hi, ht⟩
    have o := h.wf.off0 b hi (by simp [ht])
    cases hsrc : (σ.obj src).tag with
    | ubits =>
      have h1 : σ.has src .ubits = true := has_iff.mpr ⟨hs, hsrc⟩
      by_cases hn : (σ.bitsOf b).length + (σ.bitsOf src).length > 1023
      · have hstep : step H σ (.storeFrom b src) = (σ, .err) := by simp only [step, hhas, h1, if_true]; rw [if_pos hn]
        have hsem : sem H (valOf σ) (.storeFrom b src) = (.err, none) := by
          simp only [sem, valOf_builder ht, valOf_ubits hsrc]; rw [if_pos hn]
        rw [Refines_iff, hstep, hsem]; exact ⟨rfl, by simp, fun _ => .inr rfl⟩
      · have hstep : step H σ (.storeFrom b src) = (σ.setB (σ.obj b).bitsId (σ.bitsOf b ++ σ.bitsOf src), .unit) := by
          simp only [step, hhas, h1, if_true]; rw [if_neg hn]
        have hsem : sem H (valOf σ) (.storeFrom b src) =
            (.unit, some (.builder (σ.bitsOf b ++ σ.bitsOf src) (vals σ (σ.refsOf b)))) := by
          simp only [sem, valOf_builder ht, valOf_ubits hsrc]; rw [if_neg hn]
        rw [Refines_iff, hstep, hsem]
        refine ⟨rfl, ?_, by simp⟩
        intro w hw; cases hw
        exact ⟨b, rfl, hi, by simp [valOf, ht, State.bitsOf, State.refsOf, vals]⟩
    | urefs =>
      have h1 : σ.has src .ubits = false := by simp [State.has, hsrc]
      have h2 : (σ.has src .cell || σ.has src .slice) = false := by simp [State.has, hsrc]
      have hstep : step H σ (.storeFrom b src) = (σ, .err) := by simp [step, hhas, h1, h2]
      have hu : valOf σ src = .refs (vals σ (σ.refsOf src)) := by simp [valOf, hsrc]
      have hsem : sem H (valOf σ) (.storeFrom b src) = (.err, none) := by simp only [sem, valOf_builder ht, hu]
      rw [Refines_iff, hstep, hsem]; exact ⟨rfl, by simp, fun _ => .inr rfl⟩
    | builder =>
      have h1 : σ.has src .ubits = false := by simp [State.has, hsrc]
      have h2 : (σ.has src .cell || σ.has src .slice) = false := by simp [State.has, hsrc]
      have hstep : step H σ (.storeFrom b src) = (σ, .err) := by simp [step, hhas, h1, h2]
      have hsem : sem H (valOf σ) (.storeFrom b src) = (.err, none) := by simp [sem, valOf_builder ht, valOf_builder hsrc]
      rw [Refines_iff, hstep, hsem]; exact ⟨rfl, by simp, fun _ => .inr rfl⟩
    | cell =>
      have h1 : σ.has src .ubits = false := by simp [State.has, hsrc]
      have h2 : (σ.has src .cell || σ.has src .slice) = true := by simp [State.has, hsrc, hs]
      by_cases hn1 : (σ.refsOf b).length + (σ.refsOf src).length > 4
      · have hstep : step H σ (.storeFrom b src) = (σ, .err) := by
          simp only [step, hhas, h1, h2, if_true, Bool.false_eq_true, if_false]; rw [if_pos hn1]
        have hsem : sem H (valOf σ) (.storeFrom b src) = (.err, none) := by
          simp only [sem, valOf_builder ht, valOf_cell' hsrc, vals_length]; rw [if_pos hn1]
        rw [Refines_iff, hstep, hsem]; exact ⟨rfl, by simp, fun _ => .inr rfl⟩
      · by_cases hn2 : (σ.bitsOf b).length + (σ.bitsOf src).length > 1023
        · have hstep : step H σ (.storeFrom b src) = (σ, .err) := by
            simp only [step, hhas, h1, h2, if_true, Bool.false_eq_true, if_false]; rw [if_neg hn1, if_pos hn2]
          have hsem : sem H (valOf σ) (.storeFrom b src) = (.err, none) := by
            simp only [sem, valOf_builder ht, valOf_cell' hsrc, vals_length]; rw [if_neg hn1, if_pos hn2]
          rw [Refines_iff, hstep, hsem]; exact ⟨rfl, by simp, fun _ => .inr rfl⟩
        · have hstep : step H σ (.storeFrom b src) =
              ((σ.setB (σ.obj b).bitsId (σ.bitsOf b ++ σ.bitsOf src)).setR (σ.obj b).refsId (σ.refsOf b ++ σ.refsOf src), .unit) := by
            simp only [step, hhas, h1, h2, if_true, Bool.false_eq_true, if_false]; rw [if_neg hn1, if_neg hn2]
          have hsem : sem H (valOf σ) (.storeFrom b src) =
              (.unit, some (.builder (σ.bitsOf b ++ σ.bitsOf src) (vals σ (σ.refsOf b) ++ vals σ (σ.refsOf src)))) := by
            simp only [sem, valOf_builder ht, valOf_cell' hsrc, vals_length]; rw [if_neg hn1, if_neg hn2]
          rw [Refines_iff, hstep, hsem]
          refine ⟨rfl, ?_, by simp⟩
          intro w hw; cases hw
          exact ⟨b, rfl, hi, by simp [valOf, ht, State.bitsOf, State.refsOf, vals, o]⟩
    | slice =>
      have h1 : σ.has src .ubits = false := by simp [State.has, hsrc]
      have h2 : (σ.has src .cell || σ.has src .slice) = true := by simp [State.has, hsrc, hs]
      by_cases hn1 : (σ.refsOf b).length + (σ.refsOf src).length > 4
      · have hstep : step H σ (.storeFrom b src) = (σ, .err) := by
          simp only [step, hhas, h1, h2, if_true, Bool.false_eq_true, if_false]; rw [if_pos hn1]
        have hsem : sem H (valOf σ) (.storeFrom b src) = (.err, none) := by
          simp only [sem, valOf_builder ht, valOf_slice hsrc, vals_length]; rw [if_pos hn1]
        rw [Refines_iff, hstep, hsem]; exact ⟨rfl, by simp, fun _ => .inr rfl⟩
      · by_cases hn2 : (σ.bitsOf b).length + (σ.bitsOf src).length > 1023
        · have hstep : step H σ (.storeFrom b src) = (σ, .err) := by
            simp only [step, hhas, h1, h2, if_true, Bool.false_eq_true, if_false]; rw [if_neg hn1, if_pos hn2]
          have hsem : sem H (valOf σ) (.storeFrom b src) = (.err, none) := by
            simp only [sem, valOf_builder ht, valOf_slice hsrc, vals_length]; rw [if_neg hn1, if_pos hn2]
          rw [Refines_iff, hstep, hsem]; exact ⟨rfl, by simp, fun _ => .inr rfl⟩
        · have hstep : step H σ (.storeFrom b src) =
              ((σ.setB (σ.obj b).bitsId (σ.bitsOf b ++ σ.bitsOf src)).setR (σ.obj b).refsId (σ.refsOf b ++ σ.refsOf src), .unit) := by
            simp only [step, hhas, h1, h2, if_true, Bool.false_eq_true, if_false]; rw [if_neg hn1, if_neg hn2]
          have hsem : sem H (valOf σ) (.storeFrom b src) =
              (.unit, some (.builder (σ.bitsOf b ++ σ.bitsOf src) (vals σ (σ.refsOf b) ++ vals σ (σ.refsOf src)))) := by
            simp only [sem, valOf_builder ht, valOf_slice hsrc, vals_length]; rw [if_neg hn1, if_neg hn2]
          rw [Refines_iff, hstep, hsem]
          refine ⟨rfl, ?_, by simp⟩
          intro w hw; cases hw
          exact ⟨b, rfl, hi, by simp [valOf, ht, State.bitsOf, State.refsOf, vals, o]⟩
  · have hhas : σ.has b .builder = false := by simp [State.has, ht]
    have := not_builder_sem ht
    refine ⟨?_, ?_, fun _ => .inr ?_⟩ <;> simp only [step, sem, hhas] <;> split <;> simp_all [outVal]

/-- REFINEMENT: every transition computes `sem` on the VALUES of its arguments -/
theorem step_sem {H σ} (h : Inv H σ) (op : Op) (hid : ∀ i ∈ opIds op, i < σ.nObj) : Refines H σ op := by
  cases op with
  | newBits bs => exact ref_newBits bs
  | newRefs cs => exact ref_newRefs h cs hid
  | cellCtor ub ur kind => exact ref_cellCtor h ub ur kind (hid ub (by simp [opIds])) (hid ur (by simp [opIds]))
  | cellFresh bs cs kind => exact ref_cellFresh h bs cs kind hid
  | sliceFresh bs cs kind => exact ref_sliceFresh h bs cs kind hid
  | builderNew => exact ref_builderNew
  | derive src dst => exact ref_derive h src dst (hid src (by simp [opIds]))
  | dropBits s n ret => exact ref_dropBits h s n ret (hid s (by simp [opIds]))
  | peekBits s n => exact ref_peekBits s n (hid s (by simp [opIds]))
  | loadRef s => exact ref_loadRef h s (hid s (by simp [opIds]))
  | storeBits b bs => exact ref_storeBits b bs (hid b (by simp [opIds]))
  | storeFrom b src => exact ref_storeFrom h b src (hid b (by simp [opIds])) (hid src (by simp [opIds]))
  | storeRef b c => exact ref_storeRef h b c (hid b (by simp [opIds])) (hid c (by simp [opIds]))
  | observe c => exact ref_observe h c (hid c (by simp [opIds]))

/-- ISOLATION at the level of one transition: no object other than the call's `self` changes value, and `self`
changes only when `sem` says so -/
theorem step_isolated {H σ} (h : Inv H σ) (op : Op) (hid : ∀ i ∈ opIds op, i < σ.nObj) (i : Nat) (hi : i < σ.nObj)
    (hne : recvOf op = some i → (sem H (valOf σ) op).2 = none) : valOf (step H σ op).1 i = valOf σ i := by
  by_cases e : recvOf op = some i
  · rcases (step_sem h op hid).same (hne e) with e' | e'
    · rw [e'] at e; cases e
    · rw [e']
  · exact valOf_frame h (frame_step H σ op) i hi e

theorem opIds_rename (ρ : Nat → Nat) (op : Op) : opIds (renameOp ρ op) = (opIds op).map ρ := by
  cases op <;> simp [opIds, renameOp]

theorem recvOf_rename (ρ : Nat → Nat) (op : Op) : recvOf (renameOp ρ op) = (recvOf op).map ρ := by
  cases op <;> simp [recvOf, renameOp]

theorem recv_mem_opIds {op : Op} {r : Nat} (h : recvOf op = some r) : r ∈ opIds op := by
  cases op <;> simp [recvOf, opIds] at h ⊢ <;> simp [h]

/-- two (possibly different) states, the same call on arguments with equal VALUES: equal result value, equal new
value of `self` -/
theorem hist_indep {H σ1 σ2} (i1 : Inv H σ1) (i2 : Inv H σ2) (op : Op) (ρ : Nat → Nat)
    (hid1 : ∀ i ∈ opIds op, i < σ1.nObj) (hid2 : ∀ i ∈ opIds op, ρ i < σ2.nObj)
    (hv : ∀ i ∈ opIds op, valOf σ1 i = valOf σ2 (ρ i)) :
    outVal (step H σ1 op).1 (step H σ1 op).2 = outVal (step H σ2 (renameOp ρ op)).1 (step H σ2 (renameOp ρ op)).2 ∧
    ∀ r, recvOf op = some r → valOf (step H σ1 op).1 r = valOf (step H σ2 (renameOp ρ op)).1 (ρ r) := by
  have hid2' : ∀ i ∈ opIds (renameOp ρ op), i < σ2.nObj := by
    rw [opIds_rename]; intro i hi
    obtain ⟨j, hj, rfl⟩ := List.mem_map.mp hi
    exact hid2 j hj
  have r1 := step_sem i1 op hid1
  have r2 := step_sem i2 (renameOp ρ op) hid2'
  have es : sem H (valOf σ2) (renameOp ρ op) = sem H (valOf σ1) op := by
    rw [sem_rename]; exact (sem_congr H _ _ op hv).symm
  refine ⟨by rw [r1.out, r2.out, es], ?_⟩
  intro r hr
  have hr2 : recvOf (renameOp ρ op) = some (ρ r) := by rw [recvOf_rename, hr]; rfl
  have hmem := recv_mem_opIds hr
  cases hw : (sem H (valOf σ1) op).2 with
  | some w =>
    obtain ⟨r', e1, _, v1⟩ := r1.recv w hw
    obtain ⟨r'', e2, _, v2⟩ := r2.recv w (by rw [es]; exact hw)
    rw [hr] at e1; cases e1
    rw [hr2] at e2; cases e2
    rw [v1, v2]
  | none =>
    rw [step_isolated i1 op hid1 r (hid1 r hmem) (fun _ => hw),
      step_isolated i2 (renameOp ρ op) hid2' (ρ r) (hid2 r hmem) (fun _ => by rw [es]; exact hw)]
    exact hv r hmem

/-- objects that are not Slices/Builders (cells, caller-held arrays and lists) never change value -/
theorem nonowner_step {H σ} (h : Inv H σ) (op : Op) (i : Nat) (hi : i < σ.nObj) (hno : (σ.obj i).tag.owner = false) :
    valOf (step H σ op).1 i = valOf σ i ∧ (step H σ op).1.obj i = σ.obj i := by
  have f := frame_step H σ op
  rcases f.owner with e | ho
  · rw [e]; exact ⟨rfl, rfl⟩
  · have hne : recvOf op ≠ some i := by
      intro e'; have := (ho i e').2; rw [hno] at this; cases this
    exact ⟨valOf_frame h f i hi hne, f.obj i hi hne⟩

theorem nonowner_run {H σ} (h : Inv H σ) (ops : List Op) (i : Nat) (hi : i < σ.nObj) (hno : (σ.obj i).tag.owner = false) :
    valOf (run H σ ops) i = valOf σ i := by
  induction ops generalizing σ with
  | nil => rfl
  | cons op ops ih =>
    obtain ⟨a, b⟩ := nonowner_step h op i hi hno
    have hi' : i < (step H σ op).1.nObj := Nat.lt_of_lt_of_le hi (frame_step H σ op).nObj
    simp only [run]
    rw [ih (inv_step h op) hi' (by rw [b]; exact hno), a]

end TonVerif.Proofs.Heap
