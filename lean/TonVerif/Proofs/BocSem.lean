/-
Semantic layer of the strict reader (Spec/Boc.lean `evalRecs`, `noDup`, rebuilt trees) on the records `to_boc` emits.
This file: definitions shared by the two halves of the proof.
  * Proofs/BocSemTree.lean  — the facts `SemOK` about every cell built from a well-formed, typed tree (uses C02's `tree_agrees`)
  * Proofs/BocSemEval.lean  — `evalRecs` / `noDup` / roots over a valid order of `SemOK` cells
-/
import TonVerif.Proofs.BocConform

namespace TonVerif.Proofs.BocSem
open TonVerif TonVerif.Model TonVerif.Spec.Boc TonVerif.Proofs.BocOrder TonVerif.Proofs.BocEmit

/-- spec kind of a kind code (`ordinary` for unknown codes; only used on known codes) -/
def kindD (k : Int) : Spec.Kind := (CellSpec.kindOf k).getD .ordinary

mutual
  /-- spec values (Spec/Cell.lean) of a constructed cell, computed from its kind, data and children -/
  def sinfoOf (H : Bytes → Bytes) : PCell → Spec.SInfo
    | .mk i refs => Spec.node H (kindD i.kind) i.bits (sinfosOf H refs)
  def sinfosOf (H : Bytes → Bytes) : List PCell → List Spec.SInfo
    | [] => []
    | c :: cs => sinfoOf H c :: sinfosOf H cs
end

mutual
  /-- the cell the strict reader should denote for a constructed cell -/
  def scellOf : PCell → SCell
    | .mk i refs => SCell.mk (i.kind != kOrdinary) i.bits (scellsOf refs)
  def scellsOf : List PCell → List SCell
    | [] => []
    | c :: cs => scellOf c :: scellsOf cs
end

mutual
  /-- the cell the strict reader should denote for a tree of cells: exotic flag, data bits, children -/
  def toSCell : Cell → SCell
    | .mk kind bits refs => SCell.mk (kind != kOrdinary) bits (toSCells refs)
  def toSCells : List Cell → List SCell
    | [] => []
    | c :: cs => toSCell c :: toSCells cs
end

mutual
  /-- an exotic cell's data starts with its type byte (the wire format has no other place for the type) -/
  def Typed : Cell → Prop
    | .mk kind bits refs =>
      (kind ≠ kOrdinary → 8 ≤ bits.length ∧ (natOfBits (bits.take 8) : Int) = kind) ∧ TypedL refs
  def TypedL : List Cell → Prop
    | [] => True
    | c :: cs => Typed c ∧ TypedL cs
end

/-- a spec info that does not change above level 4 (true of every cell with level mask ≤ 7) -/
def Stable (s : Spec.SInfo) : Prop := ∀ l, s.hashAt l = s.hashAt (min l 4) ∧ s.depthAt l = s.depthAt (min l 4)

/-- what the semantic layer needs to know about one constructed cell -/
structure SemOK (H : Bytes → Bytes) (c : PCell) : Prop where
  /-- the kind code is one of -1, 1, 2, 3, 4 -/
  kind_ok : ∃ k, CellSpec.kindOf c.info.kind = some k
  /-- exotic: the first data byte is the type -/
  typed : c.info.kind ≠ kOrdinary → 8 ≤ c.info.bits.length ∧ (natOfBits (c.info.bits.take 8) : Int) = c.info.kind
  /-- the level mask cached by the constructor is the spec's -/
  mask_eq : c.info.mask = (sinfoOf H c).mask
  mask_le : (sinfoOf H c).mask ≤ 7
  /-- the dict key of the cell is the number of the spec's representation hash -/
  key_eq : c.key = natOfBE ((sinfoOf H c).hashAt 3)
  stable : Stable (sinfoOf H c)

end TonVerif.Proofs.BocSem
