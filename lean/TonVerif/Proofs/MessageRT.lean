/- C15 helper lemmas, part 2: the spec decoder inverts the spec encoder (for both `Either` choices) -/
import TonVerif.Proofs.Message

namespace TonVerif.Proofs.Message
open TonVerif TonVerif.Model TonVerif.Spec.Tlb
open TonVerif.Proofs.MsgBits

variable {R : Type} {α β : Type}

/-- decoding the encoding `e` (followed by anything) yields `a` and leaves what followed -/
def RT (e : Enc R) (p : Dec R α) (a : α) : Prop :=
  ∀ c, e = some c → ∀ (tb : Bits) (tr : List R), p (c.1 ++ tb, c.2 ++ tr) = some (a, (tb, tr))

/-- the same for the last piece of a cell -/
def RTend (e : Enc R) (p : Dec R α) (a : α) : Prop :=
  ∀ c, e = some c → p c = some (a, ([], []))

theorem dec_bind_eq (p : Dec R α) (f : α → Dec R β) : (p >>= f) = Dec.bind p f := rfl
theorem dec_pure_eq (a : α) : (pure a : Dec R α) = Dec.pure a := rfl

theorem RT.bind {e1 e2 : Enc R} {p : Dec R α} {f : α → Dec R β} {a : α} {b : β}
    (h1 : RT e1 p a) (h2 : RT e2 (f a) b) : RT (e1 +++ e2) (p >>= f) b := by
  intro c hc tb tr
  obtain ⟨x, y, rfl, rfl, rfl⟩ := Enc.cat_some hc
  have := h1 x rfl (y.1 ++ tb) (y.2 ++ tr)
  simp only [dec_bind_eq, Dec.bind, List.append_assoc, this]
  exact h2 y rfl tb tr

theorem RT.bind_end {e1 e2 : Enc R} {p : Dec R α} {f : α → Dec R β} {a : α} {b : β}
    (h1 : RT e1 p a) (h2 : RTend e2 (f a) b) : RTend (e1 +++ e2) (p >>= f) b := by
  intro c hc
  obtain ⟨x, y, rfl, rfl, rfl⟩ := Enc.cat_some hc
  have := h1 x rfl y.1 y.2
  simp only [dec_bind_eq, Dec.bind, this]
  exact h2 y rfl

theorem RT.ret (a : α) : RT (eNil : Enc R) (pure a) a := by
  intro c hc tb tr; cases hc; simp [dec_pure_eq, Dec.pure]

theorem RT.map {e : Enc R} {p : Dec R α} {a : α} (g : α → β) (h : RT e p a) :
    RT e (p >>= fun x => pure (g x)) (g a) := by
  have := RT.bind (f := fun x => pure (g x)) h (RT.ret (R := R) (g a))
  rwa [Enc.cat_eNil] at this

theorem RT.toEnd {e : Enc R} {p : Dec R α} {a : α} (h : RT e p a) : RTend e p a := by
  intro c hc; have := h c hc [] []; simpa using this

theorem RT.congr {e e' : Enc R} {p : Dec R α} {a : α} (h : RT e p a) (he : e = e') : RT e' p a := he ▸ h

/-! primitives -/

theorem rt_bool (x : Bool) : RT (eBool x : Enc R) dBool x := by
  intro c hc tb tr; cases hc; simp [dBool]

theorem rt_ref (r : R) : RT (eRef r) dRef r := by
  intro c hc tb tr; cases hc; simp [dRef]

theorem dBits_append (xs tb : Bits) (tr : List R) : dBits xs.length (xs ++ tb, tr) = some (xs, (tb, tr)) := by
  simp [dBits]

theorem rt_bits (xs : Bits) : RT (eBits xs : Enc R) (dBits xs.length) xs := by
  intro c hc tb tr; cases hc; simp [dBits]

theorem rt_uint (n : Nat) (v : Int) : RT (eUint n v : Enc R) (dUint n) v := by
  intro c hc tb tr
  unfold eUint at hc
  split at hc
  · rename_i h
    cases hc
    have hl := natToBits_length n v.toNat
    have hd := dBits_append (R := R) (natToBits n v.toNat) tb tr
    rw [hl] at hd
    have hv : v.toNat < 2 ^ n := by
      have : ((v.toNat : Nat) : Int) < ((2 ^ n : Nat) : Int) := by
        rw [Int.toNat_of_nonneg h.1]; simpa using h.2
      exact_mod_cast this
    simp only [dUint, dec_bind_eq, Dec.bind, List.append_nil, List.nil_append, hd, dec_pure_eq, Dec.pure,
      natOfBits_natToBits n v.toNat hv, Int.toNat_of_nonneg h.1]
  · simp at hc

theorem rt_int (n : Nat) (v : Int) : RT (eInt n v : Enc R) (dInt n) v := by
  intro c hc tb tr
  unfold eInt at hc
  split at hc
  · rename_i h
    obtain ⟨h1, h2, h3⟩ := h
    cases hc
    obtain ⟨k, rfl⟩ : ∃ k, n = k + 1 := ⟨n - 1, by omega⟩
    simp only [Nat.add_sub_cancel] at h1 h2
    have hp : ((2 : Int) ^ (k + 1)) = 2 * 2 ^ k := by rw [Int.pow_succ]; omega
    have hpn : (2 ^ (k + 1) : Nat) = 2 * 2 ^ k := by rw [Nat.pow_succ]; omega
    have hcast : ((2 ^ k : Nat) : Int) = (2 : Int) ^ k := by simp
    generalize hx : (if 0 ≤ v then v.toNat else (v + 2 ^ (k + 1)).toNat) = x
    have hxlt : x < 2 ^ (k + 1) := by
      have : (x : Int) < ((2 ^ (k + 1) : Nat) : Int) := by
        have hcast1 : ((2 ^ (k + 1) : Nat) : Int) = (2 : Int) ^ (k + 1) := by simp
        rw [← hx, hcast1, hp]; split
        · rw [Int.toNat_of_nonneg (by omega)]; omega
        · rw [Int.toNat_of_nonneg (by omega)]; omega
      exact_mod_cast this
    obtain ⟨tl, htl⟩ := natToBits_head k x hxlt
    have hl := natToBits_length (k + 1) x
    have hd := dBits_append (R := R) (natToBits (k + 1) x) tb tr
    rw [hl] at hd
    have hnat := natOfBits_natToBits (k + 1) x hxlt
    simp only [dInt, dec_bind_eq, Dec.bind, List.append_nil, List.nil_append, hd]
    rw [htl] at hnat ⊢
    simp only [dec_pure_eq, Dec.pure, hnat]
    congr 2
    by_cases hv : 0 ≤ v
    · have hxv : (x : Int) = v := by rw [← hx]; simp only [hv, if_true]; exact Int.toNat_of_nonneg hv
      have : ¬ (2 ^ k ≤ x) := by
        intro hh
        have : ((2 ^ k : Nat) : Int) ≤ (x : Int) := by exact_mod_cast hh
        rw [hcast, hxv] at this; omega
      simp [this, hxv]
    · have hxv : (x : Int) = v + 2 ^ (k + 1) := by
        rw [← hx]; simp only [hv, if_false]; exact Int.toNat_of_nonneg (by omega)
      have : (2 ^ k ≤ x) := by
        have : ((2 ^ k : Nat) : Int) ≤ (x : Int) := by rw [hcast, hxv]; omega
        exact_mod_cast this
      simp only [this, decide_true, if_true, hxv]; omega
  · simp at hc

theorem rt_maybe_none (p : Dec R α) : RT (eBool false : Enc R) (dMaybe p) none := by
  intro c hc tb tr; cases hc
  simp [dMaybe, dec_bind_eq, Dec.bind, dBool, dec_pure_eq, Dec.pure]

theorem rt_maybe_some {e : Enc R} {p : Dec R α} {a : α} (h : RT e p a) : RT (eBool true +++ e) (dMaybe p) (some a) := by
  unfold dMaybe
  refine RT.bind (rt_bool true) ?_
  simp only [if_true]
  exact RT.map some h

theorem rt_maybeRef (o : Option R) : RT (eMaybeRef o) (dMaybe dRef) o := by
  cases o with
  | none => exact rt_maybe_none _
  | some r => exact rt_maybe_some (rt_ref r)

theorem rt_varuint (k : Nat) (v : Int) : RT (eVarUint k v : Enc R) (dVarUint k) v := by
  unfold eVarUint dVarUint
  split
  · refine RT.bind (rt_uint k _) ?_
    simp only [Int.toNat_natCast]
    exact rt_uint _ v
  · intro c hc; simp at hc

theorem rt_grams (v : Int) : RT (eGrams v : Enc R) dGrams v := rt_varuint 4 v

theorem eBits2 (x y : Bool) : (eBits [x, y] : Enc R) = eBool x +++ eBool y := by simp [eBits, eBool, Enc.cat]

theorem rt_uint0 : RT (eNil : Enc R) (dUint 0) 0 := by
  intro c hc tb tr; cases hc
  simp [dUint, dec_bind_eq, Dec.bind, dBits, dec_pure_eq, Dec.pure, natOfBits]

theorem rt_addr (a : Addr) (hwf : AddrWF a) : RT (eAddr a : Enc R) dAddr a := by
  cases a with
  | none =>
    simp only [eAddr]; unfold dAddr; rw [eBits2]
    refine RT.bind (rt_bool false) ?_
    intro c hc tb tr; cases hc
    simp [dec_bind_eq, Dec.bind, dBool, dec_pure_eq, Dec.pure]
  | ext len val =>
    simp only [eAddr]; unfold dAddr; rw [eBits2, Enc.cat_assoc]
    refine RT.bind (rt_bool false) (RT.bind (rt_bool true) ?_)
    simp only [Bool.not_false, Bool.not_true, if_true, Bool.false_eq_true, if_false]
    refine RT.bind (rt_uint 9 len) ?_
    simp only [Int.toNat_natCast]
    by_cases h0 : len = 0
    · have hv : val = 0 := hwf h0
      subst h0; subst hv
      simp only [if_true]
      exact RT.map (fun v => Addr.ext 0 v) rt_uint0
    · simp only [h0, if_false]
      exact RT.map (fun v => Addr.ext len v) (rt_uint len val)
  | std anycast wc hash =>
    simp only [eAddr]; unfold dAddr; rw [eBits2, Enc.cat_assoc]
    refine RT.bind (rt_bool true) (RT.bind (rt_bool false) ?_)
    simp only [Bool.not_false, Bool.not_true, if_true, Bool.false_eq_true, if_false]
    refine RT.bind (a := anycast) ?_ (RT.bind (rt_int 8 wc) ?_)
    · cases anycast with
      | none => exact rt_maybe_none _
      | some dp =>
        rcases dp with ⟨d, p⟩
        simp only
        split
        · rename_i hd
          refine rt_maybe_some ?_
          unfold dAnycast
          refine RT.bind (rt_uint 5 d) ?_
          have : ¬ ((d : Int) < 1 ∨ (d : Int) > 30) := by omega
          simp only [this, if_false, Int.toNat_natCast]
          exact RT.map (fun p => (d, p)) (rt_uint d p)
        · intro c hc; simp at hc
    · split
      · rename_i hh
        have h256 : (bytesToBits hash).length = 256 := by rw [bytesToBits_length, hh.1]
        have := RT.map (R := R) (fun h => Addr.std anycast wc (bitsToBytes h)) (rt_bits (R := R) (bytesToBits hash))
        rw [h256, bitsToBytes_bytesToBits hash hh.2] at this
        exact this
      · intro c hc; simp at hc

theorem rt_currency (c : Currency R) : RT (encCurrency c) dCurrency c := by
  unfold encCurrency dCurrency
  refine RT.bind (rt_grams _) ?_
  exact RT.map (fun o => (⟨c.grams, o⟩ : Currency R)) (rt_maybeRef c.other)

theorem rt_tickTock (t : TickTock) : RT (encTickTock t : Enc R) dTickTock t := by
  unfold encTickTock dTickTock
  refine RT.bind (rt_bool _) ?_
  exact RT.map (fun b => (⟨t.tick, b⟩ : TickTock)) (rt_bool t.tock)

theorem rt_stateInit (s : StateInit R) : RT (encStateInit s) dStateInit s := by
  unfold encStateInit dStateInit
  refine RT.bind (a := s.splitDepth) ?_ (RT.bind (a := s.special) ?_ (RT.bind (rt_maybeRef s.code) (RT.bind (rt_maybeRef s.data) ?_)))
  · cases s.splitDepth with
    | none => exact rt_maybe_none _
    | some d => exact rt_maybe_some (rt_uint 5 d)
  · cases s.special with
    | none => exact rt_maybe_none _
    | some t => exact rt_maybe_some (rt_tickTock t)
  · exact RT.map (fun l => (⟨s.splitDepth, s.special, s.code, s.data, l⟩ : StateInit R)) (rt_maybeRef s.library)

theorem rt_info (i : Info R) (hwf : i.WF) : RT (encInfo i) dInfo i := by
  cases i with
  | int a b c src dest value ihr fwd lt at_ =>
    simp only [encInfo]; unfold dInfo
    refine RT.bind (rt_bool false) ?_
    simp only [Bool.not_false, if_true]
    refine RT.bind (rt_bool a) <| RT.bind (rt_bool b) <| RT.bind (rt_bool c) <| RT.bind (rt_addr src hwf.1) <|
      RT.bind (rt_addr dest hwf.2) <| RT.bind (rt_currency value) <| RT.bind (rt_grams ihr) <| RT.bind (rt_grams fwd) <|
      RT.bind (rt_uint 64 lt) ?_
    exact RT.map (fun x => Info.int a b c src dest value ihr fwd lt x) (rt_uint 32 at_)
  | extIn src dest fee =>
    simp only [encInfo]; unfold dInfo; rw [eBits2, Enc.cat_assoc]
    refine RT.bind (rt_bool true) ?_
    simp only [Bool.not_true, Bool.false_eq_true, if_false]
    refine RT.bind (rt_bool false) ?_
    simp only [Bool.not_false, if_true]
    refine RT.bind (rt_addr src hwf.1) (RT.bind (rt_addr dest hwf.2) ?_)
    exact RT.map (fun x => Info.extIn src dest x) (rt_grams fee)
  | extOut src dest lt at_ =>
    simp only [encInfo]; unfold dInfo; rw [eBits2, Enc.cat_assoc]
    refine RT.bind (rt_bool true) ?_
    simp only [Bool.not_true, Bool.false_eq_true, if_false]
    refine RT.bind (rt_bool true) ?_
    simp only [Bool.not_true, Bool.false_eq_true, if_false]
    refine RT.bind (rt_addr src hwf.1) (RT.bind (rt_addr dest hwf.2) (RT.bind (rt_uint 64 lt) ?_))
    exact RT.map (fun x => Info.extOut src dest lt x) (rt_uint 32 at_)

/-! the message -/

theorem mkChunk_some {ops : CellOps R} (hl : ops.Lawful) {ch : Chunk R} {c : R} (h : mkChunk ops ch = some c) :
    ops.view c = ch := by
  unfold mkChunk at h
  split at h
  · exact hl _ _ _ h
  · simp at h

theorem rt_init (ops : CellOps R) (hl : ops.Lawful) (init : Option (StateInit R)) (byRef : Bool) :
    RT (encInit ops init byRef) (dInit ops) init := by
  unfold dInit
  cases init with
  | none => exact rt_maybe_none _
  | some s =>
    simp only [encInit]
    cases byRef with
    | false =>
      simp only [Bool.false_eq_true, if_false]
      rw [eBits2, Enc.cat_assoc]
      refine rt_maybe_some (RT.bind (rt_bool false) ?_)
      simp only [Bool.false_eq_true, if_false]
      exact rt_stateInit s
    | true =>
      simp only [if_true]
      rcases hsc : (encStateInit s).bind (mkChunk ops) with _ | c
      · intro c hc; simp at hc
      · simp only
        rw [eBits2, Enc.cat_assoc]
        refine rt_maybe_some (RT.bind (rt_bool true) ?_)
        simp only [if_true]
        obtain ⟨sc, hsc1, hsc2⟩ := Option.bind_eq_some_iff.mp hsc
        have hv := mkChunk_some hl hsc2
        have hdec : decodeWhole dStateInit (ops.view c) = some s := by
          have := (rt_stateInit s).toEnd sc hsc1
          simp [decodeWhole, hv, this]
        have := RT.bind (rt_ref c) (f := fun r => (fun ch => (decodeWhole dStateInit (ops.view r)).map (fun s => (s, ch)) : Dec R (StateInit R)))
          (e2 := eNil) (b := s) (by
            intro ch hch tb tr; cases hch; simp [hdec])
        rwa [Enc.cat_eNil] at this

theorem rt_body (ops : CellOps R) (hl : ops.Lawful) (info : Info R) (init : Option (StateInit R)) (body : Chunk R) (byRef : Bool) :
    RTend (encBody ops body byRef)
      (do
        let e ← dBool
        if e then do
          let r ← dRef
          pure ⟨info, init, ops.view r⟩
        else fun c => some (⟨info, init, c⟩, ([], []))) (⟨info, init, body⟩ : Msg R) := by
  intro ch hch
  unfold encBody at hch
  cases byRef with
  | false =>
    simp only [Bool.false_eq_true, if_false] at hch
    simp [eBool, Enc.cat] at hch
    subst hch
    simp [dec_bind_eq, Dec.bind, dBool]
  | true =>
    simp only [if_true] at hch
    rcases hm : mkChunk ops body with _ | c
    · simp [hm] at hch
    · simp [hm, eBool, eRef, Enc.cat] at hch
      subst hch
      have hv := mkChunk_some hl hm
      simp [dec_bind_eq, Dec.bind, dBool, dRef, dec_pure_eq, Dec.pure, hv]

/-- **spec round trip**: every encoding of a message (both `Either` choices free) decodes to that message -/
theorem spec_roundtrip (ops : CellOps R) (hl : ops.Lawful) (m : Msg R) (hwf : m.info.WF) (initRef bodyRef : Bool) {c : R}
    (h : encMessage ops m initRef bodyRef = some c) : decodeMessage ops c = some m := by
  obtain ⟨ch, hch, hmk⟩ := Option.bind_eq_some_iff.mp h
  have hv := mkChunk_some hl hmk
  have hrt : RTend (encMessageChunk ops m initRef bodyRef) (dMessage ops) m := by
    unfold encMessageChunk dMessage
    refine RT.bind_end (rt_info m.info hwf) (RT.bind_end (rt_init ops hl m.init initRef) ?_)
    exact rt_body ops hl m.info m.init m.body bodyRef
  have := hrt ch hch
  simp [decodeMessage, decodeWhole, hv, this]

end TonVerif.Proofs.Message
