/-
The value-level entry points and conversions regenerated from cell.py / slice.py / builder.py on every run
(`Generated/EntrySrc.lean`, harness/translate/entrysrc.py + pyvalue.py) equal the hand model Model/BocEntry.lean, for ALL inputs,
through the views `cellView` (a cell object ↦ the tree it unfolds to + its cached info), `sliceView`, `builderView`.

Generation independent: `mapM_map`, `rebuildFrom_map`, `deserialize_map` (the parser is natural in the cell constructor),
`rebuildFrom_inv`, `deserialize_inv` (an invariant of the constructor holds of every parsed cell), `newCell_*`, `Built`.
Generation dependent (unfold the regenerated definitions): the `*_eq` theorems at the end.
-/
import TonVerif.PyEntry
import TonVerif.Generated.EntrySrc
import TonVerif.Model.BocEntry
import TonVerif.Proofs.SrcCellCtor
import TonVerif.Proofs.SrcBuilder
import TonVerif.Proofs.SrcBocDeser
import TonVerif.Proofs.SrcBocEmit
import TonVerif.Proofs.BocRoundTrip

namespace TonVerif.Proofs.SrcEntry
open TonVerif TonVerif.Model TonVerif.Model.BocParse TonVerif.Model.BocEntry TonVerif.Generated.EntrySrc
open TonVerif.Proofs.BocRoundTrip TonVerif.Proofs.BocEmit

set_option linter.unusedSimpArgs false

/-! ### views -/

/-- a cell object read as the parser model's value: the tree it unfolds to and its cached info -/
def cellView (p : PCell) : CellV := (treeOf p, p.info)

/-- a slice object read as the model's slice: the remaining bits and the trees of the REMAINING references -/
def sliceView (s : Py.SliceObj PCell) : Slice Cell := ⟨s.bits, (s.refs.drop s.ref_offset).map treeOf⟩

/-- a builder object read as the model's builder -/
def builderView (b : Py.BuilderObj PCell) : Builder Cell := ⟨b.bits, b.refs.map treeOf⟩

/-! ### the parser is natural in the cell constructor -/

theorem mapM_map {α β γ : Type} (f : β → γ) (g : α → Option β) : ∀ xs : List α,
    (xs.mapM g).map (List.map f) = xs.mapM (fun x => (g x).map f)
  | [] => by simp
  | x :: xs => by
    simp only [List.mapM_cons, Option.pure_def, Option.bind_eq_bind]
    rw [← mapM_map f g xs]
    cases g x <;> cases xs.mapM g <;> simp

theorem rebuildFrom_map {S R : Type} (f : S → R) (mkS : Bits → List S → Int → Option S) (mkR : Bits → List R → Int → Option R)
    (hom : ∀ bits refs ty, (mkS bits refs ty).map f = mkR bits (refs.map f) ty) :
    ∀ (recs : List RawCell) (ci : Nat), (rebuildFrom mkS recs ci).map (List.map f) = rebuildFrom mkR recs ci
  | [], _ => by simp [rebuildFrom]
  | c :: cs, ci => by
    rw [rebuildFrom, rebuildFrom, ← rebuildFrom_map f mkS mkR hom cs (ci + 1)]
    cases rebuildFrom mkS cs (ci + 1) with
    | none => simp
    | some later =>
      simp only [Option.bind_some, Option.map_some]
      have hg : (c.refs.mapM fun r => if r < ci then none else if r = ci then none else (later.map f)[r - ci - 1]?) =
          (c.refs.mapM fun r => if r < ci then none else if r = ci then none else later[r - ci - 1]?).map (List.map f) := by
        rw [mapM_map]
        congr 1
        funext r
        by_cases h1 : r < ci <;> by_cases h2 : r = ci <;> simp [h1, h2]
      rw [hg]
      cases c.refs.mapM fun r => if r < ci then none else if r = ci then none else later[r - ci - 1]? with
      | none => simp
      | some refs =>
        simp only [Option.bind_some, Option.map_some]
        rw [← hom]
        cases mkS c.bits refs c.type <;> simp

theorem deserialize_map {S R : Type} (f : S → R) (mkS : Bits → List S → Int → Option S) (mkR : Bits → List R → Int → Option R)
    (hom : ∀ bits refs ty, (mkS bits refs ty).map f = mkR bits (refs.map f) ty) (data : Bytes) :
    (BocParse.deserialize mkS data).map (List.map f) = BocParse.deserialize mkR data := by
  unfold BocParse.deserialize
  cases deserializeBocHeader data with
  | none => rfl
  | some h =>
    simp only [Option.bind_some]
    cases readCells h.cellsNum h.cellsData h.fl.sizeBytes with
    | none => rfl
    | some recs =>
      simp only [Option.bind_some]
      rw [← rebuildFrom_map f mkS mkR hom recs 0]
      cases rebuildFrom mkS recs 0 with
      | none => rfl
      | some all =>
        simp only [Option.bind_some, Option.map_some]
        rw [mapM_map]
        congr 1
        funext ri
        simp

theorem mapM_mem {α β : Type} (g : α → Option β) (P : β → Prop) : ∀ (xs : List α) (ys : List β),
    (∀ x y, g x = some y → P y) → xs.mapM g = some ys → ∀ y ∈ ys, P y
  | [], ys, _, h => by simp at h; subst h; simp
  | x :: xs, ys, hp, h => by
    simp only [List.mapM_cons, Option.pure_def, Option.bind_eq_bind, Option.bind_eq_some_iff] at h
    obtain ⟨y, hy, ys', hys, e⟩ := h
    cases e
    intro z hz
    rcases List.mem_cons.1 hz with rfl | hz
    · exact hp x _ hy
    · exact mapM_mem g P xs ys' hp hys z hz

theorem rebuildFrom_inv {S : Type} (mk : Bits → List S → Int → Option S) (P : S → Prop)
    (hmk : ∀ bits refs ty q, (∀ r ∈ refs, P r) → mk bits refs ty = some q → P q) :
    ∀ (recs : List RawCell) (ci : Nat) (out : List S), rebuildFrom mk recs ci = some out → ∀ q ∈ out, P q
  | [], _, out, h => by simp [rebuildFrom] at h; subst h; simp
  | c :: cs, ci, out, h => by
    rw [rebuildFrom] at h
    simp only [Option.bind_eq_some_iff, Option.map_eq_some_iff] at h
    obtain ⟨later, hl, refs, hr, q, hq, e⟩ := h
    cases e
    have ih := rebuildFrom_inv mk P hmk cs (ci + 1) later hl
    have hrefs : ∀ r ∈ refs, P r := by
      refine mapM_mem _ P c.refs refs ?_ hr
      intro x y hxy
      by_cases h1 : x < ci
      · simp [h1] at hxy
      · by_cases h2 : x = ci
        · simp [h1, h2] at hxy
        · simp only [h1, h2, if_false] at hxy
          exact ih y (List.mem_of_getElem? hxy)
    intro z hz
    rcases List.mem_cons.1 hz with rfl | hz
    · exact hmk _ _ _ _ hrefs hq
    · exact ih z hz

theorem deserialize_inv {S : Type} (mk : Bits → List S → Int → Option S) (P : S → Prop)
    (hmk : ∀ bits refs ty q, (∀ r ∈ refs, P r) → mk bits refs ty = some q → P q) (data : Bytes) (out : List S)
    (h : BocParse.deserialize mk data = some out) : ∀ q ∈ out, P q := by
  unfold BocParse.deserialize at h
  simp only [Option.bind_eq_some_iff] at h
  obtain ⟨hd, _, recs, _, all, hall, hroots⟩ := h
  have ih := rebuildFrom_inv mk P hmk recs 0 all hall
  exact mapM_mem _ P hd.rootList out (fun x y hxy => ih y (List.mem_of_getElem? hxy)) hroots

/-! ### `Cell(bits, refs, type)` = the regenerated constructor -/

theorem newCell_eq (H : Bytes → Bytes) (bits : Bits) (refs : List PCell) (ty : Int) :
    Py.newCell H bits refs ty = (construct H ty bits (refs.map PCell.info)).map fun i => PCell.mk i refs := by
  unfold Py.newCell
  have := Proofs.SrcCellCtor.src_construct_info H ty bits (refs.map PCell.info)
  cases hi : Generated.CellCtor.init H bits (refs.map PCell.info) ty with
  | none => rw [hi] at this; simp at this; simp [← this]
  | some o => rw [hi] at this; simp at this; simp [← this]

theorem map_treeOf_view (refs : List PCell) : (refs.map cellView).map (·.1) = refs.map treeOf ∧ (refs.map cellView).map (·.2) = refs.map PCell.info := by
  simp [cellView, List.map_map, Function.comp_def]

/-- the constructor commutes with the view: the regenerated `Cell(...)` on cell objects is the parser model's `mkCell` on their views -/
theorem newCell_view (H : Bytes → Bytes) (bits : Bits) (refs : List PCell) (ty : Int) :
    (Py.newCell H bits refs ty).map cellView = mkCell H bits (refs.map cellView) ty := by
  rw [newCell_eq, mkCell, (map_treeOf_view refs).1, (map_treeOf_view refs).2]
  cases hc : construct H ty bits (refs.map PCell.info) with
  | none => rfl
  | some i =>
    obtain ⟨_, h2, h3, _, _⟩ := construct_limits H ty bits _ i hc
    simp only [Option.map_some, cellView]
    rw [treeOf_eq]
    simp [PCell.info, PCell.refs, h2, h3]

/-- a cell object all of whose sub-objects were produced by the constructor from their children -/
def Built (H : Bytes → Bytes) (q : PCell) : Prop := Cell.build H (treeOf q) = some q

theorem builds_of_built (H : Bytes → Bytes) : ∀ refs : List PCell, (∀ r ∈ refs, Built H r) → Cell.builds H (refs.map treeOf) = some refs
  | [], _ => by simp [Cell.builds]
  | r :: rs, h => by
    have h1 : Cell.build H (treeOf r) = some r := h r (by simp)
    have h2 := builds_of_built H rs (fun x hx => h x (by simp [hx]))
    simp [Cell.builds, h1, h2]

theorem newCell_built (H : Bytes → Bytes) (bits : Bits) (refs : List PCell) (ty : Int) (q : PCell)
    (hr : ∀ r ∈ refs, Built H r) (h : Py.newCell H bits refs ty = some q) : Built H q := by
  rw [newCell_eq] at h
  simp only [Option.map_eq_some_iff] at h
  obtain ⟨i, hc, e⟩ := h
  subst e
  obtain ⟨_, h2, h3, _, _⟩ := construct_limits H ty bits _ i hc
  unfold Built
  rw [treeOf_eq]
  simp only [PCell.info, PCell.refs, h2, h3]
  rw [Cell.build]
  simp [builds_of_built H refs hr, hc]

theorem built_of_build (H : Bytes → Bytes) (t : Cell) (p : PCell) (h : Cell.build H t = some p) : Built H p := by
  unfold Built
  rw [(build_tree H t p h).1]
  exact h

/-! ### the regenerated parser with the class `Cell` -/

/-- `Boc.deserialize(Cell)` regenerated, with the regenerated constructor as the class: through the view it is the parser model;
no root is `None` -/
theorem deserialize_view (H : Bytes → Bytes) (bs : Bytes) :
    Generated.BocCells.deserialize bs (Py.cellClass H) = (BocParse.deserialize (Py.newCell H) bs).map (·.map some) ∧
    (BocParse.deserialize (Py.newCell H) bs).map (List.map cellView) = fromBoc H bs :=
  ⟨Proofs.SrcBocDeser.src_deserialize_eq (Py.newCell H) bs, deserialize_map cellView (Py.newCell H) (mkCell H) (newCell_view H) bs⟩

theorem deserialize_built (H : Bytes → Bytes) (bs : Bytes) (out : List PCell) (h : BocParse.deserialize (Py.newCell H) bs = some out) :
    ∀ q ∈ out, Built H q :=
  deserialize_inv (Py.newCell H) (Built H) (fun bits refs ty q hr hq => newCell_built H bits refs ty q hr hq) bs out h

/-! ### the regenerated conversions (generation dependent) -/

theorem begin_parse_eq (H : Bytes → Bytes) (p : PCell) :
    Cell_begin_parse H p = some ⟨p.info.bits, p.refs, p.info.kind, 0⟩ := rfl

theorem begin_parse_view (H : Bytes → Bytes) (p : PCell) :
    (Cell_begin_parse H p).map sliceView = some (beginParse (treeOf p)) := by
  rw [begin_parse_eq, treeOf_eq]
  simp [sliceView, beginParse, beginParseG]

theorem to_slice_eq (H : Bytes → Bytes) (p : PCell) : Cell_to_slice H p = Cell_begin_parse H p := by
  unfold Cell_to_slice
  cases Cell_begin_parse H p <;> rfl

theorem storeCell_view (c : PCell) :
    (Py.storeCell Py.newBuilder c).map builderView =
      (let r := BOp.storeCell c.info.bits (c.refs.map treeOf) (Builder.empty : Builder Cell); if r.2 then some r.1 else none) := by
  unfold Py.storeCell
  rw [Proofs.SrcBuilder.src_store_cell_eq]
  simp only [Proofs.SrcBuilder.ofFlag, BOp.storeCell, BOp.extend, Py.newBuilder, Builder.empty, List.length_nil, Nat.zero_add, List.nil_append,
    List.length_map]
  by_cases h1 : c.refs.length > 4
  · simp [h1]
  · by_cases h2 : c.info.bits.length > 1023
    · simp [h1, h2]
    · simp [h1, h2, builderView]

theorem to_builder_view (H : Bytes → Bytes) (p : PCell) :
    (Cell_to_builder H p).map builderView = toBuilder (treeOf p) := by
  unfold Cell_to_builder
  rw [treeOf_eq]
  simp only [toBuilder, toBuilderG, kOrdinary]
  by_cases hk : (p.info.kind != -1) = true
  · simp [hk]
  · have := storeCell_view p
    simp only [hk, Bool.false_eq_true, if_false] at this ⊢
    rw [← this]
    cases Py.storeCell Py.newBuilder p <;> rfl

theorem copy_eq (H : Bytes → Bytes) (p : PCell) : Cell_copy H p = Py.newCell H p.info.bits p.refs p.info.kind := by
  unfold Cell_copy
  cases Py.newCell H p.info.bits p.refs p.info.kind <;> rfl

theorem slice_to_cell_eq (H : Bytes → Bytes) (s : Py.SliceObj PCell) :
    Slice_to_cell H s = Py.newCell H s.bits (s.refs.drop s.ref_offset) s.type_ := by
  unfold Slice_to_cell
  cases Py.newCell H s.bits (s.refs.drop s.ref_offset) s.type_ <;> rfl

theorem end_cell_eq (H : Bytes → Bytes) (b : Py.BuilderObj PCell) : Builder_end_cell H b = Py.newCell H b.bits b.refs b.type_ := by
  unfold Builder_end_cell
  cases Py.newCell H b.bits b.refs b.type_ <;> rfl

/-- a constructed cell is rebuilt by the constructor from its own attributes: `copy()`, `begin_parse().to_cell()` and
`to_builder().end_cell()` give the same object value -/
theorem newCell_self (H : Bytes → Bytes) (p : PCell) (hp : Built H p) : Py.newCell H p.info.bits p.refs p.info.kind = some p := by
  unfold Built at hp
  rw [treeOf_eq, Cell.build] at hp
  simp only [Option.bind_eq_bind, Option.bind_eq_some_iff, Option.pure_def] at hp
  obtain ⟨rs, hrs, i, hi, e⟩ := hp
  have hrefs : rs = p.refs := by
    cases p with
    | mk i' refs' => cases e; rfl
  subst hrefs
  rw [newCell_eq, hi]
  simp only [Option.map_some]
  cases p with
  | mk i' refs' => cases e; rfl

/-! ### the regenerated entry points -/

theorem from_boc_eq (H : Bytes → Bytes) (d : Input) :
    Cell_from_boc H d = ((BocForms.inputBytes d).bind (BocParse.deserialize (Py.newCell H))).map (·.map some) := by
  unfold Cell_from_boc
  rw [Proofs.SrcBocEmit.src_boc_init_eq]
  cases BocForms.inputBytes d with
  | none => rfl
  | some bs =>
    simp only [Option.bind_some]
    rw [(deserialize_view H bs).1]
    cases BocParse.deserialize (Py.newCell H) bs <;> rfl

theorem builder_from_boc_eq (H : Bytes → Bytes) (d : Input) : Builder_from_boc H d = Cell_from_boc H d := rfl

theorem one_from_boc_eq (H : Bytes → Bytes) (d : Input) :
    Cell_one_from_boc H d = (cellOneG (Py.newCell H) d).map some := by
  unfold Cell_one_from_boc cellOneG fromBocAnyG
  rw [Proofs.SrcBocEmit.src_boc_init_eq]
  cases BocForms.inputBytes d with
  | none => rfl
  | some bs =>
    simp only [Option.bind_some]
    rw [(deserialize_view H bs).1]
    cases BocParse.deserialize (Py.newCell H) bs with
    | none => rfl
    | some cells =>
      simp only [Option.map_some, Option.bind_some, List.length_map]
      by_cases h : cells.length > 1
      · rw [if_pos h, if_pos (by simp only [decide_eq_true_eq]; omega)]
        rfl
      · rw [if_neg h, if_neg (by simp only [decide_eq_true_eq]; omega)]
        cases cells with
        | nil => rfl
        | cons c cs => rfl

theorem slice_one_from_boc_eq (H : Bytes → Bytes) (d : Input) :
    Slice_one_from_boc H d = sliceOneG (Py.newCell H) (fun p => (⟨p.info.bits, p.refs, p.info.kind, 0⟩ : Py.SliceObj PCell)) d := by
  unfold Slice_one_from_boc sliceOneG fromBocAnyG
  rw [Proofs.SrcBocEmit.src_boc_init_eq]
  cases BocForms.inputBytes d with
  | none => rfl
  | some bs =>
    simp only [Option.bind_some]
    rw [(deserialize_view H bs).1]
    cases BocParse.deserialize (Py.newCell H) bs with
    | none => rfl
    | some cells =>
      cases cells with
      | nil => rfl
      | cons c cs => rfl

theorem builder_one_from_boc_eq (H : Bytes → Bytes) (d : Input) :
    Builder_one_from_boc H d = builderOneG (Py.newCell H) (Cell_to_builder H) d := by
  unfold Builder_one_from_boc builderOneG fromBocAnyG
  rw [Proofs.SrcBocEmit.src_boc_init_eq]
  cases BocForms.inputBytes d with
  | none => rfl
  | some bs =>
    simp only [Option.bind_some]
    rw [(deserialize_view H bs).1]
    cases BocParse.deserialize (Py.newCell H) bs with
    | none => rfl
    | some cells =>
      cases cells with
      | nil => rfl
      | cons c cs =>
        simp only [Option.map_some, Option.bind_some, List.map_cons, List.getElem?_cons_zero]
        cases Cell_to_builder H c <;> rfl

/-- the parsed roots through the view are the model's roots -/
theorem fromBocAnyG_view (H : Bytes → Bytes) (d : Input) :
    (fromBocAnyG (Py.newCell H) d).map (List.map cellView) = fromBocAny H d := by
  unfold fromBocAny fromBocAnyG
  cases BocForms.inputBytes d with
  | none => rfl
  | some bs =>
    simp only [Option.bind_some]
    exact deserialize_map cellView (Py.newCell H) (mkCell H) (newCell_view H) bs

/-! ### entry points through the views = the hand model's entry points -/

theorem fromBocAny_G (H : Bytes → Bytes) (d : Input) : fromBocAny H d = fromBocAnyG (mkCell H) d := rfl

theorem cellOneG_view (H : Bytes → Bytes) (d : Input) : (cellOneG (Py.newCell H) d).map cellView = cellOne H d := by
  unfold cellOne cellOneG
  rw [← fromBocAny_G, ← fromBocAnyG_view]
  cases fromBocAnyG (Py.newCell H) d with
  | none => rfl
  | some cells =>
    simp only [Option.bind_some, Option.map_some, List.length_map]
    by_cases h : cells.length > 1
    · simp [h]
    · simp only [h, if_false]
      cases cells <;> rfl

theorem sliceOneG_view (H : Bytes → Bytes) (d : Input) :
    (sliceOneG (Py.newCell H) (fun p => (⟨p.info.bits, p.refs, p.info.kind, 0⟩ : Py.SliceObj PCell)) d).map sliceView = sliceOne H d := by
  unfold sliceOne sliceOneG
  rw [← fromBocAny_G, ← fromBocAnyG_view]
  cases fromBocAnyG (Py.newCell H) d with
  | none => rfl
  | some cells =>
    cases cells with
    | nil => rfl
    | cons c cs =>
      have := begin_parse_view H c
      rw [begin_parse_eq] at this
      simpa [cellView] using this

theorem builderOneG_view (H : Bytes → Bytes) (d : Input) :
    (builderOneG (Py.newCell H) (Cell_to_builder H) d).map builderView = builderOne H d := by
  unfold builderOne builderOneG
  rw [← fromBocAny_G, ← fromBocAnyG_view]
  cases fromBocAnyG (Py.newCell H) d with
  | none => rfl
  | some cells =>
    cases cells with
    | nil => rfl
    | cons c cs =>
      have := to_builder_view H c
      simpa [cellView] using this

theorem fromBoc_view (H : Bytes → Bytes) (d : Input) :
    (Cell_from_boc H d).map (List.map (Option.map cellView)) = (fromBocAny H d).map (List.map some) := by
  rw [from_boc_eq, ← fromBocAnyG_view]
  unfold fromBocAnyG
  cases (BocForms.inputBytes d).bind (BocParse.deserialize (Py.newCell H)) with
  | none => rfl
  | some cells => simp [Function.comp_def]

/-! ### the round trip on object values -/

/-- if the parser model returns the one root `(t, i)` for the tree `t` whose object graph is `p`, the regenerated parser with the
regenerated constructor returns the object value `p` itself -/
theorem deserialize_roundtrip (H : Bytes → Bytes) (t : Cell) (p : PCell) (hb : Cell.build H t = some p) (bs : Bytes) (i : CellInfo)
    (h : fromBoc H bs = some [(t, i)]) : BocParse.deserialize (Py.newCell H) bs = some [p] := by
  have hv := (deserialize_view H bs).2
  rw [h] at hv
  cases hd : BocParse.deserialize (Py.newCell H) bs with
  | none => rw [hd] at hv; cases hv
  | some out =>
    rw [hd] at hv
    simp only [Option.map_some, Option.some.injEq] at hv
    have hbuilt := deserialize_built H bs out hd
    match out, hv, hbuilt with
    | [q], hv, hbuilt =>
      simp only [List.map_cons, List.map_nil, List.cons.injEq, and_true, cellView, Prod.mk.injEq] at hv
      have hq : Built H q := hbuilt q (by simp)
      unfold Built at hq
      rw [hv.1, hb] at hq
      rw [Option.some.inj hq]

theorem storeCell_newBuilder (c : PCell) (hb : c.info.bits.length ≤ 1023) (hr : c.refs.length ≤ 4) :
    Py.storeCell Py.newBuilder c = some ⟨c.info.bits, c.refs, -1⟩ := by
  unfold Py.storeCell
  rw [Proofs.SrcBuilder.src_store_cell_eq]
  have h1 : ¬ c.refs.length > 4 := by omega
  have h2 : ¬ c.info.bits.length > 1023 := by omega
  simp [Proofs.SrcBuilder.ofFlag, BOp.storeCell, BOp.extend, Py.newBuilder, h1, h2]

theorem to_builder_eq (H : Bytes → Bytes) (c : PCell) (hb : c.info.bits.length ≤ 1023) (hr : c.refs.length ≤ 4) :
    Cell_to_builder H c = if c.info.kind = -1 then some ⟨c.info.bits, c.refs, -1⟩ else none := by
  unfold Cell_to_builder
  by_cases hk : c.info.kind = -1
  · simp [hk, storeCell_newBuilder c hb hr]
  · simp [hk]

end TonVerif.Proofs.SrcEntry
