/-
The generated TL table has no cycle of bare references: below every bundled constructor bare references nest at
most 5 deep (kernel evaluation over all constructors, about 4 s).
-/
import TonVerif.Model.TlNorm
import TonVerif.Generated.TlTable

namespace TonVerif.Proofs.TlBare
open TonVerif TonVerif.Spec.Tl TonVerif.Model.Tl TonVerif.Generated.Tl

theorem bare_all : ctors.all (fun c => bareArgsOK table 5 c.args) = true := by decide +kernel

theorem no_bare_cycle : NoBareCycle table 5 := fun c hc => List.all_eq_true.mp bare_all c hc

/-- 5 is the least such depth. -/
theorem bare_4_fails : ctors.all (fun c => bareArgsOK table 4 c.args) = false := by decide +kernel

end TonVerif.Proofs.TlBare
