/-
Helper lemmas for C05 (BoC parser model `Model/BocParse.lean` against the spec encoder `Spec/BocEncode.lean`).
-/
import TonVerif.Model.BocParse
import TonVerif.Spec.BocEncode

namespace TonVerif.Proofs.BocParse
open TonVerif TonVerif.Model TonVerif.Model.BocParse

/-! ### generic -/

theorem mapM_none_of_mem {α β : Type} (f : α → Option β) : ∀ (l : List α) (x : α), x ∈ l → f x = none → l.mapM f = none := by
  intro l
  induction l with
  | nil => intro x hx; cases hx
  | cons a as ih =>
    intro x hx hf
    rw [List.mapM_cons]
    rcases List.mem_cons.mp hx with rfl | h
    · simp [hf]
    · cases hfa : f a with
      | none => simp
      | some b => simp [ih x h hf]

/-! ### second loop: reference checks -/

theorem rebuildFrom_length {R : Type} (mk : Bits → List R → Int → Option R) :
    ∀ (recs : List RawCell) (base : Nat) (out : List R), rebuildFrom mk recs base = some out → out.length = recs.length := by
  intro recs
  induction recs with
  | nil => intro base out h; simp [rebuildFrom] at h; subst h; rfl
  | cons c cs ih =>
    intro base out h
    simp only [rebuildFrom] at h
    cases h1 : rebuildFrom mk cs (base + 1) with
    | none => simp [h1] at h
    | some later =>
      simp only [h1, Option.bind_some] at h
      cases h2 : List.mapM (fun r => if r < base then none else if r = base then none else later[r - base - 1]?) c.refs with
      | none => simp [h2] at h
      | some refs =>
        simp only [h2, Option.bind_some] at h
        cases h3 : mk c.bits refs c.type with
        | none => simp [h3] at h
        | some v =>
          simp only [h3, Option.map_some, Option.some.injEq] at h
          subst h
          simp [ih _ _ h1]

/-- a reference that is not strictly forward, or points past the last cell, aborts the rebuild loop. -/
theorem rebuildFrom_bad_ref {R : Type} (mk : Bits → List R → Int → Option R) :
    ∀ (recs : List RawCell) (base k : Nat) (c : RawCell) (r : Nat), recs[k]? = some c → r ∈ c.refs →
      (r ≤ base + k ∨ base + recs.length ≤ r) → rebuildFrom mk recs base = none := by
  intro recs
  induction recs with
  | nil => intro base k c r h; simp at h
  | cons c0 cs ih =>
    intro base k c r hk hr hbad
    simp only [rebuildFrom]
    cases k with
    | succ k' =>
      have hk' : cs[k']? = some c := by simpa using hk
      have := ih (base + 1) k' c r hk' hr (by simp only [List.length_cons] at hbad; omega)
      simp [this]
    | zero =>
      have hc : c0 = c := by simpa using hk
      subst hc
      cases h1 : rebuildFrom mk cs (base + 1) with
      | none => simp
      | some later =>
        have hl := rebuildFrom_length mk cs (base + 1) later h1
        simp only [Option.bind_some]
        have : List.mapM (fun r => if r < base then none else if r = base then none else later[r - base - 1]?) c0.refs = none := by
          apply mapM_none_of_mem _ _ r hr
          simp only [List.length_cons] at hbad
          by_cases h1 : r < base
          · simp [h1]
          · by_cases h2 : r = base
            · simp [h2]
            · simp only [h1, h2, if_false]
              apply List.getElem?_eq_none
              omega
        simp [this]

theorem readCells_length : ∀ (n : Nat) (data : Bytes) (size : Nat) (recs : List RawCell),
    readCells n data size = some recs → recs.length = n := by
  intro n
  induction n with
  | zero => intro data size recs h; simp [readCells] at h; subst h; rfl
  | succ n ih =>
    intro data size recs h
    simp only [readCells] at h
    cases h1 : deserializeCell data size with
    | none => simp [h1] at h
    | some cj =>
      simp only [h1, Option.bind_some] at h
      cases h2 : readCells n (List.drop cj.2 data) size with
      | none => simp [h2] at h
      | some rest =>
        simp only [h2, Option.map_some, Option.some.injEq] at h
        subst h
        simp [ih _ _ _ h2]

end TonVerif.Proofs.BocParse
