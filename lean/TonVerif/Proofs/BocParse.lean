/-
Helper lemmas for C05 (BoC parser model `Model/BocParse.lean` against the spec encoder `Spec/BocEncode.lean`).
-/
import TonVerif.Model.BocParse
import TonVerif.Spec.BocEncode
import TonVerif.Proofs.CrcFlip

namespace TonVerif.Proofs.BocParse
open TonVerif TonVerif.Model TonVerif.Model.BocParse

/-! ### generic -/

theorem mapM_none_of_mem {α β : Type} (f : α → Option β) : ∀ (l : List α) (x : α), x ∈ l → f x = none → l.mapM f = none := by
  intro l
  induction l with
  | nil => intro x hx; cases hx
  | cons a as ih =>
    intro x hx hf
    rw [List.mapM_cons]
    rcases List.mem_cons.mp hx with rfl | h
    · simp [hf]
    · cases hfa : f a with
      | none => simp
      | some b => simp [ih x h hf]

/-! ### second loop: reference checks -/

theorem rebuildFrom_length {R : Type} (mk : Bits → List R → Int → Option R) :
    ∀ (recs : List RawCell) (base : Nat) (out : List R), rebuildFrom mk recs base = some out → out.length = recs.length := by
  intro recs
  induction recs with
  | nil => intro base out h; simp [rebuildFrom] at h; subst h; rfl
  | cons c cs ih =>
    intro base out h
    simp only [rebuildFrom] at h
    cases h1 : rebuildFrom mk cs (base + 1) with
    | none => simp [h1] at h
    | some later =>
      simp only [h1, Option.bind_some] at h
      cases h2 : List.mapM (fun r => if r < base then none else if r = base then none else later[r - base - 1]?) c.refs with
      | none => simp [h2] at h
      | some refs =>
        simp only [h2, Option.bind_some] at h
        cases h3 : mk c.bits refs c.type with
        | none => simp [h3] at h
        | some v =>
          simp only [h3, Option.map_some, Option.some.injEq] at h
          subst h
          simp [ih _ _ h1]

/-- a reference that is not strictly forward, or points past the last cell, aborts the rebuild loop. -/
theorem rebuildFrom_bad_ref {R : Type} (mk : Bits → List R → Int → Option R) :
    ∀ (recs : List RawCell) (base k : Nat) (c : RawCell) (r : Nat), recs[k]? = some c → r ∈ c.refs →
      (r ≤ base + k ∨ base + recs.length ≤ r) → rebuildFrom mk recs base = none := by
  intro recs
  induction recs with
  | nil => intro base k c r h; simp at h
  | cons c0 cs ih =>
    intro base k c r hk hr hbad
    simp only [rebuildFrom]
    cases k with
    | succ k' =>
      have hk' : cs[k']? = some c := by simpa using hk
      have := ih (base + 1) k' c r hk' hr (by simp only [List.length_cons] at hbad; omega)
      simp [this]
    | zero =>
      have hc : c0 = c := by simpa using hk
      subst hc
      cases h1 : rebuildFrom mk cs (base + 1) with
      | none => simp
      | some later =>
        have hl := rebuildFrom_length mk cs (base + 1) later h1
        simp only [Option.bind_some]
        have : List.mapM (fun r => if r < base then none else if r = base then none else later[r - base - 1]?) c0.refs = none := by
          apply mapM_none_of_mem _ _ r hr
          simp only [List.length_cons] at hbad
          by_cases h1 : r < base
          · simp [h1]
          · by_cases h2 : r = base
            · simp [h2]
            · simp only [h1, h2, if_false]
              apply List.getElem?_eq_none
              omega
        simp [this]

theorem readCells_length : ∀ (n : Nat) (data : Bytes) (size : Nat) (recs : List RawCell),
    readCells n data size = some recs → recs.length = n := by
  intro n
  induction n with
  | zero => intro data size recs h; simp [readCells] at h; subst h; rfl
  | succ n ih =>
    intro data size recs h
    simp only [readCells] at h
    cases h1 : deserializeCell data size with
    | none => simp [h1] at h
    | some cj =>
      simp only [h1, Option.bind_some] at h
      cases h2 : readCells n (List.drop cj.2 data) size with
      | none => simp [h2] at h
      | some rest =>
        simp only [h2, Option.map_some, Option.some.injEq] at h
        subst h
        simp [ih _ _ _ h2]

/-! ### header: necessary conditions for acceptance -/

/-- what an accepted header implies: the fixed fields were readable, the total length is exactly the one they
announce, and if the CRC flag is on, the last four bytes are the CRC-32C of everything before them. -/
theorem header_accept (d : Bytes) (h : Header) (hh : deserializeBocHeader d = some h) :
    ∃ f, readFields d = some f ∧ d.length = f.expectedLen ∧ h.fl = f.fl ∧ h.cellsNum = f.cells ∧
      (f.fl.hasCrc = true → Model.crc32c (d.take (d.length - 4)) = some (d.drop (d.length - 4)) ∧ 4 ≤ d.length) := by
  unfold deserializeBocHeader at hh
  cases hf : readFields d with
  | none => simp [hf] at hh
  | some f =>
    refine ⟨f, rfl, ?_⟩
    simp only [hf, Option.bind_some] at hh
    simp only [Option.bind_eq_some_iff] at hh
    obtain ⟨rl, hA, idx, hB, hh⟩ := hh
    by_cases hlen : d.length < f.hdrEnd + f.rootsLen + f.indexLen + f.tot
    · simp [hlen] at hh
    · simp only [hlen, if_false, Option.bind_eq_some_iff] at hh
      obtain ⟨i, hC, hh⟩ := hh
      by_cases hi : d.length = i
      · simp only [hi, bne_self_eq_false, Bool.false_eq_true, if_false, Option.some.injEq] at hh
        subst hh
        refine ⟨?_, rfl, rfl, ?_⟩
        · by_cases hc : f.fl.hasCrc = true
          · simp only [hc, if_true] at hC
            split at hC
            · cases hC
            · split at hC
              · cases hC
              · simp only [Option.some.injEq] at hC
                simp [Fields.expectedLen, Fields.cellsStart, Fields.crcLen, hc]; omega
          · rw [if_neg hc] at hC
            simp only [Option.some.injEq] at hC
            simp [Fields.expectedLen, Fields.cellsStart, Fields.crcLen, hc]; omega
        · intro hc
          simp only [hc, if_true] at hC
          split at hC
          · cases hC
          · split at hC
            · cases hC
            · rename_i h1 h2
              simp only [Option.some.injEq] at hC
              have e : f.hdrEnd + f.rootsLen + f.indexLen + f.tot = d.length - 4 := by omega
              rw [e] at h2
              simp only [bne_iff_ne, ne_eq, Decidable.not_not] at h2
              refine ⟨?_, by omega⟩
              rw [h2]; congr 1
              unfold pySlice
              rw [show d.length - 4 + 4 = d.length by omega, List.take_length]
      · simp [hi] at hh

/-! ### header: the fixed fields of a prefix -/

theorem pySlice_append_left {α : Type} (p t : List α) (a b : Nat) (hb : b ≤ p.length) :
    pySlice (p ++ t) a b = pySlice p a b := by
  unfold pySlice
  rw [List.take_append_of_le_length hb]

theorem readFlags_append (p t : Bytes) (h5 : 5 ≤ p.length) : readFlags (p ++ t) = readFlags p := by
  unfold readFlags
  have h4 : (p ++ t)[4]? = p[4]? := List.getElem?_append_left (by omega)
  rw [pySlice_append_left p t 0 4 (by omega), h4]
  have e1 : ¬ (p ++ t).length < 4 := by simp; omega
  have e2 : ¬ p.length < 4 := by omega
  rw [if_neg e1, if_neg e2]

theorem readFields_len (d : Bytes) (f : Fields) (h : readFields d = some f) :
    6 + 5 * f.fl.sizeBytes ≤ d.length ∧ 1 ≤ f.fl.sizeBytes := by
  unfold readFields at h
  cases hfl : readFlags d with
  | none => simp [hfl] at h
  | some fl =>
    simp only [hfl, Option.bind_some] at h
    split at h
    · cases h
    · cases h5 : d[5]? with
      | none => simp [h5] at h
      | some off =>
        simp only [h5, Option.bind_some] at h
        split at h
        · cases h
        · simp only [Option.some.injEq] at h
          subst h
          simp; omega

theorem readFields_append (p t : Bytes) (f : Fields) (hp : readFields p = some f) (hl : f.hdrEnd ≤ p.length) :
    readFields (p ++ t) = some f := by
  have hlen := readFields_len p f hp
  unfold readFields at hp ⊢
  rw [readFlags_append p t (by omega)]
  cases hfl : readFlags p with
  | none => simp [hfl] at hp
  | some fl =>
    simp only [hfl, Option.bind_some] at hp ⊢
    split at hp
    · cases hp
    · rename_i h1
      have h5 : (p ++ t)[5]? = p[5]? := List.getElem?_append_left (by omega)
      rw [h5]
      cases h5' : p[5]? with
      | none => simp [h5'] at hp
      | some off =>
        simp only [h5', Option.bind_some] at hp ⊢
        split at hp
        · cases hp
        · rename_i h2
          simp only [Option.some.injEq] at hp
          subst hp
          simp only [Fields.hdrEnd] at hl hlen
          have : ¬ (p ++ t).length < 5 + (1 + 5 * fl.sizeBytes) := by simp; omega
          simp only [this, h2, if_false, uintAt]
          rw [pySlice_append_left p t _ _ (by omega), pySlice_append_left p t _ _ (by omega),
            pySlice_append_left p t _ _ (by omega), pySlice_append_left p t _ _ (by omega)]

/-- of a byte string and a proper extension of it at most one has an acceptable header. -/
theorem header_prefix_unique (p t : Bytes) (hp : Header) (hd : Header)
    (h1 : deserializeBocHeader p = some hp) (h2 : deserializeBocHeader (p ++ t) = some hd) : t = [] := by
  obtain ⟨f, hf, hlen, -⟩ := header_accept p hp h1
  obtain ⟨f', hf', hlen', -⟩ := header_accept (p ++ t) hd h2
  have hle : f.hdrEnd ≤ p.length := by
    rw [hlen]; simp only [Fields.expectedLen, Fields.cellsStart]; omega
  rw [readFields_append p t f hf hle] at hf'
  simp only [Option.some.injEq] at hf'
  subst hf'
  rw [List.length_append, hlen] at hlen'
  exact List.eq_nil_of_length_eq_zero (by omega)

/-! ### header: corruption of one byte -/

theorem pySlice_set_out {α : Type} (d : List α) (j : Nat) (v : α) (a b : Nat) (h : j < a ∨ b ≤ j) :
    pySlice (d.set j v) a b = pySlice d a b := by
  unfold pySlice
  apply List.ext_getElem?
  intro i
  simp only [List.getElem?_drop, List.getElem?_take]
  by_cases hi : a + i < b
  · simp only [hi, if_true]
    rw [List.getElem?_set_ne (by omega)]
  · simp [hi]

theorem readFlags_set_ge5 (d : Bytes) (j v : Nat) (hj : 5 ≤ j) : readFlags (d.set j v) = readFlags d := by
  unfold readFlags
  rw [pySlice_set_out d j v 0 4 (by omega), List.getElem?_set_ne (by omega), List.length_set]

theorem nat_xor_eq_self (a e : Nat) (h : a ^^^ e = a) : e = 0 := by
  have : a ^^^ (a ^^^ e) = a ^^^ a := by rw [h]
  rw [← Nat.xor_assoc, Nat.xor_self, Nat.zero_xor] at this
  exact this

theorem pySlice_0_4 (d : Bytes) (h : 4 ≤ d.length) : pySlice d 0 4 = [d[0], d[1], d[2], d[3]] := by
  unfold pySlice
  match d, h with
  | a :: b :: c :: e :: rest, _ => simp

/-- the three magics differ pairwise in every byte: no corruption of ONE byte turns a magic into a magic. -/
theorem readFlags_set_lt4 (d : Bytes) (j e : Nat) (hj : j < 4) (he : e ≠ 0) (hl : 4 ≤ d.length)
    (h1 : (readFlags d).isSome) : readFlags (d.set j (d[j]'(by omega) ^^^ e)) = none := by
  have hne : d[j]'(by omega) ^^^ e ≠ d[j]'(by omega) := fun h => he (nat_xor_eq_self _ _ h)
  generalize d[j]'(by omega) ^^^ e = v at hne
  have hl' : 4 ≤ (d.set j v).length := by simpa using hl
  unfold readFlags at h1 ⊢
  rw [pySlice_0_4 _ hl'] 
  rw [pySlice_0_4 _ hl] at h1
  have e1 : ¬ d.length < 4 := by omega
  have e2 : ¬ (d.set j v).length < 4 := by omega
  rw [if_neg e1] at h1
  rw [if_neg e2]
  have hj4 : j = 0 ∨ j = 1 ∨ j = 2 ∨ j = 3 := by omega
  simp only [magicGeneric, magicIdx, magicIdxCrc, beq_iff_eq, List.cons.injEq, and_true] at h1 ⊢
  simp only [List.getElem_set]
  rcases hj4 with rfl | rfl | rfl | rfl <;>
  · split at h1
    · rename_i hm; simp_all
    · split at h1
      · rename_i hm; simp_all
      · split at h1
        · rename_i hm; simp_all
        · simp at h1

/-- the flags a generic (`b5ee9c72`) header derives from its flag byte. -/
def genFlags (fb : Nat) : Flags :=
  { generic := true, hasIdx := fb.testBit 7, hasCrc := fb.testBit 6, hasCacheBits := fb.testBit 5,
    flags := (if fb.testBit 4 then 16 else 0) * 2 + (if fb.testBit 3 then 8 else 0), sizeBytes := fb % 8 }

theorem readFlags_set4 (d : Bytes) (v : Nat) (hl : 5 ≤ d.length) (fl fl' : Flags)
    (h : readFlags d = some fl) (h' : readFlags (d.set 4 v) = some fl') :
    (fl.generic = false → fl'.hasCrc = fl.hasCrc) ∧
    (fl.generic = true → fl = genFlags (d[4]'(by omega)) ∧ fl' = genFlags v) := by
  unfold readFlags at h h'
  rw [pySlice_set_out d 4 v 0 4 (by omega), List.length_set] at h'
  have e1 : ¬ d.length < 4 := by omega
  rw [if_neg e1] at h h'
  have g4 : (d.set 4 v)[4]? = some v := by rw [List.getElem?_set_self (by omega)]
  have g4' : d[4]? = some (d[4]'(by omega)) := List.getElem?_eq_getElem (by omega)
  rw [g4] at h'
  rw [g4'] at h
  simp only [Option.map_some] at h h'
  by_cases m1 : (pySlice d 0 4 == magicGeneric) = true
  · rw [if_pos m1] at h h'
    simp only [Option.some.injEq] at h h'
    subst h; subst h'
    simp [genFlags]
  · rw [if_neg m1] at h h'
    by_cases m2 : (pySlice d 0 4 == magicIdx) = true
    · rw [if_pos m2] at h h'
      simp only [Option.some.injEq] at h h'
      subst h; subst h'; simp
    · rw [if_neg m2] at h h'
      by_cases m3 : (pySlice d 0 4 == magicIdxCrc) = true
      · rw [if_pos m3] at h h'
        simp only [Option.some.injEq] at h h'
        subst h; subst h'; simp
      · rw [if_neg m3] at h
        cases h

theorem readFields_flags (d : Bytes) (f : Fields) (h : readFields d = some f) : readFlags d = some f.fl := by
  unfold readFields at h
  cases hfl : readFlags d with
  | none => simp [hfl] at h
  | some fl =>
    simp only [hfl, Option.bind_some] at h
    split at h
    · cases h
    · cases h5 : d[5]? with
      | none => simp [h5] at h
      | some off =>
        simp only [h5, Option.bind_some] at h
        split at h
        · cases h
        · simp only [Option.some.injEq] at h
          subst h; rfl

/-- rewriting byte 4 without changing the size leaves every other fixed field as it was. -/
theorem readFields_set4 (d : Bytes) (v : Nat) (f f' : Fields)
    (h : readFields d = some f) (h' : readFields (d.set 4 v) = some f') (hs : f'.fl.sizeBytes = f.fl.sizeBytes) :
    f'.off = f.off ∧ f'.cells = f.cells ∧ f'.roots = f.roots ∧ f'.absent = f.absent ∧ f'.tot = f.tot := by
  have hfl := readFields_flags d f h
  have hfl' := readFields_flags _ f' h'
  unfold readFields at h h'
  simp only [hfl, hfl', Option.bind_some, List.length_set] at h h'
  split at h
  · cases h
  · rw [if_neg (by rw [hs]; assumption)] at h'
    rw [List.getElem?_set_ne (by omega)] at h'
    cases h5 : d[5]? with
    | none => simp [h5] at h
    | some off =>
      simp only [h5, Option.bind_some] at h h'
      split at h
      · cases h
      · rw [if_neg (by rw [hs]; assumption)] at h'
        simp only [Option.some.injEq] at h h'
        rw [← h, ← h']
        simp only [uintAt, hs]
        rw [pySlice_set_out d 4 v _ _ (by omega), pySlice_set_out d 4 v _ _ (by omega),
          pySlice_set_out d 4 v _ _ (by omega), pySlice_set_out d 4 v _ _ (by omega)]
        simp

theorem genFlags_xor64 (a : Nat) (h : a.testBit 6 = true) :
    genFlags (a ^^^ 64) = { genFlags a with hasCrc := false } := by
  have t7 : (64 : Nat).testBit 7 = false := by decide
  have t6 : (64 : Nat).testBit 6 = true := by decide
  have t5 : (64 : Nat).testBit 5 = false := by decide
  have t4 : (64 : Nat).testBit 4 = false := by decide
  have t3 : (64 : Nat).testBit 3 = false := by decide
  have hm : (a ^^^ 64) % 8 = a % 8 := by
    have := Nat.xor_mod_two_pow (a := a) (b := 64) (n := 3)
    simpa using this
  simp [genFlags, Nat.testBit_xor, t7, t6, t5, t4, t3, h, hm]

/-- CRC-protected input, one byte corrupted by a non-zero xor pattern `e` (at byte 4, the flag byte, `e` must not
touch bit 6 together with other bits): the header is no longer accepted. -/
theorem header_crc_byte_error (d : Bytes) (hwf : Bytes.WF d) (h : Header) (hh : deserializeBocHeader d = some h)
    (hc : h.fl.hasCrc = true) (j : Nat) (hj : j < d.length) (e : Nat) (he0 : 0 < e) (he : e < 256)
    (h4 : j = 4 → e.testBit 6 = false ∨ e = 64) :
    deserializeBocHeader (d.set j (d[j] ^^^ e)) = none := by
  cases hh' : deserializeBocHeader (d.set j (d[j] ^^^ e)) with
  | none => rfl
  | some h' =>
    exfalso
    obtain ⟨f, hf, hlen, hfl, -, hcrc⟩ := header_accept d h hh
    obtain ⟨f', hf', hlen', -, -, hcrc'⟩ := header_accept _ h' hh'
    rw [hfl] at hc
    have hcrc := hcrc hc
    rw [List.length_set] at hlen' hcrc'
    have hne : d[j] ^^^ e ≠ d[j] := fun hx => by have := nat_xor_eq_self _ _ hx; omega
    by_cases hc' : f'.fl.hasCrc = true
    · -- both pass the CRC comparison
      obtain ⟨c1, l4⟩ := hcrc
      obtain ⟨c2, -⟩ := hcrc' hc'
      by_cases hjb : j < d.length - 4
      · -- error in the protected part: same stored CRC, different computed CRC
        have htake : List.take (d.length - 4) (d.set j (d[j] ^^^ e)) = (List.take (d.length - 4) d).set j (d[j] ^^^ e) := by
          rw [List.take_set]
        have hdrop : List.drop (d.length - 4) (d.set j (d[j] ^^^ e)) = List.drop (d.length - 4) d := by
          rw [List.drop_set]; simp [hjb]
        rw [htake, hdrop, ← c1] at c2
        have hj2 : j < (List.take (d.length - 4) d).length := by simp; omega
        have hwf2 : Bytes.WF (List.take (d.length - 4) d) := fun b hb => hwf b (List.mem_of_mem_take hb)
        have key := TonVerif.Proofs.CrcFlip.model_crc32c_flip_ne _ hwf2 j hj2 e he0 he
        apply key
        have eg : (List.take (d.length - 4) d)[j] = d[j] := by simp
        rw [eg]; exact c2
      · -- error in the stored CRC
        have htake : List.take (d.length - 4) (d.set j (d[j] ^^^ e)) = List.take (d.length - 4) d := by
          rw [List.take_set]; rw [List.set_eq_of_length_le]; simp; omega
        rw [htake, c1] at c2
        simp only [Option.some.injEq] at c2
        have := congrArg (fun l => l[j - (d.length - 4)]?) c2
        simp only [List.getElem?_drop] at this
        rw [show d.length - 4 + (j - (d.length - 4)) = j by omega] at this
        rw [List.getElem?_set_self hj, List.getElem?_eq_getElem hj] at this
        simp only [Option.some.injEq] at this
        exact hne this.symm
    · -- the CRC flag got lost: only the magic or the flag byte can do that
      have hF := readFields_flags d f hf
      have hF' := readFields_flags _ f' hf'
      have hl6 := (readFields_len d f hf).1
      by_cases j5 : 5 ≤ j
      · rw [readFlags_set_ge5 d j _ j5, hF] at hF'
        simp only [Option.some.injEq] at hF'
        rw [← hF'] at hc'; exact hc' hc
      · by_cases j4 : j < 4
        · have := readFlags_set_lt4 d j e j4 (by omega) (by omega) (by rw [hF]; rfl)
          rw [this] at hF'; cases hF'
        · have j4 : j = 4 := by omega
          subst j4
          obtain ⟨g1, g2⟩ := readFlags_set4 d _ (by omega) f.fl f'.fl hF hF'
          by_cases hg : f.fl.generic = true
          · obtain ⟨ea, eb⟩ := g2 hg
            have ha6 : d[4].testBit 6 = true := by rw [ea] at hc; simpa [genFlags] using hc
            have hb6 : (d[4] ^^^ e).testBit 6 = false := by
              rw [eb] at hc'; simpa [genFlags] using hc'
            rw [Nat.testBit_xor, ha6] at hb6
            have he6 : e.testBit 6 = true := by simpa using hb6
            rcases h4 rfl with h6 | h64
            · rw [h6] at he6; cases he6
            · subst h64
              rw [genFlags_xor64 _ ha6, ← ea] at eb
              have hs : f'.fl.sizeBytes = f.fl.sizeBytes := by rw [eb]
              obtain ⟨o1, o2, o3, o4, o5⟩ := readFields_set4 d _ f f' hf hf' hs
              have : f'.expectedLen + 4 = f.expectedLen := by
                simp only [Fields.expectedLen, Fields.cellsStart, Fields.hdrEnd, Fields.rootsLen, Fields.indexLen,
                  Fields.crcLen, o1, o2, o3, o5, eb, hc]
                simp
              omega
          · have hg' : f.fl.generic = false := by simpa using hg
            rw [g1 hg'] at hc'; exact hc' hc

/-- flip bit `k` (0 = most significant bit of byte 0) of a byte string. -/
def flipBit (d : Bytes) (k : Nat) : Bytes := d.set (k / 8) (d.getD (k / 8) 0 ^^^ (128 >>> (k % 8)))

theorem flipMask_props (k : Nat) : 0 < 128 >>> (k % 8) ∧ 128 >>> (k % 8) < 256 ∧
    ((128 >>> (k % 8)).testBit 6 = false ∨ 128 >>> (k % 8) = 64) := by
  have : k % 8 = 0 ∨ k % 8 = 1 ∨ k % 8 = 2 ∨ k % 8 = 3 ∨ k % 8 = 4 ∨ k % 8 = 5 ∨ k % 8 = 6 ∨ k % 8 = 7 := by omega
  rcases this with h | h | h | h | h | h | h | h <;> rw [h] <;> decide

end TonVerif.Proofs.BocParse
