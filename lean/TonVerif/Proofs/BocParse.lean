/-
Helper lemmas for C05 (BoC parser model `Model/BocParse.lean` against the spec encoder `Spec/BocEncode.lean`).
-/
import TonVerif.Model.BocParse
import TonVerif.Spec.BocEncode
import TonVerif.Proofs.CrcFlip
import TonVerif.Proofs.CellSpec

namespace TonVerif.Proofs.BocParse
open TonVerif TonVerif.Model TonVerif.Model.BocParse TonVerif.Spec.BocEncode

/-! ### generic -/

theorem mapM_none_of_mem {α β : Type} (f : α → Option β) : ∀ (l : List α) (x : α), x ∈ l → f x = none → l.mapM f = none := by
  intro l
  induction l with
  | nil => intro x hx; cases hx
  | cons a as ih =>
    intro x hx hf
    rw [List.mapM_cons]
    rcases List.mem_cons.mp hx with rfl | h
    · simp [hf]
    · cases hfa : f a with
      | none => simp
      | some b => simp [ih x h hf]

/-! ### second loop: reference checks -/

theorem rebuildFrom_length {R : Type} (mk : Bits → List R → Int → Option R) :
    ∀ (recs : List RawCell) (base : Nat) (out : List R), rebuildFrom mk recs base = some out → out.length = recs.length := by
  intro recs
  induction recs with
  | nil => intro base out h; simp [rebuildFrom] at h; subst h; rfl
  | cons c cs ih =>
    intro base out h
    simp only [rebuildFrom] at h
    cases h1 : rebuildFrom mk cs (base + 1) with
    | none => simp [h1] at h
    | some later =>
      simp only [h1, Option.bind_some] at h
      cases h2 : List.mapM (fun r => if r < base then none else if r = base then none else later[r - base - 1]?) c.refs with
      | none => simp [h2] at h
      | some refs =>
        simp only [h2, Option.bind_some] at h
        cases h3 : mk c.bits refs c.type with
        | none => simp [h3] at h
        | some v =>
          simp only [h3, Option.map_some, Option.some.injEq] at h
          subst h
          simp [ih _ _ h1]

/-- a reference that is not strictly forward, or points past the last cell, aborts the rebuild loop. -/
theorem rebuildFrom_bad_ref {R : Type} (mk : Bits → List R → Int → Option R) :
    ∀ (recs : List RawCell) (base k : Nat) (c : RawCell) (r : Nat), recs[k]? = some c → r ∈ c.refs →
      (r ≤ base + k ∨ base + recs.length ≤ r) → rebuildFrom mk recs base = none := by
  intro recs
  induction recs with
  | nil => intro base k c r h; simp at h
  | cons c0 cs ih =>
    intro base k c r hk hr hbad
    simp only [rebuildFrom]
    cases k with
    | succ k' =>
      have hk' : cs[k']? = some c := by simpa using hk
      have := ih (base + 1) k' c r hk' hr (by simp only [List.length_cons] at hbad; omega)
      simp [this]
    | zero =>
      have hc : c0 = c := by simpa using hk
      subst hc
      cases h1 : rebuildFrom mk cs (base + 1) with
      | none => simp
      | some later =>
        have hl := rebuildFrom_length mk cs (base + 1) later h1
        simp only [Option.bind_some]
        have : List.mapM (fun r => if r < base then none else if r = base then none else later[r - base - 1]?) c0.refs = none := by
          apply mapM_none_of_mem _ _ r hr
          simp only [List.length_cons] at hbad
          by_cases h1 : r < base
          · simp [h1]
          · by_cases h2 : r = base
            · simp [h2]
            · simp only [h1, h2, if_false]
              apply List.getElem?_eq_none
              omega
        simp [this]

theorem readCells_length : ∀ (n : Nat) (data : Bytes) (size : Nat) (recs : List RawCell),
    readCells n data size = some recs → recs.length = n := by
  intro n
  induction n with
  | zero => intro data size recs h; simp [readCells] at h; subst h; rfl
  | succ n ih =>
    intro data size recs h
    simp only [readCells] at h
    cases h1 : deserializeCell data size with
    | none => simp [h1] at h
    | some cj =>
      simp only [h1, Option.bind_some] at h
      cases h2 : readCells n (List.drop cj.2 data) size with
      | none => simp [h2] at h
      | some rest =>
        simp only [h2, Option.map_some, Option.some.injEq] at h
        subst h
        simp [ih _ _ _ h2]

/-! ### header: necessary conditions for acceptance -/

/-- what an accepted header implies: the fixed fields were readable, the total length is exactly the one they
announce, and if the CRC flag is on, the last four bytes are the CRC-32C of everything before them. -/
theorem header_accept (d : Bytes) (h : Header) (hh : deserializeBocHeader d = some h) :
    ∃ f, readFields d = some f ∧ d.length = f.expectedLen ∧ h.fl = f.fl ∧ h.cellsNum = f.cells ∧
      (f.fl.hasCrc = true → Model.crc32c (d.take (d.length - 4)) = some (d.drop (d.length - 4)) ∧ 4 ≤ d.length) := by
  unfold deserializeBocHeader at hh
  cases hf : readFields d with
  | none => simp [hf] at hh
  | some f =>
    refine ⟨f, rfl, ?_⟩
    simp only [hf, Option.bind_some] at hh
    simp only [Option.bind_eq_some_iff] at hh
    obtain ⟨rl, hA, idx, hB, hh⟩ := hh
    by_cases hlen : d.length < f.hdrEnd + f.rootsLen + f.indexLen + f.tot
    · simp [hlen] at hh
    · simp only [hlen, if_false, Option.bind_eq_some_iff] at hh
      obtain ⟨i, hC, hh⟩ := hh
      by_cases hi : d.length = i
      · simp only [hi, bne_self_eq_false, Bool.false_eq_true, if_false, Option.some.injEq] at hh
        subst hh
        refine ⟨?_, rfl, rfl, ?_⟩
        · by_cases hc : f.fl.hasCrc = true
          · simp only [hc, if_true] at hC
            split at hC
            · cases hC
            · split at hC
              · cases hC
              · simp only [Option.some.injEq] at hC
                simp [Fields.expectedLen, Fields.cellsStart, Fields.crcLen, hc]; omega
          · rw [if_neg hc] at hC
            simp only [Option.some.injEq] at hC
            simp [Fields.expectedLen, Fields.cellsStart, Fields.crcLen, hc]; omega
        · intro hc
          simp only [hc, if_true] at hC
          split at hC
          · cases hC
          · split at hC
            · cases hC
            · rename_i h1 h2
              simp only [Option.some.injEq] at hC
              have e : f.hdrEnd + f.rootsLen + f.indexLen + f.tot = d.length - 4 := by omega
              rw [e] at h2
              simp only [bne_iff_ne, ne_eq, Decidable.not_not] at h2
              refine ⟨?_, by omega⟩
              rw [h2]; congr 1
              unfold pySlice
              rw [show d.length - 4 + 4 = d.length by omega, List.take_length]
      · simp [hi] at hh

/-! ### header: the fixed fields of a prefix -/

theorem pySlice_append_left {α : Type} (p t : List α) (a b : Nat) (hb : b ≤ p.length) :
    pySlice (p ++ t) a b = pySlice p a b := by
  unfold pySlice
  rw [List.take_append_of_le_length hb]

theorem readFlags_append (p t : Bytes) (h5 : 5 ≤ p.length) : readFlags (p ++ t) = readFlags p := by
  unfold readFlags
  have h4 : (p ++ t)[4]? = p[4]? := List.getElem?_append_left (by omega)
  rw [pySlice_append_left p t 0 4 (by omega), h4]
  have e1 : ¬ (p ++ t).length < 4 := by simp; omega
  have e2 : ¬ p.length < 4 := by omega
  rw [if_neg e1, if_neg e2]

theorem readFields_len (d : Bytes) (f : Fields) (h : readFields d = some f) :
    6 + 3 * f.fl.sizeBytes ≤ d.length ∧ 1 ≤ f.fl.sizeBytes := by
  unfold readFields at h
  cases hfl : readFlags d with
  | none => simp [hfl] at h
  | some fl =>
    simp only [hfl, Option.bind_some] at h
    split at h
    · cases h
    · cases h5 : d[5]? with
      | none => simp [h5] at h
      | some off =>
        simp only [h5, Option.bind_some] at h
        split at h
        · cases h
        · simp only [Option.some.injEq] at h
          subst h
          simp; omega

theorem readFields_append (p t : Bytes) (f : Fields) (hp : readFields p = some f) (hl : f.hdrEnd ≤ p.length) :
    readFields (p ++ t) = some f := by
  have hlen := readFields_len p f hp
  unfold readFields at hp ⊢
  rw [readFlags_append p t (by omega)]
  cases hfl : readFlags p with
  | none => simp [hfl] at hp
  | some fl =>
    simp only [hfl, Option.bind_some] at hp ⊢
    split at hp
    · cases hp
    · rename_i h1
      have h5 : (p ++ t)[5]? = p[5]? := List.getElem?_append_left (by omega)
      rw [h5]
      cases h5' : p[5]? with
      | none => simp [h5'] at hp
      | some off =>
        simp only [h5', Option.bind_some] at hp ⊢
        split at hp
        · cases hp
        · rename_i h2
          simp only [Option.some.injEq] at hp
          subst hp
          simp only [Fields.hdrEnd] at hl hlen
          have : ¬ (p ++ t).length < 5 + (1 + 3 * fl.sizeBytes) := by simp; omega
          simp only [this, h2, if_false, uintAt]
          rw [pySlice_append_left p t _ _ (by omega), pySlice_append_left p t _ _ (by omega),
            pySlice_append_left p t _ _ (by omega), pySlice_append_left p t _ _ (by omega)]

/-- of a byte string and a proper extension of it at most one has an acceptable header. -/
theorem header_prefix_unique (p t : Bytes) (hp : Header) (hd : Header)
    (h1 : deserializeBocHeader p = some hp) (h2 : deserializeBocHeader (p ++ t) = some hd) : t = [] := by
  obtain ⟨f, hf, hlen, -⟩ := header_accept p hp h1
  obtain ⟨f', hf', hlen', -⟩ := header_accept (p ++ t) hd h2
  have hle : f.hdrEnd ≤ p.length := by
    rw [hlen]; simp only [Fields.expectedLen, Fields.cellsStart]; omega
  rw [readFields_append p t f hf hle] at hf'
  simp only [Option.some.injEq] at hf'
  subst hf'
  rw [List.length_append, hlen] at hlen'
  exact List.eq_nil_of_length_eq_zero (by omega)

/-! ### header: corruption of one byte -/

theorem pySlice_set_out {α : Type} (d : List α) (j : Nat) (v : α) (a b : Nat) (h : j < a ∨ b ≤ j) :
    pySlice (d.set j v) a b = pySlice d a b := by
  unfold pySlice
  apply List.ext_getElem?
  intro i
  simp only [List.getElem?_drop, List.getElem?_take]
  by_cases hi : a + i < b
  · simp only [hi, if_true]
    rw [List.getElem?_set_ne (by omega)]
  · simp [hi]

theorem readFlags_set_ge5 (d : Bytes) (j v : Nat) (hj : 5 ≤ j) : readFlags (d.set j v) = readFlags d := by
  unfold readFlags
  rw [pySlice_set_out d j v 0 4 (by omega), List.getElem?_set_ne (by omega), List.length_set]

theorem nat_xor_eq_self (a e : Nat) (h : a ^^^ e = a) : e = 0 := by
  have : a ^^^ (a ^^^ e) = a ^^^ a := by rw [h]
  rw [← Nat.xor_assoc, Nat.xor_self, Nat.zero_xor] at this
  exact this

theorem pySlice_0_4 (d : Bytes) (h : 4 ≤ d.length) : pySlice d 0 4 = [d[0], d[1], d[2], d[3]] := by
  unfold pySlice
  match d, h with
  | a :: b :: c :: e :: rest, _ => simp

/-- the three magics differ pairwise in every byte: no corruption of ONE byte turns a magic into a magic. -/
theorem readFlags_set_lt4 (d : Bytes) (j e : Nat) (hj : j < 4) (he : e ≠ 0) (hl : 4 ≤ d.length)
    (h1 : (readFlags d).isSome) : readFlags (d.set j (d[j]'(by omega) ^^^ e)) = none := by
  have hne : d[j]'(by omega) ^^^ e ≠ d[j]'(by omega) := fun h => he (nat_xor_eq_self _ _ h)
  generalize d[j]'(by omega) ^^^ e = v at hne
  have hl' : 4 ≤ (d.set j v).length := by simpa using hl
  unfold readFlags at h1 ⊢
  rw [pySlice_0_4 _ hl'] 
  rw [pySlice_0_4 _ hl] at h1
  have e1 : ¬ d.length < 4 := by omega
  have e2 : ¬ (d.set j v).length < 4 := by omega
  rw [if_neg e1] at h1
  rw [if_neg e2]
  have hj4 : j = 0 ∨ j = 1 ∨ j = 2 ∨ j = 3 := by omega
  simp only [magicGeneric, magicIdx, magicIdxCrc, beq_iff_eq, List.cons.injEq, and_true] at h1 ⊢
  simp only [List.getElem_set]
  rcases hj4 with rfl | rfl | rfl | rfl <;>
  · split at h1
    · rename_i hm; simp_all
    · split at h1
      · rename_i hm; simp_all
      · split at h1
        · rename_i hm; simp_all
        · simp at h1

/-- the flags a generic (`b5ee9c72`) header derives from its flag byte. -/
def genFlags (fb : Nat) : Flags :=
  { generic := true, hasIdx := fb.testBit 7, hasCrc := fb.testBit 6, hasCacheBits := fb.testBit 5,
    flags := (if fb.testBit 4 then 16 else 0) * 2 + (if fb.testBit 3 then 8 else 0), sizeBytes := fb % 8 }

theorem readFlags_set4 (d : Bytes) (v : Nat) (hl : 5 ≤ d.length) (fl fl' : Flags)
    (h : readFlags d = some fl) (h' : readFlags (d.set 4 v) = some fl') :
    (fl.generic = false → fl'.hasCrc = fl.hasCrc) ∧
    (fl.generic = true → fl = genFlags (d[4]'(by omega)) ∧ fl' = genFlags v) := by
  unfold readFlags at h h'
  rw [pySlice_set_out d 4 v 0 4 (by omega), List.length_set] at h'
  have e1 : ¬ d.length < 4 := by omega
  rw [if_neg e1] at h h'
  have g4 : (d.set 4 v)[4]? = some v := by rw [List.getElem?_set_self (by omega)]
  have g4' : d[4]? = some (d[4]'(by omega)) := List.getElem?_eq_getElem (by omega)
  rw [g4] at h'
  rw [g4'] at h
  simp only [Option.map_some] at h h'
  by_cases m1 : (pySlice d 0 4 == magicGeneric) = true
  · rw [if_pos m1] at h h'
    simp only [Option.some.injEq] at h h'
    subst h; subst h'
    simp [genFlags]
  · rw [if_neg m1] at h h'
    by_cases m2 : (pySlice d 0 4 == magicIdx) = true
    · rw [if_pos m2] at h h'
      simp only [Option.some.injEq] at h h'
      subst h; subst h'; simp
    · rw [if_neg m2] at h h'
      by_cases m3 : (pySlice d 0 4 == magicIdxCrc) = true
      · rw [if_pos m3] at h h'
        simp only [Option.some.injEq] at h h'
        subst h; subst h'; simp
      · rw [if_neg m3] at h
        cases h

theorem readFields_flags (d : Bytes) (f : Fields) (h : readFields d = some f) : readFlags d = some f.fl := by
  unfold readFields at h
  cases hfl : readFlags d with
  | none => simp [hfl] at h
  | some fl =>
    simp only [hfl, Option.bind_some] at h
    split at h
    · cases h
    · cases h5 : d[5]? with
      | none => simp [h5] at h
      | some off =>
        simp only [h5, Option.bind_some] at h
        split at h
        · cases h
        · simp only [Option.some.injEq] at h
          subst h; rfl

/-- rewriting byte 4 without changing the size leaves every other fixed field as it was. -/
theorem readFields_set4 (d : Bytes) (v : Nat) (f f' : Fields)
    (h : readFields d = some f) (h' : readFields (d.set 4 v) = some f') (hs : f'.fl.sizeBytes = f.fl.sizeBytes) :
    f'.off = f.off ∧ f'.cells = f.cells ∧ f'.roots = f.roots ∧ f'.absent = f.absent ∧ f'.tot = f.tot := by
  have hfl := readFields_flags d f h
  have hfl' := readFields_flags _ f' h'
  unfold readFields at h h'
  simp only [hfl, hfl', Option.bind_some, List.length_set] at h h'
  split at h
  · cases h
  · rw [if_neg (by rw [hs]; assumption)] at h'
    rw [List.getElem?_set_ne (by omega)] at h'
    cases h5 : d[5]? with
    | none => simp [h5] at h
    | some off =>
      simp only [h5, Option.bind_some] at h h'
      split at h
      · cases h
      · rw [if_neg (by rw [hs]; assumption)] at h'
        simp only [Option.some.injEq] at h h'
        rw [← h, ← h']
        simp only [uintAt, hs]
        rw [pySlice_set_out d 4 v _ _ (by omega), pySlice_set_out d 4 v _ _ (by omega),
          pySlice_set_out d 4 v _ _ (by omega), pySlice_set_out d 4 v _ _ (by omega)]
        simp

theorem genFlags_xor64 (a : Nat) (h : a.testBit 6 = true) :
    genFlags (a ^^^ 64) = { genFlags a with hasCrc := false } := by
  have t7 : (64 : Nat).testBit 7 = false := by decide
  have t6 : (64 : Nat).testBit 6 = true := by decide
  have t5 : (64 : Nat).testBit 5 = false := by decide
  have t4 : (64 : Nat).testBit 4 = false := by decide
  have t3 : (64 : Nat).testBit 3 = false := by decide
  have hm : (a ^^^ 64) % 8 = a % 8 := by
    have := Nat.xor_mod_two_pow (a := a) (b := 64) (n := 3)
    simpa using this
  simp [genFlags, Nat.testBit_xor, t7, t6, t5, t4, t3, h, hm]

/-- CRC-protected input, one byte corrupted by a non-zero xor pattern `e` (at byte 4, the flag byte, `e` must not
touch bit 6 together with other bits): the header is no longer accepted. -/
theorem header_crc_byte_error (d : Bytes) (hwf : Bytes.WF d) (h : Header) (hh : deserializeBocHeader d = some h)
    (hc : h.fl.hasCrc = true) (j : Nat) (hj : j < d.length) (e : Nat) (he0 : 0 < e) (he : e < 256)
    (h4 : j = 4 → e.testBit 6 = false ∨ e = 64) :
    deserializeBocHeader (d.set j (d[j] ^^^ e)) = none := by
  cases hh' : deserializeBocHeader (d.set j (d[j] ^^^ e)) with
  | none => rfl
  | some h' =>
    exfalso
    obtain ⟨f, hf, hlen, hfl, -, hcrc⟩ := header_accept d h hh
    obtain ⟨f', hf', hlen', -, -, hcrc'⟩ := header_accept _ h' hh'
    rw [hfl] at hc
    have hcrc := hcrc hc
    rw [List.length_set] at hlen' hcrc'
    have hne : d[j] ^^^ e ≠ d[j] := fun hx => by have := nat_xor_eq_self _ _ hx; omega
    by_cases hc' : f'.fl.hasCrc = true
    · -- both pass the CRC comparison
      obtain ⟨c1, l4⟩ := hcrc
      obtain ⟨c2, -⟩ := hcrc' hc'
      by_cases hjb : j < d.length - 4
      · -- error in the protected part: same stored CRC, different computed CRC
        have htake : List.take (d.length - 4) (d.set j (d[j] ^^^ e)) = (List.take (d.length - 4) d).set j (d[j] ^^^ e) := by
          rw [List.take_set]
        have hdrop : List.drop (d.length - 4) (d.set j (d[j] ^^^ e)) = List.drop (d.length - 4) d := by
          rw [List.drop_set]; simp [hjb]
        rw [htake, hdrop, ← c1] at c2
        have hj2 : j < (List.take (d.length - 4) d).length := by simp; omega
        have hwf2 : Bytes.WF (List.take (d.length - 4) d) := fun b hb => hwf b (List.mem_of_mem_take hb)
        have key := TonVerif.Proofs.CrcFlip.model_crc32c_flip_ne _ hwf2 j hj2 e he0 he
        apply key
        have eg : (List.take (d.length - 4) d)[j] = d[j] := by simp
        rw [eg]; exact c2
      · -- error in the stored CRC
        have htake : List.take (d.length - 4) (d.set j (d[j] ^^^ e)) = List.take (d.length - 4) d := by
          rw [List.take_set]; rw [List.set_eq_of_length_le]; simp; omega
        rw [htake, c1] at c2
        simp only [Option.some.injEq] at c2
        have := congrArg (fun l => l[j - (d.length - 4)]?) c2
        simp only [List.getElem?_drop] at this
        rw [show d.length - 4 + (j - (d.length - 4)) = j by omega] at this
        rw [List.getElem?_set_self hj, List.getElem?_eq_getElem hj] at this
        simp only [Option.some.injEq] at this
        exact hne this.symm
    · -- the CRC flag got lost: only the magic or the flag byte can do that
      have hF := readFields_flags d f hf
      have hF' := readFields_flags _ f' hf'
      have hl6 := (readFields_len d f hf).1
      by_cases j5 : 5 ≤ j
      · rw [readFlags_set_ge5 d j _ j5, hF] at hF'
        simp only [Option.some.injEq] at hF'
        rw [← hF'] at hc'; exact hc' hc
      · by_cases j4 : j < 4
        · have := readFlags_set_lt4 d j e j4 (by omega) (by omega) (by rw [hF]; rfl)
          rw [this] at hF'; cases hF'
        · have j4 : j = 4 := by omega
          subst j4
          obtain ⟨g1, g2⟩ := readFlags_set4 d _ (by omega) f.fl f'.fl hF hF'
          by_cases hg : f.fl.generic = true
          · obtain ⟨ea, eb⟩ := g2 hg
            have ha6 : d[4].testBit 6 = true := by rw [ea] at hc; simpa [genFlags] using hc
            have hb6 : (d[4] ^^^ e).testBit 6 = false := by
              rw [eb] at hc'; simpa [genFlags] using hc'
            rw [Nat.testBit_xor, ha6] at hb6
            have he6 : e.testBit 6 = true := by simpa using hb6
            rcases h4 rfl with h6 | h64
            · rw [h6] at he6; cases he6
            · subst h64
              rw [genFlags_xor64 _ ha6, ← ea] at eb
              have hs : f'.fl.sizeBytes = f.fl.sizeBytes := by rw [eb]
              obtain ⟨o1, o2, o3, o4, o5⟩ := readFields_set4 d _ f f' hf hf' hs
              have : f'.expectedLen + 4 = f.expectedLen := by
                simp only [Fields.expectedLen, Fields.cellsStart, Fields.hdrEnd, Fields.rootsLen, Fields.indexLen,
                  Fields.crcLen, o1, o2, o3, o5, eb, hc]
                simp
              omega
          · have hg' : f.fl.generic = false := by simpa using hg
            rw [g1 hg'] at hc'; exact hc' hc

/-- flip bit `k` (0 = most significant bit of byte 0) of a byte string. -/
def flipBit (d : Bytes) (k : Nat) : Bytes := d.set (k / 8) (d.getD (k / 8) 0 ^^^ (128 >>> (k % 8)))

theorem flipMask_props (k : Nat) : 0 < 128 >>> (k % 8) ∧ 128 >>> (k % 8) < 256 ∧
    ((128 >>> (k % 8)).testBit 6 = false ∨ 128 >>> (k % 8) = 64) := by
  have : k % 8 = 0 ∨ k % 8 = 1 ∨ k % 8 = 2 ∨ k % 8 = 3 ∨ k % 8 = 4 ∨ k % 8 = 5 ∨ k % 8 = 6 ∨ k % 8 = 7 := by omega
  rcases this with h | h | h | h | h | h | h | h <;> rw [h] <;> decide

/-! ### accepts: second loop = denotation -/

/-- the record a listing entry must be read back as. -/
def raw (c : SCell) : RawCell := { bits := c.bits, refs := c.refs, type := c.kind }

theorem infos_eq_mapM (H : Bytes → Bytes) : ∀ ts : List Cell, Cell.infos H ts = ts.mapM (Cell.info H) := by
  intro ts
  induction ts with
  | nil => simp [Cell.infos]
  | cons c cs ih =>
    rw [Cell.infos, List.mapM_cons, ih]

theorem mapM_infos_of_pairs (H : Bytes → Bytes) : ∀ (ps : List CellV), (∀ p ∈ ps, Cell.info H p.1 = some p.2) →
    (ps.map (·.1)).mapM (Cell.info H) = some (ps.map (·.2)) := by
  intro ps
  induction ps with
  | nil => intro _; simp
  | cons p ps ih =>
    intro h
    rw [List.map_cons, List.mapM_cons, h p List.mem_cons_self, ih (fun q hq => h q (List.mem_cons_of_mem _ hq))]
    rfl

theorem lookup_lift {α β : Type} (f : α → β) (out : List α) (base : Nat) : ∀ (refs : List Nat) (kids : List β),
    refs.mapM (fun r => if r ≤ base then none else (out.map f)[r - base - 1]?) = some kids →
    ∃ ks, refs.mapM (fun r => if r < base then none else if r = base then none else out[r - base - 1]?) = some ks ∧
      ks.map f = kids ∧ ∀ p ∈ ks, p ∈ out := by
  intro refs
  induction refs with
  | nil => intro kids h; simp at h; subst h; exact ⟨[], by simp⟩
  | cons r rs ih =>
    intro kids h
    rw [List.mapM_cons] at h
    by_cases hr : r ≤ base
    · simp [hr] at h
    · simp only [hr, if_false] at h
      have hg : (out.map f)[r - base - 1]? = (out[r - base - 1]?).map f := List.getElem?_map ..
      rw [hg] at h
      cases ho : out[r - base - 1]? with
      | none => simp [ho] at h
      | some p =>
        cases hm : rs.mapM (fun r => if r ≤ base then none else (out.map f)[r - base - 1]?) with
        | none => rw [ho, hm] at h; simp at h
        | some kids' =>
          rw [ho, hm] at h
          simp only [Option.map_some, Option.bind_eq_bind, Option.bind_some, Option.pure_def, Option.some.injEq] at h
          obtain ⟨ks, h1, h2, h3⟩ := ih kids' hm
          refine ⟨p :: ks, ?_, ?_, ?_⟩
          · rw [List.mapM_cons]
            have a1 : ¬ r < base := by omega
            have a2 : ¬ r = base := by omega
            simp only [a1, a2, if_false, ho, h1]
            rfl
          · rw [← h, List.map_cons, h2]
          · intro q hq
            rcases List.mem_cons.mp hq with rfl | hq
            · exact List.mem_of_getElem? ho
            · exact h3 q hq

/-- second loop = denotation: rebuilding the records of a listing bottom-up yields exactly the denoted trees, each
paired with what the constructor computes for it, provided every denoted cell is constructible. -/
theorem rebuild_denote (H : Bytes → Bytes) : ∀ (cs : List SCell) (base : Nat) (trees : List Cell),
    denoteFrom cs base = some trees → (∀ t ∈ trees, (Cell.info H t).isSome) →
    ∃ out, rebuildFrom (mkCell H) (cs.map raw) base = some out ∧ out.map (·.1) = trees ∧
      ∀ p ∈ out, Cell.info H p.1 = some p.2 := by
  intro cs
  induction cs with
  | nil => intro base trees h _; simp [denoteFrom] at h; subst h; exact ⟨[], by simp [rebuildFrom]⟩
  | cons c cs ih =>
    intro base trees h hcon
    simp only [denoteFrom] at h
    cases hl : denoteFrom cs (base + 1) with
    | none => simp [hl] at h
    | some lt =>
      simp only [hl, Option.bind_some] at h
      cases hk : c.refs.mapM (fun r => if r ≤ base then none else lt[r - base - 1]?) with
      | none => simp [hk] at h
      | some kids =>
        simp only [hk, Option.map_some, Option.some.injEq] at h
        subst h
        obtain ⟨out', h1, h2, h3⟩ := ih (base + 1) lt hl (fun t ht => hcon t (List.mem_cons_of_mem _ ht))
        rw [← h2] at hk
        obtain ⟨ks, k1, k2, k3⟩ := lookup_lift (·.1) out' base c.refs kids hk
        have hhead := hcon (Cell.mk c.kind c.bits kids) List.mem_cons_self
        rw [Cell.info, infos_eq_mapM, ← k2, mapM_infos_of_pairs H ks (fun p hp => h3 p (k3 p hp))] at hhead
        simp only [Option.bind_eq_bind, Option.bind_some] at hhead
        obtain ⟨i, hi⟩ := Option.isSome_iff_exists.mp hhead
        refine ⟨(Cell.mk c.kind c.bits (ks.map (·.1)), i) :: out', ?_, ?_, ?_⟩
        · simp only [List.map_cons, rebuildFrom, h1, Option.bind_some, raw, k1, mkCell, hi, Option.map_some]
        · simp [k2, h2]
        · intro p hp
          rcases List.mem_cons.mp hp with rfl | hp
          · simp only [Cell.info, infos_eq_mapM, mapM_infos_of_pairs H ks (fun p hp => h3 p (k3 p hp))]
            simpa using hi
          · exact h3 p hp

/-! ### numbers -/

theorem natToBE_length : ∀ (w v : Nat), (natToBE w v).length = w := by
  intro w; induction w with
  | zero => intro v; rfl
  | succ w ih => intro v; simp [natToBE, ih]

theorem foldl_be_acc : ∀ (b : Bytes) (acc : Nat),
    b.foldl (fun acc x => acc * 256 + x) acc = acc * 256 ^ b.length + b.foldl (fun acc x => acc * 256 + x) 0 := by
  intro b; induction b with
  | nil => intro acc; simp
  | cons x xs ih =>
    intro acc
    simp only [List.foldl_cons, List.length_cons]
    rw [ih (acc * 256 + x), ih (0 * 256 + x), Nat.pow_succ]
    simp only [Nat.zero_mul, Nat.zero_add, Nat.add_mul]
    rw [Nat.mul_assoc, Nat.mul_comm 256, Nat.add_assoc]

theorem natOfBE_append (a b : Bytes) : natOfBE (a ++ b) = natOfBE a * 256 ^ b.length + natOfBE b := by
  unfold natOfBE
  rw [List.foldl_append, foldl_be_acc]

theorem natOfBE_natToBE : ∀ (w v : Nat), v < 256 ^ w → natOfBE (natToBE w v) = v := by
  intro w; induction w with
  | zero => intro v h; simp at h; subst h; rfl
  | succ w ih =>
    intro v h
    rw [natToBE, natOfBE_append, ih (v / 256) (by rw [Nat.pow_succ] at h; omega)]
    simp [natOfBE]; omega

theorem natToBE_wf : ∀ (w v : Nat), Bytes.WF (natToBE w v) := by
  intro w; induction w with
  | zero => intro v b hb; cases hb
  | succ w ih =>
    intro v b hb
    rw [natToBE] at hb
    rcases List.mem_append.mp hb with h | h
    · exact ih _ b h
    · simp at h; omega

/-! ### bits and bytes -/

theorem chunk8 (chunk : Bits) (h : chunk.length = 8) :
    byteToBits (natOfBits chunk) = chunk ∧ natOfBits chunk < 256 := by
  match chunk, h with
  | [a, b, c, d, e, f, g, i], _ =>
    cases a <;> cases b <;> cases c <;> cases d <;> cases e <;> cases f <;> cases g <;> cases i <;> decide

theorem bitsToBytes_cons (b0 : Bool) (rest : Bits) :
    bitsToBytes (b0 :: rest) =
      natOfBits ((b0 :: rest).take 8 ++ List.replicate (8 - ((b0 :: rest).take 8).length) false)
        :: bitsToBytes ((b0 :: rest).drop 8) := by
  rw [bitsToBytes]

theorem bitsToBytes_props (n : Nat) : ∀ (xs : Bits), xs.length = n →
    (bitsToBytes xs).length = (xs.length + 7) / 8 ∧ Bytes.WF (bitsToBytes xs) ∧
    (xs.length % 8 = 0 → bytesToBits (bitsToBytes xs) = xs) := by
  induction n using Nat.strongRecOn with
  | _ n ih =>
    intro xs hn
    cases xs with
    | nil => simp [bitsToBytes, bytesToBits, Bytes.WF]
    | cons b0 rest =>
      rw [bitsToBytes_cons]
      have hl : ((b0 :: rest).drop 8).length = (b0 :: rest).length - 8 := by simp
      obtain ⟨i1, i2, i3⟩ := ih _ (by rw [← hn]; simp only [List.length_cons] at hl ⊢; omega) ((b0 :: rest).drop 8) rfl
      have hc : ((b0 :: rest).take 8 ++ List.replicate (8 - ((b0 :: rest).take 8).length) false).length = 8 := by
        simp only [List.length_append, List.length_replicate, List.length_take, List.length_cons]; omega
      obtain ⟨c1, c2⟩ := chunk8 _ hc
      refine ⟨?_, ?_, ?_⟩
      · simp only [List.length_cons, i1, hl]; omega
      · intro b hb
        rcases List.mem_cons.mp hb with rfl | hb
        · exact c2
        · exact i2 b hb
      · intro h8
        have hge : 8 ≤ (b0 :: rest).length := by
          simp only [List.length_cons] at h8 ⊢; omega
        have ht : ((b0 :: rest).take 8).length = 8 := by rw [List.length_take]; omega
        rw [ht] at c1
        simp only [Nat.sub_self, List.replicate_zero, List.append_nil] at c1
        rw [ht]
        simp only [Nat.sub_self, List.replicate_zero, List.append_nil]
        unfold bytesToBits at i3 ⊢
        rw [List.flatMap_cons, c1, i3 (by rw [hl]; omega), List.take_append_drop]

theorem bitsToBytes_length (xs : Bits) : (bitsToBytes xs).length = (xs.length + 7) / 8 :=
  (bitsToBytes_props _ xs rfl).1
theorem bitsToBytes_wf (xs : Bits) : Bytes.WF (bitsToBytes xs) := (bitsToBytes_props _ xs rfl).2.1
theorem bytesToBits_bitsToBytes (xs : Bits) (h : xs.length % 8 = 0) : bytesToBits (bitsToBytes xs) = xs :=
  (bitsToBytes_props _ xs rfl).2.2 h

theorem padBits_length (bits : Bits) : (Spec.padBits bits).length = (bits.length + 7) / 8 * 8 := by
  unfold Spec.padBits
  split
  · omega
  · simp only [List.length_append, List.length_singleton, List.length_replicate]; omega

theorem dataBytes_length (bits : Bits) : (Spec.dataBytes bits).length = (bits.length + 7) / 8 := by
  unfold Spec.dataBytes
  rw [bitsToBytes_length, padBits_length]; omega

theorem stripTagRev_replicate : ∀ (p n : Nat) (r : Bits), p < n →
    stripTagRev n (List.replicate p false ++ true :: r) = some r := by
  intro p; induction p with
  | zero => intro n r h; cases n with
    | zero => omega
    | succ n => simp [stripTagRev]
  | succ p ih => intro n r h; cases n with
    | zero => omega
    | succ n => simp only [List.replicate_succ, List.cons_append, stripTagRev]; simp; exact ih n r (by omega)

/-- reading the data bytes back and cutting the completion tag gives the original bits. -/
theorem data_roundtrip (bits : Bits) :
    (let bits0 := bytesToBits (Spec.dataBytes bits)
     if (Spec.d2 bits.length % 2 == 1 && !bits0.isEmpty) then stripTag bits0 else bits0) = bits := by
  have hp := padBits_length bits
  have hb : bytesToBits (Spec.dataBytes bits) = Spec.padBits bits := by
    unfold Spec.dataBytes; apply bytesToBits_bitsToBytes; rw [hp]; omega
  simp only [hb]
  unfold Spec.padBits Spec.d2
  by_cases h8 : bits.length % 8 = 0
  · have : (bits.length / 8 + (bits.length + 7) / 8) % 2 = 0 := by omega
    simp [h8, this]
  · have : (bits.length / 8 + (bits.length + 7) / 8) % 2 = 1 := by omega
    simp only [h8, if_false, this, beq_self_eq_true, Bool.true_and]
    have hne : (bits ++ [true] ++ List.replicate (7 - bits.length % 8) false).isEmpty = false := by
      cases bits <;> simp
    simp only [hne, Bool.not_false, if_true]
    unfold stripTag
    have hr : (bits ++ [true] ++ List.replicate (7 - bits.length % 8) false).reverse =
        List.replicate (7 - bits.length % 8) false ++ true :: bits.reverse := by
      simp [List.reverse_append]
    rw [hr, stripTagRev_replicate _ 7 _ (by omega)]
    simp

/-! ### slices of concatenations -/

theorem pySlice_mid {α : Type} (pre seg post : List α) (a b : Nat) (ha : a = pre.length) (hb : b = pre.length + seg.length) :
    pySlice (pre ++ seg ++ post) a b = seg := by
  subst ha; subst hb
  unfold pySlice
  rw [List.append_assoc, List.take_append, List.take_of_length_le (by omega)]
  simp

theorem flatMap_length_uniform {α β : Type} (f : α → List β) (w : Nat) (h : ∀ x, (f x).length = w) :
    ∀ xs : List α, (xs.flatMap f).length = xs.length * w := by
  intro xs; induction xs with
  | nil => simp
  | cons x xs ih => simp only [List.flatMap_cons, List.length_append, h, ih, List.length_cons]; rw [Nat.add_mul]; omega

theorem uintsAt_flatMap (size : Nat) (xs : List Nat) (hx : ∀ x ∈ xs, x < 256 ^ size) (pre post : Bytes) (a : Nat)
    (ha : a = pre.length) :
    uintsAt (pre ++ xs.flatMap (natToBE size) ++ post) a size xs.length = xs := by
  subst ha
  unfold uintsAt
  apply List.ext_getElem
  · simp
  · intro t h1 h2
    simp only [List.getElem_map, List.getElem_range]
    have ht : t < xs.length := by simpa using h1
    have hsplit : xs = xs.take t ++ xs[t] :: xs.drop (t + 1) := by
      rw [List.getElem_cons_drop ht, List.take_append_drop]
    have hfl : xs.flatMap (natToBE size) =
        (xs.take t).flatMap (natToBE size) ++ natToBE size xs[t] ++ (xs.drop (t + 1)).flatMap (natToBE size) := by
      calc xs.flatMap (natToBE size) = (xs.take t ++ xs[t] :: xs.drop (t + 1)).flatMap (natToBE size) := by rw [← hsplit]
        _ = _ := by rw [List.flatMap_append, List.flatMap_cons, List.append_assoc]
    have hlen : ((xs.take t).flatMap (natToBE size)).length = t * size := by
      rw [flatMap_length_uniform _ size (natToBE_length size), List.length_take, Nat.min_eq_left (by omega)]
    unfold uintAt
    rw [hfl]
    have : pre ++ ((xs.take t).flatMap (natToBE size) ++ natToBE size xs[t] ++ (xs.drop (t + 1)).flatMap (natToBE size)) ++ post
        = (pre ++ (xs.take t).flatMap (natToBE size)) ++ natToBE size xs[t] ++ ((xs.drop (t + 1)).flatMap (natToBE size) ++ post) := by
      simp [List.append_assoc]
    rw [this, pySlice_mid _ _ _ _ _ (by simp [hlen]) (by simp [hlen, natToBE_length])]
    exact natOfBE_natToBE _ _ (hx _ (List.getElem_mem ht))

/-! ### one cell record -/

/-- `deserialize_cell` on a record laid out as d1 d2 | hash block | data | reference indices | anything. -/
theorem deserializeCell_layout (d1 d2 size : Nat) (HB DB RB rest : Bytes)
    (hHB : HB.length = if (d1 / 16 % 2 == 1) = true then (Model.popcount (d1 / 32) + 1) * 34 else 0)
    (hDB : DB.length = d2 / 2 + d2 % 2) (hRB : RB.length = size * (d1 % 8)) (h7 : d1 % 8 ≠ 7) :
    deserializeCell (d1 :: d2 :: (HB ++ DB ++ RB ++ rest)) size =
      (let bits0 := bytesToBits DB
       let bits := if (d2 % 2 == 1 && !bits0.isEmpty) = true then stripTag bits0 else bits0
       (if (d1 / 8 % 2 == 1) = true then (if bits.length < 8 then none else some (signed8 bits)) else some (-1)).bind fun ty =>
         some ({ bits := bits, refs := uintsAt (d1 :: d2 :: (HB ++ DB ++ RB ++ rest)) (2 + HB.length + DB.length) size (d1 % 8),
                 type := ty }, 2 + HB.length + DB.length + RB.length)) := by
  have hi : (2 + if (d1 / 16 % 2 == 1) = true then
      (if (d1 / 16 % 2 == 1) = true then (Model.popcount (d1 / 32) + 1) * 32 else 0) +
        (if ((if (d1 / 16 % 2 == 1) = true then (Model.popcount (d1 / 32) + 1) * 32 else 0) != 0) = true
          then (Model.popcount (d1 / 32) + 1) * 2 else 0) else 0) = 2 + HB.length := by
    rw [hHB]; split <;> simp <;> omega
  have hlen : ¬ (d1 :: d2 :: (HB ++ DB ++ RB ++ rest)).length < 2 +
      ((if (d1 / 16 % 2 == 1) = true then (Model.popcount (d1 / 32) + 1) * 32 else 0) +
        (if ((if (d1 / 16 % 2 == 1) = true then (Model.popcount (d1 / 32) + 1) * 32 else 0) != 0) = true
          then (Model.popcount (d1 / 32) + 1) * 2 else 0) + (d2 / 2 + d2 % 2) + size * (d1 % 8)) := by
    simp only [List.length_cons, List.length_append, hHB, hDB, hRB]
    split <;> simp <;> omega
  have hslice : pySlice (d1 :: d2 :: (HB ++ DB ++ RB ++ rest)) (2 + HB.length) (2 + HB.length + (d2 / 2 + d2 % 2)) = DB := by
    have : d1 :: d2 :: (HB ++ DB ++ RB ++ rest) = (d1 :: d2 :: HB) ++ DB ++ (RB ++ rest) := by simp [List.append_assoc]
    rw [this]
    apply pySlice_mid <;> simp <;> omega
  have h7' : (d1 % 8 == 7 && d1 / 16 % 2 == 1) = false := by simp [h7]
  unfold deserializeCell
  simp only [List.getElem?_cons_zero, List.getElem?_cons_succ, Option.bind_some, h7', Bool.false_eq_true, if_false,
    hlen, hi, hslice]
  rw [hDB, hRB, Nat.mul_comm size]

theorem flatten_length_uniform {β : Type} (w : Nat) : ∀ (xs : List (List β)), (∀ x ∈ xs, x.length = w) →
    xs.flatten.length = xs.length * w := by
  intro xs; induction xs with
  | nil => intro _; simp
  | cons x xs ih =>
    intro h
    simp only [List.flatten_cons, List.length_append, List.length_cons]
    rw [h x List.mem_cons_self, ih (fun y hy => h y (List.mem_cons_of_mem _ hy)), Nat.add_mul]; omega

theorem signed8_kind (bits : Bits) (kind : Int) (h1 : -128 ≤ kind) (h2 : kind < 128)
    (h : natOfBits (bits.take 8) = (kind % 256).toNat) : signed8 bits = kind := by
  unfold signed8
  simp only [h]
  split <;> omega

/-- what the per-cell part of `Valid` gives for one cell. -/
structure RecOK (size : Nat) (c : SCell) : Prop where
  bits : c.bits.length ≤ 1023
  refs : c.refs.length ≤ 4
  refsFit : ∀ r ∈ c.refs, r < 256 ^ size
  exotic : c.kind ≠ -1 → 8 ≤ c.bits.length ∧ -128 ≤ c.kind ∧ c.kind < 128 ∧ natOfBits (c.bits.take 8) = (c.kind % 256).toNat
  mask : c.mask < 8
  hashes : c.hashes.length = Spec.popcount c.mask + 1
  hashes32 : ∀ h ∈ c.hashes, h.length = 32 ∧ Bytes.WF h
  depths : c.depths.length = Spec.popcount c.mask + 1

theorem encodeCell_roundtrip (size : Nat) (c : SCell) (store : Bool) (rest : Bytes) (ok : RecOK size c) :
    deserializeCell (encodeCell size c store ++ rest) size = some (raw c, (encodeCell size c store).length) := by
  have hb := ok.bits
  have hr := ok.refs
  have hm := ok.mask
  have hHBlen : (hashBlock c).length = (Spec.popcount c.mask + 1) * 34 := by
    unfold hashBlock
    rw [List.length_append, flatten_length_uniform 32 _ (fun x hx => (ok.hashes32 x hx).1),
      flatMap_length_uniform _ 2 (natToBE_length 2), ok.hashes, ok.depths]; omega
  have hdata := dataBytes_length c.bits
  have hRB : (c.refs.flatMap (natToBE size)).length = c.refs.length * size :=
    flatMap_length_uniform _ size (natToBE_length size) _
  -- the descriptor bytes decode
  obtain ⟨x, hx, hx01⟩ : ∃ x : Nat, (if c.kind = -1 then 0 else 1) = x ∧ ((x = 0 ∧ c.kind = -1) ∨ (x = 1 ∧ c.kind ≠ -1)) := by
    by_cases hk : c.kind = -1
    · exact ⟨0, by rw [if_pos hk], Or.inl ⟨rfl, hk⟩⟩
    · exact ⟨1, by rw [if_neg hk], Or.inr ⟨rfl, hk⟩⟩
  obtain ⟨y, hy, hy01⟩ : ∃ y : Nat, (if store = true then 1 else 0) = y ∧ ((y = 0 ∧ store = false) ∨ (y = 1 ∧ store = true)) := by
    cases store
    · exact ⟨0, by simp, Or.inl ⟨rfl, rfl⟩⟩
    · exact ⟨1, by simp, Or.inr ⟨rfl, rfl⟩⟩
  generalize hd1 : c.refs.length + 8 * (if c.kind = -1 then 0 else 1) + 16 * (if store = true then 1 else 0) + 32 * c.mask = d1
  have hd1' : d1 = c.refs.length + 8 * x + 16 * y + 32 * c.mask := by rw [← hd1, hx, hy]
  have e1 : d1 / 32 = c.mask := by omega
  have e2 : d1 % 8 = c.refs.length := by omega
  have e3 : (d1 / 16 % 2 == 1) = store := by
    rcases hy01 with ⟨h0, hs⟩ | ⟨h0, hs⟩ <;> rw [hs] <;> simp <;> omega
  have e4 : (d1 / 8 % 2 == 1) = (c.kind != -1) := by
    rcases hx01 with ⟨h0, hk⟩ | ⟨h0, hk⟩
    · have h8 : d1 / 8 % 2 = 0 := by omega
      rw [h8, hk]; rfl
    · have h8 : d1 / 8 % 2 = 1 := by omega
      have hb : (c.kind != -1) = true := by simp [hk]
      rw [h8, hb]; rfl
  have f1 : Spec.d2 c.bits.length / 2 + Spec.d2 c.bits.length % 2 = (c.bits.length + 7) / 8 := by unfold Spec.d2; omega
  have hform : encodeCell size c store ++ rest =
      d1 :: Spec.d2 c.bits.length :: ((if store then hashBlock c else []) ++ Spec.dataBytes c.bits ++ c.refs.flatMap (natToBE size) ++ rest) := by
    unfold encodeCell; rw [hd1]; simp [List.append_assoc]
  rw [hform, deserializeCell_layout d1 _ size _ _ _ rest ?_ (by rw [hdata, f1]) (by rw [hRB, e2, Nat.mul_comm]) (by omega)]
  · have hdr := data_roundtrip c.bits
    simp only at hdr
    simp only [hdr, e4, e2]
    have hrefs : uintsAt (d1 :: Spec.d2 c.bits.length :: ((if store then hashBlock c else []) ++ Spec.dataBytes c.bits ++ c.refs.flatMap (natToBE size) ++ rest))
        (2 + (if store then hashBlock c else []).length + (Spec.dataBytes c.bits).length) size c.refs.length = c.refs := by
      have : d1 :: Spec.d2 c.bits.length :: ((if store then hashBlock c else []) ++ Spec.dataBytes c.bits ++ c.refs.flatMap (natToBE size) ++ rest)
          = (d1 :: Spec.d2 c.bits.length :: ((if store then hashBlock c else []) ++ Spec.dataBytes c.bits)) ++ c.refs.flatMap (natToBE size) ++ rest := by
        simp [List.append_assoc]
      rw [this]
      apply uintsAt_flatMap _ _ ok.refsFit
      simp; omega
    rw [hrefs]
    have hlen : (encodeCell size c store).length =
        2 + (if store then hashBlock c else []).length + (Spec.dataBytes c.bits).length + (c.refs.flatMap (natToBE size)).length := by
      unfold encodeCell; simp; omega
    rw [hlen]
    by_cases hk : c.kind = -1
    · simp [hk, raw]
    · obtain ⟨k1, k2, k3, k4⟩ := ok.exotic hk
      have : ¬ c.bits.length < 8 := by omega
      simp [hk, this, signed8_kind c.bits c.kind k2 k3 k4, raw]
  · rw [e3, e1, TonVerif.Proofs.CellSpec.popcount_eq]
    cases store <;> simp [hHBlen]

/-- first loop: the concatenated records of a listing are read back one by one. -/
theorem readCells_records (size : Nat) (store : List Bool) : ∀ (cs : List SCell) (base : Nat) (rest : Bytes),
    (∀ c ∈ cs, RecOK size c) →
    readCells cs.length ((records size store cs base).flatten ++ rest) size = some (cs.map raw) := by
  intro cs
  induction cs with
  | nil => intro base rest _; simp [readCells]
  | cons c cs ih =>
    intro base rest h
    simp only [records, List.flatten_cons, List.length_cons, readCells, List.append_assoc]
    rw [encodeCell_roundtrip size c _ _ (h c List.mem_cons_self)]
    simp only [Option.bind_some, List.drop_left]
    rw [ih (base + 1) rest (fun x hx => h x (List.mem_cons_of_mem _ hx))]
    simp

/-! ### header of a laid-out bag -/

theorem readFields_layout (M C1 C2 C3 T rest : Bytes) (b4 off : Nat) (fl : Flags)
    (hM : M.length = 4) (hfl : ∀ r, readFlags (M ++ b4 :: r) = some fl) (hs1 : 1 ≤ fl.sizeBytes)
    (hC1 : C1.length = fl.sizeBytes) (hC2 : C2.length = fl.sizeBytes) (hC3 : C3.length = fl.sizeBytes)
    (hT : T.length = off) :
    readFields (M ++ b4 :: off :: (C1 ++ C2 ++ C3 ++ T ++ rest)) =
      some { fl := fl, off := off, cells := natOfBE C1, roots := natOfBE C2, absent := natOfBE C3, tot := natOfBE T } := by
  unfold readFields
  rw [hfl]
  simp only [Option.bind_some]
  have hlen : ¬ (M ++ b4 :: off :: (C1 ++ C2 ++ C3 ++ T ++ rest)).length < 5 + (1 + 3 * fl.sizeBytes) := by
    simp only [List.length_append, List.length_cons, hM, hC1, hC2, hC3]; omega
  have h5 : (M ++ b4 :: off :: (C1 ++ C2 ++ C3 ++ T ++ rest))[5]? = some off := by
    rw [List.getElem?_append_right (by omega), hM]; rfl
  have hs0 : ¬ fl.sizeBytes = 0 := by omega
  rw [if_neg hlen, h5]
  simp only [Option.bind_some, if_neg hs0, uintAt]
  have s1 : pySlice (M ++ b4 :: off :: (C1 ++ C2 ++ C3 ++ T ++ rest)) 6 (6 + fl.sizeBytes) = C1 := by
    have : M ++ b4 :: off :: (C1 ++ C2 ++ C3 ++ T ++ rest) = (M ++ [b4, off]) ++ C1 ++ (C2 ++ C3 ++ T ++ rest) := by
      simp [List.append_assoc]
    rw [this]; apply pySlice_mid <;> simp [hM, hC1] <;> omega
  have s2 : pySlice (M ++ b4 :: off :: (C1 ++ C2 ++ C3 ++ T ++ rest)) (6 + fl.sizeBytes) (6 + fl.sizeBytes + fl.sizeBytes) = C2 := by
    have : M ++ b4 :: off :: (C1 ++ C2 ++ C3 ++ T ++ rest) = (M ++ [b4, off] ++ C1) ++ C2 ++ (C3 ++ T ++ rest) := by
      simp [List.append_assoc]
    rw [this]; apply pySlice_mid <;> simp [hM, hC1, hC2] <;> omega
  have s3 : pySlice (M ++ b4 :: off :: (C1 ++ C2 ++ C3 ++ T ++ rest)) (6 + 2 * fl.sizeBytes) (6 + 2 * fl.sizeBytes + fl.sizeBytes) = C3 := by
    have : M ++ b4 :: off :: (C1 ++ C2 ++ C3 ++ T ++ rest) = (M ++ [b4, off] ++ C1 ++ C2) ++ C3 ++ (T ++ rest) := by
      simp [List.append_assoc]
    rw [this]; apply pySlice_mid <;> simp [hM, hC1, hC2, hC3] <;> omega
  have s4 : pySlice (M ++ b4 :: off :: (C1 ++ C2 ++ C3 ++ T ++ rest)) (6 + 3 * fl.sizeBytes) (6 + 3 * fl.sizeBytes + off) = T := by
    have : M ++ b4 :: off :: (C1 ++ C2 ++ C3 ++ T ++ rest) = (M ++ [b4, off] ++ C1 ++ C2 ++ C3) ++ T ++ rest := by
      simp [List.append_assoc]
    rw [this]; apply pySlice_mid <;> simp [hM, hC1, hC2, hC3, hT] <;> omega
  rw [s1, s2, s3, s4]

/-- `deserialize_boc_header` on  magic | b4 | off | cells | roots | absent | tot | root list | index | cell data | crc. -/
theorem header_layout (M C1 C2 C3 T RL IDX CD CRC : Bytes) (b4 off : Nat) (fl : Flags)
    (hM : M.length = 4) (hfl : ∀ r, readFlags (M ++ b4 :: r) = some fl) (hs1 : 1 ≤ fl.sizeBytes)
    (hC1 : C1.length = fl.sizeBytes) (hC2 : C2.length = fl.sizeBytes) (hC3 : C3.length = fl.sizeBytes)
    (hT : T.length = off)
    (hRL : RL.length = if fl.generic then natOfBE C2 * fl.sizeBytes else 0) (hleg : fl.generic = false → natOfBE C2 = 1)
    (hIDX : IDX.length = if fl.hasIdx then natOfBE C1 * off else 0) (hoff : off ≠ 0)
    (hCD : CD.length = natOfBE T)
    (hCRC : if fl.hasCrc then
        Model.crc32c (M ++ b4 :: off :: (C1 ++ C2 ++ C3 ++ T ++ RL ++ IDX ++ CD)) = some CRC ∧ CRC.length = 4
      else CRC = []) :
    ∃ rl idx, deserializeBocHeader (M ++ b4 :: off :: (C1 ++ C2 ++ C3 ++ T ++ RL ++ IDX ++ CD) ++ CRC) =
        some { fl := fl, offsetBytes := off, cellsNum := natOfBE C1, rootsNum := natOfBE C2, absentNum := natOfBE C3,
               totCellsSize := natOfBE T, rootList := rl, index := idx, cellsData := CD } ∧
      rl = (if fl.generic then
              uintsAt (M ++ b4 :: off :: (C1 ++ C2 ++ C3 ++ T ++ RL ++ IDX ++ CD) ++ CRC) (6 + 3 * fl.sizeBytes + off) fl.sizeBytes (natOfBE C2)
            else [0]) := by
  have hform : M ++ b4 :: off :: (C1 ++ C2 ++ C3 ++ T ++ RL ++ IDX ++ CD) ++ CRC =
      M ++ b4 :: off :: (C1 ++ C2 ++ C3 ++ T ++ (RL ++ IDX ++ CD ++ CRC)) := by simp [List.append_assoc]
  have hF := readFields_layout M C1 C2 C3 T (RL ++ IDX ++ CD ++ CRC) b4 off fl hM hfl hs1 hC1 hC2 hC3 hT
  rw [← hform] at hF
  generalize hD : M ++ b4 :: off :: (C1 ++ C2 ++ C3 ++ T ++ RL ++ IDX ++ CD) ++ CRC = D at hF ⊢
  have hDlen : D.length = 6 + 3 * fl.sizeBytes + off + RL.length + IDX.length + CD.length + CRC.length := by
    rw [← hD]; simp only [List.length_append, List.length_cons, hM, hC1, hC2, hC3, hT]; omega
  have hcd : pySlice D (6 + 3 * fl.sizeBytes + off + RL.length + IDX.length)
      (6 + 3 * fl.sizeBytes + off + RL.length + IDX.length + natOfBE T) = CD := by
    have : D = (M ++ [b4, off] ++ C1 ++ C2 ++ C3 ++ T ++ RL ++ IDX) ++ CD ++ CRC := by
      rw [← hD]; simp [List.append_assoc]
    rw [this]; apply pySlice_mid <;> simp [hM, hC1, hC2, hC3, hT, hCD] <;> omega
  unfold deserializeBocHeader
  rw [hF]
  simp only [Option.bind_some, Fields.hdrEnd, Fields.rootsLen, Fields.indexLen]
  rw [← hRL, ← hIDX]
  refine ⟨(if fl.generic then uintsAt D (6 + 3 * fl.sizeBytes + off) fl.sizeBytes (natOfBE C2) else [0]),
    (if fl.hasIdx then uintsAt D (6 + 3 * fl.sizeBytes + off + RL.length) off (natOfBE C1) else []),
    Option.bind_eq_some_iff.mpr ⟨(if fl.generic then uintsAt D (6 + 3 * fl.sizeBytes + off) fl.sizeBytes (natOfBE C2) else [0]), ?_,
      Option.bind_eq_some_iff.mpr ⟨(if fl.hasIdx then uintsAt D (6 + 3 * fl.sizeBytes + off + RL.length) off (natOfBE C1) else []), ?_, ?_⟩⟩, rfl⟩
  · by_cases hg : fl.generic = true
    · rw [if_pos hg] at hRL
      have c1 : ¬ D.length < 6 + 3 * fl.sizeBytes + off + natOfBE C2 * fl.sizeBytes := by rw [hDlen, hRL]; omega
      simp [hg, c1]
    · have hg' : fl.generic = false := by simpa using hg
      have c1 : ¬ (natOfBE C2 != 1) = true := by simp [hleg hg']
      simp [hg', hleg hg']
  · by_cases hi : fl.hasIdx = true
    · rw [if_pos hi] at hIDX
      have c1 : ¬ D.length < 6 + 3 * fl.sizeBytes + off + RL.length + off * natOfBE C1 := by
        rw [hDlen, hIDX, Nat.mul_comm off]; omega
      simp [hi, c1, hoff]
    · simp [hi]
  have c3 : ¬ D.length < 6 + 3 * fl.sizeBytes + off + RL.length + IDX.length + natOfBE T := by rw [hDlen, hCD]; omega
  simp only [c3, if_false, hcd]
  refine Option.bind_eq_some_iff.mpr ⟨D.length, ?_, by simp⟩
  have hC : (if fl.hasCrc = true then
        if List.length D < 6 + 3 * fl.sizeBytes + off + RL.length + IDX.length + natOfBE T + 4 then none
        else if (crc32c (List.take (6 + 3 * fl.sizeBytes + off + RL.length + IDX.length + natOfBE T) D) !=
            some (pySlice D (6 + 3 * fl.sizeBytes + off + RL.length + IDX.length + natOfBE T)
              (6 + 3 * fl.sizeBytes + off + RL.length + IDX.length + natOfBE T + 4))) = true then none
        else some (6 + 3 * fl.sizeBytes + off + RL.length + IDX.length + natOfBE T + 4)
      else some (6 + 3 * fl.sizeBytes + off + RL.length + IDX.length + natOfBE T)) = some D.length := by
    by_cases hc : fl.hasCrc = true
    · rw [if_pos hc] at hCRC ⊢
      obtain ⟨k1, k2⟩ := hCRC
      have c4 : ¬ D.length < 6 + 3 * fl.sizeBytes + off + RL.length + IDX.length + natOfBE T + 4 := by
        rw [hDlen, hCD, k2]; omega
      have hbl : (M ++ b4 :: off :: (C1 ++ C2 ++ C3 ++ T ++ RL ++ IDX ++ CD)).length =
          6 + 3 * fl.sizeBytes + off + RL.length + IDX.length + natOfBE T := by
        simp only [List.length_append, List.length_cons, hM, hC1, hC2, hC3, hT, hCD]; omega
      have htake : List.take (6 + 3 * fl.sizeBytes + off + RL.length + IDX.length + natOfBE T) D =
          M ++ b4 :: off :: (C1 ++ C2 ++ C3 ++ T ++ RL ++ IDX ++ CD) := by
        rw [← hD, ← hbl, List.take_left]
      have hsl : pySlice D (6 + 3 * fl.sizeBytes + off + RL.length + IDX.length + natOfBE T)
          (6 + 3 * fl.sizeBytes + off + RL.length + IDX.length + natOfBE T + 4) = CRC := by
        have : D = (M ++ b4 :: off :: (C1 ++ C2 ++ C3 ++ T ++ RL ++ IDX ++ CD)) ++ CRC ++ [] := by rw [← hD]; simp
        rw [this]; apply pySlice_mid
        · rw [hbl]
        · rw [hbl, k2]
      simp only [c4, if_false, htake, hsl, k1, bne_self_eq_false, Bool.false_eq_true]
      rw [hDlen, hCD, k2]
    · rw [if_neg hc] at hCRC ⊢
      rw [hDlen, hCD, hCRC]; simp
  exact hC


/-! ### the encoder's pieces -/

theorem wf_append {a b : Bytes} (ha : Bytes.WF a) (hb : Bytes.WF b) : Bytes.WF (a ++ b) := by
  intro x hx; rcases List.mem_append.mp hx with h | h
  · exact ha x h
  · exact hb x h

theorem wf_flatMap_be {α : Type} (w : Nat) (g : α → Nat) (xs : List α) : Bytes.WF (xs.flatMap (fun x => natToBE w (g x))) := by
  intro b hb
  obtain ⟨x, _, hx⟩ := List.mem_flatMap.mp hb
  exact natToBE_wf _ _ b hx

theorem wf_flatMap_be' (w : Nat) (xs : List Nat) : Bytes.WF (xs.flatMap (natToBE w)) := wf_flatMap_be w id xs

theorem wf_flatten (xs : List Bytes) (h : ∀ x ∈ xs, Bytes.WF x) : Bytes.WF xs.flatten := by
  intro b hb
  obtain ⟨x, hx, hbx⟩ := List.mem_flatten.mp hb
  exact h x hx b hbx

theorem encodeCell_wf (size : Nat) (c : SCell) (store : Bool) (ok : RecOK size c) : Bytes.WF (encodeCell size c store) := by
  unfold encodeCell
  have hb := ok.bits; have hr := ok.refs; have hm := ok.mask
  refine wf_append (wf_append (wf_append ?_ ?_) ?_) (wf_flatMap_be' _ _)
  · intro b hb'
    simp only [List.mem_cons, List.not_mem_nil, or_false] at hb'
    rcases hb' with rfl | rfl
    · split <;> split <;> omega
    · unfold Spec.d2; omega
  · split
    · unfold hashBlock
      exact wf_append (wf_flatten _ (fun x hx => (ok.hashes32 x hx).2)) (wf_flatMap_be' _ _)
    · intro b hb'; cases hb'
  · exact bitsToBytes_wf _

theorem encodeCell_length_ge (size : Nat) (c : SCell) (store : Bool) : 2 ≤ (encodeCell size c store).length := by
  unfold encodeCell; simp only [List.length_append, List.length_cons]; omega

theorem records_length (size : Nat) (store : List Bool) : ∀ (cs : List SCell) (base : Nat),
    (records size store cs base).length = cs.length := by
  intro cs; induction cs with
  | nil => intro _; rfl
  | cons c cs ih => intro base; simp [records, ih]

theorem records_wf (size : Nat) (store : List Bool) : ∀ (cs : List SCell) (base : Nat), (∀ c ∈ cs, RecOK size c) →
    ∀ r ∈ records size store cs base, Bytes.WF r := by
  intro cs; induction cs with
  | nil => intro _ _ r hr; cases hr
  | cons c cs ih =>
    intro base h r hr
    simp only [records, List.mem_cons] at hr
    rcases hr with rfl | hr
    · exact encodeCell_wf _ _ _ (h c List.mem_cons_self)
    · exact ih (base + 1) (fun x hx => h x (List.mem_cons_of_mem _ hx)) r hr

theorem records_flatten_ge (size : Nat) (store : List Bool) (cs : List SCell) (base : Nat) (h : 0 < cs.length) :
    2 ≤ ((records size store cs base).flatten).length := by
  cases cs with
  | nil => simp at h
  | cons c cs =>
    simp only [records, List.flatten_cons, List.length_append]
    have := encodeCell_length_ge size c (store.getD base false); omega

theorem endOffsets_length : ∀ (rs : List Bytes) (acc : Nat), (endOffsets rs acc).length = rs.length := by
  intro rs; induction rs with
  | nil => intro _; rfl
  | cons r rs ih => intro acc; simp [endOffsets, ih]

theorem indexEntries_length (cache : Bool) (cf : List Bool) : ∀ (es : List Nat) (k : Nat),
    (indexEntries cache cf es k).length = es.length := by
  intro es; induction es with
  | nil => intro _; rfl
  | cons e es ih => intro k; simp [indexEntries, ih]

theorem two_le_pow_off (off tot : Nat) (h2 : 2 ≤ tot) (h : tot < 256 ^ off) : off ≠ 0 := by
  intro h0; subst h0; simp at h; omega

/-! ### flag bytes of the three constructors -/

theorem readFlags_generic (idx crc cache : Bool) (size : Nat) (hs : size < 8) (r : Bytes) :
    readFlags ([0xb5, 0xee, 0x9c, 0x72] ++
      (128 * (if idx then 1 else 0) + 64 * (if crc then 1 else 0) + 32 * (if cache then 1 else 0) + size) :: r) =
      some { generic := true, hasIdx := idx, hasCrc := crc, hasCacheBits := cache, flags := 0, sizeBytes := size } := by
  have hs' : size = 0 ∨ size = 1 ∨ size = 2 ∨ size = 3 ∨ size = 4 ∨ size = 5 ∨ size = 6 ∨ size = 7 := by omega
  rcases hs' with rfl | rfl | rfl | rfl | rfl | rfl | rfl | rfl <;> cases idx <;> cases crc <;> cases cache <;>
    simp [readFlags, pySlice, magicGeneric] <;> decide

theorem readFlags_idx (size : Nat) (r : Bytes) :
    readFlags ([0x68, 0xff, 0x65, 0xf3] ++ size :: r) =
      some { generic := false, hasIdx := true, hasCrc := false, hasCacheBits := false, flags := 0, sizeBytes := size } := by
  simp [readFlags, pySlice, magicGeneric, magicIdx]

theorem readFlags_idxCrc (size : Nat) (r : Bytes) :
    readFlags ([0xac, 0xc3, 0xa7, 0x28] ++ size :: r) =
      some { generic := false, hasIdx := true, hasCrc := true, hasCacheBits := false, flags := 0, sizeBytes := size } := by
  simp [readFlags, pySlice, magicGeneric, magicIdx, magicIdxCrc]

/-! ### header of an encoding -/

theorem crcBytes_spec (body : Bytes) (h : Bytes.WF body) :
    Model.crc32c body = some (crcBytes body) ∧ (crcBytes body).length = 4 := by
  constructor
  · have := TonVerif.Properties.C18.c18_crc32c body h false
    simpa [crcBytes] using this
  · simp [crcBytes, Spec.le32]

/-- the byte layout shared by the three constructors (legacy ones: empty root list). -/
def layoutBody (M RL IDX CD : Bytes) (b4 off size n nr : Nat) : Bytes :=
  M ++ [b4] ++ [off] ++ (natToBE size n ++ natToBE size nr ++ natToBE size 0 ++ natToBE off CD.length) ++ RL ++ IDX ++ CD

theorem header_of_layout (M RL IDX CD : Bytes) (b4 off size n nr : Nat) (fl : Flags)
    (hM : M.length = 4) (hMwf : Bytes.WF M) (hfl : ∀ r, readFlags (M ++ b4 :: r) = some fl) (hsz : fl.sizeBytes = size)
    (hs1 : 1 ≤ size) (hn : n < 256 ^ size) (hnr : nr < 256 ^ size) (htot : CD.length < 256 ^ off) (hoff : off ≠ 0)
    (hb4 : b4 < 256) (hoff8 : off < 256)
    (hRL : RL.length = if fl.generic then nr * size else 0) (hleg : fl.generic = false → nr = 1)
    (hIDX : IDX.length = if fl.hasIdx then n * off else 0)
    (wRL : Bytes.WF RL) (wIDX : Bytes.WF IDX) (wCD : Bytes.WF CD) (data : Bytes)
    (hdata0 : data = if fl.hasCrc then layoutBody M RL IDX CD b4 off size n nr ++ crcBytes (layoutBody M RL IDX CD b4 off size n nr)
      else layoutBody M RL IDX CD b4 off size n nr) :
    ∃ h, deserializeBocHeader data = some h ∧ h.fl = fl ∧ h.cellsNum = n ∧ h.cellsData = CD ∧
      h.rootList = (if fl.generic then uintsAt data (6 + 3 * size + off) size nr else [0]) ∧ Bytes.WF data := by
  generalize hbd : layoutBody M RL IDX CD b4 off size n nr = body at hdata0
  unfold layoutBody at hbd
  have hbody : body = M ++ b4 :: off :: (natToBE size n ++ natToBE size nr ++ natToBE size 0 ++ natToBE off CD.length ++ RL ++ IDX ++ CD) := by
    rw [← hbd]; simp [List.append_assoc]
  have wbody : Bytes.WF body := by
    rw [hbody]
    refine wf_append hMwf ?_
    intro x hx
    simp only [List.mem_cons] at hx
    rcases hx with rfl | rfl | hx
    · exact hb4
    · exact hoff8
    · exact wf_append (wf_append (wf_append (wf_append (wf_append (wf_append (natToBE_wf _ _) (natToBE_wf _ _)) (natToBE_wf _ _))
        (natToBE_wf _ _)) wRL) wIDX) wCD x hx
  obtain ⟨k1, k2⟩ := crcBytes_spec body wbody
  have e1 := natOfBE_natToBE size n hn
  have e2 := natOfBE_natToBE size nr hnr
  have e3 := natOfBE_natToBE size 0 (Nat.pow_pos (by omega))
  have e4 := natOfBE_natToBE off CD.length htot
  subst hsz
  obtain ⟨rl, idx, hh, hrl⟩ := header_layout M (natToBE fl.sizeBytes n) (natToBE fl.sizeBytes nr) (natToBE fl.sizeBytes 0)
    (natToBE off CD.length) RL IDX CD (if fl.hasCrc then crcBytes body else []) b4 off fl hM hfl hs1
    (natToBE_length _ _) (natToBE_length _ _) (natToBE_length _ _) (natToBE_length _ _)
    (by rw [e2]; exact hRL) (by rw [e2]; exact hleg) (by rw [e1]; exact hIDX) hoff (by rw [e4])
    (by rw [← hbody]; split
        · exact ⟨k1, k2⟩
        · rfl)
  have hdata : data = M ++ b4 :: off :: (natToBE fl.sizeBytes n ++ natToBE fl.sizeBytes nr ++ natToBE fl.sizeBytes 0 ++
      natToBE off CD.length ++ RL ++ IDX ++ CD) ++ (if fl.hasCrc then crcBytes body else []) := by
    rw [hdata0, ← hbody]; split <;> simp
  rw [← hdata] at hh hrl
  refine ⟨_, hh, rfl, ?_, rfl, ?_, ?_⟩
  · simp [e1]
  · simp only [hrl, e2]
  · rw [hdata0]
    split
    · refine wf_append wbody ?_
      intro b hb
      simp only [crcBytes, List.mem_map] at hb
      obtain ⟨x, _, rfl⟩ := hb
      exact x.isLt
    · exact wbody

/-! ### acceptance of every valid encoding -/

theorem recOK_of_cellsOK (size : Nat) (cells : List SCell) (h : CellsOK cells) (hn : cells.length < 256 ^ size) :
    ∀ c ∈ cells, RecOK size c := by
  intro c hc
  obtain ⟨pos, hpos, rfl⟩ := List.getElem_of_mem hc
  obtain ⟨a, b, r, e, m, hh, h32, d⟩ := h pos hpos
  exact ⟨a, b, fun x hx => by have := (r x hx).2; omega, e, m, hh, h32, d⟩

theorem roots_lookup {α β : Type} (f : α → β) (all : List α) : ∀ (roots : List Nat), (∀ r ∈ roots, r < all.length) →
    ∃ out, roots.mapM (fun r => all[r]?) = some out ∧ roots.mapM (fun r => (all.map f)[r]?) = some (out.map f) ∧
      ∀ p ∈ out, p ∈ all := by
  intro roots
  induction roots with
  | nil => intro _; exact ⟨[], by simp⟩
  | cons r rs ih =>
    intro h
    obtain ⟨out, h1, h2, h3⟩ := ih (fun x hx => h x (List.mem_cons_of_mem _ hx))
    have hr : r < all.length := h r List.mem_cons_self
    refine ⟨all[r] :: out, ?_, ?_, ?_⟩
    · rw [List.mapM_cons, List.getElem?_eq_getElem hr, h1]; rfl
    · rw [List.mapM_cons, List.getElem?_map, List.getElem?_eq_getElem hr, h2]; rfl
    · intro p hp
      rcases List.mem_cons.mp hp with rfl | hp
      · exact List.getElem_mem hr
      · exact h3 p hp

/-- the header of every valid encoding is accepted and yields the listing's data. -/
theorem encode_header (fr : Freedoms) (cells : List SCell) (roots : List Nat) (hv : Valid fr cells roots) :
    ∃ h, deserializeBocHeader (encodeWith fr cells roots) = some h ∧ h.fl.sizeBytes = fr.size ∧
      h.cellsNum = cells.length ∧ h.cellsData = (records fr.size fr.storeHashes cells 0).flatten ∧ h.rootList = roots ∧
      h.fl.hasCrc = fr.withCrc ∧ Bytes.WF (encodeWith fr cells roots) := by
  obtain ⟨hcells, hs1, hs4, hn, hoff8, htot, hm⟩ := hv
  have hrec := recOK_of_cellsOK fr.size cells hcells hn
  have wCD : Bytes.WF (records fr.size fr.storeHashes cells 0).flatten := wf_flatten _ (records_wf _ _ _ _ hrec)
  have htot' : ((records fr.size fr.storeHashes cells 0).flatten).length < 256 ^ fr.offBytes := by
    simp only at htot; split at htot <;> omega
  have hidxlen : ((indexEntries fr.withCache fr.cacheFlags (endOffsets (records fr.size fr.storeHashes cells 0) 0) 0).flatMap
      (natToBE fr.offBytes)).length = cells.length * fr.offBytes := by
    rw [flatMap_length_uniform _ _ (natToBE_length _), indexEntries_length, endOffsets_length, records_length]
  have h256 : (256 : Nat) ≤ 256 ^ fr.size := by
    calc 256 = 256 ^ 1 := by simp
      _ ≤ 256 ^ fr.size := Nat.pow_le_pow_right (by omega) hs1
  cases hmg : fr.magic with
  | generic =>
    rw [hmg] at hm
    obtain ⟨hr0, hrlt, hrn, hci⟩ := hm
    have hpos : 0 < cells.length := by
      cases roots with
      | nil => exact absurd rfl hr0
      | cons r rs => have := hrlt r List.mem_cons_self; omega
    have hoff := two_le_pow_off _ _ (records_flatten_ge fr.size fr.storeHashes cells 0 hpos) htot'
    obtain ⟨h, h1, h2, h3, h4, h5, h6⟩ := header_of_layout [0xb5, 0xee, 0x9c, 0x72] (roots.flatMap (natToBE fr.size))
      (if fr.hasIdx then (indexEntries fr.withCache fr.cacheFlags (endOffsets (records fr.size fr.storeHashes cells 0) 0) 0).flatMap
        (natToBE fr.offBytes) else [])
      (records fr.size fr.storeHashes cells 0).flatten
      (128 * (if fr.hasIdx then 1 else 0) + 64 * (if fr.hasCrc then 1 else 0) + 32 * (if fr.hasCacheBits then 1 else 0) + fr.size)
      fr.offBytes fr.size cells.length roots.length
      { generic := true, hasIdx := fr.hasIdx, hasCrc := fr.hasCrc, hasCacheBits := fr.hasCacheBits, flags := 0, sizeBytes := fr.size }
      rfl (by decide) (fun r => readFlags_generic _ _ _ _ (by omega) r) rfl hs1 hn hrn htot' hoff
      (by split <;> split <;> split <;> omega) (by omega)
      (by simp [flatMap_length_uniform _ _ (natToBE_length fr.size)]) (by simp)
      (by cases fr.hasIdx <;> simp [hidxlen])
      (wf_flatMap_be' _ _) (by split; exact wf_flatMap_be' _ _; intro b hb; cases hb) wCD
      (encodeWith fr cells roots)
      (by simp only [encodeWith, encodeBody, Freedoms.withCrc, hmg, Magic.bytes, layoutBody])
    refine ⟨h, h1, by rw [h2], h3, h4, ?_, by rw [h2]; simp [Freedoms.withCrc, hmg], h6⟩
    rw [h5]
    simp only [if_true]
    -- the root list is read back
    have hbody : ∃ pre post0, encodeBody fr cells roots = pre ++ roots.flatMap (natToBE fr.size) ++ post0 ∧
        pre.length = 6 + 3 * fr.size + fr.offBytes := by
      refine ⟨[0xb5, 0xee, 0x9c, 0x72] ++ [128 * (if fr.hasIdx then 1 else 0) + 64 * (if fr.hasCrc then 1 else 0) + 32 * (if fr.hasCacheBits then 1 else 0) + fr.size]
          ++ [fr.offBytes] ++ (natToBE fr.size cells.length ++ natToBE fr.size roots.length ++ natToBE fr.size 0 ++
            natToBE fr.offBytes (records fr.size fr.storeHashes cells 0).flatten.length),
        (if fr.hasIdx then (indexEntries fr.withCache fr.cacheFlags (endOffsets (records fr.size fr.storeHashes cells 0) 0) 0).flatMap
            (natToBE fr.offBytes) else []) ++ (records fr.size fr.storeHashes cells 0).flatten, ?_, ?_⟩
      · simp only [encodeBody, hmg, Magic.bytes, List.append_assoc]
      · simp [natToBE_length]; omega
    obtain ⟨pre, post0, hb1, hb2⟩ := hbody
    have hform : ∃ post, encodeWith fr cells roots = pre ++ roots.flatMap (natToBE fr.size) ++ post := by
      refine ⟨if fr.withCrc then post0 ++ crcBytes (encodeBody fr cells roots) else post0, ?_⟩
      simp only [encodeWith]
      split
      · generalize crcBytes (encodeBody fr cells roots) = C
        rw [hb1]; simp only [List.append_assoc]
      · exact hb1
    obtain ⟨post, e1⟩ := hform
    have e2 := hb2
    rw [e1]
    exact uintsAt_flatMap fr.size roots (fun r hr => by have := hrlt r hr; omega) pre post _ e2.symm
  | idx =>
    rw [hmg] at hm
    obtain ⟨hr0, hpos⟩ := hm
    subst hr0
    have hoff := two_le_pow_off _ _ (records_flatten_ge fr.size fr.storeHashes cells 0 hpos) htot'
    obtain ⟨h, h1, h2, h3, h4, h5, h6⟩ := header_of_layout [0x68, 0xff, 0x65, 0xf3] []
      ((indexEntries fr.withCache fr.cacheFlags (endOffsets (records fr.size fr.storeHashes cells 0) 0) 0).flatMap (natToBE fr.offBytes))
      (records fr.size fr.storeHashes cells 0).flatten fr.size fr.offBytes fr.size cells.length 1
      { generic := false, hasIdx := true, hasCrc := false, hasCacheBits := false, flags := 0, sizeBytes := fr.size }
      rfl (by decide) (fun r => readFlags_idx _ r) rfl hs1 hn (by omega) htot' hoff (by omega) (by omega)
      (by simp) (by simp) (by simp [hidxlen])
      (by intro b hb; cases hb) (wf_flatMap_be' _ _) wCD
      (encodeWith fr cells [0])
      (by simp [encodeWith, encodeBody, Freedoms.withCrc, hmg, Magic.bytes, layoutBody, List.append_assoc])
    refine ⟨h, h1, by rw [h2], h3, h4, ?_, by rw [h2]; simp [Freedoms.withCrc, hmg], h6⟩
    rw [h5]; simp
  | idxCrc =>
    rw [hmg] at hm
    obtain ⟨hr0, hpos⟩ := hm
    subst hr0
    have hoff := two_le_pow_off _ _ (records_flatten_ge fr.size fr.storeHashes cells 0 hpos) htot'
    obtain ⟨h, h1, h2, h3, h4, h5, h6⟩ := header_of_layout [0xac, 0xc3, 0xa7, 0x28] []
      ((indexEntries fr.withCache fr.cacheFlags (endOffsets (records fr.size fr.storeHashes cells 0) 0) 0).flatMap (natToBE fr.offBytes))
      (records fr.size fr.storeHashes cells 0).flatten fr.size fr.offBytes fr.size cells.length 1
      { generic := false, hasIdx := true, hasCrc := true, hasCacheBits := false, flags := 0, sizeBytes := fr.size }
      rfl (by decide) (fun r => readFlags_idxCrc _ r) rfl hs1 hn (by omega) htot' hoff (by omega) (by omega)
      (by simp) (by simp) (by simp [hidxlen])
      (by intro b hb; cases hb) (wf_flatMap_be' _ _) wCD
      (encodeWith fr cells [0])
      (by simp [encodeWith, encodeBody, Freedoms.withCrc, hmg, Magic.bytes, layoutBody, List.append_assoc])
    refine ⟨h, h1, by rw [h2], h3, h4, ?_, by rw [h2]; simp [Freedoms.withCrc, hmg], h6⟩
    rw [h5]; simp

theorem denoteFrom_length : ∀ (cs : List SCell) (base : Nat) (trees : List Cell),
    denoteFrom cs base = some trees → trees.length = cs.length := by
  intro cs; induction cs with
  | nil => intro base trees h; simp [denoteFrom] at h; subst h; rfl
  | cons c cs ih =>
    intro base trees h
    simp only [denoteFrom] at h
    cases hl : denoteFrom cs (base + 1) with
    | none => simp [hl] at h
    | some lt =>
      simp only [hl, Option.bind_some] at h
      cases hk : c.refs.mapM (fun r => if r ≤ base then none else lt[r - base - 1]?) with
      | none => simp [hk] at h
      | some kids =>
        simp only [hk, Option.map_some, Option.some.injEq] at h
        subst h; simp [ih _ _ hl]

/-- ACCEPTANCE: every valid encoding parses to exactly the denoted roots. -/
theorem encode_accepts (H : Bytes → Bytes) (fr : Freedoms) (cells : List SCell) (roots : List Nat)
    (hv : Valid fr cells roots) (trees : List Cell) (hden : denote cells = some trees)
    (hcon : ∀ t ∈ trees, (Cell.info H t).isSome) :
    ∃ out, fromBoc H (encodeWith fr cells roots) = some out ∧
      roots.mapM (fun r => trees[r]?) = some (out.map (·.1)) ∧ ∀ p ∈ out, Cell.info H p.1 = some p.2 := by
  obtain ⟨h, h1, h2, h3, h4, h5, -, -⟩ := encode_header fr cells roots hv
  have hrec := recOK_of_cellsOK fr.size cells hv.1 hv.2.2.2.1
  have hcells := readCells_records fr.size fr.storeHashes cells 0 [] hrec
  rw [List.append_nil] at hcells
  obtain ⟨all, r1, r2, r3⟩ := rebuild_denote H cells 0 trees hden hcon
  have hlen : all.length = cells.length := by
    have := denoteFrom_length cells 0 trees hden
    rw [← r2] at this; simpa using this
  have hroots : ∀ r ∈ roots, r < all.length := by
    rw [hlen]
    have hm := hv.2.2.2.2.2.2
    cases hmg : fr.magic with
    | generic => rw [hmg] at hm; exact hm.2.1
    | idx => rw [hmg] at hm; intro r hr; rw [hm.1] at hr; simp at hr; omega
    | idxCrc => rw [hmg] at hm; intro r hr; rw [hm.1] at hr; simp at hr; omega
  obtain ⟨out, o1, o2, o3⟩ := roots_lookup (·.1) all roots hroots
  refine ⟨out, ?_, ?_, fun p hp => r3 p (o3 p hp)⟩
  · unfold fromBoc deserialize
    simp only [h1, Option.bind_some, h2, h3, h4, hcells, r1, h5, o1]
  · rw [← r2]; exact o2

end TonVerif.Proofs.BocParse
