/-
Input forms of `Boc.__init__`: hex text and base64 text of a serialised bag of cells
are decoded to the same bytes as the raw `bytes` input.
-/
import TonVerif.Model.BocForms

namespace TonVerif.Proofs.BocForms
open TonVerif TonVerif.Model.BocForms

/-! ### sanity checks of the encoders / decoders against known values -/

example : hexEnc [181, 238] = ['b', '5', 'e', 'e'] := by decide
example : hexEncUpper [181, 238] = ['B', '5', 'E', 'E'] := by decide
example : hexEnc [181, 238, 156, 114] = ['b', '5', 'e', 'e', '9', 'c', '7', '2'] := by decide
example : fromHex [' ', 'b', '5', ' ', 'E', 'E', '\n', '9', 'c', '7', '2', ' '] = some [181, 238, 156, 114] := by decide
example : fromHex ['b', '5', 'e'] = none := by decide
example : fromHex ['b', ' ', '5'] = none := by decide
example : b64Enc (['f', 'o', 'o', 'b', 'a', 'r'].map Char.toNat) = ['Z', 'm', '9', 'v', 'Y', 'm', 'F', 'y'] := by decide
example : b64Enc [102] = ['Z', 'g', '=', '='] := by decide
example : b64Enc [102, 111] = ['Z', 'm', '8', '='] := by decide
example : b64Enc [102, 111, 111] = ['Z', 'm', '9', 'v'] := by decide
example : b64Enc [251, 255, 254] = ['+', '/', '/', '+'] := by decide
example : b64Enc [181, 238, 156, 114, 1, 2, 3] = ['t', 'e', '6', 'c', 'c', 'g', 'E', 'C', 'A', 'w', '=', '='] := by decide
example : b64Dec ['Z', 'm', '9', 'v', '\n', 'Y', 'm', 'F', 'y'] = some [102, 111, 111, 98, 97, 114] := by decide
example : b64Dec ['Z', 'g', '=', '='] = some [102] := by decide
example : b64Dec ['Z', 'g', '='] = none := by decide
example : b64Dec ['Z', 'm', '9', 'v', 'Y'] = none := by decide
example : b64Dec ['Z', 'm', '9', 'v', '=', 'Z', 'm', '9', 'v'] = some [102, 111, 111, 102, 111, 111] := by decide
example : b64Dec ['Z', 'g', '=', '=', 'Z', 'm', '9', 'v'] = some [102] := by decide
example : b64Dec ['Z', 'g', '=', 'a', '='] = some [102, 6] := by decide
example : b64Dec ['Z', '=', 'g', '=', '='] = some [102] := by decide
example : b64Dec ['Z', 'g', '=', '=', 'é'] = none := by decide
example : Bytes.WF [181, 238, 156, 114, 1, 2, 3] := by decide
example : inputBytes (.inr ['t', 'e', '6', 'c', 'c', 'g', 'E', 'C', 'A', 'w', '=', '=']) = some [181, 238, 156, 114, 1, 2, 3] := by decide
example : inputBytes (.inr ['b', '5', 'e', 'e', '9', 'c', '7', '2', '0', '1', '0', '2', '0', '3']) = some [181, 238, 156, 114, 1, 2, 3] := by decide

/-! ### characters -/

theorem hexVal_hexDigit : ∀ n, n < 16 → hexVal? (hexDigit n) = some n := by decide
theorem hexVal_hexDigitUpper : ∀ n, n < 16 → hexVal? (hexDigitUpper n) = some n := by decide
theorem space_hexDigit : ∀ n, n < 16 → isAsciiSpace (hexDigit n) = false := by decide
theorem space_hexDigitUpper : ∀ n, n < 16 → isAsciiSpace (hexDigitUpper n) = false := by decide

theorem b64Val_b64Char : ∀ n, n < 64 → b64Val? (b64Char n) = some n := by decide
theorem b64Char_ne_pad : ∀ n, n < 64 → b64Char n ≠ '=' := by decide
theorem b64Char_ascii : ∀ n, n < 64 → isAscii (b64Char n) = true := by decide

/-! ### hex round trip -/

theorem fromHex_nil : fromHex [] = some [] := rfl

/-- ASCII whitespace before a byte pair is skipped. -/
theorem fromHex_space (c : Char) (rest : List Char) (hs : isAsciiSpace c = true) :
    fromHex (c :: rest) = fromHex rest := by
  simp [fromHex, fromHexGo, hs]

/-- one byte pair. -/
theorem fromHex_pair (c d : Char) (x y : Nat) (rest : List Char)
    (hs : isAsciiSpace c = false) (hc : hexVal? c = some x) (hd : hexVal? d = some y) :
    fromHex (c :: d :: rest) = (fromHex rest).map (fun r => (x * 16 + y) :: r) := by
  simp [fromHex, fromHexGo, hs, hc, hd]

/-- a lone digit at the end of the input is an error. -/
theorem fromHex_single (c : Char) (hs : isAsciiSpace c = false) : fromHex [c] = none := by
  cases h : hexVal? c <;> simp [fromHex, fromHexGo, hs, h]

theorem fromHex_hexEnc (b : Bytes) (h : Bytes.WF b) : fromHex (hexEnc b) = some b := by
  induction b with
  | nil => rfl
  | cons a rest ih =>
    have ha : a < 256 := h a (by simp)
    have hr : Bytes.WF rest := fun x hx => h x (by simp [hx])
    have ih' : fromHex (hexEnc rest) = some rest := ih hr
    have e : hexEnc (a :: rest) = hexDigit (a / 16) :: hexDigit (a % 16) :: hexEnc rest := by
      simp [hexEnc]
    rw [e, fromHex_pair _ _ (a / 16) (a % 16) _ (space_hexDigit _ (by omega))
      (hexVal_hexDigit _ (by omega)) (hexVal_hexDigit _ (by omega)), ih']
    simp only [Option.map_some]
    congr 2
    omega

theorem fromHex_hexEncUpper (b : Bytes) (h : Bytes.WF b) : fromHex (hexEncUpper b) = some b := by
  induction b with
  | nil => rfl
  | cons a rest ih =>
    have ha : a < 256 := h a (by simp)
    have hr : Bytes.WF rest := fun x hx => h x (by simp [hx])
    have ih' : fromHex (hexEncUpper rest) = some rest := ih hr
    have e : hexEncUpper (a :: rest)
        = hexDigitUpper (a / 16) :: hexDigitUpper (a % 16) :: hexEncUpper rest := by
      simp [hexEncUpper]
    rw [e, fromHex_pair _ _ (a / 16) (a % 16) _ (space_hexDigitUpper _ (by omega))
      (hexVal_hexDigitUpper _ (by omega)) (hexVal_hexDigitUpper _ (by omega)), ih']
    simp only [Option.map_some]
    congr 2
    omega

/-! ### base64 round trip -/

theorem b64Go_char0 (n : Nat) (hn : n < 64) (cs : List Char) (l p : Nat) :
    b64Go (b64Char n :: cs) 0 l p = b64Go cs 1 n 0 := by
  rw [b64Go]; simp [b64Char_ne_pad n hn, b64Val_b64Char n hn]

theorem b64Go_char1 (n : Nat) (hn : n < 64) (cs : List Char) (l p : Nat) :
    b64Go (b64Char n :: cs) 1 l p
      = (b64Go cs 2 (n % 16) 0).map (fun r => (l * 4 + n / 16) :: r) := by
  rw [b64Go]; simp [b64Char_ne_pad n hn, b64Val_b64Char n hn]

theorem b64Go_char2 (n : Nat) (hn : n < 64) (cs : List Char) (l p : Nat) :
    b64Go (b64Char n :: cs) 2 l p
      = (b64Go cs 3 (n % 4) 0).map (fun r => (l * 16 + n / 4) :: r) := by
  rw [b64Go]; simp [b64Char_ne_pad n hn, b64Val_b64Char n hn]

theorem b64Go_char3 (n : Nat) (hn : n < 64) (cs : List Char) (l p : Nat) :
    b64Go (b64Char n :: cs) 3 l p
      = (b64Go cs 0 0 0).map (fun r => (l * 64 + n) :: r) := by
  rw [b64Go]; simp [b64Char_ne_pad n hn, b64Val_b64Char n hn]

/-- one full group of three bytes. -/
theorem b64Go_group (a b c : Nat) (ha : a < 256) (hb : b < 256) (hc : c < 256)
    (cs : List Char) (l p : Nat) :
    b64Go (b64Char (a / 4) :: b64Char (a % 4 * 16 + b / 16) :: b64Char (b % 16 * 4 + c / 64)
        :: b64Char (c % 64) :: cs) 0 l p
      = (b64Go cs 0 0 0).map (fun r => a :: b :: c :: r) := by
  rw [b64Go_char0 _ (by omega), b64Go_char1 _ (by omega), b64Go_char2 _ (by omega),
    b64Go_char3 _ (by omega)]
  have e1 : a / 4 * 4 + (a % 4 * 16 + b / 16) / 16 = a := by omega
  have e2 : (a % 4 * 16 + b / 16) % 16 * 16 + (b % 16 * 4 + c / 64) / 4 = b := by omega
  have e3 : (b % 16 * 4 + c / 64) % 4 * 64 + c % 64 = c := by omega
  rw [e1, e2, e3]
  cases b64Go cs 0 0 0 <;> rfl

theorem b64Go_b64Enc : ∀ (b : Bytes), Bytes.WF b → b64Go (b64Enc b) 0 0 0 = some b
  | [], _ => by simp [b64Enc, b64Go]
  | [a], h => by
    have ha : a < 256 := h a (by simp)
    rw [b64Enc, b64Go_char0 _ (by omega), b64Go_char1 _ (by omega)]
    have e1 : a / 4 * 4 + a % 4 * 16 / 16 = a := by omega
    rw [e1]
    rfl
  | [a, b], h => by
    have ha : a < 256 := h a (by simp)
    have hb : b < 256 := h b (by simp)
    rw [b64Enc, b64Go_char0 _ (by omega), b64Go_char1 _ (by omega), b64Go_char2 _ (by omega)]
    have e1 : a / 4 * 4 + (a % 4 * 16 + b / 16) / 16 = a := by omega
    have e2 : (a % 4 * 16 + b / 16) % 16 * 16 + b % 16 * 4 / 4 = b := by omega
    rw [e1, e2]
    rfl
  | a :: b :: c :: rest, h => by
    have ha : a < 256 := h a (by simp)
    have hb : b < 256 := h b (by simp)
    have hc : c < 256 := h c (by simp)
    have hr : Bytes.WF rest := fun x hx => h x (by simp [hx])
    rw [b64Enc, b64Go_group a b c ha hb hc, b64Go_b64Enc rest hr]
    rfl

theorem b64Enc_ascii : ∀ (b : Bytes), Bytes.WF b → (b64Enc b).all isAscii = true
  | [], _ => by simp [b64Enc]
  | [a], h => by
    have ha : a < 256 := h a (by simp)
    simp [b64Enc, b64Char_ascii (a / 4) (by omega), b64Char_ascii (a % 4 * 16) (by omega)]
    decide
  | [a, b], h => by
    have ha : a < 256 := h a (by simp)
    have hb : b < 256 := h b (by simp)
    simp [b64Enc, b64Char_ascii (a / 4) (by omega),
      b64Char_ascii (a % 4 * 16 + b / 16) (by omega), b64Char_ascii (b % 16 * 4) (by omega)]
    decide
  | a :: b :: c :: rest, h => by
    have ha : a < 256 := h a (by simp)
    have hb : b < 256 := h b (by simp)
    have hc : c < 256 := h c (by simp)
    have hr : Bytes.WF rest := fun x hx => h x (by simp [hx])
    simp [b64Enc, b64Char_ascii (a / 4) (by omega),
      b64Char_ascii (a % 4 * 16 + b / 16) (by omega),
      b64Char_ascii (b % 16 * 4 + c / 64) (by omega), b64Char_ascii (c % 64) (by omega)]
    simpa using b64Enc_ascii rest hr

theorem b64Dec_b64Enc (b : Bytes) (h : Bytes.WF b) : b64Dec (b64Enc b) = some b := by
  simp [b64Dec, b64Enc_ascii b h, b64Go_b64Enc b h]

/-! ### the magic bytes fix the first five base64 characters -/

/-- the first base64 character only depends on the first byte. -/
theorem b64Enc_cons (a : Nat) (rest : Bytes) :
    ∃ t, b64Enc (a :: rest) = b64Char (a / 4) :: t := by
  match rest with
  | [] => exact ⟨_, by rw [b64Enc]⟩
  | [b] => exact ⟨_, by rw [b64Enc]⟩
  | b :: c :: r => exact ⟨_, by rw [b64Enc]⟩

theorem b64Enc_magicBoc (rest : Bytes) :
    ∃ t, b64Enc ([181, 238, 156, 114] ++ rest) = 't' :: 'e' :: '6' :: 'c' :: 'c' :: t := by
  obtain ⟨t, ht⟩ := b64Enc_cons 114 rest
  refine ⟨t, ?_⟩
  show b64Enc (181 :: 238 :: 156 :: 114 :: rest) = _
  rw [b64Enc, ht]
  rfl

theorem b64Enc_magicLeanBoc (rest : Bytes) :
    ∃ t, b64Enc ([104, 255, 101, 243] ++ rest) = 'a' :: 'P' :: '9' :: 'l' :: '8' :: t := by
  obtain ⟨t, ht⟩ := b64Enc_cons 243 rest
  refine ⟨t, ?_⟩
  show b64Enc (104 :: 255 :: 101 :: 243 :: rest) = _
  rw [b64Enc, ht]
  rfl

theorem b64Enc_magicLeanBocCrc (rest : Bytes) :
    ∃ t, b64Enc ([172, 195, 167, 40] ++ rest) = 'r' :: 'M' :: 'O' :: 'n' :: 'K' :: t := by
  obtain ⟨t, ht⟩ := b64Enc_cons 40 rest
  refine ⟨t, ?_⟩
  show b64Enc (172 :: 195 :: 167 :: 40 :: rest) = _
  rw [b64Enc, ht]
  rfl

theorem b64_magic_prefix (rest : Bytes) :
    (b64Enc ([181, 238, 156, 114] ++ rest)).take 5 = ['t', 'e', '6', 'c', 'c'] := by
  obtain ⟨t, ht⟩ := b64Enc_magicBoc rest
  rw [ht]; rfl

theorem b64_magic_prefix_leanBoc (rest : Bytes) :
    (b64Enc ([104, 255, 101, 243] ++ rest)).take 5 = ['a', 'P', '9', 'l', '8'] := by
  obtain ⟨t, ht⟩ := b64Enc_magicLeanBoc rest
  rw [ht]; rfl

theorem b64_magic_prefix_leanBocCrc (rest : Bytes) :
    (b64Enc ([172, 195, 167, 40] ++ rest)).take 5 = ['r', 'M', 'O', 'n', 'K'] := by
  obtain ⟨t, ht⟩ := b64Enc_magicLeanBocCrc rest
  rw [ht]; rfl

/-! ### base64 text of a bag of cells is never accepted by `fromhex` -/

/-- first character is neither whitespace nor a hex digit. -/
theorem fromHex_none_of_nonhex_head (c : Char) (s : List Char)
    (hs : isAsciiSpace c = false) (hh : hexVal? c = none) : fromHex (c :: s) = none := by
  simp [fromHex, fromHexGo, hs, hh]

/-- first character is not whitespace and the second one is not a hex digit
(whitespace is not allowed inside a byte pair either). -/
theorem fromHex_none_of_nonhex_second (c d : Char) (s : List Char)
    (hs : isAsciiSpace c = false) (hd : hexVal? d = none) : fromHex (c :: d :: s) = none := by
  cases h : hexVal? c <;> simp [fromHex, fromHexGo, hs, hd, h]

/-- a character that is neither whitespace nor a hex digit within the first byte pair. -/
theorem fromHex_none_of_nonhex_first_pair (c d : Char) (s : List Char)
    (hs : isAsciiSpace c = false) (h : hexVal? c = none ∨ hexVal? d = none) :
    fromHex (c :: d :: s) = none := by
  rcases h with h | h
  · exact fromHex_none_of_nonhex_head c _ hs h
  · exact fromHex_none_of_nonhex_second c d s hs h

theorem fromHex_b64_magic (rest : Bytes) :
    fromHex (b64Enc ([181, 238, 156, 114] ++ rest)) = none := by
  obtain ⟨t, ht⟩ := b64Enc_magicBoc rest
  rw [ht]
  exact fromHex_none_of_nonhex_head 't' _ (by decide) (by decide)

theorem fromHex_b64_magic_leanBoc (rest : Bytes) :
    fromHex (b64Enc ([104, 255, 101, 243] ++ rest)) = none := by
  obtain ⟨t, ht⟩ := b64Enc_magicLeanBoc rest
  rw [ht]
  exact fromHex_none_of_nonhex_second 'a' 'P' _ (by decide) (by decide)

theorem fromHex_b64_magic_leanBocCrc (rest : Bytes) :
    fromHex (b64Enc ([172, 195, 167, 40] ++ rest)) = none := by
  obtain ⟨t, ht⟩ := b64Enc_magicLeanBocCrc rest
  rw [ht]
  exact fromHex_none_of_nonhex_head 'r' _ (by decide) (by decide)

/-! ### all three input forms give the same bytes -/

theorem inputBytes_hex (b : Bytes) (h : Bytes.WF b) :
    inputBytes (.inr (hexEnc b)) = inputBytes (.inl b) := by
  simp [inputBytes, fromHex_hexEnc b h]

theorem inputBytes_hexUpper (b : Bytes) (h : Bytes.WF b) :
    inputBytes (.inr (hexEncUpper b)) = inputBytes (.inl b) := by
  simp [inputBytes, fromHex_hexEncUpper b h]

/-- base64 text is decoded correctly whenever `fromhex` rejects it. -/
theorem inputBytes_b64_of_fromHex_none (b : Bytes) (h : Bytes.WF b)
    (hn : fromHex (b64Enc b) = none) :
    inputBytes (.inr (b64Enc b)) = inputBytes (.inl b) := by
  simp [inputBytes, hn, b64Dec_b64Enc b h]

theorem WF_append {a b : Bytes} (ha : Bytes.WF a) (hb : Bytes.WF b) : Bytes.WF (a ++ b) := by
  intro x hx
  rcases List.mem_append.mp hx with h | h
  · exact ha x h
  · exact hb x h

theorem inputBytes_b64 (rest : Bytes) (h : Bytes.WF rest) :
    inputBytes (.inr (b64Enc ([181, 238, 156, 114] ++ rest)))
      = inputBytes (.inl ([181, 238, 156, 114] ++ rest)) :=
  inputBytes_b64_of_fromHex_none _ (WF_append (by decide) h) (fromHex_b64_magic rest)

theorem inputBytes_b64_leanBoc (rest : Bytes) (h : Bytes.WF rest) :
    inputBytes (.inr (b64Enc ([104, 255, 101, 243] ++ rest)))
      = inputBytes (.inl ([104, 255, 101, 243] ++ rest)) :=
  inputBytes_b64_of_fromHex_none _ (WF_append (by decide) h) (fromHex_b64_magic_leanBoc rest)

theorem inputBytes_b64_leanBocCrc (rest : Bytes) (h : Bytes.WF rest) :
    inputBytes (.inr (b64Enc ([172, 195, 167, 40] ++ rest)))
      = inputBytes (.inl ([172, 195, 167, 40] ++ rest)) :=
  inputBytes_b64_of_fromHex_none _ (WF_append (by decide) h) (fromHex_b64_magic_leanBocCrc rest)

/-- all three magics at once. -/
theorem inputBytes_b64_magic (magic : Bytes)
    (hm : magic ∈ [[181, 238, 156, 114], [104, 255, 101, 243], [172, 195, 167, 40]])
    (rest : Bytes) (h : Bytes.WF rest) :
    inputBytes (.inr (b64Enc (magic ++ rest))) = inputBytes (.inl (magic ++ rest)) := by
  simp only [List.mem_cons, List.not_mem_nil, or_false] at hm
  rcases hm with rfl | rfl | rfl
  · exact inputBytes_b64 rest h
  · exact inputBytes_b64_leanBoc rest h
  · exact inputBytes_b64_leanBocCrc rest h

/-- the same with an explicit result. -/
theorem inputBytes_b64_magic_eq (magic : Bytes)
    (hm : magic ∈ [[181, 238, 156, 114], [104, 255, 101, 243], [172, 195, 167, 40]])
    (rest : Bytes) (h : Bytes.WF rest) :
    inputBytes (.inr (b64Enc (magic ++ rest))) = some (magic ++ rest) :=
  inputBytes_b64_magic magic hm rest h

end TonVerif.Proofs.BocForms
