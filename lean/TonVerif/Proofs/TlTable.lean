/-
The generated TL table (all bundled constructors) satisfies the id and well-formedness conditions:
assembled from the per-chunk kernel evaluations in TlTab0..3.
-/
import TonVerif.Proofs.TlTab0
import TonVerif.Proofs.TlTab1
import TonVerif.Proofs.TlTab2
import TonVerif.Proofs.TlTab3

namespace TonVerif.Proofs.TlTable
open TonVerif TonVerif.Spec.Tl TonVerif.Proofs.Tl TonVerif.Generated.Tl

theorem numChunks_le : chunks.length ≤ 32 := by decide

theorem ids_chunk (k : Nat) (h : k < 32) : idsOK (chunks.getD k []) = true := by
  by_cases h1 : k < 8
  · exact TlTab0.ids k (by omega) h1
  · by_cases h2 : k < 16
    · exact TlTab1.ids k (by omega) h2
    · by_cases h3 : k < 24
      · exact TlTab2.ids k (by omega) h3
      · exact TlTab3.ids k (by omega) h

theorem ok_chunk (k : Nat) (h : k < 32) : chunkAgree table (chunks.getD k []) = true := by
  by_cases h1 : k < 8
  · exact TlTab0.ok k (by omega) h1
  · by_cases h2 : k < 16
    · exact TlTab1.ok k (by omega) h2
    · by_cases h3 : k < 24
      · exact TlTab2.ok k (by omega) h3
      · exact TlTab3.ok k (by omega) h

/-- every constructor id in the generated table is the id of its declaration text. -/
theorem table_ids : ∀ c ∈ ctors, c.id = tlId c.decl := by
  intro c hc
  have := all_of_getD (fun (c : Ctor) => Nat.beq c.id (tlIdK c.decl)) chunks 32 numChunks_le ids_chunk c hc
  rw [tlIdK_eq] at this
  simpa using this

/-- the generated table satisfies the conditions of the round-trip theorem. -/
theorem table_ok : TableOK table := by
  intro c hc
  have hc' : c ∈ ctors := hc
  have := all_of_getD (fun (c : Ctor) => decide (c.id < 2 ^ 32) && condOK table [] c.args && agreeAll c table.ctors)
    chunks 32 numChunks_le ok_chunk c hc'
  exact ctorOK_of_agree table c hc this

end TonVerif.Proofs.TlTable
