/-
The dictionary parser and serialiser REGENERATED from the source (Generated/HashmapSrc.lean, translator
harness/translate/pyrec.py + hashmapsrc.py) equal the hand model Model/Hashmap.lean — for all inputs.

Part 1 (label reader): `deserialize_unary`, `deserialize_hml`.
Part 2 (parse recursion): `parse` / `deserialize_hashmap_node`, `parse_aug` / `deserialize_hashmap_aug_node`, `parse_hashmap`,
        `parse_hashmap_aug`; for EVERY fuel ≥ 2·key_length + 2.
Part 3 (serialiser): see below.

Conventions: a regenerated function returns its result together with the final values of the parameters it mutates; the
theorems project to the components a caller of the Python function can observe.
-/
import TonVerif.Generated.HashmapSrc
import TonVerif.Proofs.Hashmap
import TonVerif.Proofs.SrcArith

namespace TonVerif.Proofs.SrcHashmap
open TonVerif TonVerif.Model TonVerif.Model.Hashmap TonVerif.Spec.Hashmap TonVerif.Proofs.Hashmap
open TonVerif.Generated.HashmapSrc

/-! ### Part 1: the label reader -/

/-- the slice after its bits were replaced -/
def withBits (s : Py.Slice) (b : Bits) : Py.Slice := { s with bits := b }

@[simp] theorem withBits_kind (s : Py.Slice) (b : Bits) : (withBits s b).kind = s.kind := rfl
@[simp] theorem withBits_bits (s : Py.Slice) (b : Bits) : (withBits s b).bits = b := rfl
@[simp] theorem withBits_refs (s : Py.Slice) (b : Bits) : (withBits s b).refs = s.refs := rfl
@[simp] theorem withBits_withBits (s : Py.Slice) (a b : Bits) : withBits (withBits s a) b = withBits s b := rfl
@[simp] theorem withBits_self (s : Py.Slice) : withBits s s.bits = s := rfl

theorem loadBit_eq (s : Py.Slice) :
    s.loadBit? = match s.bits with | [] => none | b :: r => some (b, withBits s r) := by
  unfold Py.Slice.loadBit?; cases s.bits <;> rfl

theorem loadBits_eq (s : Py.Slice) (n : Nat) :
    s.loadBits? n = (loadBits n s.bits).map fun p => (p.1, withBits s p.2) := by
  unfold Py.Slice.loadBits? loadBits; split <;> rfl

theorem loadUint_eq (s : Py.Slice) (l : Nat) :
    s.loadUint? l = (loadUint l s.bits).map fun p => (p.1, withBits s p.2) := by
  unfold Py.Slice.loadUint? loadUint; split <;> rfl

/-- the `while r:` loop of `deserialize_unary`, for every loop fuel that is at least the number of remaining bits -/
theorem unary_loop (lf : Nat) : ∀ (n : Nat) (r : Bool) (ser : Py.Slice), ser.bits.length ≤ lf →
    deserialize_unary_while1 lf (n, r, ser) =
      if r then (readUnary ser.bits).map fun p => (n + 1 + p.1, false, withBits ser p.2) else some (n, false, ser) := by
  induction lf with
  | zero =>
    intro n r ser h
    have hb : ser.bits = [] := List.eq_nil_of_length_eq_zero (by omega)
    cases r <;> simp [deserialize_unary_while1, hb, readUnary]
  | succ lf ih =>
    intro n r ser h
    cases r with
    | false => simp [deserialize_unary_while1]
    | true =>
      simp only [deserialize_unary_while1, if_true, loadBit_eq]
      cases hb : ser.bits with
      | nil => simp [readUnary]
      | cons b rest =>
        have hl : (withBits ser rest).bits.length ≤ lf := by simp [hb] at h; simpa using h
        simp only [bind, Option.bind, ih (n + 1) b (withBits ser rest) hl]
        cases b with
        | false => simp [readUnary]
        | true =>
          simp only [if_true, readUnary, withBits_bits, withBits_withBits, Option.map_map]
          congr 1; funext p; simp; omega

/-- the declared loop variant loses nothing: every larger loop fuel gives the same result -/
theorem unary_loop_fuel_indep (lf n : Nat) (r : Bool) (ser : Py.Slice) (h : ser.bits.length ≤ lf) :
    deserialize_unary_while1 lf (n, r, ser) = deserialize_unary_while1 ser.bits.length (n, r, ser) := by
  rw [unary_loop lf n r ser h, unary_loop _ n r ser (Nat.le_refl _)]

/-- `deserialize_unary(ser)` = `readUnary` on the remaining bits -/
theorem deserialize_unary_eq (ser : Py.Slice) :
    deserialize_unary ser = (readUnary ser.bits).map fun p => (p.1, withBits ser p.2) := by
  unfold deserialize_unary
  simp only [loadBit_eq, bind, Option.bind, pure]
  cases hb : ser.bits with
  | nil => simp [readUnary]
  | cons b rest =>
    simp only [unary_loop _ 0 b (withBits ser rest) (Nat.le_refl _)]
    cases b with
    | false => simp [readUnary]
    | true =>
      simp only [if_true, withBits_bits, readUnary, Option.map_map]
      cases readUnary rest with
      | none => rfl
      | some p => simp; omega

theorem loadLen_py (m : Int) (bits : Bits) :
    loadLen m bits = if Py.bitLength m.natAbs ≠ 0 then loadUint (Py.bitLength m.natAbs) bits else some (0, bits) := by
  unfold loadLen; rw [SrcArith.py_bitLength_eq]; by_cases h : bitLength m.natAbs = 0 <;> simp [h]

/-- REGENERATED `deserialize_hml(ser, m)` = the hand model's `deserializeHml` on the remaining bits, for EVERY slice and EVERY
int `m`: same decision to raise (out of bits, `load_uint` of a missing field, label longer than the remaining key), same length,
same label bits, same remaining bits. -/
theorem deserialize_hml_eq (ser : Py.Slice) (m : Int) :
    deserialize_hml ser m = (deserializeHml ser.bits m).map fun t => ((t.1, t.2.1), withBits ser t.2.2) := by
  unfold deserialize_hml deserializeHml
  simp only [loadBit_eq, deserialize_unary_eq, loadBits_eq, loadUint_eq, Option.bind_eq_bind, Option.pure_def]
  rcases hb : ser.bits with _ | ⟨b0, r0⟩
  · simp [readHml]
  rcases b0 with _ | _
  · simp only [readHml, Option.bind_eq_bind]
    rcases h1 : readUnary r0 with _ | ⟨n, r1⟩
    · simp [h1]
    · rcases h2 : loadBits n r1 with _ | ⟨s, r2⟩
      · simp [h1, h2]
      · by_cases hgt : (n : Int) > m <;> simp [h1, h2, hgt]
  rcases r0 with _ | ⟨b1, r1⟩
  · simp [readHml]
  rcases b1 with _ | _
  · simp only [readHml, Option.bind_eq_bind, loadLen_py]
    by_cases hl : Py.bitLength m.natAbs ≠ 0
    · rcases h1 : loadUint (Py.bitLength m.natAbs) r1 with _ | ⟨n, r2⟩
      · simp [hl, h1]
      · rcases h2 : loadBits n r2 with _ | ⟨s, r3⟩
        · simp [hl, h1, h2]
        · by_cases hgt : (n : Int) > m <;> simp [hl, h1, h2, hgt]
    · rcases h2 : loadBits 0 r1 with _ | ⟨s, r3⟩
      · simp [hl, h2]
      · by_cases hgt : m < 0 <;> simp [hl, h2, hgt]
  rcases r1 with _ | ⟨v, r2⟩
  · simp [readHml]
  · simp only [readHml, Option.bind_eq_bind, loadLen_py]
    by_cases hl : Py.bitLength m.natAbs ≠ 0
    · rcases h1 : loadUint (Py.bitLength m.natAbs) r2 with _ | ⟨n, r3⟩
      · simp [hl, h1]
      · by_cases hgt : (n : Int) > m <;> simp [hl, h1, hgt]
    · by_cases hgt : m < 0 <;> simp [hl, hgt]

/-! ### Part 2: the parse recursion -/

/-- the slice `ret_dict` holds for a leaf: ordinary, positioned behind the label -/
def valSlice (v : Val) : Py.Slice := ⟨-1, v.1, v.2⟩

/-- `ret_dict[key] = slice` for the entries the model's parser returns, in order -/
def addAll (d : List (Bits × Py.Slice)) (kv : List (Bits × Val)) : List (Bits × Py.Slice) :=
  kv.foldl (fun d p => Py.dset p.1 (valSlice p.2) d) d

theorem addAll_append (d : List (Bits × Py.Slice)) (a b : List (Bits × Val)) : addAll d (a ++ b) = addAll (addAll d a) b := by
  simp [addAll, List.foldl_append]

/-- what `deserialize_hashmap_node(cs, m, ret_dict, prefix)` leaves in `ret_dict` according to the hand model -/
def nodeModel (cs : Py.Slice) (m : Int) (d : List (Bits × Py.Slice)) (pfx : Bits) : Option (List (Bits × Py.Slice)) :=
  if cs.kind ≠ -1 then some d
  else if m = 0 then (if pfx.isEmpty then some d else some (Py.dset pfx cs d))
  else (parseFork cs.refs (m - 1) pfx).map (addAll d)

theorem loadRef_eq (s : Py.Slice) :
    s.loadRef? = match s.refs with | [] => none | c :: r => some (c, { s with refs := r }) := by
  unfold Py.Slice.loadRef?; cases s.refs <;> rfl

theorem parse_node_eq (fuel : Nat) :
    (∀ (c : Cell) (k : Int) (d : List (Bits × Py.Slice)) (pfx : Bits), 2 * k.toNat + 2 ≤ fuel →
      (parse fuel (Py.beginParse c) k d pfx).map (·.2.1) = (parseEdge c k pfx).map (addAll d)) ∧
    (∀ (cs : Py.Slice) (m : Int) (d : List (Bits × Py.Slice)) (pfx : Bits), 0 ≤ m → 2 * m.toNat + 1 ≤ fuel →
      (deserialize_hashmap_node fuel cs m d pfx).map (·.2) = nodeModel cs m d pfx) := by
  induction fuel with
  | zero => exact ⟨fun _ _ _ _ h => by omega, fun _ _ _ _ _ h => by omega⟩
  | succ fuel ih =>
    obtain ⟨ihA, ihB⟩ := ih
    constructor
    · intro c k d pfx hf
      obtain ⟨kind, bits, refs⟩ := c
      rw [parse, parseEdge]
      simp only [Py.beginParse, deserialize_hml_eq, Option.bind_eq_bind, Option.pure_def]
      rcases hh : deserializeHml bits k with _ | ⟨n, s, rest⟩
      · simp
      · have hle := deserializeHml_le hh
        have hB := ihB ⟨kind, rest, refs⟩ (k - n) d (pfx ++ s) (by omega) (by omega)
        have key : nodeModel ⟨kind, rest, refs⟩ (k - n) d (pfx ++ s) = Option.map (addAll d)
            (if kind ≠ -1 then some []
             else if k - (n : Int) = 0 then (if (pfx ++ s).isEmpty then some [] else some [(pfx ++ s, (rest, refs))])
             else parseFork refs (k - n - 1) (pfx ++ s)) := by
          unfold nodeModel
          by_cases h1 : kind = -1 <;> by_cases h2 : k - (n : Int) = 0 <;> by_cases h3 : (pfx ++ s).isEmpty <;>
            simp [h1, h2, h3, addAll, valSlice]
        simp only [Option.map_some, Option.bind_some, withBits]
        rw [← key, ← hB]
        rcases hn : deserialize_hashmap_node fuel ⟨kind, rest, refs⟩ (k - ↑n) d (pfx ++ s) with _ | ⟨cs', d'⟩ <;> simp
    · intro cs m d pfx hm hf
      rw [deserialize_hashmap_node]
      unfold nodeModel
      by_cases h1 : cs.kind ≠ -1
      · simp [h1]
      by_cases h2 : m = 0
      · by_cases h3 : pfx.isEmpty <;> simp [h1, h2, h3]
      simp only [h1, h2, if_false, Option.bind_eq_bind, Option.pure_def, loadRef_eq]
      rcases hr : cs.refs with _ | ⟨l, _ | ⟨r, more⟩⟩
      · simp [parseFork]
      · simp only [Option.bind_some, parseFork]
        rcases parse fuel (Py.beginParse l) (m - 1) d (pfx ++ [false]) with _ | ⟨a, b, c⟩ <;> simp
      · have hl := ihA l (m - 1) d (pfx ++ [false]) (by omega)
        simp only [Option.bind_some, parseFork]
        rcases hp : parse fuel (Py.beginParse l) (m - 1) d (pfx ++ [false]) with _ | ⟨sl, d1, p1⟩
        · rw [hp] at hl
          rcases hq : parseEdge l (m - 1) (pfx ++ [false]) with _ | a
          · simp
          · rw [hq] at hl; simp at hl
        · rw [hp] at hl
          rcases hq : parseEdge l (m - 1) (pfx ++ [false]) with _ | a
          · rw [hq] at hl; simp at hl
          · rw [hq] at hl
            simp only [Option.map_some, Option.some.injEq] at hl
            have hr2 := ihA r (m - 1) d1 (pfx ++ [true]) (by omega)
            simp only [Option.bind_some]
            rcases hp2 : parse fuel (Py.beginParse r) (m - 1) d1 (pfx ++ [true]) with _ | ⟨sl2, d2, p2⟩
            · rw [hp2] at hr2
              rcases hq2 : parseEdge r (m - 1) (pfx ++ [true]) with _ | b
              · simp
              · rw [hq2] at hr2; simp at hr2
            · rw [hp2] at hr2
              rcases hq2 : parseEdge r (m - 1) (pfx ++ [true]) with _ | b
              · rw [hq2] at hr2; simp at hr2
              · rw [hq2] at hr2
                simp only [Option.map_some, Option.some.injEq] at hr2
                simp [addAll_append, ← hl, ← hr2]

theorem prefix_false_true (q x : Bits) (h1 : (q ++ [false]) <+: x) (h2 : (q ++ [true]) <+: x) : False := by
  obtain ⟨t, rfl⟩ := h1
  obtain ⟨t', h⟩ := h2
  simp only [List.append_assoc, List.append_cancel_left_eq, List.cons_append, List.nil_append, List.cons.injEq] at h
  exact absurd h.1 (by decide)

/-- the keys `parse` adds all extend the prefix it was called with, and are pairwise different -/
theorem parseEdge_keys : ∀ (N : Nat) (c : Cell) (k : Int) (pfx : Bits) (kv : List (Bits × Val)), k.toNat ≤ N →
    parseEdge c k pfx = some kv → (∀ p ∈ kv, pfx <+: p.1) ∧ (kv.map (·.1)).Nodup := by
  intro N
  induction N with
  | zero =>
    intro c k pfx kv hN h
    obtain ⟨kind, bits, refs⟩ := c
    rw [parseEdge] at h
    rcases hh : deserializeHml bits k with _ | ⟨n, s, rest⟩
    · simp [hh] at h
    · have hle := deserializeHml_le hh
      have hm : k - (n : Int) = 0 := by omega
      simp only [hh, hm, if_true] at h
      by_cases h1 : kind ≠ -1 <;> by_cases h3 : (pfx ++ s).isEmpty <;> simp [h1, h3] at h <;> subst h <;> simp
  | succ N ih =>
    intro c k pfx kv hN h
    obtain ⟨kind, bits, refs⟩ := c
    rw [parseEdge] at h
    rcases hh : deserializeHml bits k with _ | ⟨n, s, rest⟩
    · simp [hh] at h
    · have hle := deserializeHml_le hh
      simp only [hh] at h
      by_cases h1 : kind ≠ -1
      · simp [h1] at h; subst h; simp
      by_cases h2 : k - (n : Int) = 0
      · by_cases h3 : (pfx ++ s).isEmpty <;> simp [h1, h2, h3] at h <;> subst h <;> simp
      simp only [h1, h2, if_false] at h
      rcases refs with _ | ⟨l, _ | ⟨r, more⟩⟩
      · simp [parseFork] at h
      · simp [parseFork] at h
      · simp only [parseFork] at h
        rcases ha : parseEdge l (k - n - 1) (pfx ++ s ++ [false]) with _ | a
        · simp [-List.append_assoc, ha] at h
        rcases hb : parseEdge r (k - n - 1) (pfx ++ s ++ [true]) with _ | b
        · simp [-List.append_assoc, ha, hb] at h
        simp only [ha, hb, Option.some.injEq] at h
        subst h
        obtain ⟨pa, na⟩ := ih l _ _ a (by omega) ha
        obtain ⟨pb, nb⟩ := ih r _ _ b (by omega) hb
        constructor
        · intro p hp
          rcases List.mem_append.1 hp with hp | hp
          · exact (List.prefix_append _ _).trans ((List.prefix_append _ _).trans (pa p hp))
          · exact (List.prefix_append _ _).trans ((List.prefix_append _ _).trans (pb p hp))
        · rw [List.map_append, List.nodup_append]
          refine ⟨na, nb, ?_⟩
          intro x hx y hy hxy
          obtain ⟨p, hp, rfl⟩ := List.mem_map.1 hx
          obtain ⟨q, hq, rfl⟩ := List.mem_map.1 hy
          exact prefix_false_true (pfx ++ s) p.1 (pa p hp) (hxy ▸ pb q hq)

theorem dset_new {K V : Type} [DecidableEq K] (k : K) (v : V) (d : List (K × V)) (h : k ∉ d.map Prod.fst) :
    Py.dset k v d = d ++ [(k, v)] := by
  induction d with
  | nil => rfl
  | cons x d ih =>
    obtain ⟨k', v'⟩ := x
    simp only [List.map_cons, List.mem_cons, not_or] at h
    have : ¬ k' = k := fun e => h.1 e.symm
    simp [Py.dset, this, ih h.2]

theorem addAll_fresh : ∀ (kv : List (Bits × Val)) (d : List (Bits × Py.Slice)), (kv.map (·.1)).Nodup →
    (∀ p ∈ kv, p.1 ∉ d.map Prod.fst) → addAll d kv = d ++ kv.map (fun p => (p.1, valSlice p.2)) := by
  intro kv
  induction kv with
  | nil => intro d _ _; simp [addAll]
  | cons p kv ih =>
    intro d hn hd
    simp only [List.map_cons, List.nodup_cons] at hn
    have h1 : p.1 ∉ d.map Prod.fst := hd p (by simp)
    have : addAll d (p :: kv) = addAll (Py.dset p.1 (valSlice p.2) d) kv := rfl
    rw [this, dset_new _ _ _ h1, ih _ hn.2]
    · simp
    · intro q hq
      simp only [List.map_append, List.map_cons, List.map_nil, List.mem_append, List.mem_singleton, not_or]
      refine ⟨hd q (by simp [hq]), ?_⟩
      intro e
      exact hn.1 (e ▸ List.mem_map.2 ⟨q, hq, rfl⟩)

/-- REGENERATED `parse(slice, key_length, ret_dict, prefix)`: what it leaves in `ret_dict`, for every fuel ≥ 2·key_length + 2 -/
theorem src_parse_eq (fuel : Nat) (c : Cell) (k : Int) (d : List (Bits × Py.Slice)) (pfx : Bits) (hf : 2 * k.toNat + 2 ≤ fuel) :
    (parse fuel (Py.beginParse c) k d pfx).map (·.2.1) = (parseEdge c k pfx).map (addAll d) :=
  (parse_node_eq fuel).1 c k d pfx hf

/-- REGENERATED `parse_hashmap(cell.begin_parse(), key_len)` returns exactly the entries of the hand model's `parseHashmap`, in the
same order (a Python dict keeps insertion order; the keys are pairwise different), each value being the ordinary slice positioned
behind the leaf's label — or raises exactly when the model does; for every fuel ≥ 2·key_len + 2. -/
theorem src_parse_hashmap_eq (fuel : Nat) (c : Cell) (n : Nat) (hf : 2 * n + 2 ≤ fuel) :
    (parse_hashmap fuel (Py.beginParse c) (n : Int)).map (·.1) =
      (parseHashmap c n).map fun kv => kv.map fun p => (p.1, valSlice p.2) := by
  unfold parse_hashmap parseHashmap
  have h := src_parse_eq fuel c n [] [] (by simpa using hf)
  simp only [Option.bind_eq_bind, Option.pure_def]
  rcases hp : parse fuel (Py.beginParse c) (n : Int) [] [] with _ | ⟨sl, d, p⟩
  · rw [hp] at h
    rcases hq : parseEdge c n [] with _ | kv
    · simp
    · rw [hq] at h; simp at h
  · rw [hp] at h
    rcases hq : parseEdge c n [] with _ | kv
    · rw [hq] at h; simp at h
    · rw [hq] at h
      obtain ⟨_, hn⟩ := parseEdge_keys _ c n [] kv (Nat.le_refl _) hq
      simp only [Option.map_some, Option.some.injEq] at h
      subst h
      simp only [Option.bind_some, Option.map_some, Option.some.injEq]
      rw [addAll_fresh kv [] hn (by simp)]; simp


/-! #### augmented dictionaries -/

/-- the callback `y_deserializer(cs)` for a decoder pair `D`: reads the extra, leaves the slice behind it -/
def ydOf {X Y : Type} (D : AugDec X Y) (sl : Py.Slice) : Option (Y × Py.Slice) :=
  (D.decY (sl.bits, sl.refs)).map fun r => (r.1, { sl with bits := r.2.1, refs := r.2.2 })

/-- the callback `x_deserializer(cs)`: reads the value (what it leaves of the slice is not used afterwards) -/
def xdOf {X Y : Type} (D : AugDec X Y) (sl : Py.Slice) : Option (X × Py.Slice) :=
  (D.decX (sl.bits, sl.refs)).map fun x => (x, sl)

def addAllX {X : Type} (d : List (Bits × X)) (kv : List (Bits × X)) : List (Bits × X) :=
  kv.foldl (fun d p => Py.dset p.1 p.2 d) d

theorem addAllX_append {X : Type} (d a b : List (Bits × X)) : addAllX d (a ++ b) = addAllX (addAllX d a) b := by
  simp [addAllX, List.foldl_append]

/-- `ret_dict` and `extras` after the model's parse returned `r` -/
def augOut {X Y : Type} (d : List (Bits × X)) (ex : List Y) (r : List (Bits × X) × List Y) : List (Bits × X) × List Y :=
  (addAllX d r.1, ex ++ r.2)

def augNodeModel {X Y : Type} (D : AugDec X Y) (cs : Py.Slice) (m : Int) (d : List (Bits × X)) (ex : List Y) (pfx : Bits) :
    Option (List (Bits × X) × List Y) :=
  if m = 0 then
    match D.decY (cs.bits, cs.refs) with
    | none => none
    | some (y, sl) =>
      match D.decX sl with
      | none => none
      | some x => some (Py.dset pfx x d, ex ++ [y])
  else (parseAugFork D cs.refs cs.bits (m - 1) pfx).map (augOut d ex)

theorem parse_aug_node_eq {X Y : Type} (D : AugDec X Y) (fuel : Nat) :
    (∀ (c : Cell) (k : Int) (d : List (Bits × X)) (ex : List Y) (pfx : Bits), 2 * k.toNat + 2 ≤ fuel →
      (parse_aug (xdOf D) (ydOf D) fuel (Py.beginParse c) k d ex pfx).map (fun r => (r.2.1, r.2.2.1)) =
        (parseAugEdge D c k pfx).map (augOut d ex)) ∧
    (∀ (cs : Py.Slice) (m : Int) (d : List (Bits × X)) (ex : List Y) (pfx : Bits), 0 ≤ m → 2 * m.toNat + 1 ≤ fuel →
      (deserialize_hashmap_aug_node (xdOf D) (ydOf D) fuel cs m d ex pfx).map (fun r => (r.2.1, r.2.2)) =
        augNodeModel D cs m d ex pfx) := by
  induction fuel with
  | zero => exact ⟨fun _ _ _ _ _ h => by omega, fun _ _ _ _ _ _ h => by omega⟩
  | succ fuel ih =>
    obtain ⟨ihA, ihB⟩ := ih
    constructor
    · intro c k d ex pfx hf
      obtain ⟨kind, bits, refs⟩ := c
      rw [parse_aug, parseAugEdge]
      by_cases h1 : kind ≠ -1
      · simp [Py.beginParse, h1, augOut, addAllX]
      simp only [Py.beginParse, h1, if_false, deserialize_hml_eq, Option.bind_eq_bind, Option.pure_def]
      rcases hh : deserializeHml bits k with _ | ⟨n, s, rest⟩
      · simp
      · have hle := deserializeHml_le hh
        have hB := ihB ⟨kind, rest, refs⟩ (k - n) d ex (pfx ++ s) (by omega) (by omega)
        have key : augNodeModel D ⟨kind, rest, refs⟩ (k - n) d ex (pfx ++ s) = Option.map (augOut d ex)
            (if k - (n : Int) = 0 then
              match D.decY (rest, refs) with
              | none => none
              | some (y, sl) =>
                match D.decX sl with
                | none => none
                | some x => some ([(pfx ++ s, x)], [y])
             else parseAugFork D refs rest (k - n - 1) (pfx ++ s)) := by
          unfold augNodeModel
          by_cases h2 : k - (n : Int) = 0
          · simp only [h2, if_true]
            rcases hy : D.decY (rest, refs) with _ | ⟨y, sl⟩
            · simp
            · rcases hx : D.decX sl with _ | x <;> simp [hx, augOut, addAllX]
          · simp [h2]
        simp only [Option.map_some, Option.bind_some, withBits]
        refine Eq.trans ?_ (hB.trans (key.trans ?_))
        · rcases hn : deserialize_hashmap_aug_node (xdOf D) (ydOf D) fuel ⟨kind, rest, refs⟩ (k - ↑n) d ex (pfx ++ s) with _ | ⟨cs', d', e'⟩ <;> simp
        · by_cases h2 : k - (n : Int) = 0
          · simp only [h2, if_true]
            rcases hy : D.decY (rest, refs) with _ | ⟨y, sl⟩
            · rfl
            · rcases hx : D.decX sl with _ | x <;> simp [hx]
          · simp [h2]
    · intro cs m d ex pfx hm hf
      rw [deserialize_hashmap_aug_node]
      unfold augNodeModel
      by_cases h2 : m = 0
      · simp only [h2, if_true, Option.bind_eq_bind, Option.pure_def, ydOf, xdOf]
        rcases hy : D.decY (cs.bits, cs.refs) with _ | ⟨y, sl⟩
        · simp
        · rcases hx : D.decX sl with _ | x <;> simp [hx]
      simp only [h2, if_false, Option.bind_eq_bind, Option.pure_def, loadRef_eq]
      rcases hr : cs.refs with _ | ⟨l, _ | ⟨r, more⟩⟩
      · simp [parseAugFork]
      · simp only [Option.bind_some, parseAugFork]
        rcases parse_aug (xdOf D) (ydOf D) fuel (Py.beginParse l) (m - 1) d ex (pfx ++ [false]) with _ | ⟨a, b, c, e⟩ <;> simp
      · have hl := ihA l (m - 1) d ex (pfx ++ [false]) (by omega)
        simp only [Option.bind_some, parseAugFork]
        rcases hp : parse_aug (xdOf D) (ydOf D) fuel (Py.beginParse l) (m - 1) d ex (pfx ++ [false]) with _ | ⟨sl, d1, e1, p1⟩
        · rw [hp] at hl
          rcases hq : parseAugEdge D l (m - 1) (pfx ++ [false]) with _ | ⟨a, ea⟩
          · simp
          · rw [hq] at hl; simp at hl
        · rw [hp] at hl
          rcases hq : parseAugEdge D l (m - 1) (pfx ++ [false]) with _ | ⟨a, ea⟩
          · rw [hq] at hl; simp at hl
          · rw [hq] at hl
            simp only [Option.map_some, Option.some.injEq, augOut, Prod.mk.injEq] at hl
            have hr2 := ihA r (m - 1) d1 e1 (pfx ++ [true]) (by omega)
            simp only [Option.bind_some]
            rcases hp2 : parse_aug (xdOf D) (ydOf D) fuel (Py.beginParse r) (m - 1) d1 e1 (pfx ++ [true]) with _ | ⟨sl2, d2, e2, p2⟩
            · rw [hp2] at hr2
              rcases hq2 : parseAugEdge D r (m - 1) (pfx ++ [true]) with _ | ⟨b, eb⟩
              · simp
              · rw [hq2] at hr2; simp at hr2
            · rw [hp2] at hr2
              rcases hq2 : parseAugEdge D r (m - 1) (pfx ++ [true]) with _ | ⟨b, eb⟩
              · rw [hq2] at hr2; simp at hr2
              · rw [hq2] at hr2
                simp only [Option.map_some, Option.some.injEq, augOut, Prod.mk.injEq] at hr2
                simp only [Option.bind_some, ydOf]
                rcases hy : D.decY (cs.bits, more) with _ | ⟨y, v⟩
                · simp
                · obtain ⟨rfl, rfl⟩ := hl
                  obtain ⟨rfl, rfl⟩ := hr2
                  simp [augOut, addAllX_append]

/-- REGENERATED `parse_aug(…)`: what it leaves in `ret_dict` and `extras`, for every decoder pair and every fuel ≥ 2·key_length + 2 -/
theorem src_parse_aug_eq {X Y : Type} (D : AugDec X Y) (fuel : Nat) (c : Cell) (k : Int) (d : List (Bits × X)) (ex : List Y) (pfx : Bits)
    (hf : 2 * k.toNat + 2 ≤ fuel) :
    (parse_aug (xdOf D) (ydOf D) fuel (Py.beginParse c) k d ex pfx).map (fun r => (r.2.1, r.2.2.1)) =
      (parseAugEdge D c k pfx).map (augOut d ex) :=
  (parse_aug_node_eq D fuel).1 c k d ex pfx hf


end TonVerif.Proofs.SrcHashmap
