/-
C19, TL parser: total work of `Tl.deser` (`TlSchemas.deserialize`) — the summation over the call tree.

Accounting.  `n` = length of the data of the current call, `N` = length of the top-level input, `w` = a weight per
consumed byte (`w ≥ (N+1)·(1+a)`), `a` = constant part of a nested call.  Every call satisfies
      steps ≤ a + w · consumed,         consumed = min(advance, n)   (all of `n` if the call raised)
because
* fixed fields cost nothing; a sub-object consumes what its call consumed;
* a vector passes the guard only if 4 + (declared length) real bytes are there: its `length` iterations are paid by the
  4 bytes of the length word (`length·(1+a) ≤ w`), its elements by what they consume (elements may consume nothing);
* a bytes field with content of `m` bytes consumes ≥ m + 1; the first parse and the ≤ m + 1 re-parse iterations consume
  disjoint parts of the content (`j` only grows), their constant parts `(m+2)(1+a) ≤ w` are paid by the length byte;
* a recognised boxed object consumed its 4-byte id, which pays for its own field loop; a bare object that consumes
  nothing costs at most `tlA M k` (M fields per schema, k levels of bare nesting).
Depth: a boxed level passes data shorter by ≥ 4 to its callees; a bare level passes at most its own data, but the
bare-nesting index `k` drops — fuel `(n/4)(R+2) + 1 + k` suffices.
-/
import TonVerif.Model.Cost
import TonVerif.Proofs.Cost

namespace TonVerif.Proofs.CostTl
open TonVerif TonVerif.Model TonVerif.Model.Cost TonVerif.Model.Cost.Tl TonVerif.Proofs.Cost

/-! ### arithmetic helpers -/

theorem wle (w x y z : Nat) (h : x + y ≤ z) : w * x + w * y ≤ w * z := by
  rw [← Nat.mul_add]; exact Nat.mul_le_mul_left w h

theorem wmono (w x z : Nat) (h : x ≤ z) : w * x ≤ w * z := Nat.mul_le_mul_left w h

theorem tlA_pos (M k : Nat) : 1 ≤ tlA M k := by
  cases k <;> simp [tlA] <;> omega

theorem tlA_step (M k : Nat) : tlA M k ≤ tlA M (k + 1) := by
  induction k with
  | zero => simp [tlA]
  | succ j ih =>
    have h := Nat.mul_le_mul_left M (Nat.add_le_add_left ih 1)
    simp only [tlA] at h ⊢
    omega

theorem tlA_mono (M : Nat) {k k' : Nat} (h : k ≤ k') : tlA M k ≤ tlA M k' := by
  induction k' with
  | zero => have : k = 0 := by omega
            subst this; exact Nat.le_refl _
  | succ j ih =>
    by_cases hk : k = j + 1
    · subst hk; exact Nat.le_refl _
    · exact Nat.le_trans (ih (by omega)) (tlA_step M j)

/-! ### what a call must satisfy -/

/-- bytes of its data a call consumed: `min advance n`; everything if it raised -/
def cons (r : Res) (n : Nat) : Nat :=
  match r with
  | .ok adv _ => min adv n
  | _ => n

def Spec (w a : Nat) (r : Res) (n : Nat) : Prop := r ≠ .oof ∧ r.steps ≤ a + w * cons r n

/-- modes a level with bare-nesting index `k` may call: boxed, or bare `t` with `bareOK tbl k t` -/
def Allowed (tbl : Table) (k : Nat) : Option Nat → Prop
  | none => True
  | some t => bareOK tbl k t = true

/-- hypothesis on the next level `rec`, for data of at most `L` bytes -/
structure RecOK (tbl : Table) (rec : Bytes → Option Nat → Res) (w a L k : Nat) : Prop where
  spec : ∀ b m, b.length ≤ L → Allowed tbl k m → Spec w a (rec b m) b.length
  empty0 : ∀ adv s, rec [] none = .ok adv s → adv = 0

/-- a loop / field that started at offset `i` with budget `c` for its constant parts -/
def StepOK (w n i c : Nat) (r : Res) : Prop :=
  match r with
  | .oof => False
  | .ok i' s => i ≤ i' ∧ s + w * min i n ≤ c + w * min i' n
  | .raised s _ => s + w * min i n ≤ c + w * n

theorem sl_len (bs : Bytes) (a b : Nat) : (sl bs a b).length = min b bs.length - a := by
  simp [sl, List.length_drop, List.length_take]

/-! ### vector loop -/

theorem vecLoop_ok (tbl : Table) (rec : Bytes → Option Nat → Res) (w a L k : Nat) (hrec : RecOK tbl rec w a L k)
    (data : Bytes) (elem : Option Nat) (hel : Allowed tbl k elem) (i0 : Nat) (hL : data.length - i0 ≤ L) :
    ∀ (cnt i s0 : Nat), i0 ≤ i →
      StepOK w data.length i (s0 + cnt * (1 + a)) (vecLoop (fun b => rec b elem) data cnt i s0) := by
  intro cnt
  induction cnt with
  | zero =>
    intro i s0 _
    simp only [vecLoop, StepOK]
    omega
  | succ c ih =>
    intro i s0 hi
    have hlen : (data.drop i).length ≤ L := by simp only [List.length_drop]; omega
    obtain ⟨hne, hst⟩ := hrec.spec (data.drop i) elem hlen hel
    simp only [vecLoop]
    rw [Nat.succ_mul]
    cases hc : rec (data.drop i) elem with
    | oof => exact absurd hc hne
    | raised s g =>
      rw [hc] at hst
      simp only [Res.steps, cons, List.length_drop] at hst
      simp only [StepOK]
      have := wle w (min i data.length) (data.length - i) data.length (by omega)
      omega
    | ok j s =>
      rw [hc] at hst
      simp only [Res.steps, cons, List.length_drop] at hst
      have h2 := ih (i + j) (s0 + 1 + s) (by omega)
      have hw := wle w (min i data.length) (min j (data.length - i)) (min (i + j) data.length) (by omega)
      simp only []
      cases hr : vecLoop (fun b => rec b elem) data c (i + j) (s0 + 1 + s) with
      | oof => rw [hr] at h2; exact h2
      | raised s' g' =>
        rw [hr] at h2
        simp only [StepOK] at h2 ⊢
        omega
      | ok i' s' =>
        rw [hr] at h2
        simp only [StepOK] at h2 ⊢
        omega

/-! ### bytes field: first parse + re-parse loop -/

theorem reparse_ok (tbl : Table) (rec : Bytes → Option Nat → Res) (w a L k : Nat) (hrec : RecOK tbl rec w a L k)
    (c : Bytes) (hc : c.length ≤ L) (bl : Nat) :
    ∀ (lf j s0 : Nat), c.length - j + 1 ≤ lf →
      reparseLoop (fun b => rec b none) c bl lf j s0 ≠ .oof ∧
      (reparseLoop (fun b => rec b none) c bl lf j s0).steps + w * min j c.length ≤ s0 + lf * (1 + a) + w * c.length := by
  intro lf
  induction lf with
  | zero => intro j s0 h; omega
  | succ f ih =>
    intro j s0 h
    have hlen : (c.drop j).length ≤ L := by simp only [List.length_drop]; omega
    obtain ⟨hne, hst⟩ := hrec.spec (c.drop j) none hlen trivial
    have hm := wmono w (min j c.length) c.length (by omega)
    simp only [reparseLoop]
    rw [Nat.succ_mul]
    split
    · cases hr : rec (c.drop j) none with
      | oof => exact absurd hr hne
      | raised s g =>
        rw [hr] at hst
        simp only [Res.steps, cons, List.length_drop] at hst
        have := wle w (min j c.length) (c.length - j) c.length (by omega)
        simp only [Res.steps]
        exact ⟨by simp, by omega⟩
      | ok jj s =>
        rw [hr] at hst
        simp only [Res.steps, cons, List.length_drop] at hst
        simp only []
        split
        · have := wle w (min j c.length) (min jj (c.length - j)) c.length (by omega)
          simp only [Res.steps]
          exact ⟨by simp, by omega⟩
        · rename_i hjj
          have hjj' : jj ≠ 0 := by simpa using hjj
          have hjlt : j < c.length := by
            apply Classical.byContradiction
            intro hge
            have : c.drop j = [] := List.drop_eq_nil_of_le (by omega)
            rw [this] at hr
            exact hjj' (hrec.empty0 _ _ hr)
          obtain ⟨i1, i2⟩ := ih (j + jj) (s0 + 1 + s) (by omega)
          have := wle w (min j c.length) (min jj (c.length - j)) (min (j + jj) c.length) (by omega)
          exact ⟨i1, by omega⟩
    · simp only [Res.steps]
      exact ⟨by simp, by omega⟩

/-- content `c` of a bytes field: never out of fuel; an `ok` result is `iEnd`; steps ≤ a + w·|c| (+ (|c|+1)(1+a) if the
declared length is non-zero, i.e. the re-parse loop can be entered) -/
theorem bytesContent_ok (tbl : Table) (rec : Bytes → Option Nat → Res) (w a L k : Nat) (hrec : RecOK tbl rec w a L k)
    (c : Bytes) (hc : c.length ≤ L) (bl iEnd : Nat) :
    bytesContent (fun b => rec b none) c bl iEnd ≠ .oof ∧
    (∀ adv s, bytesContent (fun b => rec b none) c bl iEnd = .ok adv s → adv = iEnd) ∧
    (bytesContent (fun b => rec b none) c bl iEnd).steps ≤
      a + w * c.length + (if bl = 0 then 0 else (c.length + 1) * (1 + a)) := by
  obtain ⟨hne, hst⟩ := hrec.spec c none hc trivial
  cases hr : rec c none with
  | oof => exact absurd hr hne
  | raised s g =>
    rw [hr] at hst
    simp only [Res.steps, cons] at hst
    simp only [bytesContent, hr, Res.steps]
    refine ⟨by simp, by simp, by omega⟩
  | ok j s =>
    rw [hr] at hst
    simp only [Res.steps, cons] at hst
    have hm := wmono w (min j c.length) c.length (by omega)
    simp only [bytesContent, hr]
    by_cases hjb : j < bl
    · have hbl : bl ≠ 0 := by omega
      obtain ⟨l1, l2⟩ := reparse_ok tbl rec w a L k hrec c hc bl (c.length + 1) j s (by omega)
      simp only [hjb, hbl, if_true, if_false]
      cases hx : reparseLoop (fun b => rec b none) c bl (c.length + 1) j s with
      | oof => exact absurd hx l1
      | raised s' g' =>
        rw [hx] at l2
        simp only [Res.steps] at l2 ⊢
        refine ⟨by simp, by simp, by omega⟩
      | ok x s' =>
        rw [hx] at l2
        simp only [Res.steps] at l2 ⊢
        refine ⟨by simp, ?_, by omega⟩
        intro adv s'' h
        cases h; rfl
    · simp only [hjb, if_false, Res.steps]
      refine ⟨by simp, ?_, ?_⟩
      · intro adv s'' h
        cases h; rfl
      · split <;> omega

/-! ### one field, the field loop -/

theorem natOfLE_nil : natOfLE [] = 0 := rfl

theorem fieldStep_ok (tbl : Table) (rec : Bytes → Option Nat → Res) (w a L k : Nat) (hrec : RecOK tbl rec w a L k)
    (data : Bytes) (hw : (data.length + 1) * (1 + a) ≤ w) (i0 : Nat) (hL : data.length - i0 ≤ L)
    (i : Nat) (hi : i0 ≤ i) (ty : Ty) (hty : ∀ t, bareRef ty = some t → bareOK tbl k t = true) :
    StepOK w data.length i a (fieldStep rec data i ty) := by
  cases ty with
  | fixed kk fl =>
    simp only [fieldStep, StepOK]
    have := wmono w (min i data.length) (min (i + kk) data.length) (by omega)
    omega
  | sub sm =>
    have hal : Allowed tbl k sm := by
      cases sm with
      | none => trivial
      | some t => exact hty t rfl
    have hlen : (data.drop i).length ≤ L := by simp only [List.length_drop]; omega
    obtain ⟨hne, hst⟩ := hrec.spec (data.drop i) sm hlen hal
    simp only [fieldStep]
    cases hc : rec (data.drop i) sm with
    | oof => exact absurd hc hne
    | raised s g =>
      rw [hc] at hst
      simp only [Res.steps, cons, List.length_drop] at hst
      simp only [StepOK]
      have := wle w (min i data.length) (data.length - i) data.length (by omega)
      omega
    | ok j s =>
      rw [hc] at hst
      simp only [Res.steps, cons, List.length_drop] at hst
      simp only [StepOK]
      have := wle w (min i data.length) (min j (data.length - i)) (min (i + j) data.length) (by omega)
      omega
  | vec elem =>
    have hal : Allowed tbl k elem := by
      cases elem with
      | none => trivial
      | some t => exact hty t rfl
    simp only [fieldStep]
    split
    · simp only [StepOK]
      have := wmono w (min i data.length) data.length (by omega)
      omega
    · rename_i hg
      generalize natOfLE (sl data i (i + 4)) = len at hg
      have hv := vecLoop_ok tbl rec w a L k hrec data elem hal i0 hL len (i + 4) 0 (by omega)
      -- the `len` iterations are paid by the 4 bytes of the length word
      have hlen : len * (1 + a) ≤ w := by
        have h1 : len * (1 + a) ≤ (data.length + 1) * (1 + a) := Nat.mul_le_mul_right _ (by omega)
        omega
      have hmin : min (i + 4) data.length = i + 4 := by omega
      have hmin' : min i data.length = i := by omega
      have hw4 : w * (i + 4) = w * i + w * 4 := Nat.mul_add _ _ _
      cases hr : vecLoop (fun b => rec b elem) data len (i + 4) 0 with
      | oof => rw [hr] at hv; exact hv
      | raised s g =>
        rw [hr] at hv
        simp only [StepOK, hmin, hmin'] at hv ⊢
        omega
      | ok i' s =>
        rw [hr] at hv
        simp only [StepOK, hmin, hmin'] at hv ⊢
        omega
  | bytes auto =>
    simp only [fieldStep]
    generalize hlong : (sl data i (i + 1) == [0xFE]) = long
    generalize hbl : (if long = true then natOfLE (sl data (i + 1) (i + 4)) else natOfLE (sl data i (i + 1))) = bl
    generalize hatt : (if long = true then 4 else 1) = att
    have hatt1 : 1 ≤ att := by subst hatt; split <;> omega
    generalize hend : (if ((bl + att) % 4 != 0) = true then i + att + bl + (4 - (bl + att) % 4) else i + att + bl) = iEnd
    have hend1 : i + att + bl ≤ iEnd := by subst hend; split <;> omega
    split
    · simp only [StepOK]
      have := wmono w (min i data.length) (min iEnd data.length) (by omega)
      omega
    · have hclen := sl_len data (i + att) (i + att + bl)
      have hcL : (sl data (i + att) (i + att + bl)).length ≤ L := by omega
      obtain ⟨b1, b2, b3⟩ := bytesContent_ok tbl rec w a L k hrec (sl data (i + att) (i + att + bl)) hcL bl iEnd
      generalize (sl data (i + att) (i + att + bl)).length = m at hclen b3
      generalize bytesContent (fun b => rec b none) (sl data (i + att) (i + att + bl)) bl iEnd = res at b1 b2 b3
      by_cases hin : i < data.length
      · -- the field consumes ≥ m + 1 real bytes; (m+1)(1+a) ≤ w
        have hm1 : (m + 1) * (1 + a) ≤ w := by
          have h1 : (m + 1) * (1 + a) ≤ (data.length + 1) * (1 + a) := Nat.mul_le_mul_right _ (by omega)
          omega
        have hb3 : res.steps ≤ a + w * m + (m + 1) * (1 + a) := by
          split at b3 <;> omega
        have hmin' : min i data.length = i := by omega
        have hwm : w * (i + (m + 1)) = w * i + (w * m + w) := by
          rw [Nat.mul_add, Nat.mul_add, Nat.mul_one]
        cases res with
        | oof => exact absurd rfl b1
        | raised s g =>
          simp only [Res.steps] at hb3
          simp only [StepOK, hmin']
          have := wmono w (i + (m + 1)) data.length (by omega)
          omega
        | ok adv s =>
          simp only [Res.steps] at hb3
          have hadv := b2 adv s rfl
          subst hadv
          simp only [StepOK, hmin']
          have := wmono w (i + (m + 1)) (min adv data.length) (by omega)
          exact ⟨by omega, by omega⟩
      · -- data exhausted: the length byte reads as 0, the content is empty, the inner call sees `b''`
        have hs1 : sl data i (i + 1) = [] := by
          apply List.eq_nil_of_length_eq_zero; rw [sl_len]; omega
        have hlf : long = false := by rw [← hlong, hs1]; rfl
        have hbl0 : bl = 0 := by rw [← hbl, hlf]; simp [hs1, natOfLE_nil]
        have hm0 : m = 0 := by omega
        have hb3 : res.steps ≤ a := by
          simp only [hbl0, hm0, if_true] at b3; omega
        cases res with
        | oof => exact absurd rfl b1
        | raised s g =>
          simp only [Res.steps] at hb3
          simp only [StepOK]
          have := wmono w (min i data.length) data.length (by omega)
          omega
        | ok adv s =>
          simp only [Res.steps] at hb3
          have hadv := b2 adv s rfl
          subst hadv
          simp only [StepOK]
          have := wmono w (min i data.length) (min adv data.length) (by omega)
          exact ⟨by omega, by omega⟩

theorem stepOK_weaken (w n i i' c c' : Nat) (r : Res) (h : StepOK w n i' c' r) (hi : i ≤ i')
    (hc : c' + w * min i n ≤ c + w * min i' n) : StepOK w n i c r := by
  cases r with
  | oof => exact h
  | raised s g => simp only [StepOK] at h ⊢; omega
  | ok i'' s => simp only [StepOK] at h ⊢; omega

theorem fieldsLoop_ok (tbl : Table) (rec : Bytes → Option Nat → Res) (w a L k : Nat) (hrec : RecOK tbl rec w a L k)
    (data : Bytes) (hw : (data.length + 1) * (1 + a) ≤ w) (i0 : Nat) (hL : data.length - i0 ≤ L) :
    ∀ (fs : List Field) (i : Nat) (fl : Option Int) (s0 : Nat), i0 ≤ i →
      (∀ fld ∈ fs, ∀ t, bareRef fld.ty = some t → bareOK tbl k t = true) →
      StepOK w data.length i (s0 + fs.length * (1 + a)) (fieldsLoop rec data fs i fl s0) := by
  intro fs
  induction fs with
  | nil =>
    intro i fl s0 _ _
    simp only [fieldsLoop, StepOK]
    omega
  | cons fld rest ih =>
    intro i fl s0 hi hfs
    have hrest : ∀ f ∈ rest, ∀ t, bareRef f.ty = some t → bareOK tbl k t = true :=
      fun f hf => hfs f (List.mem_cons_of_mem _ hf)
    simp only [fieldsLoop, List.length_cons]
    rw [Nat.succ_mul]
    split
    · simp only [StepOK]
      have := wmono w (min i data.length) data.length (by omega)
      omega
    · exact stepOK_weaken w data.length i i _ _ _ (ih i fl (s0 + 1) hi hrest) (Nat.le_refl _) (by omega)
    · have h1 := fieldStep_ok tbl rec w a L k hrec data hw i0 hL i hi fld.ty (hfs fld (List.mem_cons_self ..))
      cases hc : fieldStep rec data i fld.ty with
      | oof => rw [hc] at h1; exact h1
      | raised s g =>
        rw [hc] at h1
        simp only [StepOK] at h1 ⊢
        omega
      | ok i' s =>
        rw [hc] at h1
        simp only [StepOK] at h1
        simp only []
        exact stepOK_weaken w data.length i i' _ _ _ (ih i' _ (s0 + 1 + s) (by omega) hrest) h1.1 (by omega)

/-! ### table facts -/

theorem byId_short (tbl : Table) (h : Ids4 tbl) (data : Bytes) (hd : data.length < 4) : byId tbl (data.take 4) = none := by
  unfold byId
  rw [List.findIdx?_eq_none_iff]
  intro s hs
  have h4 := h s hs
  have : s.id ≠ data.take 4 := by
    intro he
    have : (data.take 4).length = s.id.length := by rw [he]
    simp only [List.length_take] at this
    omega
  simpa using this

theorem foldr_max_le (l : List Nat) (x : Nat) (hx : x ∈ l) : x ≤ l.foldr max 0 := by
  induction l with
  | nil => cases hx
  | cons y r ih =>
    simp only [List.foldr_cons]
    rcases List.mem_cons.mp hx with rfl | h
    · omega
    · have := ih h; omega

theorem fieldsOf_len (tbl : Table) (s : Nat) : (fieldsOf tbl s).length ≤ maxFields tbl := by
  unfold fieldsOf
  cases hs : tbl[s]? with
  | none => simp
  | some sc =>
    simp only [maxFields]
    apply foldr_max_le
    have hm : sc ∈ tbl := List.mem_of_getElem? hs
    exact List.mem_map.mpr ⟨sc, hm, rfl⟩

theorem bareOK_all (tbl : Table) (R : Nat) (h : NoBareCycle tbl R) (s : Nat) : bareOK tbl (R + 1) s = true := by
  cases hs : tbl[s]? with
  | none => simp [bareOK, fieldsOf, hs]
  | some sc =>
    have hm : sc ∈ tbl := List.mem_of_getElem? hs
    simp only [NoBareCycle, List.all_eq_true] at h
    have := h sc hm
    simp only [bareOK, fieldsOf, hs, List.all_eq_true]
    exact this

theorem bareOK_fields (tbl : Table) (k s : Nat) (h : bareOK tbl (k + 1) s = true) :
    ∀ fld ∈ fieldsOf tbl s, ∀ t, bareRef fld.ty = some t → bareOK tbl k t = true := by
  intro fld hf t ht
  simp only [bareOK, List.all_eq_true] at h
  have := h fld hf
  rw [ht] at this
  exact this

theorem bareFields_len (fs : List Field) : (bareFields fs).length = fs.length := by simp [bareFields]

theorem bareFields_refs (tbl : Table) (k : Nat) (fs : List Field)
    (h : ∀ fld ∈ fs, ∀ t, bareRef fld.ty = some t → bareOK tbl k t = true) :
    ∀ fld ∈ bareFields fs, ∀ t, bareRef fld.ty = some t → bareOK tbl k t = true := by
  intro fld hf t ht
  simp only [bareFields, List.mem_map] at hf
  obtain ⟨f0, hf0, rfl⟩ := hf
  apply h f0 hf0 t
  cases hty : f0.ty <;> simp only [hty] at ht ⊢ <;> first | exact ht | (simp [bareRef] at ht)

/-! ### one level, then all levels -/

/-- the invariant of depth `f`: a call whose need `(n/4)(R+2) + 1 + k` is within `f` meets `Spec` -/
def Inv (tbl : Table) (R N w f : Nat) : Prop :=
  (∀ b, b.length ≤ N → b.length / 4 * (R + 2) + 1 ≤ f → Spec w 1 (deser tbl f b none) b.length) ∧
  (∀ b s k, b.length ≤ N → k ≤ R + 1 → bareOK tbl k s = true → b.length / 4 * (R + 2) + 1 + k ≤ f →
      Spec w (tlA (maxFields tbl) k) (deser tbl f b (some s)) b.length)

theorem recOK_of_inv (tbl : Table) (hid : Ids4 tbl) (R N w f : Nat) (hinv : Inv tbl R N w f) (L k : Nat) (hLN : L ≤ N)
    (hk : k ≤ R + 1) (hf : L / 4 * (R + 2) + 1 + k ≤ f) :
    RecOK tbl (deser tbl f) w (tlA (maxFields tbl) k) L k := by
  constructor
  · intro b m hb hal
    have hdiv : b.length / 4 * (R + 2) ≤ L / 4 * (R + 2) := Nat.mul_le_mul_right _ (Nat.div_le_div_right hb)
    cases m with
    | none =>
      obtain ⟨h1, h2⟩ := hinv.1 b (by omega) (by omega)
      exact ⟨h1, by have := tlA_pos (maxFields tbl) k; omega⟩
    | some t => exact hinv.2 b t k (by omega) hk hal (by omega)
  · exact emptyZero_deser tbl (fun s hs he => by have := hid s hs; rw [he] at this; simp at this) f

theorem inv_succ (tbl : Table) (hid : Ids4 tbl) (R : Nat) (hc : NoBareCycle tbl R) (N w : Nat)
    (hw : (N + 1) * (1 + tlA (maxFields tbl) (R + 2)) ≤ w) (f : Nat) (hinv : Inv tbl R N w f) : Inv tbl R N w (f + 1) := by
  have hA1 : tlA (maxFields tbl) (R + 1) ≤ tlA (maxFields tbl) (R + 2) := tlA_step _ _
  -- `w` dominates `(n+1)(1+a)` for every level
  have hwk : ∀ (n k : Nat), n ≤ N → k ≤ R + 1 → (n + 1) * (1 + tlA (maxFields tbl) k) ≤ w := by
    intro n k hn hk
    have h1 := tlA_mono (maxFields tbl) (k := k) (k' := R + 2) (by omega)
    have : (n + 1) * (1 + tlA (maxFields tbl) k) ≤ (N + 1) * (1 + tlA (maxFields tbl) (R + 2)) :=
      Nat.mul_le_mul (by omega) (by omega)
    omega
  -- the field loop of a recognised boxed object is paid by its 4-byte id
  have hw2 : maxFields tbl * (1 + tlA (maxFields tbl) (R + 1)) ≤ w := by
    have h1 : 1 + maxFields tbl * (1 + tlA (maxFields tbl) (R + 1)) = tlA (maxFields tbl) (R + 2) := rfl
    have h2 : 1 * (1 + tlA (maxFields tbl) (R + 2)) ≤ (N + 1) * (1 + tlA (maxFields tbl) (R + 2)) :=
      Nat.mul_le_mul_right _ (by omega)
    omega
  constructor
  · -- boxed
    intro b hb hf
    simp only [deser, deserLevel]
    cases hs : byId tbl (b.take 4) with
    | none =>
      refine ⟨by simp, ?_⟩
      simp only [Res.steps, cons, Nat.min_self]
      omega
    | some s =>
      have h4 : 4 ≤ b.length := by
        apply Classical.byContradiction
        intro hlt
        rw [byId_short tbl hid b (by omega)] at hs
        cases hs
      have hrec := recOK_of_inv tbl hid R N w f hinv (b.length - 4) (R + 1) (by omega) (Nat.le_refl _) (by
        have : (b.length - 4) / 4 = b.length / 4 - 1 := by omega
        rw [this]
        have h1 : 1 ≤ b.length / 4 := by omega
        obtain ⟨q, hq⟩ : ∃ q, b.length / 4 = q + 1 := ⟨b.length / 4 - 1, by omega⟩
        rw [hq] at hf ⊢
        simp only [Nat.add_sub_cancel]
        rw [Nat.succ_mul] at hf
        omega)
      have hfl := fieldsLoop_ok tbl (deser tbl f) w _ _ _ hrec b (hwk b.length (R + 1) hb (Nat.le_refl _)) 4 (Nat.le_refl _)
        (fieldsOf tbl s) 4 none 1 (Nat.le_refl _) (fun fld _ t _ => bareOK_all tbl R hc t)
      have hM : (fieldsOf tbl s).length * (1 + tlA (maxFields tbl) (R + 1)) ≤ w :=
        Nat.le_trans (Nat.mul_le_mul_right _ (fieldsOf_len tbl s)) hw2
      have hmin : min 4 b.length = 4 := by omega
      simp only []
      cases hr : fieldsLoop (deser tbl f) b (fieldsOf tbl s) 4 none 1 with
      | oof => rw [hr] at hfl; exact hfl.elim
      | raised st g =>
        rw [hr] at hfl
        simp only [StepOK, hmin] at hfl
        refine ⟨by simp, ?_⟩
        simp only [Res.steps, cons]
        omega
      | ok adv st =>
        rw [hr] at hfl
        simp only [StepOK, hmin] at hfl
        refine ⟨by simp, ?_⟩
        simp only [Res.steps, cons]
        omega
  · -- bare
    intro b s k hb hk hok hf
    cases k with
    | zero => simp [bareOK] at hok
    | succ k' =>
      have hrec := recOK_of_inv tbl hid R N w f hinv b.length k' hb (by omega) (by omega)
      have hfl := fieldsLoop_ok tbl (deser tbl f) w _ _ _ hrec b (hwk b.length k' hb (by omega)) 0 (by omega)
        (bareFields (fieldsOf tbl s)) 0 none 1 (Nat.le_refl _) (bareFields_refs tbl k' _ (bareOK_fields tbl k' s hok))
      rw [bareFields_len] at hfl
      have hM : (fieldsOf tbl s).length * (1 + tlA (maxFields tbl) k') ≤ maxFields tbl * (1 + tlA (maxFields tbl) k') :=
        Nat.mul_le_mul_right _ (fieldsOf_len tbl s)
      have hA : tlA (maxFields tbl) (k' + 1) = 1 + maxFields tbl * (1 + tlA (maxFields tbl) k') := rfl
      simp only [deser, deserLevel]
      cases hr : fieldsLoop (deser tbl f) b (bareFields (fieldsOf tbl s)) 0 none 1 with
      | oof => rw [hr] at hfl; exact hfl.elim
      | raised st g =>
        rw [hr] at hfl
        simp only [StepOK, Nat.zero_min, Nat.mul_zero] at hfl
        refine ⟨by simp, ?_⟩
        simp only [Res.steps, cons]
        omega
      | ok adv st =>
        rw [hr] at hfl
        simp only [StepOK, Nat.zero_min, Nat.mul_zero] at hfl
        refine ⟨by simp, ?_⟩
        simp only [Res.steps, cons]
        omega

theorem inv_all (tbl : Table) (hid : Ids4 tbl) (R : Nat) (hc : NoBareCycle tbl R) (N w : Nat)
    (hw : (N + 1) * (1 + tlA (maxFields tbl) (R + 2)) ≤ w) : ∀ f, Inv tbl R N w f := by
  intro f
  induction f with
  | zero =>
    constructor
    · intro b _ h; omega
    · intro b s k _ _ _ h; omega
  | succ n ih => exact inv_succ tbl hid R hc N w hw n ih

/-- total work of `deserialize`: with depth fuel `tlFuel R len` (or more) the model never runs out of fuel and its step
count is at most `tlK tbl R · (len+1)²`, for every table without bare cycles, every byte string, boxed or bare start -/
theorem deser_total (tbl : Table) (hid : Ids4 tbl) (R : Nat) (hc : NoBareCycle tbl R) (data : Bytes) (mode : Option Nat)
    (f : Nat) (hf : tlFuel R data.length ≤ f) :
    deser tbl f data mode ≠ .oof ∧ (deser tbl f data mode).steps ≤ tlK tbl R * ((data.length + 1) * (data.length + 1)) := by
  have hinv := inv_all tbl hid R hc data.length ((data.length + 1) * (1 + tlA (maxFields tbl) (R + 2))) (Nat.le_refl _) f
  have hfu : data.length / 4 * (R + 2) + 1 + (R + 1) ≤ f := by
    simp only [tlFuel] at hf
    rw [Nat.succ_mul] at hf
    omega
  have hA1 : tlA (maxFields tbl) (R + 1) ≤ tlA (maxFields tbl) (R + 2) := tlA_step _ _
  have key : ∀ r : Res, Spec ((data.length + 1) * (1 + tlA (maxFields tbl) (R + 2))) (tlA (maxFields tbl) (R + 1)) r data.length →
      r ≠ .oof ∧ r.steps ≤ tlK tbl R * ((data.length + 1) * (data.length + 1)) := by
    intro r ⟨h1, h2⟩
    refine ⟨h1, ?_⟩
    have hc' : cons r data.length ≤ data.length := by
      cases r <;> simp only [cons] <;> omega
    have h3 := wmono ((data.length + 1) * (1 + tlA (maxFields tbl) (R + 2))) _ _ hc'
    simp only [tlK]
    generalize tlA (maxFields tbl) (R + 2) = A2 at *
    generalize tlA (maxFields tbl) (R + 1) = A1 at *
    generalize data.length = n at *
    have e1 : (n + 1) * (1 + A2) * n + (n + 1) * (1 + A2) = (1 + A2) * ((n + 1) * (n + 1)) := by
      rw [← Nat.mul_succ, Nat.mul_comm (n + 1) (1 + A2), Nat.mul_assoc]
    have e2 : 1 + A2 ≤ (n + 1) * (1 + A2) := Nat.le_mul_of_pos_left _ (by omega)
    omega
  cases mode with
  | none =>
    obtain ⟨h1, h2⟩ := hinv.1 data (Nat.le_refl _) (by omega)
    exact key _ ⟨h1, by have := tlA_pos (maxFields tbl) (R + 1); omega⟩
  | some s =>
    exact key _ (hinv.2 data s (R + 1) (Nat.le_refl _) (Nat.le_refl _) (bareOK_all tbl R hc s) hfu)

end TonVerif.Proofs.CostTl
