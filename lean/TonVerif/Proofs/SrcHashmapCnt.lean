/-
The INSTRUMENTED copy of the dictionary parse recursion regenerated from parse.py (Generated/HashmapCnt.lean: `parse_cnt`,
`deserialize_hashmap_node_cnt` in the counting monad `Py.Cnt`, translator harness/translate/hashmapcnt.py):

  * `cnt_erase`   : it computes exactly the value of the regenerated function (so the textual transformation is not trusted for values);
  * `cnt_no_oof`  : for every slice and key length, with fuel ≥ 2·key_length + 2 no fuel-exhaustion line is reached
                    (the Python recursion is at most key_length + 1 levels of `parse` → `deserialize_hashmap_node` deep);
  * `cnt_bridge`  : on the tree unfolded from a cost-model graph it makes exactly the calls `Cost.dictCalls` counts and returns / raises
                    exactly when the cost model says — the C19 theorems about `dictCalls` are theorems about the code as written.
-/
import TonVerif.Generated.HashmapCnt
import TonVerif.Proofs.SrcHashmap
import TonVerif.Proofs.Cost

set_option linter.unusedSimpArgs false
namespace TonVerif.Proofs.SrcHashmapCnt
open TonVerif TonVerif.Model TonVerif.Model.Hashmap TonVerif.Proofs.Hashmap
open TonVerif.Generated.HashmapSrc TonVerif.Generated.HashmapCnt TonVerif.Proofs.SrcHashmap
open TonVerif.Py (Cnt CntState)
open TonVerif.Model (Cost.unary Cost.readLabelRaw Cost.readLabel)

/-- ERASURE: the instrumented copy computes exactly the value of the regenerated function (for every fuel, input and counter state) -/
theorem cnt_erase (fuel : Nat) :
    (∀ sl k d pfx s, (parse_cnt fuel sl k d pfx s).1 = parse fuel sl k d pfx) ∧
    (∀ cs m d pfx s, (deserialize_hashmap_node_cnt fuel cs m d pfx s).1 = deserialize_hashmap_node fuel cs m d pfx) := by
  induction fuel with
  | zero => exact ⟨fun _ _ _ _ _ => rfl, fun _ _ _ _ _ => rfl⟩
  | succ fuel ih =>
    obtain ⟨ihA, ihB⟩ := ih
    constructor
    · intro sl k d pfx s
      rw [parse_cnt, parse]
      simp only [Cnt.bind_run, Cnt.tick_run, Cnt.lift_run, Cnt.pure_run, Option.bind_eq_bind, Option.pure_def]
      rcases hh : deserialize_hml sl k with _ | ⟨⟨l, sfx⟩, sl'⟩
      · rfl
      · simp only [Option.bind_some]
        rcases hn : deserialize_hashmap_node_cnt fuel sl' (k - l) d (pfx ++ sfx) ⟨s.calls + 1, s.oof⟩ with ⟨o, s2⟩
        have := ihB sl' (k - l) d (pfx ++ sfx) ⟨s.calls + 1, s.oof⟩
        rw [hn] at this
        simp only at this
        rw [← this]
        cases o <;> rfl
    · intro cs m d pfx s
      rw [deserialize_hashmap_node_cnt, deserialize_hashmap_node]
      simp only [Cnt.bind_run, Cnt.tick_run]
      by_cases h1 : cs.kind ≠ -1
      · rw [if_pos h1, if_pos h1]; rfl
      rw [if_neg h1, if_neg h1]
      by_cases h2 : m = 0
      · rw [Cnt.bind_run, if_pos h2, if_pos h2]
        by_cases h3 : pfx.isEmpty = false
        · rw [Cnt.bind_run, if_pos h3, if_pos h3]; rfl
        · rw [Cnt.bind_run, if_neg h3, if_neg h3]; rfl
      rw [Cnt.bind_run, if_neg h2, if_neg h2]
      simp only [Cnt.bind_run, liftM, Cnt.lift_run, Cnt.pure_run, Option.bind_eq_bind, Option.pure_def]
      rcases hr1 : cs.loadRef? with _ | ⟨c1, cs1⟩
      · rfl
      simp only [Option.bind_some]
      rcases hp1 : parse_cnt fuel (Py.beginParse c1) (m - 1) d (pfx ++ [false]) ⟨s.calls + 1, s.oof⟩ with ⟨o1, s1⟩
      have e1 := ihA (Py.beginParse c1) (m - 1) d (pfx ++ [false]) ⟨s.calls + 1, s.oof⟩
      rw [hp1] at e1
      simp only at e1
      rw [← e1]
      rcases o1 with _ | ⟨sl1, d1, p1⟩
      · rfl
      simp only [Option.bind_some]
      rcases hr2 : cs1.loadRef? with _ | ⟨c2, cs2⟩
      · rfl
      simp only [Option.bind_some]
      rcases hp2 : parse_cnt fuel (Py.beginParse c2) (m - 1) d1 (pfx ++ [true]) s1 with ⟨o2, s2⟩
      have e2 := ihA (Py.beginParse c2) (m - 1) d1 (pfx ++ [true]) s1
      rw [hp2] at e2
      simp only at e2
      rw [← e2]
      rcases o2 with _ | ⟨sl2, d2, p2⟩ <;> rfl


/-- what `deserialize_hml` returns in terms of the model reader: the label length is at most the key length -/
theorem hml_le {sl : Py.Slice} {k : Int} {l : Nat} {sfx : Bits} {sl' : Py.Slice}
    (h : deserialize_hml sl k = some ((l, sfx), sl')) : (l : Int) ≤ k := by
  rw [deserialize_hml_eq] at h
  rcases hh : deserializeHml sl.bits k with _ | ⟨n, s, rest⟩
  · simp [hh] at h
  · simp only [hh, Option.map_some, Option.some.injEq, Prod.mk.injEq] at h
    obtain ⟨⟨rfl, _⟩, _⟩ := h
    exact deserializeHml_le hh

/-- DEPTH: with fuel ≥ 2·key_length + 2 the instrumented recursion never reaches a fuel-exhaustion line -/
theorem cnt_no_oof (fuel : Nat) :
    (∀ sl k d pfx s, 2 * k.toNat + 2 ≤ fuel → (parse_cnt fuel sl k d pfx s).2.oof = s.oof) ∧
    (∀ cs m d pfx s, 0 ≤ m → 2 * m.toNat + 1 ≤ fuel → (deserialize_hashmap_node_cnt fuel cs m d pfx s).2.oof = s.oof) := by
  induction fuel with
  | zero => exact ⟨fun _ _ _ _ _ h => by omega, fun _ _ _ _ _ _ h => by omega⟩
  | succ fuel ih =>
    obtain ⟨ihA, ihB⟩ := ih
    constructor
    · intro sl k d pfx s hf
      rw [parse_cnt]
      simp only [Cnt.bind_run, Cnt.tick_run, Cnt.lift_run, Cnt.pure_run]
      rcases hh : deserialize_hml sl k with _ | ⟨⟨l, sfx⟩, sl'⟩
      · rfl
      · have hle := hml_le hh
        simp only
        rcases hn : deserialize_hashmap_node_cnt fuel sl' (k - l) d (pfx ++ sfx) ⟨s.calls + 1, s.oof⟩ with ⟨o, s2⟩
        have := ihB sl' (k - l) d (pfx ++ sfx) ⟨s.calls + 1, s.oof⟩ (by omega) (by omega)
        rw [hn] at this
        simp only at this
        cases o <;> exact this
    · intro cs m d pfx s hm hf
      rw [deserialize_hashmap_node_cnt]
      simp only [Cnt.bind_run, Cnt.tick_run]
      by_cases h1 : cs.kind ≠ -1
      · rw [if_pos h1]; rfl
      rw [if_neg h1]
      by_cases h2 : m = 0
      · rw [Cnt.bind_run, if_pos h2]
        by_cases h3 : pfx.isEmpty = false
        · rw [Cnt.bind_run, if_pos h3]; rfl
        · rw [Cnt.bind_run, if_neg h3]; rfl
      rw [Cnt.bind_run, if_neg h2]
      simp only [Cnt.bind_run, liftM, Cnt.lift_run, Cnt.pure_run]
      rcases hr1 : cs.loadRef? with _ | ⟨c1, cs1⟩
      · rfl
      simp only
      rcases hp1 : parse_cnt fuel (Py.beginParse c1) (m - 1) d (pfx ++ [false]) ⟨s.calls + 1, s.oof⟩ with ⟨o1, s1⟩
      have e1 := ihA (Py.beginParse c1) (m - 1) d (pfx ++ [false]) ⟨s.calls + 1, s.oof⟩ (by omega)
      rw [hp1] at e1
      simp only at e1
      rcases o1 with _ | ⟨sl1, d1, p1⟩
      · exact e1
      simp only
      rcases hr2 : cs1.loadRef? with _ | ⟨c2, cs2⟩
      · exact e1
      simp only
      rcases hp2 : parse_cnt fuel (Py.beginParse c2) (m - 1) d1 (pfx ++ [true]) s1 with ⟨o2, s2⟩
      have e2 := ihA (Py.beginParse c2) (m - 1) d1 (pfx ++ [true]) s1 (by omega)
      rw [hp2] at e2
      simp only at e2
      rcases o2 with _ | ⟨sl2, d2, p2⟩ <;> simp only <;> rw [e2, e1]


/-! ### the cost model's label reader is the hand model's (hence the regenerated) reader -/
open TonVerif.Model.Cost in
theorem unary_eq : ∀ bits : Bits, Cost.unary bits = readUnary bits := by
  intro bits
  induction bits with
  | nil => rfl
  | cons b t ih => cases b <;> simp [Cost.unary, readUnary, ih]

theorem readLabelRaw_fst (bits : Bits) (m : Int) : (Cost.readLabelRaw bits m).1 = (readHml bits m).map (·.1) := by
  unfold Cost.readLabelRaw readHml
  rcases bits with _ | ⟨b0, r0⟩
  · rfl
  rcases b0 with _ | _
  · simp only [unary_eq, Option.bind_eq_bind]
    rcases readUnary r0 with _ | ⟨n, r1⟩
    · rfl
    · simp only [Option.bind_some, loadBits]
      by_cases h : r1.length < n <;> simp [h]
  rcases r0 with _ | ⟨b1, r1⟩
  · rfl
  rcases b1 with _ | _
  · simp only [loadLen, loadUint, loadBits, Option.bind_eq_bind]
    by_cases h0 : bitLength m.natAbs = 0
    · simp [h0]
    · simp only [h0, beq_iff_eq, if_false, false_or]
      by_cases h1 : r1.length < bitLength m.natAbs
      · simp [h1]
      · simp only [h1, if_false, Option.bind_some]
        by_cases h2 : r1.length - bitLength m.natAbs < natOfBits (r1.take (bitLength m.natAbs)) <;> simp [h2]
  rcases r1 with _ | ⟨v, r2⟩
  · rfl
  · simp only [loadLen, loadUint, Option.bind_eq_bind]
    by_cases h0 : bitLength m.natAbs = 0
    · simp [h0]
    · simp only [h0, beq_iff_eq, if_false, false_or]
      by_cases h1 : r2.length < bitLength m.natAbs <;> simp [h1]

theorem readLabel_fst (bits : Bits) (m : Int) : (Cost.readLabel bits m).1 = (deserializeHml bits m).map (·.1) := by
  have h := readLabelRaw_fst bits m
  unfold Cost.readLabel deserializeHml
  rcases hr : Cost.readLabelRaw bits m with ⟨lo, it⟩
  rw [hr] at h
  simp only at h
  rcases hq : readHml bits m with _ | ⟨n, s, rest⟩
  · rw [hq] at h; simp only [Option.map_none] at h; subst h; rfl
  · rw [hq] at h; simp only [Option.map_some] at h; subst h
    by_cases hgt : (n : Int) > m <;> simp [hgt]


/-! ### the calls of the regenerated recursion are the calls the cost model counts -/

/-- the tree cell of node `v` of a cost-model graph, unfolded to depth `F` (a non-ordinary node becomes a cell of type 1) -/
def unfoldD (g : Cost.DDag) : Nat → Nat → Cell
  | 0, v => match g[v]? with
    | none => .mk (-1) [] []
    | some nd => .mk (if nd.ordinary then -1 else 1) nd.bits []
  | F+1, v => match g[v]? with
    | none => .mk (-1) [] []
    | some nd => .mk (if nd.ordinary then -1 else 1) nd.bits (nd.kids.map (unfoldD g F))

/-- outcome and call count of an instrumented run started in state `s`, against the cost model's result -/
def Agrees {α : Type} (r : Cost.DRes) (out : Option α × CntState) (s : CntState) : Prop :=
  out.2.oof = s.oof ∧
  match r with
  | .done c => out.1.isSome = true ∧ out.2.calls = s.calls + c
  | .raised c => out.1 = none ∧ out.2.calls = s.calls + c
  | .oof => False

theorem unfold_kids (g : Cost.DDag) (F v : Nat) (nd : Cost.DNode) (h : g[v]? = some nd) :
    unfoldD g (F + 1) v = .mk (if nd.ordinary then -1 else 1) nd.bits (nd.kids.map (unfoldD g F)) := by
  simp [unfoldD, h]

theorem unfold_bits (g : Cost.DDag) (F v : Nat) (nd : Cost.DNode) (h : g[v]? = some nd) :
    ∃ kids, unfoldD g F v = .mk (if nd.ordinary then -1 else 1) nd.bits kids ∧ (0 < F → kids = nd.kids.map (unfoldD g (F - 1))) := by
  cases F with
  | zero => exact ⟨[], by simp [unfoldD, h], fun h0 => absurd h0 (by omega)⟩
  | succ F => exact ⟨_, unfold_kids g F v nd h, fun _ => rfl⟩

/-- BRIDGE.  On the tree unfolded from a (well-formed) cost-model graph the instrumented copy of the REGENERATED recursion makes
exactly the calls `Cost.dictCalls` counts, returns / raises exactly when it says, and never runs out of fuel -/
theorem cnt_bridge (g : Cost.DDag) (hg : ∀ nd ∈ g, ∀ k ∈ nd.kids, k < g.length) :
    ∀ (f v : Nat) (k : Int) (F fuel : Nat) (d : List (Bits × Py.Slice)) (pfx : Bits) (s : CntState),
      v < g.length → k.toNat < f → k.toNat ≤ F → 2 * f ≤ fuel →
      Agrees (Cost.dictCalls g f v k) (parse_cnt fuel (Py.beginParse (unfoldD g F v)) k d pfx s) s := by
  intro f
  induction f with
  | zero => intro v k F fuel d pfx s _ h; omega
  | succ f ih =>
    intro v k F fuel d pfx s hv hk hF hfuel
    obtain ⟨fu, rfl⟩ : ∃ fu, fuel = fu + 2 := ⟨fuel - 2, by omega⟩
    obtain ⟨nd, hnd⟩ : ∃ nd, g[v]? = some nd := ⟨g[v], by simp [hv]⟩
    have hmem : nd ∈ g := List.mem_of_getElem? hnd
    obtain ⟨kids, hcell, hkids⟩ := unfold_bits g F v nd hnd
    rw [hcell, Cost.dictCalls, parse_cnt]
    simp only [hnd, Py.beginParse, Cnt.bind_run, Cnt.tick_run, Cnt.lift_run, Cnt.pure_run, deserialize_hml_eq]
    have hfst := readLabel_fst nd.bits k
    rcases hrl : Cost.readLabel nd.bits k with ⟨lo, it⟩
    rw [hrl] at hfst
    simp only at hfst
    rcases hh : deserializeHml nd.bits k with _ | ⟨l, sfx, rest⟩
    · rw [hh] at hfst; simp only [Option.map_none] at hfst; subst hfst
      simp [Agrees]
    rw [hh] at hfst; simp only [Option.map_some] at hfst; subst hfst
    have hle := deserializeHml_le hh
    simp only [Option.map_some, withBits]
    rw [deserialize_hashmap_node_cnt]
    simp only [Cnt.bind_run, Cnt.tick_run]
    by_cases hord : nd.ordinary = true
    · -- ordinary cell
      have h1 : ¬ ((-1 : Int) ≠ -1) := by simp
      simp only [hord, if_true, Bool.not_true, Bool.false_eq_true, if_false]
      rw [if_neg h1]
      by_cases h2 : k - (l : Int) = 0
      · have hb : (k - (l : Int) == 0) = true := by simp [h2]
        rw [Cnt.bind_run, if_pos h2]
        simp only [hb, if_true]
        by_cases h3 : (pfx ++ sfx).isEmpty = false
        · rw [Cnt.bind_run, if_pos h3]; simp [Agrees, Cnt.pure_run, Cnt.bind_run]
        · rw [Cnt.bind_run, if_neg h3]; simp [Agrees, Cnt.pure_run, Cnt.bind_run]
      have hb : (k - (l : Int) == 0) = false := by simp [h2]
      rw [Cnt.bind_run, if_neg h2]
      simp only [hb, Bool.false_eq_true, if_false, Cnt.bind_run, liftM, Cnt.lift_run, Cnt.pure_run, loadRef_eq]
      have hFpos : 0 < F := by omega
      have hk' := hkids hFpos
      obtain ⟨F', rfl⟩ : ∃ F', F = F' + 1 := ⟨F - 1, by omega⟩
      simp only [Nat.add_sub_cancel] at hk'
      subst hk'
      rcases hkd : nd.kids with _ | ⟨a, more⟩
      · simp [Agrees]
      simp only [List.map_cons]
      have ha : a < g.length := hg nd hmem a (by rw [hkd]; simp)
      have iha := ih a (k - l - 1) F' fu d (pfx ++ sfx ++ [false]) ⟨s.calls + 1 + 1, s.oof⟩ ha (by omega) (by omega) (by omega)
      rcases hp1 : parse_cnt fu (Py.beginParse (unfoldD g F' a)) (k - l - 1) d (pfx ++ sfx ++ [false]) ⟨s.calls + 1 + 1, s.oof⟩ with ⟨o1, s1⟩
      rw [hp1] at iha
      rcases hc1 : Cost.dictCalls g f a (k - l - 1) with c1 | c1 | _
      · -- left child returned
        rw [hc1] at iha
        obtain ⟨ho1, hsome1, hcalls1⟩ := iha
        simp only at ho1 hsome1 hcalls1
        rcases o1 with _ | ⟨sl1, d1, p1⟩
        · simp at hsome1
        simp only
        rcases more with _ | ⟨b, more'⟩
        · simp [Agrees, ho1, hcalls1]; omega
        simp only [List.map_cons]
        have hb' : b < g.length := hg nd hmem b (by rw [hkd]; simp)
        have ihb := ih b (k - l - 1) F' fu d1 (pfx ++ sfx ++ [true]) s1 hb' (by omega) (by omega) (by omega)
        rcases hp2 : parse_cnt fu (Py.beginParse (unfoldD g F' b)) (k - l - 1) d1 (pfx ++ sfx ++ [true]) s1 with ⟨o2, s2⟩
        rw [hp2] at ihb
        rcases hc2 : Cost.dictCalls g f b (k - l - 1) with c2 | c2 | _
        · rw [hc2] at ihb
          obtain ⟨ho2, hsome2, hcalls2⟩ := ihb
          simp only at ho2 hsome2 hcalls2
          rcases o2 with _ | ⟨sl2, d2, p2⟩
          · simp at hsome2
          simp [Agrees, ho1, ho2, hcalls1, hcalls2]; omega
        · rw [hc2] at ihb
          obtain ⟨ho2, hnone2, hcalls2⟩ := ihb
          simp only at ho2 hnone2 hcalls2
          subst hnone2
          simp [Agrees, ho1, ho2, hcalls1, hcalls2]; omega
        · rw [hc2] at ihb; exact ihb.2.elim
      · -- left child raised
        rw [hc1] at iha
        obtain ⟨ho1, hnone1, hcalls1⟩ := iha
        simp only at ho1 hnone1 hcalls1
        subst hnone1
        simp [Agrees, ho1, hcalls1]; omega
      · rw [hc1] at iha; exact iha.2.elim
    · -- non-ordinary cell: `deserialize_hashmap_node` returns at once
      have hord' : nd.ordinary = false := by simpa using hord
      have h1 : (1 : Int) ≠ -1 := by decide
      simp only [hord', Bool.false_eq_true, if_false, Bool.not_false, if_true]
      rw [if_pos h1]
      simp [Agrees, Cnt.pure_run]

end TonVerif.Proofs.SrcHashmapCnt
