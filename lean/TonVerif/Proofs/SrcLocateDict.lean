/-
C11 / locsrc (b), plain dictionaries: `Rd.dictWalk` (the `parse` / `deserialize_hashmap_node` walk of the parser files, value reader applied
to every leaf) returns exactly when the C10 model `Hashmap.parseEdge` returns on the underlying tree and every leaf value is readable.
Then `CurrencyCollection` / `DepthBalanceInfo` of the parser files against `readCurrencyCollection` / `readDepthBalance`, and
`Rd.loadDictRaw` against `readDictRaw`.
-/
import TonVerif.Proofs.SrcLocateWalk
namespace TonVerif.Proofs.SrcLocate
open TonVerif TonVerif.Model TonVerif.Tlb TonVerif.Model.Hashmap TonVerif.Proofs.Hashmap TonVerif.Proofs.Locate

theorem toCell_mk (i : CellInfo) (refs : List PCell) : PCell.toCell (.mk i refs) = .mk i.kind i.bits (PCell.toCells refs) := by
  rw [PCell.toCell]

/-- the verdict of the model's plain parse with a per-leaf test -/
def edgeOk (ok : Bits → Bool) (r : Option (List (Bits × Spec.Hashmap.Val))) : Bool :=
  match r with
  | none => false
  | some kv => kv.all fun p => ok p.2.1

theorem dictWalk_ok {rd : Frag → Rd.R} {ok : Bits → Bool} (hrd : ∀ b r, (rd ⟨b, r⟩).isSome = ok b) :
    ∀ (fuel n : Nat) (pfx : Bits) (c : PCell), n < fuel → (0 < n ∨ pfx ≠ []) →
      (Rd.dictWalk rd fuel n pfx (tcell c)).isSome = edgeOk ok (parseEdge c.toCell (n : Int) pfx) := by
  intro fuel
  induction fuel with
  | zero => intro n pfx c hn; omega
  | succ fuel ih =>
    intro n pfx c hn hp
    obtain ⟨info, refs⟩ := c
    rw [tcell_mk, toCell_mk, Rd.dictWalk, parseEdge]
    simp only [Tlb.Cell.exotic, Tlb.Cell.bits, Tlb.Cell.refs]
    rcases label_cases n info.bits refs with ⟨h1, h2⟩ | ⟨lv, l, s, rest, h1, h2, rfl, rfl, hle⟩
    · simp [h1, h2, edgeOk]
    · simp only [h1, h2]
      by_cases hk : info.kind = -1
      · simp only [hk, bne_self_eq_false, Bool.false_eq_true, if_false, ne_eq, not_true_eq_false]
        by_cases hz : n - labelLen lv = 0
        · have hzi : (n : Int) - (labelLen lv : Int) = 0 := by omega
          have hlen := deserializeHml_length h2
          have hne : (pfx ++ Rd.labelBitsOf lv).isEmpty = false := by
            rcases hp with hp | hp
            · have : (Rd.labelBitsOf lv) ≠ [] := by
                intro h0; rw [h0] at hlen; simp at hlen; omega
              cases hpp : pfx <;> cases hll : Rd.labelBitsOf lv <;> simp_all
            · cases hpp : pfx <;> simp_all
          simp only [hz, hzi, if_true, hne]
          have := hrd rest (tcells refs)
          rcases hv : rd ⟨rest, tcells refs⟩ with _ | ⟨v, s2⟩ <;> rw [hv] at this <;> simp at this <;> simp [edgeOk, this]
        · have hzi : ¬ ((n : Int) - (labelLen lv : Int) = 0) := by omega
          simp only [hz, hzi, if_false]
          match refs with
          | [] => simp [tcells_nil, PCell.toCells, parseFork, edgeOk]
          | [a] => simp [tcells_cons, tcells_nil, PCell.toCells, parseFork, edgeOk]
          | a :: b :: more =>
            simp only [tcells_cons, toCells_cons2, parseFork]
            have hci : (n : Int) - (labelLen lv : Int) - 1 = ((n - labelLen lv - 1 : Nat) : Int) := by omega
            rw [hci]
            have ha := ih (n - labelLen lv - 1) (pfx ++ Rd.labelBitsOf lv ++ [false]) a (by omega) (Or.inr (by simp))
            have hb := ih (n - labelLen lv - 1) (pfx ++ Rd.labelBitsOf lv ++ [true]) b (by omega) (Or.inr (by simp))
            rcases hav : Rd.dictWalk rd fuel (n - labelLen lv - 1) (pfx ++ Rd.labelBitsOf lv ++ [false]) (tcell a) with _ | ra <;>
              rcases hap : parseEdge a.toCell ((n - labelLen lv - 1 : Nat) : Int) (pfx ++ Rd.labelBitsOf lv ++ [false]) with _ | pa <;>
              rcases hbv : Rd.dictWalk rd fuel (n - labelLen lv - 1) (pfx ++ Rd.labelBitsOf lv ++ [true]) (tcell b) with _ | rb <;>
              rcases hbp : parseEdge b.toCell ((n - labelLen lv - 1 : Nat) : Int) (pfx ++ Rd.labelBitsOf lv ++ [true]) with _ | pb <;>
              rw [hav, hap] at ha <;> rw [hbv, hbp] at hb <;> simp [edgeOk] at ha hb ⊢ <;> (try simp_all) <;> (try exact ⟨ha, hb⟩)
      · have hb : (info.kind != -1) = true := by simpa using hk
        simp [hb, hk, edgeOk]

theorem loadVarUint5_isSome (b : Bits) (r : List Tlb.Cell) : (Rd.loadVarUint 5 ⟨b, r⟩).isSome = varUintOk 5 b := by
  simp only [Rd.loadVarUint, Rd.loadUint, Rd.takeBits, varUintOk]
  by_cases h : b.length < 5
  · simp [h]
  · simp only [h, if_false, Nat.reduceEqDiff, Option.map_some]
    by_cases h0 : natOfBits (b.take 5) = 0
    · simp [h0]
    · have hi : ¬ ((natOfBits (b.take 5) : Int) = 0) := by omega
      simp only [hi, if_false, Int.toNat_natCast]
      have hm : ¬ (natOfBits (b.take 5) * 8 = 0) := by omega
      simp only [hm, if_false]
      by_cases hl : b.length - 5 < natOfBits (b.take 5) * 8
      · have : ¬ (8 * natOfBits (b.take 5) ≤ b.length - 5) := by omega
        simp [hl, this]
      · have : 8 * natOfBits (b.take 5) ≤ b.length - 5 := by omega
        simp [hl, this]

theorem loadCoins_rest (b : Bits) (r : List Tlb.Cell) :
    (Rd.loadCoins ⟨b, r⟩).map (·.2) = (loadCoinsRest b).map (fun x => (⟨x, r⟩ : Frag)) := by
  simp only [Rd.loadCoins, Rd.loadVarUint, Rd.loadUint, Rd.takeBits, loadCoinsRest]
  by_cases h : b.length < 4
  · simp [h]
  · simp only [h, if_false, Nat.reduceEqDiff, Option.map_some]
    by_cases h0 : natOfBits (b.take 4) = 0
    · simp [h0]
    · have hi : ¬ ((natOfBits (b.take 4) : Int) = 0) := by omega
      simp only [hi, if_false, Int.toNat_natCast]
      have hm : ¬ (natOfBits (b.take 4) * 8 = 0) := by omega
      simp only [hm, if_false]
      by_cases hl : b.length - 4 < natOfBits (b.take 4) * 8
      · have : b.length - 4 < 8 * natOfBits (b.take 4) := by omega
        simp [hl, this]
      · have : ¬ (b.length - 4 < 8 * natOfBits (b.take 4)) := by omega
        simp [hl, this, Nat.mul_comm]

/-- `Rd.loadDict n rd` against "Maybe bit, root reference, exotic root → None, else the C10 parse + a per-leaf test" -/
theorem loadDict_rest {rd : Frag → Rd.R} {ok : Bits → Bool} (hrd : ∀ b r, (rd ⟨b, r⟩).isSome = ok b) (n : Nat) (hn : 0 < n)
    (bits : Bits) (refs : List PCell) :
    (Rd.loadDict n rd ⟨bits, tcells refs⟩).map (·.2) =
      (match bits with
       | [] => none
       | false :: r => some (psliceFrag (r, refs))
       | true :: r =>
         match refs with
         | [] => none
         | c :: more =>
           if c.info.kind ≠ -1 then some (psliceFrag (r, more))
           else if edgeOk ok (parseHashmap c.toCell n) then some (psliceFrag (r, more)) else none) := by
  match bits with
  | [] => simp [Rd.loadDict, Rd.loadBit]
  | false :: r => simp [Rd.loadDict, Rd.loadBit, Rd.truthy, psliceFrag]
  | true :: r =>
    match refs with
    | [] => simp [Rd.loadDict, Rd.loadBit, Rd.truthy, Rd.loadRef, tcells_nil]
    | c :: more =>
      have hw := dictWalk_ok hrd (n + 1) n [] c (by omega) (Or.inl hn)
      obtain ⟨info, cr⟩ := c
      rw [tcell_mk] at hw
      simp only [Rd.loadDict, Rd.loadBit, Rd.truthy, Rd.loadRef, tcells_cons, tcell_mk, Tlb.Cell.exotic, PCell.info, psliceFrag, parseHashmap]
      by_cases hk : info.kind = -1
      · simp only [hk, bne_self_eq_false, ne_eq, not_true_eq_false, if_false] at hw ⊢
        rcases hv : Rd.dictWalk rd (n + 1) n [] (Tlb.Cell.mk false info.bits (tcells cr)) with _ | kv <;> rw [hv] at hw <;>
          simp at hw <;> simp [hw]
      · have hb : (info.kind != -1) = true := by simpa using hk
        simp [hb, hk]

theorem extraCurrencies_rest (sp : Bool) (s : PSlice) :
    (SrcTx.ExtraCurrencyCollection sp (psliceFrag s)).map (·.2) = (readExtraCurrencies s).map psliceFrag := by
  obtain ⟨bits, refs⟩ := s
  have h := loadDict_rest (rd := Rd.loadVarUint 5) (ok := varUintOk 5) loadVarUint5_isSome 32 (by omega) bits refs
  have hL : (SrcTx.ExtraCurrencyCollection sp ⟨bits, tcells refs⟩).map (·.2) =
      (Rd.loadDict 32 (Rd.loadVarUint 5) ⟨bits, tcells refs⟩).map (·.2) := by
    simp only [SrcTx.ExtraCurrencyCollection]
    cases Rd.loadDict 32 (Rd.loadVarUint 5) ⟨bits, tcells refs⟩ <;> rfl
  rw [psliceFrag, hL, h]
  match bits with
  | [] => simp [readExtraCurrencies]
  | false :: r => simp [readExtraCurrencies]
  | true :: r =>
    match refs with
    | [] => simp [readExtraCurrencies]
    | c :: more =>
      simp only [readExtraCurrencies]
      by_cases hk : c.info.kind = -1
      · clear h hL
        rcases hp : parseHashmap c.toCell 32 with _ | kv
        · simp [hk, edgeOk]
        · simp only [hk, edgeOk, ne_eq, not_true_eq_false, if_false]
          by_cases hb : (kv.all fun p => varUintOk 5 p.2.1) = true <;> simp [hb]
      · simp [hk]

theorem currencyCollection_rest (sp : Bool) (s : PSlice) :
    (SrcTx.CurrencyCollection sp (psliceFrag s)).map (·.2) = (readCurrencyCollection s).map psliceFrag := by
  obtain ⟨bits, refs⟩ := s
  have h1 := loadCoins_rest bits (tcells refs)
  simp only [SrcTx.CurrencyCollection, psliceFrag, readCurrencyCollection]
  rcases hc : Rd.loadCoins ⟨bits, tcells refs⟩ with _ | ⟨v, s1⟩ <;> rcases hm : loadCoinsRest bits with _ | rb <;>
    rw [hc, hm] at h1 <;> simp at h1
  · simp
  · subst h1
    have h2 := extraCurrencies_rest sp (rb, refs)
    simp only [psliceFrag] at h2
    rcases he : SrcTx.ExtraCurrencyCollection sp ⟨rb, tcells refs⟩ with _ | ⟨v2, s2⟩ <;>
      rcases hr : readExtraCurrencies (rb, refs) with _ | sl <;> rw [he, hr] at h2 <;> simp at h2 <;> simp [he, hr, h2, psliceFrag]

theorem depthBalance_rest (sp : Bool) (s : PSlice) :
    (SrcBlk.DepthBalanceInfo sp (psliceFrag s)).map (·.2) = (readDepthBalance s).map psliceFrag := by
  obtain ⟨bits, refs⟩ := s
  simp only [SrcBlk.DepthBalanceInfo, psliceFrag, readDepthBalance, Rd.loadUint, Rd.takeBits]
  by_cases hl : bits.length < 5
  · simp [hl]
  · have h2 := currencyCollection_rest sp (bits.drop 5, refs)
    simp only [psliceFrag] at h2
    rcases he : SrcTx.CurrencyCollection sp ⟨bits.drop 5, tcells refs⟩ with _ | ⟨v2, s2⟩ <;>
      rcases hr : readCurrencyCollection (bits.drop 5, refs) with _ | sl <;> rw [he, hr] at h2 <;> simp at h2 <;>
      simp [hl, he, hr, h2, psliceFrag]

theorem dictRaw_rest (n : Nat) (hn : 0 < n) (s : PSlice) :
    (Rd.loadDictRaw n (psliceFrag s)).map (·.2) = (readDictRaw n s).map psliceFrag := by
  obtain ⟨bits, refs⟩ := s
  have h := loadDict_rest (rd := Rd.rawLeaf) (ok := fun _ => true) (fun _ _ => rfl) n hn bits refs
  rw [psliceFrag, Rd.loadDictRaw, h]
  match bits with
  | [] => simp [readDictRaw]
  | false :: r => simp [readDictRaw]
  | true :: r =>
    match refs with
    | [] => simp [readDictRaw]
    | c :: more =>
      simp only [readDictRaw]
      by_cases hk : c.info.kind = -1
      · rcases hp : parseHashmap c.toCell n with _ | kv <;> simp [hk, edgeOk]
      · simp [hk]

end TonVerif.Proofs.SrcLocate
