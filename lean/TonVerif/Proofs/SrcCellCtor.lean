/-
The regenerated Cell constructor (`Generated/CellCtor.lean`, re-translated from cell.py on every run by
harness/translate/cellctor.py + pyobj.py) equals the hand model `Model.construct`, for ALL inputs.
Generation dependent: a change of the Python source changes the definitions these proofs unfold.
The proofs case-split on the decisions of the hand model and let `simp` evaluate the regenerated term under them, so
they depend on what the source computes, not on how it spells it.
-/
import TonVerif.Generated.CellCtor
import TonVerif.Model.CellCtorView
import TonVerif.Proofs.SrcObj
import TonVerif.Proofs.SrcArith

namespace TonVerif.Proofs.SrcCellCtor
open TonVerif TonVerif.Model TonVerif.Generated TonVerif.Generated.CellCtor TonVerif.Proofs.SrcObj TonVerif.Proofs.SrcArith

set_option linter.unusedSimpArgs false

/-! ### the regenerated LevelMask methods (Generated/LevelMask.lean) are the hand model's -/

theorem lm_hashIndex (m : Nat) : lmHashIndex m = popcount m := by
  simp only [lmHashIndex, py_popcount_eq]

theorem lm_level (m : Nat) : lmLevel m = bitLength m := by
  simp only [lmLevel, py_bitLength_eq]

theorem lm_apply (m l : Nat) : lmApply m l = maskApply m l := by
  simp only [lmApply, maskApply, shiftLeft_lit, Nat.one_mul, and_mask]

theorem lm_isSignificant (m l : Nat) : lmIsSignificant m l = isSignificant m l := by
  rw [Bool.eq_iff_iff]
  simp only [lmIsSignificant, isSignificant, and_one, decide_eq_true_eq, Bool.or_eq_true, beq_iff_eq, bne_iff_ne]

/-! ### the small methods -/

/-- `Cell.get_data_bytes` never raises and returns the model's padded data -/
theorem get_data_bytes_eq (bits : Bits) : get_data_bytes (self_bits := bits) = some (dataBytes bits) := by
  unfold get_data_bytes dataBytes
  by_cases h : bits.length % 8 = 0 <;> simp [h, bitsToBytes_fill]

/-- `Cell.get_descriptors(mask)` = the model's two descriptor bytes (`none` = `to_bytes(1)` overflows) -/
theorem get_descriptors_eq (mask : Nat) (refs : List CellInfo) (exotic : Bool) (bits : Bits) :
    get_descriptors mask (self_refs := refs) (self_is_exotic := exotic) (self_bits := bits) =
      descriptors refs.length exotic bits.length mask := by
  unfold get_descriptors get_refs_descriptor get_bits_descriptor descriptors
  cases exotic <;> simp <;> first | rfl | grind

/-- `child.get_depth(l)` on a constructed cell = the model's `getDepth` -/
theorem get_depth_eq (l : Nat) (c : CellInfo) :
    get_depth l (self_level_mask := c.mask) (self_type_ := c.kind) (self_bits := c.bits) (self__depths := c.depths) = c.getDepth l := by
  unfold get_depth CellInfo.getDepth
  simp only [lm_hashIndex, lm_apply, get_data_bytes_eq, hashIndexAt, kPruned, Py.slice, pySlice]
  have e : ∀ p h : Nat, 2 + 32 * p + h * 2 = 2 + 32 * p + 2 * h := by intro p h; omega
  by_cases hk : c.kind = 1 <;> by_cases hh : popcount (maskApply c.mask l) = popcount c.mask <;> simp [hk, hh, e]

/-- `child.get_hash(l)` on a constructed cell = the model's `getHash` -/
theorem get_hash_eq (l : Nat) (c : CellInfo) :
    get_hash l (self_level_mask := c.mask) (self_type_ := c.kind) (self_bits := c.bits) (self__hashes := c.hashes) = c.getHash l := by
  unfold get_hash CellInfo.getHash
  simp only [lm_hashIndex, lm_apply, get_data_bytes_eq, hashIndexAt, kPruned, Py.slice, pySlice]
  have e : ∀ h : Nat, 2 + h * 32 = 2 + 32 * h ∧ 2 + (h + 1) * 32 = 2 + 32 * (h + 1) := by intro h; omega
  by_cases hk : c.kind = 1 <;> by_cases hh : popcount (maskApply c.mask l) = popcount c.mask <;> simp [hk, hh, e]

/-- `Cell.resolve_mask` = the model's `resolveMask` -/
theorem resolve_mask_eq (kind : Int) (bits : Bits) (refs : List CellInfo) :
    resolve_mask (self_type_ := kind) (self_refs := refs) (self_bits := bits) = resolveMask kind bits refs := by
  unfold resolve_mask resolveMask
  simp only [kOrdinary, kPruned, kMerkleProof, kMerkleUpdate, kLibrary, intOfBits_eq, Py.slice, pySlice]
  by_cases h1 : kind = -1
  · simp [h1, foldlM_pure]
  by_cases h2 : kind = 1
  · cases refs <;> simp [h2]
  by_cases h3 : kind = 3
  · cases refs <;> simp [h3]
  by_cases h4 : kind = 4
  · rcases refs with _ | ⟨a, _ | ⟨b, t⟩⟩ <;> simp [h4]
  by_cases h5 : kind = 2 <;> simp [h1, h2, h3, h4, h5]

/-- the loop state `(hash_index, self._depths, self._hashes)` of `calculate_hashes` -/
def encSt (st : HashState) : Nat × List Nat × List Bytes := (st.hashIndex, st.depths, st.hashes)

/-- closes one leaf of the step equation: the payload is known, the two loops over the references remain. `lvl` = the level
at which the children are read. -/
macro "cell_tail" refs:term:max lvl:term:max : tactic => `(tactic| (
  rw [foldlM_congr _ (depthStep (fun r => CellInfo.getDepth r $lvl)) (by
        rintro ⟨d, h⟩ r
        simp only [depthStep]
        cases CellInfo.getDepth r $lvl <;> simp
        refine Option.bind_congr (fun db _ => ?_); grind), depthLoop]
  cases List.mapM (fun r => CellInfo.getDepth r $lvl) $refs <;> simp only [Option.bind_some, Option.bind_none, Option.map_none]
  rename_i rd
  cases List.mapM (toBytesBE? 2) rd <;> simp only [Option.bind_some, Option.bind_none, Option.map_none]
  generalize List.foldl (fun d x => if x > d then x else d) 0 rd = d0
  by_cases hr : List.length $refs > 0 <;> by_cases hdd : d0 + 1 ≥ 1024 <;>
    simp only [ne_nil_eq_pos, length_ne_zero_eq_pos, length_ge_one_eq_pos, hr, hdd, if_true, if_false, Option.bind_some, Option.bind_none, Option.map_none]
  all_goals try (split <;> (try omega) <;> simp only [Option.bind_some, Option.bind_none, Option.map_none])   -- another spelling of the depth test
  all_goals
    rw [foldlM_congr _ (hashFeed (fun r => CellInfo.getHash r $lvl)) (by
          intro h r
          simp only [hashFeed]), hashLoop]
    cases List.mapM (fun r => CellInfo.getHash r $lvl) $refs <;>
      simp [encSt, List.append_assoc]))

theorem calculate_hashes_eq (H : Bytes → Bytes) (mask : Nat) (kind : Int) (refs : List CellInfo) (bits : Bits) :
    calculate_hashes H (self_level_mask := mask) (self_type_ := kind) (self__depths := []) (self__hashes := []) (self_refs := refs)
        (self_is_exotic := decide (kind ≠ -1)) (self_bits := bits) =
      ((List.range (bitLength mask + 1)).foldlM
          (hashStep H kind bits refs mask (popcount mask + 1 - (if kind == kPruned then 1 else popcount mask + 1))) ⟨0, [], []⟩).map
        (fun st => (st.depths, st.hashes)) := by
  unfold calculate_hashes
  simp only [lm_hashIndex, lm_level, lm_apply, lm_isSignificant, get_descriptors_eq, get_data_bytes_eq, get_depth_eq, get_hash_eq,
    Nat.sub_zero, ← List.range_eq_range', Option.bind_some]
  -- the offset: an exact Python int in the source, a truncated Nat difference in the model; they agree
  generalize hoff : (popcount mask + 1 - if (kind == kPruned) = true then 1 else popcount mask + 1) = off
  have hx : ∀ {β : Type} (k : Nat → Option β), ((if kind = 1 then some 1 else some (popcount mask + 1)).bind k)
      = k (if kind = 1 then 1 else popcount mask + 1) := by
    intro β k; split <;> rfl
  try rw [hx]
  have hoffI : ((popcount mask + 1 : Nat) : Int) - ((if kind = 1 then 1 else popcount mask + 1 : Nat) : Int) = (off : Int) := by
    subst hoff; simp only [kPruned, beq_iff_eq]; split <;> omega
  simp only [hoffI]
  rw [show ((0 : Nat), ([] : List Nat), ([] : List Bytes)) = encSt ⟨0, [], []⟩ from rfl]
  have hoff0 : kind = 1 ∨ off = 0 := by
    by_cases hk : kind = 1
    · exact Or.inl hk
    · right; subst hoff; simp [kPruned, hk]
  -- the step only has to agree on reachable states: `hash_index = 0` exactly before level 0 (`levelInv`)
  rw [foldlM_sim_range encSt _ (hashStep H kind bits refs mask off) levelInv (levelInv_step H kind bits refs mask off) ?step _ _
    (Or.inl ⟨rfl, rfl⟩)]
  · cases List.foldlM (hashStep H kind bits refs mask off) ⟨0, [], []⟩ (List.range (bitLength mask + 1)) <;> simp [encSt]
  case step =>
    rintro li ⟨hi, hs, ds⟩ hP
    have hP' : (li = 0 ∧ hi = 0) ∨ (0 < li ∧ 0 < hi) := hP
    simp only [encSt]
    unfold hashStep
    by_cases hsig : isSignificant mask li = true
    case neg => simp [hsig, encSt]
    by_cases hlt : hi < off
    case pos => simp [hsig, hlt, encSt]
    have hex : decide (kind ≠ -1) = (kind != kOrdinary) := by by_cases h : kind = -1 <;> simp [h, kOrdinary]
    simp only [hsig, hlt, hex, Int.ofNat_lt, not_true_eq_false, Bool.not_true, Bool.false_eq_true, if_false]
    cases hd : descriptors refs.length (kind != kOrdinary) (List.length bits) (maskApply mask li) with
    | none => simp
    | some dsc =>
    -- Merkle cells read their children one level up
    have hM : (kind = 3 ∨ kind = 4) = (isMerkle kind = true) := by simp [isMerkle, kMerkleProof, kMerkleUpdate]
    have hgI : hi ≠ off → Py.getI? hs ((hi : Int) - (off : Int) - 1) = hs[hi - off - 1]? :=
      fun h => getI_nonneg _ _ _ (by omega)
    have hI : ((hi : Int) = (off : Int)) = (hi = off) := propext Int.natCast_inj
    have hI2 : ((hi : Int) - (off : Int) = 0) = (hi = off) := propext ⟨fun h => by omega, fun h => by omega⟩
    have hI3 : ((off : Int) = (hi : Int)) = (hi = off) := propext ⟨fun h => by omega, fun h => by omega⟩
    by_cases hm : isMerkle kind = true
    · have hm' := eq_true hm
      by_cases heq : hi = off <;> (first | have heq' := eq_false heq | have heq' := eq_true heq) <;>
      by_cases h0 : li = 0 <;> (first | have h0' := eq_false h0 | have h0' := eq_true h0) <;>
      by_cases hp : kind = 1 <;> (first | have hp' := eq_false hp | have hp' := eq_true hp) <;>
      first | (exfalso; omega) | simp only [hM, hm', hI, hI2, hI3, heq', h0', hp', hgI, kPruned, Option.bind_some, ne_eq, not_true_eq_false, not_false_eq_true, and_true, and_false,
        true_and, false_and, or_true, or_false, true_or, false_or, if_true, if_false, Option.bind_none, Bool.and_false, Bool.false_and,
        Bool.and_true, Bool.true_and, Bool.or_true, Bool.or_false, Bool.true_or, Bool.false_or, Bool.false_eq_true, Option.map_none, Option.bind_eq_bind, Option.pure_def,
        beq_iff_eq, bne_iff_ne, decide_true, decide_false, Bool.and_eq_true, Bool.or_eq_true, reduceCtorEq]
      all_goals try (cases hs[hi - off - 1]? <;> simp only [Option.bind_some, Option.bind_none, Option.map_none])
      all_goals cell_tail refs (li + 1)
    · have hm' := eq_false hm
      by_cases heq : hi = off <;> (first | have heq' := eq_false heq | have heq' := eq_true heq) <;>
      by_cases h0 : li = 0 <;> (first | have h0' := eq_false h0 | have h0' := eq_true h0) <;>
      by_cases hp : kind = 1 <;> (first | have hp' := eq_false hp | have hp' := eq_true hp) <;>
      first | (exfalso; omega) | simp only [hM, hm', hI, hI2, hI3, heq', h0', hp', hgI, kPruned, Option.bind_some, ne_eq, not_true_eq_false, not_false_eq_true, and_true, and_false,
        true_and, false_and, or_true, or_false, true_or, false_or, if_true, if_false, Option.bind_none, Bool.and_false, Bool.false_and,
        Bool.and_true, Bool.true_and, Bool.or_true, Bool.or_false, Bool.true_or, Bool.false_or, Bool.false_eq_true, Option.map_none, Option.bind_eq_bind, Option.pure_def,
        beq_iff_eq, bne_iff_ne, decide_true, decide_false, Bool.and_eq_true, Bool.or_eq_true, reduceCtorEq]
      all_goals try (cases hs[hi - off - 1]? <;> simp only [Option.bind_some, Option.bind_none, Option.map_none])
      all_goals cell_tail refs li

/-- THE TIE: the regenerated `Cell.__init__` equals the hand model's constructor, for ALL cell types, bit strings and lists of
child infos: the same decision to raise, and on success the same level mask, per-level hashes and depths, `_hash` = the model's
`CellInfo.hash`, `_descriptors` = the model's descriptor bytes, `_data_bytes` = the model's padded data. -/
theorem src_construct_eq_model (H : Bytes → Bytes) (kind : Int) (bits : Bits) (refs : List CellInfo) :
    init H bits refs kind = (construct H kind bits refs).map CtorOut.ofModel := by
  unfold init NullCell_init construct
  simp only [Option.bind_some, resolve_mask_eq]
  cases resolveMask kind bits refs with
  | none => simp
  | some mask =>
    simp only [Option.bind_some, calculate_hashes_eq, get_descriptors_eq, get_data_bytes_eq, getI_neg_one, getI_length_sub_one, Option.bind_eq_bind, Option.pure_def]
    have hex : decide (kind ≠ -1) = (kind != kOrdinary) := by by_cases h : kind = -1 <;> simp [h, kOrdinary]
    rw [hex]
    generalize List.foldlM (hashStep H kind bits refs mask _) _ _ = r
    cases r with
    | none => simp
    | some st =>
      cases hd : descriptors refs.length (kind != kOrdinary) bits.length mask with
      | none => simp
      | some d =>
        cases hl : st.hashes.getLast? with
        | none => simp [hl]
        | some h => simp [CtorOut.ofModel, CellInfo.hash, hd, hl]

/-- the `CellInfo` of the regenerated constructor's result is the hand model's result -/
theorem src_construct_info (H : Bytes → Bytes) (kind : Int) (bits : Bits) (refs : List CellInfo) :
    (init H bits refs kind).map CtorOut.toInfo = construct H kind bits refs := by
  rw [src_construct_eq_model]
  cases construct H kind bits refs <;> simp [CtorOut.ofModel, CtorOut.toInfo]

/-! ### whole trees: the regenerated constructor applied bottom-up -/

mutual
  /-- what the REGENERATED `Cell.__init__` computes for a tree of cells, children first (`none` = some constructor raises) -/
  def srcInfo (H : Bytes → Bytes) : Cell → Option CellInfo
    | .mk kind bits refs => do
      let rs ← srcInfos H refs
      (init H bits rs kind).map CtorOut.toInfo
  def srcInfos (H : Bytes → Bytes) : List Cell → Option (List CellInfo)
    | [] => some []
    | c :: cs => do
      let i ← srcInfo H c
      let is ← srcInfos H cs
      pure (i :: is)
end

mutual
  theorem srcInfo_eq (H : Bytes → Bytes) : ∀ c : Cell, srcInfo H c = Cell.info H c
    | .mk kind bits refs => by
      rw [srcInfo, Cell.info, srcInfos_eq H refs]
      simp only [src_construct_info]
  theorem srcInfos_eq (H : Bytes → Bytes) : ∀ cs : List Cell, srcInfos H cs = Cell.infos H cs
    | [] => by rw [srcInfos, Cell.infos]
    | c :: cs => by rw [srcInfos, Cell.infos, srcInfo_eq H c, srcInfos_eq H cs]
end

end TonVerif.Proofs.SrcCellCtor
