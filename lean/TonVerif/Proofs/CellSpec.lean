/-
Refinement: the executable model of `Cell.__init__` (Model/Cell.lean) computes exactly the
TON spec values of Spec/Cell.lean, for every well-formed node and hence every well-formed tree.
-/
import TonVerif.Model.Cell
import TonVerif.Spec.Cell

namespace TonVerif.Proofs.CellSpec
open TonVerif TonVerif.Model

def kindCode : Spec.Kind → Int
  | .ordinary => -1
  | .pruned => 1
  | .library => 2
  | .merkleProof => 3
  | .merkleUpdate => 4

def kindOf (k : Int) : Option Spec.Kind :=
  if k = -1 then some .ordinary else if k = 1 then some .pruned else if k = 2 then some .library
  else if k = 3 then some .merkleProof else if k = 4 then some .merkleUpdate else none

/-- a model cell-info and a spec cell-info describe the same cell -/
def Agrees (i : CellInfo) (s : Spec.SInfo) : Prop :=
  i.mask = s.mask ∧ ∀ l, i.getHash l = some (s.hashAt l) ∧ i.getDepth l = some (s.depthAt l)

def AllAgree : List CellInfo → List Spec.SInfo → Prop
  | [], [] => True
  | i :: is, s :: ss => Agrees i s ∧ AllAgree is ss
  | _, _ => False

/-- spec-validity of one node, given the spec values of its children -/
structure NodeWF (H : Bytes → Bytes) (k : Spec.Kind) (bits : Bits) (kids : List Spec.SInfo) : Prop where
  bitsLen : bits.length ≤ 1023
  nrefs : kids.length ≤ 4
  kidsMask : ∀ c ∈ kids, c.mask ≤ 7
  depthOk : k ≠ .pruned → ∀ l, (Spec.node H k bits kids).depthAt l ≤ 1023
  pruned : k = .pruned → kids = [] ∧ 16 ≤ bits.length ∧ 1 ≤ Spec.nodeMask k bits kids ∧ Spec.nodeMask k bits kids ≤ 7
  library : k = .library → kids = []
  mproof : k = .merkleProof → kids.length = 1
  mupdate : k = .merkleUpdate → kids.length = 2

set_option linter.unusedSimpArgs false

/-! ### popcount, data bytes -/

theorem popcount_eq (n : Nat) : Model.popcount n = Spec.popcount n := by
  induction n using Nat.strongRecOn with
  | _ n ih =>
    cases n with
    | zero => simp [Model.popcount, Spec.popcount]
    | succ n =>
      rw [Model.popcount, Spec.popcount, ih _ (by omega)]

theorem bitsToBytes_pad (n : Nat) : ∀ (xs : Bits) (k : Nat), xs.length = n →
    (xs.length % 8 = 0 → k = 0) → (xs.length % 8 ≠ 0 → k + xs.length % 8 ≤ 8) →
    bitsToBytes (xs ++ List.replicate k false) = bitsToBytes xs := by
  induction n using Nat.strongRecOn with
  | _ n ih =>
    intro xs k hn h0 h1
    by_cases hk : k = 0
    · subst hk; simp
    cases xs with
    | nil => simp at h0; exact absurd h0 hk
    | cons b0 rest =>
      by_cases hlen : (b0 :: rest).length ≤ 8
      · have hL : (b0 :: rest).length + k ≤ 8 := by
          by_cases h8 : (b0 :: rest).length = 8
          · rw [h8] at h0; exact absurd (h0 (by decide)) hk
          · have : (b0 :: rest).length % 8 = (b0 :: rest).length := Nat.mod_eq_of_lt (by omega)
            have := h1 (by omega)
            omega
        simp only [List.cons_append, bitsToBytes]
        simp only [List.length_cons] at hL hlen
        have e1 : List.take 8 (b0 :: (rest ++ List.replicate k false)) = b0 :: (rest ++ List.replicate k false) := by
          apply List.take_of_length_le; simp; omega
        have e2 : List.take 8 (b0 :: rest) = b0 :: rest := by
          apply List.take_of_length_le; simp; omega
        have e3 : List.drop 8 (b0 :: (rest ++ List.replicate k false)) = [] := by
          apply List.drop_of_length_le; simp; omega
        have e4 : List.drop 8 (b0 :: rest) = [] := by
          apply List.drop_of_length_le; simp; omega
        rw [e1, e2, e3, e4]
        simp only [List.cons_append, List.append_assoc, List.replicate_append_replicate, List.length_cons, List.length_append, List.length_replicate]
        have : k + (8 - (rest.length + k + 1)) = 8 - (rest.length + 1) := by omega
        rw [this]
      · simp only [List.length_cons] at hlen h0 h1 hn
        have hr : 8 ≤ rest.length := by omega
        simp only [List.cons_append, bitsToBytes]
        have e1 : List.take 8 (b0 :: (rest ++ List.replicate k false)) = List.take 8 (b0 :: rest) := by
          simp only [List.take_succ_cons]; rw [List.take_append_of_le_length (by omega)]
        have e3 : List.drop 8 (b0 :: (rest ++ List.replicate k false)) = List.drop 8 (b0 :: rest) ++ List.replicate k false := by
          simp only [List.drop_succ_cons]; rw [List.drop_append_of_le_length (by omega)]
        rw [e1, e3]
        congr 1
        have hl : (List.drop 8 (b0 :: rest)).length = rest.length + 1 - 8 := by simp
        apply ih (rest.length + 1 - 8) (by omega) _ _ hl
        · rw [hl]; intro h; apply h0; omega
        · rw [hl]; intro h; have := h1 (by omega); omega

/-- completion-tag padding: the model's `append(1); fill()` is the spec's explicit padding -/
theorem dataBytes_eq (bits : Bits) : Model.dataBytes bits = Spec.dataBytes bits := by
  unfold Model.dataBytes Spec.dataBytes Spec.padBits
  by_cases h : bits.length % 8 = 0
  · simp [h]
  · simp only [h, bne_iff_ne, ne_eq, not_false_eq_true, if_true, if_false]
    symm
    apply bitsToBytes_pad _ _ _ rfl
    · simp only [List.length_append, List.length_singleton]; omega
    · simp only [List.length_append, List.length_singleton]; omega

/-! ### bytes, descriptors, children -/

theorem toBytesBE_one (x : Nat) (h : x < 256) : toBytesBE? 1 x = some [x] := by
  simp [toBytesBE?, h, natToBE, Nat.mod_eq_of_lt h]

theorem toBytesBE_two (x : Nat) (h : x < 65536) : toBytesBE? 2 x = some (Spec.be2 x) := by
  have : x < 256 ^ 2 := by omega
  simp [toBytesBE?, this, natToBE, Spec.be2]

theorem descriptors_eq (r : Nat) (e : Bool) (b m : Nat) (hr : r ≤ 4) (hb : b ≤ 1023) (hm : m ≤ 7) :
    descriptors r e b m = some [Spec.d1 r e m, Spec.d2 b] := by
  have h1 : r + 8 * (if e then 1 else 0) + 32 * m < 256 := by split <;> omega
  have h2 : (b / 8) * 2 + (if b % 8 != 0 then 1 else 0) = Spec.d2 b := by
    unfold Spec.d2; split <;> rename_i h <;> simp at h <;> omega
  have h3 : Spec.d2 b < 256 := by unfold Spec.d2; omega
  simp only [descriptors, h2]
  rw [toBytesBE_one _ h1, toBytesBE_one _ h3]
  simp [Spec.d1]

theorem AllAgree.length_eq : ∀ {kis kss}, AllAgree kis kss → kis.length = kss.length
  | [], [], _ => rfl
  | _ :: _, _ :: _, h => by simp [AllAgree.length_eq h.2]
  | [], _ :: _, h => h.elim
  | _ :: _, [], h => h.elim

theorem AllAgree.hashes : ∀ {kis kss}, AllAgree kis kss → ∀ l,
    kis.mapM (fun r => r.getHash l) = some (kss.map (fun c => c.hashAt l))
  | [], [], _, _ => rfl
  | i :: is, s :: ss, h, l => by
    simp [List.mapM_cons, (h.1.2 l).1, AllAgree.hashes h.2 l]
  | [], _ :: _, h, _ => h.elim
  | _ :: _, [], h, _ => h.elim

theorem AllAgree.depths : ∀ {kis kss}, AllAgree kis kss → ∀ l,
    kis.mapM (fun r => r.getDepth l) = some (kss.map (fun c => c.depthAt l))
  | [], [], _, _ => rfl
  | i :: is, s :: ss, h, l => by
    simp [List.mapM_cons, (h.1.2 l).2, AllAgree.depths h.2 l]
  | [], _ :: _, h, _ => h.elim
  | _ :: _, [], h, _ => h.elim

theorem AllAgree.masks : ∀ {kis kss}, AllAgree kis kss → ∀ a,
    kis.foldl (fun m r => m ||| r.mask) a = kss.foldl (fun m c => m ||| c.mask) a
  | [], [], _, _ => rfl
  | i :: is, s :: ss, h, a => by
    simp only [List.foldl_cons, h.1.1]; exact AllAgree.masks h.2 _
  | [], _ :: _, h, _ => h.elim
  | _ :: _, [], h, _ => h.elim

theorem foldl_max_eq (xs : List Nat) : ∀ a, xs.foldl (fun d x => if x > d then x else d) a = xs.foldl Nat.max a := by
  induction xs with
  | nil => intro a; rfl
  | cons x xs ih =>
    intro a
    simp only [List.foldl_cons, ih]
    congr 1
    show _ = max a x
    rw [Nat.max_def]
    split <;> split <;> omega

theorem foldl_max_ge (xs : List Nat) : ∀ a, a ≤ xs.foldl Nat.max a ∧ ∀ x ∈ xs, x ≤ xs.foldl Nat.max a := by
  induction xs with
  | nil => intro a; simp
  | cons y ys ih =>
    intro a
    simp only [List.foldl_cons, List.mem_cons]
    have := ih (a.max y)
    have h1 : a ≤ a.max y := Nat.le_max_left a y
    have h2 : y ≤ a.max y := Nat.le_max_right a y
    refine ⟨by omega, ?_⟩
    rintro x (rfl | hx)
    · omega
    · exact this.2 x hx

theorem le_maxList {xs : List Nat} {x : Nat} (h : x ∈ xs) : x ≤ Spec.maxList xs :=
  (foldl_max_ge xs 0).2 x h

theorem mapM_be2 (ds : List Nat) (h : ∀ d ∈ ds, d < 65536) :
    ds.mapM (toBytesBE? 2) = some (ds.map Spec.be2) := by
  induction ds with
  | nil => rfl
  | cons d ds ih =>
    simp only [List.mem_cons, forall_eq_or_imp] at h
    simp [List.mapM_cons, toBytesBE_two d h.1, ih h.2]

theorem foldl_or_le (xs : List Nat) : ∀ a, a ≤ 7 → (∀ x ∈ xs, x ≤ 7) → xs.foldl (· ||| ·) a ≤ 7 := by
  induction xs with
  | nil => intro a ha _; simpa
  | cons x xs ih =>
    intro a ha h
    simp only [List.mem_cons, forall_eq_or_imp] at h
    simp only [List.foldl_cons]
    apply ih _ _ h.2
    have : a ||| x < 2 ^ 3 := Nat.or_lt_two_pow (by omega) (by omega)
    omega

theorem foldl_mask_le (kss : List Spec.SInfo) : ∀ a, a ≤ 7 → (∀ c ∈ kss, c.mask ≤ 7) →
    kss.foldl (fun m c => m ||| c.mask) a ≤ 7 := by
  induction kss with
  | nil => intro a ha _; simpa
  | cons x xs ih =>
    intro a ha h
    simp only [List.mem_cons, forall_eq_or_imp] at h
    simp only [List.foldl_cons]
    apply ih _ _ h.2
    have : a ||| x.mask < 2 ^ 3 := Nat.or_lt_two_pow (by omega) (by omega)
    omega
theorem popcount_unfold (x : Nat) : popcount x = x % 2 + popcount (x / 2) := by
  cases x with
  | zero => simp [popcount]
  | succ n => rw [popcount]

theorem popcount_mod_succ (n : Nat) : ∀ m, popcount (m % 2 ^ (n+1)) = popcount (m % 2 ^ n) + (if m.testBit n then 1 else 0) := by
  induction n with
  | zero =>
    intro m
    rw [Nat.testBit_zero]
    have h : m % 2 = 0 ∨ m % 2 = 1 := by omega
    rcases h with h | h <;> simp [h, Nat.mod_one, popcount]
  | succ n ih =>
    intro m
    rw [popcount_unfold (m % 2 ^ (n+1+1)), popcount_unfold (m % 2 ^ (n+1))]
    have e1 : ∀ j, m % 2 ^ (j+1) % 2 = m % 2 := by
      intro j; rw [Nat.pow_succ, Nat.mul_comm, Nat.mod_mul_right_mod]
    have e2 : ∀ j, m % 2 ^ (j+1) / 2 = m / 2 % 2 ^ j := by
      intro j; rw [Nat.pow_succ, Nat.mul_comm, Nat.mod_mul_right_div_self]
    rw [e1, e1, e2, e2, ih (m / 2), Nat.testBit_succ]
    omega

theorem popcount_mod_mono (m : Nat) {l n : Nat} (h : l ≤ n) : popcount (m % 2 ^ l) ≤ popcount (m % 2 ^ n) := by
  induction n with
  | zero => have : l = 0 := by omega
            subst this; exact Nat.le_refl _
  | succ n ih =>
    by_cases hl : l = n + 1
    · subst hl; exact Nat.le_refl _
    · have := ih (by omega)
      rw [popcount_mod_succ]; omega

theorem isSignificant_succ (m n : Nat) : isSignificant m (n+1) = m.testBit n := by
  simp only [isSignificant, Nat.add_sub_cancel, Nat.shiftRight_eq_div_pow, Nat.testBit_eq_decide_div_mod_eq]
  have h : m / 2 ^ n % 2 = 0 ∨ m / 2 ^ n % 2 = 1 := by omega
  rcases h with h | h <;> simp [h]

theorem lt_two_pow_bitLength (m : Nat) : m < 2 ^ bitLength m := by
  induction m using Nat.strongRecOn with
  | _ m ih =>
    cases m with
    | zero => simp [bitLength]
    | succ n =>
      rw [bitLength]
      have := ih ((n+1)/2) (by omega)
      rw [Nat.add_comm 1, Nat.pow_succ]
      omega

theorem testBit_ge_bitLength (m : Nat) {l : Nat} (h : bitLength m ≤ l) : m.testBit l = false := by
  apply Nat.testBit_lt_two_pow
  exact Nat.lt_of_lt_of_le (lt_two_pow_bitLength m) (Nat.pow_le_pow_right (by decide) h)

theorem mod_ge_bitLength (m : Nat) {l : Nat} (h : bitLength m ≤ l) : m % 2 ^ l = m := by
  apply Nat.mod_eq_of_lt
  exact Nat.lt_of_lt_of_le (lt_two_pow_bitLength m) (Nat.pow_le_pow_right (by decide) h)

theorem plainHashAt_ge (H : Bytes → Bytes) (k bits kids) (mask : Nat) {l : Nat} (h : bitLength mask ≤ l) :
    Spec.plainHashAt H k bits kids mask l = Spec.plainHashAt H k bits kids mask (bitLength mask) := by
  induction l with
  | zero => have : bitLength mask = 0 := by omega
            rw [this]
  | succ l ih =>
    by_cases hl : bitLength mask = l + 1
    · rw [hl]
    · rw [Spec.plainHashAt, testBit_ge_bitLength mask (by omega)]
      simpa using ih (by omega)

theorem plainDepthAt_ge (k kids) (mask : Nat) {l : Nat} (h : bitLength mask ≤ l) :
    Spec.plainDepthAt k kids mask l = Spec.plainDepthAt k kids mask (bitLength mask) := by
  induction l with
  | zero => have : bitLength mask = 0 := by omega
            rw [this]
  | succ l ih =>
    by_cases hl : bitLength mask = l + 1
    · rw [hl]
    · rw [Spec.plainDepthAt, testBit_ge_bitLength mask (by omega)]
      simpa using ih (by omega)

theorem kind_facts (k : Spec.Kind) (hnp : k ≠ .pruned) :
    (kindCode k != kOrdinary) = k.isExotic ∧ (kindCode k == kPruned) = false ∧ (kindCode k != kPruned) = true ∧
    ∀ li, (if isMerkle (kindCode k) = true then li + 1 else li) = li + k.mu := by
  cases k <;> first | exact absurd rfl hnp | (refine ⟨by decide, by decide, by decide, ?_⟩; intro li; simp [isMerkle, kindCode, kMerkleProof, kMerkleUpdate, Spec.Kind.mu])

/-- the tail of one loop iteration (everything after the payload) -/
theorem step_tail (kss : List Spec.SInfo) (cl : Nat) (hd : Spec.depthOver kss cl ≤ 1023) :
    List.mapM (toBytesBE? 2) (kss.map (fun c => c.depthAt cl)) = some (kss.map (fun c => Spec.be2 (c.depthAt cl))) ∧
    (if kss.length > 0 then
        if List.foldl (fun d x => if x > d then x else d) 0 (kss.map (fun c => c.depthAt cl)) + 1 ≥ 1024 then none
        else some (List.foldl (fun d x => if x > d then x else d) 0 (kss.map (fun c => c.depthAt cl)) + 1)
      else some (List.foldl (fun d x => if x > d then x else d) 0 (kss.map (fun c => c.depthAt cl))))
      = some (Spec.depthOver kss cl) := by
  rw [foldl_max_eq]
  cases kss with
  | nil => simp [Spec.depthOver]
  | cons c cs =>
    have hd' : 1 + Spec.maxList (List.map (fun c => c.depthAt cl) (c :: cs)) ≤ 1023 := by
      simpa [Spec.depthOver] using hd
    constructor
    · rw [mapM_be2, List.map_map]; rfl
      intro d hd2
      have := le_maxList hd2
      omega
    · have hl : (c :: cs).length > 0 := by simp
      simp only [hl, if_true, Spec.depthOver, List.isEmpty_cons, Bool.false_eq_true, if_false]
      unfold Spec.maxList at hd'
      rw [if_neg (by omega)]
      unfold Spec.maxList
      congr 1; omega

theorem hashStep_plain (H : Bytes → Bytes) (k : Spec.Kind) (bits : Bits) (kis : List CellInfo) (kss : List Spec.SInfo)
    (mask : Nat) (st : HashState) (li : Nat) (p : Bytes)
    (hk : AllAgree kis kss) (hnp : k ≠ .pruned)
    (hbits : bits.length ≤ 1023) (hn : kss.length ≤ 4) (hm : mask ≤ 7)
    (hsig : isSignificant mask li = true)
    (hpay : (st.hashIndex = 0 ∧ li = 0 ∧ p = dataBytes bits) ∨
            (st.hashIndex ≠ 0 ∧ li ≠ 0 ∧ st.hashes[st.hashIndex - 1]? = some p))
    (hd : Spec.depthOver kss (li + k.mu) ≤ 1023) :
    hashStep H (kindCode k) bits kis mask 0 st li = some
      { hashIndex := st.hashIndex + 1,
        hashes := st.hashes ++ [H ([Spec.d1 kss.length k.isExotic (mask % 2 ^ li), Spec.d2 bits.length] ++ p ++ Spec.childPart kss (li + k.mu))],
        depths := st.depths ++ [Spec.depthOver kss (li + k.mu)] } := by
  obtain ⟨f1, f2, f3, f4⟩ := kind_facts k hnp
  have hlen := hk.length_eq
  have hml : mask % 2 ^ li ≤ 7 := Nat.le_trans (Nat.mod_le _ _) hm
  obtain ⟨t1, t2⟩ := step_tail kss (li + k.mu) hd
  simp only [hashStep, hsig, Bool.not_true, Bool.false_eq_true, if_false, Nat.not_lt_zero, f1, f2, f3, f4,
      maskApply, Nat.sub_zero, Bool.and_true, Bool.or_false, hlen,
      descriptors_eq kss.length k.isExotic bits.length _ hn hbits hml, hk.depths, hk.hashes, t1, t2,
      Option.bind_eq_bind, Option.bind_some, Option.pure_def]
  rcases hpay with ⟨h1, h2, h3⟩ | ⟨h1, h2, h3⟩
  · simp [h1, h2, h3, Spec.childPart]
  · simp [h1, h2, h3, Spec.childPart]

theorem hashStep_insig (H : Bytes → Bytes) (kind : Int) (bits : Bits) (kis : List CellInfo) (mask off : Nat)
    (st : HashState) (li : Nat) (h : isSignificant mask li = false) :
    hashStep H kind bits kis mask off st li = some st := by
  simp [hashStep, h]

theorem foldlM_range_succ {β : Type} (f : β → Nat → Option β) (b : β) (n : Nat) :
    (List.range (n+1)).foldlM f b = ((List.range n).foldlM f b).bind (fun s => f s n) := by
  rw [List.range_succ, List.foldlM_append]
  simp [List.foldlM]

theorem loop_plain (H : Bytes → Bytes) (k : Spec.Kind) (bits : Bits) (kis : List CellInfo) (kss : List Spec.SInfo)
    (mask : Nat) (hk : AllAgree kis kss) (hnp : k ≠ .pruned)
    (hbits : bits.length ≤ 1023) (hn : kss.length ≤ 4) (hm : mask ≤ 7)
    (hdepth : ∀ l, Spec.plainDepthAt k kss mask l ≤ 1023) (n : Nat) :
    ∃ st, (List.range (n+1)).foldlM (hashStep H (kindCode k) bits kis mask 0) ⟨0, [], []⟩ = some st ∧
      st.hashIndex = popcount (mask % 2 ^ n) + 1 ∧ st.hashes.length = st.hashIndex ∧ st.depths.length = st.hashIndex ∧
      ∀ l, l ≤ n → st.hashes[popcount (mask % 2 ^ l)]? = some (Spec.plainHashAt H k bits kss mask l) ∧
                   st.depths[popcount (mask % 2 ^ l)]? = some (Spec.plainDepthAt k kss mask l) := by
  induction n with
  | zero =>
    have hsig : isSignificant mask 0 = true := by simp [isSignificant]
    have hd : Spec.depthOver kss (0 + k.mu) ≤ 1023 := by simpa [Spec.plainDepthAt] using hdepth 0
    have hs := hashStep_plain H k bits kis kss mask ⟨0, [], []⟩ 0 (dataBytes bits) hk hnp hbits hn hm hsig
      (Or.inl ⟨rfl, rfl, rfl⟩) hd
    rw [foldlM_range_succ]; simp only [List.range_zero, List.foldlM_nil, Option.pure_def, Option.bind_some]
    refine ⟨_, hs, ?_, ?_, ?_, ?_⟩
    · simp [Nat.mod_one, popcount]
    · simp
    · simp
    · intro l hl
      have : l = 0 := by omega
      subst this
      simp [Nat.mod_one, popcount, Spec.plainHashAt, Spec.plainDepthAt, dataBytes_eq]
  | succ n ih =>
    obtain ⟨st, hfold, hidx, hlh, hld, hall⟩ := ih
    rw [foldlM_range_succ, hfold, Option.bind_some]
    have hpc := popcount_mod_succ n mask
    by_cases htb : mask.testBit n = true
    · have hsig : isSignificant mask (n+1) = true := by rw [isSignificant_succ]; exact htb
      have hd : Spec.depthOver kss (n + 1 + k.mu) ≤ 1023 := by
        have := hdepth (n+1); rw [Spec.plainDepthAt, if_pos htb] at this; exact this
      have hp : st.hashes[st.hashIndex - 1]? = some (Spec.plainHashAt H k bits kss mask n) := by
        rw [hidx, Nat.add_sub_cancel]; exact (hall n (Nat.le_refl _)).1
      have hs := hashStep_plain H k bits kis kss mask st (n+1) _ hk hnp hbits hn hm hsig
        (Or.inr ⟨by omega, by omega, hp⟩) hd
      rw [if_pos htb] at hpc
      refine ⟨_, hs, ?_, ?_, ?_, ?_⟩
      · simp only; omega
      · simp only [List.length_append, List.length_singleton]; omega
      · simp only [List.length_append, List.length_singleton]; omega
      · intro l hl
        by_cases hl' : l ≤ n
        · have hmono := popcount_mod_mono mask hl'
          have h := hall l hl'
          simp only
          rw [List.getElem?_append_left (by omega), List.getElem?_append_left (by omega)]
          exact h
        · have : l = n + 1 := by omega
          subst this
          simp only
          have e1 : popcount (mask % 2 ^ (n+1)) = st.hashes.length := by omega
          have e2 : popcount (mask % 2 ^ (n+1)) = st.depths.length := by omega
          constructor
          · rw [e1, List.getElem?_append_right (Nat.le_refl _)]
            simp [Spec.plainHashAt, htb]
          · rw [e2, List.getElem?_append_right (Nat.le_refl _)]
            simp [Spec.plainDepthAt, htb]
    · have htb' : mask.testBit n = false := by simpa using htb
      have hsig : isSignificant mask (n+1) = false := by rw [isSignificant_succ]; exact htb'
      rw [hashStep_insig _ _ _ _ _ _ _ _ hsig]
      simp only [htb', Bool.false_eq_true, if_false, Nat.add_zero] at hpc
      refine ⟨st, rfl, by omega, hlh, hld, ?_⟩
      intro l hl
      by_cases hl' : l ≤ n
      · exact hall l hl'
      · have : l = n + 1 := by omega
        subst this
        rw [hpc, Spec.plainHashAt, Spec.plainDepthAt]
        simp only [htb', Bool.false_eq_true, if_false]
        exact hall n (Nat.le_refl _)

theorem bitLength_vals : bitLength 0 = 0 ∧ bitLength 1 = 1 ∧ bitLength 2 = 2 ∧ bitLength 3 = 2 ∧ bitLength 4 = 3 ∧
    bitLength 5 = 3 ∧ bitLength 6 = 3 ∧ bitLength 7 = 3 := by
  simp [bitLength]

theorem popcount_vals : popcount 0 = 0 ∧ popcount 1 = 1 ∧ popcount 2 = 1 ∧ popcount 3 = 2 ∧ popcount 4 = 1 ∧
    popcount 5 = 2 ∧ popcount 6 = 2 ∧ popcount 7 = 3 := by
  simp [popcount]

theorem loop_pruned (H : Bytes → Bytes) (bits : Bits) (mask : Nat) (h1 : 1 ≤ mask) (h7 : mask ≤ 7)
    (hbits : bits.length ≤ 1023) :
    (List.range (bitLength mask + 1)).foldlM (hashStep H kPruned bits [] mask (popcount mask)) ⟨0, [], []⟩
      = some ⟨popcount mask + 1, [H ([Spec.d1 0 true mask, Spec.d2 bits.length] ++ dataBytes bits)], [0]⟩ := by
  obtain ⟨b0, b1, b2, b3, b4, b5, b6, b7⟩ := bitLength_vals
  obtain ⟨p0, p1, p2, p3, p4, p5, p6, p7⟩ := popcount_vals
  have hd : ∀ m, m ≤ 7 → descriptors 0 true bits.length m = some [Spec.d1 0 true m, Spec.d2 bits.length] :=
    fun m hm => descriptors_eq 0 true bits.length m (by omega) hbits hm
  have : mask = 1 ∨ mask = 2 ∨ mask = 3 ∨ mask = 4 ∨ mask = 5 ∨ mask = 6 ∨ mask = 7 := by omega
  rcases this with rfl | rfl | rfl | rfl | rfl | rfl | rfl
  · simp [*, List.range, List.range.loop, List.foldlM, hashStep, isSignificant, maskApply, kPruned, kOrdinary, isMerkle, kMerkleProof, kMerkleUpdate]
  · simp [*, List.range, List.range.loop, List.foldlM, hashStep, isSignificant, maskApply, kPruned, kOrdinary, isMerkle, kMerkleProof, kMerkleUpdate]
  · simp [*, List.range, List.range.loop, List.foldlM, hashStep, isSignificant, maskApply, kPruned, kOrdinary, isMerkle, kMerkleProof, kMerkleUpdate]
  · simp [*, List.range, List.range.loop, List.foldlM, hashStep, isSignificant, maskApply, kPruned, kOrdinary, isMerkle, kMerkleProof, kMerkleUpdate]
  · simp [*, List.range, List.range.loop, List.foldlM, hashStep, isSignificant, maskApply, kPruned, kOrdinary, isMerkle, kMerkleProof, kMerkleUpdate]
  · simp [*, List.range, List.range.loop, List.foldlM, hashStep, isSignificant, maskApply, kPruned, kOrdinary, isMerkle, kMerkleProof, kMerkleUpdate]
  · simp [*, List.range, List.range.loop, List.foldlM, hashStep, isSignificant, maskApply, kPruned, kOrdinary, isMerkle, kMerkleProof, kMerkleUpdate]

theorem node_plain (H : Bytes → Bytes) (k : Spec.Kind) (bits : Bits) (kss : List Spec.SInfo) (hnp : k ≠ .pruned) :
    Spec.node H k bits kss = { mask := Spec.nodeMask k bits kss,
                               hashAt := Spec.plainHashAt H k bits kss (Spec.nodeMask k bits kss),
                               depthAt := Spec.plainDepthAt k kss (Spec.nodeMask k bits kss) } := by
  cases k <;> first | exact absurd rfl hnp | rfl

theorem getLast?_isSome {α : Type} (xs : List α) (h : 0 < xs.length) : ∃ x, xs.getLast? = some x := by
  cases xs with
  | nil => simp at h
  | cons a as => exact ⟨_, List.getLast?_eq_some_getLast (by simp)⟩

theorem resolveMask_eq (H : Bytes → Bytes) (k : Spec.Kind) (bits : Bits)
    (kis : List CellInfo) (kss : List Spec.SInfo)
    (hk : AllAgree kis kss) (wf : NodeWF H k bits kss) :
    resolveMask (kindCode k) bits kis = some (Spec.nodeMask k bits kss) ∧ Spec.nodeMask k bits kss ≤ 7 := by
  have hfold := foldl_mask_le kss 0 (by omega) wf.kidsMask
  cases k with
  | ordinary =>
    refine ⟨?_, hfold⟩
    simp [resolveMask, kindCode, kOrdinary, Spec.nodeMask, hk.masks]
  | pruned =>
    obtain ⟨h1, h2, h3, h4⟩ := wf.pruned rfl
    subst h1
    have : kis = [] := by cases kis with
      | nil => rfl
      | cons a as => exact hk.elim
    subst this
    refine ⟨?_, h4⟩
    have hs : pySlice bits 8 16 = (bits.drop 8).take 8 := by simp [pySlice, List.drop_take]
    have hne : ((bits.drop 8).take 8).isEmpty = false := by
      have hl8 : ((bits.drop 8).take 8).length = 8 := by simp; omega
      cases h : List.take 8 (List.drop 8 bits) with
      | nil => rw [h] at hl8; simp at hl8
      | cons a as => rfl
    simp [resolveMask, kindCode, kOrdinary, kPruned, Spec.nodeMask, hs, hne]
  | library =>
    simp [resolveMask, kindCode, kOrdinary, kPruned, kMerkleProof, kMerkleUpdate, kLibrary, Spec.nodeMask]
  | merkleProof =>
    have hl := wf.mproof rfl
    match kss, kis, hk, hl, hfold with
    | [s], [i], hk, _, hfold =>
      simp only [Spec.nodeMask, List.foldl_cons, List.foldl_nil, Nat.zero_or] at hfold ⊢
      refine ⟨?_, by omega⟩
      simp [resolveMask, kindCode, kOrdinary, kPruned, kMerkleProof, hk.1.1, Nat.shiftRight_eq_div_pow]
    | [s], [], hk, _, _ => exact hk.elim
    | [s], _ :: _ :: _, hk, _, _ => exact hk.2.elim
  | merkleUpdate =>
    have hl := wf.mupdate rfl
    match kss, kis, hk, hl, hfold with
    | [s, t], [i, j], hk, _, hfold =>
      simp only [Spec.nodeMask, List.foldl_cons, List.foldl_nil, Nat.zero_or] at hfold ⊢
      refine ⟨?_, by omega⟩
      simp [resolveMask, kindCode, kOrdinary, kPruned, kMerkleProof, kMerkleUpdate, hk.1.1, hk.2.1.1, Nat.shiftRight_eq_div_pow]
    | [s, t], [], hk, _, _ => exact hk.elim
    | [s, t], [_], hk, _, _ => exact hk.2.elim
    | [s, t], _ :: _ :: _ :: _, hk, _, _ => exact hk.2.2.elim

theorem construct_plain (H : Bytes → Bytes) (k : Spec.Kind) (bits : Bits)
    (kis : List CellInfo) (kss : List Spec.SInfo)
    (hk : AllAgree kis kss) (wf : NodeWF H k bits kss) (hnp : k ≠ .pruned) :
    ∃ i, construct H (kindCode k) bits kis = some i ∧ Agrees i (Spec.node H k bits kss)
      ∧ i.kind = kindCode k ∧ i.bits = bits ∧ i.nrefs = kis.length := by
  obtain ⟨hres, hm⟩ := resolveMask_eq H k bits kis kss hk wf
  obtain ⟨f1, f2, f3, f4⟩ := kind_facts k hnp
  have hdepth := wf.depthOk hnp
  rw [node_plain H k bits kss hnp] at hdepth ⊢
  simp only at hdepth
  generalize Spec.nodeMask k bits kss = mask at *
  obtain ⟨st, hfold, hidx, hlh, hld, hall⟩ :=
    loop_plain H k bits kis kss mask hk hnp wf.bitsLen wf.nrefs hm hdepth (bitLength mask)
  obtain ⟨x, hx⟩ := getLast?_isSome st.hashes (by omega)
  have hlen := hk.length_eq
  refine ⟨{ kind := kindCode k, bits := bits, nrefs := kis.length, mask := mask, hashes := st.hashes, depths := st.depths },
    ?_, ⟨rfl, ?_⟩, rfl, rfl, rfl⟩
  · simp only [construct, hres, Option.bind_eq_bind, Option.bind_some, f2, Bool.false_eq_true, if_false, Nat.sub_self,
      hfold, f1, hlen, descriptors_eq kss.length k.isExotic bits.length mask wf.nrefs wf.bitsLen hm, hx, Option.pure_def]
  · intro l
    simp only [CellInfo.getHash, CellInfo.getDepth, f2, Bool.false_eq_true, if_false, hashIndexAt, maskApply]
    by_cases hl : l ≤ bitLength mask
    · exact hall l hl
    · have hl' : bitLength mask ≤ l := by omega
      rw [mod_ge_bitLength mask hl', plainHashAt_ge H k bits kss mask hl', plainDepthAt_ge k kss mask hl']
      have := hall (bitLength mask) (Nat.le_refl _)
      rw [mod_ge_bitLength mask (Nat.le_refl _)] at this
      exact this

theorem construct_pruned (H : Bytes → Bytes) (bits : Bits)
    (kis : List CellInfo) (kss : List Spec.SInfo)
    (hk : AllAgree kis kss) (wf : NodeWF H .pruned bits kss) :
    ∃ i, construct H (kindCode .pruned) bits kis = some i ∧ Agrees i (Spec.node H .pruned bits kss)
      ∧ i.kind = kindCode .pruned ∧ i.bits = bits ∧ i.nrefs = kis.length := by
  obtain ⟨hres, hm⟩ := resolveMask_eq H .pruned bits kis kss hk wf
  obtain ⟨h1, h2, h3, h4⟩ := wf.pruned rfl
  subst h1
  have : kis = [] := by cases kis with
    | nil => rfl
    | cons a as => exact hk.elim
  subst this
  have hnode : Spec.node H .pruned bits [] = Spec.SInfo.mk (Spec.nodeMask .pruned bits [])
      (Spec.prunedHashAt H bits (Spec.nodeMask .pruned bits []))
      (Spec.prunedDepthAt bits (Spec.nodeMask .pruned bits [])) := rfl
  rw [hnode]
  generalize Spec.nodeMask .pruned bits [] = mask at *
  have hfold := loop_pruned H bits mask h3 h4 wf.bitsLen
  have hkc : kindCode .pruned = kPruned := rfl
  rw [hkc] at hres
  refine ⟨{ kind := kPruned, bits := bits, nrefs := 0, mask := mask,
            hashes := [H ([Spec.d1 0 true mask, Spec.d2 bits.length] ++ dataBytes bits)], depths := [0] },
    ?_, ⟨rfl, ?_⟩, rfl, rfl, rfl⟩
  · have e1 : (kPruned == kPruned) = true := by decide
    have e2 : (kPruned != kOrdinary) = true := by decide
    simp only [hkc, construct, hres, Option.bind_eq_bind, Option.bind_some, e1, e2, if_true, Nat.add_sub_cancel,
      hfold, List.length_nil, descriptors_eq 0 true bits.length mask (by omega) wf.bitsLen hm,
      List.getLast?_singleton, Option.pure_def]
  · intro l
    have e1 : (kPruned == kPruned) = true := by decide
    simp only [CellInfo.getHash, CellInfo.getDepth, e1, if_true, hashIndexAt, maskApply,
      Spec.prunedHashAt, Spec.prunedDepthAt, ← popcount_eq, ← dataBytes_eq, pySlice]
    by_cases hp : popcount (mask % 2 ^ l) = popcount mask
    · simp [hp]
    · simp [hp, Nat.mul_comm]

/-- MAIN NODE LEMMA: constructing a well-formed node from children that agree with their specs
succeeds and agrees with the spec of the node. -/
theorem construct_agrees (H : Bytes → Bytes) (k : Spec.Kind) (bits : Bits)
    (kis : List CellInfo) (kss : List Spec.SInfo)
    (hk : AllAgree kis kss) (wf : NodeWF H k bits kss) :
    ∃ i, construct H (kindCode k) bits kis = some i ∧ Agrees i (Spec.node H k bits kss)
      ∧ i.kind = kindCode k ∧ i.bits = bits ∧ i.nrefs = kis.length := by
  by_cases hp : k = .pruned
  · subst hp; exact construct_pruned H bits kis kss hk wf
  · exact construct_plain H k bits kis kss hk wf hp

theorem foldlM_none_of_mem {β α : Type} (f : β → α → Option β) (x : α) (hx : ∀ s, f s x = none) :
    ∀ (xs : List α), x ∈ xs → ∀ s, xs.foldlM f s = none := by
  intro xs
  induction xs with
  | nil => intro h; simp at h
  | cons y ys ih =>
    intro h s
    simp only [List.foldlM_cons, Option.bind_eq_bind]
    cases hy : f s y with
    | none => rfl
    | some s' =>
      simp only [Option.bind_some]
      rcases List.mem_cons.mp h with rfl | h'
      · rw [hx] at hy; cases hy
      · exact ih h' s'

theorem deep_level (k : Spec.Kind) (kss : List Spec.SInfo) (mask : Nat) :
    ∀ l, 1023 < Spec.plainDepthAt k kss mask l →
      ∃ li, li ≤ bitLength mask ∧ isSignificant mask li = true ∧ 1023 < Spec.depthOver kss (li + k.mu) := by
  intro l
  induction l with
  | zero =>
    intro h
    exact ⟨0, Nat.zero_le _, by simp [isSignificant], by simpa [Spec.plainDepthAt] using h⟩
  | succ l ih =>
    intro h
    rw [Spec.plainDepthAt] at h
    by_cases htb : mask.testBit l = true
    · rw [if_pos htb] at h
      refine ⟨l + 1, ?_, by rw [isSignificant_succ]; exact htb, h⟩
      apply Classical.byContradiction
      intro hc
      have := testBit_ge_bitLength mask (l := l) (by omega)
      rw [this] at htb; cases htb
    · rw [if_neg htb] at h
      exact ih h

theorem hashStep_deep (H : Bytes → Bytes) (bits : Bits) (kis : List CellInfo) (kss : List Spec.SInfo)
    (mask : Nat) (li : Nat) (hk : AllAgree kis kss)
    (hsig : isSignificant mask li = true) (hd : 1023 < Spec.depthOver kss li) (st : HashState) :
    hashStep H (-1) bits kis mask 0 st li = none := by
  have hlen := hk.length_eq
  have hne : 0 < kss.length := by
    cases kss with
    | nil => simp [Spec.depthOver] at hd
    | cons c cs => simp
  have hd' : 1023 < 1 + Spec.maxList (kss.map (fun c => c.depthAt li)) := by
    cases kss with
    | nil => simp at hne
    | cons c cs => simpa [Spec.depthOver] using hd
  have hdep : (if kss.length > 0 then
        if List.foldl (fun d x => if x > d then x else d) 0 (kss.map (fun c => c.depthAt li)) + 1 ≥ 1024 then none
        else some (List.foldl (fun d x => if x > d then x else d) 0 (kss.map (fun c => c.depthAt li)) + 1)
      else some (List.foldl (fun d x => if x > d then x else d) 0 (kss.map (fun c => c.depthAt li)))) = none := by
    rw [foldl_max_eq]
    unfold Spec.maxList at hd'
    rw [if_pos hne, if_pos (by omega)]
  have e1 : isMerkle (-1) = false := by decide
  simp only [hashStep, hsig, Bool.not_true, Bool.false_eq_true, if_false, Nat.not_lt_zero, e1,
      hlen, hk.depths, hdep, Option.bind_eq_bind, Option.bind_some, Option.bind_none]
  cases descriptors kss.length ((-1 : Int) != kOrdinary) (List.length bits) (maskApply mask li) with
  | none => rfl
  | some d =>
    simp only [Option.bind_some]
    split
    · split
      · rfl
      · simp only [Option.bind_some]
        cases List.mapM (toBytesBE? 2) (List.map (fun c => c.depthAt li) kss) <;> rfl
    · split
      · rfl
      · cases st.hashes[st.hashIndex - 0 - 1]? with
        | none => rfl
        | some p =>
          simp only [Option.bind_some]
          cases List.mapM (toBytesBE? 2) (List.map (fun c => c.depthAt li) kss) <;> rfl

/-- depth limit: an ordinary node whose spec depth exceeds 1023 cannot be constructed -/
theorem construct_depth_limit (H : Bytes → Bytes) (bits : Bits)
    (kis : List CellInfo) (kss : List Spec.SInfo)
    (hk : AllAgree kis kss)
    (hdeep : ∃ l, 1023 < (Spec.node H .ordinary bits kss).depthAt l) :
    construct H (-1) bits kis = none := by
  obtain ⟨l, hl⟩ := hdeep
  rw [node_plain H .ordinary bits kss (by decide)] at hl
  simp only at hl
  obtain ⟨li, hle, hsig, hd⟩ := deep_level _ _ _ l hl
  have hmu : li + Spec.Kind.mu .ordinary = li := rfl
  rw [hmu] at hd
  have hres : resolveMask (-1) bits kis = some (Spec.nodeMask .ordinary bits kss) := by
    simp [resolveMask, kOrdinary, Spec.nodeMask, hk.masks]
  generalize Spec.nodeMask .ordinary bits kss = mask at *
  have hfold := foldlM_none_of_mem (hashStep H (-1) bits kis mask 0) li
    (hashStep_deep H bits kis kss mask li hk hsig hd) (List.range (bitLength mask + 1))
    (by simp; omega) ⟨0, [], []⟩
  have e1 : ((-1 : Int) == kPruned) = false := by decide
  simp only [construct, hres, Option.bind_eq_bind, Option.bind_some, e1, Bool.false_eq_true, if_false, Nat.sub_self,
    hfold, Option.bind_none]

/-! ### trees -/

mutual
  /-- spec values of a tree (`none` only for an unknown cell type) -/
  def specInfo (H : Bytes → Bytes) : Cell → Option Spec.SInfo
    | .mk kind bits refs => do
      let k ← kindOf kind
      let ks ← specInfos H refs
      pure (Spec.node H k bits ks)
  def specInfos (H : Bytes → Bytes) : List Cell → Option (List Spec.SInfo)
    | [] => some []
    | c :: cs => do
      let i ← specInfo H c
      let is ← specInfos H cs
      pure (i :: is)
end

mutual
  /-- every node of the tree is spec-valid -/
  def TreeWF (H : Bytes → Bytes) : Cell → Prop
    | .mk kind bits refs =>
      TreesWF H refs ∧ ∃ k ks, kindOf kind = some k ∧ specInfos H refs = some ks ∧ NodeWF H k bits ks
  def TreesWF (H : Bytes → Bytes) : List Cell → Prop
    | [] => True
    | c :: cs => TreeWF H c ∧ TreesWF H cs
end

theorem kindCode_of_kindOf {kind : Int} {k : Spec.Kind} (h : kindOf kind = some k) : kindCode k = kind := by
  unfold kindOf at h
  repeat' split at h
  all_goals first | (cases h; subst_vars; rfl) | cases h

mutual
  theorem tree_agrees_aux (H : Bytes → Bytes) : ∀ (c : Cell), TreeWF H c →
      ∃ i s, Cell.info H c = some i ∧ specInfo H c = some s ∧ Agrees i s
    | .mk kind bits refs, wf => by
      rw [TreeWF] at wf
      obtain ⟨wfs, k, ks, hkind, hks, nwf⟩ := wf
      obtain ⟨is, ss, hi, hs, hag⟩ := trees_agree_aux H refs wfs
      rw [hks] at hs
      cases hs
      obtain ⟨i, hc, hagree, _⟩ := construct_agrees H k bits is ks hag nwf
      rw [kindCode_of_kindOf hkind] at hc
      refine ⟨i, Spec.node H k bits ks, ?_, ?_, hagree⟩
      · simp [Cell.info, hi, hc]
      · simp [specInfo, hkind, hks]
  theorem trees_agree_aux (H : Bytes → Bytes) : ∀ (cs : List Cell), TreesWF H cs →
      ∃ is ss, Cell.infos H cs = some is ∧ specInfos H cs = some ss ∧ AllAgree is ss
    | [], _ => ⟨[], [], by simp [Cell.infos], by simp [specInfos], trivial⟩
    | c :: cs, wf => by
      rw [TreesWF] at wf
      obtain ⟨i, s, hi, hs, ha⟩ := tree_agrees_aux H c wf.1
      obtain ⟨is, ss, his, hss, has⟩ := trees_agree_aux H cs wf.2
      exact ⟨i :: is, s :: ss, by simp [Cell.infos, hi, his], by simp [specInfos, hs, hss], ⟨ha, has⟩⟩
end

/-- MAIN TREE THEOREM: every spec-valid tree (any exotic types, any nesting, any masks) can be
constructed, and the model reports the spec's mask, hashes and depths at every level. -/
theorem tree_agrees (H : Bytes → Bytes) (c : Cell) (wf : TreeWF H c) :
    ∃ i s, Cell.info H c = some i ∧ specInfo H c = some s ∧ Agrees i s :=
  tree_agrees_aux H c wf

end TonVerif.Proofs.CellSpec
