/-
`Generated.BocCells.deserialize_cell` (regenerated on every run from the WHOLE `Boc.deserialize_cell`,
pytoniq_core/boc/deserialize.py, by harness/translate/pyloops.py) equals the hand model's cell reader `deserializeCell`
(Model/BocParse.lean) for every byte list and every index width.

The translator names two continuations (`deserialize_cell_rest` = from `bits = bitarray()` on, `deserialize_cell_rest2` = from
`bits = TvmBitarray(..)` on); the proof follows them:
* `rest2_eq`  exotic type byte (`ba2int(bits[:8], signed=True)` = `signed8`), the reference-index loop (invariant: after `k`
  iterations `i = i0 + k*w` and the list is `uintsAt data i0 w k`), the returned pair;
* `rest_eq`   the data bits (`frombytes`), the completion-tag search `for j in range(-1, -8, -1)` evaluated on the last seven
  bits (a non-empty list read from whole bytes has at least eight), `bits[:end]` = `stripTag`;
* `src_deserialize_cell_eq`  the first part is literally the regenerated `cell_layout` (proved equal to the hand model in
  SrcBocCell.lean), so both sides are split along the same conditions.
-/
import TonVerif.Model.BocCellsView
import TonVerif.Proofs.SrcLoops
import TonVerif.Proofs.SrcArith
import TonVerif.Proofs.SrcBocCell
set_option linter.unusedSimpArgs false

namespace TonVerif.Proofs.SrcBocCells
open TonVerif TonVerif.Model TonVerif.Model.BocParse TonVerif.Generated.BocHeader TonVerif.Generated.BocCells
open TonVerif.Proofs.SrcBytes TonVerif.Proofs.SrcLoops

/-- the statements from `bits = TvmBitarray(1023, bits[:end])` on. -/
theorem rest2_eq {R : Type} (data : Bytes) (rs tr ex i : Nat) (bits : Bits) (e : Option Int) :
    deserialize_cell_rest2 (R := R) data rs tr ex i bits e = tailM data rs tr (decide (ex ≠ 0)) i (Py.sliceI bits none e) := by
  unfold deserialize_cell_rest2 tailM
  simp only [tvmBitarray?_1023, Option.bind_some, slice_eq, range?_bind_zero_one]
  generalize Py.sliceI bits none e = B
  -- the reference loop
  have hloop : ∀ ty : Int, ((Py.loop? (List.range tr) (i, ([] : List Nat)) fun r st_9 =>
        some ((st_9.1 + rs, st_9.2 ++ [bytes_to_uint (pySlice data st_9.1 (st_9.1 + rs))]), false)).bind fun st_9 =>
        some (({ bits := B, refs := st_9.2, type := ty, result := none } : CellOut R), st_9.1))
      = some ({ bits := B, refs := uintsAt data i rs tr, type := ty, result := none }, i + tr * rs) := by
    intro ty
    obtain ⟨s, hs, hp⟩ := loop?_inv (fun k (s : Nat × List Nat) => s.1 = i + k * rs ∧ s.2 = uintsAt data i rs k)
      (fun r st_9 => some ((st_9.1 + rs, st_9.2 ++ [bytes_to_uint (pySlice data st_9.1 (st_9.1 + rs))]), false))
      (List.range tr) 0 (i, []) (by simp [uintsAt]) (by
        intro k x s _ hp
        refine ⟨_, rfl, ?_⟩
        simp only [Nat.zero_add] at hp ⊢
        rw [uintsAt_succ, hp.1, hp.2]
        refine ⟨by rw [Nat.add_mul]; omega, ?_⟩
        simp [uintAt, bytes_to_uint])
    rw [hs]
    simp only [Nat.zero_add, List.length_range] at hp
    simp [hp.1, hp.2]
  by_cases hex : ex ≠ 0
  · simp only [hex, if_true, decide_true, ne_eq, not_false_eq_true]
    by_cases h8 : B.length < 8
    · simp [h8]
    · have h := ba2int?_take8 B (by omega)
      simp only [h8, if_false]
      have h' : Py.ba2int? true (pySlice B 0 8) = some (signed8 B) := by simpa [pySlice] using h
      simp only [h', Option.bind_some, hloop]
  · simp only [hex, if_false, decide_false, Bool.false_eq_true, Option.bind_some, hloop]


/-- the statements from `bits = bitarray()` on: data bits, completion-tag search, then `rest2`. -/
theorem rest_eq {R : Type} (data : Bytes) (rs tr ex au ds i : Nat) :
    deserialize_cell_rest (R := R) data rs tr ex au ds i =
      tailM data rs tr (decide (ex ≠ 0)) (i + ds)
        (if decide (au ≠ 0) && !(bytesToBits (pySlice data i (i + ds))).isEmpty then stripTag (bytesToBits (pySlice data i (i + ds)))
         else bytesToBits (pySlice data i (i + ds))) := by
  unfold deserialize_cell_rest
  simp only [frombytes_nil, slice_eq, rest2_eq]
  generalize hb : bytesToBits (pySlice data i (i + ds)) = bits0
  by_cases hau : au ≠ 0 ∧ bits0 ≠ []
  · have h8 : 8 ≤ bits0.length := by rw [← hb]; exact bytesToBits_ne_nil (by rw [hb]; exact hau.2)
    obtain ⟨b1, b2, b3, b4, b5, b6, b7, b8, rest, hrev⟩ := last7 bits0 h8
    have hr : Py.rangeI? (-(1 : Int)) (-(8 : Int)) (-(1 : Int)) = some [-1, -2, -3, -4, -5, -6, -7] := by decide
    have hc : (decide (au ≠ 0) && !bits0.isEmpty) = true := by simp [hau.1, hau.2]
    rw [if_pos hau, hc, if_pos rfl, hr]
    simp only [Option.bind_some, loop?_cons, loop?_nil]
    obtain ⟨e1, e2, e3, e4, e5, e6, e7⟩ := last7_bits bits0 hrev
    obtain ⟨s1, s2, s3, s4, s5, s6, s7⟩ := last7_slices bits0 hrev
    rw [stripTag_of_rev bits0 _ hrev, e1, e2, e3, e4, e5, e6, e7]
    cases b1
    case true => simp [stripTagRev, s1, s2, s3, s4, s5, s6, s7, sliceI_none_none]
    cases b2
    case true => simp [stripTagRev, s1, s2, s3, s4, s5, s6, s7, sliceI_none_none]
    cases b3
    case true => simp [stripTagRev, s1, s2, s3, s4, s5, s6, s7, sliceI_none_none]
    cases b4
    case true => simp [stripTagRev, s1, s2, s3, s4, s5, s6, s7, sliceI_none_none]
    cases b5
    case true => simp [stripTagRev, s1, s2, s3, s4, s5, s6, s7, sliceI_none_none]
    cases b6
    case true => simp [stripTagRev, s1, s2, s3, s4, s5, s6, s7, sliceI_none_none]
    cases b7
    case true => simp [stripTagRev, s1, s2, s3, s4, s5, s6, s7, sliceI_none_none]
    simp [stripTagRev, s1, s2, s3, s4, s5, s6, s7, sliceI_none_none]
  · have hc : (decide (au ≠ 0) && !bits0.isEmpty) = false := by
      by_cases h1 : au = 0
      · simp [h1]
      · have : bits0 = [] := by
          by_cases h2 : bits0 = []
          · exact h2
          · exact absurd ⟨h1, h2⟩ hau
        simp [this]
    rw [if_neg hau, hc]
    simp only [Option.bind_some, sliceI_none_none, Bool.false_eq_true, if_false]

/-- the hand model's cell reader, rendered as the Python result, = its layout part followed by `tailM`. -/
theorem cellOfModel_eq {R : Type} (data : Bytes) (rs : Nat) :
    cellOfModel (R := R) data rs = (cellLayout data rs).bind fun L =>
      tailM data rs L.total_refs L.is_exotic (L.i + L.data_size)
        (if L.is_augmented && !(bytesToBits (pySlice data L.i (L.i + L.data_size))).isEmpty then stripTag (bytesToBits (pySlice data L.i (L.i + L.data_size)))
         else bytesToBits (pySlice data L.i (L.i + L.data_size))) := by
  unfold cellOfModel
  rw [TonVerif.Proofs.SrcBocCell.deserializeCell_eq]
  cases cellLayout data rs with
  | none => rfl
  | some L =>
    simp only [Option.bind_some, cellRest, tailM]
    generalize (if (L.is_augmented && !(bytesToBits (pySlice data L.i (L.i + L.data_size))).isEmpty) = true then
      stripTag (bytesToBits (pySlice data L.i (L.i + L.data_size))) else bytesToBits (pySlice data L.i (L.i + L.data_size))) = B
    cases L.is_exotic
    · simp [CellOut.ofModel]
    · by_cases h : B.length < 8 <;> simp [h, CellOut.ofModel]

/-- **the regenerated `deserialize_cell` is the hand model's `deserializeCell`**, for every byte list and index width: the same
raise / return decision and, on return, the same data bits (completion tag removed exactly when d2 is odd and there are data
bytes and one of the last seven bits is set), the same reference indices, the same exotic type byte (signed) or -1, `'result':
None`, and the same number of consumed bytes. -/
theorem src_deserialize_cell_eq {R : Type} (data : Bytes) (rs : Nat) :
    deserialize_cell (R := R) data rs = cellOfModel data rs := by
  rw [cellOfModel_eq, ← TonVerif.Proofs.SrcBocCell.src_cell_layout_eq]
  unfold deserialize_cell cell_layout
  simp only [rest_eq]
  cases h0 : data[0]? with
  | none => rfl
  | some d1 =>
    cases h1 : data[1]? with
    | none =>
      simp only [Option.bind_some, Option.bind_none]
      split <;> simp
    | some d2 =>
      simp only [Option.bind_some]
      repeat' split
      all_goals rfl

end TonVerif.Proofs.SrcBocCells
