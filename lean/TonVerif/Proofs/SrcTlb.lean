/-
C16 source tie — generation-independent lemmas.

`Refines r c w` : whenever the SPEC decoder of the block.tlb type `c` accepts a slice, the regenerated Python reader `r`
(Generated/TlbParsers.lean) returns the declared view `w` of the decoded value and leaves the same rest of the slice.
With `Lawful c` (Properties/C16.lean) this gives the statement of the property for the regenerated parser:
on the spec encoding of ANY value followed by ANY trailer it returns every field with its encoded value and consumes
exactly the encoding (`Refines.on_encoding`).  Nothing is claimed for slices the spec decoder rejects (the Python
parsers are laxer there).

Method: the hypothesis `c.dec s = some (v, s')` is decomposed by `simp only` with one iff-lemma per spec combinator
(`recd_dec`, `decFields_cons`, `maybe_dec`, `decAlts_cons`, `ctag_dec`, `ref_dec`, `constrained_dec` …) into facts about
the primitive decoders; each primitive fact yields what the Python `Slice` primitive returns on that slice (`uint_keep`,
`bitsC_keep`, … — `Kept` only keeps the original fact out of the rewriter's reach); nested TL-B types stay opaque and
contribute through their own `Refines` theorem (`Refines.keep`); the reader is then evaluated by `simp_all`.
-/
import TonVerif.Model.TlbRd
import TonVerif.Spec.Tlb.PyView
import TonVerif.Proofs.Codec

namespace TonVerif.Tlb
open TonVerif

def Refines (r : Frag → Rd.R) (c : Codec) (w : Val → Val) : Prop :=
  ∀ s v s', c.dec s = some (v, s') → r s = some (w v, s')

/-- the statement of C16 for a regenerated reader -/
theorem Refines.on_encoding {r c w} (h : Refines r c w) [hl : Lawful c] (v : Val) (f : Frag) (he : c.enc v = some f)
    (k : Frag) : r (f ++ k) = some (w v, k) :=
  h _ _ _ (hl.law v f he k)

def Kept (c : Codec) (s : Frag) (v : Val) (s' : Frag) : Prop := c.dec s = some (v, s')

theorem Refines.keep {r c w} (h : Refines r c w) (s : Frag) (v : Val) (s' : Frag) :
    (c.dec s = some (v, s')) ↔ (Kept c s v s' ∧ r s = some (w v, s')) :=
  ⟨fun hd => ⟨hd, h s v s' hd⟩, fun hd => hd.1⟩

/-- the decoded value of `c` is never `Val.unit` (so `Maybe c` tells absent from present by the value) -/
def NonUnit (c : Codec) : Prop := ∀ s v s', c.dec s = some (v, s') → v ≠ .unit

/-- for a type that occurs under `Maybe`: also `viewMaybe w v = w v` -/
theorem Refines.keepM {r c w} (h : Refines r c w) (hn : NonUnit c) (s : Frag) (v : Val) (s' : Frag) :
    (c.dec s = some (v, s')) ↔ (Kept c s v s' ∧ r s = some (w v, s') ∧ ∀ w', viewMaybe w' v = w' v) := by
  refine ⟨fun hd => ⟨hd, h s v s' hd, fun w' => ?_⟩, fun hd => hd.1⟩
  have := hn s v s' hd
  cases v <;> simp_all [viewMaybe]

theorem viewMaybe_unit (w : Val → Val) : viewMaybe w .unit = .unit := rfl

/-! ### primitives -/

theorem refines_uint (n : Nat) (hn : n ≠ 0) : Refines (Rd.loadUint n) (uint n) id := by
  intro s v s' h
  simp only [uint] at h
  simp only [Rd.loadUint, hn, Rd.takeBits, if_false]
  split at h
  · cases h
  · rename_i hl; simp only [hl, if_false, Option.map]; simpa using h

theorem uint_keep (n : Nat) (s : Frag) (v : Val) (s' : Frag) :
    ((uint n).dec s = some (v, s')) ↔ (Kept (uint n) s v s' ∧ (n ≠ 0 → Rd.loadUint n s = some (v, s'))) :=
  ⟨fun h => ⟨h, fun hn => refines_uint n hn s v s' h⟩, fun h => h.1⟩

/-- a one-bit number: explicit (the parsers read it with `load_bit` and branch on it) -/
theorem uint1_dec (s : Frag) (v : Val) (s' : Frag) :
    (uint 1).dec s = some (v, s') ↔ ∃ b r rs, s = ⟨b :: r, rs⟩ ∧ v = .int (if b then 1 else 0) ∧ s' = ⟨r, rs⟩ := by
  obtain ⟨bits, refs⟩ := s
  simp only [uint]
  constructor
  · intro h
    split at h
    · cases h
    · rename_i hl
      match bits, hl, h with
      | [], hl, _ => simp at hl
      | b :: r, _, h =>
        simp only [Option.some.injEq, Prod.mk.injEq] at h
        refine ⟨b, r, refs, rfl, ?_, ?_⟩
        · rw [← h.1]; cases b <;> simp [natOfBits]
        · rw [← h.2]; simp
  · rintro ⟨b, r, rs, hb, rfl, rfl⟩
    cases hb
    cases b <;> simp [natOfBits]

theorem refines_sint (n : Nat) : Refines (Rd.loadInt n) (sint n) id := by
  intro s v s' h
  simp only [sint] at h
  split at h
  · cases h
  · rename_i hc
    have hn : n ≠ 0 := fun h0 => hc (Or.inl h0)
    have hl : ¬ s.bits.length < n := fun h0 => hc (Or.inr h0)
    have hlen : (s.bits.take n).length = n := by simp; omega
    simp only [Rd.loadInt, hn, Rd.takeBits, hl, if_false, Option.map, Rd.sintOfBits, hlen]
    simpa using h

theorem sint_keep (n : Nat) (s : Frag) (v : Val) (s' : Frag) :
    ((sint n).dec s = some (v, s')) ↔ (Kept (sint n) s v s' ∧ Rd.loadInt n s = some (v, s')) :=
  (refines_sint n).keep s v s'

theorem refines_bits (n : Nat) : Refines (Rd.loadBits n) (bitsC n) id := by
  intro s v s' h
  simp only [bitsC] at h
  simp only [Rd.loadBits, Rd.takeBits]
  split at h
  · cases h
  · rename_i hl; simp only [hl, if_false, Option.map]; simpa using h

theorem bitsC_keep (n : Nat) (s : Frag) (v : Val) (s' : Frag) :
    ((bitsC n).dec s = some (v, s')) ↔
      (Kept (bitsC n) s v s' ∧ Rd.loadBits n s = some (v, s') ∧ (n % 8 = 0 → Rd.loadBytes (n / 8) s = some (v, s'))) := by
  constructor
  · intro h
    refine ⟨h, refines_bits n s v s' h, fun h8 => ?_⟩
    have : 8 * (n / 8) = n := by omega
    simp only [Rd.loadBytes, this]
    exact refines_bits n s v s' h
  · intro h; exact h.1

theorem refines_bool : Refines Rd.loadBool boolC id := by
  intro s v s' h
  simp only [boolC] at h
  simp only [Rd.loadBool]
  split at h
  · cases h
  · rename_i b r hb; simp only [hb]; simpa using h

theorem boolC_keep (s : Frag) (v : Val) (s' : Frag) :
    (boolC.dec s = some (v, s')) ↔ (Kept boolC s v s' ∧ Rd.loadBool s = some (v, s')) := refines_bool.keep s v s'

theorem natOfBits_nil' : natOfBits [] = 0 := rfl

theorem refines_varUInt (k w : Nat) (hw : bitLen (k - 1) = w) (hw0 : w ≠ 0) :
    Refines (Rd.loadVarUint w) (varUInt k) id := by
  intro s v s' h
  simp only [varUInt, hw] at h
  simp only [Rd.loadVarUint, Rd.loadUint, Rd.takeBits, hw0, if_false]
  split at h
  · cases h
  · rename_i hl
    split at h
    · cases h
    · rename_i hc
      simp only [hl, if_false, Option.map]
      simp only [not_or, Nat.not_le, Nat.not_lt, ge_iff_le, List.length_drop] at hc
      simp only [Option.some.injEq, Prod.mk.injEq] at h
      by_cases hz : natOfBits (List.take w s.bits) = 0
      · have hz' : ((natOfBits (List.take w s.bits) : Nat) : Int) = 0 := by omega
        simp only [hz', if_true]
        simp only [hz, Nat.mul_zero, List.take_zero, natOfBits_nil', List.drop_zero] at h
        simp [← h.1, ← h.2]
      · have hz' : ¬ (((natOfBits (List.take w s.bits) : Nat) : Int) = 0) := by omega
        have hm : natOfBits (List.take w s.bits) * 8 ≠ 0 := by omega
        have hl2 : ¬ (List.length s.bits - w < natOfBits (List.take w s.bits) * 8) := by omega
        simp only [hz', if_false, Int.toNat_natCast, hm, List.length_drop, hl2, Option.some.injEq, Prod.mk.injEq]
        rw [Nat.mul_comm] at h
        exact ⟨h.1, h.2⟩

theorem grams_keep (s : Frag) (v : Val) (s' : Frag) :
    (grams.dec s = some (v, s')) ↔ (Kept grams s v s' ∧ Rd.loadCoins s = some (v, s') ∧ Rd.loadVarUint 4 s = some (v, s')) := by
  have h := refines_varUInt 16 4 (by decide) (by decide)
  exact ⟨fun hd => ⟨hd, h s v s' hd, h s v s' hd⟩, fun hd => hd.1⟩

theorem varUInt7_keep (s : Frag) (v : Val) (s' : Frag) :
    ((varUInt 7).dec s = some (v, s')) ↔ (Kept (varUInt 7) s v s' ∧ Rd.loadVarUint 3 s = some (v, s')) :=
  (refines_varUInt 7 3 (by decide) (by decide)).keep s v s'

theorem varUInt3_keep (s : Frag) (v : Val) (s' : Frag) :
    ((varUInt 3).dec s = some (v, s')) ↔ (Kept (varUInt 3) s v s' ∧ Rd.loadVarUint 2 s = some (v, s')) :=
  (refines_varUInt 3 2 (by decide) (by decide)).keep s v s'

theorem varUInt32_keep (s : Frag) (v : Val) (s' : Frag) :
    ((varUInt 32).dec s = some (v, s')) ↔ (Kept (varUInt 32) s v s' ∧ Rd.loadVarUint 5 s = some (v, s')) :=
  (refines_varUInt 32 5 (by decide) (by decide)).keep s v s'

theorem cellRef_dec (s : Frag) (v : Val) (s' : Frag) :
    cellRef.dec s = some (v, s') ↔ ∃ b c more, s = ⟨b, c :: more⟩ ∧ v = .cell c ∧ s' = ⟨b, more⟩ := by
  obtain ⟨bits, refs⟩ := s
  simp only [cellRef]
  constructor
  · intro h
    split at h
    · cases h
    · rename_i c more
      simp only [Option.some.injEq, Prod.mk.injEq] at h
      exact ⟨bits, c, more, rfl, h.1.symm, h.2.symm⟩
  · rintro ⟨b, c, more, hr, rfl, rfl⟩
    cases hr
    simp

/-! ### structure -/

theorem typ_dec (n : String) (c : Codec) : (typ n c).dec = c.dec := rfl
theorem withGen_dec (c : Codec) (g : Gen Val) : (withGen c g).dec = c.dec := rfl
theorem withPaths_dec (c : Codec) (p : PMode → Gen (List Val)) : (withPaths c p).dec = c.dec := rfl

theorem nothing_dec (s : Frag) (v : Val) (s' : Frag) : nothing.dec s = some (v, s') ↔ v = .unit ∧ s' = s := by
  simp only [nothing, Option.some.injEq, Prod.mk.injEq]
  constructor <;> (rintro ⟨a, b⟩; exact ⟨a.symm, b.symm⟩)

theorem recd_dec (fs : List Field) (s : Frag) (v : Val) (s' : Frag) :
    (recd fs).dec s = some (v, s') ↔ ∃ vs, decFields fs [] s = some (vs, s') ∧ v = .record vs := by
  simp only [recd, Option.map_eq_some_iff]
  constructor
  · rintro ⟨⟨vs, s2⟩, h1, h2⟩
    simp only [Option.some.injEq, Prod.mk.injEq] at h2
    exact ⟨vs, by rw [h1, h2.2], h2.1.symm⟩
  · rintro ⟨vs, h1, h2⟩; exact ⟨(vs, s'), h1, by simp [h2]⟩

theorem decFields_nil (env : Env) (s : Frag) (vs) (s' : Frag) :
    decFields [] env s = some (vs, s') ↔ vs = [] ∧ s' = s := by
  simp only [decFields, Option.some.injEq, Prod.mk.injEq]
  constructor <;> (rintro ⟨a, b⟩; exact ⟨a.symm, b.symm⟩)

theorem decFields_cons (n : String) (f : Env → Codec) (fs : List Field) (env : Env) (s : Frag) (vs) (s' : Frag) :
    decFields ((n, f) :: fs) env s = some (vs, s') ↔
      ∃ v s1, (f env).dec s = some (v, s1) ∧ ∃ vs', decFields fs ((n, v) :: env) s1 = some (vs', s') ∧ vs = (n, v) :: vs' := by
  simp only [decFields]
  constructor
  · intro h
    split at h
    · cases h
    · rename_i v s1 h1
      split at h
      · cases h
      · rename_i vs' s2 h2
        simp only [Option.some.injEq, Prod.mk.injEq] at h
        exact ⟨v, s1, h1, vs', by rw [h2, h.2], h.1.symm⟩
  · rintro ⟨v, s1, h1, vs', h2, h3⟩
    simp [h1, h2, h3]

theorem maybe_dec (c : Codec) (s : Frag) (v : Val) (s' : Frag) :
    (maybe c).dec s = some (v, s') ↔
      (∃ r rs, s = ⟨false :: r, rs⟩ ∧ v = .unit ∧ s' = ⟨r, rs⟩) ∨
      (∃ r rs, s = ⟨true :: r, rs⟩ ∧ c.dec ⟨r, rs⟩ = some (v, s')) := by
  obtain ⟨bits, refs⟩ := s
  simp only [maybe]
  constructor
  · intro h
    split at h
    · cases h
    · rename_i r
      simp only [Option.some.injEq, Prod.mk.injEq] at h
      exact Or.inl ⟨r, refs, rfl, h.1.symm, h.2.symm⟩
    · rename_i r
      exact Or.inr ⟨r, refs, rfl, h⟩
  · rintro (⟨r, rs, hb, hv, hs⟩ | ⟨r, rs, hb, h⟩)
    · cases hb; simp [hv, hs]
    · cases hb; simp [h]

theorem isPrefixOf_true_iff (p l : Bits) : p.isPrefixOf l = true ↔ ∃ t, l = p ++ t := by
  rw [List.isPrefixOf_iff_prefix]
  constructor
  · rintro ⟨t, ht⟩; exact ⟨t, ht.symm⟩
  · rintro ⟨t, ht⟩; exact ⟨t, ht.symm⟩

theorem ctag_dec (p : Bits) (c : Codec) (s : Frag) (v : Val) (s' : Frag) :
    (ctag p c).dec s = some (v, s') ↔ ∃ t rs, s = ⟨p ++ t, rs⟩ ∧ c.dec ⟨t, rs⟩ = some (v, s') := by
  obtain ⟨bits, refs⟩ := s
  simp only [ctag]
  constructor
  · intro h
    split at h
    · rename_i hp
      obtain ⟨t, ht⟩ := (isPrefixOf_true_iff _ _).1 hp
      (try simp only at ht); subst ht
      refine ⟨t, refs, rfl, ?_⟩
      simp only [List.drop_left] at h
      exact h
    · cases h
  · rintro ⟨t, rs, ht, h⟩
    cases ht
    have hp : p.isPrefixOf (p ++ t) = true := (isPrefixOf_true_iff _ _).2 ⟨t, rfl⟩
    simp only [hp, if_true, List.drop_left]
    exact h

theorem tagged_dec (alts : List Alt) (s : Frag) (v : Val) (s' : Frag) :
    (tagged alts).dec s = some (v, s') ↔ prefixFree (altTags alts) = true ∧ decAlts alts s = some (v, s') := by
  unfold tagged
  by_cases h : prefixFree (altTags alts) = true
  · simp [h]
  · simp [h, failC]

theorem decAlts_nil (s : Frag) (v : Val) (s' : Frag) : decAlts [] s = some (v, s') ↔ False := by
  simp [decAlts]

theorem decAlts_cons (p : Bits) (name : String) (c : Codec) (more : List Alt) (s : Frag) (v : Val) (s' : Frag) :
    decAlts ((p, name, c) :: more) s = some (v, s') ↔
      (∃ t rs, s = ⟨p ++ t, rs⟩ ∧ ∃ x, c.dec ⟨t, rs⟩ = some (x, s') ∧ v = .con name x) ∨
      (p.isPrefixOf s.bits = false ∧ decAlts more s = some (v, s')) := by
  obtain ⟨bits, refs⟩ := s
  simp only [decAlts]
  constructor
  · intro h
    split at h
    · rename_i hp
      obtain ⟨t, ht⟩ := (isPrefixOf_true_iff _ _).1 hp
      (try simp only at ht); subst ht
      simp only [List.drop_left, Option.map_eq_some_iff] at h
      obtain ⟨⟨x, s2⟩, h1, h2⟩ := h
      simp only [Option.some.injEq, Prod.mk.injEq] at h2
      exact Or.inl ⟨t, refs, rfl, x, by rw [h1, h2.2], h2.1.symm⟩
    · rename_i hp
      exact Or.inr ⟨by cases hq : p.isPrefixOf bits <;> simp_all, h⟩
  · rintro (⟨t, rs, ht, x, h, rfl⟩ | ⟨hp, h⟩)
    · cases ht
      have hp : p.isPrefixOf (p ++ t) = true := (isPrefixOf_true_iff _ _).2 ⟨t, rfl⟩
      simp only [hp, if_true, List.drop_left, h]
      rfl
    · try simp only at hp
      simp [hp, h]

theorem named_dec (name : String) (c : Codec) (s : Frag) (v : Val) (s' : Frag) :
    (named name c).dec s = some (v, s') ↔ ∃ x, c.dec s = some (x, s') ∧ v = .con name x := by
  simp only [named, Option.map_eq_some_iff]
  constructor
  · rintro ⟨⟨x, s2⟩, h1, h2⟩
    simp only [Option.some.injEq, Prod.mk.injEq] at h2
    exact ⟨x, by rw [h1, h2.2], h2.1.symm⟩
  · rintro ⟨x, h1, rfl⟩; exact ⟨(x, s'), h1, rfl⟩

theorem constrained_dec (c : Codec) (p : Val → Bool) (g : Option (Gen Val)) (s : Frag) (v : Val) (s' : Frag) :
    (constrained c p g).dec s = some (v, s') ↔ c.dec s = some (v, s') ∧ p v = true := by
  simp only [constrained]
  constructor
  · intro h
    split at h
    · rename_i v1 s1 h1
      split at h
      · rename_i hp
        simp only [Option.some.injEq, Prod.mk.injEq] at h
        rw [← h.1, ← h.2]; exact ⟨h1, hp⟩
      · cases h
    · cases h
  · rintro ⟨h1, hp⟩
    simp [h1, hp]

theorem uintRange_dec (n lo hi : Nat) : (uintRange n lo hi).dec = (constrained (uint n) (vBetween lo hi) none).dec := rfl

theorem vBetween_iff (lo hi : Nat) (v : Val) :
    vBetween lo hi v = true ↔ ∃ n : Nat, v = .int n ∧ lo ≤ n ∧ n ≤ hi := by
  cases v <;> simp [vBetween]
  case int i =>
    constructor
    · rintro ⟨⟨h0, h1⟩, h2⟩; exact ⟨i.toNat, by omega, by omega, by omega⟩
    · rintro ⟨n, rfl, h1, h2⟩; simp; omega

/-- `^X` : the next reference is an ordinary cell that `X` reads completely -/
theorem ref_dec (c : Codec) (s : Frag) (v : Val) (s' : Frag) :
    (ref c).dec s = some (v, s') ↔
      ∃ bs b r more, s = ⟨bs, Cell.mk false b r :: more⟩ ∧ c.dec ⟨b, r⟩ = some (v, ⟨[], []⟩) ∧ s' = ⟨bs, more⟩ := by
  obtain ⟨bits, refs⟩ := s
  simp only [ref]
  constructor
  · intro h
    split at h
    · rename_i b r more
      split at h
      · rename_i v1 h1
        simp only [Option.some.injEq, Prod.mk.injEq] at h
        exact ⟨bits, b, r, more, rfl, by rw [h1, h.1], h.2.symm⟩
      · cases h
    · cases h
  · rintro ⟨bs, b, r, more, hr, h1, rfl⟩
    cases hr
    simp [h1]

theorem ite_dec (p : Prop) [Decidable p] (a b : Codec) (s : Frag) :
    (if p then a else b).dec s = if p then a.dec s else b.dec s := by
  split <;> rfl

theorem nonUnit_typ (n : String) (c : Codec) (h : NonUnit c) : NonUnit (typ n c) := h
theorem nonUnit_ctag (p : Bits) (c : Codec) (h : NonUnit c) : NonUnit (ctag p c) := by
  intro s v s' hd
  obtain ⟨t, rs, _, h2⟩ := (ctag_dec p c s v s').1 hd
  exact h _ _ _ h2
theorem nonUnit_recd (fs : List Field) : NonUnit (recd fs) := by
  intro s v s' hd
  obtain ⟨vs, _, rfl⟩ := (recd_dec fs s v s').1 hd
  simp
theorem nonUnit_tagged (alts : List Alt) : NonUnit (tagged alts) := by
  intro s v s' hd
  have h2 := ((tagged_dec alts s v s').1 hd).2
  clear hd
  induction alts with
  | nil => simp [decAlts] at h2
  | cons a more ih =>
    obtain ⟨p, name, c⟩ := a
    rcases (decAlts_cons p name c more s v s').1 h2 with ⟨_, _, _, x, _, rfl⟩ | ⟨_, h3⟩
    · simp
    · exact ih h3

/-- `NonUnit T` for a type defined as `typ _ (ctag _ (recd _))`, `typ _ (tagged _)` … -/
macro "tlb_nonunit" : tactic =>
  `(tactic| repeat (first | exact nonUnit_recd _ | exact nonUnit_tagged _ | apply nonUnit_typ | apply nonUnit_ctag))

/-! ### reads of known bits (constructor tags) -/

theorem takeBits_zero (s : Frag) : Rd.takeBits 0 s = some ([], s) := by
  simp [Rd.takeBits]

theorem takeBits_succ (n : Nat) (b : Bool) (t : Bits) (r : List Cell) :
    Rd.takeBits (n + 1) ⟨b :: t, r⟩ = (Rd.takeBits n ⟨t, r⟩).map (fun p => (b :: p.1, p.2)) := by
  simp only [Rd.takeBits, List.length_cons, Nat.add_lt_add_iff_right]
  split <;> simp

theorem loadBit_cons (b : Bool) (t : Bits) (r : List Cell) :
    Rd.loadBit ⟨b :: t, r⟩ = some (.int (if b then 1 else 0), ⟨t, r⟩) := rfl
theorem loadBool_cons (b : Bool) (t : Bits) (r : List Cell) :
    Rd.loadBool ⟨b :: t, r⟩ = some (.bool b, ⟨t, r⟩) := rfl
theorem preloadBit_cons (b : Bool) (t : Bits) (r : List Cell) :
    Rd.preloadBit ⟨b :: t, r⟩ = some (.int (if b then 1 else 0)) := rfl
theorem loadRef_cons (bs : Bits) (c : Cell) (more : List Cell) :
    Rd.loadRef ⟨bs, c :: more⟩ = some (c, ⟨bs, more⟩) := rfl
theorem loadUint_cons (n : Nat) (b : Bool) (t : Bits) (r : List Cell) :
    Rd.loadUint n ⟨b :: t, r⟩ =
      if n = 0 then none else (Rd.takeBits n ⟨b :: t, r⟩).map fun p => (.int (natOfBits p.1), p.2) := rfl
theorem loadBits_cons (n : Nat) (b : Bool) (t : Bits) (r : List Cell) :
    Rd.loadBits n ⟨b :: t, r⟩ = (Rd.takeBits n ⟨b :: t, r⟩).map fun p => (.bits p.1, p.2) := rfl
theorem loadBytes_cons (k : Nat) (b : Bool) (t : Bits) (r : List Cell) :
    Rd.loadBytes k ⟨b :: t, r⟩ = (Rd.takeBits (8 * k) ⟨b :: t, r⟩).map fun p => (.bits p.1, p.2) := rfl
theorem preloadBits_cons (n : Nat) (b : Bool) (t : Bits) (r : List Cell) :
    Rd.preloadBits n ⟨b :: t, r⟩ = (Rd.takeBits n ⟨b :: t, r⟩).map fun p => .bits p.1 := rfl
theorem preloadBytes_cons (k : Nat) (b : Bool) (t : Bits) (r : List Cell) :
    Rd.preloadBytes k ⟨b :: t, r⟩ = (Rd.takeBits (8 * k) ⟨b :: t, r⟩).map fun p => .bits p.1 := rfl

theorem bitLen_60 : bitLen 60 = 6 := by decide
theorem bitLen_96 : bitLen 96 = 7 := by decide
theorem bitLen_30 : bitLen 30 = 5 := by decide

/-! ### tactic -/

/-- the structural decomposition lemmas -/
macro "tlb_struct" "[" ds:Lean.Parser.Tactic.simpLemma,* "]" : tactic =>
  `(tactic| simp only [$ds,*, fld, dep, bits256, typ_dec, withGen_dec, withPaths_dec, uintRange_dec, uintLe, uintLt,
      recd_dec, decFields_cons, decFields_nil, maybe_dec, ctag_dec, tagged_dec, decAlts_cons, decAlts_nil, named_dec,
      constrained_dec, ref_dec, nothing_dec, cellRef_dec, uint1_dec, vBetween_iff, ite_dec, bitLen_60, bitLen_96, bitLen_30,
      forall_exists_index, and_imp, or_imp, false_imp_iff, imp_true_iff, and_true, true_and, Frag.mk.injEq, tag, natToBits,
      List.cons_append, List.nil_append, List.append_assoc, Nat.reduceDiv, Nat.reduceMod, Nat.reduceBEq, Nat.reduceBNe,
      Nat.le_zero_eq, Nat.zero_le, ↓reduceIte, if_true, if_false, Nat.reduceEqDiff, Nat.succ_ne_zero, ne_eq,
      not_false_eq_true, not_true_eq_false])

/-- evaluation of the regenerated reader under the decomposed facts -/
macro "tlb_eval" "[" ds:Lean.Parser.Tactic.simpLemma,* "]" : tactic =>
  `(tactic| (try simp (config := {decide := true}) only [$ds,*, Frag.mk.injEq, uint_keep, sint_keep, bitsC_keep, boolC_keep, grams_keep, varUInt7_keep,
      varUInt3_keep, varUInt32_keep, and_imp, ne_eq, not_false_eq_true, true_and, Nat.reduceMod, Nat.reduceDiv,
      forall_const] at *
             simp [*, Val.get, List.lookup, Rd.truthy, Rd.obj, Rd.str, Rd.loadRefV,
      Rd.beginParse, Rd.special, Cell.bits, Cell.refs, Cell.exotic, Rd.veq, Rd.bits01, Rd.bytesLit,
      Rd.loadMaybeRef, loadUint_cons, loadBits_cons, loadBytes_cons, preloadBits_cons, preloadBytes_cons, takeBits_zero,
      takeBits_succ, natOfBits, loadBit_cons, loadBool_cons, preloadBit_cons, loadRef_cons, Rd.bytesPrefix, Rd.strOfBit,
      Rd.bitsCat, natToBits, viewMaybe_unit]))

/-- `Refines (Src.T false) T view_T` : `tlb_refine [T, Src.T, view_T, refines_A.keep, …]` -/
macro "tlb_refine" "[" ds:Lean.Parser.Tactic.simpLemma,* "]" : tactic =>
  `(tactic| (rintro ⟨bits, refs⟩ v s'
             tlb_struct [$ds,*]
             repeat' (first
               | apply And.intro
               | (intro h
                  first
                    | (simp only [Frag.mk.injEq] at h; obtain ⟨h1, h2⟩ := h; subst h1; subst h2)
                    | subst h
                    | skip))
             all_goals tlb_eval [$ds,*]))

end TonVerif.Tlb
