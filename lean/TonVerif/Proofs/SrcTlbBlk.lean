/-
C16 source tie, third part — generation-independent lemmas, continuing Proofs/SrcTlb.lean and Proofs/SrcTlbTx.lean.

New here: the JOINED `if` of the translator (`if c: x = <reads>` followed by more statements = ONE conditional `let`, the continuation
translated once) against a conditional schema field `c ? X` (`dep … (if … then X else nothing)`): `condK` / `condRefK` turn the decoder fact
into what the conditional `let` returns, so a parser with k conditional fields is ONE straight-line evaluation (BlockInfo: 3 conditional
fields + `BlkPrevInfo after_merge`, no case split at all); evaluation of `Env.nat` on the record environment (`envNat_cons`); integer
comparisons of the parsers (`Rd.vle`, `Rd.lowBit`) on decoded naturals and one-bit numbers.
-/
import TonVerif.Proofs.SrcTlbTx
import TonVerif.Spec.Tlb.PyViewBlk

namespace TonVerif.Tlb.Blk
open TonVerif TonVerif.Tlb

theorem vle_nat_nat (a b : Nat) : Rd.vle (.int a) (.int b) = some (decide (a ≤ b)) := by
  simp [Rd.vle, Rd.toInt]
theorem vle_one_nat (b : Nat) : Rd.vle (.int 1) (.int b) = some (decide (1 ≤ b)) := by
  simp only [Rd.vle, Rd.toInt, Option.bind_eq_bind, Option.bind_some, Option.pure_def]
  congr 1; simp; omega
theorem vle_nat_one (a : Nat) : Rd.vle (.int a) (.int 1) = some (decide (a ≤ 1)) := by
  simp only [Rd.vle, Rd.toInt, Option.bind_eq_bind, Option.bind_some, Option.pure_def]
  congr 1; simp; omega

theorem envNat_cons (k : String) (v : Val) (e : Env) (n : String) :
    Env.nat ((k, v) :: e) n = if n == k then (match v with | .int i => i.toNat | .bool true => 1 | _ => 0) else Env.nat e n := by
  simp only [Env.nat, List.lookup]
  cases h : n == k
  · simp
  · cases v with
    | bool b => cases b <;> rfl
    | _ => rfl

theorem lowBit_nat (n : Nat) : Rd.lowBit (.int n) = some (n % 2 == 1) := by
  simp only [Rd.lowBit, Rd.toInt, Option.bind_eq_bind, Option.bind_some, Option.pure_def]
  have : ¬ ((n : Int) < 0) := by omega
  simp only [this, if_false, Option.some.injEq]
  have h2 : ((n : Int) % 2 == 1) = (n % 2 == 1) := by
    rw [Bool.eq_iff_iff]; simp; omega
  exact h2

theorem bitInt_toNat (b : Bool) : (if b = true then (1 : Int) else 0).toNat = if b = true then 1 else 0 := by
  cases b <;> simp

theorem bit_eq_one (b : Bool) : ((if b = true then 1 else 0) = 1) = (b = true) := by cases b <;> simp

theorem vle_bit_nat (b : Bool) (n : Nat) : Rd.vle (.int (if b = true then 1 else 0)) (.int n) = some (decide ((if b = true then 1 else 0) ≤ n)) := by
  cases b <;> simp [Rd.vle, Rd.toInt]
  omega

/-- a conditional field `p ? X` read by a joined `if` -/
def KeptIf (p : Prop) [Decidable p] (c : Codec) (s : Frag) (v : Val) (s' : Frag) : Prop :=
  (if p then c.dec s else nothing.dec s) = some (v, s')

theorem condK {r : Frag → Rd.R} {c w} (h : Refines r c w) (hn : NonUnit c) (p : Prop) [Decidable p] (s : Frag) (v : Val) (s' : Frag) :
    ((if p then c.dec s else nothing.dec s) = some (v, s')) ↔
      (KeptIf p c s v s' ∧ (if p then r s else some (.unit, s)) = some (viewMaybe w v, s')) := by
  refine ⟨fun hd => ⟨hd, ?_⟩, fun hd => hd.1⟩
  by_cases hp : p
  · simp only [hp, if_true] at hd ⊢
    have := hn _ _ _ hd
    rw [h _ _ _ hd]
    cases v <;> simp_all [viewMaybe]
  · simp only [hp, if_false] at hd ⊢
    obtain ⟨rfl, rfl⟩ := (nothing_dec _ _ _).1 hd
    rfl

theorem condRefK {r : Bool → Frag → Rd.R} {c w} (h : Refines (r false) c w) (hn : NonUnit c) (p : Prop) [Decidable p] (s : Frag) (v : Val)
    (s' : Frag) :
    ((if p then (ref c).dec s else nothing.dec s) = some (v, s')) ↔
      (KeptIf p (ref c) s v s' ∧ (if p then Rd.viaRef r s else some (.unit, s)) = some (viewMaybe w v, s')) :=
  condK (r := Rd.viaRef r) ((h.toP PT).toE.viaRef).toRefines (nonUnit_ref c hn) p s v s'

theorem bind_some_eta (x : Rd.R) : (Option.bind x fun p => some (p.fst, p.snd)) = x := by cases x <;> rfl

theorem viaRef_eq_bind (r : Bool → Frag → Rd.R) (s : Frag) :
    ((Rd.loadRef s).bind fun x => Option.bind (r (Rd.special x.fst) (Rd.beginParse x.fst)) fun y => some (y.fst, x.snd)) = Rd.viaRef r s := by
  simp only [Rd.viaRef]
  cases Rd.loadRef s with
  | none => rfl
  | some p =>
    simp only [Option.bind_some]
    cases r (Rd.special p.fst) (Rd.beginParse p.fst) <;> rfl

theorem viaRef_eq_bind1 (r : Bool → Frag → Val → Rd.R) (a : Val) (s : Frag) :
    ((Rd.loadRef s).bind fun x => Option.bind (r (Rd.special x.fst) (Rd.beginParse x.fst) a) fun y => some (y.fst, x.snd)) =
      Rd.viaRef (fun sp s => r sp s a) s := viaRef_eq_bind (fun sp s => r sp s a) s

theorem special_mk (e : Bool) (b : Bits) (r : List Cell) : Rd.special (Cell.mk e b r) = e := rfl
theorem beginParse_mk (e : Bool) (b : Bits) (r : List Cell) : Rd.beginParse (Cell.mk e b r) = ⟨b, r⟩ := rfl

end TonVerif.Tlb.Blk
