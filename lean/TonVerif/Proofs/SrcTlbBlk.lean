/-
C16 source tie, third part — generation-independent lemmas, continuing Proofs/SrcTlb.lean and Proofs/SrcTlbTx.lean.

New here: the JOINED `if` of the translator (`if c: x = <reads>` followed by more statements = ONE conditional `let`, the continuation
translated once) against a conditional schema field `c ? X` (`dep … (if … then X else nothing)`): `condK` / `condRefK` turn the decoder fact
into what the conditional `let` returns, so a parser with k conditional fields is ONE straight-line evaluation (BlockInfo: 3 conditional
fields + `BlkPrevInfo after_merge`, no case split at all); evaluation of `Env.nat` on the record environment (`envNat_cons`); integer
comparisons of the parsers (`Rd.vle`, `Rd.lowBit`) on decoded naturals and one-bit numbers.
-/
import TonVerif.Proofs.SrcTlbParsersTx
import TonVerif.Spec.Tlb.PyViewBlk

namespace TonVerif.Tlb.Blk
open TonVerif TonVerif.Tlb

theorem vle_nat_nat (a b : Nat) : Rd.vle (.int a) (.int b) = some (decide (a ≤ b)) := by
  simp [Rd.vle, Rd.toInt]
theorem vle_one_nat (b : Nat) : Rd.vle (.int 1) (.int b) = some (decide (1 ≤ b)) := by
  simp only [Rd.vle, Rd.toInt, Option.bind_eq_bind, Option.bind_some, Option.pure_def]
  congr 1; simp; omega
theorem vle_nat_one (a : Nat) : Rd.vle (.int a) (.int 1) = some (decide (a ≤ 1)) := by
  simp only [Rd.vle, Rd.toInt, Option.bind_eq_bind, Option.bind_some, Option.pure_def]
  congr 1; simp; omega

/-- the number `Env.nat` reads off a field value -/
def natOf : Val → Nat
  | .int i => i.toNat
  | .bool true => 1
  | _ => 0

theorem natOf_nat (k : Nat) : natOf (.int k) = k := by simp [natOf]

theorem envNat_cons (k : String) (v : Val) (e : Env) (n : String) :
    Env.nat ((k, v) :: e) n = if n == k then natOf v else Env.nat e n := by
  simp only [Env.nat, List.lookup, natOf]
  cases h : n == k
  · simp
  · cases v with
    | bool b => cases b <;> rfl
    | _ => rfl

/-- the decoded value is a natural number (what `uint n` decodes to) -/
def IsNat (v : Val) : Prop := ∃ k : Nat, v = .int k

theorem isNat_nat (k : Nat) : IsNat (.int k) := ⟨k, rfl⟩

/-- `uint_keep` that also remembers that the value is a natural number (for parsers that compare two decoded fields) -/
theorem uint_keepN (n : Nat) (s : Frag) (v : Val) (s' : Frag) :
    ((uint n).dec s = some (v, s')) ↔ (Kept (uint n) s v s' ∧ (n ≠ 0 → Rd.loadUint n s = some (v, s')) ∧ IsNat v) :=
  ⟨fun h => ⟨h, fun hn => refines_uint n hn s v s' h, Tx.uint_dec_nat n s v s' h⟩, fun h => h.1⟩

theorem vle_nat_isNat (m : Nat) (v : Val) (hv : IsNat v) (h : m ≤ natOf v) : Rd.vle (.int m) v = some true := by
  obtain ⟨k, rfl⟩ := hv
  simp only [natOf_nat] at h
  simp [Rd.vle, Rd.toInt, h]

theorem lowBit_nat (n : Nat) : Rd.lowBit (.int n) = some (n % 2 == 1) := by
  simp only [Rd.lowBit, Rd.toInt, Option.bind_eq_bind, Option.bind_some, Option.pure_def]
  have : ¬ ((n : Int) < 0) := by omega
  simp only [this, if_false, Option.some.injEq]
  have h2 : ((n : Int) % 2 == 1) = (n % 2 == 1) := by
    rw [Bool.eq_iff_iff]; simp; omega
  exact h2

theorem bitInt_toNat (b : Bool) : natOf (.int (if b = true then (1 : Int) else 0)) = if b = true then 1 else 0 := by
  cases b <;> simp [natOf]

theorem bit_eq_one (b : Bool) : ((if b = true then 1 else 0) = 1) = (b = true) := by cases b <;> simp

theorem vle_bit_nat (b : Bool) (n : Nat) : Rd.vle (.int (if b = true then 1 else 0)) (.int n) = some (decide ((if b = true then 1 else 0) ≤ n)) := by
  cases b <;> simp [Rd.vle, Rd.toInt]
  omega

/-- a conditional field `p ? X` read by a joined `if` -/
def KeptIf (p : Prop) [Decidable p] (c : Codec) (s : Frag) (v : Val) (s' : Frag) : Prop :=
  (if p then c.dec s else nothing.dec s) = some (v, s')

theorem condK {r : Frag → Rd.R} {c w} (h : Refines r c w) (hn : NonUnit c) (p : Prop) [Decidable p] (s : Frag) (v : Val) (s' : Frag) :
    ((if p then c.dec s else nothing.dec s) = some (v, s')) ↔
      (KeptIf p c s v s' ∧ (if p then r s else some (.unit, s)) = some (viewMaybe w v, s')) := by
  refine ⟨fun hd => ⟨hd, ?_⟩, fun hd => hd.1⟩
  by_cases hp : p
  · simp only [hp, if_true] at hd ⊢
    have := hn _ _ _ hd
    rw [h _ _ _ hd]
    cases v <;> simp_all [viewMaybe]
  · simp only [hp, if_false] at hd ⊢
    obtain ⟨rfl, rfl⟩ := (nothing_dec _ _ _).1 hd
    rfl

theorem condRefK {r : Bool → Frag → Rd.R} {c w} (h : Refines (r false) c w) (hn : NonUnit c) (p : Prop) [Decidable p] (s : Frag) (v : Val)
    (s' : Frag) :
    ((if p then (ref c).dec s else nothing.dec s) = some (v, s')) ↔
      (KeptIf p (ref c) s v s' ∧ (if p then Rd.viaRef r s else some (.unit, s)) = some (viewMaybe w v, s')) :=
  condK (r := Rd.viaRef r) ((h.toP PT).toE.viaRef).toRefines (nonUnit_ref c hn) p s v s'

theorem bind_some_eta (x : Rd.R) : (Option.bind x fun p => some (p.fst, p.snd)) = x := by cases x <;> rfl

theorem viaRef_eq_bind (r : Bool → Frag → Rd.R) (s : Frag) :
    ((Rd.loadRef s).bind fun x => Option.bind (r (Rd.special x.fst) (Rd.beginParse x.fst)) fun y => some (y.fst, x.snd)) = Rd.viaRef r s := by
  simp only [Rd.viaRef]
  cases Rd.loadRef s with
  | none => rfl
  | some p =>
    simp only [Option.bind_some]
    cases r (Rd.special p.fst) (Rd.beginParse p.fst) <;> rfl

theorem viaRef_eq_bind1 (r : Bool → Frag → Val → Rd.R) (a : Val) (s : Frag) :
    ((Rd.loadRef s).bind fun x => Option.bind (r (Rd.special x.fst) (Rd.beginParse x.fst) a) fun y => some (y.fst, x.snd)) =
      Rd.viaRef (fun sp s => r sp s a) s := viaRef_eq_bind (fun sp s => r sp s a) s

theorem special_mk (e : Bool) (b : Bits) (r : List Cell) : Rd.special (Cell.mk e b r) = e := rfl
theorem beginParse_mk (e : Bool) (b : Bits) (r : List Cell) : Rd.beginParse (Cell.mk e b r) = ⟨b, r⟩ := rfl

/-! ### `Slice.load_hashmap` : an inline `Hashmap n X` -/

/-- the Patricia walk started on the slice itself returns the entries of the decoded tree value, in order, and leaves what the
    spec decoder leaves -/
theorem dictWalkInline_sound (X : Codec) (rd : Frag → Rd.R) (w : Val → Val) (hrd : Refines rd X w) (n : Nat) (s : Frag) (tv : Val)
    (s' : Frag) (h : (hashmapF X (n + 1) n).dec s = some (tv, s')) :
    Rd.dictWalkInline rd n s = some (flattenF w (n + 1) n [] tv, s') := by
  simp only [hashmapF, recd_dec, fld, dep, decFields_cons, decFields_nil] at h
  obtain ⟨vs, ⟨lv, s1, hl, vs', ⟨nv, s2, hn, vs'', ⟨rfl, rfl⟩, rfl⟩, rfl⟩, rfl⟩ := h
  have hget : Env.get [("label", lv)] "label" = lv := by simp [Env.get, List.lookup]
  rw [hget] at hn
  simp only [flattenF, get_label, get_node, List.nil_append]
  simp only [Rd.dictWalkInline, hl]
  unfold hmNode at hn
  by_cases hle : labelLen lv ≤ n
  · simp only [hle, if_true] at hn
    by_cases hz : n - labelLen lv = 0
    · simp only [hz, if_true] at hn ⊢
      simp [hrd _ _ _ hn]
    · simp only [hz, if_false] at hn ⊢
      simp only [recd_dec, fld, decFields_cons, decFields_nil, ref_dec] at hn
      obtain ⟨vs, ⟨a, s3, ⟨bs, b0, r0, more, rfl, ha, rfl⟩, vs', ⟨bb, s4, ⟨bs', b1, r1, more', hs, hb, rfl⟩, vs'', ⟨rfl, rfl⟩, rfl⟩, rfl⟩, rfl⟩ := hn
      simp only [Frag.mk.injEq] at hs
      obtain ⟨rfl, rfl⟩ := hs
      simp only [get_left, get_right]
      have h1 := dictWalk_sound X (fun _ => True) rd w (fun s v hd _ => ⟨_, hrd s v _ hd⟩) n (n - labelLen lv - 1)
        (Rd.labelBitsOf lv ++ [false]) _ _ _ ha (fun _ _ => trivial)
      have h2 := dictWalk_sound X (fun _ => True) rd w (fun s v hd _ => ⟨_, hrd s v _ hd⟩) n (n - labelLen lv - 1)
        (Rd.labelBitsOf lv ++ [true]) _ _ _ hb (fun _ _ => trivial)
      simp [h1, h2]
  · simp [hle, failC] at hn

/-- `S.load_hashmap(n, value_deserializer=rd)` against an inline `Hashmap n X` -/
theorem hashmapK {rd X w} (h : Refines rd X w) (n : Nat) (s : Frag) (v : Val) (s' : Frag) :
    ((hashmap n X).dec s = some (v, s')) ↔
      (Kept (hashmap n X) s v s' ∧ Rd.loadHashmap n rd false s = some (Rd.dict (flattenF w (n + 1) n [] v), s')) := by
  refine ⟨fun hd => ⟨hd, ?_⟩, fun hd => hd.1⟩
  have := dictWalkInline_sound X rd w h n s v s' hd
  simp [Rd.loadHashmap, this]

/-- the same with signed keys (`key_deserializer=… load_int(n)`) -/
theorem hashmapSK {rd X w} (h : Refines rd X w) (n : Nat) (s : Frag) (v : Val) (s' : Frag) :
    ((hashmap n X).dec s = some (v, s')) ↔
      (Kept (hashmap n X) s v s' ∧ Rd.loadHashmapS n rd false s = some (Rd.dictS (flattenF w (n + 1) n [] v), s')) := by
  refine ⟨fun hd => ⟨hd, ?_⟩, fun hd => hd.1⟩
  have := dictWalkInline_sound X rd w h n s v s' hd
  simp [Rd.loadHashmapS, this]

/-- `lambda src: src.load_ref().begin_parse()` against `^Cell` -/
theorem refines_refSlice : Refines Rd.refSlice cellRef (fun c => .con "slice" c) := by
  intro s v s' hd
  obtain ⟨b, c, more, rfl, rfl, rfl⟩ := (cellRef_dec s v s').1 hd
  simp [Rd.refSlice, loadRef_cons]

/-- `S.load_dict(n)` without a value_deserializer against ANY `HashmapE n X`: the keys, each with a raw Slice -/
theorem dictRawK (X : Codec) (n : Nat) (s : Frag) (v : Val) (s' : Frag) :
    ((hashmapE n X).dec s = some (v, s')) ↔
      (Kept (hashmapE n X) s v s' ∧ Rd.loadDictRaw n s = some (viewDictRaw n v, s')) := by
  have h : RefinesEP PT Rd.rawLeaf X (fun _ => .con "slice" .unit) := fun s v s' _ _ => ⟨s, rfl⟩
  exact ⟨fun hd => ⟨hd, (h.dictT n) s v s' hd trivial⟩, fun hd => hd.1⟩

/-! ### `Slice.load_hashmap_aug_e` : `HashmapAugE n X Y` -/

theorem get_extra_value_v (e v : Val) : (Val.record [("extra", e), ("value", v)]).get "value" = v := by
  simp [Val.get, List.lookup]
theorem get_extra_value_e (e v : Val) : (Val.record [("extra", e), ("value", v)]).get "extra" = e := by
  simp [Val.get, List.lookup]
theorem get_lre_l (a b e : Val) : (Val.record [("left", a), ("right", b), ("extra", e)]).get "left" = a := by
  simp [Val.get, List.lookup]
theorem get_lre_r (a b e : Val) : (Val.record [("left", a), ("right", b), ("extra", e)]).get "right" = b := by
  simp [Val.get, List.lookup]
theorem get_lre_e (a b e : Val) : (Val.record [("left", a), ("right", b), ("extra", e)]).get "extra" = e := by
  simp [Val.get, List.lookup]

/-- the augmented walk returns the entries and the extras of the decoded tree value -/
theorem augWalk_sound (X Y : Codec) (Q : Val → Prop) (x y : Frag → Rd.R) (wx wy : Val → Val)
    (hx : ∀ s v, X.dec s = some (v, ⟨[], []⟩) → Q v → ∃ k, x s = some (wx v, k))
    (hy : Refines y Y wy) :
    ∀ fuel n pfx b r tv, (hashmapAugF X Y fuel n).dec ⟨b, r⟩ = some (tv, ⟨[], []⟩) →
      (∀ p ∈ flattenAug id fuel n pfx tv, Q p.2) →
      Rd.augWalk x y fuel n pfx (Cell.mk false b r) = some (flattenAug wx fuel n pfx tv, extrasAug wy fuel n tv) := by
  intro fuel
  induction fuel with
  | zero => intro n pfx b r tv h; simp [hashmapAugF, failC] at h
  | succ fuel ih =>
    intro n pfx b r tv h hq
    simp only [hashmapAugF, recd_dec, fld, dep, decFields_cons, decFields_nil] at h
    obtain ⟨vs, ⟨lv, s1, hl, vs', ⟨nv, s2, hn, vs'', ⟨rfl, rfl⟩, rfl⟩, rfl⟩, rfl⟩ := h
    have hget : Env.get [("label", lv)] "label" = lv := by simp [Env.get, List.lookup]
    rw [hget] at hn
    simp only [flattenAug, extrasAug, get_label, get_node, id] at hq ⊢
    simp only [Rd.augWalk, Cell.exotic, Bool.false_eq_true, if_false, Cell.bits, Cell.refs, hl]
    unfold ahmNode at hn
    by_cases hle : labelLen lv ≤ n
    · simp only [hle, if_true] at hn
      by_cases hz : n - labelLen lv = 0
      · simp only [hz, if_true] at hn hq ⊢
        simp only [recd_dec, fld, decFields_cons, decFields_nil] at hn
        obtain ⟨vs, ⟨e, s3, he, vs', ⟨v, s4, hv, vs'', ⟨rfl, rfl⟩, rfl⟩, rfl⟩, rfl⟩ := hn
        simp only [get_extra_value_v, get_extra_value_e] at hq ⊢
        obtain ⟨k, hk⟩ := hx _ _ hv (hq _ (List.mem_singleton.2 rfl))
        simp [hy _ _ _ he, hk]
      · simp only [hz, if_false] at hn hq ⊢
        simp only [recd_dec, fld, decFields_cons, decFields_nil, ref_dec] at hn
        obtain ⟨vs, ⟨a, s3, ⟨bs, b0, r0, more, rfl, ha, rfl⟩, vs', ⟨bb, s4, ⟨bs', b1, r1, more', hs, hb, rfl⟩, vs'',
          ⟨e, s5, he, vs''', ⟨rfl, rfl⟩, rfl⟩, rfl⟩, rfl⟩, rfl⟩ := hn
        simp only [Frag.mk.injEq] at hs
        obtain ⟨rfl, rfl⟩ := hs
        simp only [get_lre_l, get_lre_r, get_lre_e] at hq ⊢
        have h1 := ih _ (pfx ++ Rd.labelBitsOf lv ++ [false]) _ _ _ ha
          (fun p hp => hq p (List.mem_append.2 (Or.inl hp)))
        have h2 := ih _ (pfx ++ Rd.labelBitsOf lv ++ [true]) _ _ _ hb
          (fun p hp => hq p (List.mem_append.2 (Or.inr hp)))
        simp only [List.append_assoc] at h1 h2 ⊢
        simp [h1, h2, hy _ _ _ he]
    · simp [hle, failC] at hn

/-- the leaf values of an augmented dictionary value satisfy `Q` -/
def AugLeaves (Q : Val → Prop) (n : Nat) : Val → Prop
  | .con "ahme_root" r => ∀ p ∈ flattenAug id (n + 1) n [] (r.get "root"), Q p.2
  | _ => True

theorem get_root (t e : Val) : (Val.record [("root", t), ("extra", e)]).get "root" = t := by simp [Val.get, List.lookup]
theorem get_root_extra (t e : Val) : (Val.record [("root", t), ("extra", e)]).get "extra" = e := by simp [Val.get, List.lookup]
theorem get_extra1 (e : Val) : (Val.record [("extra", e)]).get "extra" = e := by simp [Val.get, List.lookup]

/-- `S.load_hashmap_aug_e(n, x, y)` against `HashmapAugE n X Y` -/
theorem RefinesEP.augE {Q x X wx y Y wy} (hx : RefinesEP Q x X wx) (hy : Refines y Y wy) (n : Nat) :
    RefinesP (AugLeaves Q n) (Rd.loadHashmapAugE n x y false) (hashmapAugE n X Y) (viewAugE wx wy n) := by
  intro s v s' hd hp
  obtain ⟨bits, refs⟩ := s
  simp only [hashmapAugE, tagged_dec, decAlts_cons, decAlts_nil, recd_dec, fld, decFields_cons, decFields_nil, ref_dec, hashmapAug,
    withGen_dec] at hd
  obtain ⟨_, hd⟩ := hd
  rcases hd with ⟨t, rs, hs, xx, ⟨vs, ⟨e, s1, he, vs', ⟨rfl, rfl⟩, rfl⟩, rfl⟩, rfl⟩ |
    ⟨_, ⟨t, rs, hs, xx, ⟨vs, ⟨tv, s1, ⟨bs, b, r, more, hs2, hx', rfl⟩, vs', ⟨e, s2, he, vs'', ⟨rfl, rfl⟩, rfl⟩, rfl⟩, rfl⟩, rfl⟩ | ⟨_, hf⟩⟩
  rotate_left 2
  · exact hf.elim
  · simp only [Frag.mk.injEq] at hs
    obtain ⟨rfl, rfl⟩ := hs
    simp [Rd.loadHashmapAugE, loadBit_cons, Rd.truthy, viewAugE, hy _ _ _ he, get_extra1]
  · simp only [Frag.mk.injEq] at hs hs2
    obtain ⟨rfl, rfl⟩ := hs
    obtain ⟨rfl, rfl⟩ := hs2
    simp only [AugLeaves, get_root] at hp
    have := augWalk_sound X Y Q x y wx wy (fun s v hd hq => hx s v _ hd hq) hy (n + 1) n [] b r tv hx' hp
    simp [Rd.loadHashmapAugE, loadBit_cons, Rd.truthy, loadRef_cons, Cell.exotic, this, viewAugE, hy _ _ _ he, get_root]

theorem RefinesEP.augET {x X wx y Y wy} (hx : RefinesEP PT x X wx) (hy : Refines y Y wy) (n : Nat) :
    RefinesP PT (Rd.loadHashmapAugE n x y false) (hashmapAugE n X Y) (viewAugE wx wy n) :=
  (RefinesEP.augE hx hy n).mono (fun v _ => by unfold AugLeaves; split <;> simp)

theorem noVar_flattenAug (fuel n : Nat) (pfx : Bits) (tv : Val) (h : tv.noVar = true) :
    ∀ p ∈ flattenAug id fuel n pfx tv, p.2.noVar = true := by
  induction fuel generalizing n pfx tv with
  | zero => intro p hp; simp [flattenAug] at hp
  | succ fuel ih =>
    intro p hp
    simp only [flattenAug] at hp
    split at hp
    · simp only [List.mem_singleton] at hp
      subst hp
      exact noVar_get _ _ (noVar_get _ _ h)
    · rcases List.mem_append.1 hp with hp | hp
      · exact ih _ _ _ (noVar_get _ _ (noVar_get _ _ h)) p hp
      · exact ih _ _ _ (noVar_get _ _ (noVar_get _ _ h)) p hp

theorem augLeaves_of_noVar (n : Nat) (v : Val) (h : v.noVar = true) : AugLeaves PV n v := by
  unfold AugLeaves
  split
  · rename_i r
    simp only [Val.noVar, Bool.and_eq_true] at h
    exact noVar_flattenAug _ _ _ _ (noVar_get _ _ h.2)
  · trivial

theorem RefinesEP.augEV {x X wx y Y wy} (hx : RefinesEP PV x X wx) (hy : Refines y Y wy) (n : Nat) :
    RefinesP PV (Rd.loadHashmapAugE n x y false) (hashmapAugE n X Y) (viewAugE wx wy n) :=
  (RefinesEP.augE hx hy n).mono (augLeaves_of_noVar n)

/-- `HashmapAugE n X Y` read by `Rd.loadHashmapAugE n x y` -/
theorem augK {x X wx y Y wy} (hx : Refines x X wx) (hy : Refines y Y wy) (n : Nat) (s : Frag) (v : Val) (s' : Frag) :
    ((hashmapAugE n X Y).dec s = some (v, s')) ↔
      (Kept (hashmapAugE n X Y) s v s' ∧ Rd.loadHashmapAugE n x y false s = some (viewAugE wx wy n v, s')) :=
  ⟨fun hd => ⟨hd, (RefinesEP.augET (hx.toP PT).toE hy n) s v s' hd trivial⟩, fun hd => hd.1⟩

theorem augKV {x X wx y Y wy} (hx : RefinesEP PV x X wx) (hy : Refines y Y wy) (n : Nat) (s : Frag) (v : Val) (s' : Frag) :
    ((hashmapAugE n X Y).dec s = some (v, s')) ↔
      (Kept (hashmapAugE n X Y) s v s' ∧ (v.noVar = true → Rd.loadHashmapAugE n x y false s = some (viewAugE wx wy n v, s'))) :=
  ⟨fun hd => ⟨hd, (RefinesEP.augEV hx hy n) s v s' hd⟩, fun hd => hd.1⟩

/-! ### `Slice.load_hashmap_aug` : an inline `HashmapAug n X Y` -/

theorem augWalkInline_sound (X Y : Codec) (Q : Val → Prop) (x y : Frag → Rd.R) (wx wy : Val → Val)
    (hx : RefinesP Q x X wx) (hy : Refines y Y wy) (n : Nat) (s : Frag) (tv : Val) (s' : Frag)
    (h : (hashmapAugF X Y (n + 1) n).dec s = some (tv, s')) (hq : ∀ p ∈ flattenAug id (n + 1) n [] tv, Q p.2) :
    Rd.augWalkInline x y n s = some ((flattenAug wx (n + 1) n [] tv, extrasAug wy (n + 1) n tv), s') := by
  simp only [hashmapAugF, recd_dec, fld, dep, decFields_cons, decFields_nil] at h
  obtain ⟨vs, ⟨lv, s1, hl, vs', ⟨nv, s2, hn, vs'', ⟨rfl, rfl⟩, rfl⟩, rfl⟩, rfl⟩ := h
  have hget : Env.get [("label", lv)] "label" = lv := by simp [Env.get, List.lookup]
  rw [hget] at hn
  simp only [flattenAug, extrasAug, get_label, get_node, List.nil_append, id] at hq ⊢
  simp only [Rd.augWalkInline, hl]
  unfold ahmNode at hn
  by_cases hle : labelLen lv ≤ n
  · simp only [hle, if_true] at hn
    by_cases hz : n - labelLen lv = 0
    · simp only [hz, if_true] at hn hq ⊢
      simp only [recd_dec, fld, decFields_cons, decFields_nil] at hn
      obtain ⟨vs, ⟨e, s3, he, vs', ⟨v, s4, hv, vs'', ⟨rfl, rfl⟩, rfl⟩, rfl⟩, rfl⟩ := hn
      simp only [get_extra_value_v, get_extra_value_e] at hq ⊢
      have hk := hx _ _ _ hv (hq _ (List.mem_singleton.2 rfl))
      simp [hy _ _ _ he, hk]
    · simp only [hz, if_false] at hn hq ⊢
      simp only [recd_dec, fld, decFields_cons, decFields_nil, ref_dec] at hn
      obtain ⟨vs, ⟨a, s3, ⟨bs, b0, r0, more, rfl, ha, rfl⟩, vs', ⟨bb, s4, ⟨bs', b1, r1, more', hs, hb, rfl⟩, vs'',
        ⟨e, s5, he, vs''', ⟨rfl, rfl⟩, rfl⟩, rfl⟩, rfl⟩, rfl⟩ := hn
      simp only [Frag.mk.injEq] at hs
      obtain ⟨rfl, rfl⟩ := hs
      simp only [get_lre_l, get_lre_r, get_lre_e] at hq ⊢
      have hxe : ∀ s v, X.dec s = some (v, ⟨[], []⟩) → Q v → ∃ k, x s = some (wx v, k) := fun s v hd hqv => ⟨_, hx s v _ hd hqv⟩
      have h1 := augWalk_sound X Y Q x y wx wy hxe hy n (n - labelLen lv - 1) (Rd.labelBitsOf lv ++ [false]) _ _ _ ha
        (fun p hp => hq p (List.mem_append.2 (Or.inl hp)))
      have h2 := augWalk_sound X Y Q x y wx wy hxe hy n (n - labelLen lv - 1) (Rd.labelBitsOf lv ++ [true]) _ _ _ hb
        (fun p hp => hq p (List.mem_append.2 (Or.inr hp)))
      simp [h1, h2, hy _ _ _ he]
  · simp [hle, failC] at hn

/-- `S.load_hashmap_aug(n, x, y)` against an inline `HashmapAug n X Y` (no `addr_var` inside the value) -/
theorem augInlKV {x X wx y Y wy} (hx : RefinesP PV x X wx) (hy : Refines y Y wy) (n : Nat) (s : Frag) (v : Val) (s' : Frag) :
    ((hashmapAug n X Y).dec s = some (v, s')) ↔
      (Kept (hashmapAug n X Y) s v s' ∧ (v.noVar = true → Rd.loadHashmapAug n x y false s = some (viewAug wx wy n v, s'))) := by
  refine ⟨fun hd => ⟨hd, fun hv => ?_⟩, fun hd => hd.1⟩
  have := augWalkInline_sound X Y PV x y wx wy hx hy n s v s' hd (noVar_flattenAug _ _ _ _ hv)
  simp [Rd.loadHashmapAug, this, viewAug]

/-! ### `deserialize_shard_hashes` : `HashmapE 32 ^(BinTree X)` -/

theorem binTreeWalk_sound (X : Codec) (leaf : Bool → Frag → Rd.R) (w : Val → Val) (hleaf : RefinesEP PT (leaf false) X w) :
    ∀ fuel b r tv, (binTreeF X fuel).dec ⟨b, r⟩ = some (tv, ⟨[], []⟩) →
      Rd.binTreeWalk leaf fuel (Cell.mk false b r) = some (btLeaves w fuel tv) := by
  intro fuel
  induction fuel with
  | zero => intro b r tv h; simp [binTreeF, failC] at h
  | succ fuel ih =>
    intro b r tv h
    simp only [binTreeF, tagged_dec, decAlts_cons, decAlts_nil, recd_dec, fld, decFields_cons, decFields_nil, ref_dec] at h
    obtain ⟨_, h⟩ := h
    rcases h with ⟨t, rs, hs, x, hx, rfl⟩ |
      ⟨_, ⟨t, rs, hs, x, ⟨vs, ⟨a, s3, ⟨bs, b0, r0, more, hs2, ha, rfl⟩, vs', ⟨bb, s4, ⟨bs', b1, r1, more', hs3, hb, rfl⟩, vs'', ⟨rfl, hnil⟩, rfl⟩, rfl⟩, rfl⟩, rfl⟩ | ⟨_, hf⟩⟩
    rotate_left 2
    · exact hf.elim
    · simp only [Frag.mk.injEq] at hs
      obtain ⟨rfl, rfl⟩ := hs
      obtain ⟨k, hk⟩ := hleaf _ _ _ hx trivial
      simp [Rd.binTreeWalk, Cell.exotic, Cell.bits, Cell.refs, loadBit_cons, Rd.truthy, hk, btLeaves]
    · simp only [Frag.mk.injEq] at hs hs2 hs3
      obtain ⟨rfl, rfl⟩ := hs
      obtain ⟨rfl, rfl⟩ := hs2
      obtain ⟨rfl, rfl⟩ := hs3
      have h1 := ih _ _ _ ha
      have h2 := ih _ _ _ hb
      simp [Rd.binTreeWalk, Cell.exotic, Cell.bits, Cell.refs, loadBit_cons, Rd.truthy, h1, h2, btLeaves, get_left, get_right]

theorem refines_binTreeRef {X : Codec} {leaf : Bool → Frag → Rd.R} {w : Val → Val} (hleaf : RefinesEP PT (leaf false) X w) :
    Refines (Rd.binTreeRef leaf) (ref (binTree X)) (viewBinTree w) := by
  intro s v s' hd
  obtain ⟨bs, b, r, more, rfl, h2, rfl⟩ := (ref_dec _ s v s').1 hd
  have := binTreeWalk_sound X leaf w hleaf 64 b r v h2
  simp [Rd.binTreeRef, loadRef_cons, this, viewBinTree]

/-- `deserialize_shard_hashes` against `HashmapE 32 ^(BinTree X)` -/
theorem shardHashesK {X : Codec} {leaf : Bool → Frag → Rd.R} {w : Val → Val} (hleaf : RefinesEP PT (leaf false) X w)
    (s : Frag) (v : Val) (s' : Frag) :
    ((hashmapE 32 (ref (binTree X))).dec s = some (v, s')) ↔
      (Kept (hashmapE 32 (ref (binTree X))) s v s' ∧ Rd.loadShardHashes leaf s = some (viewDict (viewBinTree w) 32 v, s')) :=
  dictK (refines_binTreeRef hleaf) 32 s v s'

theorem loadMaybeRef_eq_optional (s : Frag) : Rd.loadMaybeRef s = Rd.optional s Rd.loadRefV := rfl

/-! ### a `HashmapAugE` kept as its root cell (`McBlockExtra.shard_fees`) -/

/-- `load_maybe_ref()` + two CurrencyCollections against `ShardFees` = `HashmapAugE 96 ShardFeeCreated ShardFeeCreated`: the Maybe
    reference is the root (by presence), the two CurrencyCollections are the top-level `extra:ShardFeeCreated` -/
theorem shardFeesK {r : Frag → Rd.R} {w} (hcc : Refines r currencyCollection w) (s : Frag) (v : Val) (s' : Frag) :
    (shardFees.dec s = some (v, s')) ↔
      (Kept shardFees s v s' ∧ ∃ c s1 e1 s2 e2, Rd.loadMaybeRef s = some (c, s1) ∧ Rd.presence c = presenceOfAugE v ∧
        r s1 = some (e1, s2) ∧ r s2 = some (e2, s')) := by
  refine ⟨fun hd => ⟨hd, ?_⟩, fun hd => hd.1⟩
  obtain ⟨bits, refs⟩ := s
  simp only [shardFees, typ_dec, hashmapAugE, shardFeeCreated, tagged_dec, decAlts_cons, decAlts_nil, recd_dec, fld, decFields_cons,
    decFields_nil, ref_dec] at hd
  obtain ⟨_, hd⟩ := hd
  rcases hd with ⟨t, rs, hs, xx, ⟨vs, ⟨e, s1, ⟨vs2, ⟨a, s2, ha, vs3, ⟨b, s3, hb, vs4, ⟨rfl, rfl⟩, rfl⟩, rfl⟩, rfl⟩, vs', ⟨rfl, rfl⟩, rfl⟩, rfl⟩, rfl⟩ |
    ⟨_, ⟨t, rs, hs, xx, ⟨vs, ⟨tv, s1, ⟨bs, b0, r0, more, hs2, hx', rfl⟩, vs', ⟨e, s2, ⟨vs2, ⟨a, s3, ha, vs3, ⟨b, s4, hb, vs4, ⟨rfl, rfl⟩, rfl⟩, rfl⟩, rfl⟩, vs'', ⟨rfl, rfl⟩, rfl⟩, rfl⟩, rfl⟩, rfl⟩ | ⟨_, hf⟩⟩
  rotate_left 2
  · exact hf.elim
  · simp only [Frag.mk.injEq] at hs
    obtain ⟨rfl, rfl⟩ := hs
    exact ⟨.unit, _, _, _, _, by simp [Rd.loadMaybeRef, loadBit_cons, Rd.truthy], rfl, hcc _ _ _ ha, hcc _ _ _ hb⟩
  · simp only [Frag.mk.injEq] at hs hs2
    obtain ⟨rfl, rfl⟩ := hs
    obtain ⟨rfl, rfl⟩ := hs2
    exact ⟨.cell (Cell.mk false b0 r0), _, _, _, _, by simp [Rd.loadMaybeRef, loadBit_cons, Rd.truthy, Rd.loadRefV, loadRef_cons], rfl,
      hcc _ _ _ ha, hcc _ _ _ hb⟩

end TonVerif.Tlb.Blk
