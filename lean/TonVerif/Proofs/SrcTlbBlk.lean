/-
C16 source tie, third part — generation-independent lemmas, continuing Proofs/SrcTlb.lean and Proofs/SrcTlbTx.lean.

New here: the JOINED `if` of the translator (`if c: x = <reads>` followed by more statements = ONE conditional `let`, the continuation
translated once) against a conditional schema field `c ? X` (`dep … (if … then X else nothing)`): `condK` / `condRefK` turn the decoder fact
into what the conditional `let` returns, so a parser with k conditional fields is ONE straight-line evaluation (BlockInfo: 3 conditional
fields + `BlkPrevInfo after_merge`, no case split at all); evaluation of `Env.nat` on the record environment (`envNat_cons`); integer
comparisons of the parsers (`Rd.vle`, `Rd.lowBit`) on decoded naturals and one-bit numbers.
-/
import TonVerif.Proofs.SrcTlbParsersTx
import TonVerif.Spec.Tlb.PyViewBlk

namespace TonVerif.Tlb.Blk
open TonVerif TonVerif.Tlb

theorem vle_nat_nat (a b : Nat) : Rd.vle (.int a) (.int b) = some (decide (a ≤ b)) := by
  simp [Rd.vle, Rd.toInt]
theorem vle_one_nat (b : Nat) : Rd.vle (.int 1) (.int b) = some (decide (1 ≤ b)) := by
  simp only [Rd.vle, Rd.toInt, Option.bind_eq_bind, Option.bind_some, Option.pure_def]
  congr 1; simp; omega
theorem vle_nat_one (a : Nat) : Rd.vle (.int a) (.int 1) = some (decide (a ≤ 1)) := by
  simp only [Rd.vle, Rd.toInt, Option.bind_eq_bind, Option.bind_some, Option.pure_def]
  congr 1; simp; omega

/-- the number `Env.nat` reads off a field value -/
def natOf : Val → Nat
  | .int i => i.toNat
  | .bool true => 1
  | _ => 0

theorem natOf_nat (k : Nat) : natOf (.int k) = k := by simp [natOf]

theorem envNat_cons (k : String) (v : Val) (e : Env) (n : String) :
    Env.nat ((k, v) :: e) n = if n == k then natOf v else Env.nat e n := by
  simp only [Env.nat, List.lookup, natOf]
  cases h : n == k
  · simp
  · cases v with
    | bool b => cases b <;> rfl
    | _ => rfl

/-- the decoded value is a natural number (what `uint n` decodes to) -/
def IsNat (v : Val) : Prop := ∃ k : Nat, v = .int k

theorem isNat_nat (k : Nat) : IsNat (.int k) := ⟨k, rfl⟩

/-- `uint_keep` that also remembers that the value is a natural number (for parsers that compare two decoded fields) -/
theorem uint_keepN (n : Nat) (s : Frag) (v : Val) (s' : Frag) :
    ((uint n).dec s = some (v, s')) ↔ (Kept (uint n) s v s' ∧ (n ≠ 0 → Rd.loadUint n s = some (v, s')) ∧ IsNat v) :=
  ⟨fun h => ⟨h, fun hn => refines_uint n hn s v s' h, Tx.uint_dec_nat n s v s' h⟩, fun h => h.1⟩

theorem vle_nat_isNat (m : Nat) (v : Val) (hv : IsNat v) (h : m ≤ natOf v) : Rd.vle (.int m) v = some true := by
  obtain ⟨k, rfl⟩ := hv
  simp only [natOf_nat] at h
  simp [Rd.vle, Rd.toInt, h]

theorem lowBit_nat (n : Nat) : Rd.lowBit (.int n) = some (n % 2 == 1) := by
  simp only [Rd.lowBit, Rd.toInt, Option.bind_eq_bind, Option.bind_some, Option.pure_def]
  have : ¬ ((n : Int) < 0) := by omega
  simp only [this, if_false, Option.some.injEq]
  have h2 : ((n : Int) % 2 == 1) = (n % 2 == 1) := by
    rw [Bool.eq_iff_iff]; simp; omega
  exact h2

theorem bitInt_toNat (b : Bool) : natOf (.int (if b = true then (1 : Int) else 0)) = if b = true then 1 else 0 := by
  cases b <;> simp [natOf]

theorem bit_eq_one (b : Bool) : ((if b = true then 1 else 0) = 1) = (b = true) := by cases b <;> simp

theorem vle_bit_nat (b : Bool) (n : Nat) : Rd.vle (.int (if b = true then 1 else 0)) (.int n) = some (decide ((if b = true then 1 else 0) ≤ n)) := by
  cases b <;> simp [Rd.vle, Rd.toInt]
  omega

/-- a conditional field `p ? X` read by a joined `if` -/
def KeptIf (p : Prop) [Decidable p] (c : Codec) (s : Frag) (v : Val) (s' : Frag) : Prop :=
  (if p then c.dec s else nothing.dec s) = some (v, s')

theorem condK {r : Frag → Rd.R} {c w} (h : Refines r c w) (hn : NonUnit c) (p : Prop) [Decidable p] (s : Frag) (v : Val) (s' : Frag) :
    ((if p then c.dec s else nothing.dec s) = some (v, s')) ↔
      (KeptIf p c s v s' ∧ (if p then r s else some (.unit, s)) = some (viewMaybe w v, s')) := by
  refine ⟨fun hd => ⟨hd, ?_⟩, fun hd => hd.1⟩
  by_cases hp : p
  · simp only [hp, if_true] at hd ⊢
    have := hn _ _ _ hd
    rw [h _ _ _ hd]
    cases v <;> simp_all [viewMaybe]
  · simp only [hp, if_false] at hd ⊢
    obtain ⟨rfl, rfl⟩ := (nothing_dec _ _ _).1 hd
    rfl

theorem condRefK {r : Bool → Frag → Rd.R} {c w} (h : Refines (r false) c w) (hn : NonUnit c) (p : Prop) [Decidable p] (s : Frag) (v : Val)
    (s' : Frag) :
    ((if p then (ref c).dec s else nothing.dec s) = some (v, s')) ↔
      (KeptIf p (ref c) s v s' ∧ (if p then Rd.viaRef r s else some (.unit, s)) = some (viewMaybe w v, s')) :=
  condK (r := Rd.viaRef r) ((h.toP PT).toE.viaRef).toRefines (nonUnit_ref c hn) p s v s'

theorem bind_some_eta (x : Rd.R) : (Option.bind x fun p => some (p.fst, p.snd)) = x := by cases x <;> rfl

theorem viaRef_eq_bind (r : Bool → Frag → Rd.R) (s : Frag) :
    ((Rd.loadRef s).bind fun x => Option.bind (r (Rd.special x.fst) (Rd.beginParse x.fst)) fun y => some (y.fst, x.snd)) = Rd.viaRef r s := by
  simp only [Rd.viaRef]
  cases Rd.loadRef s with
  | none => rfl
  | some p =>
    simp only [Option.bind_some]
    cases r (Rd.special p.fst) (Rd.beginParse p.fst) <;> rfl

theorem viaRef_eq_bind1 (r : Bool → Frag → Val → Rd.R) (a : Val) (s : Frag) :
    ((Rd.loadRef s).bind fun x => Option.bind (r (Rd.special x.fst) (Rd.beginParse x.fst) a) fun y => some (y.fst, x.snd)) =
      Rd.viaRef (fun sp s => r sp s a) s := viaRef_eq_bind (fun sp s => r sp s a) s

theorem special_mk (e : Bool) (b : Bits) (r : List Cell) : Rd.special (Cell.mk e b r) = e := rfl
theorem beginParse_mk (e : Bool) (b : Bits) (r : List Cell) : Rd.beginParse (Cell.mk e b r) = ⟨b, r⟩ := rfl

/-! ### `Slice.load_hashmap` : an inline `Hashmap n X` -/

/-- the Patricia walk started on the slice itself returns the entries of the decoded tree value, in order, and leaves what the
    spec decoder leaves -/
theorem dictWalkInline_sound (X : Codec) (rd : Frag → Rd.R) (w : Val → Val) (hrd : Refines rd X w) (n : Nat) (s : Frag) (tv : Val)
    (s' : Frag) (h : (hashmapF X (n + 1) n).dec s = some (tv, s')) :
    Rd.dictWalkInline rd n s = some (flattenF w (n + 1) n [] tv, s') := by
  simp only [hashmapF, recd_dec, fld, dep, decFields_cons, decFields_nil] at h
  obtain ⟨vs, ⟨lv, s1, hl, vs', ⟨nv, s2, hn, vs'', ⟨rfl, rfl⟩, rfl⟩, rfl⟩, rfl⟩ := h
  have hget : Env.get [("label", lv)] "label" = lv := by simp [Env.get, List.lookup]
  rw [hget] at hn
  simp only [flattenF, get_label, get_node, List.nil_append]
  simp only [Rd.dictWalkInline, hl]
  unfold hmNode at hn
  by_cases hle : labelLen lv ≤ n
  · simp only [hle, if_true] at hn
    by_cases hz : n - labelLen lv = 0
    · simp only [hz, if_true] at hn ⊢
      simp [hrd _ _ _ hn]
    · simp only [hz, if_false] at hn ⊢
      simp only [recd_dec, fld, decFields_cons, decFields_nil, ref_dec] at hn
      obtain ⟨vs, ⟨a, s3, ⟨bs, b0, r0, more, rfl, ha, rfl⟩, vs', ⟨bb, s4, ⟨bs', b1, r1, more', hs, hb, rfl⟩, vs'', ⟨rfl, rfl⟩, rfl⟩, rfl⟩, rfl⟩ := hn
      simp only [Frag.mk.injEq] at hs
      obtain ⟨rfl, rfl⟩ := hs
      simp only [get_left, get_right]
      have h1 := dictWalk_sound X (fun _ => True) rd w (fun s v hd _ => ⟨_, hrd s v _ hd⟩) n (n - labelLen lv - 1)
        (Rd.labelBitsOf lv ++ [false]) _ _ _ ha (fun _ _ => trivial)
      have h2 := dictWalk_sound X (fun _ => True) rd w (fun s v hd _ => ⟨_, hrd s v _ hd⟩) n (n - labelLen lv - 1)
        (Rd.labelBitsOf lv ++ [true]) _ _ _ hb (fun _ _ => trivial)
      simp [h1, h2]
  · simp [hle, failC] at hn

/-- `S.load_hashmap(n, value_deserializer=rd)` against an inline `Hashmap n X` -/
theorem hashmapK {rd X w} (h : Refines rd X w) (n : Nat) (s : Frag) (v : Val) (s' : Frag) :
    ((hashmap n X).dec s = some (v, s')) ↔
      (Kept (hashmap n X) s v s' ∧ Rd.loadHashmap n rd false s = some (Rd.dict (flattenF w (n + 1) n [] v), s')) := by
  refine ⟨fun hd => ⟨hd, ?_⟩, fun hd => hd.1⟩
  have := dictWalkInline_sound X rd w h n s v s' hd
  simp [Rd.loadHashmap, this]

end TonVerif.Tlb.Blk
