/-
Helper lemmas for C14 (TL): little-endian numbers, framing of byte strings, table lookups.
-/
import TonVerif.Model.Tl

namespace TonVerif.Proofs.Tl
open TonVerif TonVerif.Spec.Tl TonVerif.Model.Tl

/-! ### little-endian numbers -/

@[simp] theorem natToLE_length (w v : Nat) : (natToLE w v).length = w := by
  induction w generalizing v with
  | zero => rfl
  | succ w ih => simp [natToLE, ih]

theorem natOfLE_natToLE (w v : Nat) : natOfLE (natToLE w v) = v % 256 ^ w := by
  induction w generalizing v with
  | zero => simp [natToLE, natOfLE, Nat.mod_one]
  | succ w ih =>
    simp only [natToLE, natOfLE, ih]
    rw [Nat.pow_succ, Nat.mul_comm (256 ^ w) 256, Nat.mod_mul]

theorem natOfLE_natToLE_lt (w v : Nat) (h : v < 256 ^ w) : natOfLE (natToLE w v) = v := by
  rw [natOfLE_natToLE, Nat.mod_eq_of_lt h]

theorem natToLE_wf (w v : Nat) : Bytes.WF (natToLE w v) := by
  induction w generalizing v with
  | zero => intro b hb; simp [natToLE] at hb
  | succ w ih =>
    intro b hb
    simp only [natToLE, List.mem_cons] at hb
    rcases hb with rfl | hb
    · omega
    · exact ih _ b hb

theorem take_append_len {α} (a b : List α) (n : Nat) (h : a.length = n) : (a ++ b).take n = a := by
  subst h; simp

theorem drop_append_len {α} (a b : List α) (n : Nat) (h : a.length = n) : (a ++ b).drop n = b := by
  subst h; simp

/-! ### framing -/

theorem padLen_eq (n : Nat) : padLen n = if n % 4 ≠ 0 then 4 - n % 4 else 0 := by
  unfold padLen; split <;> omega

/-- the code's framing (`<= 253`, pad by `len % 4`) is the TL framing. -/
theorem frame_eq_encodeBytes (b : Bytes) : frame b = encodeBytes b := by
  unfold frame encodeBytes
  by_cases h : b.length < 254
  · have h' : b.length ≤ 253 := by omega
    simp only [h, h', if_true, natToLE, List.length_append, List.length_cons, List.length_nil, padLen_eq]
    have : b.length % 256 = b.length := by omega
    rw [this]
    split <;> simp_all
  · have h' : ¬ b.length ≤ 253 := by omega
    simp only [h, h', if_false, List.length_append, List.length_cons, natToLE_length, padLen_eq]
    split <;> simp_all

theorem encodeBytes_length_mod4 (b : Bytes) : (encodeBytes b).length % 4 = 0 := by
  unfold encodeBytes
  simp only [List.length_append, List.length_replicate]
  unfold padLen
  omega

theorem natToLE3 (v : Nat) : natToLE 3 v = [v % 256, v / 256 % 256, v / 256 / 256 % 256] := by
  simp [natToLE]

/-- the framing reader inverts the framing for every length below 2^24, whatever follows. -/
theorem readFrame_encodeBytes (b rest : Bytes) (hl : b.length < 2 ^ 24) :
    readFrame (encodeBytes b ++ rest) = (b, b.length, (encodeBytes b).length) := by
  unfold readFrame encodeBytes
  by_cases h : b.length < 254
  · have hne : b.length ≠ 254 := by omega
    simp only [h, if_true, List.cons_append, List.nil_append, List.append_assoc, List.take_succ_cons, List.take_zero,
      List.cons.injEq, hne, and_true, if_false, natOfLE, Nat.mul_zero, Nat.add_zero, List.drop_succ_cons, List.drop_zero,
      List.length_cons, List.length_nil, List.length_append, List.length_replicate, padLen_eq]
    rw [take_append_len b _ _ rfl]
    have e : (0 + 1 + b.length) = b.length + 1 := by omega
    rw [e]
    split <;> simp <;> omega
  · simp only [h, if_false, List.cons_append, List.append_assoc, List.take_succ_cons, List.take_zero, if_true,
      List.drop_succ_cons, List.drop_zero]
    have h3 : (natToLE 3 b.length ++ (b ++ (List.replicate (padLen ((254 :: natToLE 3 b.length).length + b.length)) 0 ++ rest))).take 3
        = natToLE 3 b.length := take_append_len _ _ _ (natToLE_length 3 _)
    rw [h3, natOfLE_natToLE_lt 3 _ (by simpa using hl)]
    have h4 : (natToLE 3 b.length ++ (b ++ (List.replicate (padLen ((254 :: natToLE 3 b.length).length + b.length)) 0 ++ rest))).drop 3
        = b ++ (List.replicate (padLen ((254 :: natToLE 3 b.length).length + b.length)) 0 ++ rest) :=
      drop_append_len _ _ _ (natToLE_length 3 _)
    rw [h4, take_append_len b _ _ rfl]
    simp only [List.length_cons, natToLE_length, List.length_append, List.length_replicate, padLen_eq]
    have e : (3 + 1 + b.length) = b.length + 4 := by omega
    rw [e]
    split <;> simp <;> omega

/-! ### Python int <-> bytes -/

theorem intLE_length (w : Nat) (i : Int) : (intLE w i).length = w := by simp [intLE]

theorem intOfLE_intLE4 (i : Int) (h1 : -2^31 ≤ i) (h2 : i < 2^31) : intOfLE (intLE 4 i) = i := by
  unfold intOfLE
  simp only [intLE_length]
  unfold intLE
  rw [natOfLE_natToLE]
  simp only [Nat.reducePow, Nat.reduceMul, Nat.reduceSub]
  split <;> omega

theorem intOfLE_intLE8 (i : Int) (h1 : -2^63 ≤ i) (h2 : i < 2^63) : intOfLE (intLE 8 i) = i := by
  unfold intOfLE
  simp only [intLE_length]
  unfold intLE
  rw [natOfLE_natToLE]
  simp only [Nat.reducePow, Nat.reduceMul, Nat.reduceSub]
  split <;> omega

theorem natOfLE_intLE4 (i : Int) (h1 : 0 ≤ i) (h2 : i < 2^32) : (natOfLE (intLE 4 i) : Int) = i := by
  unfold intLE
  rw [natOfLE_natToLE]
  simp only [Nat.reducePow]
  omega

theorem intToLE?_4 (i : Int) (h1 : -2^31 ≤ i) (h2 : i < 2^31) : intToLE? 4 i = some (intLE 4 i) := by
  unfold intToLE?
  simp only [Nat.reduceMul, Nat.reduceSub]
  rw [if_pos ⟨by omega, by omega⟩]

theorem intToLE?_8 (i : Int) (h1 : -2^63 ≤ i) (h2 : i < 2^63) : intToLE? 8 i = some (intLE 8 i) := by
  unfold intToLE?
  simp only [Nat.reduceMul, Nat.reduceSub]
  rw [if_pos ⟨by omega, by omega⟩]

theorem natToLE?_4 (i : Int) (h1 : 0 ≤ i) (h2 : i < 2^32) : natToLE? 4 i = some (intLE 4 i) := by
  unfold natToLE?
  simp only [Nat.reduceMul]
  rw [if_pos ⟨by omega, by omega⟩]

theorem intLE_ofNat (n : Nat) (h : n < 2^32) : intLE 4 (n : Int) = natToLE 4 n := by
  unfold intLE
  congr 1
  simp only [Nat.reducePow]
  omega

/-! ### the serialiser emits the TL encoding -/

def SerOK (T : Table) (fuel : Nat) : Item → Bytes → Prop
  | .one e _ v, bs => serOne T (serObj T fuel) e v = some bs
  | .many e vs, bs => serMany (serOne T (serObj T fuel) e) vs = some bs
  | .field a v, bs => serArg T (serObj T fuel) a v = some bs
  | .body args whole, bs => serBody T (serObj T fuel) args whole = some bs

theorem succ_of_le {N fuel : Nat} (h : N + 1 ≤ fuel) : ∃ k, fuel = k + 1 ∧ N ≤ k := ⟨fuel - 1, by omega, by omega⟩

theorem wire (T : Table) (P : Bytes → Prop) {item : Item} {bs : Bytes} (h : Enc T P item bs) :
    ∃ N, ∀ fuel, N ≤ fuel → SerOK T fuel item bs := by
  induction h with
  | int h1 h2 => exact ⟨0, fun fuel _ => by simp [SerOK, serOne, serFixed, fixedLen, intToLE?_4 _ h1 h2]⟩
  | long h1 h2 => exact ⟨0, fun fuel _ => by simp [SerOK, serOne, serFixed, fixedLen, intToLE?_8 _ h1 h2]⟩
  | nat h1 h2 => exact ⟨0, fun fuel _ => by simp [SerOK, serOne, serFixed, fixedLen, natToLE?_4 _ h1 h2]⟩
  | int128 h1 h2 => exact ⟨0, fun fuel _ => by simp [SerOK, serOne, serFixed]⟩
  | int256 h1 h2 => exact ⟨0, fun fuel _ => by simp [SerOK, serOne, serFixed]⟩
  | boolT => exact ⟨0, fun fuel _ => by simp [SerOK, serOne, serFixed, boolTrueId, natToLE]⟩
  | boolF => exact ⟨0, fun fuel _ => by simp [SerOK, serOne, serFixed, boolFalseId, natToLE]⟩
  | bytes h1 h2 h3 => exact ⟨0, fun fuel _ => by simp [SerOK, serOne, frame_eq_encodeBytes]⟩
  | string h1 h2 h3 h4 => exact ⟨0, fun fuel _ => by simp [SerOK, serOne, frame_eq_encodeBytes]⟩
  | bare hn hc hb ih =>
    obtain ⟨N, hN⟩ := ih
    refine ⟨N + 1, fun fuel hf => ?_⟩
    obtain ⟨k, rfl, hk⟩ := succ_of_le hf
    have := hN k hk
    simp only [SerOK] at this
    simp [SerOK, serOne, hn, objFields?, serObj, this]
  | boxed hm hn hc hb ih =>
    obtain ⟨N, hN⟩ := ih
    refine ⟨N + 1, fun fuel hf => ?_⟩
    obtain ⟨k, rfl, hk⟩ := succ_of_le hf
    have := hN k hk
    simp only [SerOK] at this
    simp only [SerOK, serOne]
    rename_i iv cl c fs bs
    cases hcl : T.byClass cl with
    | nil => rw [hcl] at hm; cases hm
    | cons c0 rest =>
      cases rest with
      | nil =>
        rw [hcl] at hm
        simp only [List.mem_singleton] at hm
        subst hm
        simp [objFields?, serObj, this]
      | cons c1 rest => simp [hn, serObj, this]
  | manyNil => exact ⟨0, fun fuel _ => by simp [SerOK, serMany]⟩
  | manyCons h1 h2 ih1 ih2 =>
    obtain ⟨N1, hN1⟩ := ih1
    obtain ⟨N2, hN2⟩ := ih2
    refine ⟨max N1 N2, fun fuel hf => ?_⟩
    have a := hN1 fuel (by omega)
    have b := hN2 fuel (by omega)
    simp only [SerOK] at a b
    simp [SerOK, serMany, a, b]
  | scalar hv h1 ih =>
    obtain ⟨N, hN⟩ := ih
    refine ⟨N, fun fuel hf => ?_⟩
    have a := hN fuel hf
    simp only [SerOK] at a
    simp [SerOK, serArg, hv, a]
  | vector hv hl hb h1 ih =>
    obtain ⟨N, hN⟩ := ih
    refine ⟨N, fun fuel hf => ?_⟩
    have a := hN fuel hf
    simp only [SerOK] at a
    rename_i a0 vs bs
    have e : natToLE? 4 (vs.length : Int) = some (natToLE 4 vs.length) := by
      rw [natToLE?_4 _ (by omega) (by omega), intLE_ofNat _ hl]
    simp [SerOK, serArg, hv, a, e]
  | bodyNil => exact ⟨0, fun fuel _ => by simp [SerOK, serBody]⟩
  | bodyReq hc hl h1 h2 ih1 ih2 =>
    obtain ⟨N1, hN1⟩ := ih1
    obtain ⟨N2, hN2⟩ := ih2
    refine ⟨max N1 N2, fun fuel hf => ?_⟩
    have a := hN1 fuel (by omega)
    have b := hN2 fuel (by omega)
    simp only [SerOK] at a b
    simp [SerOK, serBody, hl, a, b]
  | bodyOn hc hf h0 hb hl h1 h2 ih1 ih2 =>
    obtain ⟨N1, hN1⟩ := ih1
    obtain ⟨N2, hN2⟩ := ih2
    refine ⟨max N1 N2, fun fuel hf => ?_⟩
    have a := hN1 fuel (by omega)
    have b := hN2 fuel (by omega)
    simp only [SerOK] at a b
    simp [SerOK, serBody, hl, a, b]
  | bodyOff hc hf h0 hb hl h1 ih =>
    obtain ⟨N, hN⟩ := ih
    refine ⟨N, fun fuel hf => ?_⟩
    have a := hN fuel hf
    simp only [SerOK] at a
    simp [SerOK, serBody, hl, hc, a]

/-! ### table conditions, flag lookup -/

/-- the flags variable of every conditional field precedes it and is what `result.get('mode', result.get('flags'))` finds. -/
def condOK (T : Table) : List Arg → List Arg → Bool
  | _, [] => true
  | pre, a :: as =>
    (match a.cond with
      | none => true
      | some (fl, _) =>
        pre.any (fun f => f.name == fl) &&
          (fl == T.modeKey || (fl == T.flagsKey && pre.all (fun f => f.name != T.modeKey)))) &&
    condOK T (pre ++ [a]) as

def ctorOK (T : Table) (c : Ctor) : Bool :=
  decide (c.id < 2 ^ 32) && condOK T [] c.args &&
    (match T.byId c.id with
      | some c' => c'.name == c.name && c'.args == c.args
      | none => false)

def TableOK (T : Table) : Prop := ∀ c ∈ T.ctors, ctorOK T c = true

theorem lookup_canonFields (pre : List Arg) (whole : Fields) (k : Nat) :
    (canonFields pre whole).lookup k = if pre.any (fun f => f.name == k) then whole.lookup k else none := by
  induction pre with
  | nil => simp [canonFields]
  | cons a pre ih =>
    unfold canonFields at ih ⊢
    simp only [List.filterMap_cons, List.any_cons]
    cases hl : whole.lookup a.name with
    | none =>
      simp only [Option.map_none, ih]
      by_cases hk : a.name = k
      · subst hk; simp [hl]
      · have : (a.name == k) = false := by simpa using hk
        simp [this]
    | some v =>
      simp only [Option.map_some, List.lookup_cons, ih]
      by_cases hk : a.name = k
      · subst hk; simp [hl]
      · have h1 : (a.name == k) = false := by simpa using hk
        have h2 : (k == a.name) = false := by simpa using (fun h => hk h.symm)
        simp [h1, h2]

theorem canonFields_append (p q : List Arg) (whole : Fields) :
    canonFields (p ++ q) whole = canonFields p whole ++ canonFields q whole := by
  simp [canonFields, List.filterMap_append]

theorem flagVal_canon (T : Table) (pre : List Arg) (whole : Fields) (fl : Nat) (x : Val)
    (h1 : pre.any (fun f => f.name == fl) = true)
    (h2 : (fl == T.modeKey || (fl == T.flagsKey && pre.all (fun f => f.name != T.modeKey))) = true)
    (hl : whole.lookup fl = some x) : flagVal T (canonFields pre whole) = some x := by
  unfold flagVal
  rw [lookup_canonFields, lookup_canonFields]
  simp only [Bool.or_eq_true, Bool.and_eq_true, beq_iff_eq] at h2
  rcases h2 with h2 | ⟨h2, h3⟩
  · subst h2; simp [h1, hl]
  · subst h2
    have : pre.any (fun f => f.name == T.modeKey) = false := by
      simp only [List.all_eq_true, bne_iff_ne, ne_eq] at h3
      simp only [List.any_eq_false, beq_iff_eq]
      exact fun f hf => h3 f hf
    simp [this, h1, hl]

end TonVerif.Proofs.Tl
