/-
Helper lemmas for C14 (TL): little-endian numbers, framing of byte strings, table lookups.
-/
import TonVerif.Model.Tl

namespace TonVerif.Proofs.Tl
open TonVerif TonVerif.Spec.Tl TonVerif.Model.Tl

/-! ### little-endian numbers -/

@[simp] theorem natToLE_length (w v : Nat) : (natToLE w v).length = w := by
  induction w generalizing v with
  | zero => rfl
  | succ w ih => simp [natToLE, ih]

theorem natOfLE_natToLE (w v : Nat) : natOfLE (natToLE w v) = v % 256 ^ w := by
  induction w generalizing v with
  | zero => simp [natToLE, natOfLE, Nat.mod_one]
  | succ w ih =>
    simp only [natToLE, natOfLE, ih]
    rw [Nat.pow_succ, Nat.mul_comm (256 ^ w) 256, Nat.mod_mul]

theorem natOfLE_natToLE_lt (w v : Nat) (h : v < 256 ^ w) : natOfLE (natToLE w v) = v := by
  rw [natOfLE_natToLE, Nat.mod_eq_of_lt h]

theorem natToLE_wf (w v : Nat) : Bytes.WF (natToLE w v) := by
  induction w generalizing v with
  | zero => intro b hb; simp [natToLE] at hb
  | succ w ih =>
    intro b hb
    simp only [natToLE, List.mem_cons] at hb
    rcases hb with rfl | hb
    · omega
    · exact ih _ b hb

theorem take_append_len {α} (a b : List α) (n : Nat) (h : a.length = n) : (a ++ b).take n = a := by
  subst h; simp

theorem drop_append_len {α} (a b : List α) (n : Nat) (h : a.length = n) : (a ++ b).drop n = b := by
  subst h; simp

/-! ### framing -/

theorem padLen_eq (n : Nat) : padLen n = if n % 4 ≠ 0 then 4 - n % 4 else 0 := by
  unfold padLen; split <;> omega

/-- the code's framing (`<= 253`, pad by `len % 4`) is the TL framing. -/
theorem frame_eq_encodeBytes (b : Bytes) : frame b = encodeBytes b := by
  unfold frame encodeBytes
  by_cases h : b.length < 254
  · have h' : b.length ≤ 253 := by omega
    simp only [h, h', if_true, natToLE, List.length_append, List.length_cons, List.length_nil, padLen_eq]
    have : b.length % 256 = b.length := by omega
    rw [this]
    split <;> simp_all
  · have h' : ¬ b.length ≤ 253 := by omega
    simp only [h, h', if_false, List.length_append, List.length_cons, natToLE_length, padLen_eq]
    split <;> simp_all

theorem encodeBytes_length_mod4 (b : Bytes) : (encodeBytes b).length % 4 = 0 := by
  unfold encodeBytes
  simp only [List.length_append, List.length_replicate]
  unfold padLen
  omega

theorem natToLE3 (v : Nat) : natToLE 3 v = [v % 256, v / 256 % 256, v / 256 / 256 % 256] := by
  simp [natToLE]

/-- the framing reader inverts the framing for every length below 2^24, whatever follows. -/
theorem readFrame_encodeBytes (b rest : Bytes) (hl : b.length < 2 ^ 24) :
    readFrame (encodeBytes b ++ rest) = (b, b.length, (encodeBytes b).length) := by
  unfold readFrame encodeBytes
  by_cases h : b.length < 254
  · have hne : b.length ≠ 254 := by omega
    simp only [h, if_true, List.cons_append, List.nil_append, List.append_assoc, List.take_succ_cons, List.take_zero,
      List.cons.injEq, hne, and_true, if_false, natOfLE, Nat.mul_zero, Nat.add_zero, List.drop_succ_cons, List.drop_zero,
      List.length_cons, List.length_nil, List.length_append, List.length_replicate, padLen_eq]
    rw [take_append_len b _ _ rfl]
    have e : (0 + 1 + b.length) = b.length + 1 := by omega
    rw [e]
    split <;> simp <;> omega
  · simp only [h, if_false, List.cons_append, List.append_assoc, List.take_succ_cons, List.take_zero, if_true,
      List.drop_succ_cons, List.drop_zero]
    have h3 : (natToLE 3 b.length ++ (b ++ (List.replicate (padLen ((254 :: natToLE 3 b.length).length + b.length)) 0 ++ rest))).take 3
        = natToLE 3 b.length := take_append_len _ _ _ (natToLE_length 3 _)
    rw [h3, natOfLE_natToLE_lt 3 _ (by simpa using hl)]
    have h4 : (natToLE 3 b.length ++ (b ++ (List.replicate (padLen ((254 :: natToLE 3 b.length).length + b.length)) 0 ++ rest))).drop 3
        = b ++ (List.replicate (padLen ((254 :: natToLE 3 b.length).length + b.length)) 0 ++ rest) :=
      drop_append_len _ _ _ (natToLE_length 3 _)
    rw [h4, take_append_len b _ _ rfl]
    simp only [List.length_cons, natToLE_length, List.length_append, List.length_replicate, padLen_eq]
    have e : (3 + 1 + b.length) = b.length + 4 := by omega
    rw [e]
    split <;> simp <;> omega

/-! ### Python int <-> bytes -/

theorem intLE_length (w : Nat) (i : Int) : (intLE w i).length = w := by simp [intLE]

theorem intOfLE_intLE4 (i : Int) (h1 : -2^31 ≤ i) (h2 : i < 2^31) : intOfLE (intLE 4 i) = i := by
  unfold intOfLE
  simp only [intLE_length]
  unfold intLE
  rw [natOfLE_natToLE]
  simp only [Nat.reducePow, Nat.reduceMul, Nat.reduceSub]
  split <;> omega

theorem intOfLE_intLE8 (i : Int) (h1 : -2^63 ≤ i) (h2 : i < 2^63) : intOfLE (intLE 8 i) = i := by
  unfold intOfLE
  simp only [intLE_length]
  unfold intLE
  rw [natOfLE_natToLE]
  simp only [Nat.reducePow, Nat.reduceMul, Nat.reduceSub]
  split <;> omega

theorem natOfLE_intLE4 (i : Int) (h1 : 0 ≤ i) (h2 : i < 2^32) : (natOfLE (intLE 4 i) : Int) = i := by
  unfold intLE
  rw [natOfLE_natToLE]
  simp only [Nat.reducePow]
  omega

theorem intToLE?_4 (i : Int) (h1 : -2^31 ≤ i) (h2 : i < 2^31) : intToLE? 4 i = some (intLE 4 i) := by
  unfold intToLE?
  simp only [Nat.reduceMul, Nat.reduceSub]
  rw [if_pos ⟨by omega, by omega⟩]

theorem intToLE?_8 (i : Int) (h1 : -2^63 ≤ i) (h2 : i < 2^63) : intToLE? 8 i = some (intLE 8 i) := by
  unfold intToLE?
  simp only [Nat.reduceMul, Nat.reduceSub]
  rw [if_pos ⟨by omega, by omega⟩]

theorem natToLE?_4 (i : Int) (h1 : 0 ≤ i) (h2 : i < 2^32) : natToLE? 4 i = some (intLE 4 i) := by
  unfold natToLE?
  simp only [Nat.reduceMul]
  rw [if_pos ⟨by omega, by omega⟩]

theorem intLE_ofNat (n : Nat) (h : n < 2^32) : intLE 4 (n : Int) = natToLE 4 n := by
  unfold intLE
  congr 1
  simp only [Nat.reducePow]
  omega

/-! ### the serialiser emits the TL encoding -/

def SerOK (T : Table) (fuel : Nat) : Item → Bytes → Prop
  | .one e _ v, bs => serOne T (serObj T fuel) e v = some bs
  | .many e vs, bs => serMany (serOne T (serObj T fuel) e) vs = some bs
  | .field a v, bs => serArg T (serObj T fuel) a v = some bs
  | .body args whole, bs => serBody T (serObj T fuel) args whole = some bs

theorem succ_of_le {N fuel : Nat} (h : N + 1 ≤ fuel) : ∃ k, fuel = k + 1 ∧ N ≤ k := ⟨fuel - 1, by omega, by omega⟩

theorem wire (T : Table) (P : Bytes → Prop) {item : Item} {bs : Bytes} (h : Enc T P item bs) :
    ∃ N, ∀ fuel, N ≤ fuel → SerOK T fuel item bs := by
  induction h with
  | int h1 h2 => exact ⟨0, fun fuel _ => by simp [SerOK, serOne, serFixed, fixedLen, intToLE?_4 _ h1 h2]⟩
  | long h1 h2 => exact ⟨0, fun fuel _ => by simp [SerOK, serOne, serFixed, fixedLen, intToLE?_8 _ h1 h2]⟩
  | nat h1 h2 => exact ⟨0, fun fuel _ => by simp [SerOK, serOne, serFixed, fixedLen, natToLE?_4 _ h1 h2]⟩
  | int128 h1 h2 => exact ⟨0, fun fuel _ => by simp [SerOK, serOne, serFixed]⟩
  | int256 h1 h2 => exact ⟨0, fun fuel _ => by simp [SerOK, serOne, serFixed]⟩
  | boolT => exact ⟨0, fun fuel _ => by simp [SerOK, serOne, serFixed, boolTrueId, natToLE]⟩
  | boolF => exact ⟨0, fun fuel _ => by simp [SerOK, serOne, serFixed, boolFalseId, natToLE]⟩
  | bytes h1 h2 h3 => exact ⟨0, fun fuel _ => by simp [SerOK, serOne, frame?, h2, frame_eq_encodeBytes]⟩
  | string h1 h2 h3 h4 => exact ⟨0, fun fuel _ => by simp [SerOK, serOne, frame?, h3, frame_eq_encodeBytes]⟩
  | bare hn hc hb ih =>
    obtain ⟨N, hN⟩ := ih
    refine ⟨N + 1, fun fuel hf => ?_⟩
    obtain ⟨k, rfl, hk⟩ := succ_of_le hf
    have := hN k hk
    simp only [SerOK] at this
    simp [SerOK, serOne, hn, objFields?, serObj, this]
  | boxed hm hn hc hb ih =>
    obtain ⟨N, hN⟩ := ih
    refine ⟨N + 1, fun fuel hf => ?_⟩
    obtain ⟨k, rfl, hk⟩ := succ_of_le hf
    have := hN k hk
    simp only [SerOK] at this
    simp only [SerOK, serOne]
    rename_i iv cl c fs bs
    cases hcl : T.byClass cl with
    | nil => rw [hcl] at hm; cases hm
    | cons c0 rest =>
      cases rest with
      | nil =>
        rw [hcl] at hm
        simp only [List.mem_singleton] at hm
        subst hm
        simp [objFields?, serObj, this]
      | cons c1 rest => simp [hn, serObj, this]
  | manyNil => exact ⟨0, fun fuel _ => by simp [SerOK, serMany]⟩
  | manyCons h1 h2 ih1 ih2 =>
    obtain ⟨N1, hN1⟩ := ih1
    obtain ⟨N2, hN2⟩ := ih2
    refine ⟨max N1 N2, fun fuel hf => ?_⟩
    have a := hN1 fuel (by omega)
    have b := hN2 fuel (by omega)
    simp only [SerOK] at a b
    simp [SerOK, serMany, a, b]
  | scalar hv h1 ih =>
    obtain ⟨N, hN⟩ := ih
    refine ⟨N, fun fuel hf => ?_⟩
    have a := hN fuel hf
    simp only [SerOK] at a
    simp [SerOK, serArg, hv, a]
  | vector hv hl hb h1 ih =>
    obtain ⟨N, hN⟩ := ih
    refine ⟨N, fun fuel hf => ?_⟩
    have a := hN fuel hf
    simp only [SerOK] at a
    rename_i a0 vs bs
    have e : natToLE? 4 (vs.length : Int) = some (natToLE 4 vs.length) := by
      rw [natToLE?_4 _ (by omega) (by omega), intLE_ofNat _ hl]
    simp [SerOK, serArg, hv, a, e]
  | bodyNil => exact ⟨0, fun fuel _ => by simp [SerOK, serBody]⟩
  | bodyReq hc hl h1 h2 ih1 ih2 =>
    obtain ⟨N1, hN1⟩ := ih1
    obtain ⟨N2, hN2⟩ := ih2
    refine ⟨max N1 N2, fun fuel hf => ?_⟩
    have a := hN1 fuel (by omega)
    have b := hN2 fuel (by omega)
    simp only [SerOK] at a b
    simp [SerOK, serBody, hl, a, b]
  | bodyOn hc hf h0 hb hl h1 h2 ih1 ih2 =>
    obtain ⟨N1, hN1⟩ := ih1
    obtain ⟨N2, hN2⟩ := ih2
    refine ⟨max N1 N2, fun fuel hf => ?_⟩
    have a := hN1 fuel (by omega)
    have b := hN2 fuel (by omega)
    simp only [SerOK] at a b
    simp [SerOK, serBody, hl, a, b]
  | bodyOff hc hf h0 hb hl h1 ih =>
    obtain ⟨N, hN⟩ := ih
    refine ⟨N, fun fuel hf => ?_⟩
    have a := hN fuel hf
    simp only [SerOK] at a
    simp [SerOK, serBody, hl, hc, a]

/-! ### table conditions, flag lookup -/

/-- the flags variable of every conditional field precedes it and is what `result.get('mode', result.get('flags'))` finds. -/
def condOK (T : Table) : List Arg → List Arg → Bool
  | _, [] => true
  | pre, a :: as =>
    (match a.cond with
      | none => true
      | some (fl, _) =>
        pre.any (fun f => f.name == fl) &&
          (fl == T.modeKey || (fl == T.flagsKey && pre.all (fun f => f.name != T.modeKey)))) &&
    condOK T (pre ++ [a]) as

def ctorOK (T : Table) (c : Ctor) : Bool :=
  decide (c.id < 2 ^ 32) && condOK T [] c.args &&
    (match T.byId c.id with
      | some c' => c'.name == c.name && c'.args == c.args
      | none => false)

def TableOK (T : Table) : Prop := ∀ c ∈ T.ctors, ctorOK T c = true

theorem lookup_canonFields (pre : List Arg) (whole : Fields) (k : Nat) :
    (canonFields pre whole).lookup k = if pre.any (fun f => f.name == k) then whole.lookup k else none := by
  induction pre with
  | nil => simp [canonFields]
  | cons a pre ih =>
    unfold canonFields at ih ⊢
    simp only [List.filterMap_cons, List.any_cons]
    cases hl : whole.lookup a.name with
    | none =>
      simp only [Option.map_none, ih]
      by_cases hk : a.name = k
      · subst hk; simp [hl]
      · have : (a.name == k) = false := by simpa using hk
        simp [this]
    | some v =>
      simp only [Option.map_some, List.lookup_cons, ih]
      by_cases hk : a.name = k
      · subst hk; simp [hl]
      · have h1 : (a.name == k) = false := by simpa using hk
        have h2 : (k == a.name) = false := by simpa using (fun h => hk h.symm)
        simp [h1, h2]

theorem canonFields_append (p q : List Arg) (whole : Fields) :
    canonFields (p ++ q) whole = canonFields p whole ++ canonFields q whole := by
  simp [canonFields, List.filterMap_append]

theorem flagVal_canon (T : Table) (pre : List Arg) (whole : Fields) (fl : Nat) (x : Val)
    (h1 : pre.any (fun f => f.name == fl) = true)
    (h2 : (fl == T.modeKey || (fl == T.flagsKey && pre.all (fun f => f.name != T.modeKey))) = true)
    (hl : whole.lookup fl = some x) : flagVal T (canonFields pre whole) = some x := by
  unfold flagVal
  rw [lookup_canonFields, lookup_canonFields]
  simp only [Bool.or_eq_true, Bool.and_eq_true, beq_iff_eq] at h2
  rcases h2 with h2 | ⟨h2, h3⟩
  · subst h2; simp [h1, hl]
  · subst h2
    have : pre.any (fun f => f.name == T.modeKey) = false := by
      simp only [List.all_eq_true, bne_iff_ne, ne_eq] at h3
      simp only [List.any_eq_false, beq_iff_eq]
      exact fun f hf => h3 f hf
    simp [this, h1, hl]

/-! ### the parser inverts the TL encoding -/

def DeOK (T : Table) (auto : Bool) (fuel : Nat) : Item → Bytes → Prop
  | .one e iv v, bs => ∀ rest ut,
      deserOne T auto (deserObj T auto fuel) ut e iv (bs ++ rest) = some (some v, bs.length)
  | .many e vs, bs => ∀ rest,
      deserMany (deserElem T auto (deserObj T auto fuel) e) vs.length (bs ++ rest) = some (vs, bs.length)
  | .field a v, bs => ∀ rest ut,
      deserArg T auto (deserObj T auto fuel) ut a (bs ++ rest) = some (some v, bs.length)
  | .body args whole, bs => ∀ rest pre schema, condOK T pre args = true →
      deserBody T auto (deserObj T auto fuel) schema args (canonFields pre whole) (bs ++ rest) =
        some (canonFields pre whole ++ canonFields args whole, bs.length)

theorem mem_of_byName {T : Table} {n : Nat} {c : Ctor} (h : T.byName n = some c) : c ∈ T.ctors := by
  unfold Table.byName at h
  have := List.mem_of_find?_eq_some h
  simpa using this

theorem mem_of_byClass {T : Table} {cl : Nat} {c : Ctor} (h : c ∈ T.byClass cl) : c ∈ T.ctors := by
  unfold Table.byClass at h
  exact (List.mem_filter.mp h).1

theorem auto_unregistered (T : Table) (auto : Bool) (k : Nat) (b : Bytes) (h : byIdLE T b = none) :
    autoParse (fun x => deserObj T auto (k + 1) x none) b b.length = some (.bytes b) := by
  simp [autoParse, deserObj, h]

theorem roundtrip (T : Table) (P : Bytes → Prop) (auto : Bool) (hT : TableOK T)
    (hP : auto = true → ∀ b, P b → byIdLE T b = none)
    {item : Item} {bs : Bytes} (h : Enc T P item bs) :
    ∃ N, ∀ fuel, N ≤ fuel → DeOK T auto fuel item bs := by
  induction h with
  | int h1 h2 =>
    exact ⟨0, fun fuel _ rest ut => by
      simp [deserOne, readFixed, take_append_len _ _ 4 (intLE_length 4 _), intOfLE_intLE4 _ h1 h2, intLE_length]⟩
  | long h1 h2 =>
    exact ⟨0, fun fuel _ rest ut => by
      simp [deserOne, readFixed, take_append_len _ _ 8 (intLE_length 8 _), intOfLE_intLE8 _ h1 h2, intLE_length]⟩
  | nat h1 h2 =>
    exact ⟨0, fun fuel _ rest ut => by
      simp [deserOne, readFixed, take_append_len _ _ 4 (intLE_length 4 _), natOfLE_intLE4 _ h1 h2, intLE_length]⟩
  | int128 h1 h2 =>
    exact ⟨0, fun fuel _ rest ut => by simp [deserOne, readFixed, take_append_len _ _ 16 h1, h1]⟩
  | int256 h1 h2 =>
    exact ⟨0, fun fuel _ rest ut => by simp [deserOne, readFixed, take_append_len _ _ 32 h1, h1]⟩
  | boolT => exact ⟨0, fun fuel _ rest ut => by simp [deserOne, readFixed, boolTrueId, natToLE]⟩
  | boolF => exact ⟨0, fun fuel _ rest ut => by simp [deserOne, readFixed, boolFalseId, natToLE]⟩
  | bytes h1 h2 h3 =>
    refine ⟨1, fun fuel hf rest ut => ?_⟩
    obtain ⟨k, rfl, _⟩ := succ_of_le hf
    simp only [deserOne, readFrame_encodeBytes _ rest h2]
    cases auto with
    | false => simp
    | true =>
      cases ut with
      | true => simp
      | false => simp [auto_unregistered T true k _ (hP rfl _ h3)]
  | string h1 h2 h3 h4 =>
    refine ⟨1, fun fuel hf rest ut => ?_⟩
    obtain ⟨k, rfl, _⟩ := succ_of_le hf
    simp only [deserOne, readFrame_encodeBytes _ rest h3]
    cases auto with
    | false => simp [h2]
    | true =>
      cases ut with
      | true => simp [h2]
      | false => simp [auto_unregistered T true k _ (hP rfl _ h4), h2]
  | bare hn hc hb ih =>
    obtain ⟨N, hN⟩ := ih
    refine ⟨N + 1, fun fuel hf rest ut => ?_⟩
    obtain ⟨k, rfl, hk⟩ := succ_of_le hf
    rename_i iv n c fs bs
    have hok := hT c (mem_of_byName hn)
    simp only [ctorOK, Bool.and_eq_true] at hok
    have := hN k hk rest [] none hok.1.2
    simp only [canonFields, List.filterMap_nil, List.nil_append] at this
    simp only [deserOne, hn, deserObj, this, Option.map_some]
    rw [show List.filterMap (fun a => Option.map (fun v => (a.name, v)) (List.lookup a.name fs)) c.args = canonFields c.args fs from rfl, ← hc]
  | boxed hm hn hc hb ih =>
    obtain ⟨N, hN⟩ := ih
    refine ⟨N + 1, fun fuel hf rest ut => ?_⟩
    obtain ⟨k, rfl, hk⟩ := succ_of_le hf
    rename_i iv cl c fs bs
    have hok := hT c (mem_of_byClass hm)
    simp only [ctorOK, Bool.and_eq_true, decide_eq_true_eq] at hok
    obtain ⟨⟨hid, hcond⟩, hby⟩ := hok
    cases hb' : T.byId c.id with
    | none => simp [hb'] at hby
    | some c' =>
      simp only [hb', Bool.and_eq_true, beq_iff_eq] at hby
      obtain ⟨hname, hargs⟩ := hby
      have hid' : byIdLE T (natToLE 4 c.id ++ bs ++ rest) = some c' := by
        unfold byIdLE
        rw [List.append_assoc, take_append_len _ _ 4 (natToLE_length 4 _)]
        simp [natOfLE_natToLE_lt 4 c.id (by simpa using hid), hb']
      have := hN k hk rest [] (some c.name) hcond
      simp only [canonFields, List.filterMap_nil, List.nil_append] at this
      have hd : (natToLE 4 c.id ++ bs ++ rest).drop 4 = bs ++ rest := by
        rw [List.append_assoc]; exact drop_append_len _ _ 4 (natToLE_length 4 _)
      simp only [deserOne, deserObj, hid', hd, hargs, this, Option.map_some, hname]
      rw [show List.filterMap (fun a => Option.map (fun v => (a.name, v)) (List.lookup a.name fs)) c.args = canonFields c.args fs from rfl, ← hc]
      simp
  | manyNil => exact ⟨0, fun fuel _ rest => by simp [deserMany]⟩
  | manyCons h1 h2 ih1 ih2 =>
    obtain ⟨N1, hN1⟩ := ih1
    obtain ⟨N2, hN2⟩ := ih2
    refine ⟨max N1 N2, fun fuel hf rest => ?_⟩
    rename_i e v vs b1 b2
    have a := hN1 fuel (by omega) (b2 ++ rest) false
    have b := hN2 fuel (by omega) rest
    simp only [List.length_cons, deserMany, deserElem, List.append_assoc, a]
    simp [b]
  | scalar hv h1 ih =>
    obtain ⟨N, hN⟩ := ih
    refine ⟨N, fun fuel hf rest ut => ?_⟩
    have a := hN fuel hf rest ut
    simp [deserArg, hv, a]
  | vector hv hl hb h1 ih =>
    obtain ⟨N, hN⟩ := ih
    refine ⟨N, fun fuel hf rest ut => ?_⟩
    rename_i a0 vs bs
    have a := hN fuel hf rest
    have ht : (natToLE 4 vs.length ++ bs ++ rest).take 4 = natToLE 4 vs.length := by
      rw [List.append_assoc]; exact take_append_len _ _ 4 (natToLE_length 4 _)
    have hd : (natToLE 4 vs.length ++ bs ++ rest).drop 4 = bs ++ rest := by
      rw [List.append_assoc]; exact drop_append_len _ _ 4 (natToLE_length 4 _)
    have hlen : ¬ (natToLE 4 vs.length ++ bs ++ rest).length < 4 + vs.length := by
      simp only [List.length_append, natToLE_length]; omega
    simp only [deserArg, hv, if_true, ht, natOfLE_natToLE_lt 4 vs.length (by simpa using hl), hlen, if_false, hd, a]
    simp
  | bodyNil => exact ⟨0, fun fuel _ rest pre schema _ => by simp [deserBody, canonFields]⟩
  | bodyReq hc hl h1 h2 ih1 ih2 =>
    obtain ⟨N1, hN1⟩ := ih1
    obtain ⟨N2, hN2⟩ := ih2
    refine ⟨max N1 N2, fun fuel hf rest pre schema hco => ?_⟩
    rename_i a as whole v b1 b2
    simp only [condOK, Bool.and_eq_true] at hco
    have hx := hN2 fuel (by omega) rest (pre ++ [a]) schema hco.2
    have e1 : canonFields (pre ++ [a]) whole = canonFields pre whole ++ [(a.name, v)] := by
      rw [canonFields_append]; simp [canonFields, hl]
    have e2 : canonFields (a :: as) whole = (a.name, v) :: canonFields as whole := by
      simp [canonFields, hl]
    rw [e1] at hx
    simp only [deserBody, hc, List.append_assoc, hN1 fuel (by omega) (b2 ++ rest) _]
    rw [drop_append_len _ _ _ rfl, hx, e2]
    simp
  | bodyOn hc hf h0 hb hl h1 h2 ih1 ih2 =>
    obtain ⟨N1, hN1⟩ := ih1
    obtain ⟨N2, hN2⟩ := ih2
    refine ⟨max N1 N2, fun fuel hfu rest pre schema hco => ?_⟩
    rename_i a as whole fl bit m v b1 b2
    simp only [condOK, hc, Bool.and_eq_true] at hco
    have hfv := flagVal_canon T pre whole fl _ hco.1.1 hco.1.2 hf
    have hx := hN2 fuel (by omega) rest (pre ++ [a]) schema hco.2
    have e1 : canonFields (pre ++ [a]) whole = canonFields pre whole ++ [(a.name, v)] := by
      rw [canonFields_append]; simp [canonFields, hl]
    have e2 : canonFields (a :: as) whole = (a.name, v) :: canonFields as whole := by
      simp [canonFields, hl]
    rw [e1] at hx
    have hm : maskBit m bit = true := by simp [maskBit, h0, hb]
    simp only [deserBody, hc, hfv, hm, List.append_assoc, hN1 fuel (by omega) (b2 ++ rest) _]
    rw [drop_append_len _ _ _ rfl, hx, e2]
    simp
  | bodyOff hc hf h0 hb hl h1 ih =>
    obtain ⟨N, hN⟩ := ih
    refine ⟨N, fun fuel hfu rest pre schema hco => ?_⟩
    rename_i a as whole fl bit m bs
    simp only [condOK, hc, Bool.and_eq_true] at hco
    have hfv := flagVal_canon T pre whole fl _ hco.1.1 hco.1.2 hf
    have hx := hN fuel hfu rest (pre ++ [a]) schema hco.2
    have e1 : canonFields (pre ++ [a]) whole = canonFields pre whole := by
      rw [canonFields_append]; simp [canonFields, hl]
    have e2 : canonFields (a :: as) whole = canonFields as whole := by
      simp [canonFields, hl]
    rw [e1] at hx
    have hm : maskBit m bit = false := by simp [maskBit, h0, hb]
    simp only [deserBody, hc, hfv, hm, hx, e2]

/-! ### checking a concrete table chunk by chunk -/

/-- every constructor of `l` with the id of `c` has the name and arguments of `c` (kernel-friendly). -/
def agreeAll (c : Ctor) : List Ctor → Bool
  | [] => true
  | d :: ds => (if Nat.beq d.id c.id then (Nat.beq d.name c.name && d.args == c.args) else true) && agreeAll c ds

def chunkAgree (T : Table) (cs : List Ctor) : Bool :=
  cs.all (fun c => decide (c.id < 2 ^ 32) && condOK T [] c.args && agreeAll c T.ctors)

/-- the CRC fold with the accumulator forced at every byte (the kernel evaluates `List.foldl` lazily and
would otherwise build a chain as deep as the text is long). -/
def force {α} (x : Nat) (k : Nat → α) : α :=
  match x with
  | 0 => k 0
  | n + 1 => k (n + 1)

theorem force_eq {α} (x : Nat) (k : Nat → α) : force x k = k x := by
  cases x <;> rfl

def crcGo : Nat → Bytes → Nat
  | c, [] => c
  | c, b :: bs => force (crcByte c b) (fun c' => crcGo c' bs)

theorem crcGo_eq (c : Nat) (bs : Bytes) : crcGo c bs = bs.foldl crcByte c := by
  induction bs generalizing c with
  | nil => rfl
  | cons b bs ih => rw [crcGo, force_eq, List.foldl_cons, ih]

def tlIdK (decl : Bytes) : Nat :=
  let head := decl.takeWhile (· ≠ 32)
  if 35 ∈ head then (hexNumber? ((head.dropWhile (· ≠ 35)).drop 1)).getD 0
  else (crcGo 0xFFFFFFFF decl) ^^^ 0xFFFFFFFF

theorem tlIdK_eq (decl : Bytes) : tlIdK decl = tlId decl := by
  simp [tlIdK, tlId, crc32, crcGo_eq]

def idsOK (cs : List Ctor) : Bool := cs.all (fun c => Nat.beq c.id (tlIdK c.decl))

theorem agreeAll_spec {c d : Ctor} {l : List Ctor} (h : agreeAll c l = true) (hd : d ∈ l) (hid : d.id = c.id) :
    d.name = c.name ∧ d.args = c.args := by
  induction l with
  | nil => cases hd
  | cons x xs ih =>
    simp only [agreeAll, Bool.and_eq_true] at h
    rcases List.mem_cons.mp hd with rfl | hd
    · have : Nat.beq d.id c.id = true := by simp [hid]
      simp only [this, if_true, Bool.and_eq_true, beq_iff_eq] at h
      exact ⟨by simpa using h.1.1, h.1.2⟩
    · exact ih h.2 hd

theorem ctorOK_of_agree (T : Table) (c : Ctor) (hc : c ∈ T.ctors)
    (h : (decide (c.id < 2 ^ 32) && condOK T [] c.args && agreeAll c T.ctors) = true) : ctorOK T c = true := by
  simp only [Bool.and_eq_true] at h
  unfold ctorOK
  simp only [Bool.and_eq_true, h.1.1, h.1.2, true_and]
  cases hb : T.byId c.id with
  | none =>
    unfold Table.byId at hb
    have := List.find?_eq_none.mp hb c (by simpa using hc)
    simp at this
  | some c' =>
    unfold Table.byId at hb
    have hm : c' ∈ T.ctors := by simpa using List.mem_of_find?_eq_some hb
    have hid : c'.id = c.id := by simpa using List.find?_some hb
    have := agreeAll_spec h.2 hm hid
    simp [this.1, this.2]

theorem all_of_getD {α} (p : α → Bool) (l : List (List α)) (n : Nat) (hn : l.length ≤ n)
    (h : ∀ k, k < n → (l.getD k []).all p = true) : ∀ x ∈ l.flatten, p x = true := by
  intro x hx
  obtain ⟨l', hl', hx'⟩ := List.mem_flatten.mp hx
  obtain ⟨k, hk, rfl⟩ := List.mem_iff_getElem.mp hl'
  have := h k (by omega)
  rw [List.getD_eq_getElem?_getD, List.getElem?_eq_getElem hk] at this
  exact List.all_eq_true.mp this x hx'

/-! ### top level -/

theorem wire_top (T : Table) (P : Bytes → Prop) (c : Ctor) (fs : Fields) (body : Bytes)
    (hb : Enc T P (.body c.args fs) body) :
    ∃ N, ∀ fuel, N ≤ fuel → serialize T fuel c (.obj (some c.name) fs) = some (natToLE 4 c.id ++ body) := by
  obtain ⟨N, hN⟩ := wire T P hb
  refine ⟨N + 1, fun fuel hf => ?_⟩
  obtain ⟨k, rfl, hk⟩ := succ_of_le hf
  have := hN k hk
  simp only [SerOK] at this
  simp [serialize, serObj, this]

theorem roundtrip_top (T : Table) (P : Bytes → Prop) (auto : Bool) (hT : TableOK T)
    (hP : auto = true → ∀ b, P b → byIdLE T b = none) (c : Ctor) (hc : c ∈ T.ctors) (fs : Fields) (body : Bytes)
    (hcan : fs = canonFields c.args fs) (hb : Enc T P (.body c.args fs) body) :
    ∃ N, ∀ fuel, N ≤ fuel → ∀ rest, deserialize T auto fuel (natToLE 4 c.id ++ body ++ rest) =
      some (.obj (some c.name) fs, (natToLE 4 c.id ++ body).length) := by
  obtain ⟨N, hN⟩ := roundtrip T P auto hT hP hb
  refine ⟨N + 1, fun fuel hf rest => ?_⟩
  obtain ⟨k, rfl, hk⟩ := succ_of_le hf
  have hok := hT c hc
  simp only [ctorOK, Bool.and_eq_true, decide_eq_true_eq] at hok
  obtain ⟨⟨hid, hcond⟩, hby⟩ := hok
  cases hb' : T.byId c.id with
  | none => simp [hb'] at hby
  | some c' =>
    simp only [hb', Bool.and_eq_true, beq_iff_eq] at hby
    obtain ⟨hname, hargs⟩ := hby
    have hid' : byIdLE T (natToLE 4 c.id ++ body ++ rest) = some c' := by
      unfold byIdLE
      rw [List.append_assoc, take_append_len _ _ 4 (natToLE_length 4 _)]
      simp [natOfLE_natToLE_lt 4 c.id (by simpa using hid), hb']
    have := hN k hk rest [] (some c.name) hcond
    simp only [canonFields, List.filterMap_nil, List.nil_append] at this
    have hd : (natToLE 4 c.id ++ body ++ rest).drop 4 = body ++ rest := by
      rw [List.append_assoc]; exact drop_append_len _ _ 4 (natToLE_length 4 _)
    simp only [deserialize, deserObj, hid', hd, hargs, hname, this, Option.map_some]
    rw [show List.filterMap (fun a => Option.map (fun v => (a.name, v)) (List.lookup a.name fs)) c.args = canonFields c.args fs from rfl, ← hcan]
    simp

/-! ### block.py -/

theorem intOfBE_intToBE4 (i : Int) (h1 : -2^31 ≤ i) (h2 : i < 2^31) :
    ∃ b, intToBE? 4 i = some b ∧ b.length = 4 ∧ intOfBE b = i := by
  refine ⟨(intLE 4 i).reverse, by simp [intToBE?, intToLE?_4 i h1 h2], by simp [intLE_length], ?_⟩
  simp [intOfBE, intOfLE_intLE4 i h1 h2]

theorem intOfBE_intToBE8 (i : Int) (h1 : -2^63 ≤ i) (h2 : i < 2^63) :
    ∃ b, intToBE? 8 i = some b ∧ b.length = 8 ∧ intOfBE b = i := by
  refine ⟨(intLE 8 i).reverse, by simp [intToBE?, intToLE?_8 i h1 h2], by simp [intLE_length], ?_⟩
  simp [intOfBE, intOfLE_intLE8 i h1 h2]

theorem blockIdExt_bytes (b : BlockIdExt) (hw : -2^31 ≤ b.workchain ∧ b.workchain < 2^31)
    (hs : -2^63 ≤ b.shard ∧ b.shard < 2^63) (hq : -2^31 ≤ b.seqno ∧ b.seqno < 2^31)
    (hr : b.rootHash.length = 32) (hf : b.fileHash.length = 32) :
    ∃ d, b.toBytes = some d ∧ d.length = 80 ∧ BlockIdExt.fromBytes d = b := by
  obtain ⟨w, hw1, hw2, hw3⟩ := intOfBE_intToBE4 _ hw.1 hw.2
  obtain ⟨s, hs1, hs2, hs3⟩ := intOfBE_intToBE8 _ hs.1 hs.2
  obtain ⟨q, hq1, hq2, hq3⟩ := intOfBE_intToBE4 _ hq.1 hq.2
  refine ⟨w ++ s ++ q ++ b.rootHash ++ b.fileHash, by simp [BlockIdExt.toBytes, hw1, hs1, hq1], by simp [hw2, hs2, hq2, hr, hf], ?_⟩
  have e1 : (w ++ s ++ q ++ b.rootHash ++ b.fileHash).take 4 = w := by
    simp only [List.append_assoc]; exact take_append_len _ _ 4 hw2
  have e2 : (w ++ s ++ q ++ b.rootHash ++ b.fileHash).drop 4 = s ++ (q ++ (b.rootHash ++ b.fileHash)) := by
    simp only [List.append_assoc]; exact drop_append_len _ _ 4 hw2
  have e3 : (w ++ s ++ q ++ b.rootHash ++ b.fileHash).drop 12 = q ++ (b.rootHash ++ b.fileHash) := by
    have : (w ++ s ++ q ++ b.rootHash ++ b.fileHash) = (w ++ s) ++ (q ++ (b.rootHash ++ b.fileHash)) := by simp
    rw [this]; exact drop_append_len _ _ 12 (by simp [hw2, hs2])
  have e4 : (w ++ s ++ q ++ b.rootHash ++ b.fileHash).drop 16 = b.rootHash ++ b.fileHash := by
    have : (w ++ s ++ q ++ b.rootHash ++ b.fileHash) = (w ++ s ++ q) ++ (b.rootHash ++ b.fileHash) := by simp
    rw [this]; exact drop_append_len _ _ 16 (by simp [hw2, hs2, hq2])
  have e5 : (w ++ s ++ q ++ b.rootHash ++ b.fileHash).drop 48 = b.fileHash := by
    have : (w ++ s ++ q ++ b.rootHash ++ b.fileHash) = (w ++ s ++ q ++ b.rootHash) ++ b.fileHash := by simp
    rw [this]; exact drop_append_len _ _ 48 (by simp [hw2, hs2, hq2, hr])
  unfold BlockIdExt.fromBytes
  rw [e1, e2, e3, e4, e5, take_append_len _ _ 8 hs2, take_append_len _ _ 4 hq2, take_append_len _ _ 32 hr, hw3, hs3, hq3]
  have : b.fileHash.take 32 = b.fileHash := by rw [← hf]; exact List.take_length
  rw [this]

theorem blockIdExt_dict (b : BlockIdExt) : BlockIdExt.fromDict b.toDict = some b := by
  simp [BlockIdExt.fromDict, BlockIdExt.toDict]

theorem blockId_dict (b : BlockId) : BlockId.fromDict b.toDict = b := by
  simp [BlockId.fromDict, BlockId.toDict]

theorem blockIdExt_eq_hash (H : Int × Int × Int × Bytes × Bytes → Int) (a b : BlockIdExt) (h : a.pyEq b = true) :
    a = b ∧ a.pyHash H = b.pyHash H := by
  have : a = b := by
    cases a; cases b
    simp only [BlockIdExt.pyEq, Bool.not_eq_true', Bool.or_eq_false_iff, bne_eq_false_iff_eq] at h
    simp_all
  exact ⟨this, by rw [this]⟩

end TonVerif.Proofs.Tl
