/-
Helper lemmas for C14 (TL): little-endian numbers, framing of byte strings, table lookups.
-/
import TonVerif.Model.Tl

namespace TonVerif.Proofs.Tl
open TonVerif TonVerif.Spec.Tl TonVerif.Model.Tl

/-! ### little-endian numbers -/

@[simp] theorem natToLE_length (w v : Nat) : (natToLE w v).length = w := by
  induction w generalizing v with
  | zero => rfl
  | succ w ih => simp [natToLE, ih]

theorem natOfLE_natToLE (w v : Nat) : natOfLE (natToLE w v) = v % 256 ^ w := by
  induction w generalizing v with
  | zero => simp [natToLE, natOfLE, Nat.mod_one]
  | succ w ih =>
    simp only [natToLE, natOfLE, ih]
    rw [Nat.pow_succ, Nat.mul_comm (256 ^ w) 256, Nat.mod_mul]

theorem natOfLE_natToLE_lt (w v : Nat) (h : v < 256 ^ w) : natOfLE (natToLE w v) = v := by
  rw [natOfLE_natToLE, Nat.mod_eq_of_lt h]

theorem natToLE_wf (w v : Nat) : Bytes.WF (natToLE w v) := by
  induction w generalizing v with
  | zero => intro b hb; simp [natToLE] at hb
  | succ w ih =>
    intro b hb
    simp only [natToLE, List.mem_cons] at hb
    rcases hb with rfl | hb
    · omega
    · exact ih _ b hb

theorem take_append_len {α} (a b : List α) (n : Nat) (h : a.length = n) : (a ++ b).take n = a := by
  subst h; simp

theorem drop_append_len {α} (a b : List α) (n : Nat) (h : a.length = n) : (a ++ b).drop n = b := by
  subst h; simp

/-! ### framing -/

theorem padLen_eq (n : Nat) : padLen n = if n % 4 ≠ 0 then 4 - n % 4 else 0 := by
  unfold padLen; split <;> omega

/-- the code's framing (`<= 253`, pad by `len % 4`) is the TL framing. -/
theorem frame_eq_encodeBytes (b : Bytes) : frame b = encodeBytes b := by
  unfold frame encodeBytes
  by_cases h : b.length < 254
  · have h' : b.length ≤ 253 := by omega
    simp only [h, h', if_true, natToLE, List.length_append, List.length_cons, List.length_nil, padLen_eq]
    have : b.length % 256 = b.length := by omega
    rw [this]
    split <;> simp_all
  · have h' : ¬ b.length ≤ 253 := by omega
    simp only [h, h', if_false, List.length_append, List.length_cons, natToLE_length, padLen_eq]
    split <;> simp_all

theorem encodeBytes_length_mod4 (b : Bytes) : (encodeBytes b).length % 4 = 0 := by
  unfold encodeBytes
  simp only [List.length_append, List.length_replicate]
  unfold padLen
  omega

theorem natToLE3 (v : Nat) : natToLE 3 v = [v % 256, v / 256 % 256, v / 256 / 256 % 256] := by
  simp [natToLE]

/-- the framing reader inverts the framing for every length below 2^24, whatever follows. -/
theorem readFrame_encodeBytes (b rest : Bytes) (hl : b.length < 2 ^ 24) :
    readFrame (encodeBytes b ++ rest) = (b, b.length, (encodeBytes b).length) := by
  unfold readFrame encodeBytes
  by_cases h : b.length < 254
  · have hne : b.length ≠ 254 := by omega
    simp only [h, if_true, List.cons_append, List.nil_append, List.append_assoc, List.take_succ_cons, List.take_zero,
      List.cons.injEq, hne, and_true, if_false, natOfLE, Nat.mul_zero, Nat.add_zero, List.drop_succ_cons, List.drop_zero,
      List.length_cons, List.length_nil, List.length_append, List.length_replicate, padLen_eq]
    rw [take_append_len b _ _ rfl]
    have e : (0 + 1 + b.length) = b.length + 1 := by omega
    rw [e]
    split <;> simp <;> omega
  · simp only [h, if_false, List.cons_append, List.append_assoc, List.take_succ_cons, List.take_zero, if_true,
      List.drop_succ_cons, List.drop_zero]
    have h3 : (natToLE 3 b.length ++ (b ++ (List.replicate (padLen ((254 :: natToLE 3 b.length).length + b.length)) 0 ++ rest))).take 3
        = natToLE 3 b.length := take_append_len _ _ _ (natToLE_length 3 _)
    rw [h3, natOfLE_natToLE_lt 3 _ (by simpa using hl)]
    have h4 : (natToLE 3 b.length ++ (b ++ (List.replicate (padLen ((254 :: natToLE 3 b.length).length + b.length)) 0 ++ rest))).drop 3
        = b ++ (List.replicate (padLen ((254 :: natToLE 3 b.length).length + b.length)) 0 ++ rest) :=
      drop_append_len _ _ _ (natToLE_length 3 _)
    rw [h4, take_append_len b _ _ rfl]
    simp only [List.length_cons, natToLE_length, List.length_append, List.length_replicate, padLen_eq]
    have e : (3 + 1 + b.length) = b.length + 4 := by omega
    rw [e]
    split <;> simp <;> omega

end TonVerif.Proofs.Tl
