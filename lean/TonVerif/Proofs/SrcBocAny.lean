/-
`Cell.to_boc` as REGENERATED from the source, composed with the order-independent validity of the regenerated `Cell.order`
(Proofs/SrcOrderAny.lean): whatever dict the regenerated `Cell.order` returns, its keys are a valid order of the distinct cells
and the regenerated `Cell.to_boc` lays exactly these cells out (`flattenCells` + `emit` of the hand model, which are order
agnostic: they take the cell list as an argument).  Nothing here depends on the hand model of the TRAVERSAL (`PCell.order`).
-/
import TonVerif.Proofs.SrcBocEmit
import TonVerif.Proofs.SrcOrderAny

namespace TonVerif.Proofs.SrcBocAny
open TonVerif TonVerif.Model TonVerif.Generated.BocEmitSrc TonVerif.Proofs.SrcDict TonVerif.Proofs.SrcBocEmit
  TonVerif.Proofs.BocOrder TonVerif.Proofs.SrcOrderAny

/-- whenever the regenerated `Cell.order` returns `d`: the keys of `d` are a valid order, and the regenerated `Cell.to_boc` is the
index lookup + byte layout of exactly these cells, for every option set -/
theorem src_toBoc_any (fuel : Nat) (p : PCell) (d : Py.KDict PCell Unit) (nc : NoCollision p) (h : order fuel p [] = some d)
    (hi hc hcb : Bool) (fl : Nat) :
    ValidOrder p (Py.dictKeys d) ∧
    to_boc fuel p hi hc hcb fl =
      (flattenCells (indexMap (Py.dictKeys d)) (Py.dictKeys d)).bind (emit · ⟨hi, hc, hcb, fl⟩) := by
  obtain ⟨vo, hd⟩ := src_order_valid_any fuel p d nc h
  refine ⟨vo, ?_⟩
  have h' : order fuel p [] = some (dictOf (Py.dictKeys d)) := by rw [h]; exact congrArg some hd
  exact to_boc_given fuel p hi hc hcb fl (Py.dictKeys d) h' vo.nodup

end TonVerif.Proofs.SrcBocAny
