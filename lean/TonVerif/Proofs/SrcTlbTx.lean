/-
C16 source tie, second part (tlb/transaction.py) — generation-independent lemmas, continuing Proofs/SrcTlb.lean.

`RefinesP P r c w` : whenever the SPEC decoder of `c` accepts a slice and the decoded value satisfies `P`, the reader `r`
returns the declared view `w` of the value and leaves the same rest.  `P = PT` (no condition) is `Refines`; `P = PV` is "no
`addr_var` address occurs in the value" (`Slice.load_address` has no `addr_var`).  `RefinesEP` is the value-only form for types
that close their cell (`Message Any`) and for everything parsed through a reference (the inner rest is dropped by the parser).

The combinators the translator emits have one lemma each: `RefinesP.optional` (`E if S.load_bit() else None` vs `Maybe X`),
`RefinesEP.viaRef` (`T.deserialize(S.load_ref().begin_parse())` vs `^X`), `RefinesEP.dict` (`S.load_dict(n, value_deserializer)` vs
`HashmapE n X`, by `dictWalk_sound`: the Patricia walk of Model/TlbRdTx.lean returns the entries of the decoded tree value, in
order).  A record with k optional fields is therefore ONE straight-line evaluation instead of 2^k cases (`TrActionPhase`: 3,
`trans_ord`: 4).
-/
import TonVerif.Proofs.SrcTlb
import TonVerif.Spec.Tlb.PyViewTx

namespace TonVerif.Tlb
open TonVerif

def RefinesP (P : Val → Prop) (r : Frag → Rd.R) (c : Codec) (w : Val → Val) : Prop :=
  ∀ s v s', c.dec s = some (v, s') → P v → r s = some (w v, s')

/-- value only (what the reader leaves unread is not compared) -/
def RefinesEP (P : Val → Prop) (r : Frag → Rd.R) (c : Codec) (w : Val → Val) : Prop :=
  ∀ s v s', c.dec s = some (v, s') → P v → ∃ k, r s = some (w v, k)

/-- no condition on the value -/
abbrev PT : Val → Prop := fun _ => True
/-- no `addr_var` address inside the value -/
abbrev PV : Val → Prop := fun v => v.noVar = true

theorem Refines.toP {r c w} (h : Refines r c w) (P : Val → Prop) : RefinesP P r c w := fun s v s' hd _ => h s v s' hd
theorem RefinesP.toRefines {r c w} (h : RefinesP PT r c w) : Refines r c w := fun s v s' hd => h s v s' hd trivial
theorem RefinesP.toE {P r c w} (h : RefinesP P r c w) : RefinesEP P r c w := fun s v s' hd hp => ⟨s', h s v s' hd hp⟩
theorem RefinesP.mono {P P' : Val → Prop} {r c w} (h : RefinesP P r c w) (hi : ∀ v, P' v → P v) : RefinesP P' r c w :=
  fun s v s' hd hp => h s v s' hd (hi v hp)
theorem RefinesEP.mono {P P' : Val → Prop} {r c w} (h : RefinesEP P r c w) (hi : ∀ v, P' v → P v) : RefinesEP P' r c w :=
  fun s v s' hd hp => h s v s' hd (hi v hp)

/-- the statement of C16 for a regenerated reader, with a condition on the value -/
theorem RefinesP.on_encoding {P r c w} (h : RefinesP P r c w) [hl : Lawful c] (v : Val) (f : Frag) (he : c.enc v = some f)
    (hp : P v) (k : Frag) : r (f ++ k) = some (w v, k) :=
  h _ _ _ (hl.law v f he k) hp

theorem RefinesP.keep {P r c w} (h : RefinesP P r c w) (s : Frag) (v : Val) (s' : Frag) :
    (c.dec s = some (v, s')) ↔ (Kept c s v s' ∧ (P v → r s = some (w v, s'))) :=
  ⟨fun hd => ⟨hd, h s v s' hd⟩, fun hd => hd.1⟩

/-! ### `Val.noVar` -/

theorem noVar_get (v : Val) (n : String) (h : v.noVar = true) : (v.get n).noVar = true := by
  cases v with
  | record fs =>
    simp only [Val.get]
    induction fs with
    | nil => simp [List.lookup, Val.noVar]
    | cons a fs ih =>
      obtain ⟨k, x⟩ := a
      simp only [Val.noVar, noVarFs, Bool.and_eq_true] at h
      simp only [List.lookup]
      split
      · simpa using h.1
      · exact ih (by simpa [Val.noVar] using h.2)
  | _ => simp [Val.get, Val.noVar]

/-! ### primitives as `Refines` -/

theorem refines_grams : Refines Rd.loadCoins grams id := refines_varUInt 16 4 (by decide) (by decide)

theorem nonUnit_uint (n : Nat) : NonUnit (uint n) := by
  intro s v s' h
  simp only [uint] at h
  split at h
  · cases h
  · cases h; simp
theorem nonUnit_sint (n : Nat) : NonUnit (sint n) := by
  intro s v s' h
  simp only [sint] at h
  split at h
  · cases h
  · cases h; simp
theorem nonUnit_varUInt (k : Nat) : NonUnit (varUInt k) := by
  intro s v s' h
  simp only [varUInt] at h
  split at h
  · cases h
  · split at h
    · cases h
    · cases h; simp
theorem nonUnit_ref (c : Codec) (h : NonUnit c) : NonUnit (ref c) := by
  intro s v s' hd
  obtain ⟨_, b, r, _, _, h2, _⟩ := (ref_dec c s v s').1 hd
  exact h _ _ _ h2

theorem viewMaybe_id (v : Val) : viewMaybe id v = v := by cases v <;> rfl

/-! ### combinators -/

/-- `E if S.load_bit() else None` against `Maybe X` -/
theorem RefinesP.optional {P r c w} (h : RefinesP P r c w) (hn : NonUnit c) :
    RefinesP P (fun s => Rd.optional s r) (maybe c) (viewMaybe w) := by
  intro s v s' hd hp
  rcases (maybe_dec c s v s').1 hd with ⟨t, rs, rfl, rfl, rfl⟩ | ⟨t, rs, rfl, h2⟩
  · simp [Rd.optional, loadBit_cons, Rd.truthy, viewMaybe]
  · have hv := hn _ _ _ h2
    have := h _ _ _ h2 hp
    simp only [Rd.optional, loadBit_cons, Rd.truthy, if_true, this]
    cases v <;> simp_all [viewMaybe]

/-- `T.deserialize(S.load_ref().begin_parse())` against `^X` -/
theorem RefinesEP.viaRef {P} {r : Bool → Frag → Rd.R} {c w} (h : RefinesEP P (r false) c w) :
    RefinesP P (Rd.viaRef r) (ref c) w := by
  intro s v s' hd hp
  obtain ⟨bs, b, rr, more, rfl, h2, rfl⟩ := (ref_dec c s v s').1 hd
  obtain ⟨k, hk⟩ := h _ _ _ h2 hp
  simp [Rd.viaRef, loadRef_cons, Rd.special, Rd.beginParse, Cell.exotic, Cell.bits, Cell.refs, hk]

/-! ### dictionaries -/

theorem get_label (lv nv : Val) : (Val.record [("label", lv), ("node", nv)]).get "label" = lv := by
  simp [Val.get, List.lookup]
theorem get_node (lv nv : Val) : (Val.record [("label", lv), ("node", nv)]).get "node" = nv := by
  simp [Val.get, List.lookup]
theorem get_left (a b : Val) : (Val.record [("left", a), ("right", b)]).get "left" = a := by
  simp [Val.get, List.lookup]
theorem get_right (a b : Val) : (Val.record [("left", a), ("right", b)]).get "right" = b := by
  simp [Val.get, List.lookup]

/-- the Patricia walk of the reader returns the entries of the decoded tree value, in order -/
theorem dictWalk_sound (X : Codec) (Q : Val → Prop) (rd : Frag → Rd.R) (w : Val → Val)
    (hrd : ∀ s v, X.dec s = some (v, ⟨[], []⟩) → Q v → ∃ k, rd s = some (w v, k)) :
    ∀ fuel n pfx b r tv, (hashmapF X fuel n).dec ⟨b, r⟩ = some (tv, ⟨[], []⟩) →
      (∀ p ∈ flattenF id fuel n pfx tv, Q p.2) →
      Rd.dictWalk rd fuel n pfx (Cell.mk false b r) = some (flattenF w fuel n pfx tv) := by
  intro fuel
  induction fuel with
  | zero => intro n pfx b r tv h; simp [hashmapF, failC] at h
  | succ fuel ih =>
    intro n pfx b r tv h hq
    simp only [hashmapF, recd_dec, fld, dep, decFields_cons, decFields_nil] at h
    obtain ⟨vs, ⟨lv, s1, hl, vs', ⟨nv, s2, hn, vs'', ⟨rfl, rfl⟩, rfl⟩, rfl⟩, rfl⟩ := h
    have hget : Env.get [("label", lv)] "label" = lv := by simp [Env.get, List.lookup]
    rw [hget] at hn
    simp only [flattenF, get_label, get_node, id] at hq ⊢
    simp only [Rd.dictWalk, Cell.exotic, Bool.false_eq_true, if_false, Cell.bits, Cell.refs, hl]
    unfold hmNode at hn
    by_cases hle : labelLen lv ≤ n
    · simp only [hle, if_true] at hn
      by_cases hz : n - labelLen lv = 0
      · simp only [hz, if_true] at hn hq ⊢
        obtain ⟨k, hk⟩ := hrd _ _ hn (hq _ (List.mem_singleton.2 rfl))
        simp [hk]
      · simp only [hz, if_false] at hn hq ⊢
        simp only [recd_dec, fld, decFields_cons, decFields_nil, ref_dec] at hn
        obtain ⟨vs, ⟨a, s3, ⟨bs, b0, r0, more, rfl, ha, rfl⟩, vs', ⟨bb, s4, ⟨bs', b1, r1, more', hs, hb, rfl⟩, vs'', ⟨rfl, hnil⟩, rfl⟩, rfl⟩, rfl⟩ := hn
        simp only [Frag.mk.injEq] at hs hnil
        obtain ⟨rfl, rfl⟩ := hs
        simp only [get_left, get_right] at hq ⊢
        have h1 := ih _ (pfx ++ Rd.labelBitsOf lv ++ [false]) _ _ _ ha
          (fun p hp => hq p (List.mem_append.2 (Or.inl hp)))
        have h2 := ih _ (pfx ++ Rd.labelBitsOf lv ++ [true]) _ _ _ hb
          (fun p hp => hq p (List.mem_append.2 (Or.inr hp)))
        simp only [List.append_assoc] at h1 h2 ⊢
        simp [h1, h2]
    · simp [hle, failC] at hn

theorem noVar_flatten (fuel n : Nat) (pfx : Bits) (tv : Val) (h : tv.noVar = true) :
    ∀ p ∈ flattenF id fuel n pfx tv, p.2.noVar = true := by
  induction fuel generalizing n pfx tv with
  | zero => intro p hp; simp [flattenF] at hp
  | succ fuel ih =>
    intro p hp
    simp only [flattenF] at hp
    split at hp
    · simp only [List.mem_singleton] at hp
      subst hp
      exact noVar_get _ _ h
    · rcases List.mem_append.1 hp with hp | hp
      · exact ih _ _ _ (noVar_get _ _ (noVar_get _ _ h)) p hp
      · exact ih _ _ _ (noVar_get _ _ (noVar_get _ _ h)) p hp

/-- the leaves of a dictionary value satisfy `Q` -/
def DictLeaves (Q : Val → Prop) (n : Nat) : Val → Prop
  | .con "hme_root" t => ∀ p ∈ flattenF id (n + 1) n [] t, Q p.2
  | _ => True

/-- `S.load_dict(n, value_deserializer=rd)` against `HashmapE n X` -/
theorem RefinesEP.dict {Q rd X w} (h : RefinesEP Q rd X w) (n : Nat) :
    RefinesP (DictLeaves Q n) (Rd.loadDict n rd) (hashmapE n X) (viewDict w n) := by
  intro s v s' hd hp
  obtain ⟨bits, refs⟩ := s
  simp only [hashmapE, tagged_dec, decAlts_cons, decAlts_nil, nothing_dec, ref_dec, hashmap, withGen_dec] at hd
  obtain ⟨_, hd⟩ := hd
  rcases hd with ⟨t, rs, hs, x, ⟨rfl, rfl⟩, rfl⟩ | ⟨_, ⟨t, rs, hs, x, ⟨bs, b, r, more, hs2, hx, rfl⟩, rfl⟩ | ⟨_, hf⟩⟩
  rotate_left 2
  · exact hf.elim
  · simp only [Frag.mk.injEq] at hs
    obtain ⟨rfl, rfl⟩ := hs
    simp [Rd.loadDict, loadBit_cons, Rd.truthy, viewDict]
  · simp only [Frag.mk.injEq] at hs hs2
    obtain ⟨rfl, rfl⟩ := hs
    obtain ⟨rfl, rfl⟩ := hs2
    have := dictWalk_sound X Q rd w (fun s v hd hq => h s v _ hd hq) (n + 1) n [] b r x hx hp
    simp [Rd.loadDict, loadBit_cons, Rd.truthy, loadRef_cons, Cell.exotic, this, viewDict]

theorem dictLeaves_of_noVar (n : Nat) (v : Val) (h : v.noVar = true) : DictLeaves PV n v := by
  unfold DictLeaves
  split
  · rename_i t
    simp only [Val.noVar, Bool.and_eq_true] at h
    exact noVar_flatten _ _ _ _ h.2
  · trivial

theorem RefinesEP.dictV {rd X w} (h : RefinesEP PV rd X w) (n : Nat) :
    RefinesP PV (Rd.loadDict n rd) (hashmapE n X) (viewDict w n) :=
  (h.dict n).mono (dictLeaves_of_noVar n)

theorem RefinesEP.dictT {rd X w} (h : RefinesEP PT rd X w) (n : Nat) :
    RefinesP PT (Rd.loadDict n rd) (hashmapE n X) (viewDict w n) :=
  (h.dict n).mono (fun v _ => by unfold DictLeaves; split <;> simp)

/-! ### more structure lemmas -/

/-- an inline `^[ … ]` group (the parser binds the referenced cell to a slice of its own and goes on reading it) -/
theorem ref_recd_dec (fs : List Field) (s : Frag) (v : Val) (s' : Frag) :
    (ref (recd fs)).dec s = some (v, s') ↔
      ∃ bs b r more, s = ⟨bs, Cell.mk false b r :: more⟩ ∧ (recd fs).dec ⟨b, r⟩ = some (v, ⟨[], []⟩) ∧ s' = ⟨bs, more⟩ :=
  ref_dec (recd fs) s v s'

theorem either_dec (a b : Codec) (s : Frag) (v : Val) (s' : Frag) :
    (either a b).dec s = some (v, s') ↔
      (∃ r rs, s = ⟨false :: r, rs⟩ ∧ ∃ x, a.dec ⟨r, rs⟩ = some (x, s') ∧ v = .con "left" x) ∨
      (∃ r rs, s = ⟨true :: r, rs⟩ ∧ ∃ x, b.dec ⟨r, rs⟩ = some (x, s') ∧ v = .con "right" x) := by
  obtain ⟨bits, refs⟩ := s
  simp only [either]
  constructor
  · intro h
    split at h
    · cases h
    · rename_i r
      simp only [Option.map_eq_some_iff] at h
      obtain ⟨⟨x, s2⟩, h1, h2⟩ := h
      simp only [Option.some.injEq, Prod.mk.injEq] at h2
      exact Or.inl ⟨r, refs, rfl, x, by rw [h1, h2.2], h2.1.symm⟩
    · rename_i r
      simp only [Option.map_eq_some_iff] at h
      obtain ⟨⟨x, s2⟩, h1, h2⟩ := h
      simp only [Option.some.injEq, Prod.mk.injEq] at h2
      exact Or.inr ⟨r, refs, rfl, x, by rw [h1, h2.2], h2.1.symm⟩
  · rintro (⟨r, rs, hb, x, h, rfl⟩ | ⟨r, rs, hb, x, h, rfl⟩)
    · cases hb; simp [h]
    · cases hb; simp [h]

/-- `Any` : the rest of the slice, as a cell -/
theorem rest_dec (s : Frag) (v : Val) (s' : Frag) :
    rest.dec s = some (v, s') ↔ v = .cell (.mk false s.bits s.refs) ∧ s' = ⟨[], []⟩ := by
  simp only [rest, Option.some.injEq, Prod.mk.injEq, Frag.nil]
  constructor <;> (rintro ⟨a, b⟩; exact ⟨a.symm, b.symm⟩)

/-- `^Any` : a body by reference -/
theorem ref_rest_dec (s : Frag) (v : Val) (s' : Frag) :
    (ref rest).dec s = some (v, s') ↔
      ∃ bs b r more, s = ⟨bs, Cell.mk false b r :: more⟩ ∧ v = .cell (.mk false b r) ∧ s' = ⟨bs, more⟩ := by
  rw [ref_dec]
  constructor
  · rintro ⟨bs, b, r, more, rfl, h, rfl⟩
    exact ⟨bs, b, r, more, rfl, ((rest_dec _ _ _).1 h).1, rfl⟩
  · rintro ⟨bs, b, r, more, rfl, rfl, rfl⟩
    exact ⟨bs, b, r, more, rfl, (rest_dec _ _ _).2 ⟨rfl, rfl⟩, rfl⟩

theorem nonUnit_either (a b : Codec) : NonUnit (either a b) := by
  intro s v s' hd
  rcases (either_dec a b s v s').1 hd with ⟨_, _, _, x, _, rfl⟩ | ⟨_, _, _, x, _, rfl⟩ <;> simp

theorem noVar_unit : Val.noVar .unit = true := by simp [Val.noVar]

/-! ### the combinator lemmas in the iff form `simp` rewrites with -/

/-- `Maybe X` read by `Rd.optional s r` -/
theorem optK {r c w} (h : Refines r c w) (hn : NonUnit c) (s : Frag) (v : Val) (s' : Frag) :
    ((maybe c).dec s = some (v, s')) ↔ (Kept (maybe c) s v s' ∧ Rd.optional s r = some (viewMaybe w v, s')) :=
  ⟨fun hd => ⟨hd, ((h.toP PT).optional hn) s v s' hd trivial⟩, fun hd => hd.1⟩

theorem optKP {P r c w} (h : RefinesP P r c w) (hn : NonUnit c) (s : Frag) (v : Val) (s' : Frag) :
    ((maybe c).dec s = some (v, s')) ↔ (Kept (maybe c) s v s' ∧ (P v → Rd.optional s r = some (viewMaybe w v, s'))) :=
  ⟨fun hd => ⟨hd, (h.optional hn) s v s' hd⟩, fun hd => hd.1⟩

/-- `^X` read by `Rd.viaRef r` -/
theorem refK {r : Bool → Frag → Rd.R} {c w} (h : Refines (r false) c w) (s : Frag) (v : Val) (s' : Frag) :
    ((ref c).dec s = some (v, s')) ↔ (Kept (ref c) s v s' ∧ Rd.viaRef r s = some (w v, s')) :=
  ⟨fun hd => ⟨hd, ((h.toP PT).toE.viaRef) s v s' hd trivial⟩, fun hd => hd.1⟩

theorem refKP {P} {r : Bool → Frag → Rd.R} {c w} (h : RefinesEP P (r false) c w) (s : Frag) (v : Val) (s' : Frag) :
    ((ref c).dec s = some (v, s')) ↔ (Kept (ref c) s v s' ∧ (P v → Rd.viaRef r s = some (w v, s'))) :=
  ⟨fun hd => ⟨hd, h.viaRef s v s' hd⟩, fun hd => hd.1⟩

/-- `^X` under a `Maybe` that the parser tests statement by statement: also `viewMaybe w' v = w' v` -/
theorem refKPM {P} {r : Bool → Frag → Rd.R} {c w} (h : RefinesEP P (r false) c w) (hn : NonUnit c) (s : Frag) (v : Val)
    (s' : Frag) :
    ((ref c).dec s = some (v, s')) ↔
      (Kept (ref c) s v s' ∧ (P v → Rd.viaRef r s = some (w v, s')) ∧ ∀ w', viewMaybe w' v = w' v) := by
  refine ⟨fun hd => ⟨hd, h.viaRef s v s' hd, fun w' => ?_⟩, fun hd => hd.1⟩
  have := nonUnit_ref c hn s v s' hd
  cases v <;> simp_all [viewMaybe]

/-- `Maybe ^X` read by `Rd.optional s (Rd.viaRef r)` -/
theorem optRefK {r : Bool → Frag → Rd.R} {c w} (h : Refines (r false) c w) (hn : NonUnit c) (s : Frag) (v : Val) (s' : Frag) :
    ((maybe (ref c)).dec s = some (v, s')) ↔
      (Kept (maybe (ref c)) s v s' ∧ Rd.optional s (Rd.viaRef r) = some (viewMaybe w v, s')) :=
  ⟨fun hd => ⟨hd, (((h.toP PT).toE.viaRef).optional (nonUnit_ref c hn)) s v s' hd trivial⟩, fun hd => hd.1⟩

/-- `HashmapE n X` read by `Rd.loadDict n rd` -/
theorem dictK {rd X w} (h : Refines rd X w) (n : Nat) (s : Frag) (v : Val) (s' : Frag) :
    ((hashmapE n X).dec s = some (v, s')) ↔ (Kept (hashmapE n X) s v s' ∧ Rd.loadDict n rd s = some (viewDict w n v, s')) :=
  ⟨fun hd => ⟨hd, ((h.toP PT).toE.dictT n) s v s' hd trivial⟩, fun hd => hd.1⟩

theorem dictKV {rd X w} (h : RefinesEP PV rd X w) (n : Nat) (s : Frag) (v : Val) (s' : Frag) :
    ((hashmapE n X).dec s = some (v, s')) ↔
      (Kept (hashmapE n X) s v s' ∧ (v.noVar = true → Rd.loadDict n rd s = some (viewDict w n v, s'))) :=
  ⟨fun hd => ⟨hd, (h.dictV n) s v s' hd⟩, fun hd => hd.1⟩

/-- a nested type with a plain theorem, inside a value with a condition -/
theorem Refines.keepV {r c w} (h : Refines r c w) (s : Frag) (v : Val) (s' : Frag) :
    (c.dec s = some (v, s')) ↔ (Kept c s v s' ∧ r s = some (w v, s')) := h.keep s v s'

/-- a nested type whose theorem needs "no addr_var" -/
theorem RefinesP.keepV {r c w} (h : RefinesP PV r c w) (s : Frag) (v : Val) (s' : Frag) :
    (c.dec s = some (v, s')) ↔ (Kept c s v s' ∧ (v.noVar = true → r s = some (w v, s'))) := h.keep s v s'

/-- the two shapes of a `HashmapE` value -/
theorem hashmapE_shape (n : Nat) (X : Codec) (s : Frag) (v : Val) (s' : Frag) (h : (hashmapE n X).dec s = some (v, s')) :
    v = .con "hme_empty" .unit ∨ ∃ t, v = .con "hme_root" t := by
  obtain ⟨bits, refs⟩ := s
  simp only [hashmapE, tagged_dec, decAlts_cons, decAlts_nil, nothing_dec] at h
  rcases h.2 with ⟨_, _, _, x, ⟨rfl, _⟩, rfl⟩ | ⟨_, ⟨_, _, _, x, _, rfl⟩ | ⟨_, hf⟩⟩
  · exact Or.inl rfl
  · exact Or.inr ⟨x, rfl⟩
  · exact hf.elim

/-- `HashmapE n X` read by `Rd.loadDict n rd`, with the shape of the value (for parsers that test the result for `None`) -/
theorem dictKVS {rd X w} (h : RefinesEP PV rd X w) (n : Nat) (s : Frag) (v : Val) (s' : Frag) :
    ((hashmapE n X).dec s = some (v, s')) ↔
      (Kept (hashmapE n X) s v s' ∧ (v.noVar = true → Rd.loadDict n rd s = some (viewDict w n v, s')) ∧
        (v = .con "hme_empty" .unit ∨ ∃ t, v = .con "hme_root" t)) :=
  ⟨fun hd => ⟨hd, (h.dictV n) s v s' hd, hashmapE_shape n X s v s' hd⟩, fun hd => hd.1⟩

theorem dictValuesSorted_dict (kv : List (Bits × Val)) : Rd.dictValuesSorted (Rd.dict kv) = some (Rd.list (kv.map (·.2))) := by
  simp [Rd.dictValuesSorted, Rd.dict, Rd.list, List.map_map, Function.comp_def]

/-- the same with `Rd.dict` unfolded -/
theorem dictValuesSorted_con (f : Bits × Val → String) (kv : List (Bits × Val)) :
    Rd.dictValuesSorted (Val.con "dict" (Val.record (List.map (fun p : Bits × Val => (f p, p.2)) kv))) =
      some (Rd.list (kv.map (·.2))) := by
  simp [Rd.dictValuesSorted, Rd.list, List.map_map, Function.comp_def]

theorem veq_dict_unit (kv : List (Bits × Val)) : Rd.veq (Rd.dict kv) .unit = false := by
  simp [Rd.veq, Rd.dict]

/-! ### tactic -/

/-- `tlb_struct` without `maybe_dec` / `ref_dec`: optional fields and references are read by combinators (`Rd.optional`,
    `Rd.viaRef`) whose lemmas are given per class; a class that reads a Maybe bit / a reference statement by statement adds
    `maybe_dec` / `ref_dec` itself -/
macro "tx_struct" "[" ds:Lean.Parser.Tactic.simpLemma,* "]" : tactic =>
  `(tactic| simp only [$ds,*, fld, dep, bits256, typ_dec, withGen_dec, withPaths_dec, uintRange_dec, uintLe, uintLt,
      recd_dec, decFields_cons, decFields_nil, ctag_dec, tagged_dec, decAlts_cons, decAlts_nil, named_dec,
      constrained_dec, ref_recd_dec, nothing_dec, cellRef_dec, uint1_dec, vBetween_iff, ite_dec, bitLen_60, bitLen_96, bitLen_30,
      forall_exists_index, and_imp, or_imp, false_imp_iff, imp_true_iff, and_true, true_and, Frag.mk.injEq, tag, natToBits,
      List.cons_append, List.nil_append, List.append_assoc, Nat.reduceDiv, Nat.reduceMod, Nat.reduceBEq, Nat.reduceBNe,
      Nat.le_zero_eq, Nat.zero_le, ↓reduceIte, if_true, if_false, Nat.reduceEqDiff, Nat.succ_ne_zero, ne_eq,
      not_false_eq_true, not_true_eq_false])

theorem veq_bits (a b : Bits) : Rd.veq (.bits a) (.bits b) = (a == b) := rfl
theorem veq_unit_unit : Rd.veq .unit .unit = true := rfl

/-- `tlb_eval` with `Rd.veq` kept folded except on bit strings / `None` (for parsers that test a dict for `None`) -/
macro "tx_eval_dict" "[" ds:Lean.Parser.Tactic.simpLemma,* "]" : tactic =>
  `(tactic| (try simp (config := {decide := true}) only [$ds,*, Frag.mk.injEq, uint_keep, sint_keep, bitsC_keep, boolC_keep, grams_keep,
      and_imp, ne_eq, not_false_eq_true, true_and, Nat.reduceMod, Nat.reduceDiv, forall_const] at *
             simp [*, Val.get, List.lookup, Rd.truthy, Rd.obj, Rd.str, Rd.loadRefV,
      Rd.beginParse, Rd.special, Cell.bits, Cell.refs, Cell.exotic, veq_bits, veq_unit_unit, veq_dict_unit, dictValuesSorted_dict,
      Rd.bits01, loadBits_cons, loadBytes_cons, takeBits_zero, takeBits_succ, loadBit_cons, loadBool_cons, loadRef_cons,
      viewMaybe_unit]))

/-- `RefinesP P (SrcTx.T false) T view_T` : `tx_refine [T, SrcTx.T, view_T, (…).keep, …]` -/
macro "tx_refine" "[" ds:Lean.Parser.Tactic.simpLemma,* "]" : tactic =>
  `(tactic| (rintro ⟨bits, refs⟩ v s'
             tx_struct [$ds,*]
             repeat' (first
               | apply And.intro
               | (intro h
                  first
                    | (simp only [Frag.mk.injEq] at h; obtain ⟨h1, h2⟩ := h; subst h1; subst h2)
                    | subst h
                    | skip))
             all_goals tlb_eval [$ds,*, viewMaybe_id, Val.noVar, noVarFs, Bool.and_eq_true, noVar_unit, PT, PV]))

end TonVerif.Tlb
