/-
The dictionary SERIALISER regenerated from pytoniq_core/boc/hashmap/utils.py (Generated/HashmapSrc.lean: `pad`,
`remove_prefix_map`, `find_common_prefix`, `fork_map`, `build_node` / `build_edge`, `build_tree`, `write_label*`, `write_node` /
`write_edge`, `serialize_dict`) equals the hand model Model/Hashmap.lean (`keyBits`, `findCommonPrefix`, `forkMap`, `buildEdge`,
`buildTree`, `labelBits`, `writeEdge`, `serialize`) — for all inputs of the stated domains.

Part 1: `pad`, dict re-keying, `sorted`, `find_common_prefix` (every list of strings).
Part 2: `remove_prefix_map`, `fork_map`, `build_edge` / `build_node`, `build_tree` (pairwise different keys of equal length — what
        `set_int_key` guarantees; outside that domain the Python dict re-keying may merge keys, see design/translators-hashmap.md).
Part 3: `write_label` (three kinds), `write_edge` / `write_node`, `serialize_dict`; for EVERY fuel ≥ 2·key_size + 2.
-/
import TonVerif.Generated.HashmapSrc
import TonVerif.Proofs.Hashmap
import TonVerif.Proofs.SrcHashmap

set_option linter.unusedSimpArgs false
namespace TonVerif.Proofs.SrcHashmapSer
open TonVerif TonVerif.Model TonVerif.Model.Hashmap TonVerif.Spec.Hashmap TonVerif.Proofs.Hashmap
open TonVerif.Generated.HashmapSrc TonVerif.Proofs.SrcHashmap
open TonVerif.Generated.LabelFns

/-! ### Part 1a: `pad` -/

/-- the `while len(src) < size` loop of `pad`, for every loop fuel that is at least the declared variant -/
theorem pad_loop (size : Nat) : ∀ (lf : Nat) (src : Bits), size - src.length ≤ lf →
    pad_while1 size lf src = some (List.replicate (size - src.length) false ++ src) := by
  intro lf
  induction lf with
  | zero =>
    intro src h
    have h0 : size - src.length = 0 := by omega
    have : ¬ src.length < size := by omega
    simp [pad_while1, this, h0]
  | succ lf ih =>
    intro src h
    by_cases hlt : src.length < size
    · have hl : size - ([false] ++ src).length ≤ lf := by simp; omega
      simp only [pad_while1, hlt, if_true, ih _ hl]
      have e : size - src.length = (size - ([false] ++ src).length) + 1 := by simp; omega
      rw [e, List.replicate_succ']
      simp
    · have h0 : size - src.length = 0 := by omega
      simp [pad_while1, hlt, h0]

/-- the declared loop variant of `pad` loses nothing -/
theorem pad_loop_fuel_indep (size lf : Nat) (src : Bits) (h : size - src.length ≤ lf) :
    pad_while1 size lf src = pad_while1 size (size - src.length) src := by
  rw [pad_loop size lf src h, pad_loop size _ src (Nat.le_refl _)]

/-- `pad(src, size)` -/
theorem pad_eq (src : Bits) (size : Nat) : pad src size = some (List.replicate (size - src.length) false ++ src) := by
  unfold pad
  simp [pad_loop size _ src (Nat.le_refl _)]

/-- `pad(bin(key)[2:], key_size)` is the model's `keyBits` -/
theorem pad_key (k size : Nat) : pad (Py.binDigits k) size = some (keyBits size k) := by
  rw [pad_eq]; simp [keyBits, Py.binDigits, binDigits, SrcArith.py_bitLength_eq]

/-! ### Part 1b: dict re-keying -/

theorem dget_of_mem {K V : Type} [DecidableEq K] : ∀ (d : List (K × V)), (d.map Prod.fst).Nodup → ∀ (k : K) (v : V),
    (k, v) ∈ d → Py.dget? k d = some v := by
  intro d
  induction d with
  | nil => intro _ k v h; simp at h
  | cons x d ih =>
    intro hnd k v hm
    obtain ⟨k', v'⟩ := x
    simp only [List.map_cons, List.nodup_cons] at hnd
    by_cases hk : k' = k
    · subst hk
      rcases List.mem_cons.1 hm with h | h
      · simp only [Prod.mk.injEq] at h; simp [Py.dget?, h.2]
      · exact absurd (List.mem_map.2 ⟨(k', v), h, rfl⟩) hnd.1
    · rcases List.mem_cons.1 hm with h | h
      · simp only [Prod.mk.injEq] at h; exact absurd h.1.symm hk
      · simp [Py.dget?, hk, ih hnd.2 k v h]

/-- one step of `for k in src: res[f(k)] = src[k]` -/
def rekeyStep {K K' V : Type} [DecidableEq K] [DecidableEq K'] (f : K → K') (src : List (K × V)) (res : List (K' × V)) (k : K) :
    Option (List (K' × V)) :=
  (Py.dget? k src).bind fun v => some (Py.dset (f k) v res)

theorem rekey_aux {K K' V : Type} [DecidableEq K] [DecidableEq K'] (f : K → K') (src : List (K × V))
    (hnd : (src.map Prod.fst).Nodup) (hnd' : (src.map fun kv => f kv.1).Nodup) :
    ∀ (suf pre : List (K × V)), src = pre ++ suf →
      List.foldlM (rekeyStep f src) (pre.map fun kv => (f kv.1, kv.2)) (suf.map (·.1)) = some (src.map fun kv => (f kv.1, kv.2)) := by
  intro suf
  induction suf with
  | nil => intro pre h; simp [h]
  | cons x suf ih =>
    intro pre h
    obtain ⟨k, v⟩ := x
    have hm : (k, v) ∈ src := by rw [h]; simp
    have hg := dget_of_mem src hnd k v hm
    have hfresh : f k ∉ (pre.map fun kv => (f kv.1, kv.2)).map Prod.fst := by
      rw [h, List.map_append, List.nodup_append] at hnd'
      intro hin
      simp only [List.map_map, List.mem_map, Function.comp] at hin
      obtain ⟨a, ha, he⟩ := hin
      exact hnd'.2.2 _ (List.mem_map.2 ⟨a, ha, rfl⟩) _ (List.mem_map.2 ⟨(k, v), by simp, rfl⟩) he
    simp only [List.map_cons, List.foldlM_cons, rekeyStep, hg, Option.bind_eq_bind, Option.bind_some, dset_new _ _ _ hfresh]
    have := ih (pre ++ [(k, v)]) (by rw [h]; simp)
    simpa [rekeyStep] using this

/-- `res = {}; for k in src: res[f(k)] = src[k]` is the list map, when the keys and the new keys are pairwise different -/
theorem rekey_fold {K K' V : Type} [DecidableEq K] [DecidableEq K'] (f : K → K') (src : List (K × V))
    (hnd : (src.map Prod.fst).Nodup) (hnd' : (src.map fun kv => f kv.1).Nodup) :
    List.foldlM (rekeyStep f src) [] (src.map (·.1)) = some (src.map fun kv => (f kv.1, kv.2)) := by
  simpa using rekey_aux f src hnd hnd' src [] rfl

/-! ### Part 1c: `sorted` on '0'/'1' strings -/

theorem strLe_eq : ∀ (a b : Bits), Py.strLe a b = lexLe a b := by
  intro a
  induction a with
  | nil => intro b; simp [Py.strLe, lexLe]
  | cons x a ih =>
    intro b
    cases b with
    | nil => simp [Py.strLe, lexLe]
    | cons y b => simp [Py.strLe, lexLe, ih]

def Sorted (l : List Bits) : Prop := l.Pairwise (fun a b => lexLe a b = true)

theorem insertSorted_perm (x : Bits) : ∀ l : List Bits, (Py.insertSorted x l).Perm (x :: l) := by
  intro l
  induction l with
  | nil => simp [Py.insertSorted]
  | cons y ys ih =>
    simp only [Py.insertSorted]
    split
    · exact (List.Perm.cons y ih).trans (List.Perm.swap x y ys)
    · exact List.Perm.refl _

theorem insertSorted_sorted (x : Bits) : ∀ l : List Bits, Sorted l → Sorted (Py.insertSorted x l) := by
  intro l
  induction l with
  | nil => intro _; simp [Py.insertSorted, Sorted]
  | cons y ys ih =>
    intro hs
    simp only [Sorted, List.pairwise_cons] at hs
    simp only [Py.insertSorted]
    split
    · rename_i hle
      rw [strLe_eq] at hle
      simp only [Sorted, List.pairwise_cons]
      refine ⟨?_, ih hs.2⟩
      intro z hz
      rcases List.mem_cons.1 ((insertSorted_perm x ys).subset hz) with h | h
      · subst h; exact hle
      · exact hs.1 z h
    · rename_i hle
      rw [strLe_eq] at hle
      have hxy : lexLe x y = true := by
        rcases lexLe_total x y with h | h
        · exact h
        · exact absurd h hle
      simp only [Sorted, List.pairwise_cons]
      refine ⟨?_, hs⟩
      intro z hz
      rcases List.mem_cons.1 hz with h | h
      · subst h; exact hxy
      · exact lexLe_trans _ _ _ hxy (hs.1 z h)

theorem sortedStrs_aux : ∀ (xs acc : List Bits), Sorted acc →
    Sorted (xs.foldl (fun acc x => Py.insertSorted x acc) acc) ∧ (xs.foldl (fun acc x => Py.insertSorted x acc) acc).Perm (acc ++ xs) := by
  intro xs
  induction xs with
  | nil => intro acc h; simp [h]
  | cons x xs ih =>
    intro acc h
    obtain ⟨s, p⟩ := ih (Py.insertSorted x acc) (insertSorted_sorted x acc h)
    refine ⟨s, p.trans ?_⟩
    have := (insertSorted_perm x acc).append_right xs
    exact this.trans (by simpa using (List.perm_middle (l₁ := acc) (l₂ := xs) (a := x)).symm)

theorem sortedStrs_spec (xs : List Bits) : Sorted (Py.sortedStrs xs) ∧ (Py.sortedStrs xs).Perm xs := by
  have := sortedStrs_aux xs [] (by simp [Sorted])
  simpa [Py.sortedStrs] using this

/-- `sorted(src)[0]` is the lexicographic minimum, `sorted(src)[-1]` the maximum -/
theorem sortedStrs_ends (k : Bits) (ks : List Bits) :
    (Py.sortedStrs (k :: ks))[0]? = some (lexMin k ks) ∧ (Py.sortedStrs (k :: ks)).getLast? = some (lexMax k ks) := by
  obtain ⟨hs, hp⟩ := sortedStrs_spec (k :: ks)
  generalize Py.sortedStrs (k :: ks) = l at hs hp
  have hmin_mem : lexMin k ks ∈ l := hp.symm.subset (lexMin_mem k ks)
  have hmax_mem : lexMax k ks ∈ l := hp.symm.subset (lexMax_mem k ks)
  constructor
  · cases l with
    | nil => simp at hmin_mem
    | cons h t =>
      simp only [List.getElem?_cons_zero, Option.some.injEq]
      simp only [Sorted, List.pairwise_cons] at hs
      apply lexLe_antisymm
      · rcases List.mem_cons.1 hmin_mem with e | e
        · rw [e]; exact lexLe_refl _
        · exact hs.1 _ e
      · exact lexMin_le k ks h (hp.subset (by simp))
  · have hne : l ≠ [] := by intro e; simp [e] at hmin_mem
    rw [List.getLast?_eq_some_getLast hne]
    simp only [Option.some.injEq]
    have hl : l = l.dropLast ++ [l.getLast hne] := (List.dropLast_concat_getLast hne).symm
    have hlast_mem : l.getLast hne ∈ l := List.getLast_mem hne
    apply lexLe_antisymm
    · exact le_lexMax k ks _ (hp.subset hlast_mem)
    · rw [hl] at hmax_mem hs
      simp only [Sorted, List.pairwise_append, List.mem_singleton] at hs
      rcases List.mem_append.1 hmax_mem with e | e
      · exact hs.2.2 _ e _ rfl
      · simp only [List.mem_singleton] at e; rw [e]; exact lexLe_refl _

/-! ### Part 1d: `find_common_prefix` -/

/-- the `for i, e in enumerate(a): if e == b[i]: size += 1 else: break` loop: never indexes out of `b` when `a <= b` -/
theorem prefix_loop (b : Bits) (f : Nat × Bool → Nat → Option (Nat × Bool))
    (hf : ∀ i e size, f (i, e) size = (b[i]?).bind fun x => if e = x then some (size + 1, false) else some (size, true)) :
    ∀ (a' b' : Bits) (j size : Nat), (∀ i, b[j + i]? = b'[i]?) → lexLe a' b' = true →
      Py.loop? ((List.range' j a'.length).zip a') size f = some (size + (commonPrefix a' b').length) := by
  intro a'
  induction a' with
  | nil => intro b' j size _ _; simp [Py.loop?, commonPrefix]
  | cons a0 a'' ih =>
    intro b' j size hb hle
    cases b' with
    | nil => simp [lexLe] at hle
    | cons b0 b'' =>
      have hbj : b[j]? = some b0 := by simpa using hb 0
      simp only [List.length_cons, List.range'_succ, List.zip_cons_cons, Py.loop?, hf, hbj, Option.bind_some]
      by_cases he : a0 = b0
      · subst he
        simp only [if_true, Option.bind_some, Bool.false_eq_true, if_false, commonPrefix, beq_self_eq_true, List.length_cons]
        have hle' : lexLe a'' b'' = true := by simpa [lexLe] using hle
        rw [ih b'' (j + 1) (size + 1) (fun i => by have := hb (i + 1); simp only [List.getElem?_cons_succ] at this; rw [← this]; congr 1; omega) hle']
        congr 1; omega
      · have : (a0 == b0) = false := by simpa using he
        simp [he, commonPrefix, this]

theorem take_commonPrefix (a b : Bits) : a.take (commonPrefix a b).length = commonPrefix a b :=
  (List.prefix_iff_eq_take.1 (commonPrefix_left a b)).symm

/-- REGENERATED `find_common_prefix(src)` = the hand model's `findCommonPrefix`, for EVERY list of '0'/'1' strings: it never raises
(`_sorted[-1][i]` stays in range because `_sorted[0] <= _sorted[-1]`), and returns the common prefix of the least and the greatest string. -/
theorem find_common_prefix_eq (src : List Bits) : find_common_prefix src = some (findCommonPrefix src) := by
  unfold find_common_prefix
  match src with
  | [] => simp [findCommonPrefix]
  | [k] => simp [findCommonPrefix]
  | k1 :: k2 :: ks =>
    obtain ⟨h0, hl⟩ := sortedStrs_ends k1 (k2 :: ks)
    have hle : lexLe (lexMin k1 (k2 :: ks)) (lexMax k1 (k2 :: ks)) = true := le_lexMax k1 (k2 :: ks) _ (lexMin_mem k1 (k2 :: ks))
    have hloop := prefix_loop (lexMax k1 (k2 :: ks))
      (fun (x : Nat × Bool) size => do
          let x3 ← (Py.sortedStrs (k1 :: k2 :: ks)).getLast?
          let x4 ← (x3)[x.1]?
          if (x.2 = x4) then do
            let size := (size + 1)
            pure (size, false)
          else do
            pure (size, true))
      (by intro i e size; simp [hl])
      (lexMin k1 (k2 :: ks)) (lexMax k1 (k2 :: ks)) 0 0 (by simp) hle
    simp only [List.length_cons, Nat.add_eq_zero_iff, one_ne_zero, and_false, if_false, Nat.reduceEqDiff, h0,
      Option.bind_eq_bind, Option.bind_some, Option.pure_def, Py.enumerate, List.range_eq_range']
    simp only [Nat.zero_add, Option.bind_eq_bind, Option.pure_def] at hloop
    simp only [findCommonPrefix]
    rw [hloop]
    simp [take_commonPrefix]

/-! ### Part 2a: `remove_prefix_map`, `fork_map` -/

/-- REGENERATED `remove_prefix_map(src, length)` = the list map of the hand model, when the keys and the shortened keys are pairwise
different (else the Python dict would merge entries). -/
theorem remove_prefix_map_eq {V : Type} (src : List (Bits × V)) (len : Nat) (hnd : (src.map Prod.fst).Nodup)
    (hnd' : (src.map fun kv => kv.1.drop len).Nodup) :
    remove_prefix_map src len = some (src.map fun kv => (kv.1.drop len, kv.2)) := by
  unfold remove_prefix_map
  by_cases h : len = 0
  · subst h; simp
  · simp only [h, if_false, Option.bind_eq_bind, Option.pure_def]
    have := rekey_fold (fun k : Bits => k.drop len) src hnd hnd'
    exact this

theorem findBit_zero (k : Bits) : Py.findBit k false = 0 ↔ ∃ t, k = false :: t := by
  cases k with
  | nil => simp [Py.findBit]
  | cons b t =>
    cases b with
    | false => simp [Py.findBit, List.findIdx?_cons]
    | true =>
      simp only [Py.findBit, List.findIdx?_cons]
      cases List.findIdx? (fun x => x == false) t with
      | none => simp
      | some i => simp; omega

/-- one step of the `for k in src` loop of `fork_map` -/
def forkStep {V : Type} (src : List (Bits × V)) (acc : List (Bits × V) × List (Bits × V)) (k : Bits) :
    Option (List (Bits × V) × List (Bits × V)) :=
  if Py.findBit k false = (0 : Int) then (Py.dget? k src).bind fun v => some (Py.dset (k.drop 1) v acc.1, acc.2)
  else (Py.dget? k src).bind fun v => some (acc.1, Py.dset (k.drop 1) v acc.2)

theorem leftOf_append {V : Type} (a b : List (Bits × V)) : leftOf (a ++ b) = leftOf a ++ leftOf b := by
  simp [leftOf, List.filterMap_append]
theorem rightOf_append {V : Type} (a b : List (Bits × V)) : rightOf (a ++ b) = rightOf a ++ rightOf b := by
  simp [rightOf, List.filterMap_append]

theorem fork_aux {V : Type} (src : List (Bits × V)) (hnd : (src.map Prod.fst).Nodup)
    (hl : ((leftOf src).map Prod.fst).Nodup) (hr : ((rightOf src).map Prod.fst).Nodup) :
    ∀ (suf pre : List (Bits × V)), src = pre ++ suf →
      List.foldlM (forkStep src) (leftOf pre, rightOf pre) (suf.map (·.1)) = some (leftOf src, rightOf src) := by
  intro suf
  induction suf with
  | nil => intro pre h; simp [h]
  | cons x suf ih =>
    intro pre h
    obtain ⟨k, v⟩ := x
    have hm : (k, v) ∈ src := by rw [h]; simp
    have hg := dget_of_mem src hnd k v hm
    have hnext := ih (pre ++ [(k, v)]) (by rw [h]; simp)
    simp only [List.map_cons, List.foldlM_cons, forkStep, hg, Option.bind_eq_bind, Option.bind_some]
    by_cases hz : Py.findBit k false = 0
    · obtain ⟨t, rfl⟩ := (findBit_zero k).1 hz
      have e1 : leftOf (pre ++ [(false :: t, v)]) = leftOf pre ++ [(t, v)] := by rw [leftOf_append]; simp [leftOf]
      have e2 : rightOf (pre ++ [(false :: t, v)]) = rightOf pre := by rw [rightOf_append]; simp [rightOf]
      have hfresh : t ∉ (leftOf pre).map Prod.fst := by
        rw [h, leftOf_append] at hl
        have e3 : leftOf ((false :: t, v) :: suf) = (t, v) :: leftOf suf := by simp [leftOf]
        rw [e3, List.map_append, List.nodup_append] at hl
        intro hin
        exact hl.2.2 _ hin _ (by simp) rfl
      simp only [hz, if_true, List.drop_succ_cons, List.drop_zero, dset_new _ _ _ hfresh, Option.bind_some]
      rw [e1, e2] at hnext
      exact hnext
    · have e1 : leftOf (pre ++ [(k, v)]) = leftOf pre := by
        rw [leftOf_append]
        cases k with
        | nil => simp [leftOf]
        | cons b t => cases b with
          | false => exact absurd ((findBit_zero _).2 ⟨t, rfl⟩) hz
          | true => simp [leftOf]
      have e0 : ∀ sf : List (Bits × V), rightOf ((k, v) :: sf) = (k.drop 1, v) :: rightOf sf := by
        intro sf
        cases k with
        | nil => simp [rightOf]
        | cons b t => cases b with
          | false => exact absurd ((findBit_zero _).2 ⟨t, rfl⟩) hz
          | true => simp [rightOf]
      have e2 : rightOf (pre ++ [(k, v)]) = rightOf pre ++ [(k.drop 1, v)] := by
        rw [rightOf_append, e0]; simp [rightOf]
      have hfresh : k.drop 1 ∉ (rightOf pre).map Prod.fst := by
        rw [h, rightOf_append, e0, List.map_append, List.nodup_append] at hr
        intro hin
        exact hr.2.2 _ hin _ (by simp) rfl
      simp only [hz, if_false, dset_new _ _ _ hfresh, Option.bind_some]
      rw [e1, e2] at hnext
      exact hnext

/-- REGENERATED `fork_map(src)` = the hand model's `forkMap` (both assertions included), when the keys of `src`, of the left part and of
the right part are pairwise different. -/
theorem fork_map_eq {V : Type} (src : List (Bits × V)) (hnd : (src.map Prod.fst).Nodup)
    (hl : ((leftOf src).map Prod.fst).Nodup) (hr : ((rightOf src).map Prod.fst).Nodup) :
    fork_map src = forkMap src := by
  unfold fork_map
  rw [forkMap_eq]
  by_cases h0 : src = []
  · subst h0; simp [leftOf]
  have hpos : src.length > 0 := List.length_pos_iff.2 h0
  have hfold := fork_aux src hnd hl hr src [] rfl
  have hn1 : leftOf ([] : List (Bits × V)) = [] := rfl
  have hn2 : rightOf ([] : List (Bits × V)) = [] := rfl
  rw [hn1, hn2] at hfold
  have key : ∀ (step : List (Bits × V) × List (Bits × V) → Bits → Option (List (Bits × V) × List (Bits × V))),
      (∀ x k, step x k = forkStep src x k) → List.foldlM step ([], []) (src.map (·.1)) = some (leftOf src, rightOf src) := by
    intro step hs
    have : step = forkStep src := funext fun x => funext fun k => hs x k
    rw [this]; exact hfold
  simp only [hpos, not_true_eq_false, if_false, Option.bind_eq_bind, Option.pure_def]
  rw [key]
  rotate_left
  · rintro ⟨l, r⟩ k
    simp only [forkStep]
    split <;> cases Py.dget? k src <;> rfl
  simp only [Option.bind_some]
  by_cases h1 : leftOf src = []
  · simp [h1]
  by_cases h2 : rightOf src = []
  · simp [h2, List.length_pos_iff.2 h1]
  simp [h1, h2, List.length_pos_iff.2 h1, List.length_pos_iff.2 h2]

/-! ### Part 2b: `build_edge` / `build_node`, `build_tree` -/

/-- the dict tree `build_edge` returns for the hand model's `Edge` -/
def toTree {V : Type} : Edge V → Py.Tree V
  | .leaf s v => .edge s (.leaf v)
  | .fork s l r => .edge s (.fork (toTree l) (toTree r))

/-- facts about the map `remove_prefix_map(src, len(label))` of `build_edge` for pairwise different `n`-bit keys -/
theorem rest_facts {V : Type} (n : Nat) (src : List (Bits × V)) (hlen : ∀ kv ∈ src, kv.1.length = n) (hnd : (src.map Prod.fst).Nodup)
    (label : Bits) (hlab : findCommonPrefix (src.map (·.1)) = label) :
    ((src.map fun kv => (kv.1.drop label.length, kv.2)).map Prod.fst).Nodup ∧
    (∀ kv ∈ src.map (fun kv => (kv.1.drop label.length, kv.2)), kv.1.length = n - label.length) := by
  have hpre : ∀ kv ∈ src, label <+: kv.1 :=
    fun kv hkv => hlab ▸ findCommonPrefix_prefix _ kv.1 (List.mem_map_of_mem (f := (·.1)) hkv)
  have hsrc : src = (src.map (fun kv => (kv.1.drop label.length, kv.2))).map (pre label) := by
    rw [List.map_map]
    conv => lhs; rw [← List.map_id src]
    apply List.map_congr_left
    intro kv hkv
    obtain ⟨r, hr⟩ := hpre kv hkv
    obtain ⟨k, v⟩ := kv
    simp only at hr
    simp [pre, ← hr]
  constructor
  · rw [hsrc, map_pre_fst] at hnd
    exact nodup_of_map_append _ hnd
  · intro kv hkv
    obtain ⟨a, ha, rfl⟩ := List.mem_map.1 hkv
    simp [hlen a ha]

/-- facts about `fork_map(rest)` for pairwise different (m+1)-bit keys -/
theorem fork_facts {V : Type} (m : Nat) (rest : List (Bits × V)) (hrlen : ∀ kv ∈ rest, kv.1.length = m + 1)
    (hnd : (rest.map Prod.fst).Nodup) :
    ((leftOf rest).map Prod.fst).Nodup ∧ ((rightOf rest).map Prod.fst).Nodup := by
  have hne' : ∀ kv ∈ rest, kv.1 ≠ [] := by
    intro kv hkv h0; have := hrlen kv hkv; rw [h0] at this; simp at this
  have hperm := fork_perm rest hne'
  have hnd2 : ((leftOf rest).map (pre [false]) ++ (rightOf rest).map (pre [true])).map Prod.fst |>.Nodup :=
    (hperm.map Prod.fst).nodup_iff.1 hnd
  rw [List.map_append, map_pre_fst, map_pre_fst] at hnd2
  exact ⟨nodup_of_map_append _ (List.nodup_append.1 hnd2).1, nodup_of_map_append _ (List.nodup_append.1 hnd2).2.1⟩

/-- REGENERATED `build_edge(src)` (with `build_node`, `find_common_prefix`, `remove_prefix_map`, `fork_map`) = the hand model's
`buildEdge`, for every dict of pairwise different `n`-bit keys, every Python-side fuel ≥ 2n + 2 and every model fuel > n: the same
tree (labels, fork structure, leaf values) or the same AssertionError. -/
theorem build_edge_eq {V : Type} : ∀ (n : Nat) (src : List (Bits × V)) (fuel mf : Nat),
    (∀ kv ∈ src, kv.1.length = n) → (src.map Prod.fst).Nodup → 2 * n + 2 ≤ fuel → n < mf →
    build_edge fuel src = (buildEdge mf src).map toTree := by
  intro n
  induction n using Nat.strong_induction_on with
  | _ n ih =>
    intro src fuel mf hlen hnd hf hm
    obtain ⟨f, rfl⟩ : ∃ f, fuel = f + 2 := ⟨fuel - 2, by omega⟩
    obtain ⟨mf', rfl⟩ : ∃ g, mf = g + 1 := ⟨mf - 1, by omega⟩
    rw [build_edge, buildEdge]
    by_cases h0 : src = []
    · subst h0; simp
    have hpos : src.length > 0 := List.length_pos_iff.2 h0
    have hemp : src.isEmpty = false := by cases src <;> simp at h0 ⊢
    simp only [hpos, not_true_eq_false, if_false, hemp, Bool.false_eq_true, find_common_prefix_eq, Option.bind_eq_bind,
      Option.bind_some, Option.pure_def]
    generalize hlab : findCommonPrefix (src.map (·.1)) = label
    obtain ⟨hrnd, hrlen⟩ := rest_facts n src hlen hnd label hlab
    have hrnd' : (src.map fun kv => kv.1.drop label.length).Nodup := by simpa [List.map_map, Function.comp_def] using hrnd
    rw [remove_prefix_map_eq src label.length hnd hrnd']
    have hrne : src.map (fun kv => (kv.1.drop label.length, kv.2)) ≠ [] := by simpa using h0
    generalize src.map (fun kv => (kv.1.drop label.length, kv.2)) = rest at hrnd hrlen hrne
    simp only [Option.bind_some]
    rw [build_node]
    match rest, hrne, hrnd, hrlen with
    | [], hrne, _, _ => exact absurd rfl hrne
    | [(k, v)], _, _, _ => simp [toTree]
    | a :: b :: tl, _, hrnd, hrlen =>
      have hpos' : 0 < n - label.length := by
        by_contra hz
        have hz : n - label.length = 0 := by omega
        have ha : a.1 = [] := List.length_eq_zero_iff.1 (by rw [hrlen a (by simp), hz])
        have hb : b.1 = [] := List.length_eq_zero_iff.1 (by rw [hrlen b (by simp), hz])
        simp [ha, hb] at hrnd
      obtain ⟨m, hmm⟩ : ∃ m, n - label.length = m + 1 := ⟨n - label.length - 1, by omega⟩
      have hrlen' : ∀ kv ∈ a :: b :: tl, kv.1.length = m + 1 := fun kv hkv => by rw [hrlen kv hkv, hmm]
      obtain ⟨hndl, hndr⟩ := fork_facts m (a :: b :: tl) hrlen' hrnd
      have hlen2 : (a :: b :: tl).length > 0 := by simp
      have hlen3 : ¬ (a :: b :: tl).length = 1 := by simp
      simp only [hlen2, not_true_eq_false, if_false, hlen3, Option.bind_eq_bind, Option.pure_def,
        fork_map_eq (a :: b :: tl) hrnd hndl hndr]
      cases hfm : forkMap (a :: b :: tl) with
      | none => simp
      | some lr =>
        obtain ⟨l, r⟩ := lr
        rw [forkMap_eq] at hfm
        split at hfm
        · simp at hfm
        · simp only [Option.some.injEq, Prod.mk.injEq] at hfm
          obtain ⟨rfl, rfl⟩ := hfm
          have il := ih m (by omega) (leftOf (a :: b :: tl)) f mf' (leftOf_len _ m hrlen') hndl (by omega) (by omega)
          have ir := ih m (by omega) (rightOf (a :: b :: tl)) f mf' (rightOf_len _ m hrlen') hndr (by omega) (by omega)
          simp only [Option.bind_some, il, ir]
          cases buildEdge mf' (leftOf (a :: b :: tl)) <;> cases buildEdge mf' (rightOf (a :: b :: tl)) <;> simp [toTree]

/-- `rekey_fold` for any spelling of the loop body -/
theorem rekey_fold' {K K' V : Type} [DecidableEq K] [DecidableEq K'] (f : K → K') (src : List (K × V))
    (hnd : (src.map Prod.fst).Nodup) (hnd' : (src.map fun kv => f kv.1).Nodup)
    (step : List (K' × V) → K → Option (List (K' × V))) (hs : ∀ res k, step res k = rekeyStep f src res k) :
    List.foldlM step [] (src.map (·.1)) = some (src.map fun kv => (f kv.1, kv.2)) := by
  have : step = rekeyStep f src := funext fun x => funext fun k => hs x k
  rw [this]; exact rekey_fold f src hnd hnd'

theorem keyBits_nodup {V : Type} (n : Nat) (d : Dict V) (hd : (d.map Prod.fst).Nodup) :
    (d.map fun kv => keyBits n kv.1).Nodup := by
  have : (fun kv : Nat × V => keyBits n kv.1) = (keyBits n) ∘ Prod.fst := by funext x; rfl
  rw [this, ← List.map_map]
  refine nodup_map_on _ _ ?_ hd
  intro a _ b _ hab
  have := congrArg natOfBits hab
  simpa [natOfBits_keyBits] using this

/-- REGENERATED `build_tree(src, key_size)` = the hand model's `buildTree`, for every map built by `set_int_key` (`DictOK`: pairwise
different keys < 2^n), n ≥ 1, every fuel ≥ 2n + 2. -/
theorem build_tree_eq {V : Type} (n : Nat) (hn : 0 < n) (d : Dict V) (hd : DictOK n d) (fuel : Nat) (hf : 2 * n + 2 ≤ fuel) :
    build_tree fuel d n = (buildTree n d).map toTree := by
  unfold build_tree buildTree
  simp only [Option.bind_eq_bind, Option.pure_def]
  rw [rekey_fold' (keyBits n) d hd.1 (keyBits_nodup n d hd.1)]
  rotate_left
  · intro res k
    simp [rekeyStep, pad_key]
  simp only [Option.bind_some]
  have hlen : ∀ kv ∈ d.map (fun kv => (keyBits n kv.1, kv.2)), kv.1.length = n := by
    intro kv hkv
    obtain ⟨a, ha, rfl⟩ := List.mem_map.1 hkv
    exact keyBits_length n a.1 hn (hd.2 a ha)
  have hnd : ((d.map (fun kv => (keyBits n kv.1, kv.2))).map Prod.fst).Nodup := by
    simpa [List.map_map, Function.comp_def] using keyBits_nodup n d hd.1
  rw [build_edge_eq n _ fuel (n + 1) hlen hnd hf (by omega)]

/-! ### Part 3a: the label writer -/

/-- the builder with `x` appended -/
def app (b : Py.Bld) (x : Bits) : Py.Bld := { b with bits := b.bits ++ x }
@[simp] theorem app_bits (b : Py.Bld) (x : Bits) : (app b x).bits = b.bits ++ x := rfl
@[simp] theorem app_refs (b : Py.Bld) (x : Bits) : (app b x).refs = b.refs := rfl
theorem app_app (b : Py.Bld) (x y : Bits) : app (app b x) y = app b (x ++ y) := by simp [app]

theorem extend_eq (b : Py.Bld) (x : Bits) : b.extend? x = if b.bits.length + x.length > 1023 then none else some (app b x) := rfl

theorem extend_extend (b : Py.Bld) (x y : Bits) : (b.extend? x).bind (fun b' => b'.extend? y) = b.extend? (x ++ y) := by
  simp only [extend_eq]
  by_cases h1 : b.bits.length + x.length > 1023
  · have : b.bits.length + (x ++ y).length > 1023 := by simp; omega
    rw [if_pos h1, if_pos this]; rfl
  · rw [if_neg h1]
    simp only [Option.bind_some, app_bits, List.length_append, app_app]
    by_cases h2 : b.bits.length + x.length + y.length > 1023
    · have : b.bits.length + (x.length + y.length) > 1023 := by omega
      rw [if_pos h2, if_pos this]
    · have : ¬ b.bits.length + (x.length + y.length) > 1023 := by omega
      rw [if_neg h2, if_neg this]

/-- a `for e in src: to.store_bit_int(g(e))` loop on a builder that is not over-full -/
theorem storeBits_fold {α : Type} (g : α → Bool) : ∀ (l : List α) (b : Py.Bld), b.bits.length ≤ 1023 →
    List.foldlM (fun to_ e => (Py.Bld.extend? to_ [g e])) b l = b.extend? (l.map g) := by
  intro l
  induction l with
  | nil =>
    intro b hb
    have : ¬ b.bits.length + 0 > 1023 := by omega
    simp only [List.foldlM_nil, List.map_nil, extend_eq, List.length_nil, if_neg this]
    simp [app]
  | cons e l ih =>
    intro b hb
    simp only [List.foldlM_cons, List.map_cons, Option.bind_eq_bind]
    by_cases h1 : b.bits.length + [g e].length > 1023
    · have : b.bits.length + ((g e) :: l.map g).length > 1023 := by simp at h1 ⊢; omega
      rw [extend_eq b [g e], if_pos h1, extend_eq b (g e :: _), if_pos this]; rfl
    · have hb' : (app b [g e]).bits.length ≤ 1023 := by simp at h1 ⊢; omega
      rw [extend_eq b [g e], if_neg h1]
      simp only [Option.bind_some, ih _ hb']
      have := extend_extend b [g e] (l.map g)
      rw [extend_eq b [g e], if_neg h1] at this
      simpa using this

/-- … after a first store (which makes the builder not over-full) -/
theorem extend_then_fold {α : Type} (g : α → Bool) (l : List α) (b : Py.Bld) (x : Bits) :
    (b.extend? x).bind (fun b' => List.foldlM (fun to_ e => (Py.Bld.extend? to_ [g e])) b' l) = b.extend? (x ++ l.map g) := by
  rw [← extend_extend]
  by_cases h1 : b.bits.length + x.length > 1023
  · rw [extend_eq b x, if_pos h1]; rfl
  · have hb' : (app b x).bits.length ≤ 1023 := by simp; omega
    rw [extend_eq b x, if_neg h1]
    simp only [Option.bind_some, storeBits_fold g l _ hb']

theorem storeUint_eq (b : Py.Bld) (v l : Nat) : b.storeUint? v l = (BOp.int2baU (v : Int) l).bind b.extend? := rfl
theorem storeBit_eq (b : Py.Bld) (x : Bool) : b.storeBit? x = b.extend? [x] := rfl

/-- REGENERATED `write_label_short(src, to)` appends `0 1^n 0 src` (or raises on overflow) -/
theorem write_label_short_eq (src : Bits) (b : Py.Bld) :
    write_label_short src b = b.extend? (false :: (List.replicate src.length true ++ false :: src)) := by
  unfold write_label_short
  simp only [Option.bind_eq_bind, storeBit_eq]
  rw [← Option.bind_assoc, extend_then_fold (fun _ => true)]
  rw [← Option.bind_assoc, extend_extend]
  rw [extend_then_fold (fun e : Bool => decide (e = true))]
  congr 1
  have : List.map (fun _ : Bool => true) src = List.replicate src.length true := by
    induction src with
    | nil => rfl
    | cons x t ih => simp [List.replicate_succ, ih]
  simp [this]

/-- REGENERATED `write_label_long(src, key_length, to)` appends `10 len src`, `len` in `bit_length(key_length)` bits -/
theorem write_label_long_eq (src : Bits) (k : Int) (b : Py.Bld) :
    write_label_long src k b =
      (BOp.int2baU src.length (bitLength k.natAbs)).bind fun lb => b.extend? (true :: false :: (lb ++ src)) := by
  unfold write_label_long
  simp only [Option.bind_eq_bind, SrcArith.py_bitLength_eq, storeUint_eq, storeBit_eq]
  cases hlb : BOp.int2baU (src.length : Int) (bitLength k.natAbs) with
  | none => simp
  | some lb =>
    simp only [Option.bind_some]
    rw [← Option.bind_assoc, extend_extend, ← Option.bind_assoc, extend_extend, extend_then_fold (fun e : Bool => decide (e = true))]
    congr 1
    simp

/-- REGENERATED `write_label_same(value, length, key_length, to)` appends `11 v len` -/
theorem write_label_same_eq (v : Bool) (len : Nat) (k : Int) (b : Py.Bld) :
    write_label_same v len k b =
      (BOp.int2baU len (bitLength k.natAbs)).bind fun lb => b.extend? (true :: true :: v :: lb) := by
  unfold write_label_same
  simp only [Option.bind_eq_bind, SrcArith.py_bitLength_eq, storeUint_eq, storeBit_eq]
  cases hlb : BOp.int2baU (len : Int) (bitLength k.natAbs) with
  | none => simp
  | some lb =>
    simp only [Option.bind_some]
    rw [← Option.bind_assoc, extend_extend, ← Option.bind_assoc, extend_extend, extend_extend]
    rfl

/-- REGENERATED `write_label(src, key_size, to)` appends exactly the bits of the hand model's `labelBits` — the constructor chosen by
`detect_label_type` (short / long / same, ties to the earlier one), its length field, its payload — and raises iff `store_uint` refuses
the length or the builder overflows; for EVERY label, EVERY int `key_size` and every builder. -/
theorem write_label_eq (src : Bits) (k : Int) (b : Py.Bld) :
    write_label src k b = (labelBits src k.natAbs).bind b.extend? := by
  unfold write_label labelBits
  simp only [Option.bind_eq_bind, Option.pure_def]
  cases hk : detect_label_type src k.natAbs with
  | short =>
    simp [Py.kindStr, write_label_short_eq]
  | long =>
    simp only [Py.kindStr, write_label_long_eq]
    simp
    cases BOp.int2baU (src.length : Int) (bitLength k.natAbs) <;> simp
  | same =>
    have hne : src ≠ [] := by
      rw [detect_eq] at hk
      exact refPolicy_same_ne hk
    obtain ⟨x, t, rfl⟩ : ∃ x t, src = x :: t := by
      cases src with
      | nil => exact absurd rfl hne
      | cons x t => exact ⟨x, t, rfl⟩
    simp only [Py.kindStr, write_label_same_eq]
    simp
    cases BOp.int2baU ((t.length : Int) + 1) (bitLength k.natAbs) <;> simp

/-! ### Part 3b: `write_edge` / `write_node`, `serialize_dict` -/

/-- the callback `serializer(value, builder)` of a value serialiser that appends the bits and references `ser v` to the builder
(`none` = it raises; more than 1023 bits / 4 references in the builder raise) -/
def serCb {V : Type} (ser : V → Option Val) (v : V) (b : Py.Bld) : Option Py.Bld :=
  (ser v).bind fun w =>
    if b.bits.length + w.1.length > 1023 ∨ b.refs.length + w.2.length > 4 then none
    else some ⟨b.bits ++ w.1, b.refs ++ w.2⟩

/-- REGENERATED `write_edge(tree, key_size, serializer, Builder())` + `end_cell()` = the hand model's `writeEdge`, for every tree that
spells `n`-bit keys, every value serialiser of the form `serCb ser`, every fuel ≥ 2n + 2: same cell (label bits, value, the two child
cells) or both raise (the per-store overflow checks of the code amount to the one check per cell of the model). -/
theorem write_edge_eq {V : Type} (ser : V → Option Val) : ∀ (t : Edge V) (n fuel : Nat), Edge.Sized t n → 2 * n + 2 ≤ fuel →
    (write_edge (serCb ser) fuel (toTree t) (n : Int) Py.Bld.empty).map Py.Bld.endCell = writeEdge ser t n := by
  intro t
  induction t with
  | leaf s v =>
    intro n fuel hs hf
    obtain ⟨f, rfl⟩ : ∃ f, fuel = f + 2 := ⟨fuel - 2, by omega⟩
    simp only [write_edge, write_node, toTree, Py.Tree.label?, Py.Tree.node?, Py.Tree.type?, Py.Tree.value?, Option.bind_eq_bind, Option.bind_some,
      Option.pure_def, write_label_eq, Int.natAbs_natCast, writeEdge]
    cases hlb : labelBits s n with
    | none => simp
    | some lb =>
      simp only [Option.bind_some, extend_eq, Py.Bld.empty, List.length_nil, Nat.zero_add]
      by_cases h1 : lb.length > 1023
      · simp only [h1, if_true, Option.bind_none, Option.map_none]
        cases ser v with
        | none => rfl
        | some w =>
          have : (lb ++ w.1).length > 1023 ∨ w.2.length > 4 := Or.inl (by simp; omega)
          simp only [Option.bind_some, if_pos this]
      · simp only [h1, if_false, Option.bind_some]
        simp only [serCb, app]
        cases ser v with
        | none => simp
        | some w =>
          obtain ⟨vb, vr⟩ := w
          simp only [Option.bind_some, List.nil_append, List.length_nil, Nat.zero_add, List.length_append]
          by_cases h2 : lb.length + vb.length > 1023 ∨ vr.length > 4
          · simp [h2]
          · simp [h2, Py.Bld.endCell]
  | fork s l r ihl ihr =>
    intro n fuel hs hf
    obtain ⟨m, hn, hsl, hsr⟩ := hs
    obtain ⟨f, rfl⟩ : ∃ f, fuel = f + 2 := ⟨fuel - 2, by omega⟩
    have il := ihl m f hsl (by omega)
    have ir := ihr m f hsr (by omega)
    have hm : n - s.length - 1 = m := by omega
    have hmi : (n : Int) - (s.length : Int) - 1 = (m : Int) := by omega
    simp only [write_edge, write_node, toTree, Py.Tree.label?, Py.Tree.node?, Py.Tree.type?, Py.Tree.left?, Py.Tree.right?, Option.bind_eq_bind,
      Option.bind_some, Option.pure_def, write_label_eq, Int.natAbs_natCast, writeEdge, hm, hmi]
    cases hlb : labelBits s n with
    | none => simp
    | some lb =>
      simp only [Option.bind_some, extend_eq, Py.Bld.empty, List.length_nil, Nat.zero_add]
      by_cases h1 : lb.length > 1023
      · simp [h1]
      · simp only [h1, if_false, Option.bind_some]
        cases hl : write_edge (serCb ser) f (toTree l) (m : Int) ⟨[], []⟩ with
        | none =>
          have : writeEdge ser l m = none := by rw [← il]; simp [Py.Bld.empty, hl]
          simp [this]
        | some bl =>
          have el : writeEdge ser l m = some bl.endCell := by rw [← il]; simp [Py.Bld.empty, hl]
          cases hr : write_edge (serCb ser) f (toTree r) (m : Int) ⟨[], []⟩ with
          | none =>
            have : writeEdge ser r m = none := by rw [← ir]; simp [Py.Bld.empty, hr]
            simp [this, el]
          | some br =>
            have er : writeEdge ser r m = some br.endCell := by rw [← ir]; simp [Py.Bld.empty, hr]
            simp [el, er, Py.Bld.storeRef?, app, Py.Bld.endCell]

/-- REGENERATED `serialize_dict(src, key_size, serializer).end_cell()` = what the hand model's `HashMap.serialize()` returns for a
non-empty map: for every map built by `set_int_key` (`DictOK`), n ≥ 1, every value serialiser `serCb ser`, every fuel ≥ 2n + 2. -/
theorem serialize_dict_eq {V : Type} (n : Nat) (hn : 0 < n) (ser : V → Option Val) (d : Dict V) (hd : DictOK n d) (hne : d ≠ [])
    (fuel : Nat) (hf : 2 * n + 2 ≤ fuel) :
    (serialize_dict (serCb ser) fuel d n).map (fun b => some b.endCell) = serialize n ser d := by
  have he : d.isEmpty = false := by cases d <;> simp at hne ⊢
  obtain ⟨t, ht, hsz, _⟩ := serialize_iff_fits n hn ser d hd hne
  unfold serialize_dict serialize
  simp only [he, Bool.false_eq_true, if_false, build_tree_eq n hn d hd fuel hf, ht, Option.map_some, Option.bind_eq_bind,
    Option.bind_some, Option.pure_def]
  rw [← write_edge_eq ser t n fuel hsz hf]
  cases write_edge (serCb ser) fuel (toTree t) (n : Int) Py.Bld.empty <;> rfl

/-- `serialize_dict` of the empty dict raises (the assertion of `build_edge`) — `HashMap.serialize()` never calls it so -/
theorem serialize_dict_nil {V : Type} (cb : V → Py.Bld → Option Py.Bld) (fuel n : Nat) :
    serialize_dict cb fuel ([] : List (Nat × V)) n = none := by
  unfold serialize_dict build_tree
  cases fuel <;> simp [build_edge]

end TonVerif.Proofs.SrcHashmapSer
