/-
The serialisers of pytoniq_core/tlb/vm_stack.py as regenerated from the source (Generated/VmStackSrc.lean, translator
harness/translate/pytlb.py) equal the hand model `Model/VmStack.lean`, for ALL inputs: same decision to raise, same cell, and
the state of the caller's argument after the call is the argument itself (VmStackList.serialize, which is only ever given a
copy, leaves its list empty).  Generation dependent (re-checked whenever the generated text changes).
-/
import TonVerif.Generated.VmStackSrc
import TonVerif.Model.VmStack
namespace TonVerif.Proofs.SrcVm
open TonVerif TonVerif.Model TonVerif.Model.Vm TonVerif.Spec.Vm TonVerif.Generated.VmStackSrc

variable {R : Type} {mk : Bits → List R → Option R}

/-! ### generation independent -/

theorem run_andThen (a b : BOp R) (x : Builder R) : run (a ⊳ b) x = (run a x).bind (run b) := by
  unfold run BOp.andThen
  cases h : (a x).2 <;> simp [h]

theorem run_skip (x : Builder R) : run (BOp.skip : BOp R) x = some x := rfl

theorem fuel_pred {fuel n : Nat} (h : n + 1 ≤ fuel) : ∃ f, fuel = f + 1 ∧ n ≤ f := ⟨fuel - 1, by omega, by omega⟩

mutual
/-- recursion budget that suffices for the regenerated `VmStackValue.serialize` (one unit per nested call) -/
def sV : Val R → Nat
  | .cont k => sK k + 1
  | .tuple vs => sT vs + 1
  | _ => 1
/-- … `VmTuple.serialize` (`VmTupleRef.serialize` needs one more) -/
def sT : List (Val R) → Nat
  | [] => 1
  | v :: rest => sV v + sT rest + 2
/-- … `VmStackList.serialize` (`VmStack.serialize` needs one more) -/
def sL : List (Val R) → Nat
  | [] => 1
  | v :: rest => sV v + sL rest + 1
def sK : Cont R → Nat
  | .std cd _ _ => sC cd + 1
  | .envelope cd next => sC cd + sK next + 1
  | .quit _ => 1
  | .quitExc => 1
  | .repeat_ _ b a => sK b + sK a + 1
  | .until_ b a => sK b + sK a + 1
  | .again b => sK b + 1
  | .whileCond c b a => sK c + sK b + sK a + 1
  | .whileBody c b a => sK c + sK b + sK a + 1
  | .pushint _ n => sK n + 1
def sC : Ctl R → Nat
  | .mk _ none _ _ => 1
  | .mk _ (some st) _ _ => sL st + 2
end

theorem cellSlice_eq (bits : Bits) (refs : List R) :
    VmCellSlice_serialize mk (bits, refs) = serCellSlice mk bits refs := by
  simp [VmCellSlice_serialize, serCellSlice, build, run_andThen, Option.bind_assoc]

theorem map_as_bind {α β : Type} (f : α → β) (x : Option α) : Option.map f x = x.bind (fun a => some (f a)) := by
  cases x <;> rfl

theorem ite_bind {α β : Type} (c : Prop) [Decidable c] (a b : Option α) (g : α → Option β) :
    (if c then a else b).bind g = if c then a.bind g else b.bind g := by
  split <;> rfl

theorem bind_const_none {α β : Type} (x : Option α) : (x.bind fun _ => (none : Option β)) = none := by
  cases x <;> rfl

/-- case analysis on the first computation of the left-hand side -/
theorem bind_eq_of {α β : Type} {x : Option α} {f : α → Option β} {rhs : Option β}
    (hn : x = none → rhs = none) (hs : ∀ a, x = some a → f a = rhs) : x.bind f = rhs := by
  cases x with
  | none => exact (hn rfl).symm
  | some a => exact hs a rfl

/-- closes `a.bind .. = b.bind ..` where the two sides run the same computations in a different order -/
macro "opt_comm" : tactic =>
  `(tactic| repeat' (first
      | rfl
      | (refine bind_eq_of (fun h => by simp [h, bind_const_none]) (fun a h => ?_)
         simp only [h, Option.bind_some])))

/-- normal form of both sides: right-nested `Option.bind` chains over `run <store>` / `finish` / recursive calls -/
macro "ser_norm" " [" ls:Lean.Parser.Tactic.simpLemma,* "]" : tactic =>
  `(tactic| (simp [build, run_andThen, run_skip, Option.bind_assoc, map_as_bind, ite_bind, tagInt257, storeMaybe, $ls,*] <;> opt_comm))

/-! ### generation dependent -/

theorem saveList_eq (save : Option R) : VmSaveList_serialize mk save = build mk (BOp.storeMaybeRef save) := by
  ser_norm [VmSaveList_serialize, BOp.storeDict]

/-- `VmStack.serialize` from `VmStackList.serialize` -/
theorem stack_step (f : Nat) (vs : List (Val R))
    (h : VmStackList_serialize mk f vs = (serStackList mk vs).map (fun b => (b, []))) :
    VmStack_serialize mk (f + 1) vs = (serStack mk vs).map (fun b => (b, vs)) := by
  ser_norm [VmStack_serialize, serStack, h]

/-- one step of `VmTuple.serialize` -/
theorem tuple_step (f : Nat) (v : Val R) (rest : List (Val R))
    (h1 : VmTupleRef_serialize mk f rest = (serTupleRef mk rest).map (fun b => (b, rest)))
    (h2 : VmStackValue_serialize mk f v = (serVal mk v).map (fun b => (b, v))) :
    VmTuple_serialize mk (f + 1) (v :: rest) = (serTuple mk (v :: rest)).map (fun b => (b, v :: rest)) := by
  ser_norm [VmTuple_serialize, serTuple, h1, h2, Py.RL.init, Py.RL.last?, Py.RL.setLast]

mutual
theorem src_serVal : ∀ (v : Val R) (fuel : Nat), sV v ≤ fuel →
    VmStackValue_serialize mk fuel v = (serVal mk v).map (fun b => (b, v))
  | .null, fuel, hf => by
    obtain ⟨f, rfl, _⟩ := fuel_pred (n := 0) (by simpa [sV] using hf)
    ser_norm [VmStackValue_serialize, serVal]
  | .int v, fuel, hf => by
    obtain ⟨f, rfl, _⟩ := fuel_pred (n := 0) (by simpa [sV] using hf)
    ser_norm [VmStackValue_serialize, serVal]
  | .cell c, fuel, hf => by
    obtain ⟨f, rfl, _⟩ := fuel_pred (n := 0) (by simpa [sV] using hf)
    ser_norm [VmStackValue_serialize, serVal]
  | .slice b r, fuel, hf => by
    obtain ⟨f, rfl, _⟩ := fuel_pred (n := 0) (by simpa [sV] using hf)
    ser_norm [VmStackValue_serialize, serVal, cellSlice_eq]
  | .builder b r, fuel, hf => by
    obtain ⟨f, rfl, _⟩ := fuel_pred (n := 0) (by simpa [sV] using hf)
    ser_norm [VmStackValue_serialize, serVal]
  | .cont k, fuel, hf => by
    obtain ⟨f, rfl, h1⟩ := fuel_pred (by simpa [sV] using hf)
    ser_norm [VmStackValue_serialize, serVal, src_serCont k f h1]
  | .tuple vs, fuel, hf => by
    obtain ⟨f, rfl, h1⟩ := fuel_pred (by simpa [sV] using hf)
    ser_norm [VmStackValue_serialize, serVal, src_serTuple vs f h1]
theorem src_serTuple : ∀ (vs : List (Val R)) (fuel : Nat), sT vs ≤ fuel →
    VmTuple_serialize mk fuel vs = (serTuple mk vs).map (fun b => (b, vs))
  | [], fuel, hf => by
    obtain ⟨f, rfl, _⟩ := fuel_pred (n := 0) (by simpa [sT] using hf)
    ser_norm [VmTuple_serialize, serTuple]
  | v :: rest, fuel, hf => by
    simp only [sT] at hf
    obtain ⟨f, rfl, h1⟩ := fuel_pred hf
    exact tuple_step f v rest (src_serTupleRef rest f (by omega)) (src_serVal v f (by omega))
theorem src_serTupleRef : ∀ (vs : List (Val R)) (fuel : Nat), sT vs + 1 ≤ fuel →
    VmTupleRef_serialize mk fuel vs = (serTupleRef mk vs).map (fun b => (b, vs))
  | [], fuel, hf => by
    obtain ⟨f, rfl, _⟩ := fuel_pred hf
    ser_norm [VmTupleRef_serialize, serTupleRef]
  | [v], fuel, hf => by
    simp only [sT] at hf
    obtain ⟨f, rfl, h1⟩ := fuel_pred hf
    ser_norm [VmTupleRef_serialize, serTupleRef, src_serVal v f (by omega), Py.RL.first?, Py.RL.setFirst]
  | v :: w :: rest, fuel, hf => by
    obtain ⟨f, rfl, h1⟩ := fuel_pred hf
    simp only [sT] at h1
    obtain ⟨g, rfl, h2⟩ := fuel_pred h1
    have ht := tuple_step g v (w :: rest) (src_serTupleRef (w :: rest) g (by simp only [sT]; omega)) (src_serVal v g (by omega))
    ser_norm [VmTupleRef_serialize, serTupleRef, ht, serTuple]
theorem src_serStackList : ∀ (vs : List (Val R)) (fuel : Nat), sL vs ≤ fuel →
    VmStackList_serialize mk fuel vs = (serStackList mk vs).map (fun b => (b, []))
  | [], fuel, hf => by
    obtain ⟨f, rfl, _⟩ := fuel_pred (n := 0) (by simpa [sL] using hf)
    ser_norm [VmStackList_serialize, serStackList]
  | v :: rest, fuel, hf => by
    simp only [sL] at hf
    obtain ⟨f, rfl, h1⟩ := fuel_pred hf
    ser_norm [VmStackList_serialize, serStackList, src_serStackList rest f (by omega), src_serVal v f (by omega), Py.RL.pop?]
theorem src_serCont : ∀ (k : Cont R) (fuel : Nat), sK k ≤ fuel → VmCont_serialize mk fuel k = serCont mk k
  | .std cd cb cr, fuel, hf => by
    simp only [sK] at hf
    obtain ⟨f, rfl, h1⟩ := fuel_pred hf
    ser_norm [VmCont_serialize, serCont, src_serCtl cd f h1, cellSlice_eq]
  | .envelope cd next, fuel, hf => by
    simp only [sK] at hf
    obtain ⟨f, rfl, h1⟩ := fuel_pred hf
    ser_norm [VmCont_serialize, serCont, src_serCtl cd f (by omega), src_serCont next f (by omega)]
  | .quit c, fuel, hf => by
    obtain ⟨f, rfl, _⟩ := fuel_pred (n := 0) (by simpa [sK] using hf)
    ser_norm [VmCont_serialize, serCont]
  | .quitExc, fuel, hf => by
    obtain ⟨f, rfl, _⟩ := fuel_pred (n := 0) (by simpa [sK] using hf)
    ser_norm [VmCont_serialize, serCont]
  | .repeat_ c b a, fuel, hf => by
    simp only [sK] at hf
    obtain ⟨f, rfl, h1⟩ := fuel_pred hf
    ser_norm [VmCont_serialize, serCont, src_serCont b f (by omega), src_serCont a f (by omega)]
  | .until_ b a, fuel, hf => by
    simp only [sK] at hf
    obtain ⟨f, rfl, h1⟩ := fuel_pred hf
    ser_norm [VmCont_serialize, serCont, src_serCont b f (by omega), src_serCont a f (by omega)]
  | .again b, fuel, hf => by
    simp only [sK] at hf
    obtain ⟨f, rfl, h1⟩ := fuel_pred hf
    ser_norm [VmCont_serialize, serCont, src_serCont b f (by omega)]
  | .whileCond c b a, fuel, hf => by
    simp only [sK] at hf
    obtain ⟨f, rfl, h1⟩ := fuel_pred hf
    ser_norm [VmCont_serialize, serCont, src_serCont c f (by omega), src_serCont b f (by omega), src_serCont a f (by omega)]
  | .whileBody c b a, fuel, hf => by
    simp only [sK] at hf
    obtain ⟨f, rfl, h1⟩ := fuel_pred hf
    ser_norm [VmCont_serialize, serCont, src_serCont c f (by omega), src_serCont b f (by omega), src_serCont a f (by omega)]
  | .pushint v n, fuel, hf => by
    simp only [sK] at hf
    obtain ⟨f, rfl, h1⟩ := fuel_pred hf
    ser_norm [VmCont_serialize, serCont, src_serCont n f (by omega)]
theorem src_serCtl : ∀ (cd : Ctl R) (fuel : Nat), sC cd ≤ fuel → VmControlData_serialize mk fuel cd = serCtl mk cd
  | .mk nargs none save cp, fuel, hf => by
    obtain ⟨f, rfl, _⟩ := fuel_pred (n := 0) (by simpa [sC] using hf)
    cases nargs <;> cases cp <;> ser_norm [VmControlData_serialize, serCtl, saveList_eq]
  | .mk nargs (some st) save cp, fuel, hf => by
    simp only [sC] at hf
    obtain ⟨f, rfl, h1⟩ := fuel_pred hf
    obtain ⟨g, rfl, h2⟩ := fuel_pred h1
    have hs := stack_step g st (src_serStackList st g h2)
    cases nargs <;> cases cp <;> ser_norm [VmControlData_serialize, serCtl, saveList_eq, hs, serStack]
end

theorem src_serStack (vs : List (Val R)) (fuel : Nat) (hf : sL vs + 1 ≤ fuel) :
    VmStack_serialize mk fuel vs = (serStack mk vs).map (fun b => (b, vs)) := by
  obtain ⟨f, rfl, h1⟩ := fuel_pred hf
  exact stack_step f vs (src_serStackList vs f h1)

end TonVerif.Proofs.SrcVm
