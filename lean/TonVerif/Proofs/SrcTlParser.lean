/-
The regenerated TL PARSER (Generated/TlEngine.lean: `deserialize`, `deserialize_loop1/2/3`, `deserialize_rest1`, knot `deserializeF`;
from `TlSchemas.deserialize` of pytoniq_core/tl/generator.py by harness/translate/tlengine.py) equals the hand model
`Model.Tl.deserObj` (`deserBody` / `deserArg` / `deserOne` / `autoParse` / `autoLoop`), for ALL byte strings, depth budgets, loop budgets
and every schema table whose argument lists have distinct field names (`ArgsOK`: `schema.args` is a Python dict).
-/
import TonVerif.Generated.TlEngine
import TonVerif.Model.Tl
import TonVerif.Proofs.SrcTlEngine

set_option linter.unusedSimpArgs false
set_option linter.unusedVariables false
namespace TonVerif.Proofs.SrcTlParser
open TonVerif TonVerif.Spec.Tl TonVerif.Model.Tl TonVerif.Py.Tl TonVerif.Generated.TlEngine

/-! ### built-ins -/

theorem slice_add (d : Bytes) (i k : Nat) : Py.slice d i (i + k) = (d.drop i).take k := by
  simp [Py.slice, List.drop_take]

theorem slice_add2 (d : Bytes) (i j n : Nat) : Py.slice d (i + j) (i + n) = ((d.drop i).take n).drop j := by
  simp [Py.slice, List.drop_take, List.drop_drop]
  congr 1 <;> omega

theorem intOfBytes_unsigned (bs : Bytes) : (Py.Tl.intOfBytes false true bs).toNat = natOfLE bs := by
  simp [Py.Tl.intOfBytes]

theorem intOfBytes_unsigned' (bs : Bytes) : Py.Tl.intOfBytes false true bs = (natOfLE bs : Int) := by
  simp [Py.Tl.intOfBytes]

theorem intOfBytes_signed (bs : Bytes) : Py.Tl.intOfBytes true true bs = intOfLE bs := by
  unfold Py.Tl.intOfBytes intOfLE
  by_cases h : bs.length ≠ 0 ∧ 2 ^ (8 * bs.length - 1) ≤ natOfLE bs <;> simp [h]

/-! ### `bin(m)...[::-1]` against the model's bit test -/

theorem digits_spec : ∀ (f n : Nat), n < f →
    (binDigitsRev f n).length = (if n = 0 then 1 else n.log2 + 1) ∧
    ∀ idx, idx < (binDigitsRev f n).length → (binDigitsRev f n)[idx]? = some (48 + if n.testBit idx then 1 else 0)
  | 0, n, h => by omega
  | f + 1, n, h => by
    by_cases h0 : n / 2 = 0
    · have hn : n = 0 ∨ n = 1 := by omega
      rcases hn with rfl | rfl
      · refine ⟨by simp [binDigitsRev], fun idx hi => ?_⟩
        simp [binDigitsRev] at hi ⊢
        subst hi; simp
      · refine ⟨by simp [binDigitsRev, Nat.log2_def 1], fun idx hi => ?_⟩
        simp [binDigitsRev] at hi ⊢
        subst hi; simp
    · have ih := digits_spec f (n / 2) (by omega)
      have hn0 : n ≠ 0 := by omega
      have hlog : n.log2 = (n / 2).log2 + 1 := by
        rw [Nat.log2_def n]; simp [show 2 ≤ n by omega]
      refine ⟨?_, fun idx hi => ?_⟩
      · simp [binDigitsRev, h0, ih.1, hn0, hlog]
      · simp only [binDigitsRev, h0, if_false, List.length_cons] at hi ⊢
        cases idx with
        | zero => simp [Nat.testBit_zero]; rcases Nat.mod_two_eq_zero_or_one n with h2 | h2 <;> simp [h2]
        | succ j =>
          simp only [List.getElem?_cons_succ]
          rw [ih.2 j (by omega)]
          simp [Nat.testBit_succ]

theorem mask_spec (m : Int) (idx : Nat) :
    (if idx ≥ (binRev m).length then false else decide ((binRev m)[idx]? ≠ some 48)) = maskBit m idx := by
  obtain ⟨hl, hd⟩ := digits_spec (m.natAbs + 1) m.natAbs (by omega)
  unfold binRev maskBit
  by_cases hm : 0 ≤ m
  · have hneg : ¬ m < 0 := by omega
    have hto : m.toNat = m.natAbs := by omega
    simp only [hneg, if_false, List.append_nil, hm, if_true, hto]
    by_cases hi : idx < (binDigitsRev (m.natAbs + 1) m.natAbs).length
    · have : ¬ idx ≥ (binDigitsRev (m.natAbs + 1) m.natAbs).length := by omega
      simp only [this, if_false, hd idx hi]
      cases m.natAbs.testBit idx <;> simp
    · have hge : idx ≥ (binDigitsRev (m.natAbs + 1) m.natAbs).length := by omega
      simp only [hge, if_true]
      symm
      by_cases h0 : m.natAbs = 0
      · simp [h0]
      · rw [hl] at hge
        simp only [h0, if_false] at hge
        apply Nat.testBit_lt_two_pow
        calc m.natAbs < 2 ^ (m.natAbs.log2 + 1) := Nat.lt_log2_self
          _ ≤ 2 ^ idx := Nat.pow_le_pow_right (by omega) hge
  · have hneg : m < 0 := by omega
    have h0 : m.natAbs ≠ 0 := by omega
    have hl' : (binDigitsRev (m.natAbs + 1) m.natAbs).length = m.natAbs.log2 + 1 := by rw [hl]; simp [h0]
    simp only [hneg, if_true, hm, if_false, List.length_append, List.length_singleton, hl']
    rw [hl'] at hd
    by_cases hi : idx < m.natAbs.log2 + 1
    · have : ¬ idx ≥ m.natAbs.log2 + 1 + 1 := by omega
      have hne : (idx == m.natAbs.log2 + 1) = false := by simp; omega
      simp only [this, if_false, hne, Bool.or_false]
      rw [List.getElem?_append_left (by rw [hl']; exact hi), hd idx hi]
      cases m.natAbs.testBit idx <;> simp
    · have htb : m.natAbs.testBit idx = false := by
        apply Nat.testBit_lt_two_pow
        calc m.natAbs < 2 ^ (m.natAbs.log2 + 1) := Nat.lt_log2_self
          _ ≤ 2 ^ idx := Nat.pow_le_pow_right (by omega) (by omega)
      by_cases he : idx = m.natAbs.log2 + 1
      · subst he
        rw [List.getElem?_append_right (by rw [hl']; exact Nat.le_refl _)]
        simp [htb, hl']
      · have : idx ≥ m.natAbs.log2 + 1 + 1 := by omega
        have hne : (idx == m.natAbs.log2 + 1) = false := by simp; omega
        simp [this, htb, hne]

/-! ### dict stores -/

theorem setField_new (fs : Fields) (k : Nat) (v : Val) (h : fs.lookup k = none) : setField fs k v = fs ++ [(k, v)] := by
  induction fs with
  | nil => rfl
  | cons p fs ih =>
    obtain ⟨k', v'⟩ := p
    simp only [List.lookup_cons] at h
    by_cases hk : k = k'
    · subst hk; simp at h
    · have h2 : (k == k') = false := by simpa using hk
      have h3 : (k' == k) = false := by simpa using (fun e => hk e.symm)
      rw [h2] at h
      simp [setField, h3, ih h]

theorem setField_last (fs : Fields) (k : Nat) (v v' : Val) (h : fs.lookup k = none) :
    setField (fs ++ [(k, v)]) k v' = fs ++ [(k, v')] := by
  induction fs with
  | nil => simp [setField]
  | cons p fs ih =>
    obtain ⟨k', w⟩ := p
    simp only [List.lookup_cons] at h
    by_cases hk : k = k'
    · subst hk; simp at h
    · have h2 : (k == k') = false := by simpa using hk
      have h3 : (k' == k) = false := by simpa using (fun e => hk e.symm)
      rw [h2] at h
      simp [setField, h3, ih h]

theorem lookup_last (fs : Fields) (k : Nat) (v : Val) (h : fs.lookup k = none) : (fs ++ [(k, v)]).lookup k = some v := by
  induction fs with
  | nil => simp [List.lookup]
  | cons p fs ih =>
    obtain ⟨k', w⟩ := p
    simp only [List.lookup_cons] at h
    by_cases hk : k = k'
    · subst hk; simp at h
    · have h2 : (k == k') = false := by simpa using hk
      rw [h2] at h
      simp [List.lookup_cons, h2, ih h]

theorem lookup_append_ne (fs : Fields) (k k' : Nat) (v : Val) (hk : k ≠ k') : (fs ++ [(k', v)]).lookup k = fs.lookup k := by
  induction fs with
  | nil => have : (k == k') = false := by simpa using hk
           simp [List.lookup, this]
  | cons p fs ih =>
    obtain ⟨k2, w⟩ := p
    simp only [List.cons_append, List.lookup_cons, ih]

/-! ### one field -/

/-- what the model's result for one field means for the loop state `(i, result)` of the code -/
def stepRes (i : Nat) (ty : Option Nat) (acc : Fields) (k : Nat) : Option (Option Val × Nat) → Option (Nat × Val)
  | none => none
  | some (some v, j) => some (i + j, .obj ty (acc ++ [(k, v)]))
  | some (none, j) => some (i + j, .obj ty acc)

abbrev RecG := Bytes → Bool → Option (List Arg) → Option (Val × Nat)
abbrev RecM := Bytes → Option (List Arg) → Option (Val × Nat)

theorem rest1_fixed (T : Table) (rg rp : RecG) (L : Nat) (auto : Bool) (data : Bytes) (k i : Nat) (ty : Option Nat) (acc : Fields)
    (schema : Option Ctor) (e : ETy) (hk : acc.lookup k = none)
    (he : e = .int ∨ e = .long ∨ e = .nat ∨ e = .int128 ∨ e = .int256 ∨ e = .bool) :
    deserialize_rest1 T rg rp L auto data k i (.obj ty acc) schema ⟨none, false, e⟩ =
      stepRes i ty acc k (some (readFixed e (data.drop i))) := by
  rcases he with rfl | rfl | rfl | rfl | rfl | rfl <;>
    simp [deserialize_rest1, baseKey, baseLen, TyS.base, readFixed, stepRes, slice_add, dictSet, setField_new _ _ _ hk,
      intOfBytes_signed, intOfBytes_unsigned']
  by_cases h1 : List.take 4 (List.drop i data) = [181, 117, 114, 153]
  · simp [h1]
  · by_cases h2 : List.take 4 (List.drop i data) = [55, 151, 121, 188] <;> simp [h1, h2]

theorem byName_mem (T : Table) (n : Nat) (c : Ctor) (h : T.byName n = some c) : c ∈ T.ctors := by
  unfold Table.byName at h
  have := List.mem_of_find?_eq_some h
  simpa using this

theorem byId_mem (T : Table) (n : Nat) (c : Ctor) (h : T.byId n = some c) : c ∈ T.ctors := by
  unfold Table.byId at h
  have := List.mem_of_find?_eq_some h
  simpa using this

/-- how the callee of the code (`rec_deserialize`) relates to the callee of the model -/
structure RecOK (T : Table) (rg : RecG) (rm : RecM) : Prop where
  boxed : ∀ d args, rg d true args = rm d none
  bare : ∀ d c, c ∈ T.ctors → rg d false (some c.args) = rm d (some c.args)
  objRet : ∀ d as v j, rm d (some as) = some (v, j) → ∃ fs, v = .obj none fs
  empty : ∀ r, rm [] none = some r → r.2 = 0

theorem rest1_bare (T : Table) (rg rp : RecG) (rm : RecM) (hr : RecOK T rg rm) (L : Nat) (auto : Bool) (data : Bytes) (k i : Nat)
    (ty : Option Nat) (acc : Fields) (schema : Option Ctor) (n : Nat) (ut : Bool) (hk : acc.lookup k = none) :
    deserialize_rest1 T rg rp L auto data k i (.obj ty acc) schema ⟨none, false, .bare n⟩ =
      stepRes i ty acc k (deserOne T auto rm ut (.bare n) false (data.drop i)) := by
  cases hb : T.byName n with
  | none =>
    simp [deserialize_rest1, baseKey, TyS.isParen, TyS.ctorOf, hb, deserOne, hr.boxed, dictSet, setField_new _ _ _ hk]
    cases rm (data.drop i) none with
    | none => simp [stepRes]
    | some r => obtain ⟨v, j⟩ := r; simp [stepRes]
  | some c =>
    simp [deserialize_rest1, baseKey, TyS.isParen, TyS.ctorOf, hb, deserOne, hr.bare _ c (byName_mem T n c hb), dictSet,
      setField_new _ _ _ hk, dictItem?, lookup_last _ _ _ hk]
    cases rm (data.drop i) (some c.args) with
    | none => simp [stepRes]
    | some r =>
      obtain ⟨v, j⟩ := r
      cases v <;> simp [stepRes, dictSetType?, setField_last _ _ _ _ hk]

theorem rest1_boxed (T : Table) (rg rp : RecG) (rm : RecM) (hr : RecOK T rg rm) (L : Nat) (auto : Bool) (data : Bytes) (k i : Nat)
    (ty : Option Nat) (acc : Fields) (schema : Option Ctor) (e : ETy) (ut : Bool) (hk : acc.lookup k = none)
    (he : (∃ cl, e = .boxed cl) ∨ e = .unsup) :
    deserialize_rest1 T rg rp L auto data k i (.obj ty acc) schema ⟨none, false, e⟩ =
      stepRes i ty acc k (deserOne T auto rm ut e false (data.drop i)) := by
  rcases he with ⟨cl, rfl⟩ | rfl <;>
    simp [deserialize_rest1, baseKey, TyS.isParen, TyS.ctorOf, deserOne, hr.boxed, dictSet, setField_new _ _ _ hk] <;>
    (cases rm (data.drop i) none with
     | none => simp [stepRes]
     | some r => obtain ⟨v, j⟩ := r; simp [stepRes])

/-! ### vectors -/

/-- the call through the one-field pseudo schema reads one value of a base type -/
def PseudoOK (T : Table) (auto : Bool) (L : Nat) (rp : RecG) (rm : RecM) : Prop :=
  ∀ d e, d.length + 2 ≤ L → baseKey ⟨none, false, e⟩ = true →
    rp d false (some [argOf pseudoKey ⟨none, false, e⟩]) =
      (match deserOne T auto rm false e true d with
       | none => none
       | some (some v, j) => some (.obj none [(pseudoKey, v)], j)
       | some (none, j) => some (.obj none [], j))

theorem dictAppend_last (ty : Option Nat) (acc : Fields) (k : Nat) (vs : List Val) (x : Val) (hk : acc.lookup k = none) :
    dictAppend? (.obj ty (acc ++ [(k, .list vs)])) k x = some (.obj ty (acc ++ [(k, .list (vs ++ [x]))])) := by
  simp [dictAppend?, lookup_last _ _ _ hk, setField_last _ _ _ _ hk]

theorem loop3_step (T : Table) (rg rp : RecG) (rm : RecM) (hr : RecOK T rg rm) (L : Nat) (auto : Bool) (data : Bytes) (hp : PseudoOK T auto L rp rm) (hL : data.length + 2 ≤ L)
    (k i : Nat) (ty : Option Nat) (acc : Fields) (e : ETy) (vs : List Val) (x : Nat) (hk : acc.lookup k = none) :
    deserialize_loop3 T rg rp L auto data k (TyS.ctorOf T ⟨none, false, e⟩) ⟨none, false, e⟩ (i, .obj ty (acc ++ [(k, .list vs)])) x =
      (deserElem T auto rm e (data.drop i)).map (fun (v, j) => (i + j, .obj ty (acc ++ [(k, .list (vs ++ [v]))]))) := by
  by_cases hbk : baseKey ⟨none, false, e⟩ = true
  · have hp' := hp (data.drop i) e (by simp only [List.length_drop]; omega) hbk
    simp only [deserialize_loop3, hbk, if_true, deserElem, decide_false, hp']
    cases deserOne T auto rm false e true (data.drop i) with
    | none => simp
    | some r =>
      obtain ⟨ov, j⟩ := r
      cases ov with
      | none => simp [dictItem?, List.lookup]
      | some v => simp [dictItem?, List.lookup, dictAppend_last _ _ _ _ _ hk]
  · cases e with
    | bare n =>
      cases hb : T.byName n with
      | none =>
        simp [deserialize_loop3, hbk, TyS.ctorOf, hb, hr.boxed, deserElem, deserOne]
        cases rm (data.drop i) none with
        | none => simp
        | some r => obtain ⟨v, j⟩ := r; simp [dictAppend_last _ _ _ _ _ hk]
      | some c =>
        simp [deserialize_loop3, hbk, TyS.ctorOf, hb, hr.bare _ c (byName_mem T n c hb), deserElem, deserOne]
        cases hrm : rm (data.drop i) (some c.args) with
        | none => simp
        | some r =>
          obtain ⟨v, j⟩ := r
          obtain ⟨fs, rfl⟩ := hr.objRet _ _ _ _ hrm
          simp [dictAppend_last _ _ _ _ _ hk]
    | boxed cl =>
      simp [deserialize_loop3, hbk, TyS.ctorOf, hr.boxed, deserElem, deserOne]
      cases rm (data.drop i) none with
      | none => simp
      | some r => obtain ⟨v, j⟩ := r; simp [dictAppend_last _ _ _ _ _ hk]
    | unsup =>
      simp [deserialize_loop3, hbk, TyS.ctorOf, hr.boxed, deserElem, deserOne]
      cases rm (data.drop i) none with
      | none => simp
      | some r => obtain ⟨v, j⟩ := r; simp [dictAppend_last _ _ _ _ _ hk]
    | _ => simp [baseKey] at hbk

theorem loop3_fold (T : Table) (rg rp : RecG) (rm : RecM) (hr : RecOK T rg rm) (L : Nat) (auto : Bool) (data : Bytes) (hp : PseudoOK T auto L rp rm) (hL : data.length + 2 ≤ L)
    (k : Nat) (ty : Option Nat) (acc : Fields) (e : ETy) (hk : acc.lookup k = none) :
    ∀ (xs : List Nat) (i : Nat) (vs : List Val),
      List.foldlM (m := Option) (deserialize_loop3 T rg rp L auto data k (TyS.ctorOf T ⟨none, false, e⟩) ⟨none, false, e⟩)
        (i, .obj ty (acc ++ [(k, .list vs)])) xs =
      (deserMany (deserElem T auto rm e) xs.length (data.drop i)).map
        (fun (ws, j) => (i + j, .obj ty (acc ++ [(k, .list (vs ++ ws))])))
  | [], i, vs => by simp [deserMany]
  | x :: xs, i, vs => by
    simp only [List.foldlM_cons, loop3_step T rg rp rm hr L auto data hp hL k i ty acc e vs x hk, List.length_cons, deserMany]
    cases deserElem T auto rm e (data.drop i) with
    | none => simp
    | some r =>
      obtain ⟨v, j⟩ := r
      simp only [Option.map_some, Option.bind_some, Option.bind_eq_bind, loop3_fold T rg rp rm hr L auto data hp hL k ty acc e hk xs (i + j) (vs ++ [v]),
        List.drop_drop]
      cases deserMany (deserElem T auto rm e) xs.length (List.drop (i + j) data) with
      | none => simp
      | some q => obtain ⟨ws, j2⟩ := q; simp [Nat.add_assoc]

theorem rest1_vec (T : Table) (rg rp : RecG) (rm : RecM) (hr : RecOK T rg rm) (L : Nat) (auto : Bool) (data : Bytes) (hp : PseudoOK T auto L rp rm) (hL : data.length + 2 ≤ L)
    (k i : Nat) (ty : Option Nat) (acc : Fields) (schema : Option Ctor) (a : Arg) (ut : Bool) (hv : a.vec = true)
    (hk : acc.lookup k = none) :
    deserialize_rest1 T rg rp L auto data k i (.obj ty acc) schema ⟨none, true, a.ty⟩ =
      stepRes i ty acc k (deserArg T auto rm ut a (data.drop i)) := by
  have hguard : ((((natOfLE (List.take 4 (List.drop i data)) : Nat) : Int) > ((data.length : Nat) : Int) - (((i + 4 : Nat)) : Int)) ↔
      data.length - i < 4 + natOfLE (List.take 4 (List.drop i data))) := by
    omega
  simp only [deserialize_rest1, baseKey, TyS.isParen, TyS.isVector, TyS.elem, deserArg, hv, slice_add, intOfBytes_unsigned, dictSet,
    setField_new _ _ _ hk, Option.isNone_none, Bool.not_true, Bool.false_and, Bool.and_false, Bool.false_eq_true, if_false, if_true,
    Bool.true_and, Bool.and_true, hguard, List.length_drop]
  by_cases hg : data.length - i < 4 + natOfLE (List.take 4 (List.drop i data))
  · simp [hg, stepRes]
  · simp only [hg, if_false]
    have := loop3_fold T rg rp rm hr L auto data hp hL k ty acc a.ty hk (List.range (natOfLE (List.take 4 (List.drop i data)))) (i + 4) []
    simp only [List.nil_append, List.length_range] at this
    rw [this]
    simp only [List.drop_drop]
    rw [Nat.add_comm i 4]
    cases deserMany (deserElem T auto rm a.ty) (natOfLE (List.take 4 (List.drop i data))) (List.drop (4 + i) data) with
    | none => simp [stepRes]
    | some q => obtain ⟨ws, j⟩ := q; simp [stepRes]; omega

/-! ### the re-parse loop of a `bytes` content -/

theorem dictHas_last (ty : Option Nat) (acc : Fields) (k : Nat) (v : Val) (hk : acc.lookup k = none) :
    dictHas (.obj ty (acc ++ [(k, v)])) k = true := by
  simp [dictHas, lookup_last _ _ _ hk]

theorem loop2_while (T : Table) (rg rp : RecG) (rm : RecM) (hr : RecOK T rg rm) (L : Nat) (auto : Bool) (data : Bytes) (k i n : Nat)
    (ty : Option Nat) (acc : Fields) (hk : acc.lookup k = none) :
    ∀ (kw ka j : Nat) (vs : List Val) (result temp : Val),
      (if ¬ dictHas result k = true then dictSet result k (.list [temp]) else result) = .obj ty (acc ++ [(k, .list vs)]) →
      (n ≤ j → result = .obj ty (acc ++ [(k, .list vs)])) →
      ((data.drop i).take n).length - j + 2 ≤ kw → n - j ≤ ka →
      (Py.while? (fun ((brk, j, result, temp) : Bool × Nat × Val × Val) => !brk && decide (j < n))
          (deserialize_loop2 T rg rp L auto n data k i) kw (false, j, result, temp)).bind
        (fun ((brk, j, result, temp) : Bool × Nat × Val × Val) => some result) =
      (autoLoop (fun x => rm x none) ((data.drop i).take n) n ka j vs).map (fun v => .obj ty (acc ++ [(k, v)]))
  | 0, ka, j, vs, result, temp, h1, h2, hw, ha => by omega
  | kw + 1, ka, j, vs, result, temp, h1, h2, hw, ha => by
    by_cases hj : j < n
    · obtain ⟨ka', rfl⟩ : ∃ ka', ka = ka' + 1 := ⟨ka - 1, by omega⟩
      simp only [Py.while?, Bool.not_false, Bool.true_and, hj, decide_true, if_true, deserialize_loop2, autoLoop]
      have hif : (if ¬ dictHas result k = true then some (dictSet result k (.list [temp])) else some result) =
          some (.obj ty (acc ++ [(k, .list vs)])) := by rw [← h1]; split <;> rfl
      simp only [hif, Option.bind_some, hr.boxed, slice_add2]
      cases hrm : rm (List.drop j (List.take n (List.drop i data))) none with
      | none => simp
      | some r =>
        obtain ⟨t, jj⟩ := r
        by_cases hjj : jj = 0
        · obtain ⟨kw', rfl⟩ : ∃ kw', kw = kw' + 1 := ⟨kw - 1, by omega⟩
          simp [hjj, Py.while?, dictSet, setField_last _ _ _ _ hk, slice_add]
        · have hlen : j < (List.take n (List.drop i data)).length := by
            refine Nat.lt_of_not_le (fun hc => ?_)
            have : List.drop j (List.take n (List.drop i data)) = [] := List.drop_eq_nil_of_le (by omega)
            rw [this] at hrm
            exact hjj (hr.empty _ hrm)
          have ih := loop2_while T rg rp rm hr L auto data k i n ty acc hk kw ka' (j + jj) (vs ++ [t])
            (.obj ty (acc ++ [(k, .list (vs ++ [t]))])) t (by simp [dictHas_last _ _ _ _ hk]) (fun _ => rfl) (by omega) (by omega)
          simp only [Option.bind_some, hjj, if_false, dictAppend_last _ _ _ _ _ hk]
          exact ih
    · have hr2 := h2 (by omega)
      subst hr2
      cases ka <;> simp [Py.while?, hj, autoLoop]

theorem auto_gen (T : Table) (rg rp : RecG) (rm : RecM) (hr : RecOK T rg rm) (L : Nat) (auto : Bool) (data : Bytes) (k i n : Nat)
    (ty : Option Nat) (acc : Fields) (hk : acc.lookup k = none) (hL : data.length + 2 ≤ L) :
    ((rg (Py.slice data i (i + n)) true none).bind fun call =>
      if call.2 < n then
        (Py.while? (fun ((brk, j, result, temp) : Bool × Nat × Val × Val) => !brk && decide (j < n))
          (deserialize_loop2 T rg rp L auto n data k i) L (false, call.2, .obj ty acc, call.1)).bind
          (fun ((brk, j, result, temp) : Bool × Nat × Val × Val) => some result)
      else some (dictSet (.obj ty acc) k call.1)) =
    (autoParse (fun x => rm x none) ((data.drop i).take n) n).map (fun v => .obj ty (acc ++ [(k, v)])) := by
  rw [hr.boxed, slice_add]
  cases hrm : rm (List.take n (List.drop i data)) none with
  | none => simp [autoParse, hrm]
  | some r =>
    obtain ⟨t, j⟩ := r
    by_cases hj : j < n
    · have := loop2_while T rg rp rm hr L auto data k i n ty acc hk L n j [t] (.obj ty acc) t
        (by simp [dictHas, hk, dictSet, setField_new _ _ _ hk]) (fun h => by omega)
        (by simp only [List.length_take, List.length_drop]; omega) (by omega)
      simp only [Option.bind_some, hj, if_true, autoParse, hrm]
      exact this
    · simp [autoParse, hrm, hj, dictSet, setField_new _ _ _ hk]

theorem auto_gen' (T : Table) (rg rp : RecG) (rm : RecM) (hr : RecOK T rg rm) (L : Nat) (auto : Bool) (data : Bytes) (k i n : Nat)
    (ty : Option Nat) (acc : Fields) (hk : acc.lookup k = none) (hL : data.length + 2 ≤ L) :
    ((rg (List.take n (List.drop i data)) true none).bind fun call =>
      if call.2 < n then
        (Py.while? (fun x => !x.1 && decide (x.2.1 < n))
          (deserialize_loop2 T rg rp L auto n data k i) L (false, call.2, .obj ty acc, call.1)).bind
          (fun x => some x.2.2.1)
      else some (.obj ty (acc ++ [(k, call.1)]))) =
    (autoParse (fun x => rm x none) ((data.drop i).take n) n).map (fun v => .obj ty (acc ++ [(k, v)])) := by
  have := auto_gen T rg rp rm hr L auto data k i n ty acc hk hL
  simpa [slice_add, dictSet, setField_new _ _ _ hk] using this

theorem rest1_bytes (T : Table) (rg rp : RecG) (rm : RecM) (hr : RecOK T rg rm) (L : Nat) (auto : Bool) (data : Bytes) (k i : Nat)
    (ty : Option Nat) (acc : Fields) (schema : Option Ctor) (e : ETy) (hk : acc.lookup k = none) (hL : data.length + 2 ≤ L)
    (he : e = .bytes ∨ e = .string) :
    deserialize_rest1 T rg rp L auto data k i (.obj ty acc) schema ⟨none, false, e⟩ =
      stepRes i ty acc k (deserOne T auto rm (untouchable T schema k) e false (data.drop i)) := by
  have hA := fun i n => auto_gen' T rg rp rm hr L auto data k i n ty acc hk hL
  have htl : (List.take 4 (List.drop i data)).tail = List.take 3 (List.drop (i + 1) data) := by
    rw [← List.drop_one, List.drop_take, List.drop_drop]
  by_cases hh : List.take 1 (List.drop i data) = [254]
  · rcases he with rfl | rfl
    · simp [deserialize_rest1, baseKey, baseLen, TyS.base, slice_add, slice_add2, intOfBytes_unsigned, hh, deserOne, readFrame,
        dictSet, setField_new _ _ _ hk, hA, htl]
      generalize natOfLE (List.take 3 (List.drop (i + 1) data)) = n
      by_cases hc : auto = false ∨ untouchable T schema k = true
      · simp only [hc, if_true, stepRes, Option.bind_some]
        split <;> simp <;> omega
      · simp only [hc, if_false]
        cases autoParse (fun x => rm x none) (List.take n (List.drop (i + 4) data)) n with
        | none => simp [stepRes]
        | some v => simp only [stepRes, Option.map_some, Option.bind_some]; split <;> simp <;> omega
    · simp [deserialize_rest1, baseKey, baseLen, TyS.base, slice_add, slice_add2, intOfBytes_unsigned, hh, deserOne, readFrame,
        dictSet, setField_new _ _ _ hk, hA, htl]
      generalize natOfLE (List.take 3 (List.drop (i + 1) data)) = n
      by_cases hc : auto = false ∨ untouchable T schema k = true
      · simp only [hc, if_true, Option.bind_some, dictItem?, lookup_last _ _ _ hk, decode?]
        by_cases hu : utf8Valid (List.take n (List.drop (i + 4) data)) = true
        · simp only [hu, if_true, Option.bind_some, stepRes, setField_last _ _ _ _ hk]; split <;> simp <;> omega
        · simp [hu, stepRes]
      · simp only [hc, if_false]
        cases autoParse (fun x => rm x none) (List.take n (List.drop (i + 4) data)) n with
        | none => simp [stepRes]
        | some v =>
          cases v with
          | bytes b =>
            simp only [Option.map_some, Option.bind_some, dictItem?, lookup_last _ _ _ hk, decode?]
            by_cases hu : utf8Valid b = true
            · simp only [hu, if_true, Option.bind_some, stepRes, setField_last _ _ _ _ hk]; split <;> simp <;> omega
            · simp [hu, stepRes]
          | _ => simp [stepRes, dictItem?, lookup_last _ _ _ hk, decode?]
  · rcases he with rfl | rfl
    · simp [deserialize_rest1, baseKey, baseLen, TyS.base, slice_add, slice_add2, intOfBytes_unsigned, hh, deserOne, readFrame,
        dictSet, setField_new _ _ _ hk, hA, htl]
      generalize natOfLE (List.take 1 (List.drop i data)) = n
      by_cases hc : auto = false ∨ untouchable T schema k = true
      · simp only [hc, if_true, stepRes, Option.bind_some]
        split <;> simp <;> omega
      · simp only [hc, if_false]
        cases autoParse (fun x => rm x none) (List.take n (List.drop (i + 1) data)) n with
        | none => simp [stepRes]
        | some v => simp only [stepRes, Option.map_some, Option.bind_some]; split <;> simp <;> omega
    · simp [deserialize_rest1, baseKey, baseLen, TyS.base, slice_add, slice_add2, intOfBytes_unsigned, hh, deserOne, readFrame,
        dictSet, setField_new _ _ _ hk, hA, htl]
      generalize natOfLE (List.take 1 (List.drop i data)) = n
      by_cases hc : auto = false ∨ untouchable T schema k = true
      · simp only [hc, if_true, Option.bind_some, dictItem?, lookup_last _ _ _ hk, decode?]
        by_cases hu : utf8Valid (List.take n (List.drop (i + 1) data)) = true
        · simp only [hu, if_true, Option.bind_some, stepRes, setField_last _ _ _ _ hk]; split <;> simp <;> omega
        · simp [hu, stepRes]
      · simp only [hc, if_false]
        cases autoParse (fun x => rm x none) (List.take n (List.drop (i + 1) data)) n with
        | none => simp [stepRes]
        | some v =>
          cases v with
          | bytes b =>
            simp only [Option.map_some, Option.bind_some, dictItem?, lookup_last _ _ _ hk, decode?]
            by_cases hu : utf8Valid b = true
            · simp only [hu, if_true, Option.bind_some, stepRes, setField_last _ _ _ _ hk]; split <;> simp <;> omega
            · simp [hu, stepRes]
          | _ => simp [stepRes, dictItem?, lookup_last _ _ _ hk, decode?]

/-! ### the field loop -/

theorem rest1_eq (T : Table) (rg rp : RecG) (rm : RecM) (hr : RecOK T rg rm) (L : Nat) (auto : Bool) (data : Bytes)
    (hL : data.length + 2 ≤ L) (i : Nat) (ty : Option Nat) (acc : Fields) (schema : Option Ctor) (a : Arg)
    (hp : a.vec = false ∨ PseudoOK T auto L rp rm) (hk : acc.lookup a.name = none) :
    deserialize_rest1 T rg rp L auto data a.name i (.obj ty acc) schema ⟨none, a.vec, a.ty⟩ =
      stepRes i ty acc a.name (deserArg T auto rm (untouchable T schema a.name) a (data.drop i)) := by
  cases hv : a.vec with
  | true =>
    rcases hp with hp | hp
    · rw [hv] at hp; cases hp
    · have := rest1_vec T rg rp rm hr L auto data hp hL a.name i ty acc schema a (untouchable T schema a.name) hv hk
      rw [this]
  | false =>
    simp only [deserArg, hv, Bool.false_eq_true, if_false]
    cases he : a.ty with
    | bytes => exact rest1_bytes T rg rp rm hr L auto data a.name i ty acc schema _ hk hL (Or.inl rfl)
    | string => exact rest1_bytes T rg rp rm hr L auto data a.name i ty acc schema _ hk hL (Or.inr rfl)
    | bare n => exact rest1_bare T rg rp rm hr L auto data a.name i ty acc schema n _ hk
    | boxed cl => exact rest1_boxed T rg rp rm hr L auto data a.name i ty acc schema _ _ hk (Or.inl ⟨cl, rfl⟩)
    | unsup => exact rest1_boxed T rg rp rm hr L auto data a.name i ty acc schema _ _ hk (Or.inr rfl)
    | _ => rw [rest1_fixed T rg rp L auto data a.name i ty acc schema _ hk (by simp)]; simp [deserOne]

theorem maskOf_eq (T : Table) (ty : Option Nat) (acc : Fields) :
    maskOf? T (.obj ty acc) = (match flagVal T acc with
      | some (.int m) => some (binRev m) | some (.bool b) => some (binRev (if b then 1 else 0)) | _ => none) := by
  cases h1 : acc.lookup T.modeKey with
  | none =>
    simp only [maskOf?, flagVal, h1]
    cases acc.lookup T.flagsKey with
    | none => rfl
    | some v => cases v <;> rfl
  | some v => simp only [maskOf?, flagVal, h1]; cases v <;> rfl

/-- the flags test of one field, as the model makes it -/
def present (T : Table) (acc : Fields) (a : Arg) : Option Bool :=
  match a.cond with
  | none => some true
  | some (_, bit) =>
    match flagVal T acc with
    | some (.int m) => some (maskBit m bit)
    | some (.bool b) => some (maskBit (if b then 1 else 0) bit)
    | _ => none

theorem loop1_step (T : Table) (rg rp : RecG) (rm : RecM) (hr : RecOK T rg rm) (L : Nat) (auto : Bool) (data : Bytes)
    (hL : data.length + 2 ≤ L) (i : Nat) (ty : Option Nat) (acc : Fields) (schema : Option Ctor) (a : Arg)
    (hp : a.vec = false ∨ PseudoOK T auto L rp rm) (hk : acc.lookup a.name = none) :
    deserialize_loop1 T rg rp L auto data schema (i, .obj ty acc) a =
      (match present T acc a with
       | none => none
       | some false => some (i, .obj ty acc)
       | some true => stepRes i ty acc a.name (deserArg T auto rm (untouchable T schema a.name) a (data.drop i))) := by
  have hrest := rest1_eq T rg rp rm hr L auto data hL i ty acc schema a hp hk
  cases hc : a.cond with
  | none =>
    simp only [deserialize_loop1, TyS.isCond, TyS.ofArg, hc, Option.isSome_none, Bool.false_eq_true, if_false, present]
    exact hrest
  | some p =>
    obtain ⟨fl, bit⟩ := p
    simp only [deserialize_loop1, TyS.isCond, TyS.ofArg, hc, Option.isSome_some, if_true, present, maskOf_eq, TyS.condBit, TyS.strip]
    have key : ∀ m : Int,
        ((some (binRev m)).bind fun mask =>
          if bit ≥ mask.length then some (i, Val.obj ty acc)
          else (mask[bit]?).bind fun ch_19 =>
            if ch_19 = 48 then some (i, Val.obj ty acc)
            else deserialize_rest1 T rg rp L auto data a.name i (Val.obj ty acc) schema ⟨none, a.vec, a.ty⟩) =
        (match some (maskBit m bit) with
         | none => none
         | some false => some (i, .obj ty acc)
         | some true => stepRes i ty acc a.name (deserArg T auto rm (untouchable T schema a.name) a (data.drop i))) := by
      intro m
      have hm := mask_spec m bit
      simp only [Option.bind_some]
      by_cases hge : bit ≥ (binRev m).length
      · simp only [hge, if_true] at hm ⊢
        rw [← hm]
      · simp only [hge, if_false] at hm ⊢
        obtain ⟨ch, hch⟩ : ∃ ch, (binRev m)[bit]? = some ch := by
          rw [List.getElem?_eq_getElem (by omega)]; exact ⟨_, rfl⟩
        rw [hch] at hm ⊢
        simp only [Option.bind_some]
        by_cases h48 : ch = 48
        · subst h48; simp at hm; simp [hm]
        · have : maskBit m bit = true := by rw [← hm]; simp [h48]
          simp only [h48, if_false, this]
          exact hrest
    cases hf : flagVal T acc with
    | none => simp
    | some v =>
      cases v with
      | int m => exact key m
      | bool b => exact key (if b then 1 else 0)
      | _ => simp

/-- the untouchables test of the model -/
def utM (T : Table) (sch : Option Nat) (k : Nat) : Bool :=
  match sch with
  | some s => T.untouch.contains (s, k)
  | none => false

theorem deserBody_cons (T : Table) (auto : Bool) (rm : RecM) (sch : Option Nat) (a : Arg) (as : List Arg) (acc : Fields) (d : Bytes) :
    deserBody T auto rm sch (a :: as) acc d =
      (match present T acc a with
       | none => none
       | some false => deserBody T auto rm sch as acc d
       | some true =>
         match deserArg T auto rm (utM T sch a.name) a d with
         | none => none
         | some (ov, j) =>
           match deserBody T auto rm sch as (match ov with | some v => acc ++ [(a.name, v)] | none => acc) (d.drop j) with
           | none => none
           | some (fs, j2) => some (fs, j + j2)) := by
  conv => lhs; unfold deserBody
  cases hc : a.cond with
  | none => simp only [present, hc, utM]; cases sch <;> rfl
  | some p =>
    obtain ⟨fl, bit⟩ := p
    simp only [present, hc, utM]
    cases flagVal T acc with
    | none => rfl
    | some v => cases v <;> first | rfl | (cases sch <;> rfl)

theorem loop1_fold (T : Table) (rg rp : RecG) (rm : RecM) (hr : RecOK T rg rm) (L : Nat) (auto : Bool) (data : Bytes)
    (hL : data.length + 2 ≤ L) (ty : Option Nat) (schema : Option Ctor) :
    ∀ (as : List Arg) (i : Nat) (acc : Fields), (∀ b ∈ as, acc.lookup b.name = none) → (as.map (·.name)).Nodup →
      ((∀ a ∈ as, a.vec = false) ∨ PseudoOK T auto L rp rm) →
      List.foldlM (m := Option) (deserialize_loop1 T rg rp L auto data schema) (i, .obj ty acc) as =
        (deserBody T auto rm (schema.map (·.name)) as acc (data.drop i)).map (fun (fs, j) => (i + j, .obj ty fs))
  | [], i, acc, _, _, _ => by simp [deserBody]
  | a :: as, i, acc, hk, hn, hp => by
    have hp1 : a.vec = false ∨ PseudoOK T auto L rp rm := hp.imp (fun h => h a (List.mem_cons_self ..)) id
    have hp2 : (∀ b ∈ as, b.vec = false) ∨ PseudoOK T auto L rp rm := hp.imp (fun h b hb => h b (List.mem_cons_of_mem _ hb)) id
    have hka := hk a (List.mem_cons_self ..)
    have hkas : ∀ b ∈ as, acc.lookup b.name = none := fun b hb => hk b (List.mem_cons_of_mem _ hb)
    rw [List.map_cons, List.nodup_cons] at hn
    have hut : untouchable T schema a.name = utM T (schema.map (·.name)) a.name := by
      cases schema <;> rfl
    rw [List.foldlM_cons, loop1_step T rg rp rm hr L auto data hL i ty acc schema a hp1 hka, deserBody_cons, hut]
    have ih := loop1_fold T rg rp rm hr L auto data hL ty schema as
    cases present T acc a with
    | none => rfl
    | some b =>
      cases b with
      | false => exact ih i acc hkas hn.2 hp2
      | true =>
        simp only []
        cases deserArg T auto rm (utM T (Option.map (fun x => x.name) schema) a.name) a (List.drop i data) with
        | none => rfl
        | some r =>
          obtain ⟨ov, j⟩ := r
          have hne : ∀ b ∈ as, b.name ≠ a.name := fun b hb e => hn.1 (by rw [← e]; exact List.mem_map_of_mem hb)
          cases ov with
          | none =>
            simp only [stepRes, Option.bind_some, Option.bind_eq_bind, ih (i + j) acc hkas hn.2 hp2, List.drop_drop]
            cases deserBody T auto rm (Option.map (fun x => x.name) schema) as acc (List.drop (i + j) data) with
            | none => simp
            | some q => obtain ⟨fs, j2⟩ := q; simp [Nat.add_assoc]
          | some v =>
            have hk' : ∀ b ∈ as, (acc ++ [(a.name, v)]).lookup b.name = none := fun b hb => by
              rw [lookup_append_ne _ _ _ _ (hne b hb)]; exact hkas b hb
            simp only [stepRes, Option.bind_some, Option.bind_eq_bind, ih (i + j) _ hk' hn.2 hp2, List.drop_drop]
            cases deserBody T auto rm (Option.map (fun x => x.name) schema) as (acc ++ [(a.name, v)]) (List.drop (i + j) data) with
            | none => simp
            | some q => obtain ⟨fs, j2⟩ := q; simp [Nat.add_assoc]

/-! ### one call, and the knot -/

/-- the field names of an argument list are distinct (`schema.args` is a Python dict) -/
def ArgsOK (as : List Arg) : Prop := (as.map (·.name)).Nodup
def TableArgsOK (T : Table) : Prop := ∀ c ∈ T.ctors, ArgsOK c.args

theorem byIdLE_eq (T : Table) (data : Bytes) : Py.Tl.byIdLE T (Py.slice data 0 (0 + 4)) = Model.Tl.byIdLE T data := by
  simp [Py.Tl.byIdLE, Model.Tl.byIdLE, Py.slice]

theorem deserialize_boxed (T : Table) (rg rp : RecG) (rm : RecM) (hr : RecOK T rg rm) (L : Nat) (auto : Bool) (data : Bytes)
    (hL : data.length + 2 ≤ L) (hp : PseudoOK T auto L rp rm) (hT : TableArgsOK T) (args : Option (List Arg)) :
    Generated.TlEngine.deserialize T rg rp L auto data true args =
      (match Model.Tl.byIdLE T data with
       | none => some (.bytes data, data.length)
       | some c => (deserBody T auto rm (some c.name) c.args [] (data.drop 4)).map (fun (fs, j) => (.obj (some c.name) fs, 4 + j))) := by
  simp only [Generated.TlEngine.deserialize, if_true, byIdLE_eq]
  cases hb : Model.Tl.byIdLE T data with
  | none => simp
  | some c =>
    have hc : c ∈ T.ctors := by
      unfold Model.Tl.byIdLE at hb
      split at hb
      · exact byId_mem T _ c hb
      · cases hb
    have := loop1_fold T rg rp rm hr L auto data hL (some c.name) (some c) c.args (0 + 4) [] (fun _ _ => rfl) (hT c hc) (Or.inr hp)
    simp only [Option.isSome_some, not_true_eq_false, if_false, Option.bind_some, dictSetType?, this, Option.map_some]
    simp only [Nat.zero_add]
    cases deserBody T auto rm (some c.name) c.args [] (List.drop 4 data) with
    | none => rfl
    | some q => obtain ⟨fs, j⟩ := q; rfl

theorem deserialize_bare (T : Table) (rg rp : RecG) (rm : RecM) (hr : RecOK T rg rm) (L : Nat) (auto : Bool) (data : Bytes)
    (hL : data.length + 2 ≤ L) (as : List Arg) (hn : ArgsOK as) (hp : (∀ a ∈ as, a.vec = false) ∨ PseudoOK T auto L rp rm) :
    Generated.TlEngine.deserialize T rg rp L auto data false (some as) =
      (deserBody T auto rm none as [] data).map (fun (fs, j) => (.obj none fs, j)) := by
  have := loop1_fold T rg rp rm hr L auto data hL none none as 0 [] (fun _ _ => rfl) hn hp
  simp only [Option.map_none, List.drop_zero] at this
  simp only [Generated.TlEngine.deserialize, Bool.false_eq_true, if_false, Option.bind_some, this]
  cases deserBody T auto rm none as [] data with
  | none => rfl
  | some q => obtain ⟨fs, j⟩ := q; simp

theorem deserOne_base_inVec (T : Table) (auto : Bool) (rm : RecM) (ut : Bool) (e : ETy) (d : Bytes)
    (hb : baseKey ⟨none, false, e⟩ = true) : deserOne T auto rm ut e false d = deserOne T auto rm ut e true d := by
  cases e <;> first | rfl | simp [baseKey] at hb

theorem pseudo_ok (T : Table) (rg : RecG) (rm : RecM) (hr : RecOK T rg rm) (L : Nat) (auto : Bool) :
    PseudoOK T auto L (Generated.TlEngine.deserialize T rg (fun _ _ _ => none) L auto) rm := by
  intro d e hL hb
  have := deserialize_bare T rg (fun _ _ _ => none) rm hr L auto d hL [argOf pseudoKey ⟨none, false, e⟩]
    (by simp [ArgsOK]) (Or.inl (by simp [argOf]))
  rw [this, deserBody_cons]
  simp only [present, argOf, utM, deserArg, Bool.false_eq_true, if_false, deserOne_base_inVec T auto rm false e d hb]
  cases deserOne T auto rm false e true d with
  | none => rfl
  | some r =>
    obtain ⟨ov, j⟩ := r
    cases ov <;> simp [deserBody]

theorem deserObj_objRet (T : Table) (auto : Bool) (f : Nat) (d : Bytes) (as : List Arg) (v : Val) (j : Nat)
    (h : deserObj T auto f d (some as) = some (v, j)) : ∃ fs, v = .obj none fs := by
  cases f with
  | zero => simp [deserObj] at h
  | succ f =>
    simp only [deserObj] at h
    cases hb : deserBody T auto (deserObj T auto f) none as [] d with
    | none => rw [hb] at h; cases h
    | some q => obtain ⟨fs, j'⟩ := q; rw [hb] at h; simp at h; exact ⟨fs, h.1.symm⟩

theorem deserObj_empty (T : Table) (auto : Bool) (f : Nat) (r : Val × Nat) (h : deserObj T auto f [] none = some r) : r.2 = 0 := by
  cases f with
  | zero => simp [deserObj] at h
  | succ f =>
    have : Model.Tl.byIdLE T [] = none := by simp [Model.Tl.byIdLE]
    simp [deserObj, this] at h
    rw [← h]

/-- THE TIE: the regenerated parser is the hand model, for every table with distinct field names, every byte string, both modes,
every depth budget and every loop budget of at least `len(data) + 2`. -/
theorem src_parser (T : Table) (hT : TableArgsOK T) (auto : Bool) (slack : Nat) : ∀ fuel : Nat,
    (∀ d args, deserializeF T auto slack fuel d true args = deserObj T auto fuel d none) ∧
    (∀ d as, ArgsOK as → deserializeF T auto slack fuel d false (some as) = deserObj T auto fuel d (some as))
  | 0 => ⟨fun _ _ => rfl, fun _ _ _ => rfl⟩
  | f + 1 => by
    obtain ⟨ih1, ih2⟩ := src_parser T hT auto slack f
    have hr : RecOK T (deserializeF T auto slack f) (deserObj T auto f) :=
      ⟨ih1, fun d c hc => ih2 d c.args (hT c hc), fun d as v j h => deserObj_objRet T auto f d as v j h,
       fun r h => deserObj_empty T auto f r h⟩
    refine ⟨fun d args => ?_, fun d as hn => ?_⟩
    · have := deserialize_boxed T _ _ _ hr (d.length + 2 + slack) auto d (by omega) (pseudo_ok T _ _ hr _ auto) hT args
      simp only [deserializeF, this, deserObj]
      cases Model.Tl.byIdLE T d <;> rfl
    · have := deserialize_bare T _ _ _ hr (d.length + 2 + slack) auto d (by omega) as hn (Or.inr (pseudo_ok T _ _ hr _ auto))
      simp only [deserializeF, this, deserObj]

end TonVerif.Proofs.SrcTlParser
