/-
The serialize / deserialize methods of the message classes (tlb/transaction.py, account.py, block.py) as regenerated from the
source (Generated/MsgSrc.lean, translator harness/translate/pytlb.py) equal the hand model `Model/Message.lean`, for ALL inputs.
Generation dependent.
-/
import TonVerif.Generated.MsgSrc
import TonVerif.Model.Message
import TonVerif.Proofs.SrcSOp
import TonVerif.Proofs.SrcVmStack
set_option linter.unusedSimpArgs false
namespace TonVerif.Proofs.SrcMsg
open TonVerif TonVerif.Model TonVerif.Model.Vm TonVerif.Spec.Tlb TonVerif.Generated.MsgSrc TonVerif.Proofs.SrcSOp TonVerif.Proofs.SrcVm
open TonVerif.Model.Message

variable {R : Type} {mk : Bits → List R → Option R} {view : R → Bits × List R}

/-- a builder program run from the empty builder and finished: what `<piece>.serialize()` returns -/
def built (mk : Bits → List R → Option R) (op : BOp R) : Option (Built R) := build mk op

theorem run_sub (op : BOp R) (b : Builder R) :
    run (Message.sub op) b = (run op Builder.empty).bind fun p => run (BOp.storeCell p.bits p.refs) b := by
  unfold Message.sub run
  cases h : (op Builder.empty).2 <;> simp [h]

/-! ### deserialisers -/

macro "sop_norm" " [" ls:Lean.Parser.Tactic.simpLemma,* "]" : tactic =>
  `(tactic| simp only [bind_def, pure_def, sop_pure_bind, sop_bind_pure, sop_bind_assoc, sop_fail_bind, sop_ite_bind, $ls,*])

theorem extra_de_eq : ExtraCurrencyCollection_deserialize view = (SOp.loadMaybeRef : SOp R (Option R)) := by
  unfold ExtraCurrencyCollection_deserialize
  sop_norm []

theorem currency_de_eq : CurrencyCollection_deserialize view = (loadCurrency : SOp R (Currency R)) := by
  unfold CurrencyCollection_deserialize loadCurrency
  sop_norm [extra_de_eq]

theorem tickTock_de_eq : TickTock_deserialize view = (loadTickTock : SOp R TickTock) := by
  unfold TickTock_deserialize loadTickTock
  sop_norm []

theorem stateInit_de_eq : StateInit_deserialize view = (loadStateInit : SOp R (StateInit R)) := by
  unfold StateInit_deserialize loadStateInit loadIf
  sop_norm [tickTock_de_eq]

theorem infoInt_de_eq : InternalMsgInfo_deserialize view = (loadInfoInt : SOp R (Info R)) := by
  unfold InternalMsgInfo_deserialize loadInfoInt
  sop_norm [currency_de_eq]

theorem infoExtIn_de_eq : ExternalMsgInfo_deserialize view = (loadInfoExtIn : SOp R (Info R)) := by
  unfold ExternalMsgInfo_deserialize loadInfoExtIn
  sop_norm [bne_iff_ne, ne_eq]

theorem infoExtOut_de_eq : ExternalOutMsgInfo_deserialize view = (loadInfoExtOut : SOp R (Info R)) := by
  unfold ExternalOutMsgInfo_deserialize loadInfoExtOut
  sop_norm [bne_iff_ne, ne_eq]

theorem info_de_eq : CommonMsgInfo_deserialize view = (loadInfo : SOp R (Info R)) := by
  unfold CommonMsgInfo_deserialize loadInfo
  sop_norm [infoInt_de_eq, infoExtIn_de_eq, infoExtOut_de_eq, beq_iff_eq, Bool.not_eq_true']
  refine sop_bind_congr (fun tag => ?_)
  cases tag <;> simp

theorem message_de_eq (ops : CellOps R) : MessageAny_deserialize ops.view = loadMessage ops := by
  unfold MessageAny_deserialize loadMessage
  sop_norm [info_de_eq, stateInit_de_eq]
  rfl

/-! ### serialisers without an intermediate cell object -/

theorem extra_ser_eq (o : Option R) : ExtraCurrencyCollection_serialize mk o = build mk (BOp.storeMaybeRef o) := by
  simp [ExtraCurrencyCollection_serialize, build, BOp.storeDict]

theorem tickTock_ser_eq (t : TickTock) : TickTock_serialize mk t = build mk (tickTockB t) := by
  cases t
  simp [TickTock_serialize, build, tickTockB, run_andThen, Option.bind_assoc]

end TonVerif.Proofs.SrcMsg
