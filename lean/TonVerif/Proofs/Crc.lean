/-
Helper lemmas for C18: the table-driven CRC code generated from the Python source
computes the bit-at-a-time CRC of `Spec/Crc.lean`.
-/
import TonVerif.Spec.Crc
import TonVerif.Generated.Crc

namespace TonVerif.Proofs.Crc
open TonVerif.Spec

/-! ### generic -/

theorem ite_xor_bool {n} (x y : Bool) (p : BitVec n) :
    (if (x != y) then p else 0#n) = (if x then p else 0#n) ^^^ (if y then p else 0#n) := by
  cases x <;> cases y <;> simp

theorem ite_xor_bool' {n} (x y : Bool) (p : BitVec n) :
    (if (x ^^ y) then p else 0#n) = (if x then p else 0#n) ^^^ (if y then p else 0#n) := by
  cases x <;> cases y <;> simp

theorem iter_xor {n} (f : BitVec n → BitVec n) (hf : ∀ a b, f (a ^^^ b) = f a ^^^ f b) :
    ∀ k a b, iter f k (a ^^^ b) = iter f k a ^^^ iter f k b := by
  intro k; induction k with
  | zero => intros; rfl
  | succ k ih => intro a b; simp only [iter, hf, ih]

/-! ### CRC-16 -/

theorem step16_eq (c : BitVec 16) :
    step16 c = (c <<< 1) ^^^ (if c.msb then 0x1021#16 else 0#16) := by
  unfold step16; split <;> simp

theorem step16_xor (a b : BitVec 16) : step16 (a ^^^ b) = step16 a ^^^ step16 b := by
  simp only [step16_eq, BitVec.msb_xor, ite_xor_bool, BitVec.shiftLeft_xor_distrib]
  ac_rfl

theorem decomp16 (c : BitVec 16) :
    c = (((c >>> 8).truncate 8).zeroExtend 16 <<< 8) ^^^ ((c.truncate 8).zeroExtend 16) := by
  ext i hi
  simp
  by_cases h : i < 8
  · simp [h, BitVec.getLsbD_eq_getElem hi]
  · have : i - 8 < 8 := by omega
    have h2 : 8 + (i - 8) = i := by omega
    simp [h, this, h2, BitVec.getLsbD_eq_getElem hi]

/-- eight steps on a state whose top byte is zero are a plain shift. -/
theorem lo16 : ∀ x : BitVec 8, iter step16 8 (x.zeroExtend 16) = x.zeroExtend 16 <<< 8 := by
  decide +kernel

/-- TABLE OBLIGATION (all 256 entries of the table found in the Python source). -/
theorem table16 : ∀ x : BitVec 8,
    iter step16 8 (x.zeroExtend 16 <<< 8) = BitVec.ofNat 16 (Generated.crc16_table.getD x.toNat 0) := by
  decide +kernel

theorem table16_size : Generated.crc16_table.size = 256 := by decide +kernel

theorem shl8_trunc (c : BitVec 16) : (c.truncate 8).zeroExtend 16 <<< 8 = c <<< 8 := by
  ext i hi
  simp
  by_cases h : i < 8
  · simp [h]
  · have : i - 8 < 8 := by omega
    simp [h, this, BitVec.getLsbD_eq_getElem (show i - 8 < 16 by omega)]

theorem hi_xor (c : BitVec 16) (b : BitVec 8) :
    (((c >>> 8).truncate 8) ^^^ b).zeroExtend 16 <<< 8
      = (((c >>> 8).truncate 8).zeroExtend 16 <<< 8) ^^^ (b.zeroExtend 16 <<< 8) := by
  ext i hi
  by_cases h : i < 8 <;> by_cases h2 : i - 8 < 8 <;> simp [h, h2]

/-- per-byte lemma, bit-vector level. -/
theorem byte16_table (c : BitVec 16) (b : BitVec 8) :
    byte16 c b = (c <<< 8) ^^^
      BitVec.ofNat 16 (Generated.crc16_table.getD (((c >>> 8).truncate 8) ^^^ b).toNat 0) := by
  unfold byte16
  conv => lhs; rw [decomp16 c]
  have : ((((c >>> 8).truncate 8).zeroExtend 16 <<< 8) ^^^ ((c.truncate 8).zeroExtend 16)) ^^^ (b.zeroExtend 16 <<< 8)
      = ((((c >>> 8).truncate 8) ^^^ b).zeroExtend 16 <<< 8) ^^^ ((c.truncate 8).zeroExtend 16) := by
    rw [hi_xor]; ac_rfl
  rw [this, iter_xor _ step16_xor]
  rw [table16]
  rw [lo16]
  rw [shl8_trunc]
  exact BitVec.xor_comm _ _


/-! ### CRC-16: Nat-level generated code = bit-vector spec -/

theorem gen16_step (c b : Nat) (C : BitVec 16) (hc : c = C.toNat) (hb : b < 256) :
    (((c <<< 8) ^^^ (Generated.crc16_table.getD ((c >>> 8) ^^^ b) 0)) &&& 65535)
      = (byte16 C (BitVec.ofNat 8 b)).toNat := by
  subst hc
  rw [byte16_table]
  have hidx : (((C >>> 8).truncate 8) ^^^ BitVec.ofNat 8 b).toNat = (C.toNat >>> 8) ^^^ b := by
    have h1 : C.toNat < 65536 := C.isLt
    have h2 : C.toNat >>> 8 < 256 := by rw [Nat.shiftRight_eq_div_pow]; omega
    simp [BitVec.toNat_xor, BitVec.toNat_ushiftRight, BitVec.toNat_setWidth]
    rw [Nat.mod_eq_of_lt h2, Nat.mod_eq_of_lt hb]
  rw [hidx]
  have e : (65535 : Nat) = 2 ^ 16 - 1 := by decide
  rw [e, Nat.and_two_pow_sub_one_eq_mod, Nat.xor_mod_two_pow]
  simp [BitVec.toNat_xor, BitVec.toNat_shiftLeft, BitVec.toNat_ofNat]

theorem gen16_fold (data : List Nat) (hd : ∀ b ∈ data, b < 256) :
    ∀ (c : Nat) (C : BitVec 16), c = C.toNat →
      data.foldl (fun crc byte =>
        (((crc <<< 8) ^^^ (Generated.crc16_table.getD ((crc >>> 8) ^^^ byte) 0)) &&& 65535)) c
      = ((data.map (BitVec.ofNat 8)).foldl byte16 C).toNat := by
  induction data with
  | nil => intro c C h; simpa using h
  | cons b bs ih =>
    intro c C h
    simp only [List.foldl_cons, List.map_cons]
    apply ih (fun x hx => hd x (List.mem_cons_of_mem _ hx))
    exact gen16_step c b C h (hd b List.mem_cons_self)

/-! ### CRC-32C -/

theorem step32_eq (c : BitVec 32) :
    step32 c = (c >>> 1) ^^^ (if c.getLsbD 0 then 0x82F63B78#32 else 0#32) := by
  unfold step32; split <;> simp

theorem ushiftRight_xor_distrib {n} (a b : BitVec n) (k : Nat) :
    (a ^^^ b) >>> k = (a >>> k) ^^^ (b >>> k) := by
  ext i hi; simp

theorem step32_xor (a b : BitVec 32) : step32 (a ^^^ b) = step32 a ^^^ step32 b := by
  simp only [step32_eq, BitVec.getLsbD_xor, ite_xor_bool', ushiftRight_xor_distrib]
  ac_rfl

/-- TABLE OBLIGATION (all 256 entries of the table found in the Python source). -/
theorem table32 : ∀ x : BitVec 8,
    iter step32 8 (x.zeroExtend 32) = BitVec.ofNat 32 (Generated.crc32c_crc32c_table.getD x.toNat 0) := by
  decide +kernel

theorem table32_size : Generated.crc32c_crc32c_table.size = 256 := by decide +kernel

/-- k steps on a state whose k low bits are zero are a plain right shift. -/
theorem iter_step32_lowzero : ∀ (k : Nat) (z : BitVec 32), (∀ i, i < k → z.getLsbD i = false) →
    iter step32 k z = z >>> k := by
  intro k; induction k with
  | zero => intro z _; simp [iter]
  | succ k ih =>
    intro z hz
    have h0 : z.getLsbD 0 = false := hz 0 (by omega)
    have hs : step32 z = z >>> 1 := by unfold step32; simp only [h0]; simp
    simp only [iter, hs]
    rw [ih]
    · rw [← BitVec.shiftRight_add]; congr 1; omega
    · intro i hi
      simp only [BitVec.getLsbD_ushiftRight]
      have := hz (1 + i) (by omega)
      simpa using this

theorem decomp32 (x : BitVec 32) :
    x = ((x.truncate 8).zeroExtend 32) ^^^ ((x >>> 8) <<< 8) := by
  ext i hi
  simp
  by_cases h : i < 8
  · simp [h, BitVec.getLsbD_eq_getElem hi]
  · have h2 : 8 + (i - 8) = i := by omega
    simp [h, h2, BitVec.getLsbD_eq_getElem hi]

theorem shr8_low (c : BitVec 32) (b : BitVec 8) : (c ^^^ b.zeroExtend 32) >>> 8 = c >>> 8 := by
  ext i hi
  simp

theorem byte32_table (c : BitVec 32) (b : BitVec 8) :
    byte32 c b = BitVec.ofNat 32 (Generated.crc32c_crc32c_table.getD
        ((c ^^^ b.zeroExtend 32).truncate 8).toNat 0) ^^^ (c >>> 8) := by
  unfold byte32
  conv => lhs; rw [decomp32 (c ^^^ b.zeroExtend 32)]
  rw [iter_xor _ step32_xor]
  rw [table32]
  rw [iter_step32_lowzero]
  · congr 1
    rw [shr8_low]
    ext i hi
    simp
    intro h; exact BitVec.lt_of_getLsbD h
  · intro i hi
    simp
    omega

theorem gen32_step (c b : Nat) (C : BitVec 32) (hc : c = C.toNat) (hb : b < 256) :
    ((Generated.crc32c_crc32c_table.getD ((c ^^^ b) &&& 255) 0) ^^^ (c >>> 8))
      = (byte32 C (BitVec.ofNat 8 b)).toNat := by
  subst hc
  rw [byte32_table]
  have hidx : ((C ^^^ (BitVec.ofNat 8 b).zeroExtend 32).truncate 8).toNat = (C.toNat ^^^ b) &&& 255 := by
    have e : (255 : Nat) = 2 ^ 8 - 1 := by decide
    rw [e, Nat.and_two_pow_sub_one_eq_mod, Nat.xor_mod_two_pow]
    simp [BitVec.toNat_xor, BitVec.toNat_setWidth, Nat.mod_eq_of_lt hb]
  rw [hidx]
  have hsz := table32_size
  have hlt : (C.toNat ^^^ b) &&& 255 < 256 := by
    have e : (255 : Nat) = 2 ^ 8 - 1 := by decide
    rw [e, Nat.and_two_pow_sub_one_eq_mod]; omega
  have hentry : ∀ i, i < 256 → Generated.crc32c_crc32c_table.getD i 0 < 2 ^ 32 := by
    decide +kernel
  have := hentry _ hlt
  simp only [BitVec.toNat_xor, BitVec.toNat_ushiftRight, BitVec.toNat_ofNat]
  rw [Nat.mod_eq_of_lt this]

theorem gen32_fold (data : List Nat) (hd : ∀ b ∈ data, b < 256) :
    ∀ (c : Nat) (C : BitVec 32), c = C.toNat →
      data.foldl (fun crc byte =>
        ((Generated.crc32c_crc32c_table.getD ((crc ^^^ byte) &&& 255) 0) ^^^ (crc >>> 8))) c
      = ((data.map (BitVec.ofNat 8)).foldl byte32 C).toNat := by
  induction data with
  | nil => intro c C h; simpa using h
  | cons b bs ih =>
    intro c C h
    simp only [List.foldl_cons, List.map_cons]
    apply ih (fun x hx => hd x (List.mem_cons_of_mem _ hx))
    exact gen32_step c b C h (hd b List.mem_cons_self)

end TonVerif.Proofs.Crc
