/-
C11, account part: the lookup-only walk `lookupShardAccount` is the same on two cell structures related by a
simulation.  Two instances: (1) a constructed cell object and the tree it was built from (`PCell.ofCell`); (2) the body of
an accepted Merkle proof and ANY tree with the proved hash (`Agree`, Proofs/Binding.lean) — the walk only ever stands on
ordinary cells, so no pruned branch of the proof is looked into, and on the other side pruned branches are excluded where
an ordinary cell leads to them (`OrdUnpruned`).
-/
import TonVerif.Proofs.Locate
import TonVerif.Proofs.Merkle
import TonVerif.Proofs.Binding

namespace TonVerif.Proofs.Locate
open TonVerif TonVerif.Model TonVerif.Model.Hashmap TonVerif.Proofs.CellSpec TonVerif.Proofs.Merkle TonVerif.Proofs.Binding

set_option linter.unusedSimpArgs false
set_option linter.unusedVariables false

/-! ### generic simulation -/

theorem forall₂_get {α β : Type} {R : α → β → Prop} : ∀ {l : List α} {l' : List β}, List.Forall₂ R l l' →
    ∀ (k : Nat) (a : α), l[k]? = some a → ∃ b, l'[k]? = some b ∧ R a b
  | _, _, .nil, k, a, h => by simp at h
  | _, _, .cons (a := x) (b := y) hxy ht, k, a, h => by
    cases k with
    | zero => simp at h; subst h; exact ⟨y, by simp, hxy⟩
    | succ k => simp at h; simpa using forall₂_get ht k a h

theorem forall₂_cons_inv {α β : Type} {R : α → β → Prop} {a : α} {l : List α} {l' : List β}
    (h : List.Forall₂ R (a :: l) l') : ∃ b l'', l' = b :: l'' ∧ R a b ∧ List.Forall₂ R l l'' := by
  cases h with
  | cons h1 h2 => exact ⟨_, _, rfl, h1, h2⟩

/-- the walk `lookupAug` commutes with every relation that, from an ORDINARY cell on the left, gives an ordinary cell
with the same bits and pairwise related references on the right -/
theorem lookupAug_sim {C D : Type} (V : CellView C) (W : CellView D) (R : C → D → Prop)
    (hstep : ∀ c d, R c d → V.kind c = -1 → W.kind d = -1 ∧ V.bits c = W.bits d ∧ List.Forall₂ R (V.refs c) (W.refs d)) :
    ∀ (fuel : Nat) (c : C) (d : D) (n : Nat) (key rest : Bits) (rs : List C), R c d →
      lookupAug V fuel c n key = some (rest, rs) →
      ∃ rs', lookupAug W fuel d n key = some (rest, rs') ∧ List.Forall₂ R rs rs'
  | 0, c, d, n, key, rest, rs, hR, h => by simp [lookupAug] at h
  | fuel + 1, c, d, n, key, rest, rs, hR, h => by
    rw [lookupAug] at h ⊢
    split at h
    · cases h
    · rename_i hk
      have hk : V.kind c = -1 := by simpa using hk
      obtain ⟨hk', hb, hrefs⟩ := hstep c d hR hk
      have hnk : ¬ (W.kind d ≠ -1) := by simp [hk']
      rw [if_neg hnk, ← hb]
      split at h
      · cases h
      · rename_i l s rest0 hd
        split at h
        · cases h
        · rename_i hc
          rw [if_neg hc]
          split at h
          · rename_i hz
            rw [if_pos hz]
            cases h
            exact ⟨W.refs d, rfl, hrefs⟩
          · rename_i hz
            rw [if_neg hz]
            split at h
            · rename_i b key' c0 c1 tl hkd hvr
              rw [hvr] at hrefs
              obtain ⟨d0, tl0, hw0, r0, hrest⟩ := forall₂_cons_inv hrefs
              obtain ⟨d1, tl1, hw1, r1, _⟩ := forall₂_cons_inv hrest
              subst hw1
              rw [hkd, hw0]
              simp only
              exact lookupAug_sim V W R hstep fuel _ _ _ key' rest rs (by cases b <;> simp [r0, r1]) h
            · cases h

theorem accountsRoot_sim {C D : Type} (V : CellView C) (W : CellView D) (R : C → D → Prop)
    (hstep : ∀ c d, R c d → V.kind c = -1 → W.kind d = -1 ∧ V.bits c = W.bits d ∧ List.Forall₂ R (V.refs c) (W.refs d))
    (st : C) (sd : D) (root : C) (hR : R st sd) (h : accountsRoot V st = some root) :
    ∃ root', accountsRoot W sd = some root' ∧ R root root' := by
  unfold accountsRoot at h ⊢
  split at h
  · cases h
  · rename_i hk
    have hk : V.kind st = -1 := by simpa using hk
    obtain ⟨hk', hb, hrefs⟩ := hstep st sd hR hk
    have hnk : ¬ (W.kind sd ≠ -1) := by simp [hk']
    rw [if_neg hnk, ← hb]
    split at h
    · cases h
    · rename_i hlen
      rw [if_neg hlen]
      split at h
      · cases h
      · rename_i htag
        rw [if_neg htag]
        split at h
        · cases h
        · rename_i accs haccs
          obtain ⟨accs', haccs', hRa⟩ := forall₂_get hrefs 1 accs haccs
          simp only [haccs']
          split at h
          · cases h
          · rename_i hak
            have hak : V.kind accs = -1 := by simpa using hak
            obtain ⟨hak', hab, harefs⟩ := hstep accs accs' hRa hak
            have hnak : ¬ (W.kind accs' ≠ -1) := by simp [hak']
            rw [if_neg hnak, ← hab]
            split at h
            · rename_i bt r0 tl hbits hvr
              cases h
              rw [hvr] at harefs
              obtain ⟨d0, tl0, hw0, r0', _⟩ := forall₂_cons_inv harefs
              exact ⟨d0, by rw [hbits, hw0], r0'⟩
            · cases h

/-- `lookupShardAccount` commutes with such a relation: the account cells found are related -/
theorem lookupShardAccount_sim {C D : Type} (V : CellView C) (W : CellView D) (R : C → D → Prop)
    (hstep : ∀ c d, R c d → V.kind c = -1 → W.kind d = -1 ∧ V.bits c = W.bits d ∧ List.Forall₂ R (V.refs c) (W.refs d))
    (st : C) (sd : D) (key : Bits) (acc : C) (hR : R st sd) (h : lookupShardAccount V st key = some acc) :
    ∃ acc', lookupShardAccount W sd key = some acc' ∧ R acc acc' := by
  unfold lookupShardAccount at h ⊢
  split at h
  · cases h
  · rename_i root hroot
    obtain ⟨root', hroot', hRr⟩ := accountsRoot_sim V W R hstep st sd root hR hroot
    simp only [hroot']
    split at h
    · cases h
    · rename_i rest refs hl
      obtain ⟨refs', hl', hrefs⟩ := lookupAug_sim V W R hstep 257 root root' 256 key rest refs hRr hl
      simp only [hl']
      split at h
      · cases h
      · rename_i r k hs
        split at h
        · cases h
        · rename_i h320
          rw [if_neg h320]
          exact forall₂_get hrefs k acc h

/-! ### instance 1: a constructed object and its tree -/

/-- `c` is the object of the spec-valid tree `d` -/
def ObjOf (H : Bytes → Bytes) (c : PCell) (d : Cell) : Prop := PCell.ofCell H d = some c ∧ TreeWF H d

theorem objOf_refs (H : Bytes → Bytes) : ∀ (ds : List Cell) (cs : List PCell), PCell.ofCells H ds = some cs → TreesWF H ds →
    List.Forall₂ (ObjOf H) cs ds
  | [], cs, h, _ => by simp [PCell.ofCells] at h; subst h; exact .nil
  | d :: ds, cs, h, wf => by
    rw [TreesWF] at wf
    simp only [PCell.ofCells, Option.bind_eq_bind, Option.bind_eq_some_iff, Option.pure_def, Option.some.injEq] at h
    obtain ⟨c, hc, cs', hcs, rfl⟩ := h
    exact .cons ⟨hc, wf.1⟩ (objOf_refs H ds cs' hcs wf.2)

theorem objOf_step (H : Bytes → Bytes) (c : PCell) (d : Cell) (h : ObjOf H c d) (hk : pcellView.kind c = -1) :
    cellView.kind d = -1 ∧ pcellView.bits c = cellView.bits d ∧ List.Forall₂ (ObjOf H) (pcellView.refs c) (cellView.refs d) := by
  cases d with
  | mk kind bits refs =>
    obtain ⟨ho, wf⟩ := h
    rw [TreeWF] at wf
    simp only [PCell.ofCell, Option.bind_eq_bind, Option.bind_eq_some_iff, Option.pure_def, Option.some.injEq] at ho
    obtain ⟨rs, hrs, i, hi, rfl⟩ := ho
    obtain ⟨e1, e2, _⟩ := construct_fields H kind bits _ i hi
    simp only [pcellView, cellView, PCell.info, PCell.refs] at hk ⊢
    exact ⟨by rw [← e1]; exact hk, e2, objOf_refs H refs rs hrs wf.1⟩

/-! ### instance 2: the body of an accepted proof and a tree with the proved hash -/

mutual
  /-- pruned branches occur only below exotic (Merkle proof / update) cells: wherever an ordinary cell leads to, there
  is no pruned branch.  A genuine shard state is such a tree. -/
  def OrdUnpruned : Cell → Prop
    | .mk kind _ refs => kind ≠ 1 ∧ (kind = -1 → OrdUnprunedL refs)
  def OrdUnprunedL : List Cell → Prop
    | [] => True
    | c :: cs => OrdUnpruned c ∧ OrdUnprunedL cs
end

/-- the two trees agree at level 0 and the right one has no pruned branch below ordinary cells -/
def AgreeU (H : Bytes → Bytes) (p t : Cell) : Prop := Agree H 0 p t ∧ OrdUnpruned t

theorem agreeU_refs (H : Bytes → Bytes) : ∀ (ps ts : List Cell), Binding.Agrees H 0 ps ts → OrdUnprunedL ts →
    List.Forall₂ (AgreeU H) ps ts
  | [], ts, h, _ => by rw [Binding.Agrees] at h; subst h; exact .nil
  | p :: ps, ts, h, hu => by
    rw [Binding.Agrees] at h
    obtain ⟨t, ts', rfl, h1, h2⟩ := h
    rw [OrdUnprunedL] at hu
    exact .cons ⟨h1, hu.1⟩ (agreeU_refs H ps ts' h2 hu.2)

theorem agreeU_step (H : Bytes → Bytes) (p t : Cell) (h : AgreeU H p t) (hk : cellView.kind p = -1) :
    cellView.kind t = -1 ∧ cellView.bits p = cellView.bits t ∧ List.Forall₂ (AgreeU H) (cellView.refs p) (cellView.refs t) := by
  cases p with
  | mk kp bp rp =>
    cases t with
    | mk kt bt rt =>
      obtain ⟨ha, hu⟩ := h
      simp only [cellView] at hk ⊢
      rw [Agree] at ha
      rw [OrdUnpruned] at hu
      obtain ⟨⟨sp, st, hsp, hst, hh⟩, hc⟩ := ha
      rcases hc with h1 | h1 | ⟨ek, eb, en, hkids⟩
      · exact absurd h1.1 (by rw [hk]; decide)
      · exact absurd h1.1 hu.1
      · have hka := hkids sp hsp 0 (Nat.le_refl _) (sigB_zero _)
        have hmu : muOf kp = 0 := by rw [hk]; decide
        rw [Nat.zero_add, hmu] at hka
        have hkt : kt = -1 := by rw [← ek]; exact hk
        exact ⟨hkt, eb, agreeU_refs H rp rt hka (hu.2 hkt)⟩

/-! ### the object of a one-child tree -/

theorem ofCell_single (H : Bytes → Bytes) (kind : Int) (bits : Bits) (p : Cell) (c : PCell)
    (h : PCell.ofCell H (.mk kind bits [p]) = some c) : ∃ r, c.refs = [r] ∧ PCell.ofCell H p = some r := by
  simp only [PCell.ofCell, PCell.ofCells, Option.bind_eq_bind, Option.bind_eq_some_iff, Option.pure_def,
    Option.some.injEq] at h
  obtain ⟨rs, ⟨r, hr, _, hnil, rfl⟩, i, _, rfl⟩ := h
  cases hnil
  exact ⟨r, rfl, hr⟩

/-- the account cell the walk finds in the body `p` of an accepted state proof corresponds, in EVERY tree `T` that
agrees with `p` at level 0 and has no pruned branch below ordinary cells, to the account cell `T`'s own dictionary
holds under the same key — and the two have the same level-0 hash -/
theorem lookup_transfer (H : Bytes → Bytes) (p T : Cell) (st acc : PCell) (key : Bits)
    (hst : PCell.ofCell H p = some st) (wfp : TreeWF H p) (hag : Agree H 0 p T) (hu : OrdUnpruned T)
    (hlk : lookupShardAccount pcellView st key = some acc) :
    ∃ aT sa, lookupShardAccount cellView T key = some aT ∧ specInfo H aT = some sa ∧
      acc.info.getHash 0 = some (sa.hashAt 0) := by
  obtain ⟨a, hla, hoa, wfa⟩ := lookupShardAccount_sim pcellView cellView (ObjOf H) (objOf_step H) st p key acc ⟨hst, wfp⟩ hlk
  obtain ⟨aT, hlT, haa, _⟩ := lookupShardAccount_sim cellView cellView (AgreeU H) (agreeU_step H) p T key a ⟨hag, hu⟩ hla
  obtain ⟨i, s, hi, hs, hags⟩ := tree_agrees H a wfa
  have hinfo : acc.info = i := by
    have := ofCell_info H a
    rw [hoa, hi] at this
    simpa using this
  cases a with
  | mk ka ba ra =>
    cases aT with
    | mk kt bt rt =>
      rw [Agree] at haa
      obtain ⟨⟨sp', sT', h1, h2, h3⟩, _⟩ := haa
      rw [hs] at h1; cases h1
      exact ⟨_, sT', hlT, h2, by rw [hinfo, (hags.2 0).1, h3]⟩

/-! ### instance 3: a pruned tree and the tree it was pruned from -/
open TonVerif.Proofs.Prune

/-- `p` is `t` with any set of subtrees replaced by pruned branches (Merkle depth 1) -/
def PrunedOf (H : Bytes → Bytes) (p t : Cell) : Prop := PruneRel H 1 t p

theorem prunedOf_refs (H : Bytes → Bytes) : ∀ (ts ps : List Cell), PruneRels H 1 ts ps → List.Forall₂ (PrunedOf H) ps ts
  | [], ps, h => by rw [PruneRels] at h; subst h; exact .nil
  | t :: ts, ps, h => by
    rw [PruneRels] at h
    obtain ⟨p, ps', rfl, h1, h2⟩ := h
    exact .cons h1 (prunedOf_refs H ts ps' h2)

theorem prunedOf_step (H : Bytes → Bytes) (p t : Cell) (h : PrunedOf H p t) (hk : cellView.kind p = -1) :
    cellView.kind t = -1 ∧ cellView.bits p = cellView.bits t ∧ List.Forall₂ (PrunedOf H) (cellView.refs p) (cellView.refs t) := by
  cases t with
  | mk kind bits refs =>
    unfold PrunedOf at h
    rw [PruneRel] at h
    rcases h with ⟨s, _, _, rfl⟩ | ⟨k, refs', hkind, rfl, hrels⟩
    · simp [cellView, prunedCell] at hk
    · simp only [cellView] at hk ⊢
      subst hk
      have : k = .ordinary := by simpa [kindOf] using hkind.symm
      subst this
      exact ⟨rfl, trivial, prunedOf_refs H refs refs' hrels⟩

/-- the account cell the walk finds in a PRUNED state is the pruning of the account cell of the full state: it has the
same level-0 hash, whether it is there in full or as a pruned branch -/
theorem lookup_pruned (H : Bytes → Bytes) (ts ps : Cell) (st acc : PCell) (key : Bits) (aT : Cell) (sa : Spec.SInfo)
    (hst : PCell.ofCell H ps = some st) (wfp : TreeWF H ps) (hrel : PruneRel H 1 ts ps)
    (hlk : lookupShardAccount pcellView st key = some acc)
    (hfull : lookupShardAccount cellView ts key = some aT) (hsa : specInfo H aT = some sa) :
    acc.info.getHash 0 = some (sa.hashAt 0) := by
  obtain ⟨a, hla, hoa, wfa⟩ := lookupShardAccount_sim pcellView cellView (ObjOf H) (objOf_step H) st ps key acc ⟨hst, wfp⟩ hlk
  obtain ⟨aT', hlT, hpr⟩ := lookupShardAccount_sim cellView cellView (PrunedOf H) (prunedOf_step H) ps ts key a hrel hla
  rw [hfull] at hlT
  cases hlT
  obtain ⟨sa', hsa', hinv⟩ := prune_invariant H 1 aT a sa hpr hsa
  obtain ⟨i, s, hi, hs, hags⟩ := tree_agrees H a wfa
  rw [hsa'] at hs; cases hs
  have hinfo : acc.info = i := by
    have := ofCell_info H a
    rw [hoa, hi] at this
    simpa using this
  rw [hinfo, (hags.2 0).1, (hinv 0 (by omega)).1]

/-! ### the header: what the block hash binds of `root[2]` -/

theorem ofCells_get (H : Bytes → Bytes) : ∀ (cs : List Cell) (ps : List PCell), PCell.ofCells H cs = some ps →
    ∀ (i : Nat) (p : PCell), ps[i]? = some p → ∃ c, cs[i]? = some c ∧ PCell.ofCell H c = some p
  | [], ps, h, i, p, hp => by simp [PCell.ofCells] at h; subst h; simp at hp
  | c :: cs, ps, h, i, p, hp => by
    simp only [PCell.ofCells, Option.bind_eq_bind, Option.bind_eq_some_iff, Option.pure_def, Option.some.injEq] at h
    obtain ⟨q, hq, qs, hqs, rfl⟩ := h
    cases i with
    | zero => simp at hp; subst hp; exact ⟨c, by simp, hq⟩
    | succ i => simp at hp; simpa using ofCells_get H cs qs hqs i p hp

theorem ordUnprunedL_get : ∀ (cs : List Cell), OrdUnprunedL cs → ∀ (i : Nat) (c : Cell), cs[i]? = some c → OrdUnpruned c
  | [], _, i, c, h => by simp at h
  | d :: ds, hu, i, c, h => by
    rw [OrdUnprunedL] at hu
    cases i with
    | zero => simp at h; subst h; exact hu.1
    | succ i => simp at h; exact ordUnprunedL_get ds hu.2 i c h

theorem agrees_length (H : Bytes → Bytes) : ∀ (ps ts : List Cell) (l : Nat), Binding.Agrees H l ps ts → ps.length = ts.length
  | [], ts, l, h => by rw [Binding.Agrees] at h; subst h; rfl
  | p :: ps, ts, l, h => by
    rw [Binding.Agrees] at h
    obtain ⟨t, ts', rfl, _, h2⟩ := h
    simp [agrees_length H ps ts' l h2]

/-- If the body `pb` of an accepted header proof shows a Merkle update cell at `root[2]`, then every tree `TB` that agrees
with `pb` at level 0 and has no pruned branch below ordinary cells has at ITS `root[2]` a Merkle update cell with the same
data bits (so the same stored new-state hash). -/
theorem header_transfer (H : Bytes → Bytes) (pb TB : Cell) (hdr su : PCell) (hobj : PCell.ofCell H pb = some hdr)
    (hag : Agree H 0 pb TB) (hu : OrdUnpruned TB) (shp : Shape pb) (h2 : hdr.refs[2]? = some su)
    (hk : su.info.kind = 4) :
    ∃ suT, (cellView.refs TB)[2]? = some suT ∧ cellView.kind suT = 4 ∧ cellView.bits suT = su.info.bits := by
  cases pb with
  | mk kp bp rp =>
    cases TB with
    | mk kt bt rt =>
      simp only [PCell.ofCell, Option.bind_eq_bind, Option.bind_eq_some_iff, Option.pure_def, Option.some.injEq] at hobj
      obtain ⟨rs, hrs, i, hi, rfl⟩ := hobj
      simp only [PCell.refs] at h2
      obtain ⟨sup, hsup, hosup⟩ := ofCells_get H rp rs hrs 2 su h2
      have hlen : 3 ≤ rp.length := by
        have := (List.getElem?_eq_some_iff.1 hsup).1
        omega
      rw [Shape] at shp
      have hkp : kp = -1 := by
        rcases shp.2.1 with h | ⟨_, h, _⟩ | ⟨_, h⟩ | ⟨_, h⟩ | ⟨_, h⟩
        · exact h
        · rw [h] at hlen; simp at hlen
        · rw [h] at hlen; simp at hlen
        · omega
        · omega
      rw [Agree] at hag
      rw [OrdUnpruned] at hu
      obtain ⟨⟨sp, st, hsp, hst, hh⟩, hc⟩ := hag
      rcases hc with h1 | h1 | ⟨ek, eb, en, hkids⟩
      · exact absurd h1.1 (by rw [hkp]; decide)
      · exact absurd h1.1 hu.1
      · have hka := hkids sp hsp 0 (Nat.le_refl _) (sigB_zero _)
        have hmu : muOf kp = 0 := by rw [hkp]; decide
        rw [Nat.zero_add, hmu] at hka
        have hkt : kt = -1 := by rw [← ek]; exact hkp
        have hut := hu.2 hkt
        have hlt : 2 < rt.length := by rw [← en]; omega
        obtain ⟨suT, hsuT⟩ : ∃ suT, rt[2]? = some suT := ⟨rt[2], List.getElem?_eq_getElem hlt⟩
        have hagu := Agrees_get H rp rt 0 hka 2 sup suT hsup hsuT
        have huu := ordUnprunedL_get rt hut 2 suT hsuT
        refine ⟨suT, hsuT, ?_⟩
        cases sup with
        | mk ks bs rsu =>
          cases suT with
          | mk kT bT rT =>
            simp only [PCell.ofCell, Option.bind_eq_bind, Option.bind_eq_some_iff, Option.pure_def, Option.some.injEq] at hosup
            obtain ⟨rs', _, i', hi', rfl⟩ := hosup
            obtain ⟨e1, e2, _⟩ := construct_fields H ks bs _ i' hi'
            simp only [PCell.info] at hk
            have hks : ks = 4 := by rw [← e1]; exact hk
            rw [Agree] at hagu
            rw [OrdUnpruned] at huu
            rcases hagu.2 with h1 | h1 | ⟨ek', eb', _, _⟩
            · exact absurd h1.1 (by rw [hks]; decide)
            · exact absurd h1.1 huu.1
            · simp only [cellView, PCell.info]
              exact ⟨by rw [← ek', hks], by rw [← eb', e2]⟩

/-- completeness of the state-hash read-out: a spec-valid (possibly pruned) block tree whose third reference is a Merkle
update cell `.mk 4 ub [o, n]` storing in its data bytes 33..64 the level-0 hash of its second child, and whose object
reports `blk` as level-0 hash, passes `check_block_header_proof(·, blk, True)`, which returns that hash -/
theorem header_complete (H : Bytes → Bytes) (k : Int) (b ub : Bits) (x0 x1 o n : Cell) (rest : List Cell) (r0 : PCell)
    (blk : Bytes) (sn : Spec.SInfo)
    (wf : TreeWF H (.mk k b (x0 :: x1 :: .mk 4 ub [o, n] :: rest)))
    (hobj : PCell.ofCell H (.mk k b (x0 :: x1 :: .mk 4 ub [o, n] :: rest)) = some r0)
    (hblk : r0.info.getHash 0 = some blk) (hsn : specInfo H n = some sn)
    (hdata : pySlice (dataBytes ub) 33 65 = sn.hashAt 0) :
    checkBlockHeaderProofState r0 blk = some (sn.hashAt 0) := by
  simp only [PCell.ofCell, PCell.ofCells, Option.bind_eq_bind, Option.bind_eq_some_iff, Option.pure_def,
    Option.some.injEq] at hobj
  obtain ⟨rs, ⟨p0, _, rs1, ⟨p1, _, rs2, ⟨psu, ⟨rsu, ⟨po, _, rsn, ⟨pn, hpn, rs3, hnil, rfl⟩, rfl⟩, iu, hiu, rfl⟩, prest, _, rfl⟩,
    rfl⟩, rfl⟩, i, _, rfl⟩ := hobj
  cases hnil
  obtain ⟨e1, e2, _⟩ := construct_fields H 4 ub _ iu hiu
  have wfn : TreeWF H n := by
    rw [TreeWF] at wf
    have w1 := wf.1
    rw [TreesWF, TreesWF, TreesWF] at w1
    have w2 := w1.2.2.1
    rw [TreeWF] at w2
    have w3 := w2.1
    rw [TreesWF, TreesWF] at w3
    exact w3.2.1
  obtain ⟨inn, s, hi, hs, hags⟩ := tree_agrees H n wfn
  rw [hsn] at hs; cases hs
  have hinfo : pn.info = inn := by
    have := ofCell_info H n
    rw [hpn, hi] at this
    simpa using this
  have hh : pn.info.getHash 0 = some (sn.hashAt 0) := by rw [hinfo, (hags.2 0).1]
  have hb : checkBlockHeaderProof (.mk i (p0 :: p1 :: PCell.mk iu [po, pn] :: prest)) blk = true := by
    simpa [checkBlockHeaderProof, PCell.info] using hblk
  unfold checkBlockHeaderProofState
  rw [if_pos hb]
  simp only [PCell.refs, List.getElem?_cons_succ, List.getElem?_cons_zero, Option.bind_eq_bind, Option.bind_some, hh]
  have hd : pySlice (PCell.mk iu [po, pn]).data 33 65 = sn.hashAt 0 := by
    simp only [PCell.data, PCell.info, e2]; exact hdata
  have hk : (PCell.mk iu [po, pn]).info.kind = kMerkleUpdate := by simp only [PCell.info, e1]; rfl
  simp [hd, hk]

/-! ### building the hypotheses for trees of ordinary cells (used by the non-vacuity examples) -/

theorem shape_ord (bits : Bits) (refs : List Cell) (h : refs.length ≤ 4) (hs : Shapes refs) : Shape (.mk (-1) bits refs) := by
  rw [Shape]; exact ⟨h, Or.inl rfl, hs⟩
theorem shapes_nil : Shapes [] := by rw [Shapes]; trivial
theorem shapes_cons (c : Cell) (cs : List Cell) (h1 : Shape c) (h2 : Shapes cs) : Shapes (c :: cs) := by
  rw [Shapes]; exact ⟨h1, h2⟩

theorem ordUnpruned_ord (bits : Bits) (refs : List Cell) (h : OrdUnprunedL refs) : OrdUnpruned (.mk (-1) bits refs) := by
  rw [OrdUnpruned]; exact ⟨by decide, fun _ => h⟩
theorem ordUnprunedL_nil : OrdUnprunedL [] := by rw [OrdUnprunedL]; trivial
theorem ordUnprunedL_cons (c : Cell) (cs : List Cell) (h1 : OrdUnpruned c) (h2 : OrdUnprunedL cs) : OrdUnprunedL (c :: cs) := by
  rw [OrdUnprunedL]; exact ⟨h1, h2⟩

theorem specInfo_ord_some (H : Bytes → Bytes) (bits : Bits) (refs : List Cell) (h : ∃ ss, specInfos H refs = some ss) :
    ∃ s, specInfo H (.mk (-1) bits refs) = some s := by
  obtain ⟨ss, h⟩ := h
  exact ⟨Spec.node H .ordinary bits ss, by simp [specInfo, kindOf, h]⟩
theorem specInfos_nil_some (H : Bytes → Bytes) : ∃ ss, specInfos H [] = some ss := ⟨[], by simp [specInfos]⟩
theorem specInfos_cons_some (H : Bytes → Bytes) (c : Cell) (cs : List Cell) (h1 : ∃ s, specInfo H c = some s)
    (h2 : ∃ ss, specInfos H cs = some ss) : ∃ ss, specInfos H (c :: cs) = some ss := by
  obtain ⟨s, h1⟩ := h1
  obtain ⟨ss, h2⟩ := h2
  exact ⟨s :: ss, by simp [specInfos, h1, h2]⟩

theorem pruneRel_ord_refl (H : Bytes → Bytes) (d : Nat) (bits : Bits) (refs : List Cell) (h : PruneRels H d refs refs) :
    PruneRel H d (.mk (-1) bits refs) (.mk (-1) bits refs) := by
  rw [PruneRel]; exact Or.inr ⟨.ordinary, refs, by decide, rfl, by simpa [Spec.Kind.mu] using h⟩
theorem pruneRels_nil (H : Bytes → Bytes) (d : Nat) : PruneRels H d [] [] := by rw [PruneRels]
theorem pruneRels_cons (H : Bytes → Bytes) (d : Nat) (c : Cell) (cs : List Cell) (h1 : PruneRel H d c c) (h2 : PruneRels H d cs cs) :
    PruneRels H d (c :: cs) (c :: cs) := by
  rw [PruneRels]; exact ⟨c, cs, rfl, h1, h2⟩

end TonVerif.Proofs.Locate
