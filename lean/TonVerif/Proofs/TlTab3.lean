/- Kernel evaluation over the generated TL table, chunk slots 24..31 (of 32; absent chunks are empty):
   every constructor id is the id of its declaration text (CRC-32 / explicit), ids below 2^32, flag variables well placed,
   constructors sharing an id agree in name and arguments. -/
import TonVerif.Proofs.Tl
import TonVerif.Generated.TlTable

namespace TonVerif.Proofs.TlTab3
open TonVerif TonVerif.Spec.Tl TonVerif.Proofs.Tl TonVerif.Generated.Tl

theorem ids_24 : idsOK (chunks.getD 24 []) = true := by decide +kernel
theorem ok_24 : chunkAgree table (chunks.getD 24 []) = true := by decide +kernel
theorem ids_25 : idsOK (chunks.getD 25 []) = true := by decide +kernel
theorem ok_25 : chunkAgree table (chunks.getD 25 []) = true := by decide +kernel
theorem ids_26 : idsOK (chunks.getD 26 []) = true := by decide +kernel
theorem ok_26 : chunkAgree table (chunks.getD 26 []) = true := by decide +kernel
theorem ids_27 : idsOK (chunks.getD 27 []) = true := by decide +kernel
theorem ok_27 : chunkAgree table (chunks.getD 27 []) = true := by decide +kernel
theorem ids_28 : idsOK (chunks.getD 28 []) = true := by decide +kernel
theorem ok_28 : chunkAgree table (chunks.getD 28 []) = true := by decide +kernel
theorem ids_29 : idsOK (chunks.getD 29 []) = true := by decide +kernel
theorem ok_29 : chunkAgree table (chunks.getD 29 []) = true := by decide +kernel
theorem ids_30 : idsOK (chunks.getD 30 []) = true := by decide +kernel
theorem ok_30 : chunkAgree table (chunks.getD 30 []) = true := by decide +kernel
theorem ids_31 : idsOK (chunks.getD 31 []) = true := by decide +kernel
theorem ok_31 : chunkAgree table (chunks.getD 31 []) = true := by decide +kernel

theorem ids (k : Nat) (h1 : 24 ≤ k) (h2 : k < 32) : idsOK (chunks.getD k []) = true :=
  match k, h1, h2 with
  | 24, _, _ => ids_24
  | 25, _, _ => ids_25
  | 26, _, _ => ids_26
  | 27, _, _ => ids_27
  | 28, _, _ => ids_28
  | 29, _, _ => ids_29
  | 30, _, _ => ids_30
  | 31, _, _ => ids_31
  | n + 32, _, h => absurd h (by omega)

theorem ok (k : Nat) (h1 : 24 ≤ k) (h2 : k < 32) : chunkAgree table (chunks.getD k []) = true :=
  match k, h1, h2 with
  | 24, _, _ => ok_24
  | 25, _, _ => ok_25
  | 26, _, _ => ok_26
  | 27, _, _ => ok_27
  | 28, _, _ => ok_28
  | 29, _, _ => ok_29
  | 30, _, _ => ok_30
  | 31, _, _ => ok_31
  | n + 32, _, h => absurd h (by omega)

end TonVerif.Proofs.TlTab3
