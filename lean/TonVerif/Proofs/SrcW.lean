/-
Generation-independent lemmas about the iteration-counting writer `Py.W` (lean/TonVerif/PyW.lean): how the VALUE (`.1`) and the TICKS
(`.2 j`) of `ret` / `raise` / `>>==` / `if` / `loopW?` are computed.  Nothing here mentions a `Generated.*` definition.

* `*_fst`         value of a combinator = the `Option` combinator on the values (so `simp only [erase]` turns the value of an
                  instrumented copy into the text of the regenerated function);
* `loopW_fst`     the value of `loopW? k` is `Py.loop?` on the values of the body;
* `loopW_other`   a loop ticks no counter but its own and those its body ticks;
* `loopW_le`      counter `k` of `loopW? k xs` is at most `len(xs)` when the body does not tick `k`;
* `loopW_full`    … and exactly `len(xs)` when the loop returns and the body never breaks.
-/
import TonVerif.PyW
import TonVerif.Proofs.SrcLoops

namespace TonVerif.Proofs.SrcW
open TonVerif TonVerif.Py

variable {α β ι σ : Type}

@[simp] theorem ret_fst (a : α) : (W.ret a).1 = some a := rfl
@[simp] theorem ret_snd (a : α) (j : Nat) : (W.ret a).2 j = 0 := rfl
@[simp] theorem raise_fst : (W.raise : W α).1 = none := rfl
@[simp] theorem raise_snd (j : Nat) : (W.raise : W α).2 j = 0 := rfl
@[simp] theorem lift_fst (o : Option α) : (W.lift o).1 = o := rfl
@[simp] theorem lift_snd (o : Option α) (j : Nat) : (W.lift o).2 j = 0 := rfl

theorem bind_fst (x : W α) (f : α → W β) : (W.bind x f).1 = x.1.bind fun a => (f a).1 := by
  unfold W.bind; cases x.1 <;> rfl

theorem bind_snd (x : W α) (f : α → W β) (j : Nat) :
    (W.bind x f).2 j = x.2 j + (match x.1 with | none => 0 | some a => (f a).2 j) := by
  unfold W.bind; cases x.1 <;> rfl

@[simp] theorem match_zero (m : Option α) : (match m with | none => 0 | some _ => (0 : Nat)) = 0 := by cases m <;> rfl

theorem bnd_opt_fst (o : Option α) (f : α → W β) : (o >>== f).1 = o.bind fun a => (f a).1 := by
  show (W.bind (W.lift o) f).1 = _
  rw [bind_fst]; rfl

theorem bnd_w_fst (x : W α) (f : α → W β) : (x >>== f).1 = x.1.bind fun a => (f a).1 := bind_fst x f

theorem bnd_opt_snd (o : Option α) (f : α → W β) (j : Nat) :
    (o >>== f).2 j = (match o with | none => 0 | some a => (f a).2 j) := by
  show (W.bind (W.lift o) f).2 j = _
  rw [bind_snd]; simp

theorem bnd_w_snd (x : W α) (f : α → W β) (j : Nat) :
    (x >>== f).2 j = x.2 j + (match x.1 with | none => 0 | some a => (f a).2 j) := bind_snd x f j

theorem bnd_some (a : α) (f : α → W β) : (some a >>== f) = ((f a).1, fun j => 0 + (f a).2 j) := rfl
theorem bnd_none (f : α → W β) : ((none : Option α) >>== f) = (none, fun _ => 0) := rfl

theorem ite_fst (c : Prop) [Decidable c] (a b : W α) : (if c then a else b).1 = if c then a.1 else b.1 := by
  split <;> rfl

theorem ite_snd (c : Prop) [Decidable c] (a b : W α) (j : Nat) : (if c then a else b).2 j = if c then a.2 j else b.2 j := by
  split <;> rfl

theorem loopW_nil (k : Nat) (s : σ) (f : ι → σ → W (σ × Bool)) : loopW? k [] s f = W.ret s := rfl

theorem loopW_cons (k : Nat) (x : ι) (xs : List ι) (s : σ) (f : ι → σ → W (σ × Bool)) :
    loopW? k (x :: xs) s f =
      W.bind (W.tick k) fun _ => W.bind (f x s) fun r => if r.2 then W.ret r.1 else loopW? k xs r.1 f := rfl

/-- the value of a counting loop is the plain loop on the values of its body. -/
theorem loopW_fst (k : Nat) (f : ι → σ → W (σ × Bool)) :
    ∀ (xs : List ι) (s : σ), (loopW? k xs s f).1 = Py.loop? xs s (fun x s => (f x s).1) := by
  intro xs
  induction xs with
  | nil => intro s; rfl
  | cons x xs ih =>
    intro s
    rw [loopW_cons, bind_fst, SrcLoops.loop?_cons]
    show (W.bind (f x s) _).1 = _
    rw [bind_fst]
    cases (f x s).1 with
    | none => rfl
    | some r =>
      simp only [Option.bind_some, ite_fst, ret_fst, ih]

theorem loopW_cons_fst (k : Nat) (x : ι) (xs : List ι) (s : σ) (f : ι → σ → W (σ × Bool)) :
    (loopW? k (x :: xs) s f).1 = (f x s).1.bind fun r => if r.2 then some r.1 else (loopW? k xs r.1 f).1 := by
  rw [loopW_cons, bind_fst]
  show (W.bind (f x s) _).1 = _
  rw [bind_fst]
  cases (f x s).1 with
  | none => rfl
  | some r => simp only [Option.bind_some, ite_fst, ret_fst]

/-- ticks of one iteration -/
theorem loopW_cons_snd (k : Nat) (x : ι) (xs : List ι) (s : σ) (f : ι → σ → W (σ × Bool)) (j : Nat) :
    (loopW? k (x :: xs) s f).2 j = (if j = k then 1 else 0) + ((f x s).2 j +
      (match (f x s).1 with | none => 0 | some r => if r.2 then 0 else (loopW? k xs r.1 f).2 j)) := by
  rw [loopW_cons, bind_snd]
  show _ + (W.bind (f x s) _).2 j = _
  rw [bind_snd]
  congr 2
  cases (f x s).1 with
  | none => rfl
  | some r => simp only [ite_snd, ret_snd]

/-- iterations the plain loop starts (one that raises or breaks is counted) -/
def iters : List ι → σ → (ι → σ → Option (σ × Bool)) → Nat
  | [], _, _ => 0
  | x :: xs, s, f => match f x s with
    | none => 1
    | some r => if r.2 then 1 else 1 + iters xs r.1 f

theorem iters_le (f : ι → σ → Option (σ × Bool)) : ∀ (xs : List ι) (s : σ), iters xs s f ≤ xs.length := by
  intro xs
  induction xs with
  | nil => intro s; simp [iters]
  | cons x xs ih =>
    intro s
    simp only [iters, List.length_cons]
    cases f x s with
    | none => simp
    | some r =>
      simp only
      split
      · omega
      · have := ih r.1; omega

/-- a body that does not tick `k`: counter `k` of the loop = iterations the plain loop starts. -/
theorem loopW_own (k : Nat) (f : ι → σ → W (σ × Bool)) (hf : ∀ x s, (f x s).2 k = 0) :
    ∀ (xs : List ι) (s : σ), (loopW? k xs s f).2 k = iters xs s (fun x s => (f x s).1) := by
  intro xs
  induction xs with
  | nil => intro s; rfl
  | cons x xs ih =>
    intro s
    rw [loopW_cons_snd, hf]
    simp only [if_true, iters]
    cases (f x s).1 with
    | none => rfl
    | some r =>
      simp only
      split
      · rfl
      · rw [ih]; omega

theorem loopW_le (k : Nat) (f : ι → σ → W (σ × Bool)) (hf : ∀ x s, (f x s).2 k = 0) (xs : List ι) (s : σ) :
    (loopW? k xs s f).2 k ≤ xs.length := by
  rw [loopW_own k f hf]; exact iters_le _ xs s

/-- a loop that returns and whose body never breaks ran once per element. -/
theorem iters_full (f : ι → σ → Option (σ × Bool)) (hnb : ∀ x s r, f x s = some r → r.2 = false) :
    ∀ (xs : List ι) (s : σ), (Py.loop? xs s f).isSome → iters xs s f = xs.length := by
  intro xs
  induction xs with
  | nil => intro s _; rfl
  | cons x xs ih =>
    intro s h
    rw [SrcLoops.loop?_cons] at h
    simp only [iters, List.length_cons]
    cases hx : f x s with
    | none => simp [hx] at h
    | some r =>
      have := hnb x s r hx
      simp only [hx, Option.bind_some, this, Bool.false_eq_true, if_false] at h ⊢
      rw [ih r.1 h]; omega

/-- counter `j` of a loop whose body does not tick `j`, `j` not its own counter: nothing. -/
theorem loopW_other (k j : Nat) (hj : j ≠ k) (f : ι → σ → W (σ × Bool)) (hf : ∀ x s, (f x s).2 j = 0) :
    ∀ (xs : List ι) (s : σ), (loopW? k xs s f).2 j = 0 := by
  intro xs
  induction xs with
  | nil => intro s; rfl
  | cons x xs ih =>
    intro s
    rw [loopW_cons_snd, hf, if_neg hj]
    cases (f x s).1 with
    | none => rfl
    | some r =>
      simp only
      split
      · rfl
      · rw [ih]

/-- a body that neither raises nor breaks nor ticks: the loop ticks its counter once per element. -/
theorem loopW_fold_snd (k : Nat) (g : ι → σ → σ) (j : Nat) :
    ∀ (xs : List ι) (s : σ), (loopW? k xs s (fun x s => W.ret (g x s, false))).2 j = if j = k then xs.length else 0 := by
  intro xs
  induction xs with
  | nil => intro s; simp [loopW_nil]
  | cons x xs ih =>
    intro s
    rw [loopW_cons_snd]
    simp only [ret_snd, ret_fst, Bool.false_eq_true, if_false, ih, List.length_cons]
    split <;> omega

end TonVerif.Proofs.SrcW
