/-
Generation-independent lemmas about the iteration-counting writer `Py.W` (lean/TonVerif/PyW.lean): how the VALUE (`.1`) and the TICKS
(`.2 j`) of `ret` / `raise` / `>>==` / `if` / `loopW?` are computed.  Nothing here mentions a `Generated.*` definition.

* `*_fst`         value of a combinator = the `Option` combinator on the values (so `simp only [erase]` turns the value of an
                  instrumented copy into the text of the regenerated function);
* `loopW_fst`     the value of `loopW? k` is `Py.loop?` on the values of the body;
* `loopW_other`   a loop ticks no counter but its own and those its body ticks;
* `loopW_le`      counter `k` of `loopW? k xs` is at most `len(xs)` when the body does not tick `k`;
* `loopW_full`    … and exactly `len(xs)` when the loop returns and the body never breaks.
-/
import TonVerif.PyW
import TonVerif.Proofs.SrcLoops

namespace TonVerif.Proofs.SrcW
open TonVerif TonVerif.Py

variable {α β ι σ : Type}

@[simp] theorem ret_fst (a : α) : (W.ret a).1 = some a := rfl
@[simp] theorem ret_snd (a : α) (j : Nat) : (W.ret a).2 j = 0 := rfl
@[simp] theorem raise_fst : (W.raise : W α).1 = none := rfl
@[simp] theorem raise_snd (j : Nat) : (W.raise : W α).2 j = 0 := rfl
@[simp] theorem lift_fst (o : Option α) : (W.lift o).1 = o := rfl
@[simp] theorem lift_snd (o : Option α) (j : Nat) : (W.lift o).2 j = 0 := rfl

theorem bind_fst (x : W α) (f : α → W β) : (W.bind x f).1 = x.1.bind fun a => (f a).1 := by
  unfold W.bind; cases x.1 <;> rfl

theorem bind_snd (x : W α) (f : α → W β) (j : Nat) :
    (W.bind x f).2 j = x.2 j + (match x.1 with | none => 0 | some a => (f a).2 j) := by
  unfold W.bind; cases x.1 <;> rfl

@[simp] theorem match_zero (m : Option α) : (match m with | none => 0 | some _ => (0 : Nat)) = 0 := by cases m <;> rfl

theorem bnd_opt_fst (o : Option α) (f : α → W β) : (o >>== f).1 = o.bind fun a => (f a).1 := by
  show (W.bind (W.lift o) f).1 = _
  rw [bind_fst]; rfl

theorem bnd_w_fst (x : W α) (f : α → W β) : (x >>== f).1 = x.1.bind fun a => (f a).1 := bind_fst x f

theorem bnd_opt_snd (o : Option α) (f : α → W β) (j : Nat) :
    (o >>== f).2 j = (match o with | none => 0 | some a => (f a).2 j) := by
  show (W.bind (W.lift o) f).2 j = _
  rw [bind_snd]; simp

theorem bnd_w_snd (x : W α) (f : α → W β) (j : Nat) :
    (x >>== f).2 j = x.2 j + (match x.1 with | none => 0 | some a => (f a).2 j) := bind_snd x f j

theorem bnd_some (a : α) (f : α → W β) : (some a >>== f) = ((f a).1, fun j => 0 + (f a).2 j) := rfl
theorem bnd_none (f : α → W β) : ((none : Option α) >>== f) = (none, fun _ => 0) := rfl

theorem ite_fst (c : Prop) [Decidable c] (a b : W α) : (if c then a else b).1 = if c then a.1 else b.1 := by
  split <;> rfl

theorem ite_snd (c : Prop) [Decidable c] (a b : W α) (j : Nat) : (if c then a else b).2 j = if c then a.2 j else b.2 j := by
  split <;> rfl

theorem loopW_nil (k : Nat) (s : σ) (f : ι → σ → W (σ × Bool)) : loopW? k [] s f = W.ret s := rfl

theorem loopW_cons (k : Nat) (x : ι) (xs : List ι) (s : σ) (f : ι → σ → W (σ × Bool)) :
    loopW? k (x :: xs) s f =
      W.bind (W.tick k) fun _ => W.bind (f x s) fun r => if r.2 then W.ret r.1 else loopW? k xs r.1 f := rfl

/-- the value of a counting loop is the plain loop on the values of its body. -/
theorem loopW_fst (k : Nat) (f : ι → σ → W (σ × Bool)) :
    ∀ (xs : List ι) (s : σ), (loopW? k xs s f).1 = Py.loop? xs s (fun x s => (f x s).1) := by
  intro xs
  induction xs with
  | nil => intro s; rfl
  | cons x xs ih =>
    intro s
    rw [loopW_cons, bind_fst, SrcLoops.loop?_cons]
    show (W.bind (f x s) _).1 = _
    rw [bind_fst]
    cases (f x s).1 with
    | none => rfl
    | some r =>
      simp only [Option.bind_some, ite_fst, ret_fst, ih]

theorem loopW_cons_fst (k : Nat) (x : ι) (xs : List ι) (s : σ) (f : ι → σ → W (σ × Bool)) :
    (loopW? k (x :: xs) s f).1 = (f x s).1.bind fun r => if r.2 then some r.1 else (loopW? k xs r.1 f).1 := by
  rw [loopW_cons, bind_fst]
  show (W.bind (f x s) _).1 = _
  rw [bind_fst]
  cases (f x s).1 with
  | none => rfl
  | some r => simp only [Option.bind_some, ite_fst, ret_fst]

/-- ticks of one iteration -/
theorem loopW_cons_snd (k : Nat) (x : ι) (xs : List ι) (s : σ) (f : ι → σ → W (σ × Bool)) (j : Nat) :
    (loopW? k (x :: xs) s f).2 j = (if j = k then 1 else 0) + ((f x s).2 j +
      (match (f x s).1 with | none => 0 | some r => if r.2 then 0 else (loopW? k xs r.1 f).2 j)) := by
  rw [loopW_cons, bind_snd]
  show _ + (W.bind (f x s) _).2 j = _
  rw [bind_snd]
  congr 2
  cases (f x s).1 with
  | none => rfl
  | some r => simp only [ite_snd, ret_snd]

/-- iterations the plain loop starts (one that raises or breaks is counted) -/
def iters : List ι → σ → (ι → σ → Option (σ × Bool)) → Nat
  | [], _, _ => 0
  | x :: xs, s, f => match f x s with
    | none => 1
    | some r => if r.2 then 1 else 1 + iters xs r.1 f

theorem iters_le (f : ι → σ → Option (σ × Bool)) : ∀ (xs : List ι) (s : σ), iters xs s f ≤ xs.length := by
  intro xs
  induction xs with
  | nil => intro s; simp [iters]
  | cons x xs ih =>
    intro s
    simp only [iters, List.length_cons]
    cases f x s with
    | none => simp
    | some r =>
      simp only
      split
      · omega
      · have := ih r.1; omega

/-- a body that does not tick `k`: counter `k` of the loop = iterations the plain loop starts. -/
theorem loopW_own (k : Nat) (f : ι → σ → W (σ × Bool)) (hf : ∀ x s, (f x s).2 k = 0) :
    ∀ (xs : List ι) (s : σ), (loopW? k xs s f).2 k = iters xs s (fun x s => (f x s).1) := by
  intro xs
  induction xs with
  | nil => intro s; rfl
  | cons x xs ih =>
    intro s
    rw [loopW_cons_snd, hf]
    simp only [if_true, iters]
    cases (f x s).1 with
    | none => rfl
    | some r =>
      simp only
      split
      · rfl
      · rw [ih]; omega

theorem loopW_le (k : Nat) (f : ι → σ → W (σ × Bool)) (hf : ∀ x s, (f x s).2 k = 0) (xs : List ι) (s : σ) :
    (loopW? k xs s f).2 k ≤ xs.length := by
  rw [loopW_own k f hf]; exact iters_le _ xs s

/-- a loop that returns and whose body never breaks ran once per element. -/
theorem iters_full (f : ι → σ → Option (σ × Bool)) (hnb : ∀ x s r, f x s = some r → r.2 = false) :
    ∀ (xs : List ι) (s : σ), (Py.loop? xs s f).isSome → iters xs s f = xs.length := by
  intro xs
  induction xs with
  | nil => intro s _; rfl
  | cons x xs ih =>
    intro s h
    rw [SrcLoops.loop?_cons] at h
    simp only [iters, List.length_cons]
    cases hx : f x s with
    | none => simp [hx] at h
    | some r =>
      have := hnb x s r hx
      simp only [hx, Option.bind_some, this, Bool.false_eq_true, if_false] at h ⊢
      rw [ih r.1 h]; omega

/-- counter `j` of a loop whose body does not tick `j`, `j` not its own counter: nothing. -/
theorem loopW_other (k j : Nat) (hj : j ≠ k) (f : ι → σ → W (σ × Bool)) (hf : ∀ x s, (f x s).2 j = 0) :
    ∀ (xs : List ι) (s : σ), (loopW? k xs s f).2 j = 0 := by
  intro xs
  induction xs with
  | nil => intro s; rfl
  | cons x xs ih =>
    intro s
    rw [loopW_cons_snd, hf, if_neg hj]
    cases (f x s).1 with
    | none => rfl
    | some r =>
      simp only
      split
      · rfl
      · rw [ih]

/-- a body that neither raises nor breaks nor ticks: the loop ticks its counter once per element. -/
theorem loopW_fold_snd (k : Nat) (g : ι → σ → σ) (j : Nat) :
    ∀ (xs : List ι) (s : σ), (loopW? k xs s (fun x s => W.ret (g x s, false))).2 j = if j = k then xs.length else 0 := by
  intro xs
  induction xs with
  | nil => intro s; simp [loopW_nil]
  | cons x xs ih =>
    intro s
    rw [loopW_cons_snd]
    simp only [ret_snd, ret_fst, Bool.false_eq_true, if_false, ih, List.length_cons]
    split <;> omega

/-! ### `foldW?` (a `for` loop without `break`) -/

theorem foldW_nil (k : Nat) (f : σ → ι → W σ) (s : σ) : foldW? k f s [] = W.ret s := rfl

theorem foldW_cons (k : Nat) (f : σ → ι → W σ) (s : σ) (x : ι) (xs : List ι) :
    foldW? k f s (x :: xs) = W.bind (W.tick k) fun _ => W.bind (f s x) fun s' => foldW? k f s' xs := rfl

/-- the value of a counting fold is the plain `List.foldlM` on the values of its body. -/
theorem foldW_fst (k : Nat) (f : σ → ι → W σ) :
    ∀ (xs : List ι) (s : σ), (foldW? k f s xs).1 = List.foldlM (m := Option) (fun s x => (f s x).1) s xs := by
  intro xs
  induction xs with
  | nil => intro s; rfl
  | cons x xs ih =>
    intro s
    rw [foldW_cons, bind_fst, List.foldlM_cons]
    show (W.bind (f s x) _).1 = _
    rw [bind_fst]
    cases (f s x).1 with
    | none => rfl
    | some r => simp only [Option.bind_some, ih]; rfl

/-- ticks of a counting fold: its own counter at most once per element, any counter at most `B` per element when the body ticks it at most
`B` times. -/
theorem foldW_le (k j B : Nat) (f : σ → ι → W σ) (hf : ∀ s x, (f s x).2 j ≤ B) :
    ∀ (xs : List ι) (s : σ), (foldW? k f s xs).2 j ≤ (if j = k then xs.length else 0) + xs.length * B := by
  intro xs
  induction xs with
  | nil => intro s; simp [foldW_nil]
  | cons x xs ih =>
    intro s
    rw [foldW_cons, bind_snd]
    show _ + (W.bind (f s x) _).2 j ≤ _
    rw [bind_snd]
    have h1 := hf s x
    have ht : (W.tick k).2 j = if j = k then 1 else 0 := rfl
    rw [ht]
    simp only [List.length_cons, Nat.succ_mul]
    cases (f s x).1 with
    | none =>
      simp only
      by_cases hjk : j = k
      · simp only [hjk, if_true] at h1 ⊢; omega
      · simp only [hjk, if_false]; omega
    | some r =>
      simp only
      have := ih r
      by_cases hjk : j = k
      · simp only [hjk, if_true] at this h1 ⊢; omega
      · simp only [hjk, if_false] at this ⊢; omega

/-- per-element bound: counter `j` of a counting fold is at most (its own ticks) + Σ over the elements of what the body may tick -/
theorem foldW_le_sum (k j : Nat) (g : ι → Nat) (f : σ → ι → W σ) (hf : ∀ s x, (f s x).2 j ≤ g x) :
    ∀ (xs : List ι) (s : σ), (foldW? k f s xs).2 j ≤ (if j = k then xs.length else 0) + (xs.map g).sum := by
  intro xs
  induction xs with
  | nil => intro s; simp [foldW_nil]
  | cons x xs ih =>
    intro s
    rw [foldW_cons, bind_snd]
    show _ + (W.bind (f s x) _).2 j ≤ _
    rw [bind_snd]
    have h1 := hf s x
    have ht : (W.tick k).2 j = if j = k then 1 else 0 := rfl
    rw [ht]
    simp only [List.length_cons, List.map_cons, List.sum_cons]
    cases (f s x).1 with
    | none =>
      simp only
      by_cases hjk : j = k
      · simp only [hjk, if_true] at h1 ⊢; omega
      · simp only [hjk, if_false]; omega
    | some r =>
      simp only
      have := ih r
      by_cases hjk : j = k
      · simp only [hjk, if_true] at this h1 ⊢; omega
      · simp only [hjk, if_false] at this ⊢; omega

/-- a measure that grows by at most one per element grows by at most the length over a `List.foldlM` that returns -/
theorem foldlM_measure (μ : σ → Nat) (f : σ → ι → Option σ) (hf : ∀ s x s', f s x = some s' → μ s' ≤ μ s + 1) :
    ∀ (xs : List ι) (s s' : σ), List.foldlM (m := Option) f s xs = some s' → μ s' ≤ μ s + xs.length := by
  intro xs
  induction xs with
  | nil => intro s s' h; simp only [List.foldlM_nil] at h; cases h; exact Nat.le_refl _
  | cons x xs ih =>
    intro s s' h
    rw [List.foldlM_cons] at h
    cases hx : f s x with
    | none => rw [hx] at h; cases h
    | some r =>
      rw [hx] at h
      have := ih r s' h
      have := hf s x r hx
      simp only [List.length_cons]; omega

/-! ### `whileW?` -/

theorem whileW_zero (k : Nat) (cond : σ → Bool) (body : σ → W σ) (s : σ) : whileW? k cond body 0 s = W.raise := rfl
theorem whileW_succ (k : Nat) (cond : σ → Bool) (body : σ → W σ) (fuel : Nat) (s : σ) :
    whileW? k cond body (fuel + 1) s =
      if cond s then W.bind (W.tick k) fun _ => W.bind (body s) (whileW? k cond body fuel) else W.ret s := rfl

/-- the value of a counting `while` is the plain `Py.while?` on the values of its body. -/
theorem whileW_fst (k : Nat) (cond : σ → Bool) (body : σ → W σ) :
    ∀ (fuel : Nat) (s : σ), (whileW? k cond body fuel s).1 = Py.while? cond (fun s => (body s).1) fuel s := by
  intro fuel
  induction fuel with
  | zero => intro s; rfl
  | succ fuel ih =>
    intro s
    rw [whileW_succ, Py.while?]
    split
    · rw [bind_fst]
      show (W.bind (body s) _).1 = _
      rw [bind_fst]
      cases (body s).1 with
      | none => rfl
      | some r => simp only [Option.bind_some, ih]
    · rfl

/-- POTENTIAL rule for a `while` that RETURNS: if every iteration satisfies `ticks_j(body) + φ(before) ≤ φ(after) + c` then counter `j` (not the
loop's own) over the whole run, plus `φ(start)`, is at most `φ(end) + c·(iteration budget)`; the loop's own counter is at most the budget; the end
state fails the loop condition. -/
theorem whileW_potential (k j c : Nat) (hj : j ≠ k) (cond : σ → Bool) (body : σ → W σ) (φ : σ → Nat)
    (hb : ∀ s s', cond s = true → (body s).1 = some s' → (body s).2 j + φ s ≤ φ s' + c) (hbk : ∀ s, (body s).2 k = 0) :
    ∀ (fuel : Nat) (s e : σ), (whileW? k cond body fuel s).1 = some e →
      (whileW? k cond body fuel s).2 j + φ s ≤ φ e + c * fuel ∧ (whileW? k cond body fuel s).2 k ≤ fuel ∧ cond e = false := by
  intro fuel
  induction fuel with
  | zero => intro s e h; cases h
  | succ fuel ih =>
    intro s e h
    rw [whileW_succ] at h ⊢
    by_cases hc : cond s = true
    · simp only [hc, if_true] at h ⊢
      rw [bind_fst] at h
      have h' : (W.bind (body s) (whileW? k cond body fuel)).1 = some e := h
      rw [bind_fst] at h'
      have t1 : (W.tick k).2 j = 0 := by show (if j = k then 1 else 0) = 0; rw [if_neg hj]
      have t2 : (W.tick k).2 k = 1 := by show (if k = k then 1 else 0) = 1; rw [if_pos rfl]
      have tf : (W.tick k).1 = some () := rfl
      cases hbs : (body s).1 with
      | none => rw [hbs] at h'; cases h'
      | some r =>
        rw [hbs] at h'
        simp only [Option.bind_some] at h'
        obtain ⟨i1, i2, i3⟩ := ih r e h'
        have := hb s r hc hbs
        have hk0 := hbk s
        simp only [bind_snd, tf, hbs, t1, t2, Nat.mul_succ, hk0, Nat.zero_add]
        generalize (whileW? k cond body fuel r).2 j = wj at *
        generalize (whileW? k cond body fuel r).2 k = wk at *
        generalize (body s).2 j = bj at *
        have g1 : bj + wj + φ s ≤ φ e + (c * fuel + c) := by omega
        exact ⟨g1, by omega, i3⟩
    · simp only [hc, Bool.false_eq_true, if_false] at h ⊢
      simp only [ret_fst, Option.some.injEq] at h
      subst h
      simp only [ret_snd]
      exact ⟨by omega, by omega, by simpa using hc⟩

/-- a `while` ticks no counter but its own and those its body ticks -/
theorem whileW_other (k j : Nat) (hj : j ≠ k) (cond : σ → Bool) (body : σ → W σ) (hb : ∀ s, (body s).2 j = 0) :
    ∀ (fuel : Nat) (s : σ), (whileW? k cond body fuel s).2 j = 0 := by
  intro fuel
  induction fuel with
  | zero => intro s; rfl
  | succ fuel ih =>
    intro s
    rw [whileW_succ]
    split
    · have t1 : (W.tick k).2 j = 0 := by show (if j = k then 1 else 0) = 0; rw [if_neg hj]
      have tf : (W.tick k).1 = some () := rfl
      simp only [bind_snd, tf, t1, hb, Nat.zero_add]
      cases (body s).1 with
      | none => rfl
      | some r => exact ih r
    · rfl

/-- a measure that grows by at most one per iteration grows by at most the budget over a `while` that returns -/
theorem whileW_measure (k : Nat) (cond : σ → Bool) (body : σ → W σ) (μ : σ → Nat)
    (hb : ∀ s s', cond s = true → (body s).1 = some s' → μ s' ≤ μ s + 1) :
    ∀ (fuel : Nat) (s e : σ), (whileW? k cond body fuel s).1 = some e → μ e ≤ μ s + fuel := by
  intro fuel
  induction fuel with
  | zero => intro s e h; cases h
  | succ fuel ih =>
    intro s e h
    rw [whileW_succ] at h
    by_cases hc : cond s = true
    · simp only [hc, if_true] at h
      rw [bind_fst] at h
      have h' : (W.bind (body s) (whileW? k cond body fuel)).1 = some e := h
      rw [bind_fst] at h'
      cases hbs : (body s).1 with
      | none => rw [hbs] at h'; cases h'
      | some r =>
        rw [hbs] at h'
        simp only [Option.bind_some] at h'
        have := ih r e h'
        have := hb s r hc hbs
        omega
    · simp only [hc, Bool.false_eq_true, if_false, ret_fst, Option.some.injEq] at h
      subst h; omega

/-! ### upper bounds on ticks, compositionally -/

theorem le_ret (a : α) (j B : Nat) : (W.ret a).2 j ≤ B := Nat.zero_le _
theorem le_raise (j B : Nat) : (W.raise : W α).2 j ≤ B := Nat.zero_le _
theorem le_bnd_opt (o : Option α) (f : α → W β) (j B : Nat) (h : ∀ a, (f a).2 j ≤ B) : (o >>== f).2 j ≤ B := by
  rw [bnd_opt_snd]; cases o with
  | none => exact Nat.zero_le _
  | some a => exact h a
theorem le_bnd_w (x : W α) (f : α → W β) (j B1 B2 B : Nat) (h1 : x.2 j ≤ B1) (h2 : ∀ a, (f a).2 j ≤ B2) (hB : B1 + B2 ≤ B) :
    (x >>== f).2 j ≤ B := by
  rw [bnd_w_snd]; cases x.1 with
  | none => simp only; omega
  | some a => have := h2 a; simp only; omega
theorem le_bnd_opt' (o : Option α) (f : α → W β) (j B : Nat) (h : ∀ a, o = some a → (f a).2 j ≤ B) : (o >>== f).2 j ≤ B := by
  rw [bnd_opt_snd]; cases o with
  | none => exact Nat.zero_le _
  | some a => exact h a rfl
theorem le_bnd_w' (x : W α) (f : α → W β) (j B1 B2 B : Nat) (h1 : x.2 j ≤ B1) (h2 : ∀ a, x.1 = some a → (f a).2 j ≤ B2) (hB : B1 + B2 ≤ B) :
    (x >>== f).2 j ≤ B := by
  rw [bnd_w_snd]; cases hx : x.1 with
  | none => simp only; omega
  | some a => have := h2 a hx; simp only; omega
theorem le_ite (c : Prop) [Decidable c] (a b : W α) (j B : Nat) (ha : a.2 j ≤ B) (hb : b.2 j ≤ B) : (if c then a else b).2 j ≤ B := by
  split <;> assumption

end TonVerif.Proofs.SrcW
