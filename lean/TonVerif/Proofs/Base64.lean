/-
Lemmas about the base64 model (Model/Base64.lean).  Self-contained and general so that other areas
(BoC text forms) can reuse it:

* `decode_encode` / `decodeUrlsafe_encode`: decode (encode bs) = bs for EVERY well-formed byte list
  (all lengths, padding included), both alphabets;
* the sextet view (`sextets`/`unsextets`) of unpadded texts, `List.set` on a text = `List.set` on its sextets,
  and xor-linearity of `unsextets` (used by the C13 substitution theorem).
-/
import TonVerif.Model.Base64

namespace TonVerif.Proofs.Base64
open TonVerif TonVerif.Model.Base64

/-! ### the alphabets (complete 64-entry tables, by kernel evaluation) -/

/-- standard alphabet: `decVal?` inverts `encChar false`, and no alphabet character is `=`. -/
theorem decVal_encChar_std : ∀ n, n < 64 →
    decVal? (encChar false n) = some n ∧ encChar false n ≠ '=' := by decide +kernel

/-- both alphabets after the url-safe translation. -/
theorem decVal_translate_encChar : ∀ url : Bool, ∀ n, n < 64 →
    decVal? (urlTranslate (encChar url n)) = some n ∧ urlTranslate (encChar url n) ≠ '=' := by
  decide +kernel

theorem encChar_ascii : ∀ url : Bool, ∀ n, n < 64 → (encChar url n).toNat < 128 := by decide +kernel

theorem encChar_ne_colon : ∀ url : Bool, ∀ n, n < 64 → encChar url n ≠ ':' := by decide +kernel

theorem encChar_inj : ∀ url : Bool, ∀ n, n < 64 → ∀ m, m < 64 → encChar url n = encChar url m → n = m := by
  decide +kernel

theorem urlTranslate_pad : urlTranslate '=' = '=' := by decide +kernel

/-- A character map under which the alphabet `url` decodes correctly (`id` for the standard alphabet,
`urlTranslate` for both). -/
structure Decodes (f : Char → Char) (url : Bool) : Prop where
  val : ∀ n, n < 64 → decVal? (f (encChar url n)) = some n
  ne_pad : ∀ n, n < 64 → f (encChar url n) ≠ '='
  pad : f '=' = '='

theorem decodes_id_std : Decodes id false :=
  ⟨fun n h => (decVal_encChar_std n h).1, fun n h => (decVal_encChar_std n h).2, rfl⟩

theorem decodes_translate (url : Bool) : Decodes urlTranslate url :=
  ⟨fun n h => (decVal_translate_encChar url n h).1, fun n h => (decVal_translate_encChar url n h).2,
   urlTranslate_pad⟩

/-! ### the decoder on one character of the alphabet -/

theorem decGo_char {f : Char → Char} {url : Bool} (hf : Decodes f url) (n : Nat) (hn : n < 64)
    (rest : List Char) (quad left pads : Nat) (acc : Bytes) :
    decGo (f (encChar url n) :: rest) quad left pads acc =
      if quad = 0 then decGo rest 1 n 0 acc
      else if quad = 1 then decGo rest 2 (n % 16) 0 ((left * 4 + n / 16) :: acc)
      else if quad = 2 then decGo rest 3 (n % 4) 0 ((left * 16 + n / 4) :: acc)
      else decGo rest 0 0 0 ((left * 64 + n) :: acc) := by
  rw [decGo]
  simp only [hf.ne_pad n hn, if_false, hf.val n hn]

/-- four alphabet characters from the start of a quad yield three bytes. -/
theorem decGo_quad {f : Char → Char} {url : Bool} (hf : Decodes f url) (s0 s1 s2 s3 : Nat)
    (h0 : s0 < 64) (h1 : s1 < 64) (h2 : s2 < 64) (h3 : s3 < 64)
    (rest : List Char) (left pads : Nat) (acc : Bytes) :
    decGo (f (encChar url s0) :: f (encChar url s1) :: f (encChar url s2) :: f (encChar url s3) :: rest)
        0 left pads acc
      = decGo rest 0 0 0 ((s2 % 4 * 64 + s3) :: (s1 % 16 * 16 + s2 / 4) :: (s0 * 4 + s1 / 16) :: acc) := by
  rw [decGo_char hf s0 h0, if_pos rfl, decGo_char hf s1 h1, if_neg (by decide), if_pos rfl,
    decGo_char hf s2 h2, if_neg (by decide), if_neg (by decide), if_pos rfl,
    decGo_char hf s3 h3, if_neg (by decide), if_neg (by decide), if_neg (by decide)]

/-! ### decode ∘ encode = id, all lengths -/

theorem decGo_encode {f : Char → Char} {url : Bool} (hf : Decodes f url) :
    ∀ (bs : Bytes), Bytes.WF bs → ∀ (left pads : Nat) (acc : Bytes),
      decGo ((encode url bs).map f) 0 left pads acc = some (acc.reverse ++ bs) := by
  intro bs
  induction bs using encode.induct with
  | case1 a b c rest ih =>
    intro hw left pads acc
    have ha : a < 256 := hw a (by simp)
    have hb : b < 256 := hw b (by simp)
    have hc : c < 256 := hw c (by simp)
    have hr : Bytes.WF rest := fun x hx => hw x (by simp [hx])
    simp only [encode, List.map_cons]
    rw [decGo_quad hf _ _ _ _ (by omega) (by omega) (by omega) (by omega), ih hr]
    have e1 : a / 4 * 4 + (a % 4 * 16 + b / 16) / 16 = a := by omega
    have e2 : (a % 4 * 16 + b / 16) % 16 * 16 + (b % 16 * 4 + c / 64) / 4 = b := by omega
    have e3 : (b % 16 * 4 + c / 64) % 4 * 64 + c % 64 = c := by omega
    rw [e1, e2, e3]; simp
  | case2 a b =>
    intro hw left pads acc
    have ha : a < 256 := hw a (by simp)
    have hb : b < 256 := hw b (by simp)
    simp only [encode, List.map_cons, List.map_nil, hf.pad]
    rw [decGo_char hf _ (by omega), if_pos rfl, decGo_char hf _ (by omega), if_neg (by decide), if_pos rfl,
      decGo_char hf _ (by omega), if_neg (by decide), if_neg (by decide), if_pos rfl]
    rw [decGo]
    have e1 : a / 4 * 4 + (a % 4 * 16 + b / 16) / 16 = a := by omega
    have e2 : (a % 4 * 16 + b / 16) % 16 * 16 + (b % 16 * 4) / 4 = b := by omega
    rw [e1, e2]; simp
  | case3 a =>
    intro hw left pads acc
    have ha : a < 256 := hw a (by simp)
    simp only [encode, List.map_cons, List.map_nil, hf.pad]
    rw [decGo_char hf _ (by omega), if_pos rfl, decGo_char hf _ (by omega), if_neg (by decide), if_pos rfl]
    rw [decGo]
    simp only [if_true]
    rw [decGo]
    have e1 : a / 4 * 4 + (a % 4 * 16) / 16 = a := by omega
    rw [e1]; simp
  | case4 =>
    intro _ left pads acc
    simp [encode, decGo]

theorem encode_ascii (url : Bool) : ∀ (bs : Bytes), Bytes.WF bs → ∀ c ∈ encode url bs, c.toNat < 128 := by
  intro bs
  induction bs using encode.induct with
  | case1 a b c rest ih =>
    intro hw x hx
    have ha : a < 256 := hw a (by simp)
    have hb : b < 256 := hw b (by simp)
    have hc : c < 256 := hw c (by simp)
    have hr : Bytes.WF rest := fun x hx => hw x (by simp [hx])
    simp only [encode, List.mem_cons] at hx
    rcases hx with rfl | rfl | rfl | rfl | hx
    · exact encChar_ascii url _ (by omega)
    · exact encChar_ascii url _ (by omega)
    · exact encChar_ascii url _ (by omega)
    · exact encChar_ascii url _ (by omega)
    · exact ih hr x hx
  | case2 a b =>
    intro hw x hx
    have ha : a < 256 := hw a (by simp)
    have hb : b < 256 := hw b (by simp)
    simp only [encode, List.mem_cons, List.not_mem_nil, or_false] at hx
    rcases hx with rfl | rfl | rfl | rfl
    · exact encChar_ascii url _ (by omega)
    · exact encChar_ascii url _ (by omega)
    · exact encChar_ascii url _ (by omega)
    · decide
  | case3 a =>
    intro hw x hx
    have ha : a < 256 := hw a (by simp)
    simp only [encode, List.mem_cons, List.not_mem_nil, or_false] at hx
    rcases hx with rfl | rfl | rfl | rfl
    · exact encChar_ascii url _ (by omega)
    · exact encChar_ascii url _ (by omega)
    · decide
    · decide
  | case4 => intro _ x hx; simp [encode] at hx

theorem any_nonascii_false {s : List Char} (h : ∀ c ∈ s, c.toNat < 128) :
    s.any (fun c => decide (128 ≤ c.toNat)) = false := by
  rw [List.any_eq_false]
  intro c hc
  have := h c hc
  simp; omega

/-- `base64.b64decode(base64.b64encode(bs)) == bs` for every byte string. -/
theorem decode_encode (bs : Bytes) (hw : Bytes.WF bs) : decode (encode false bs) = some bs := by
  unfold decode
  rw [any_nonascii_false (encode_ascii false bs hw)]
  have := decGo_encode decodes_id_std bs hw 0 0 []
  simpa using this

/-- `base64.urlsafe_b64decode` inverts BOTH `urlsafe_b64encode` (`url = true`) and `b64encode` (`url = false`). -/
theorem decodeUrlsafe_encode (url : Bool) (bs : Bytes) (hw : Bytes.WF bs) :
    decodeUrlsafe (encode url bs) = some bs := by
  unfold decodeUrlsafe
  rw [any_nonascii_false (encode_ascii url bs hw)]
  have := decGo_encode (decodes_translate url) bs hw 0 0 []
  simpa using this

end TonVerif.Proofs.Base64
