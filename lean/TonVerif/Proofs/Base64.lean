/-
Lemmas about the base64 model (Model/Base64.lean).  Self-contained and general so that other areas
(BoC text forms) can reuse it:

* `decode_encode` / `decodeUrlsafe_encode`: decode (encode bs) = bs for EVERY well-formed byte list
  (all lengths, padding included), both alphabets;
* the sextet view (`sextets`/`unsextets`) of unpadded texts, `List.set` on a text = `List.set` on its sextets,
  and xor-linearity of `unsextets` (used by the C13 substitution theorem).
-/
import TonVerif.Model.Base64

namespace TonVerif.Proofs.Base64
open TonVerif TonVerif.Model.Base64

/-! ### the alphabets (complete 64-entry tables, by kernel evaluation) -/

/-- standard alphabet: `decVal?` inverts `encChar false`, and no alphabet character is `=`. -/
theorem decVal_encChar_std : ∀ n, n < 64 →
    decVal? (encChar false n) = some n ∧ encChar false n ≠ '=' := by decide +kernel

/-- both alphabets after the url-safe translation. -/
theorem decVal_translate_encChar : ∀ url : Bool, ∀ n, n < 64 →
    decVal? (urlTranslate (encChar url n)) = some n ∧ urlTranslate (encChar url n) ≠ '=' := by
  decide +kernel

theorem encChar_ascii : ∀ url : Bool, ∀ n, n < 64 → (encChar url n).toNat < 128 := by decide +kernel

theorem encChar_ne_colon : ∀ url : Bool, ∀ n, n < 64 → encChar url n ≠ ':' := by decide +kernel

theorem encChar_inj : ∀ url : Bool, ∀ n, n < 64 → ∀ m, m < 64 → encChar url n = encChar url m → n = m := by
  decide +kernel

theorem urlTranslate_pad : urlTranslate '=' = '=' := by decide +kernel

/-- A character map under which the alphabet `url` decodes correctly (`id` for the standard alphabet,
`urlTranslate` for both). -/
structure Decodes (f : Char → Char) (url : Bool) : Prop where
  val : ∀ n, n < 64 → decVal? (f (encChar url n)) = some n
  ne_pad : ∀ n, n < 64 → f (encChar url n) ≠ '='
  pad : f '=' = '='

theorem decodes_id_std : Decodes id false :=
  ⟨fun n h => (decVal_encChar_std n h).1, fun n h => (decVal_encChar_std n h).2, rfl⟩

theorem decodes_translate (url : Bool) : Decodes urlTranslate url :=
  ⟨fun n h => (decVal_translate_encChar url n h).1, fun n h => (decVal_translate_encChar url n h).2,
   urlTranslate_pad⟩

/-! ### the decoder on one character of the alphabet -/

theorem decGo_char {f : Char → Char} {url : Bool} (hf : Decodes f url) (n : Nat) (hn : n < 64)
    (rest : List Char) (quad left pads : Nat) (acc : Bytes) :
    decGo (f (encChar url n) :: rest) quad left pads acc =
      if quad = 0 then decGo rest 1 n 0 acc
      else if quad = 1 then decGo rest 2 (n % 16) 0 ((left * 4 + n / 16) :: acc)
      else if quad = 2 then decGo rest 3 (n % 4) 0 ((left * 16 + n / 4) :: acc)
      else decGo rest 0 0 0 ((left * 64 + n) :: acc) := by
  rw [decGo]
  simp only [hf.ne_pad n hn, if_false, hf.val n hn]

/-- four alphabet characters from the start of a quad yield three bytes. -/
theorem decGo_quad {f : Char → Char} {url : Bool} (hf : Decodes f url) (s0 s1 s2 s3 : Nat)
    (h0 : s0 < 64) (h1 : s1 < 64) (h2 : s2 < 64) (h3 : s3 < 64)
    (rest : List Char) (left pads : Nat) (acc : Bytes) :
    decGo (f (encChar url s0) :: f (encChar url s1) :: f (encChar url s2) :: f (encChar url s3) :: rest)
        0 left pads acc
      = decGo rest 0 0 0 ((s2 % 4 * 64 + s3) :: (s1 % 16 * 16 + s2 / 4) :: (s0 * 4 + s1 / 16) :: acc) := by
  rw [decGo_char hf s0 h0, if_pos rfl, decGo_char hf s1 h1, if_neg (by decide), if_pos rfl,
    decGo_char hf s2 h2, if_neg (by decide), if_neg (by decide), if_pos rfl,
    decGo_char hf s3 h3, if_neg (by decide), if_neg (by decide), if_neg (by decide)]

/-! ### decode ∘ encode = id, all lengths -/

theorem decGo_encode {f : Char → Char} {url : Bool} (hf : Decodes f url) :
    ∀ (bs : Bytes), Bytes.WF bs → ∀ (left pads : Nat) (acc : Bytes),
      decGo ((encode url bs).map f) 0 left pads acc = some (acc.reverse ++ bs) := by
  intro bs
  induction bs using encode.induct with
  | case1 a b c rest ih =>
    intro hw left pads acc
    have ha : a < 256 := hw a (by simp)
    have hb : b < 256 := hw b (by simp)
    have hc : c < 256 := hw c (by simp)
    have hr : Bytes.WF rest := fun x hx => hw x (by simp [hx])
    simp only [encode, List.map_cons]
    rw [decGo_quad hf _ _ _ _ (by omega) (by omega) (by omega) (by omega), ih hr]
    have e1 : a / 4 * 4 + (a % 4 * 16 + b / 16) / 16 = a := by omega
    have e2 : (a % 4 * 16 + b / 16) % 16 * 16 + (b % 16 * 4 + c / 64) / 4 = b := by omega
    have e3 : (b % 16 * 4 + c / 64) % 4 * 64 + c % 64 = c := by omega
    rw [e1, e2, e3]; simp
  | case2 a b =>
    intro hw left pads acc
    have ha : a < 256 := hw a (by simp)
    have hb : b < 256 := hw b (by simp)
    simp only [encode, List.map_cons, List.map_nil, hf.pad]
    rw [decGo_char hf _ (by omega), if_pos rfl, decGo_char hf _ (by omega), if_neg (by decide), if_pos rfl,
      decGo_char hf _ (by omega), if_neg (by decide), if_neg (by decide), if_pos rfl]
    rw [decGo]
    have e1 : a / 4 * 4 + (a % 4 * 16 + b / 16) / 16 = a := by omega
    have e2 : (a % 4 * 16 + b / 16) % 16 * 16 + (b % 16 * 4) / 4 = b := by omega
    rw [e1, e2]; simp
  | case3 a =>
    intro hw left pads acc
    have ha : a < 256 := hw a (by simp)
    simp only [encode, List.map_cons, List.map_nil, hf.pad]
    rw [decGo_char hf _ (by omega), if_pos rfl, decGo_char hf _ (by omega), if_neg (by decide), if_pos rfl]
    rw [decGo]
    simp only [if_true]
    rw [decGo]
    have e1 : a / 4 * 4 + (a % 4 * 16) / 16 = a := by omega
    rw [e1]; simp
  | case4 =>
    intro _ left pads acc
    simp [encode, decGo]

theorem encode_ascii (url : Bool) : ∀ (bs : Bytes), Bytes.WF bs → ∀ c ∈ encode url bs, c.toNat < 128 := by
  intro bs
  induction bs using encode.induct with
  | case1 a b c rest ih =>
    intro hw x hx
    have ha : a < 256 := hw a (by simp)
    have hb : b < 256 := hw b (by simp)
    have hc : c < 256 := hw c (by simp)
    have hr : Bytes.WF rest := fun x hx => hw x (by simp [hx])
    simp only [encode, List.mem_cons] at hx
    rcases hx with rfl | rfl | rfl | rfl | hx
    · exact encChar_ascii url _ (by omega)
    · exact encChar_ascii url _ (by omega)
    · exact encChar_ascii url _ (by omega)
    · exact encChar_ascii url _ (by omega)
    · exact ih hr x hx
  | case2 a b =>
    intro hw x hx
    have ha : a < 256 := hw a (by simp)
    have hb : b < 256 := hw b (by simp)
    simp only [encode, List.mem_cons, List.not_mem_nil, or_false] at hx
    rcases hx with rfl | rfl | rfl | rfl
    · exact encChar_ascii url _ (by omega)
    · exact encChar_ascii url _ (by omega)
    · exact encChar_ascii url _ (by omega)
    · decide
  | case3 a =>
    intro hw x hx
    have ha : a < 256 := hw a (by simp)
    simp only [encode, List.mem_cons, List.not_mem_nil, or_false] at hx
    rcases hx with rfl | rfl | rfl | rfl
    · exact encChar_ascii url _ (by omega)
    · exact encChar_ascii url _ (by omega)
    · decide
    · decide
  | case4 => intro _ x hx; simp [encode] at hx

theorem any_nonascii_false {s : List Char} (h : ∀ c ∈ s, c.toNat < 128) :
    s.any (fun c => decide (128 ≤ c.toNat)) = false := by
  rw [List.any_eq_false]
  intro c hc
  have := h c hc
  simp; omega

/-- `base64.b64decode(base64.b64encode(bs)) == bs` for every byte string. -/
theorem decode_encode (bs : Bytes) (hw : Bytes.WF bs) : decode (encode false bs) = some bs := by
  unfold decode
  rw [any_nonascii_false (encode_ascii false bs hw)]
  have := decGo_encode decodes_id_std bs hw 0 0 []
  simpa using this

/-- `base64.urlsafe_b64decode` inverts BOTH `urlsafe_b64encode` (`url = true`) and `b64encode` (`url = false`). -/
theorem decodeUrlsafe_encode (url : Bool) (bs : Bytes) (hw : Bytes.WF bs) :
    decodeUrlsafe (encode url bs) = some bs := by
  unfold decodeUrlsafe
  rw [any_nonascii_false (encode_ascii url bs hw)]
  have := decGo_encode (decodes_translate url) bs hw 0 0 []
  simpa using this

/-! ### the sextet view of unpadded texts -/

/-- the 6-bit groups of a byte list whose length is a multiple of 3 (a shorter tail is ignored). -/
def sextets : Bytes → List Nat
  | a :: b :: c :: rest => a / 4 :: (a % 4 * 16 + b / 16) :: (b % 16 * 4 + c / 64) :: c % 64 :: sextets rest
  | _ => []

/-- bytes from 6-bit groups, four at a time (a shorter tail is ignored). -/
def unsextets : List Nat → Bytes
  | s0 :: s1 :: s2 :: s3 :: rest =>
      (s0 * 4 + s1 / 16) :: (s1 % 16 * 16 + s2 / 4) :: (s2 % 4 * 64 + s3) :: unsextets rest
  | _ => []

theorem encode_eq_map_sextets (url : Bool) : ∀ (bs : Bytes), bs.length % 3 = 0 →
    encode url bs = (sextets bs).map (encChar url) := by
  intro bs
  induction bs using encode.induct with
  | case1 a b c rest ih =>
    intro h
    simp only [List.length_cons] at h
    simp only [encode, sextets, List.map_cons]
    rw [ih (by omega)]
  | case2 a b => intro h; simp at h
  | case3 a => intro h; simp at h
  | case4 => intro _; simp [encode, sextets]

theorem sextets_lt : ∀ (bs : Bytes), Bytes.WF bs → ∀ s ∈ sextets bs, s < 64 := by
  intro bs
  induction bs using encode.induct with
  | case1 a b c rest ih =>
    intro hw s hs
    have ha : a < 256 := hw a (by simp)
    have hb : b < 256 := hw b (by simp)
    have hc : c < 256 := hw c (by simp)
    have hr : Bytes.WF rest := fun x hx => hw x (by simp [hx])
    simp only [sextets, List.mem_cons] at hs
    rcases hs with rfl | rfl | rfl | rfl | hs
    · omega
    · omega
    · omega
    · omega
    · exact ih hr s hs
  | case2 a b => intro _ s hs; simp [sextets] at hs
  | case3 a => intro _ s hs; simp [sextets] at hs
  | case4 => intro _ s hs; simp [sextets] at hs

theorem sextets_length : ∀ (bs : Bytes), bs.length % 3 = 0 → (sextets bs).length * 3 = bs.length * 4 := by
  intro bs
  induction bs using encode.induct with
  | case1 a b c rest ih =>
    intro h
    simp only [List.length_cons] at h
    have := ih (by omega)
    simp only [sextets, List.length_cons]; omega
  | case2 a b => intro h; simp at h
  | case3 a => intro h; simp at h
  | case4 => intro _; simp [sextets]

theorem unsextets_sextets : ∀ (bs : Bytes), Bytes.WF bs → bs.length % 3 = 0 → unsextets (sextets bs) = bs := by
  intro bs
  induction bs using encode.induct with
  | case1 a b c rest ih =>
    intro hw h
    have ha : a < 256 := hw a (by simp)
    have hb : b < 256 := hw b (by simp)
    have hc : c < 256 := hw c (by simp)
    have hr : Bytes.WF rest := fun x hx => hw x (by simp [hx])
    simp only [List.length_cons] at h
    simp only [sextets, unsextets]
    rw [ih hr (by omega)]
    have e1 : a / 4 * 4 + (a % 4 * 16 + b / 16) / 16 = a := by omega
    have e2 : (a % 4 * 16 + b / 16) % 16 * 16 + (b % 16 * 4 + c / 64) / 4 = b := by omega
    have e3 : (b % 16 * 4 + c / 64) % 4 * 64 + c % 64 = c := by omega
    rw [e1, e2, e3]
  | case2 a b => intro _ h; simp at h
  | case3 a => intro _ h; simp at h
  | case4 => intro _ _; simp [sextets, unsextets]

/-- the decoder on a text made of whole quads of alphabet characters. -/
theorem decGo_map_sextets {f : Char → Char} {url : Bool} (hf : Decodes f url) :
    ∀ (S : List Nat), (∀ s ∈ S, s < 64) → S.length % 4 = 0 → ∀ (left pads : Nat) (acc : Bytes),
      decGo ((S.map (encChar url)).map f) 0 left pads acc = some (acc.reverse ++ unsextets S) := by
  intro S
  induction S using unsextets.induct with
  | case1 s0 s1 s2 s3 rest ih =>
    intro hlt hlen left pads acc
    simp only [List.length_cons] at hlen
    simp only [List.map_cons, unsextets]
    rw [decGo_quad hf s0 s1 s2 s3 (hlt _ (by simp)) (hlt _ (by simp)) (hlt _ (by simp)) (hlt _ (by simp)),
      ih (fun s hs => hlt s (by simp [hs])) (by omega)]
    simp
  | case2 S hS =>
    intro _ hlen left pads acc
    match S, hS, hlen with
    | [], _, _ => simp [decGo, unsextets]
    | [_], _, h => simp at h
    | [_, _], _, h => simp at h
    | [_, _, _], _, h => simp at h
    | a :: b :: c :: d :: r, hS, _ => exact absurd rfl (hS a b c d r)

/-- `urlsafe_b64decode` of an unpadded text given by its sextets. -/
theorem decodeUrlsafe_map_sextets (url : Bool) (S : List Nat) (hlt : ∀ s ∈ S, s < 64) (hlen : S.length % 4 = 0) :
    decodeUrlsafe (S.map (encChar url)) = some (unsextets S) := by
  unfold decodeUrlsafe
  rw [any_nonascii_false]
  · have := decGo_map_sextets (decodes_translate url) S hlt hlen 0 0 []
    simpa using this
  · intro c hc
    rw [List.mem_map] at hc
    obtain ⟨s, hs, rfl⟩ := hc
    exact encChar_ascii url s (hlt s hs)

/-! ### xor-linearity of `unsextets` -/

theorem xor_hi_lo (k hi hi' lo lo' : Nat) (h : lo < 2 ^ k) (h' : lo' < 2 ^ k) :
    (hi * 2 ^ k + lo) ^^^ (hi' * 2 ^ k + lo') = (hi ^^^ hi') * 2 ^ k + (lo ^^^ lo') := by
  apply Nat.eq_of_testBit_eq
  intro j
  rw [Nat.mul_comm hi, Nat.mul_comm hi', Nat.mul_comm (hi ^^^ hi')]
  simp only [Nat.testBit_xor, Nat.testBit_two_pow_mul_add _ h, Nat.testBit_two_pow_mul_add _ h',
    Nat.testBit_two_pow_mul_add _ (Nat.xor_lt_two_pow h h')]
  split <;> simp

theorem quad_xor (s0 s1 s2 s3 t0 t1 t2 t3 : Nat)
    (h1 : s1 < 64) (h2 : s2 < 64) (h3 : s3 < 64) (g1 : t1 < 64) (g2 : t2 < 64) (g3 : t3 < 64) :
    ((s0 ^^^ t0) * 4 + (s1 ^^^ t1) / 16 = (s0 * 4 + s1 / 16) ^^^ (t0 * 4 + t1 / 16)) ∧
    ((s1 ^^^ t1) % 16 * 16 + (s2 ^^^ t2) / 4 = (s1 % 16 * 16 + s2 / 4) ^^^ (t1 % 16 * 16 + t2 / 4)) ∧
    ((s2 ^^^ t2) % 4 * 64 + (s3 ^^^ t3) = (s2 % 4 * 64 + s3) ^^^ (t2 % 4 * 64 + t3)) := by
  refine ⟨?_, ?_, ?_⟩
  · have a := xor_hi_lo 2 s0 t0 (s1 / 16) (t1 / 16) (by omega) (by omega)
    have b := @Nat.xor_div_two_pow s1 t1 4
    simp only [Nat.reducePow] at a b
    rw [a, b]
  · have a := xor_hi_lo 4 (s1 % 16) (t1 % 16) (s2 / 4) (t2 / 4) (by omega) (by omega)
    have b := @Nat.xor_div_two_pow s2 t2 2
    have c := @Nat.xor_mod_two_pow s1 t1 4
    simp only [Nat.reducePow] at a b c
    rw [a, b, c]
  · have a := xor_hi_lo 6 (s2 % 4) (t2 % 4) s3 t3 (by omega) (by omega)
    have c := @Nat.xor_mod_two_pow s2 t2 2
    simp only [Nat.reducePow] at a c
    rw [a, c]

/-- `unsextets` commutes with position-wise xor (sextets below 64, equal lengths). -/
theorem unsextets_xor : ∀ (S T : List Nat), (∀ s ∈ S, s < 64) → (∀ t ∈ T, t < 64) → S.length = T.length →
    unsextets (List.zipWith (· ^^^ ·) S T) = List.zipWith (· ^^^ ·) (unsextets S) (unsextets T) := by
  intro S
  induction S using unsextets.induct with
  | case1 s0 s1 s2 s3 rest ih =>
    intro T hS hT hlen
    match T, hT, hlen with
    | t0 :: t1 :: t2 :: t3 :: trest, hT, hlen =>
      simp only [List.length_cons] at hlen
      simp only [List.zipWith_cons_cons, unsextets]
      have q := quad_xor s0 s1 s2 s3 t0 t1 t2 t3 (hS _ (by simp)) (hS _ (by simp)) (hS _ (by simp))
        (hT _ (by simp)) (hT _ (by simp)) (hT _ (by simp))
      rw [q.1, q.2.1, q.2.2, ih trest (fun s hs => hS s (by simp [hs])) (fun t ht => hT t (by simp [ht])) (by omega)]
    | [], _, h => simp at h
    | [_], _, h => simp at h
    | [_, _], _, h => simp at h
    | [_, _, _], _, h => simp at h
  | case2 S hS =>
    intro T _ _ hlen
    match S, hS, T, hlen with
    | [], _, [], _ => simp [unsextets]
    | [_], _, [_], _ => simp [unsextets]
    | [_, _], _, [_, _], _ => simp [unsextets]
    | [_, _, _], _, [_, _, _], _ => simp [unsextets]
    | a :: b :: c :: d :: r, hS, _, _ => exact absurd rfl (hS a b c d r)

/-- replacing entry `i` = xor with the pattern that is `S[i] ^^^ j` at `i` and zero elsewhere. -/
theorem set_eq_zipWith_xor : ∀ (S : List Nat) (i j : Nat) (hi : i < S.length),
    S.set i j = List.zipWith (· ^^^ ·) S ((List.replicate S.length 0).set i (S[i] ^^^ j)) := by
  intro S
  induction S with
  | nil => intro i j hi; simp at hi
  | cons a S ih =>
    intro i j hi
    cases i with
    | zero =>
      simp only [List.set_cons_zero, List.length_cons, List.replicate_succ, List.zipWith_cons_cons,
        List.getElem_cons_zero]
      rw [← Nat.xor_assoc, Nat.xor_self, Nat.zero_xor]
      congr 1
      clear ih hi
      induction S with
      | nil => rfl
      | cons b S ih2 => simp [List.replicate_succ, ← ih2]
    | succ i =>
      simp only [List.length_cons] at hi
      simp only [List.set_cons_succ, List.length_cons, List.replicate_succ, List.zipWith_cons_cons,
        List.getElem_cons_succ, Nat.xor_zero]
      rw [← ih i j (by omega)]

/-! ### the alphabets as lists -/

/-- the 64 characters of the standard (`url = false`) / url-safe (`url = true`) alphabet. -/
def alphabet (url : Bool) : List Char := (List.range 64).map (encChar url)

theorem alphabet_std :
    alphabet false = "ABCDEFGHIJKLMNOPQRSTUVWXYZabcdefghijklmnopqrstuvwxyz0123456789+/".toList := by
  decide +kernel

theorem alphabet_url :
    alphabet true = "ABCDEFGHIJKLMNOPQRSTUVWXYZabcdefghijklmnopqrstuvwxyz0123456789-_".toList := by
  decide +kernel

theorem mem_alphabet {url : Bool} {c : Char} (h : c ∈ alphabet url) : ∃ j, j < 64 ∧ c = encChar url j := by
  unfold alphabet at h
  rw [List.mem_map] at h
  obtain ⟨j, hj, rfl⟩ := h
  exact ⟨j, List.mem_range.mp hj, rfl⟩

end TonVerif.Proofs.Base64
