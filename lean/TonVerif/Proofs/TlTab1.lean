/- Kernel evaluation over the generated TL table, chunk slots 8..15 (of 32; absent chunks are empty):
   every constructor id is the id of its declaration text (CRC-32 / explicit), ids below 2^32, flag variables well placed,
   constructors sharing an id agree in name and arguments. -/
import TonVerif.Proofs.Tl
import TonVerif.Generated.TlTable

namespace TonVerif.Proofs.TlTab1
open TonVerif TonVerif.Spec.Tl TonVerif.Proofs.Tl TonVerif.Generated.Tl

theorem ids_8 : idsOK (chunks.getD 8 []) = true := by decide +kernel
theorem ok_8 : chunkAgree table (chunks.getD 8 []) = true := by decide +kernel
theorem ids_9 : idsOK (chunks.getD 9 []) = true := by decide +kernel
theorem ok_9 : chunkAgree table (chunks.getD 9 []) = true := by decide +kernel
theorem ids_10 : idsOK (chunks.getD 10 []) = true := by decide +kernel
theorem ok_10 : chunkAgree table (chunks.getD 10 []) = true := by decide +kernel
theorem ids_11 : idsOK (chunks.getD 11 []) = true := by decide +kernel
theorem ok_11 : chunkAgree table (chunks.getD 11 []) = true := by decide +kernel
theorem ids_12 : idsOK (chunks.getD 12 []) = true := by decide +kernel
theorem ok_12 : chunkAgree table (chunks.getD 12 []) = true := by decide +kernel
theorem ids_13 : idsOK (chunks.getD 13 []) = true := by decide +kernel
theorem ok_13 : chunkAgree table (chunks.getD 13 []) = true := by decide +kernel
theorem ids_14 : idsOK (chunks.getD 14 []) = true := by decide +kernel
theorem ok_14 : chunkAgree table (chunks.getD 14 []) = true := by decide +kernel
theorem ids_15 : idsOK (chunks.getD 15 []) = true := by decide +kernel
theorem ok_15 : chunkAgree table (chunks.getD 15 []) = true := by decide +kernel

theorem ids (k : Nat) (h1 : 8 ≤ k) (h2 : k < 16) : idsOK (chunks.getD k []) = true :=
  match k, h1, h2 with
  | 8, _, _ => ids_8
  | 9, _, _ => ids_9
  | 10, _, _ => ids_10
  | 11, _, _ => ids_11
  | 12, _, _ => ids_12
  | 13, _, _ => ids_13
  | 14, _, _ => ids_14
  | 15, _, _ => ids_15
  | n + 16, _, h => absurd h (by omega)

theorem ok (k : Nat) (h1 : 8 ≤ k) (h2 : k < 16) : chunkAgree table (chunks.getD k []) = true :=
  match k, h1, h2 with
  | 8, _, _ => ok_8
  | 9, _, _ => ok_9
  | 10, _, _ => ok_10
  | 11, _, _ => ok_11
  | 12, _, _ => ok_12
  | 13, _, _ => ok_13
  | 14, _, _ => ok_14
  | 15, _, _ => ok_15
  | n + 16, _, h => absurd h (by omega)

end TonVerif.Proofs.TlTab1
