/-
The regenerated copy / isolation glue (Generated/HeapSrc.lean, translated from boc/cell.py, boc/slice.py, boc/builder.py on every
run) equals the `derive` transition of the heap model Model/Heap.lean on every well-formed heap.
-/
import TonVerif.Generated.HeapSrc
import TonVerif.Proofs.Heap

set_option linter.unusedSimpArgs false

namespace TonVerif.Proofs.SrcHeap
open TonVerif TonVerif.Model TonVerif.Model.Heap TonVerif.Proofs.Heap TonVerif.Generated.HeapSrc

theorem has_lt {σ : State} {i : Nat} {t : Tag} (h : σ.has i t = true) : i < σ.nObj ∧ (σ.obj i).tag = t := has_iff.1 h

/-- what `derive src .slice` does when `src` is a live cell / slice / builder -/
theorem derive_slice (H) (σ : State) (src : Nat) (h : (σ.has src .cell || σ.has src .slice || σ.has src .builder) = true) :
    step H σ (.derive src .slice) =
      ((((σ.allocB (σ.bitsOf src)).allocR (σ.refsOf src)).push
        { ObjRec.blank with tag := .slice, kind := (σ.obj src).kind, bitsId := σ.nBit, refsId := σ.nRef }), .obj σ.nObj) := by
  simp only [step, h, if_true, freshObj]

theorem Cell_begin_parse_eq (H) (σ : State) (wf : WF σ) (self : Nat) (h : σ.has self .cell = true) :
    Py.Heap.result σ (Cell_begin_parse H σ self) = step H σ (.derive self .slice) := by
  obtain ⟨hi, ht⟩ := has_lt h
  have ho : (σ.obj self).off = 0 := wf.off0 self hi (by rw [ht]; decide)
  rw [derive_slice H σ self (by simp [h])]
  simp only [Cell_begin_parse, Py.Heap.result, Py.Heap.copyBits, Py.Heap.copyRefs, Py.Heap.newSlice, State.allocB, State.allocR,
    State.push, State.bitsOf, State.refsOf, ho, List.drop_zero]

macro "heap_slice" ho:term : tactic =>
  `(tactic| (simp only [Py.Heap.result, Py.Heap.copyBits, Py.Heap.copyRefs, Py.Heap.newSlice, State.allocB, State.allocR,
    State.push, State.bitsOf, State.refsOf, $ho:term, List.drop_zero, Option.bind_some, Option.bind] <;> rfl))
macro "heap_slice0" : tactic =>
  `(tactic| (simp only [Py.Heap.result, Py.Heap.copyBits, Py.Heap.copyRefs, Py.Heap.newSlice, State.allocB, State.allocR,
    State.push, State.bitsOf, State.refsOf, List.drop_zero, Option.bind_some, Option.bind] <;> rfl))

theorem Cell_to_slice_eq (H) (σ : State) (wf : WF σ) (self : Nat) (h : σ.has self .cell = true) :
    Py.Heap.result σ (Cell_to_slice H σ self) = step H σ (.derive self .slice) := by
  rw [← Cell_begin_parse_eq H σ wf self h]
  simp only [Cell_to_slice]
  cases Cell_begin_parse H σ self <;> rfl

theorem Slice_from_cell_eq (H) (σ : State) (wf : WF σ) (self : Nat) (h : σ.has self .cell = true) :
    Py.Heap.result σ (Slice_from_cell H σ self) = step H σ (.derive self .slice) := by
  obtain ⟨hi, ht⟩ := has_lt h
  have ho : (σ.obj self).off = 0 := wf.off0 self hi (by rw [ht]; decide)
  rw [derive_slice H σ self (by simp [h])]
  simp only [Slice_from_cell]
  heap_slice ho

theorem Slice_copy_eq (H) (σ : State) (self : Nat) (h : σ.has self .slice = true) :
    Py.Heap.result σ (Slice_copy H σ self) = step H σ (.derive self .slice) := by
  rw [derive_slice H σ self (by simp [h])]
  simp only [Slice_copy]
  heap_slice0

theorem Builder_to_slice_eq (H) (σ : State) (wf : WF σ) (self : Nat) (h : σ.has self .builder = true) :
    Py.Heap.result σ (Builder_to_slice H σ self) = step H σ (.derive self .slice) := by
  obtain ⟨hi, ht⟩ := has_lt h
  have ho : (σ.obj self).off = 0 := wf.off0 self hi (by rw [ht]; decide)
  rw [derive_slice H σ self (by simp [h])]
  simp only [Builder_to_slice]
  heap_slice ho

/-- what `derive src .cell` does: the constructor runs on the copies -/
theorem derive_cell (H) (σ : State) (src : Nat) (h : (σ.has src .cell || σ.has src .slice || σ.has src .builder) = true) :
    step H σ (.derive src .cell) =
      match mkCellRec H σ σ.nBit σ.nRef (σ.obj src).kind (σ.bitsOf src) (σ.refsOf src) with
      | some c => ((((σ.allocB (σ.bitsOf src)).allocR (σ.refsOf src)).push c), .obj σ.nObj)
      | none => (σ, .err) := by
  simp only [step, h, if_true, freshObj]
  cases hc : mkCellRec H σ σ.nBit σ.nRef (σ.obj src).kind (σ.bitsOf src) (σ.refsOf src) with
  | none => rfl
  | some c =>
    simp only [mkCellRec, Option.map_eq_some_iff] at hc
    obtain ⟨info, _, rfl⟩ := hc
    rfl

/-- the regenerated "copy both, then `Cell(..)`" shape, for an arbitrary list offset `k` -/
theorem copy_then_cell (H) (σ : State) (self k : Nat) :
    Py.Heap.result σ
      ((Py.Heap.newCell? H ((σ.allocB (σ.bitBuf (σ.obj self).bitsId)).allocR ((σ.refBuf (σ.obj self).refsId).drop k)) σ.nBit σ.nRef
        (σ.obj self).kind).bind fun r => some (r.1, r.2)) =
      match mkCellRec H σ σ.nBit σ.nRef (σ.obj self).kind (σ.bitBuf (σ.obj self).bitsId) ((σ.refBuf (σ.obj self).refsId).drop k) with
      | some c => ((((σ.allocB (σ.bitBuf (σ.obj self).bitsId)).allocR ((σ.refBuf (σ.obj self).refsId).drop k)).push c), .obj σ.nObj)
      | none => (σ, .err) := by
  simp only [Py.Heap.newCell?, mkCellRec, State.allocB, State.allocR, if_true]
  cases construct H (σ.obj self).kind (σ.bitBuf (σ.obj self).bitsId)
      (List.map (fun j => (σ.obj j).info) (List.drop k (σ.refBuf (σ.obj self).refsId))) <;> rfl

macro "heap_cell" : tactic =>
  `(tactic| (simp only [Py.Heap.copyBits, Py.Heap.copyRefs, State.allocB, State.allocR, State.bitsOf, State.refsOf] <;> rfl))

theorem Cell_copy_eq (H) (σ : State) (wf : WF σ) (self : Nat) (h : σ.has self .cell = true) :
    Py.Heap.result σ (Cell_copy H σ self) = step H σ (.derive self .cell) := by
  obtain ⟨hi, ht⟩ := has_lt h
  have ho : (σ.obj self).off = 0 := wf.off0 self hi (by rw [ht]; decide)
  rw [derive_cell H σ self (by simp [h])]
  have := copy_then_cell H σ self 0
  simp only [State.bitsOf, State.refsOf, ho]
  rw [← this]
  simp only [Cell_copy]; heap_cell

theorem Builder_end_cell_eq (H) (σ : State) (wf : WF σ) (self : Nat) (h : σ.has self .builder = true) :
    Py.Heap.result σ (Builder_end_cell H σ self) = step H σ (.derive self .cell) := by
  obtain ⟨hi, ht⟩ := has_lt h
  have ho : (σ.obj self).off = 0 := wf.off0 self hi (by rw [ht]; decide)
  rw [derive_cell H σ self (by simp [h])]
  have := copy_then_cell H σ self 0
  simp only [State.bitsOf, State.refsOf, ho]
  rw [← this]
  simp only [Builder_end_cell]; heap_cell

theorem Builder_to_cell_eq (H) (σ : State) (wf : WF σ) (self : Nat) (h : σ.has self .builder = true) :
    Py.Heap.result σ (Builder_to_cell H σ self) = step H σ (.derive self .cell) := by
  rw [← Builder_end_cell_eq H σ wf self h]
  simp only [Builder_to_cell]
  cases Builder_end_cell H σ self <;> rfl

theorem Slice_to_cell_eq (H) (σ : State) (self : Nat) (h : σ.has self .slice = true) :
    Py.Heap.result σ (Slice_to_cell H σ self) = step H σ (.derive self .cell) := by
  rw [derive_cell H σ self (by simp [h])]
  have := copy_then_cell H σ self (σ.obj self).off
  simp only [State.bitsOf, State.refsOf]
  rw [← this]
  simp only [Slice_to_cell]; heap_cell

/-! ### `to_builder`: `Builder()` then `store_cell` / `store_slice` is `derive · builder` -/

theorem state_ext {a b : State} (h1 : a.bitBuf = b.bitBuf) (h2 : a.nBit = b.nBit) (h3 : a.refBuf = b.refBuf) (h4 : a.nRef = b.nRef)
    (h5 : a.obj = b.obj) (h6 : a.nObj = b.nObj) : a = b := by
  cases a; cases b; simp_all

/-- a fresh builder filled from a live cell / slice `self`: raises exactly when `self` has more than 4 references left or more than
1023 bits, and is otherwise a new builder holding COPIES of the remaining bits and references. -/
theorem builder_core (H) (σ : State) (wf : WF σ) (self : Nat) (t : Tag) (ht' : t = .cell ∨ t = .slice) (h : σ.has self t = true) :
    Py.Heap.result σ ((Py.Heap.storeFrom? H (Py.Heap.newBuilder σ).1 (Py.Heap.newBuilder σ).2 self).bind
        fun r => some (r, (Py.Heap.newBuilder σ).2)) =
      if (σ.refsOf self).length > 4 then (σ, .err)
      else if (σ.bitsOf self).length > 1023 then (σ, .err)
      else freshObj σ { ObjRec.blank with tag := .builder } (σ.bitsOf self) (σ.refsOf self) := by
  obtain ⟨hi, ht⟩ := has_lt h
  have hne : self ≠ σ.nObj := Nat.ne_of_lt hi
  have hB : (σ.obj self).bitsId ≠ σ.nBit := Nat.ne_of_lt (wf.idB self hi (by rw [ht]; rcases ht' with rfl | rfl <;> rfl))
  have hR : (σ.obj self).refsId ≠ σ.nRef := Nat.ne_of_lt (wf.idR self hi (by rw [ht]; rcases ht' with rfl | rfl <;> rfl))
  have hub : t ≠ .ubits := by rcases ht' with rfl | rfl <;> decide
  have hcs : (decide (t = .cell) || decide (t = .slice)) = true := by rcases ht' with rfl | rfl <;> decide
  by_cases c1 : (σ.refsOf self).length > 4
  · rw [if_pos c1]
    have c1' : (List.drop (σ.obj self).off (σ.refBuf (σ.obj self).refsId)).length > 4 := c1
    simp only [Py.Heap.storeFrom?, Py.Heap.newBuilder, step, State.has, State.push, State.allocB, State.allocR, State.bitsOf,
      State.refsOf, State.setB, State.setR, hne, if_false, if_true, ht, hub, hcs, Nat.lt_succ_self, decide_true, decide_false,
      Bool.and_self, Bool.true_and, Bool.and_true, Bool.false_eq_true, hB, hR, List.drop_zero, List.length_nil, Nat.zero_add,
      List.nil_append, Nat.lt_succ_of_lt hi, Bool.false_and, ObjRec.blank, if_pos c1']
    rfl
  · rw [if_neg c1]
    have c1' : ¬ (List.drop (σ.obj self).off (σ.refBuf (σ.obj self).refsId)).length > 4 := c1
    by_cases c2 : (σ.bitsOf self).length > 1023
    · rw [if_pos c2]
      have c2' : List.length (σ.bitBuf (σ.obj self).bitsId) > 1023 := c2
      simp only [Py.Heap.storeFrom?, Py.Heap.newBuilder, step, State.has, State.push, State.allocB, State.allocR, State.bitsOf,
        State.refsOf, State.setB, State.setR, hne, if_false, if_true, ht, hub, hcs, Nat.lt_succ_self, decide_true, decide_false,
        Bool.and_self, Bool.true_and, Bool.and_true, Bool.false_eq_true, hB, hR, List.drop_zero, List.length_nil, Nat.zero_add,
        List.nil_append, Nat.lt_succ_of_lt hi, Bool.false_and, ObjRec.blank, if_neg c1', if_pos c2']
      rfl
    · rw [if_neg c2]
      have c2' : ¬ List.length (σ.bitBuf (σ.obj self).bitsId) > 1023 := c2
      simp only [Py.Heap.storeFrom?, Py.Heap.newBuilder, step, State.has, State.push, State.allocB, State.allocR, State.bitsOf,
        State.refsOf, State.setB, State.setR, hne, if_false, if_true, ht, hub, hcs, Nat.lt_succ_self, decide_true, decide_false,
        Bool.and_self, Bool.true_and, Bool.and_true, Bool.false_eq_true, hB, hR, List.drop_zero, List.length_nil, Nat.zero_add,
        List.nil_append, Nat.lt_succ_of_lt hi, Bool.false_and, ObjRec.blank, if_neg c1', if_neg c2', freshObj, Py.Heap.result,
        Option.bind]
      refine Prod.ext (state_ext ?_ rfl ?_ rfl rfl rfl) rfl
      · funext j; by_cases hj : j = σ.nBit <;> simp [hj]
      · funext j; by_cases hj : j = σ.nRef <;> simp [hj]

theorem derive_builder (H) (σ : State) (_wf : WF σ) (src : Nat) (t : Tag) (ht' : t = .cell ∨ t = .slice) (h : σ.has src t = true) :
    step H σ (.derive src .builder) =
      if (σ.obj src).kind != -1 then (σ, .err)
      else if (σ.refsOf src).length > 4 then (σ, .err)
      else if (σ.bitsOf src).length > 1023 then (σ, .err)
      else freshObj σ { ObjRec.blank with tag := .builder } (σ.bitsOf src) (σ.refsOf src) := by
  obtain ⟨hi, ht⟩ := has_lt h
  have hb : σ.has src .builder = false := by
    simp only [State.has, ht]; rcases ht' with rfl | rfl <;> simp
  have hsrc : (σ.has src .cell || σ.has src .slice || σ.has src .builder) = true := by
    rcases ht' with rfl | rfl <;> simp [h]
  have hsrc2 : (σ.has src .cell || σ.has src .slice) = true := by
    rcases ht' with rfl | rfl <;> simp [h]
  simp only [step, hb, Bool.or_false, hsrc2, if_true, Bool.false_or]
  cases hk : ((σ.obj src).kind != -1) <;> by_cases c1 : (σ.refsOf src).length > 4 <;>
    by_cases c2 : (σ.bitsOf src).length > 1023 <;>
    simp only [c1, c2, decide_true, decide_false, Bool.or_true, Bool.or_false, Bool.false_or, Bool.true_or, if_true, if_false,
      Bool.false_eq_true, Bool.or_self]

theorem Cell_to_builder_eq (H) (σ : State) (wf : WF σ) (self : Nat) (h : σ.has self .cell = true) :
    Py.Heap.result σ (Cell_to_builder H σ self) = step H σ (.derive self .builder) := by
  rw [derive_builder H σ wf self .cell (Or.inl rfl) h, ← builder_core H σ wf self .cell (Or.inl rfl) h]
  simp only [Cell_to_builder]
  by_cases c0 : ((σ.obj self).kind != -1) = true
  · simp [c0, Py.Heap.result]
  · simp only [c0]; rfl

theorem Slice_to_builder_eq (H) (σ : State) (wf : WF σ) (self : Nat) (h : σ.has self .slice = true) :
    Py.Heap.result σ (Slice_to_builder H σ self) = step H σ (.derive self .builder) := by
  rw [derive_builder H σ wf self .slice (Or.inr rfl) h, ← builder_core H σ wf self .slice (Or.inr rfl) h]
  simp only [Slice_to_builder]
  by_cases c0 : (σ.obj self).kind = -1
  · simp only [c0]; rfl
  · have : ((σ.obj self).kind != -1) = true := by simpa using c0
    simp [c0, this, Py.Heap.result]

/-! ## loads and stores (session 5): the regenerated mutating methods are the model's own transitions -/

/-- `Builder.store_ref(ref)` = the model's `storeRef`: raises exactly when the builder's list already has 4 entries, otherwise the
builder's OWN list container gets the very object `ref` appended in place; nothing else changes. -/
theorem Builder_store_ref_eq (H) (σ : State) (wf : WF σ) (self ref : Nat) (h : σ.has self .builder = true) (hc : σ.has ref .cell = true) :
    Py.Heap.resultUnit σ (Builder_store_ref H σ self ref) = step H σ (.storeRef self ref) := by
  obtain ⟨hi, ht⟩ := has_lt h
  have ho : (σ.obj self).off = 0 := wf.off0 self hi (by rw [ht]; decide)
  simp only [step, h, hc, Bool.and_self, if_true, Builder_store_ref, State.refsOf, ho, List.drop_zero, decide_eq_true_eq]
  by_cases hl : (σ.refBuf (σ.obj self).refsId).length ≥ 4
  · simp [hl, Py.Heap.resultUnit]
  · simp [hl, Py.Heap.resultUnit, Py.Heap.appendRef]

/-- `Slice.load_ref()` = the model's `loadRef`: IndexError exactly when no reference remains, otherwise `ref_offset` is bumped and the
result is the very Cell object stored in the list (no copy); no container changes. -/
theorem Slice_load_ref_eq (H) (σ : State) (self : Nat) (h : σ.has self .slice = true) :
    Py.Heap.result σ (Slice_load_ref H σ self) = step H σ (.loadRef self) := by
  simp only [step, h, if_true, Slice_load_ref, State.refsOf, Py.Heap.refAt?, Py.Heap.setOff]
  cases hd : (σ.refBuf (σ.obj self).refsId).drop (σ.obj self).off with
  | nil =>
    have : (σ.refBuf (σ.obj self).refsId)[(σ.obj self).off]? = none := by
      have := congrArg List.head? hd
      simpa [List.head?_drop] using this
    simp [this, Py.Heap.result]
  | cons c cs =>
    have : (σ.refBuf (σ.obj self).refsId)[(σ.obj self).off]? = some c := by
      have := congrArg List.head? hd
      simpa [List.head?_drop] using this
    simp [this, Py.Heap.result]

end TonVerif.Proofs.SrcHeap
