/-
The regenerated copy / isolation glue (Generated/HeapSrc.lean, translated from boc/cell.py, boc/slice.py, boc/builder.py on every
run) equals the `derive` transition of the heap model Model/Heap.lean on every well-formed heap.
-/
import TonVerif.Generated.HeapSrc
import TonVerif.Proofs.Heap

set_option linter.unusedSimpArgs false

namespace TonVerif.Proofs.SrcHeap
open TonVerif TonVerif.Model TonVerif.Model.Heap TonVerif.Proofs.Heap TonVerif.Generated.HeapSrc

theorem has_lt {σ : State} {i : Nat} {t : Tag} (h : σ.has i t = true) : i < σ.nObj ∧ (σ.obj i).tag = t := has_iff.1 h

/-- what `derive src .slice` does when `src` is a live cell / slice / builder -/
theorem derive_slice (H) (σ : State) (src : Nat) (h : (σ.has src .cell || σ.has src .slice || σ.has src .builder) = true) :
    step H σ (.derive src .slice) =
      ((((σ.allocB (σ.bitsOf src)).allocR (σ.refsOf src)).push
        { ObjRec.blank with tag := .slice, kind := (σ.obj src).kind, bitsId := σ.nBit, refsId := σ.nRef }), .obj σ.nObj) := by
  simp only [step, h, if_true, freshObj]

theorem Cell_begin_parse_eq (H) (σ : State) (wf : WF σ) (self : Nat) (h : σ.has self .cell = true) :
    Py.Heap.result σ (Cell_begin_parse H σ self) = step H σ (.derive self .slice) := by
  obtain ⟨hi, ht⟩ := has_lt h
  have ho : (σ.obj self).off = 0 := wf.off0 self hi (by rw [ht]; decide)
  rw [derive_slice H σ self (by simp [h])]
  simp only [Cell_begin_parse, Py.Heap.result, Py.Heap.copyBits, Py.Heap.copyRefs, Py.Heap.newSlice, State.allocB, State.allocR,
    State.push, State.bitsOf, State.refsOf, ho, List.drop_zero]

macro "heap_slice" ho:term : tactic =>
  `(tactic| (simp only [Py.Heap.result, Py.Heap.copyBits, Py.Heap.copyRefs, Py.Heap.newSlice, State.allocB, State.allocR,
    State.push, State.bitsOf, State.refsOf, $ho:term, List.drop_zero, Option.bind_some, Option.bind] <;> rfl))
macro "heap_slice0" : tactic =>
  `(tactic| (simp only [Py.Heap.result, Py.Heap.copyBits, Py.Heap.copyRefs, Py.Heap.newSlice, State.allocB, State.allocR,
    State.push, State.bitsOf, State.refsOf, List.drop_zero, Option.bind_some, Option.bind] <;> rfl))

theorem Cell_to_slice_eq (H) (σ : State) (wf : WF σ) (self : Nat) (h : σ.has self .cell = true) :
    Py.Heap.result σ (Cell_to_slice H σ self) = step H σ (.derive self .slice) := by
  rw [← Cell_begin_parse_eq H σ wf self h]
  simp only [Cell_to_slice]
  cases Cell_begin_parse H σ self <;> rfl

theorem Slice_from_cell_eq (H) (σ : State) (wf : WF σ) (self : Nat) (h : σ.has self .cell = true) :
    Py.Heap.result σ (Slice_from_cell H σ self) = step H σ (.derive self .slice) := by
  obtain ⟨hi, ht⟩ := has_lt h
  have ho : (σ.obj self).off = 0 := wf.off0 self hi (by rw [ht]; decide)
  rw [derive_slice H σ self (by simp [h])]
  simp only [Slice_from_cell]
  heap_slice ho

theorem Slice_copy_eq (H) (σ : State) (self : Nat) (h : σ.has self .slice = true) :
    Py.Heap.result σ (Slice_copy H σ self) = step H σ (.derive self .slice) := by
  rw [derive_slice H σ self (by simp [h])]
  simp only [Slice_copy]
  heap_slice0

theorem Builder_to_slice_eq (H) (σ : State) (wf : WF σ) (self : Nat) (h : σ.has self .builder = true) :
    Py.Heap.result σ (Builder_to_slice H σ self) = step H σ (.derive self .slice) := by
  obtain ⟨hi, ht⟩ := has_lt h
  have ho : (σ.obj self).off = 0 := wf.off0 self hi (by rw [ht]; decide)
  rw [derive_slice H σ self (by simp [h])]
  simp only [Builder_to_slice]
  heap_slice ho

/-- what `derive src .cell` does: the constructor runs on the copies -/
theorem derive_cell (H) (σ : State) (src : Nat) (h : (σ.has src .cell || σ.has src .slice || σ.has src .builder) = true) :
    step H σ (.derive src .cell) =
      match mkCellRec H σ σ.nBit σ.nRef (σ.obj src).kind (σ.bitsOf src) (σ.refsOf src) with
      | some c => ((((σ.allocB (σ.bitsOf src)).allocR (σ.refsOf src)).push c), .obj σ.nObj)
      | none => (σ, .err) := by
  simp only [step, h, if_true, freshObj]
  cases hc : mkCellRec H σ σ.nBit σ.nRef (σ.obj src).kind (σ.bitsOf src) (σ.refsOf src) with
  | none => rfl
  | some c =>
    simp only [mkCellRec, Option.map_eq_some_iff] at hc
    obtain ⟨info, _, rfl⟩ := hc
    rfl

/-- the regenerated "copy both, then `Cell(..)`" shape, for an arbitrary list offset `k` -/
theorem copy_then_cell (H) (σ : State) (self k : Nat) :
    Py.Heap.result σ
      ((Py.Heap.newCell? H ((σ.allocB (σ.bitBuf (σ.obj self).bitsId)).allocR ((σ.refBuf (σ.obj self).refsId).drop k)) σ.nBit σ.nRef
        (σ.obj self).kind).bind fun r => some (r.1, r.2)) =
      match mkCellRec H σ σ.nBit σ.nRef (σ.obj self).kind (σ.bitBuf (σ.obj self).bitsId) ((σ.refBuf (σ.obj self).refsId).drop k) with
      | some c => ((((σ.allocB (σ.bitBuf (σ.obj self).bitsId)).allocR ((σ.refBuf (σ.obj self).refsId).drop k)).push c), .obj σ.nObj)
      | none => (σ, .err) := by
  simp only [Py.Heap.newCell?, mkCellRec, State.allocB, State.allocR, if_true]
  cases construct H (σ.obj self).kind (σ.bitBuf (σ.obj self).bitsId)
      (List.map (fun j => (σ.obj j).info) (List.drop k (σ.refBuf (σ.obj self).refsId))) <;> rfl

macro "heap_cell" : tactic =>
  `(tactic| (simp only [Py.Heap.copyBits, Py.Heap.copyRefs, State.allocB, State.allocR, State.bitsOf, State.refsOf] <;> rfl))

theorem Cell_copy_eq (H) (σ : State) (wf : WF σ) (self : Nat) (h : σ.has self .cell = true) :
    Py.Heap.result σ (Cell_copy H σ self) = step H σ (.derive self .cell) := by
  obtain ⟨hi, ht⟩ := has_lt h
  have ho : (σ.obj self).off = 0 := wf.off0 self hi (by rw [ht]; decide)
  rw [derive_cell H σ self (by simp [h])]
  have := copy_then_cell H σ self 0
  simp only [State.bitsOf, State.refsOf, ho]
  rw [← this]
  simp only [Cell_copy]; heap_cell

theorem Builder_end_cell_eq (H) (σ : State) (wf : WF σ) (self : Nat) (h : σ.has self .builder = true) :
    Py.Heap.result σ (Builder_end_cell H σ self) = step H σ (.derive self .cell) := by
  obtain ⟨hi, ht⟩ := has_lt h
  have ho : (σ.obj self).off = 0 := wf.off0 self hi (by rw [ht]; decide)
  rw [derive_cell H σ self (by simp [h])]
  have := copy_then_cell H σ self 0
  simp only [State.bitsOf, State.refsOf, ho]
  rw [← this]
  simp only [Builder_end_cell]; heap_cell

theorem Builder_to_cell_eq (H) (σ : State) (wf : WF σ) (self : Nat) (h : σ.has self .builder = true) :
    Py.Heap.result σ (Builder_to_cell H σ self) = step H σ (.derive self .cell) := by
  rw [← Builder_end_cell_eq H σ wf self h]
  simp only [Builder_to_cell]
  cases Builder_end_cell H σ self <;> rfl

theorem Slice_to_cell_eq (H) (σ : State) (self : Nat) (h : σ.has self .slice = true) :
    Py.Heap.result σ (Slice_to_cell H σ self) = step H σ (.derive self .cell) := by
  rw [derive_cell H σ self (by simp [h])]
  have := copy_then_cell H σ self (σ.obj self).off
  simp only [State.bitsOf, State.refsOf]
  rw [← this]
  simp only [Slice_to_cell]; heap_cell

/-! ### `to_builder`: `Builder()` then `store_cell` / `store_slice` is `derive · builder` -/

theorem state_ext {a b : State} (h1 : a.bitBuf = b.bitBuf) (h2 : a.nBit = b.nBit) (h3 : a.refBuf = b.refBuf) (h4 : a.nRef = b.nRef)
    (h5 : a.obj = b.obj) (h6 : a.nObj = b.nObj) : a = b := by
  cases a; cases b; simp_all

/-- a fresh builder filled from a live cell / slice `self`: raises exactly when `self` has more than 4 references left or more than
1023 bits, and is otherwise a new builder holding COPIES of the remaining bits and references. -/
theorem builder_core (H) (σ : State) (wf : WF σ) (self : Nat) (t : Tag) (ht' : t = .cell ∨ t = .slice) (h : σ.has self t = true) :
    Py.Heap.result σ ((Py.Heap.storeFrom? H (Py.Heap.newBuilder σ).1 (Py.Heap.newBuilder σ).2 self).bind
        fun r => some (r, (Py.Heap.newBuilder σ).2)) =
      if (σ.refsOf self).length > 4 then (σ, .err)
      else if (σ.bitsOf self).length > 1023 then (σ, .err)
      else freshObj σ { ObjRec.blank with tag := .builder } (σ.bitsOf self) (σ.refsOf self) := by
  obtain ⟨hi, ht⟩ := has_lt h
  have hne : self ≠ σ.nObj := Nat.ne_of_lt hi
  have hB : (σ.obj self).bitsId ≠ σ.nBit := Nat.ne_of_lt (wf.idB self hi (by rw [ht]; rcases ht' with rfl | rfl <;> rfl))
  have hR : (σ.obj self).refsId ≠ σ.nRef := Nat.ne_of_lt (wf.idR self hi (by rw [ht]; rcases ht' with rfl | rfl <;> rfl))
  have hub : t ≠ .ubits := by rcases ht' with rfl | rfl <;> decide
  have hcs : (decide (t = .cell) || decide (t = .slice)) = true := by rcases ht' with rfl | rfl <;> decide
  by_cases c1 : (σ.refsOf self).length > 4
  · rw [if_pos c1]
    have c1' : (List.drop (σ.obj self).off (σ.refBuf (σ.obj self).refsId)).length > 4 := c1
    simp only [Py.Heap.storeFrom?, Py.Heap.newBuilder, step, State.has, State.push, State.allocB, State.allocR, State.bitsOf,
      State.refsOf, State.setB, State.setR, hne, if_false, if_true, ht, hub, hcs, Nat.lt_succ_self, decide_true, decide_false,
      Bool.and_self, Bool.true_and, Bool.and_true, Bool.false_eq_true, hB, hR, List.drop_zero, List.length_nil, Nat.zero_add,
      List.nil_append, Nat.lt_succ_of_lt hi, Bool.false_and, ObjRec.blank, if_pos c1']
    rfl
  · rw [if_neg c1]
    have c1' : ¬ (List.drop (σ.obj self).off (σ.refBuf (σ.obj self).refsId)).length > 4 := c1
    by_cases c2 : (σ.bitsOf self).length > 1023
    · rw [if_pos c2]
      have c2' : List.length (σ.bitBuf (σ.obj self).bitsId) > 1023 := c2
      simp only [Py.Heap.storeFrom?, Py.Heap.newBuilder, step, State.has, State.push, State.allocB, State.allocR, State.bitsOf,
        State.refsOf, State.setB, State.setR, hne, if_false, if_true, ht, hub, hcs, Nat.lt_succ_self, decide_true, decide_false,
        Bool.and_self, Bool.true_and, Bool.and_true, Bool.false_eq_true, hB, hR, List.drop_zero, List.length_nil, Nat.zero_add,
        List.nil_append, Nat.lt_succ_of_lt hi, Bool.false_and, ObjRec.blank, if_neg c1', if_pos c2']
      rfl
    · rw [if_neg c2]
      have c2' : ¬ List.length (σ.bitBuf (σ.obj self).bitsId) > 1023 := c2
      simp only [Py.Heap.storeFrom?, Py.Heap.newBuilder, step, State.has, State.push, State.allocB, State.allocR, State.bitsOf,
        State.refsOf, State.setB, State.setR, hne, if_false, if_true, ht, hub, hcs, Nat.lt_succ_self, decide_true, decide_false,
        Bool.and_self, Bool.true_and, Bool.and_true, Bool.false_eq_true, hB, hR, List.drop_zero, List.length_nil, Nat.zero_add,
        List.nil_append, Nat.lt_succ_of_lt hi, Bool.false_and, ObjRec.blank, if_neg c1', if_neg c2', freshObj, Py.Heap.result,
        Option.bind]
      refine Prod.ext (state_ext ?_ rfl ?_ rfl rfl rfl) rfl
      · funext j; by_cases hj : j = σ.nBit <;> simp [hj]
      · funext j; by_cases hj : j = σ.nRef <;> simp [hj]

theorem derive_builder (H) (σ : State) (_wf : WF σ) (src : Nat) (t : Tag) (ht' : t = .cell ∨ t = .slice) (h : σ.has src t = true) :
    step H σ (.derive src .builder) =
      if (σ.obj src).kind != -1 then (σ, .err)
      else if (σ.refsOf src).length > 4 then (σ, .err)
      else if (σ.bitsOf src).length > 1023 then (σ, .err)
      else freshObj σ { ObjRec.blank with tag := .builder } (σ.bitsOf src) (σ.refsOf src) := by
  obtain ⟨hi, ht⟩ := has_lt h
  have hb : σ.has src .builder = false := by
    simp only [State.has, ht]; rcases ht' with rfl | rfl <;> simp
  have hsrc : (σ.has src .cell || σ.has src .slice || σ.has src .builder) = true := by
    rcases ht' with rfl | rfl <;> simp [h]
  have hsrc2 : (σ.has src .cell || σ.has src .slice) = true := by
    rcases ht' with rfl | rfl <;> simp [h]
  simp only [step, hb, Bool.or_false, hsrc2, if_true, Bool.false_or]
  cases hk : ((σ.obj src).kind != -1) <;> by_cases c1 : (σ.refsOf src).length > 4 <;>
    by_cases c2 : (σ.bitsOf src).length > 1023 <;>
    simp only [c1, c2, decide_true, decide_false, Bool.or_true, Bool.or_false, Bool.false_or, Bool.true_or, if_true, if_false,
      Bool.false_eq_true, Bool.or_self]

/-! ## loads and stores (session 5): the regenerated mutating methods are the model's own transitions -/

/-- `Builder.store_ref(ref)` = the model's `storeRef`: raises exactly when the builder's list already has 4 entries, otherwise the
builder's OWN list container gets the very object `ref` appended in place; nothing else changes. -/
theorem Builder_store_ref_eq (H) (σ : State) (wf : WF σ) (self ref : Nat) (h : σ.has self .builder = true) (hc : σ.has ref .cell = true) :
    Py.Heap.resultUnit σ (Builder_store_ref H σ self ref) = step H σ (.storeRef self ref) := by
  obtain ⟨hi, ht⟩ := has_lt h
  have ho : (σ.obj self).off = 0 := wf.off0 self hi (by rw [ht]; decide)
  simp only [step, h, hc, Bool.and_self, if_true, Builder_store_ref, State.refsOf, ho, List.drop_zero, decide_eq_true_eq]
  by_cases hl : (σ.refBuf (σ.obj self).refsId).length ≥ 4
  · simp [hl, Py.Heap.resultUnit]
  · simp [hl, Py.Heap.resultUnit, Py.Heap.appendRef]

/-- `Slice.load_ref()` = the model's `loadRef`: IndexError exactly when no reference remains, otherwise `ref_offset` is bumped and the
result is the very Cell object stored in the list (no copy); no container changes. -/
theorem Slice_load_ref_eq (H) (σ : State) (self : Nat) (h : σ.has self .slice = true) :
    Py.Heap.result σ (Slice_load_ref H σ self) = step H σ (.loadRef self) := by
  simp only [step, h, if_true, Slice_load_ref, State.refsOf, Py.Heap.refAt?, Py.Heap.setOff]
  cases hd : (σ.refBuf (σ.obj self).refsId).drop (σ.obj self).off with
  | nil =>
    have : (σ.refBuf (σ.obj self).refsId)[(σ.obj self).off]? = none := by
      have := congrArg List.head? hd
      simpa [List.head?_drop] using this
    simp [this, Py.Heap.result]
  | cons c cs =>
    have : (σ.refBuf (σ.obj self).refsId)[(σ.obj self).off]? = some c := by
      have := congrArg List.head? hd
      simpa [List.head?_drop] using this
    simp [this, Py.Heap.result]

/-! ## bit-moving loads and stores (session 5, heapsrc2) -/

/-- `Builder.store_bits(bits)` = the model's `storeBits` with the items of `bits`: raises exactly when the builder's array would exceed
1023 bits, otherwise the builder's OWN bit container is extended in place; the argument is only read. -/
theorem Builder_store_bits_eq (H) (σ : State) (self : Nat) (bs : Bits) (h : σ.has self .builder = true) :
    Py.Heap.resultUnit σ (Builder_store_bits H σ self bs) = step H σ (.storeBits self bs) := by
  simp only [step, h, if_true, Builder_store_bits, Py.Heap.extendBits?, State.bitsOf]
  by_cases hl : (σ.bitBuf (σ.obj self).bitsId).length + bs.length > 1023
  · simp [hl, Py.Heap.resultUnit]
  · simp [hl, Py.Heap.resultUnit]

/-- `store_bits(array)` with an array object the caller holds = the model's `storeFrom · <ubits>` -/
theorem Builder_store_bits_array_eq (H) (σ : State) (self src : Nat) (h : σ.has self .builder = true) (hs : σ.has src .ubits = true) :
    Py.Heap.resultUnit σ (Builder_store_bits H σ self (σ.bitsOf src)) = step H σ (.storeFrom self src) := by
  simp only [step, h, hs, if_true, Builder_store_bits, Py.Heap.extendBits?, State.bitsOf]
  by_cases hl : (σ.bitBuf (σ.obj self).bitsId).length + (σ.bitBuf (σ.obj src).bitsId).length > 1023
  · simp [hl, Py.Heap.resultUnit]
  · simp [hl, Py.Heap.resultUnit]

/-- `Builder.store_uint(value, size)`: `int2ba` raises or yields the encoding `e`; then it is the model's `storeBits · e`. -/
theorem Builder_store_uint_eq (H) (σ : State) (self : Nat) (v : Int) (n : Nat) (h : σ.has self .builder = true) :
    Py.Heap.resultUnit σ (Builder_store_uint H σ self v n) =
      match Py.Heap.int2baU? v n with
      | none => (σ, .err)
      | some e => step H σ (.storeBits self e) := by
  cases he : Py.Heap.int2baU? v n with
  | none => simp [Builder_store_uint, he, Py.Heap.resultUnit]
  | some e =>
    show _ = step H σ (.storeBits self e)
    rw [← Builder_store_bits_eq H σ self e h]
    simp only [Builder_store_uint, he, Option.bind_some, Builder_store_bits]

/-- `Builder.store_cell(cell)` = the model's `storeFrom`: references overflow checked first, then the bits overflow; then the builder's
OWN array gets the cell's bits and its OWN list the ELEMENTS of the cell's list - neither of the cell's containers is kept. -/
theorem Builder_store_cell_core (H) (σ : State) (self cell : Nat) (h : σ.has self .builder = true) (hc : σ.has cell .cell = true)
    (ho : (σ.obj self).off = 0) (hco : (σ.obj cell).off = 0) :
    Py.Heap.resultUnit σ (Builder_store_cell H σ self cell) = step H σ (.storeFrom self cell) := by
  obtain ⟨hci, hct⟩ := has_lt hc
  have hu : σ.has cell .ubits = false := by simp [State.has, hct]
  simp only [step, h, hc, hu, if_true, Bool.true_or, Bool.false_eq_true, if_false, Builder_store_cell, Builder_store_bits,
    Py.Heap.extendBits?, Py.Heap.extendRefs, State.bitsOf, State.refsOf, ho, hco, List.drop_zero, decide_eq_true_eq]
  by_cases h1 : (σ.refBuf (σ.obj self).refsId).length + (σ.refBuf (σ.obj cell).refsId).length > 4
  · simp [h1, Py.Heap.resultUnit]
  · by_cases h2 : (σ.bitBuf (σ.obj self).bitsId).length + (σ.bitBuf (σ.obj cell).bitsId).length > 1023
    · simp [h1, h2, Py.Heap.resultUnit]
    · simp [h1, h2, Py.Heap.resultUnit, State.setB, State.setR]

theorem Builder_store_cell_eq (H) (σ : State) (wf : WF σ) (self cell : Nat) (h : σ.has self .builder = true) (hc : σ.has cell .cell = true) :
    Py.Heap.resultUnit σ (Builder_store_cell H σ self cell) = step H σ (.storeFrom self cell) := by
  obtain ⟨hi, ht⟩ := has_lt h
  obtain ⟨hci, hct⟩ := has_lt hc
  exact Builder_store_cell_core H σ self cell h hc (wf.off0 self hi (by rw [ht]; decide)) (wf.off0 cell hci (by rw [hct]; decide))

/-- `store_cell` returns its receiver -/
theorem Builder_store_cell_ret (H) (σ σ' : State) (b c r : Nat) (h : Builder_store_cell H σ b c = some (σ', r)) : r = b := by
  simp only [Builder_store_cell, Builder_store_bits] at h
  split at h
  · cases h
  · cases he : Py.Heap.extendBits? σ (σ.obj b).bitsId (σ.bitBuf (σ.obj c).bitsId) with
    | none => simp [he] at h
    | some s => simp [he] at h; exact h.2.symm

/-- `Slice.preload_bits(n)` = the model's `peekBits`: a NEW array with the first `n` bits; the slice is untouched. -/
theorem Slice_preload_bits_eq (H) (σ : State) (self n : Nat) (h : σ.has self .slice = true) :
    Py.Heap.resultBits σ (Slice_preload_bits H σ self n) = step H σ (.peekBits self n) := by
  simp only [step, h, if_true, Slice_preload_bits, Py.Heap.sliceBits, Py.Heap.resultBits, State.bitsOf, State.allocB, State.push]
  rfl

/-- `Slice.skip_bits(n)` = the model's `dropBits · n false`: raises (nothing deleted) when fewer than `n` bits remain, otherwise the
first `n` bits are deleted from the slice's OWN array in place. -/
theorem Slice_skip_bits_eq (H) (σ : State) (self n : Nat) (h : σ.has self .slice = true) :
    Py.Heap.resultDrop σ ((σ.bitsOf self).take n) (Slice_skip_bits H σ self n) = step H σ (.dropBits self n false) := by
  simp only [step, h, if_true, Slice_skip_bits, Py.Heap.delBits?, State.bitsOf]
  by_cases hl : n > (σ.bitBuf (σ.obj self).bitsId).length
  · have : (σ.bitBuf (σ.obj self).bitsId).length < n := hl
    simp [hl, this, Py.Heap.resultDrop]
  · have : ¬ (σ.bitBuf (σ.obj self).bitsId).length < n := hl
    simp [hl, this, Py.Heap.resultDrop]

/-- `Slice.load_uint(0)` raises (`ba2int` of an empty array) -/
theorem Slice_load_uint_zero (H) (σ : State) (self : Nat) : Slice_load_uint H σ self 0 = none := by
  simp [Slice_load_uint, Slice_preload_uint, Py.Heap.ba2intU?]

/-- `Slice.load_uint(n)`, `n ≥ 1` = the model's `dropBits · n false`; the int returned is `ba2int` of the consumed bits. -/
theorem Slice_load_uint_eq (H) (σ : State) (self n : Nat) (hn : 1 ≤ n) (h : σ.has self .slice = true) :
    Py.Heap.resultDrop σ ((σ.bitsOf self).take n) (Slice_load_uint H σ self n) = step H σ (.dropBits self n false) ∧
    ∀ σ' v, Slice_load_uint H σ self n = some (σ', v) → Py.Heap.ba2intU? ((σ.bitsOf self).take n) = some v := by
  constructor
  · simp only [step, h, if_true, Slice_load_uint, Slice_preload_uint, Py.Heap.delBits?, Py.Heap.ba2intU?, State.bitsOf]
    by_cases hl : n > (σ.bitBuf (σ.obj self).bitsId).length
    · have h2 : (σ.bitBuf (σ.obj self).bitsId).length < n := hl
      by_cases he : (List.take n (σ.bitBuf (σ.obj self).bitsId)).isEmpty = true <;> simp [hl, h2, he, Py.Heap.resultDrop]
    · have h2 : ¬ (σ.bitBuf (σ.obj self).bitsId).length < n := hl
      have he : (List.take n (σ.bitBuf (σ.obj self).bitsId)).isEmpty = false := by
        cases hb : σ.bitBuf (σ.obj self).bitsId with
        | nil => simp [hb] at hl; omega
        | cons b bs => cases n with
          | zero => omega
          | succ m => simp
      simp [hl, h2, he, Py.Heap.resultDrop]
  · intro σ' v hv
    simp only [Slice_load_uint, Slice_preload_uint, State.bitsOf] at hv ⊢
    cases hb : Py.Heap.ba2intU? (List.take n (σ.bitBuf (σ.obj self).bitsId)) with
    | none => simp [hb] at hv
    | some w =>
      simp only [hb, Option.bind_some] at hv
      cases hd : Py.Heap.delBits? σ (σ.obj self).bitsId n with
      | none => simp [hd] at hv
      | some σ2 => simp only [hd, Option.bind_some, Option.some.injEq, Prod.mk.injEq] at hv; rw [hv.2]

/-- `Slice.load_bits(n)` = the model's `dropBits · n true`: a NEW array with the first `n` bits is returned and the slice's OWN array
loses them in place; raises (nothing changed) when fewer than `n` bits remain. -/
theorem Slice_load_bits_eq (H) (σ : State) (wf : WF σ) (self n : Nat) (h : σ.has self .slice = true) :
    Py.Heap.resultBits σ (Slice_load_bits H σ self n) = step H σ (.dropBits self n true) := by
  obtain ⟨hi, ht⟩ := has_lt h
  have hB : (σ.obj self).bitsId ≠ σ.nBit := Nat.ne_of_lt (wf.idB self hi (by rw [ht]; rfl))
  simp only [step, h, if_true, Slice_load_bits, Slice_preload_bits, Py.Heap.sliceBits, Py.Heap.delBits?, State.bitsOf, State.allocB,
    Option.bind_some, hB, if_false]
  by_cases hl : n > (σ.bitBuf (σ.obj self).bitsId).length
  · have h2 : (σ.bitBuf (σ.obj self).bitsId).length < n := hl
    simp [hl, h2, Py.Heap.resultBits]
  · have h2 : ¬ (σ.bitBuf (σ.obj self).bitsId).length < n := hl
    simp only [hl, h2, if_false, Option.bind_some, Py.Heap.resultBits, State.setB, State.push, State.allocB]
    refine Prod.ext (state_ext ?_ rfl rfl rfl rfl rfl) rfl
    funext j
    by_cases hj : j = σ.nBit
    · subst hj; simp [Ne.symm hB]
    · by_cases hj2 : j = (σ.obj self).bitsId
      · subst hj2; simp [hB]
      · simp [hj, hj2]

/-- the loop of `store_slice`: `n` rounds of `self.store_ref(src.refs[i])` from index `i`, when the builder's list `R` is not the
source list `S`, there is room for `n` more entries and the source list has them: the builder's list gets exactly the `n` ELEMENTS
`S[i], .., S[i+n-1]` appended in place; nothing else changes. -/
theorem store_loop (H) (self src : Nat) (n : Nat) : ∀ (i : Nat) (τ : State),
    (τ.obj self).refsId ≠ (τ.obj src).refsId →
    (τ.refBuf (τ.obj self).refsId).length + n ≤ 4 → (n = 0 ∨ i + n ≤ (τ.refBuf (τ.obj src).refsId).length) →
    Py.Heap.forFuel n i τ (fun i τ => (Py.Heap.refAt? τ (τ.obj src).refsId i).bind fun c =>
        (Builder_store_ref H τ self c).bind fun r => some r.1) =
      some (τ.setR (τ.obj self).refsId (τ.refBuf (τ.obj self).refsId ++ ((τ.refBuf (τ.obj src).refsId).drop i).take n)) := by
  induction n with
  | zero =>
    intro i τ _ _ _
    simp only [Py.Heap.forFuel, List.take_zero, List.append_nil]
    congr 1
    exact state_ext (by funext j; by_cases hj : j = (τ.obj self).refsId <;> simp [State.setR, hj]) rfl
      (by funext j; by_cases hj : j = (τ.obj self).refsId <;> simp [State.setR, hj]) rfl rfl rfl
  | succ n ih =>
    intro i τ hne hroom hlen
    have hlen : i + (n + 1) ≤ (τ.refBuf (τ.obj src).refsId).length := by omega
    have hi : i < (τ.refBuf (τ.obj src).refsId).length := by omega
    have hget : (τ.refBuf (τ.obj src).refsId)[i]? = some (τ.refBuf (τ.obj src).refsId)[i] := List.getElem?_eq_getElem hi
    have hroom' : ¬ (τ.refBuf (τ.obj self).refsId).length ≥ 4 := by omega
    have hstep : ((Py.Heap.refAt? τ (τ.obj src).refsId i).bind fun c => (Builder_store_ref H τ self c).bind fun r => some r.1) =
        some (τ.setR (τ.obj self).refsId (τ.refBuf (τ.obj self).refsId ++ [(τ.refBuf (τ.obj src).refsId)[i]])) := by
      simp [Py.Heap.refAt?, hget, Builder_store_ref, hroom', Py.Heap.appendRef]
    simp only [Py.Heap.forFuel]
    rw [hstep, Option.bind_some]
    have hne' : (τ.obj src).refsId ≠ (τ.obj self).refsId := Ne.symm hne
    rw [ih (i + 1) _ (by simpa [State.setR] using hne) (by simp [State.setR]; omega) (Or.inr (by simp [State.setR, hne']; omega))]
    congr 1
    have hdrop : (τ.refBuf (τ.obj src).refsId).drop i = (τ.refBuf (τ.obj src).refsId)[i] :: (τ.refBuf (τ.obj src).refsId).drop (i + 1) :=
      List.drop_eq_getElem_cons hi
    have htk : List.take (n + 1) ((τ.refBuf (τ.obj src).refsId).drop i) =
        (τ.refBuf (τ.obj src).refsId)[i] :: List.take n ((τ.refBuf (τ.obj src).refsId).drop (i + 1)) := by
      rw [hdrop, List.take_succ_cons]
    refine state_ext rfl rfl ?_ rfl rfl rfl
    funext j
    by_cases hj : j = (τ.obj self).refsId
    · subst hj; simp [State.setR, hne', htk]
    · simp [State.setR, hj]

/-- `Builder.store_slice(s)` = the model's `storeFrom`: references overflow (against the REMAINING references `len(refs) - ref_offset`)
checked first, then the bits overflow; then the builder's OWN array gets the slice's remaining bits and its OWN list the remaining
ELEMENTS `refs[ref_offset:]` one by one - neither of the slice's containers is kept.  Needs: the builder's list is not the slice's
list (`Sep`; in `to_builder` the builder is new); `ref_offset ≤ len(refs)` is `WF.offLe` (`load_ref` never moves past the end). -/
theorem Builder_store_slice_core (H) (σ : State) (self src : Nat) (h : σ.has self .builder = true) (hs : σ.has src .slice = true)
    (ho : (σ.obj self).off = 0) (hne : (σ.obj self).refsId ≠ (σ.obj src).refsId)
    (hoff : (σ.obj src).off ≤ (σ.refBuf (σ.obj src).refsId).length ∨ (σ.refBuf (σ.obj self).refsId).length = 0) :
    Py.Heap.resultUnit σ (Builder_store_slice H σ self src) = step H σ (.storeFrom self src) := by
  obtain ⟨hsi, hst⟩ := has_lt hs
  have hu : σ.has src .ubits = false := by simp [State.has, hst]
  simp only [step, h, hs, hu, if_true, Bool.or_true, Bool.false_eq_true, if_false, State.bitsOf, State.refsOf, ho, List.drop_zero,
    List.length_drop]
  by_cases h1 : (σ.refBuf (σ.obj self).refsId).length + ((σ.refBuf (σ.obj src).refsId).length - (σ.obj src).off) > 4
  · have h1' : (((σ.refBuf (σ.obj self).refsId).length : Nat) : Int) +
        ((((σ.refBuf (σ.obj src).refsId).length : Nat) : Int) - (((σ.obj src).off : Nat) : Int)) > (4 : Int) := by omega
    simp [Builder_store_slice, h1, h1', Py.Heap.resultUnit]
  · have h1' : ¬ (((σ.refBuf (σ.obj self).refsId).length : Nat) : Int) +
        ((((σ.refBuf (σ.obj src).refsId).length : Nat) : Int) - (((σ.obj src).off : Nat) : Int)) > (4 : Int) := by omega
    by_cases h2 : (σ.bitBuf (σ.obj self).bitsId).length + (σ.bitBuf (σ.obj src).bitsId).length > 1023
    · simp [Builder_store_slice, Builder_store_bits, Py.Heap.extendBits?, h1, h1', h2, Py.Heap.resultUnit]
    · have hl := store_loop H self src ((σ.refBuf (σ.obj src).refsId).length - (σ.obj src).off) (σ.obj src).off
        (σ.setB (σ.obj self).bitsId (σ.bitBuf (σ.obj self).bitsId ++ σ.bitBuf (σ.obj src).bitsId))
        (by simpa [State.setB] using hne) (by simp [State.setB]; omega) (by simp [State.setB]; omega)
      simp only [Builder_store_slice, Builder_store_bits, Py.Heap.extendBits?, h1, h1', h2, decide_false, Bool.false_eq_true, if_false,
        Option.bind_some, Py.Heap.forRange]
      simp only [State.setB] at hl ⊢
      rw [hl]
      simp only [Option.bind_some, Py.Heap.resultUnit, State.setR]
      refine Prod.ext (state_ext rfl rfl ?_ rfl rfl rfl) rfl
      funext j
      by_cases hj : j = (σ.obj self).refsId
      · simp [hj, List.take_of_length_le]
      · simp [hj]

theorem Builder_store_slice_eq (H) (σ : State) (wf : WF σ) (self src : Nat) (h : σ.has self .builder = true) (hs : σ.has src .slice = true)
    (hne : (σ.obj self).refsId ≠ (σ.obj src).refsId) :
    Py.Heap.resultUnit σ (Builder_store_slice H σ self src) = step H σ (.storeFrom self src) := by
  obtain ⟨hi, ht⟩ := has_lt h
  exact Builder_store_slice_core H σ self src h hs (wf.off0 self hi (by rw [ht]; decide)) hne (Or.inl (wf.offLe src (has_lt hs).1))

/-- `store_slice` returns its receiver -/
theorem Builder_store_slice_ret (H) (σ σ' : State) (b c r : Nat) (h : Builder_store_slice H σ b c = some (σ', r)) : r = b := by
  simp only [Builder_store_slice, Builder_store_bits] at h
  split at h
  · cases h
  · cases he : Py.Heap.extendBits? σ (σ.obj b).bitsId (σ.bitBuf (σ.obj c).bitsId) with
    | none => simp [he] at h
    | some s =>
      simp only [he, Option.bind_some] at h
      generalize Py.Heap.forRange _ _ _ _ = q at h
      cases q with
      | none => simp at h
      | some t => simp at h; exact h.2.symm

/-! ### `to_builder`: `Builder()` then the REGENERATED `store_cell` / `store_slice` is `derive · builder` -/

/-- a regenerated receiver-returning store that equals the model's `storeFrom`, used as the primitive `storeFrom?` -/
theorem bind_as_prim (H) (σ : State) (b c : Nat) (f : Option (State × Nat)) (hr : ∀ σ' r, f = some (σ', r) → r = b)
    (he : Py.Heap.resultUnit σ f = step H σ (.storeFrom b c)) :
    (f.bind fun r => some (r.1, r.2)) = (Py.Heap.storeFrom? H σ b c).bind fun r => some (r, b) := by
  unfold Py.Heap.storeFrom?
  rw [← he]
  cases f with
  | none => simp [Py.Heap.resultUnit]
  | some p =>
    obtain ⟨σ', r⟩ := p
    have := hr σ' r rfl
    subst this
    simp [Py.Heap.resultUnit]

theorem Cell_to_builder_eq (H) (σ : State) (wf : WF σ) (self : Nat) (h : σ.has self .cell = true) :
    Py.Heap.result σ (Cell_to_builder H σ self) = step H σ (.derive self .builder) := by
  rw [derive_builder H σ wf self .cell (Or.inl rfl) h, ← builder_core H σ wf self .cell (Or.inl rfl) h]
  obtain ⟨hi, ht⟩ := has_lt h
  have hne : self ≠ σ.nObj := Nat.ne_of_lt hi
  have hb1 : (Py.Heap.newBuilder σ).1.has (Py.Heap.newBuilder σ).2 .builder = true := by
    simp [Py.Heap.newBuilder, State.has, State.push, State.allocB, State.allocR]
  have hc1 : (Py.Heap.newBuilder σ).1.has self .cell = true := by
    simp [Py.Heap.newBuilder, State.has, State.push, State.allocB, State.allocR, hne, ht]; exact decide_eq_true (Nat.lt_succ_of_lt hi)
  have core := Builder_store_cell_core H (Py.Heap.newBuilder σ).1 (Py.Heap.newBuilder σ).2 self hb1 hc1
    (by simp [Py.Heap.newBuilder, State.push, State.allocB, State.allocR, ObjRec.blank])
    (by simpa [Py.Heap.newBuilder, State.push, State.allocB, State.allocR, hne] using wf.off0 self hi (by rw [ht]; decide))
  have prim := bind_as_prim H _ _ _ _ (fun σ' r => Builder_store_cell_ret H _ σ' _ _ r) core
  simp only [Cell_to_builder]
  by_cases c0 : ((σ.obj self).kind != -1) = true
  · simp [c0, Py.Heap.result]
  · simp only [c0]; exact congrArg (Py.Heap.result σ) prim

theorem Slice_to_builder_eq (H) (σ : State) (wf : WF σ) (self : Nat) (h : σ.has self .slice = true) :
    Py.Heap.result σ (Slice_to_builder H σ self) = step H σ (.derive self .builder) := by
  rw [derive_builder H σ wf self .slice (Or.inr rfl) h, ← builder_core H σ wf self .slice (Or.inr rfl) h]
  obtain ⟨hi, ht⟩ := has_lt h
  have hne : self ≠ σ.nObj := Nat.ne_of_lt hi
  have hR : (σ.obj self).refsId ≠ σ.nRef := Nat.ne_of_lt (wf.idR self hi (by rw [ht]; rfl))
  have hb1 : (Py.Heap.newBuilder σ).1.has (Py.Heap.newBuilder σ).2 .builder = true := by
    simp [Py.Heap.newBuilder, State.has, State.push, State.allocB, State.allocR]
  have hc1 : (Py.Heap.newBuilder σ).1.has self .slice = true := by
    simp [Py.Heap.newBuilder, State.has, State.push, State.allocB, State.allocR, hne, ht]; exact decide_eq_true (Nat.lt_succ_of_lt hi)
  have core := Builder_store_slice_core H (Py.Heap.newBuilder σ).1 (Py.Heap.newBuilder σ).2 self hb1 hc1
    (by simp [Py.Heap.newBuilder, State.push, State.allocB, State.allocR, ObjRec.blank])
    (by simp [Py.Heap.newBuilder, State.push, State.allocB, State.allocR, hne]; exact Ne.symm hR)
    (Or.inr (by simp [Py.Heap.newBuilder, State.push, State.allocB, State.allocR]))
  have prim := bind_as_prim H _ _ _ _ (fun σ' r => Builder_store_slice_ret H _ σ' _ _ r) core
  simp only [Slice_to_builder]
  by_cases c0 : (σ.obj self).kind = -1
  · simp only [c0]; exact congrArg (Py.Heap.result σ) prim
  · have : ((σ.obj self).kind != -1) = true := by simpa using c0
    simp [c0, this, Py.Heap.result]

/-! ### `Cell.get_data_bytes`: the heap-touching helper of `Cell.__init__` reads only -/

/-- `Cell.get_data_bytes()` pads a COPY: it allocates one scratch array and leaves every existing bit container (in particular the one
`self.bits` points to - the caller's own array for `Cell(bits, refs)`), every list and every object record as they were. -/
theorem Cell_get_data_bytes_frame (H) (σ : State) (self : Nat) :
    ∃ σ' v, Cell_get_data_bytes H σ self = some (σ', v) ∧
      (∀ j, j < σ.nBit → σ'.bitBuf j = σ.bitBuf j) ∧ σ'.refBuf = σ.refBuf ∧ σ'.obj = σ.obj ∧ σ'.nObj = σ.nObj ∧ σ'.nRef = σ.nRef ∧
      σ'.nBit = σ.nBit + 1 ∧ v = bitsToBytes (σ'.bitBuf σ.nBit) := by
  unfold Cell_get_data_bytes
  refine ⟨_, _, rfl, ?_, ?_, ?_, ?_, ?_, ?_, ?_⟩ <;>
    by_cases hc : (σ.bitBuf (σ.obj self).bitsId).length % 8 ≠ 0 <;>
    simp [Py.Heap.copyBits, Py.Heap.appendBit, Py.Heap.fillBits, State.allocB, State.setB, hc]
  all_goals (intro j hj; have : j ≠ σ.nBit := by omega
             simp [this])

/-- the scratch run of `get_data_bytes` leaves the heap exactly as it was -/
theorem scratch_get_data_bytes (H) (σ : State) (self : Nat) : Py.Heap.scratch σ (Cell_get_data_bytes H σ self) = some σ := by
  obtain ⟨σ', v, h0, h1, h2, h3, h4, h5, _, _⟩ := Cell_get_data_bytes_frame H σ self
  rw [h0]
  simp only [Py.Heap.scratch, Option.map_some, Option.some.injEq, Py.Heap.dropScratch]
  refine state_ext ?_ rfl h2 h5 h3 h4
  funext j
  by_cases hj : j < σ.nBit
  · simp [hj, h1 j hj]
  · simp [hj]

/-- `Cell(bits, refs, cell_type)` - the regenerated `__init__` - is the model's `cellCtor`: the new cell points at the caller's OWN two
containers, its caches are fresh values, nothing that existed is changed; it raises exactly when the constructor refuses the content. -/
theorem Cell___init___eq (H) (σ : State) (ub ur : Nat) (kind : Int) (hb : σ.has ub .ubits = true) (hr : σ.has ur .urefs = true) :
    Py.Heap.result σ (Cell___init__ H σ (σ.obj ub).bitsId (σ.obj ur).refsId kind) = step H σ (.cellCtor ub ur kind) := by
  simp only [step, hb, hr, Bool.and_self, if_true, Cell___init__, Py.Heap.newCell?]
  cases hm : mkCellRec H σ (σ.obj ub).bitsId (σ.obj ur).refsId kind (σ.bitBuf (σ.obj ub).bitsId) (σ.refBuf (σ.obj ur).refsId) with
  | none => simp [Py.Heap.result]
  | some c => simp [Py.Heap.result, scratch_get_data_bytes]

end TonVerif.Proofs.SrcHeap
