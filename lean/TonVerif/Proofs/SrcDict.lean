/-
Generation-independent lemmas about the built-ins of TonVerif/PyDict.lean (the translator's reading of Python dicts / sets
keyed by objects, `list.pop()`, `while`): how the insertion-ordered association list relates to the hash map / hash set + key
list of the hand models (`MapSim`, `SetSim`), that the dict operations keep the keys pairwise distinct (`NodupKeys`), and the
`foldlM` forms of the loops that the regenerated emitter (Generated/BocEmitSrc.lean) contains.
-/
import TonVerif.PyDict
import TonVerif.Basic
import Std.Data.HashMap
import Std.Data.HashSet

namespace TonVerif.Proofs.SrcDict
open TonVerif

variable {α V σ : Type}

/-! ### dict ~ hash map -/

/-- lookup by key value in the association list -/
def lookup (key : α → Nat) (k : Nat) : Py.KDict α V → Option V
  | [] => none
  | e :: d => if key e.1 = k then some e.2 else lookup key k d

theorem dictGet_eq_lookup (key : α → Nat) (c : α) (d : Py.KDict α V) : Py.dictGet? key d c = lookup key (key c) d := by
  induction d with
  | nil => rfl
  | cons e d ih =>
    unfold Py.dictGet? at ih ⊢
    by_cases h : key e.1 = key c <;> simp [lookup, h, ih]

theorem dictHas_eq_lookup (key : α → Nat) (c : α) (d : Py.KDict α V) : Py.dictHas key d c = (lookup key (key c) d).isSome := by
  induction d with
  | nil => rfl
  | cons e d ih =>
    unfold Py.dictHas at ih ⊢
    by_cases h : key e.1 = key c <;> simp [lookup, h, ih]

theorem lookup_map_set (key : α → Nat) (c : α) (v : V) (k : Nat) (d : Py.KDict α V) :
    lookup key k (d.map (fun e => if key e.1 == key c then (e.1, v) else e)) =
      if k = key c then (if (lookup key k d).isSome then some v else none) else lookup key k d := by
  induction d with
  | nil => simp [lookup]
  | cons e d ih =>
    by_cases he : key e.1 = key c <;> by_cases hk : k = key c <;> by_cases h2 : key e.1 = k <;>
      simp_all [lookup] <;> grind

theorem lookup_append (key : α → Nat) (c : α) (v : V) (k : Nat) (d : Py.KDict α V) :
    lookup key k (d ++ [(c, v)]) = match lookup key k d with | some x => some x | none => if key c = k then some v else none := by
  induction d with
  | nil => simp [lookup]
  | cons e d ih => by_cases h2 : key e.1 = k <;> simp [lookup, h2, ih]

/-- the association list `d` and the hash map `m` answer every lookup alike -/
def MapSim (key : α → Nat) (d : Py.KDict α V) (m : Std.HashMap Nat V) : Prop := ∀ k, m[k]? = lookup key k d

theorem mapSim_empty (key : α → Nat) : MapSim key ([] : Py.KDict α V) ∅ := by
  intro k; simp [lookup]

theorem mapSim_get {key : α → Nat} {d : Py.KDict α V} {m : Std.HashMap Nat V} (h : MapSim key d m) (c : α) :
    Py.dictGet? key d c = m[key c]? := by
  rw [h, dictGet_eq_lookup]

theorem mapSim_set {key : α → Nat} {d : Py.KDict α V} {m : Std.HashMap Nat V} (h : MapSim key d m) (c : α) (v : V) :
    MapSim key (Py.dictSet key d c v) (m.insert (key c) v) := by
  intro k
  rw [Std.HashMap.getElem?_insert, h k]
  unfold Py.dictSet
  rw [dictHas_eq_lookup]
  cases hl : lookup key (key c) d with
  | none =>
    simp only [Option.isSome_none, Bool.false_eq_true, if_false]
    rw [lookup_append]
    by_cases hk : key c = k
    · subst hk; simp [hl]
    · simp only [beq_iff_eq, hk, if_false]
      cases lookup key k d <;> rfl
  | some x =>
    simp only [Option.isSome_some, if_true]
    rw [lookup_map_set]
    by_cases hk : key c = k
    · subst hk; simp [hl]
    · have : ¬ k = key c := fun h => hk h.symm
      simp [hk, this]

theorem mapSim_foldl {key : α → Nat} {β : Type} (fk : β → α) (fv : β → V) : ∀ (xs : List β) (d : Py.KDict α V)
    (m : Std.HashMap Nat V), MapSim key d m →
    MapSim key (xs.foldl (fun d x => Py.dictSet key d (fk x) (fv x)) d) (xs.foldl (fun m x => m.insert (key (fk x)) (fv x)) m)
  | [], _, _, h => h
  | x :: xs, d, m, h => mapSim_foldl fk fv xs _ _ (mapSim_set h (fk x) (fv x))

/-! ### keys pairwise distinct -/

def NodupKeys (key : α → Nat) (d : Py.KDict α V) : Prop := (d.map (fun e => key e.1)).Nodup

theorem dictHas_iff (key : α → Nat) (d : Py.KDict α V) (c : α) :
    Py.dictHas key d c = true ↔ key c ∈ d.map (fun e => key e.1) := by
  simp only [Py.dictHas, List.any_eq_true, List.mem_map, beq_iff_eq]

theorem filter_keys (key : α → Nat) (c : α) (d : Py.KDict α V) :
    (d.filter (fun e => key e.1 != key c)).map (fun e => key e.1) = (d.map (fun e => key e.1)).filter (fun k => k != key c) := by
  induction d with
  | nil => rfl
  | cons e d ih => by_cases he : key e.1 = key c <;> simp [he, ih]

theorem dictSet_absent (key : α → Nat) (d : Py.KDict α V) (c : α) (v : V) (h : Py.dictHas key d c = false) :
    Py.dictSet key d c v = d ++ [(c, v)] := by
  simp [Py.dictSet, h]

theorem nodupKeys_append (key : α → Nat) (d : Py.KDict α V) (c : α) (v : V) (nd : NodupKeys key d)
    (h : Py.dictHas key d c = false) : NodupKeys key (d ++ [(c, v)]) := by
  unfold NodupKeys at *
  rw [List.map_append, List.nodup_append]
  refine ⟨nd, by simp, ?_⟩
  intro a ha b hb
  simp only [List.map_cons, List.map_nil, List.mem_singleton] at hb
  subst hb
  intro hab
  subst hab
  have := (dictHas_iff key d c).2 ha
  rw [h] at this; cases this

/-- `if k in d: d.pop(k)` then `d[k] = v`: the entry moves to the end -/
def moveToEnd (key : α → Nat) (d : Py.KDict α V) (c : α) (v : V) : Py.KDict α V :=
  d.filter (fun e => key e.1 != key c) ++ [(c, v)]

theorem dictHas_filter (key : α → Nat) (d : Py.KDict α V) (c : α) :
    Py.dictHas key (d.filter (fun e => key e.1 != key c)) c = false := by
  simp [Py.dictHas, List.any_eq_false]

theorem filter_absent (key : α → Nat) (d : Py.KDict α V) (c : α) (h : Py.dictHas key d c = false) :
    d.filter (fun e => key e.1 != key c) = d := by
  rw [List.filter_eq_self]
  intro e he
  simp only [Py.dictHas, List.any_eq_false, beq_iff_eq] at h
  simpa using h e he

theorem nodupKeys_moveToEnd (key : α → Nat) (d : Py.KDict α V) (c : α) (v : V) (nd : NodupKeys key d) :
    NodupKeys key (moveToEnd key d c v) := by
  apply nodupKeys_append
  · unfold NodupKeys at *
    rw [filter_keys]
    exact List.Pairwise.filter _ nd
  · exact dictHas_filter key d c

/-- the body `if cell in result: result.pop(cell)` / `result[cell] = v` of a re-insertion loop, as the translator emits it -/
def moveStep (key : α → Nat) (v : V) (d : Py.KDict α V) (c : α) : Option (Py.KDict α V) :=
  (if Py.dictHas key d c = true then (Py.dictPop? key d c).bind fun d => some d else some d).bind fun d =>
    some (Py.dictSet key d c v)

theorem moveStep_eq (key : α → Nat) (v : V) (d : Py.KDict α V) (c : α) : moveStep key v d c = some (moveToEnd key d c v) := by
  unfold moveStep moveToEnd
  by_cases h : Py.dictHas key d c = true
  · simp only [h, if_true, Py.dictPop?, Option.bind_some]
    rw [dictSet_absent _ _ _ _ (dictHas_filter key d c)]
  · have h' : Py.dictHas key d c = false := by simpa using h
    simp only [h', Bool.false_eq_true, if_false, Option.bind_some]
    rw [dictSet_absent _ _ _ _ h', filter_absent key d c h']

theorem foldlM_moveStep (key : α → Nat) (v : V) : ∀ (xs : List α) (d : Py.KDict α V),
    List.foldlM (moveStep key v) d xs = some (xs.foldl (fun d c => moveToEnd key d c v) d)
  | [], _ => rfl
  | x :: xs, d => by
    rw [List.foldlM_cons, moveStep_eq]
    exact foldlM_moveStep key v xs _

theorem nodupKeys_foldl_moveToEnd (key : α → Nat) (v : V) : ∀ (xs : List α) (d : Py.KDict α V), NodupKeys key d →
    NodupKeys key (xs.foldl (fun d c => moveToEnd key d c v) d)
  | [], _, h => h
  | x :: xs, d, h => nodupKeys_foldl_moveToEnd key v xs _ (nodupKeys_moveToEnd key d x v h)

/-- `{j: i for i, j in enumerate(xs)}` over pairwise distinct keys is the enumeration itself -/
theorem dictcomp_nodup (key : α → Nat) : ∀ (xs : List α) (k : Nat) (d : Py.KDict α Nat),
    ((d.map (fun e => key e.1)) ++ xs.map key).Nodup →
    (xs.zipIdx k).foldl (fun d (ji : α × Nat) => Py.dictSet key d ji.1 ji.2) d = d ++ xs.zipIdx k
  | [], _, d, _ => by simp
  | x :: xs, k, d, h => by
    have hx : Py.dictHas key d x = false := by
      cases hh : Py.dictHas key d x
      · rfl
      · have hm := (dictHas_iff key d x).1 hh
        rw [List.nodup_append] at h
        exact absurd rfl (h.2.2 _ hm _ (by simp))
    rw [List.zipIdx_cons, List.foldl_cons, dictSet_absent _ _ _ _ hx]
    have := dictcomp_nodup key xs (k + 1) (d ++ [(x, k)]) (by simpa [List.map_append, List.append_assoc] using h)
    rw [this]; simp [List.append_assoc]

/-! ### set ~ hash set -/

def SetSim (key : α → Nat) (s : Py.KSet α) (hs : Std.HashSet Nat) : Prop := ∀ k, hs.contains k = s.any (fun e => key e == k)

theorem setSim_empty (key : α → Nat) : SetSim key ([] : Py.KSet α) ∅ := by
  intro k; simp

theorem setSim_has {key : α → Nat} {s : Py.KSet α} {hs : Std.HashSet Nat} (h : SetSim key s hs) (c : α) :
    Py.setHas key s c = hs.contains (key c) := by
  rw [h]; rfl

theorem setSim_add {key : α → Nat} {s : Py.KSet α} {hs : Std.HashSet Nat} (h : SetSim key s hs) (c : α) :
    SetSim key (Py.setAdd key s c) (hs.insert (key c)) := by
  intro k
  rw [Std.HashSet.contains_insert, h k]
  unfold Py.setAdd Py.setHas
  by_cases hh : s.any (fun e => key e == key c) = true
  · rw [if_pos hh]
    by_cases hk : key c = k
    · subst hk; simp [hh]
    · simp [hk]
  · rw [if_neg hh]
    simp [List.any_append, Bool.or_comm]

/-! ### loops -/

theorem listPop_append (xs : List α) (x : α) : Py.listPop? (xs ++ [x]) = some (xs, x) := by
  simp [Py.listPop?]

theorem listPop_nil : Py.listPop? ([] : List α) = none := rfl

/-- a `for` loop that only appends: `for x in xs: acc.append(f x)` -/
theorem foldlM_append {β : Type} (f : β → α) : ∀ (xs : List β) (acc : List α),
    List.foldlM (m := Option) (fun acc x => some (acc ++ [f x])) acc xs = some (acc ++ xs.map f)
  | [], acc => by simp
  | x :: xs, acc => by
    rw [List.foldlM_cons]
    simp only [Option.bind_eq_bind, Option.bind_some]
    rw [foldlM_append f xs]; simp [List.append_assoc]

theorem foldlM_congr' {β : Type} (f g : σ → β → Option σ) (h : ∀ s x, f s x = g s x) (xs : List β) (s : σ) :
    List.foldlM f s xs = List.foldlM g s xs := by
  have : f = g := by funext s x; exact h s x
  rw [this]

theorem mapM_bind_mapM {β γ δ : Type} (f : β → Option γ) (g : γ → Option δ) : ∀ xs : List β,
    xs.mapM (fun x => (f x).bind g) = (xs.mapM f).bind (fun ys => ys.mapM g)
  | [] => by simp
  | x :: xs => by
    simp only [List.mapM_cons, Option.bind_eq_bind, Option.pure_def]
    rw [mapM_bind_mapM f g xs]
    cases f x with
    | none => simp
    | some y =>
      cases List.mapM f xs with
      | none => cases g y <;> simp
      | some ys => cases g y <;> simp

theorem mapM_length {β γ : Type} (f : β → Option γ) : ∀ (xs : List β) (ys : List γ), xs.mapM f = some ys → ys.length = xs.length
  | [], ys, h => by simp at h; subst h; rfl
  | x :: xs, ys, h => by
    simp only [List.mapM_cons, Option.bind_eq_bind, Option.pure_def] at h
    cases hx : f x <;> simp [hx] at h
    cases hxs : List.mapM f xs <;> simp [hxs] at h
    subst h
    simp [mapM_length f xs _ hxs]

end TonVerif.Proofs.SrcDict
