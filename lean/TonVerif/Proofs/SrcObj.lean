/-
Generation-independent lemmas for the object-program translator (harness/translate/pyobj.py):
the built-ins of PyObj.lean, loops (`List.foldlM` in `Option`) against the `mapM` / `foldl` forms the hand models use,
and the canonical loop steps of the cell constructor.  Nothing here mentions a `Generated.*` definition: a source change can
never break this file.
-/
import TonVerif.PyObj
import TonVerif.PyBytes
import TonVerif.Model.Cell
import TonVerif.Proofs.CellSpec

namespace TonVerif.Proofs.SrcObj
open TonVerif TonVerif.Model

/-! ### built-ins -/

/-- `result.fill(); result.tobytes()` = `tobytes()` (which pads the last byte itself) -/
theorem bitsToBytes_fill (b : Bits) : bitsToBytes (Py.bitsFill b) = bitsToBytes b := by
  unfold Py.bitsFill
  apply Proofs.CellSpec.bitsToBytes_pad _ _ _ rfl
  · intro h; omega
  · intro h; omega

/-- `xs[-1]` -/
theorem getI_neg_one {α : Type} (xs : List α) : Py.getI? xs (-1) = xs.getLast? := by
  unfold Py.getI?
  cases xs with
  | nil => simp
  | cons a as => simp [List.getLast?_eq_getElem?]

/-- `xs[len(xs) - 1]` -/
theorem getI_length_sub_one {α : Type} (xs : List α) : Py.getI? xs ((xs.length : Int) - 1) = xs.getLast? := by
  cases xs with
  | nil => simp [Py.getI?]
  | cons a as =>
    have h : (((a :: as).length : Nat) : Int) - 1 = ((as.length : Nat) : Int) := by simp
    rw [h]
    simp [Py.getI?, List.getLast?_eq_getElem?]

/-- `xs[i]` for a non-negative `i` -/
theorem getI_nonneg {α : Type} (xs : List α) (i : Int) (n : Nat) (h : i = (n : Int)) : Py.getI? xs i = xs[n]? := by
  subst h; simp [Py.getI?]

theorem intOfBits_eq (s : Bits) : Py.intOfBits? s = if s.isEmpty then none else some (natOfBits s) := by
  unfold Py.intOfBits?; cases s <;> simp

/-- the spellings of "the list is not empty" (`if xs:`, `len(xs) != 0`, `len(xs) >= 1`, `len(xs) > 0`) -/
theorem ne_nil_eq_pos {α : Type} (xs : List α) : (xs ≠ []) = (xs.length > 0) := by cases xs <;> simp
theorem length_ne_zero_eq_pos {α : Type} (xs : List α) : (xs.length ≠ 0) = (xs.length > 0) := by cases xs <;> simp
theorem length_ge_one_eq_pos {α : Type} (xs : List α) : (xs.length ≥ 1) = (xs.length > 0) := by cases xs <;> simp

/-! ### loops -/

/-- two loops with pointwise equal bodies -/
theorem foldlM_congr {σ α : Type} (f g : σ → α → Option σ) (h : ∀ s x, f s x = g s x) (xs : List α) (s : σ) :
    List.foldlM f s xs = List.foldlM g s xs := by
  have : f = g := by funext s x; exact h s x
  rw [this]

/-- a loop over an encoded state: if every step commutes with the encoding, so does the loop -/
theorem foldlM_sim {σ τ α : Type} (enc : τ → σ) (f : σ → α → Option σ) (g : τ → α → Option τ)
    (h : ∀ t x, f (enc t) x = (g t x).map enc) (xs : List α) (t : τ) :
    List.foldlM f (enc t) xs = (List.foldlM g t xs).map enc := by
  induction xs generalizing t with
  | nil => simp
  | cons x xs ih =>
    simp only [List.foldlM_cons, h]
    cases g t x with
    | none => simp
    | some t' => simp [ih]

/-- a loop whose body never raises is a `foldl` -/
theorem foldlM_pure {σ α : Type} (f : σ → α → σ) (xs : List α) (s : σ) :
    List.foldlM (m := Option) (fun s x => some (f s x)) s xs = some (xs.foldl f s) := by
  induction xs generalizing s with
  | nil => simp
  | cons x xs ih => simp [ih]

/-! ### the canonical steps of the three loops over the references in `calculate_hashes` / `resolve_mask` -/

/-- `for r in self.refs:` of the depth loop (state = (depth, bytes fed to the hash)): feed the two depth bytes, keep the maximum -/
def depthStep (gd : CellInfo → Option Nat) (s : Nat × Bytes) (r : CellInfo) : Option (Nat × Bytes) :=
  (gd r).bind fun d => (toBytesBE? 2 d).bind fun db => some (if d > s.1 then d else s.1, s.2 ++ db)

/-- `for r in self.refs:` of the hash loop -/
def hashFeed (gh : CellInfo → Option Bytes) (s : Bytes) (r : CellInfo) : Option Bytes :=
  (gh r).bind fun h => some (s ++ h)

theorem depthLoop (gd : CellInfo → Option Nat) (refs : List CellInfo) (d0 : Nat) (h0 : Bytes) :
    List.foldlM (depthStep gd) (d0, h0) refs =
      (refs.mapM gd).bind fun ds => (ds.mapM (toBytesBE? 2)).bind fun bs =>
        some (ds.foldl (fun d x => if x > d then x else d) d0, h0 ++ bs.flatten) := by
  induction refs generalizing h0 d0 with
  | nil => simp
  | cons r rs ih =>
    simp only [List.foldlM_cons, List.mapM_cons, depthStep]
    cases hd : gd r with
    | none => simp
    | some d =>
      simp only [Option.bind_some, Option.pure_def, Option.bind_eq_bind]
      cases hb : toBytesBE? 2 d with
      | none =>
        simp only [Option.bind_none]
        cases List.mapM gd rs with
        | none => simp
        | some ds => simp [hb]
      | some db =>
        simp only [Option.bind_some, ih]
        cases List.mapM gd rs with
        | none => simp
        | some ds =>
          simp only [Option.bind_some, List.mapM_cons, hb, Option.pure_def, Option.bind_eq_bind, List.foldl_cons]
          cases List.mapM (toBytesBE? 2) ds with
          | none => simp
          | some bs => simp [List.append_assoc]

theorem hashLoop (gh : CellInfo → Option Bytes) (refs : List CellInfo) (h0 : Bytes) :
    List.foldlM (hashFeed gh) h0 refs = (refs.mapM gh).bind fun hs => some (h0 ++ hs.flatten) := by
  induction refs generalizing h0 with
  | nil => simp
  | cons r rs ih =>
    simp only [List.foldlM_cons, List.mapM_cons, hashFeed]
    cases hd : gh r with
    | none => simp
    | some d =>
      simp only [Option.bind_some, ih, Option.pure_def, Option.bind_eq_bind]
      cases List.mapM gh rs with
      | none => simp
      | some hs => simp [List.append_assoc]

/-! ### the level loop: simulation with an invariant -/

/-- a loop over `range n` on an encoded state, with an invariant `P i st` on (position, state): the steps only have to commute with
the encoding on states the loop can reach -/
theorem foldlM_sim_range' {σ τ : Type} (enc : τ → σ) (f : σ → Nat → Option σ) (g : τ → Nat → Option τ) (P : Nat → τ → Prop)
    (hpres : ∀ i t t', P i t → g t i = some t' → P (i + 1) t')
    (h : ∀ i t, P i t → f (enc t) i = (g t i).map enc) (k : Nat) : ∀ (s : Nat) (t : τ), P s t →
    List.foldlM f (enc t) (List.range' s k) = (List.foldlM g t (List.range' s k)).map enc := by
  induction k with
  | zero => intro s t _; simp
  | succ k ih =>
    intro s t hP
    simp only [List.range'_succ, List.foldlM_cons, h s t hP]
    cases hg : g t s with
    | none => simp
    | some t' => simp [ih (s + 1) t' (hpres s t t' hP hg)]

theorem foldlM_sim_range {σ τ : Type} (enc : τ → σ) (f : σ → Nat → Option σ) (g : τ → Nat → Option τ) (P : Nat → τ → Prop)
    (hpres : ∀ i t t', P i t → g t i = some t' → P (i + 1) t')
    (h : ∀ i t, P i t → f (enc t) i = (g t i).map enc) (n : Nat) (t : τ) (h0 : P 0 t) :
    List.foldlM f (enc t) (List.range n) = (List.foldlM g t (List.range n)).map enc := by
  rw [List.range_eq_range']
  exact foldlM_sim_range' enc f g P hpres h n 0 t h0

/-- the invariant of the level loop of `calculate_hashes`: `hash_index` is 0 exactly before level 0 is processed -/
def levelInv (li : Nat) (st : HashState) : Prop := (li = 0 ∧ st.hashIndex = 0) ∨ (0 < li ∧ 0 < st.hashIndex)

theorem hashStep_hashIndex (H : Bytes → Bytes) (kind : Int) (bits : Bits) (refs : List CellInfo) (mask offset : Nat)
    (st st' : HashState) (li : Nat) (h : hashStep H kind bits refs mask offset st li = some st') :
    (st'.hashIndex = st.hashIndex + 1) ∨ (st'.hashIndex = st.hashIndex ∧ isSignificant mask li = false) := by
  unfold hashStep at h
  by_cases hs : isSignificant mask li = true
  · simp only [hs, Bool.not_true, Bool.false_eq_true, if_false] at h
    by_cases hlt : st.hashIndex < offset
    · simp only [hlt, if_true, Option.some.injEq] at h
      subst h; exact Or.inl rfl
    · simp only [hlt, if_false] at h
      left
      simp only [Option.bind_eq_bind, Option.pure_def] at h
      cases hd : descriptors refs.length (kind != kOrdinary) bits.length (maskApply mask li) with
      | none => simp [hd] at h
      | some dsc =>
        simp only [hd, Option.bind_some] at h
        split at h <;>
          (simp only [Option.bind_eq_some_iff, Option.some.injEq] at h
           obtain ⟨_, _, _, _, _, _, _, _, _, _, rfl⟩ := h
           rfl)
  · simp only [hs, Bool.not_false, if_true, Option.some.injEq] at h
    subst h
    simp at hs
    exact Or.inr ⟨rfl, hs⟩

theorem levelInv_step (H : Bytes → Bytes) (kind : Int) (bits : Bits) (refs : List CellInfo) (mask offset : Nat)
    (li : Nat) (st st' : HashState) (hP : levelInv li st) (h : hashStep H kind bits refs mask offset st li = some st') :
    levelInv (li + 1) st' := by
  have := hashStep_hashIndex H kind bits refs mask offset st st' li h
  have h0 : isSignificant mask 0 = true := by simp [isSignificant]
  unfold levelInv at *
  right
  refine ⟨by omega, ?_⟩
  rcases hP with ⟨rfl, _⟩ | ⟨_, hp⟩
  · rcases this with h1 | ⟨_, h2⟩
    · omega
    · rw [h0] at h2; cases h2
  · rcases this with h1 | ⟨h1, _⟩ <;> omega

end TonVerif.Proofs.SrcObj
