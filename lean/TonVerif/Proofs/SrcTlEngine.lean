/-
The regenerated TL engine (Generated/TlEngine.lean, from pytoniq_core/tl/generator.py by harness/translate/tlengine.py)
equals the hand model Model/Tl.lean, for ALL tables, type strings, values and depth budgets.

Generation-independent part: the built-ins of PyTl.lean against the primitives of the model (`intToBytes?`, `repeatI`, `toBytesLE?`,
the framing computed step by step = `frame?`, the element loop of a vector = `serMany`, the field loop = `serBody`).
Generation-dependent part: `serialize_field_*`, `serialize_eq`, `src_serialize_rel`, `src_serialize_eq_model`, `block_*_eq` (block.py).
-/
import TonVerif.Generated.TlEngine
import TonVerif.Model.Tl
import TonVerif.Proofs.SrcTl

set_option linter.unusedSimpArgs false
set_option linter.unusedVariables false
namespace TonVerif.Proofs.SrcTlEngine
open TonVerif TonVerif.Spec.Tl TonVerif.Model.Tl TonVerif.Py.Tl TonVerif.Generated.TlEngine

/-! ### built-ins -/

theorem intToBytes_signed (w : Nat) (v : Int) : Py.Tl.intToBytes? true true w v = intToLE? w v := by
  unfold Py.Tl.intToBytes? intToLE? intLE
  by_cases h : -(2 ^ (8 * w - 1) : Int) ≤ v ∧ v < (2 ^ (8 * w - 1) : Int) <;> simp [h]

theorem intToBytes_unsigned (w : Nat) (v : Int) : Py.Tl.intToBytes? false true w v = natToLE? w v := by
  unfold Py.Tl.intToBytes? natToLE? intLE
  by_cases h : 0 ≤ v ∧ v < (2 ^ (8 * w) : Int) <;> simp [h]

theorem repeatI_zero (n : Int) : Py.Tl.repeatI [0] n = List.replicate n.toNat 0 := by
  unfold Py.Tl.repeatI
  induction n.toNat with
  | zero => rfl
  | succ k ih => simp [List.replicate_succ] at ih ⊢

theorem hexAscii_eq (b : Bytes) : Py.Tl.hexAscii b = Model.Tl.hexAscii b := rfl

theorem natToLE_length (w v : Nat) : (natToLE w v).length = w := by
  induction w generalizing v with
  | zero => rfl
  | succ w ih => simp [natToLE, ih]

/-- `n.to_bytes(w, 'little')` of a non-negative int -/
theorem toBytesLE?_eq (w n : Nat) : toBytesLE? w n = if n < 256 ^ w then some (natToLE w n) else none := by
  unfold toBytesLE? toBytesBE?
  by_cases h : n < 256 ^ w <;> simp [h, Proofs.SrcTl.natToLE_eq]

/-- the model's `to_bytes(w, 'little', signed=False)` on a non-negative int -/
theorem natToLE?_ofNat (w n : Nat) : natToLE? w (n : Int) = if n < 256 ^ w then some (natToLE w n) else none := by
  unfold natToLE? intLE
  have e0 : (256 : Nat) ^ w = 2 ^ (8 * w) := by rw [show (256 : Nat) = 2 ^ 8 by rfl, ← Nat.pow_mul]
  have e : (2 : Int) ^ (8 * w) = ((256 ^ w : Nat) : Int) := by rw [e0]; push_cast; rfl
  rw [e]
  by_cases h : n < 256 ^ w
  · have h' : (n : Int) < ((256 ^ w : Nat) : Int) := by exact_mod_cast h
    have : ((n : Int) % ((256 ^ w : Nat) : Int)).toNat = n := by
      rw [Int.emod_eq_of_lt (by omega) h']; simp
    rw [if_pos ⟨by omega, h'⟩, if_pos h, this]
  · have h' : ¬ (n : Int) < ((256 ^ w : Nat) : Int) := by intro hh; exact h (by exact_mod_cast hh)
    rw [if_neg (fun hh => h' hh.2), if_neg h]

theorem natToLE?_eq_toBytesLE? (w n : Nat) : natToLE? w (n : Int) = toBytesLE? w n := by
  rw [natToLE?_ofNat, toBytesLE?_eq]

/-- the framing as the regenerated code computes it (after `simp`): header by `to_bytes`, content, zero padding -/
theorem frame_core (b : Bytes) :
    ((if b.length ≤ 253 then toBytesLE? 1 b.length
        else (toBytesLE? 3 b.length).bind fun x => some (254 :: x)).bind
      fun y =>
      if (y.length + b.length) % 4 = 0 then some (y ++ b)
      else some (y ++ (b ++ List.replicate (4 - (((y.length : Nat) : Int) + ((b.length : Nat) : Int)) % 4).toNat 0))) =
    frame? b := by
  unfold frame? frame
  simp only [toBytesLE?_eq]
  by_cases h1 : b.length ≤ 253
  · have h2 : b.length < 256 ^ 1 := by omega
    have h3 : b.length < 2 ^ 24 := by omega
    have e5 : (4 - (1 + ((b.length : Nat) : Int)) % 4).toNat = 4 - (1 + b.length) % 4 := by omega
    simp [h1, h2, h3, natToLE_length, e5]
    split <;> rfl
  · by_cases h2 : b.length < 256 ^ 3
    · have h3 : b.length < 2 ^ 24 := by omega
      have e4 : (3 + b.length + 1) % 4 = b.length % 4 := by omega
      have e5 : (4 - ((b.length : Nat) : Int) % 4).toNat = 4 - b.length % 4 := by omega
      simp [h1, h2, h3, natToLE_length, e4, e5]
      split <;> rfl
    · have h3 : ¬ b.length < 2 ^ 24 := by omega
      simp [h1, h2, h3]

/-- respellings of the one-byte-length test -/
theorem lt_254 (n : Nat) : (n < 254) = (n ≤ 253) := by simp only [eq_iff_iff]; omega

/-- the element loop of a vector: accumulating `temp += f v` is the model's `serMany` -/
theorem foldlM_serMany (f : Val → Option Bytes) (vs : List Val) (acc : Bytes) :
    List.foldlM (m := Option) (fun (temp : Bytes) (v : Val) => (f v).bind fun c => some (temp ++ c)) acc vs =
      (serMany f vs).bind fun els => some (acc ++ els) := by
  induction vs generalizing acc with
  | nil => simp [serMany]
  | cons v vs ih =>
    simp only [List.foldlM_cons, serMany]
    cases f v with
    | none => simp
    | some b =>
      simp only [Option.bind_some, ih]
      cases serMany f vs <;> simp

/-- how the regenerated `serialize` (a `Val` for the dict, `Option Ctor` for the schema) relates to the model's `serObj` -/
def SerRel (ser : Option Ctor → Val → Bool → Option Bytes) (ser' : Ctor → Fields → Bool → Option Bytes) : Prop :=
  (∀ v b, ser none v b = none) ∧ ∀ c v b, ser (some c) v b = (objFields? c v).bind (fun fs => ser' c fs b)

/-! ### `serialize_field` -/

theorem little_id_eq (c : Ctor) : little_id (Py.Tl.idBytes c) = some (natToLE 4 c.id) := by
  simp [little_id, Py.Tl.idBytes]

theorem serialize_field_fixed (T : Table) (ser) (recf) (e : ETy) (v : Val)
    (he : e = .int ∨ e = .long ∨ e = .nat ∨ e = .int128 ∨ e = .int256 ∨ e = .bool) :
    serialize_field T ser recf (TyS.base e) v = serFixed e v := by
  rcases he with rfl | rfl | rfl | rfl | rfl | rfl <;>
  cases v <;>
  simp [serialize_field, baseKey, baseLen, TyS.base, serFixed, fixedLen, isBool, getBool, isBytes, isInt, isStr, getBytes, getInt, fromHex?,
    intToBytes_signed, intToBytes_unsigned, repeatI_zero, Py.slice, Option.bind_assoc]
  all_goals first | omega | (rename_i b; cases b <;> rfl)

macro "sf_simp" : tactic => `(tactic|
  simp [serialize_field, baseKey, baseLen, TyS.base, serOne, isBool, getBool, isBytes, isInt, isStr, isDict, hasType, getBytes, getInt, fromHex?,
    intToBytes_signed, intToBytes_unsigned, repeatI_zero, Py.slice, Option.bind_assoc, encodeStr, typeOf?, lt_254, frame_core, hexAscii_eq])

theorem serialize_field_bytes (T : Table) (ser) (ser') (recf) (h : SerRel ser ser') (e : ETy) (v : Val)
    (he : e = .bytes ∨ e = .string) :
    serialize_field T ser recf (TyS.base e) v = serOne T ser' e v := by
  obtain ⟨h0, h1⟩ := h
  rcases he with rfl | rfl <;>
  cases v with
  | int i => sf_simp
  | bool b => sf_simp
  | bytes b => sf_simp
  | str u => sf_simp
  | hex u => sf_simp
  | list vs => sf_simp
  | obj ty fs =>
    cases ty with
    | none => sf_simp
    | some n =>
      cases hb : T.byName n with
      | none => sf_simp; simp [hb, h0]
      | some c =>
        cases hs : ser' c fs true with
        | none => sf_simp; simp [hb, hs, h1, objFields?]
        | some bs => sf_simp; simp [hb, hs, h1, objFields?]

theorem serialize_field_ref (T : Table) (ser) (ser') (recf) (h : SerRel ser ser') (e : ETy) (v : Val)
    (he : (∃ n, e = .bare n) ∨ (∃ cl, e = .boxed cl) ∨ e = .unsup) :
    serialize_field T ser recf (TyS.base e) v = serOne T ser' e v := by
  obtain ⟨h0, h1⟩ := h
  rcases he with ⟨n, rfl⟩ | ⟨cl, rfl⟩ | rfl
  · cases hb : T.byName n <;>
      simp [serialize_field, baseKey, TyS.base, TyS.classOf, TyS.isParen, TyS.ctorOf, serOne, hb, h0, h1, Option.bind_assoc]
  · cases hc : T.byClass cl with
    | nil => simp [serialize_field, baseKey, TyS.base, TyS.classOf, TyS.isParen, TyS.ctorOf, serOne, hc, h0]
    | cons c rest =>
      cases rest with
      | nil => simp [serialize_field, baseKey, TyS.base, TyS.classOf, TyS.isParen, TyS.ctorOf, serOne, hc, h1, Option.bind_assoc]
      | cons c2 rest =>
        cases v with
        | obj ty fs =>
          cases ty with
          | none => simp [serialize_field, baseKey, TyS.base, TyS.classOf, serOne, hc, isBytes, isDict, hasType]
          | some m =>
            cases hb : T.byName m <;>
            simp [serialize_field, baseKey, TyS.base, TyS.classOf, serOne, hc, isBytes, isDict, hasType, typeOf?, hb, h0, h1, objFields?, Option.bind_assoc]
        | _ => simp [serialize_field, baseKey, TyS.base, TyS.classOf, serOne, hc, isBytes, isDict, hasType, getBytes]
  · simp [serialize_field, baseKey, TyS.base, TyS.classOf, TyS.isParen, TyS.ctorOf, serOne, h0]

/-- `serialize_field` on a non-vector type string = the model's `serOne` (whatever it calls for vector elements) -/
theorem serialize_field_one (T : Table) (ser) (ser') (recf) (h : SerRel ser ser') (e : ETy) (v : Val) :
    serialize_field T ser recf (TyS.base e) v = serOne T ser' e v := by
  cases e with
  | bytes => exact serialize_field_bytes T ser ser' recf h _ v (Or.inl rfl)
  | string => exact serialize_field_bytes T ser ser' recf h _ v (Or.inr rfl)
  | bare n => exact serialize_field_ref T ser ser' recf h _ v (Or.inl ⟨n, rfl⟩)
  | boxed cl => exact serialize_field_ref T ser ser' recf h _ v (Or.inr (Or.inl ⟨cl, rfl⟩))
  | unsup => exact serialize_field_ref T ser ser' recf h _ v (Or.inr (Or.inr rfl))
  | _ => rw [serialize_field_fixed T ser recf _ v (by simp)]; simp [serOne]

/-- a vector: the count by `to_bytes(4, 'little', signed=False)`, then the loop over the elements -/
theorem serialize_field_vec (T : Table) (ser) (recf) (ty : ETy) (vs : List Val) :
    serialize_field T ser recf ⟨none, true, ty⟩ (.list vs) =
      (toBytesLE? 4 vs.length).bind fun y =>
      (List.foldlM (m := Option) (fun x v => (recf ⟨none, false, ty⟩ v).bind fun c => some (x ++ c)) y vs) := by
  simp [serialize_field, baseKey, TyS.classOf, TyS.isParen, TyS.isVector, TyS.elem, listLen?, listItems?, Option.bind_assoc]

theorem serialize_field_nonlist (T : Table) (ser) (recf) (ty : ETy) (v : Val) (hv : ∀ vs, v ≠ .list vs) :
    serialize_field T ser recf ⟨none, true, ty⟩ v = none := by
  cases v with
  | list vs => exact absurd rfl (hv vs)
  | _ => simp [serialize_field, baseKey, TyS.classOf, TyS.isParen, TyS.isVector, listLen?]

/-- `serialize_field` on the type string of a field, given that its recursive call (for the elements of a vector) is the model's
`serOne`, = the model's `serArg` -/
theorem serialize_field_arg (T : Table) (ser) (ser') (recf) (h : SerRel ser ser')
    (hel : ∀ e x, recf (TyS.base e) x = serOne T ser' e x) (a : Arg) (v : Val) :
    serialize_field T ser recf ⟨none, a.vec, a.ty⟩ v = serArg T ser' a v := by
  obtain ⟨name, cond, vec, ty⟩ := a
  cases vec with
  | false => simpa [serArg, TyS.base] using serialize_field_one T ser ser' _ h ty v
  | true =>
    cases v with
    | list vs =>
      have hel' : ∀ x, recf ⟨none, false, ty⟩ x = serOne T ser' ty x := fun x => hel ty x
      simp only [serialize_field_vec, serArg, hel', foldlM_serMany, if_true, natToLE?_eq_toBytesLE?]
      rfl
    | _ => rw [serialize_field_nonlist _ _ _ _ _ (by intro vs hh; cases hh)]; simp [serArg]

/-! ### `serialize` -/

/-- one iteration of the field loop of `serialize` as the model takes it -/
def bodyStep (T : Table) (ser' : Ctor → Fields → Bool → Option Bytes) (fs : Fields) (result : Bytes) (a : Arg) : Option Bytes :=
  match fs.lookup a.name with
  | none => if a.cond.isSome then some result else none
  | some v => (serArg T ser' a v).bind fun b => some (result ++ b)

theorem foldlM_serBody (T : Table) (ser') (fs : Fields) (args : List Arg) (acc : Bytes) :
    List.foldlM (m := Option) (bodyStep T ser' fs) acc args = (serBody T ser' args fs).bind fun b => some (acc ++ b) := by
  induction args generalizing acc with
  | nil => simp [serBody]
  | cons a as ih =>
    simp only [List.foldlM_cons, serBody, bodyStep]
    cases hl : fs.lookup a.name with
    | none =>
      cases hc : a.cond.isSome with
      | false => simp
      | true => simp [ih]
    | some v =>
      simp [Option.bind_assoc, ih]

theorem foldlM_nondict {α : Type} (step : Bytes → α → Option Bytes) (h : ∀ r a, step r a = none) (args : List α) (acc : Bytes) :
    List.foldlM (m := Option) step acc args = if args.isEmpty then some acc else none := by
  cases args with
  | nil => simp
  | cons a as => simp [h]

theorem foldlM_serBody' (T : Table) (ser') (fs : Fields) (step : Bytes → Arg → Option Bytes)
    (h : ∀ r a, step r a = bodyStep T ser' fs r a) (args : List Arg) (acc : Bytes) :
    List.foldlM (m := Option) step acc args = (serBody T ser' args fs).bind fun b => some (acc ++ b) := by
  have : step = bodyStep T ser' fs := funext fun r => funext fun a => h r a
  rw [this, foldlM_serBody]

/-- `serialize(schema, data, boxed)` = the model's `serObj` one level up, given the model's `serArg` for `serialize_field` -/
theorem serialize_eq (T : Table) (ser') (recf : TyS → Val → Option Bytes)
    (hf : ∀ (a : Arg) v, recf ⟨none, a.vec, a.ty⟩ v = serArg T ser' a v) (c : Ctor) (data : Val) (boxed : Bool) :
    Generated.TlEngine.serialize T recf (some c) data boxed =
      (objFields? c data).bind fun fs => (serBody T ser' c.args fs).map (fun b => (if boxed then natToLE 4 c.id else []) ++ b) := by
  unfold Generated.TlEngine.serialize
  cases data with
  | obj ty fs =>
    cases boxed <;>
    · simp only [little_id_eq, Option.bind_some, objFields?, if_true, if_false, Bool.false_eq_true]
      rw [foldlM_serBody' T ser' fs]
      · cases serBody T ser' c.args fs <;> simp
      · intro result a
        obtain ⟨name, cond, vec, ty'⟩ := a
        cases cond with
        | none => cases hl : fs.lookup name <;>
            simp [bodyStep, TyS.isCond, TyS.ofArg, TyS.strip, dictGet?, dictItem?, hl, hf ⟨name, none, vec, ty'⟩]
        | some cb => cases hl : fs.lookup name <;>
            simp [bodyStep, TyS.isCond, TyS.ofArg, TyS.strip, dictGet?, dictItem?, hl, hf ⟨name, some cb, vec, ty'⟩]
  | _ =>
    cases boxed <;>
    · simp only [little_id_eq, Option.bind_some, objFields?, if_true, if_false, Bool.false_eq_true]
      rw [foldlM_nondict]
      · cases hargs : c.args <;> simp [serBody]
      · intro r a; simp [TyS.isCond, dictGet?, dictItem?]

theorem serialize_none (T : Table) (recf : TyS → Val → Option Bytes) (data : Val) (boxed : Bool) :
    Generated.TlEngine.serialize T recf none data boxed = none := by
  unfold Generated.TlEngine.serialize
  cases boxed <;> simp

/-- THE TIE of the serialiser: for every table and every depth budget the regenerated `serialize` (with `serialize_field` and the
recursion through both) is the hand model's `serObj` -/
theorem src_serialize_rel (T : Table) (fuel : Nat) : SerRel (serializeF T fuel) (serObj T fuel) := by
  induction fuel with
  | zero =>
    refine ⟨fun v b => rfl, fun c v b => ?_⟩
    cases objFields? c v <;> simp [serializeF, serObj]
  | succ f ih =>
    refine ⟨fun v b => serialize_none T _ v b, fun c v b => ?_⟩
    have hf : ∀ (a : Arg) x, serializeFieldAt T (serializeF T f) ⟨none, a.vec, a.ty⟩ x = serArg T (serObj T f) a x :=
      fun a x => serialize_field_arg T _ _ _ ih (fun e y => serialize_field_one T _ _ _ ih e y) a x
    simp only [serializeF, serialize_eq T (serObj T f) _ hf, serObj]

theorem src_serialize_eq_model (T : Table) (fuel : Nat) (c : Ctor) (ty : Option Nat) (fs : Fields) (boxed : Bool) :
    serializeF T fuel (some c) (.obj ty fs) boxed = serObj T fuel c fs boxed := by
  rw [(src_serialize_rel T fuel).2]; simp [objFields?]

/-! ### block.py -/

theorem intToBytes_signed_be (w : Nat) (v : Int) : Py.Tl.intToBytes? true false w v = intToBE? w v := by
  unfold Py.Tl.intToBytes? intToBE? intToLE? intLE
  by_cases h : -(2 ^ (8 * w - 1) : Int) ≤ v ∧ v < (2 ^ (8 * w - 1) : Int) <;> simp [h]

theorem intOfBytes_signed_be (bs : Bytes) : Py.Tl.intOfBytes true false bs = intOfBE bs := by
  unfold Py.Tl.intOfBytes intOfBE intOfLE
  simp

theorem block_init_eq (w s q : Int) (r f : Bytes) : Block.init w s q r f = some ⟨w, s, q, r, f⟩ := by
  simp [Block.init]

theorem block_to_bytes_eq (b : BlockIdExt) :
    Block.to_bytes b.fileHash b.rootHash b.seqno b.shard b.workchain = b.toBytes := by
  simp [Block.to_bytes, BlockIdExt.toBytes, intToBytes_signed_be]

theorem block_from_bytes_eq (d : Bytes) : Block.from_bytes d = some (BlockIdExt.fromBytes d) := by
  simp [Block.from_bytes, block_init_eq, BlockIdExt.fromBytes, intOfBytes_signed_be, Py.slice, List.take_drop]

theorem block_eq_eq (a b : BlockIdExt) :
    Block.eq b a.fileHash a.rootHash a.seqno a.shard a.workchain = some (a.pyEq b) := by
  unfold Block.eq BlockIdExt.pyEq
  by_cases h1 : a.seqno = b.seqno <;> by_cases h2 : a.workchain = b.workchain <;> by_cases h3 : a.shard = b.shard <;>
    by_cases h4 : a.rootHash = b.rootHash <;> by_cases h5 : a.fileHash = b.fileHash <;> simp [h1, h2, h3, h4, h5]

theorem block_hash_eq (H : Int × Int × Int × Bytes × Bytes → Int) (a : BlockIdExt) :
    Block.hash H a.fileHash a.rootHash a.seqno a.shard a.workchain = some (a.pyHash H) := rfl

/-! ### block.py: the dict forms -/

/-- the Python dict that the model's `BlockDict` stands for (str keys as the numbers of PyTl.lean; the hashes are `.hex()` strings,
absent for a `BlockId`) -/
def dictVal (d : BlockDict) : Val :=
  .obj none ([(kWorkchain, .int d.workchain), (kShard, .int d.shard), (kSeqno, .int d.seqno)] ++
    (match d.rootHash with | some r => [(kRootHash, .hex r)] | none => []) ++
    (match d.fileHash with | some f => [(kFileHash, .hex f)] | none => []))

theorem block_to_dict_eq (b : BlockIdExt) :
    Block.to_dict b.fileHash b.rootHash b.seqno b.shard b.workchain = some (dictVal b.toDict) := rfl

theorem block_from_dict_eq (d : BlockDict) : Block.from_dict (dictVal d) = BlockIdExt.fromDict d := by
  obtain ⟨w, s, q, r, f⟩ := d
  cases r <;> cases f <;>
    simp [Block.from_dict, Block.init_dyn, dictVal, dictGet?, List.lookup, kWorkchain, kShard, kSeqno, kRootHash, kFileHash, isStr, fromHex?,
      asInt?, asBytes?, BlockIdExt.fromDict]

theorem blockid_to_dict_eq (s : BlockId) : BlockIdS.to_dict s.seqno s.shard s.workchain = some (dictVal s.toDict) := rfl

theorem blockid_from_dict_eq (d : BlockDict) : BlockIdS.from_dict (dictVal d) = some (BlockId.fromDict d) := by
  obtain ⟨w, s, q, r, f⟩ := d
  cases r <;> cases f <;>
    simp [BlockIdS.from_dict, BlockIdS.init_dyn, dictVal, dictGet?, List.lookup, kWorkchain, kShard, kSeqno, kRootHash, kFileHash, asInt?,
      BlockId.fromDict]

theorem blockid_init_eq (w s q : Int) : BlockIdS.init w s q = some ⟨w, s, q⟩ := by
  simp [BlockIdS.init]

end TonVerif.Proofs.SrcTlEngine
