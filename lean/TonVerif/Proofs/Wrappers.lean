/- C15 helper lemmas, part 4: the stand-alone wrappers (wallet data, wallet message, hash update, NFT data) -/
import TonVerif.Proofs.MessageRef
import TonVerif.Model.Wrappers

namespace TonVerif.Proofs.Message
open TonVerif TonVerif.Model TonVerif.Model.BOp TonVerif.Model.SOp TonVerif.Model.Message TonVerif.Spec.Tlb
open TonVerif.Proofs.MsgBits

variable {R : Type} {α β : Type}

/-! ### the three generic steps -/

/-- a builder program that appends the encoding `e`, run on an empty builder and closed with `end_cell`, gives the
    cell of `e` whenever `e` fits a cell -/
theorem cellOf_of_appends (ops : CellOps R) {op : BOp R} {e : Enc R} (h : Appends op e) {ch : Chunk R}
    (he : e = some ch) (hfit : ch.1.length ≤ 1023 ∧ ch.2.length ≤ 4) :
    cellOf ops op = ops.make ch.1 ch.2 := by
  have hrun := (h.run he).1 hfit
  simp [cellOf, runB, hrun]

/-- ... and raises when it does not -/
theorem cellOf_of_appends_none (ops : CellOps R) {op : BOp R} {e : Enc R} (h : Appends op e) {ch : Chunk R}
    (he : e = some ch) (hfit : ¬ (ch.1.length ≤ 1023 ∧ ch.2.length ≤ 4)) :
    cellOf ops op = none := by
  have hrun := (h.run he).2 hfit
  simp [cellOf, runB, hrun]

theorem encCell_eq (ops : CellOps R) {e : Enc R} {ch : Chunk R} (he : e = some ch)
    (hfit : ch.1.length ≤ 1023 ∧ ch.2.length ≤ 4) : encCell ops e = ops.make ch.1 ch.2 := by
  simp [encCell, he, mkChunk, hfit]

/-- the spec decoder inverts an encoding that was made into a cell -/
theorem decode_of_rt (ops : CellOps R) (hl : ops.Lawful) {e : Enc R} {p : Dec R α} {a : α} (h : RT e p a)
    {ch : Chunk R} {c : R} (he : e = some ch) (hc : ops.make ch.1 ch.2 = some c) :
    decodeWhole p (ops.view c) = some a := by
  have hv := hl _ _ _ hc
  have := h.toEnd ch he
  simp [decodeWhole, hv, this]

theorem decode_of_rtEnd (ops : CellOps R) (hl : ops.Lawful) {e : Enc R} {p : Dec R α} {a : α} (h : RTend e p a)
    {ch : Chunk R} {c : R} (he : e = some ch) (hc : ops.make ch.1 ch.2 = some c) :
    decodeWhole p (ops.view c) = some a := by
  have hv := hl _ _ _ hc
  have := h ch he
  simp [decodeWhole, hv, this]

/-- the slice program returns what the spec decoder returns, on every cell the decoder accepts -/
theorem parse_of_ref (ops : CellOps R) {s : SOp R α} {p : Dec R α} (h : Ref s p) {c : R} {a : α}
    (hd : decodeWhole p (ops.view c) = some a) : parseCell ops s c = some a := by
  have h1 := decodeWhole_some hd
  have := h (ops.view c).1 (ops.view c).2 a ([], []) (by simpa using h1)
  simp [parseCell, this]

/-! ### byte strings -/

theorem appends_storeBytesN (n : Nat) (h : Bytes) : Appends (storeBytes h : BOp R) (eBytes n h) := by
  unfold eBytes
  split
  · exact appends_storeBytes h
  · exact appends_none _

theorem rt_bytes (n : Nat) (h : Bytes) : RT (eBytes n h : Enc R) (dBytes n) h := by
  unfold eBytes dBytes
  split
  · rename_i hh
    have hlen : (bytesToBits h).length = n * 8 := by rw [bytesToBits_length, hh.1]; omega
    have := RT.map (R := R) (fun x => bitsToBytes x) (rt_bits (R := R) (bytesToBits h))
    rw [hlen, bitsToBytes_bytesToBits h hh.2] at this
    exact this
  · intro c hc; simp at hc

theorem ref_loadBytes (n : Nat) (hn : 0 < n) : Ref (loadBytes n : SOp R Bytes) (dBytes n) := by
  intro b r a c' h
  simp only [dBytes, dec_bind_eq, Dec.bind, dec_pure_eq, Dec.pure] at h
  rcases hp : dBits (n * 8) (b, r) with _ | ⟨x, c1⟩
  · simp [hp] at h
  · simp only [hp, Option.some.injEq, Prod.mk.injEq] at h
    obtain ⟨hl, rfl, rfl⟩ := dBits_some hp
    obtain ⟨rfl, rfl⟩ := h
    have hlt : ¬ b.length < n * 8 := by omega
    have hn0 : n * 8 ≠ 0 := by omega
    simp [loadBytes, preloadBytes, peekBits, delBits, sop_bind_eq, SOp.bind, sop_pure_eq, SOp.pure, hlt, hn0]

theorem ref_loadDict : Ref (loadDict : SOp R (Option R)) (dMaybe dRef) := ref_loadMaybeRef

/-! ### sizes -/

theorem nbits_eBits (x : Bits) : Enc.nbits (eBits x : Enc R) ≤ x.length := by simp [eBits, Enc.nbits]
theorem nbits_eRef (r : R) : Enc.nbits (eRef r) ≤ 0 := by simp [eRef, Enc.nbits]
theorem nrefs_eRef (r : R) : Enc.nrefs (eRef r) ≤ 1 := by simp [eRef, Enc.nrefs]
theorem nbits_none : Enc.nbits (none : Enc R) ≤ 0 := by simp [Enc.nbits]
theorem nrefs_none : Enc.nrefs (none : Enc R) ≤ 0 := by simp [Enc.nrefs]

theorem nbits_eBytes (n : Nat) (h : Bytes) : Enc.nbits (eBytes n h : Enc R) ≤ 8 * n := by
  unfold eBytes; split
  · rename_i hh; simp [eBits, Enc.nbits, bytesToBits_length, hh.1]
  · simp [Enc.nbits]

theorem nrefs_eBytes (n : Nat) (h : Bytes) : Enc.nrefs (eBytes n h : Enc R) ≤ 0 := by
  unfold eBytes; split
  · exact nrefs_eBits _
  · simp [Enc.nrefs]

theorem nbits_eInt (n : Nat) (v : Int) : Enc.nbits (eInt n v : Enc R) ≤ n := by
  unfold eInt; split <;> simp [Enc.nbits, natToBits_length]

/-- a `Grams` value has at most 4 + 15·8 bits -/
theorem nbits_eGrams (v : Int) : Enc.nbits (eGrams v : Enc R) ≤ 124 := by
  unfold eGrams eVarUint
  split
  · by_cases hb : (nbytes v.toNat : Int) < 2 ^ 4
    · have hb' : nbytes v.toNat < 16 := by
        have : ((nbytes v.toNat : Nat) : Int) < 16 := by simpa using hb
        exact_mod_cast this
      exact Nat.le_trans (nbits_cat_le (nbits_eUint 4 _) (nbits_eUint _ _)) (by omega)
    · have : (eUint 4 (nbytes v.toNat : Int) : Enc R) = none := by
        have hn : ¬ (0 ≤ (nbytes v.toNat : Int) ∧ (nbytes v.toNat : Int) < 2 ^ 4) := fun h => hb h.2
        unfold eUint; simp only [hn, if_false]
      rw [this]; simp [Enc.cat, Enc.nbits]
  · simp [Enc.nbits]

/-- an address other than `addr_extern` has at most 2 + 1 + 5 + 30 + 8 + 256 bits -/
theorem nbits_eAddr_nonext (a : Addr) (h : ∀ l v, a ≠ Addr.ext l v) : Enc.nbits (eAddr a : Enc R) ≤ 302 := by
  cases a with
  | none => exact Nat.le_trans (nbits_eBits _) (by simp)
  | ext l v => exact absurd rfl (h l v)
  | std anycast wc hash =>
    unfold eAddr
    refine Nat.le_trans (nbits_cat_le (x := 2) (y := 300) (nbits_eBits _) (nbits_cat_le (x := 36) (y := 264) ?_
      (nbits_cat_le (x := 8) (y := 256) (nbits_eInt _ _) ?_))) (by omega)
    · cases anycast with
      | none => exact Nat.le_trans (nbits_eBool _) (by omega)
      | some dp =>
        simp only; split
        · rename_i hd
          exact Nat.le_trans (nbits_cat_le (nbits_eBool _) (nbits_cat_le (nbits_eUint _ _) (nbits_eUint _ _))) (by omega)
        · simp [Enc.nbits]
    · split
      · rename_i hh; simp [eBits, Enc.nbits, bytesToBits_length, hh.1]
      · simp [Enc.nbits]

/-! ### wallets, hash update -/

theorem appends_walletV3B (w : WalletV3) : Appends (walletV3B w : BOp R) (encWalletV3 w) := by
  unfold walletV3B encWalletV3
  rw [← Enc.cat_assoc]
  exact ((appends_storeUint _ 32 (by omega)).andThen (appends_storeUint _ 32 (by omega))).andThen (appends_storeBytesN 32 _)

theorem rt_walletV3 (w : WalletV3) : RT (encWalletV3 w : Enc R) dWalletV3 w := by
  unfold encWalletV3 dWalletV3
  refine RT.bind (rt_uint 32 _) (RT.bind (rt_uint 32 _) ?_)
  exact RT.map (fun pk => (⟨w.seqno, w.walletId, pk⟩ : WalletV3)) (rt_bytes 32 w.publicKey)

theorem ref_loadWalletV3 : Ref (loadWalletV3 : SOp R WalletV3) dWalletV3 := by
  unfold loadWalletV3 dWalletV3
  exact Ref.bind (ref_loadUint 32 (by omega)) fun _ => Ref.bind (ref_loadUint 32 (by omega)) fun _ =>
    Ref.bind (ref_loadBytes 32 (by omega)) fun _ => Ref.ret _

theorem appends_walletV4B (w : WalletV4 R) : Appends (walletV4B w) (encWalletV4 w) := by
  unfold walletV4B encWalletV4 storeDict
  rw [← Enc.cat_assoc, ← Enc.cat_assoc]
  exact (((appends_storeUint _ 32 (by omega)).andThen (appends_storeUint _ 32 (by omega))).andThen
    (appends_storeBytesN 32 _)).andThen (appends_storeMaybeRef _)

theorem rt_walletV4 (w : WalletV4 R) : RT (encWalletV4 w) dWalletV4 w := by
  unfold encWalletV4 dWalletV4
  refine RT.bind (rt_uint 32 _) (RT.bind (rt_uint 32 _) (RT.bind (rt_bytes 32 _) ?_))
  exact RT.map (fun p => (⟨w.seqno, w.walletId, w.publicKey, p⟩ : WalletV4 R)) (rt_maybeRef w.plugins)

theorem ref_loadWalletV4 : Ref (loadWalletV4 : SOp R (WalletV4 R)) dWalletV4 := by
  unfold loadWalletV4 dWalletV4
  exact Ref.bind (ref_loadUint 32 (by omega)) fun _ => Ref.bind (ref_loadUint 32 (by omega)) fun _ =>
    Ref.bind (ref_loadBytes 32 (by omega)) fun _ => Ref.bind ref_loadMaybeRef fun _ => Ref.ret _

theorem appends_highloadB (w : Highload R) : Appends (highloadB w) (encHighload w) := by
  unfold highloadB encHighload storeDict
  rw [← Enc.cat_assoc, ← Enc.cat_assoc]
  exact (((appends_storeUint _ 32 (by omega)).andThen (appends_storeUint _ 64 (by omega))).andThen
    (appends_storeBytesN 32 _)).andThen (appends_storeMaybeRef _)

theorem rt_highload (w : Highload R) : RT (encHighload w) dHighload w := by
  unfold encHighload dHighload
  refine RT.bind (rt_uint 32 _) (RT.bind (rt_uint 64 _) (RT.bind (rt_bytes 32 _) ?_))
  exact RT.map (fun q => (⟨w.walletId, w.lastCleaned, w.publicKey, q⟩ : Highload R)) (rt_maybeRef w.oldQueries)

theorem ref_loadHighload : Ref (loadHighload : SOp R (Highload R)) dHighload := by
  unfold loadHighload dHighload
  exact Ref.bind (ref_loadUint 32 (by omega)) fun _ => Ref.bind (ref_loadUint 64 (by omega)) fun _ =>
    Ref.bind (ref_loadBytes 32 (by omega)) fun _ => Ref.bind ref_loadDict fun _ => Ref.ret _

theorem appends_hashUpdateB (h : HashUpd) : Appends (hashUpdateB h : BOp R) (encHashUpd h) := by
  unfold hashUpdateB encHashUpd
  rw [← Enc.cat_assoc]
  exact ((appends_storeBytesN 1 _).andThen (appends_storeBytesN 32 _)).andThen (appends_storeBytesN 32 _)

theorem rt_hashUpd (h : HashUpd) : RT (encHashUpd h : Enc R) dHashUpd h := by
  unfold encHashUpd dHashUpd
  refine RT.bind (rt_bytes 1 [0x72]) ?_
  simp only [if_true]
  refine RT.bind (rt_bytes 32 _) ?_
  exact RT.map (fun n => (⟨h.oldHash, n⟩ : HashUpd)) (rt_bytes 32 h.newHash)

theorem ref_loadHashUpdate : Ref (loadHashUpdate : SOp R HashUpd) dHashUpd := by
  unfold loadHashUpdate dHashUpd
  refine Ref.bind (ref_loadBytes 1 (by omega)) fun tag => ?_
  by_cases ht : tag = [0x72]
  · subst ht
    simp only [List.take_succ_cons, List.take_zero, bne_self_eq_false, Bool.false_eq_true, if_false, if_true]
    exact Ref.bind (ref_loadBytes 32 (by omega)) fun _ => Ref.bind (ref_loadBytes 32 (by omega)) fun _ => Ref.ret _
  · simp only [ht, if_false]
    exact Ref.fail _

/-! ### NFT -/

theorem appends_nftItemB (n : NftItem R) : Appends (nftItemB n) (encNftItem n) := by
  unfold nftItemB encNftItem
  rw [← Enc.cat_assoc, ← Enc.cat_assoc]
  exact (((appends_storeUint _ 64 (by omega)).andThen (appends_storeAddress _)).andThen (appends_storeAddress _)).andThen
    (appends_storeRef _)

theorem rt_nftItem (n : NftItem R) (hc : AddrWF n.collection) (ho : AddrWF n.owner) : RT (encNftItem n) dNftItem n := by
  unfold encNftItem dNftItem
  refine RT.bind (rt_uint 64 _) (RT.bind (rt_addr _ hc) (RT.bind (rt_addr _ ho) ?_))
  exact RT.map (fun r => (⟨n.index, n.collection, n.owner, r⟩ : NftItem R)) (rt_ref n.content)

theorem ref_loadNftItem : Ref (loadNftItem : SOp R (NftItem R)) dNftItem := by
  unfold loadNftItem dNftItem
  exact Ref.bind (ref_loadUint 64 (by omega)) fun _ => Ref.bind ref_loadAddress fun _ =>
    Ref.bind ref_loadAddress fun _ => Ref.bind ref_loadRef fun _ => Ref.ret _

theorem appends_saleFeesB (f : SaleFees) : Appends (saleFeesB f : BOp R) (encSaleFees f) := by
  unfold saleFeesB encSaleFees
  rw [← Enc.cat_assoc, ← Enc.cat_assoc]
  exact (((appends_storeAddress _).andThen (appends_storeCoins _)).andThen (appends_storeAddress _)).andThen
    (appends_storeCoins _)

theorem rt_saleFees (f : SaleFees) (hwf : f.WF) : RT (encSaleFees f : Enc R) dSaleFees f := by
  unfold encSaleFees dSaleFees
  refine RT.bind (rt_addr _ hwf.1) (RT.bind (rt_grams _) (RT.bind (rt_addr _ hwf.2) ?_))
  exact RT.map (fun r => (⟨f.marketplaceFeeAddress, f.marketplaceFee, f.royaltyAddress, r⟩ : SaleFees)) (rt_grams f.royaltyAmount)

theorem ref_loadSaleFees : Ref (loadSaleFees : SOp R SaleFees) dSaleFees := by
  unfold loadSaleFees dSaleFees
  exact Ref.bind ref_loadAddress fun _ => Ref.bind ref_loadCoins fun _ => Ref.bind ref_loadAddress fun _ =>
    Ref.bind ref_loadCoins fun _ => Ref.ret _

/-! ### pieces held in a referenced cell -/

theorem Enc.eNil_cat (a : Enc R) : eNil +++ a = a := by
  rcases a with _ | ⟨a1, a2⟩ <;> simp [Enc.cat, eNil]

/-- a reader that consumes nothing and returns `a` -/
theorem RT.const {p : Dec R α} {a : α} (h : ∀ ch, p ch = some (a, ch)) : RT (eNil : Enc R) p a := by
  intro c hc tb tr; cases hc; simp [h]

/-- `X.deserialize(ref.begin_parse())` against "the referenced cell is exactly an X" -/
theorem ref_subcell (ops : CellOps R) {s : SOp R α} {p : Dec R α} (h : Ref s p) (r : R) :
    Ref (ofOption ((s ⟨(ops.view r).1, (ops.view r).2⟩).2) : SOp R α)
      (fun ch => (decodeWhole p (ops.view r)).map (fun a => (a, ch)) : Dec R α) := by
  intro b rr a c' hh
  rcases hd : decodeWhole p (ops.view r) with _ | x
  · simp [hd] at hh
  · simp only [hd, Option.map_some, Option.some.injEq, Prod.mk.injEq] at hh
    obtain ⟨rfl, rfl⟩ := hh
    have h1 := decodeWhole_some hd
    have h2 := h (ops.view r).1 (ops.view r).2 x ([], []) (by simpa using h1)
    simp [ofOption, h2]

/-! ### NFT sale data -/

def encSaleHead (s : SaleData) : Enc R :=
  eBool s.isComplete +++ eUint 32 s.createdAt +++ eAddr s.marketplace +++ eAddr s.nft +++ eAddr s.nftOwner +++
  eGrams s.fullPrice

def encFeesRef (ops : CellOps R) (f : SaleFees) : Enc R := eRefTo ops (encSaleFees f)

theorem encSaleData_split (ops : CellOps R) (s : SaleData) :
    encSaleData ops s = encSaleHead s +++ (encFeesRef ops s.fees +++ eBool s.canDeployByExternal) := by
  simp only [encSaleData, encSaleHead, encFeesRef, Enc.cat_assoc]

theorem appends_saleHeadB (s : SaleData) : Appends (saleHeadB s : BOp R) (encSaleHead s) := by
  unfold saleHeadB encSaleHead
  simp only [← Enc.cat_assoc]
  exact (((((appends_storeBit _).andThen (appends_storeUint _ 32 (by omega))).andThen (appends_storeAddress _)).andThen
    (appends_storeAddress _)).andThen (appends_storeAddress _)).andThen (appends_storeCoins _)

theorem encFeesRef_some (ops : CellOps R) {f : SaleFees} {y : Chunk R} (h : encFeesRef ops f = some y) :
    ∃ fch fc, encSaleFees f = some fch ∧ (fch.1.length ≤ 1023 ∧ fch.2.length ≤ 4) ∧ ops.make fch.1 fch.2 = some fc ∧
      y = ([], [fc]) := by
  unfold encFeesRef eRefTo at h
  rcases hb : (encSaleFees f : Enc R).bind (mkChunk ops) with _ | fc
  · simp [hb] at h
  · simp only [hb, eRef, Option.some.injEq] at h
    obtain ⟨fch, h1, h2⟩ := Option.bind_eq_some_iff.mp hb
    unfold mkChunk at h2
    split at h2
    · rename_i hf; exact ⟨fch, fc, h1, hf, h2, h.symm⟩
    · simp at h2

/-- `NftItemSaleData.serialize` is the spec encoding whenever that exists and fits a cell -/
theorem serializeSaleData_eq (ops : CellOps R) (s : SaleData) {ch : Chunk R} (he : encSaleData ops s = some ch)
    (hfit : ch.1.length ≤ 1023 ∧ ch.2.length ≤ 4) : serializeSaleData ops s = ops.make ch.1 ch.2 := by
  rw [encSaleData_split] at he
  obtain ⟨x, y, hx, hy, rfl⟩ := Enc.cat_some he
  obtain ⟨y1, y2, hy1, hy2, rfl⟩ := Enc.cat_some hy
  obtain ⟨fch, fc, hf1, hffit, hfmk, rfl⟩ := encFeesRef_some ops hy1
  simp only [eBool, Option.some.injEq] at hy2
  subst hy2
  simp only [List.nil_append, List.length_append, List.length_cons, List.length_nil] at hfit
  have hxfit : x.1.length ≤ 1023 ∧ x.2.length ≤ 4 := by omega
  have hhead := ((appends_saleHeadB (R := R) s).run hx).1 hxfit
  have hfees : serializeSaleFees ops s.fees = some fc := by
    rw [serializeSaleFees, cellOf_of_appends ops (appends_saleFeesB s.fees) hf1 hffit, hfmk]
  have htail := ((appends_storeRef fc).andThen (appends_storeBit s.canDeployByExternal)) ⟨x.1, x.2⟩ ⟨hxfit.1, hxfit.2⟩
    ([s.canDeployByExternal], [fc]) (by simp [eRef, eBool, Enc.cat])
  have hft : Fits (⟨x.1, x.2⟩ : Builder R) ([s.canDeployByExternal], [fc]) := by
    simp only [Fits, List.length_cons, List.length_nil]; omega
  have ht := htail.1 hft
  simp only [serializeSaleData, hhead, hfees, ht]
  simp [app]

theorem rt_saleData (ops : CellOps R) (hl : ops.Lawful) (s : SaleData) (hwf : s.WF) :
    RT (encSaleData ops s) (dSaleData ops) s := by
  unfold encSaleData dSaleData eRefTo
  refine RT.bind (rt_bool _) (RT.bind (rt_uint 32 _) (RT.bind (rt_addr _ hwf.1) (RT.bind (rt_addr _ hwf.2.1)
    (RT.bind (rt_addr _ hwf.2.2.1) (RT.bind (rt_grams _) ?_)))))
  rcases hb : (encSaleFees s.fees : Enc R).bind (mkChunk ops) with _ | fc
  · intro c hc; simp [Enc.cat] at hc
  · simp only
    obtain ⟨fch, h1, h2⟩ := Option.bind_eq_some_iff.mp hb
    have hv := mkChunk_some hl h2
    have hdec : decodeWhole dSaleFees (ops.view fc) = some s.fees := by
      have := (rt_saleFees (R := R) s.fees hwf.2.2.2).toEnd fch h1
      simp [decodeWhole, hv, this]
    refine RT.bind (rt_ref fc) ?_
    have hc : RT (eNil : Enc R) (fun ch => (decodeWhole dSaleFees (ops.view fc)).map (fun f => (f, ch))) s.fees :=
      RT.const (by intro ch; simp [hdec])
    have := RT.bind hc (f := fun fees => (do
        let e ← dBool
        pure (⟨s.isComplete, s.createdAt, s.marketplace, s.nft, s.nftOwner, s.fullPrice, fees, e⟩ : SaleData) : Dec R SaleData))
      (RT.map (fun e => (⟨s.isComplete, s.createdAt, s.marketplace, s.nft, s.nftOwner, s.fullPrice, s.fees, e⟩ : SaleData))
        (rt_bool s.canDeployByExternal))
    rwa [Enc.eNil_cat] at this

theorem ref_loadSaleData (ops : CellOps R) : Ref (loadSaleData ops) (dSaleData ops) := by
  unfold loadSaleData dSaleData
  exact Ref.bind ref_loadBit fun _ => Ref.bind (ref_loadUint 32 (by omega)) fun _ => Ref.bind ref_loadAddress fun _ =>
    Ref.bind ref_loadAddress fun _ => Ref.bind ref_loadAddress fun _ => Ref.bind ref_loadCoins fun _ =>
    Ref.bind ref_loadRef fun r => Ref.bind (ref_subcell ops ref_loadSaleFees r) fun _ => Ref.bind ref_loadBit fun _ => Ref.ret _

/-! ### wallet message -/

/-- `WalletMessage.serialize`: whenever the message serialises to `c`, the result is the cell `send_mode ‖ ^c` -/
theorem serializeWalletMsg_eq (ops : CellOps R) (w : WalletMsg R) (hmode : 0 ≤ w.sendMode ∧ w.sendMode < 256) {c : R}
    (hs : Message.serialize ops w.message = some c) :
    serializeWalletMsg ops w = ops.make (natToBits 8 w.sendMode.toNat) [c] := by
  have he : (eUint 8 w.sendMode : Enc R) = some (natToBits 8 w.sendMode.toNat, []) := by
    unfold eUint
    have : 0 ≤ w.sendMode ∧ w.sendMode < (2 : Int) ^ 8 := by constructor <;> omega
    simp only [this, and_self, if_true]
  have hrun := ((appends_storeUint (R := R) w.sendMode 8 (by omega)).run he).1 (by simp [natToBits_length])
  have hwf : WFB (⟨natToBits 8 w.sendMode.toNat, []⟩ : Builder R) := by simp [WFB, natToBits_length]
  have href := (appends_storeRef c) ⟨natToBits 8 w.sendMode.toNat, []⟩ hwf ([], [c]) (by simp [eRef])
  have hft : Fits (⟨natToBits 8 w.sendMode.toNat, []⟩ : Builder R) ([], [c]) := by simp [Fits, natToBits_length]
  simp only [serializeWalletMsg, hrun, hs, href.1 hft]
  simp [app]

theorem encWalletMsg_eq (ops : CellOps R) (w : WalletMsg R) (hmode : 0 ≤ w.sendMode ∧ w.sendMode < 256) (i b : Bool) {c : R}
    (he : encMessage ops w.message i b = some c) :
    encWalletMsg ops w i b = some (natToBits 8 w.sendMode.toNat, [c]) := by
  have h2 : 0 ≤ w.sendMode ∧ w.sendMode < (2 : Int) ^ 8 := by constructor <;> omega
  have h8 : (eUint 8 w.sendMode : Enc R) = some (natToBits 8 w.sendMode.toNat, []) := by
    unfold eUint; simp only [h2, and_self, if_true]
  simp [encWalletMsg, he, h8, eRef, Enc.cat]

theorem rt_walletMsg (ops : CellOps R) (hl : ops.Lawful) (w : WalletMsg R) (hwf : w.message.info.WF) (i b : Bool) :
    RT (encWalletMsg ops w i b) (dWalletMsg ops) w := by
  unfold encWalletMsg dWalletMsg
  rcases he : encMessage ops w.message i b with _ | c
  · intro ch hch; simp [Enc.cat] at hch
  · simp only
    have hdec := spec_roundtrip ops hl w.message hwf i b he
    refine RT.bind (rt_uint 8 _) ?_
    have hc : RT (eNil : Enc R) (fun ch => (decodeMessage ops c).map (fun m => ((⟨w.sendMode, m⟩ : WalletMsg R), ch))) w :=
      RT.const (by intro ch; simp [hdec])
    have := RT.bind (rt_ref c) (f := fun r => (fun ch => (decodeMessage ops r).map (fun m => ((⟨w.sendMode, m⟩ : WalletMsg R), ch)) : Dec R (WalletMsg R))) hc
    rwa [Enc.cat_eNil] at this

theorem ref_loadWalletMsg (ops : CellOps R) : Ref (loadWalletMsg ops) (dWalletMsg ops) := by
  unfold loadWalletMsg dWalletMsg
  refine Ref.bind (ref_loadUint 8 (by omega)) fun mode => Ref.bind ref_loadRef fun r => ?_
  intro b rr a c' hh
  rcases hd : decodeMessage ops r with _ | m
  · simp [hd] at hh
  · simp only [hd, Option.map_some, Option.some.injEq, Prod.mk.injEq] at hh
    obtain ⟨rfl, rfl⟩ := hh
    have := own_parser ops r m hd
    simp [sop_bind_eq, SOp.bind, ofOption, this, sop_pure_eq, SOp.pure]

/-! ### values in range have an encoding -/

theorem eUint_of_range (n : Nat) (v : Int) (h0 : 0 ≤ v) (h1 : v < (2 : Int) ^ n) :
    (eUint n v : Enc R) = some (natToBits n v.toNat, []) := by
  unfold eUint; simp only [h0, h1, and_self, if_true]

theorem eBytes_of (n : Nat) (h : Bytes) (hl : h.length = n) (hw : Bytes.WF h) :
    (eBytes n h : Enc R) = some (bytesToBits h, []) := by
  unfold eBytes; simp only [hl, hw, and_self, if_true, eBits]

theorem eMaybeRef_some (o : Option R) : ∃ ch : Chunk R, eMaybeRef o = some ch ∧ ch.1.length = 1 ∧ ch.2.length ≤ 1 := by
  cases o with
  | none => exact ⟨([false], []), rfl, rfl, by simp⟩
  | some r => exact ⟨([true], [r]), by simp [eMaybeRef, eBool, eRef, Enc.cat], rfl, by simp⟩

/-! ### header sizes of `Message X` proper -/

/-- any address has at most 2 + 9 + 511 bits -/
theorem nbits_eAddr_le (a : Addr) : Enc.nbits (eAddr a : Enc R) ≤ 522 := by
  cases a with
  | none => exact Nat.le_trans (nbits_eBits _) (by simp)
  | std anycast wc hash =>
    exact Nat.le_trans (nbits_eAddr_nonext (Addr.std anycast wc hash) (by intro l v h; cases h)) (by omega)
  | ext len val =>
    simp only [eAddr]
    have h512 : (2 : Int) ^ 9 = 512 := by decide
    by_cases hl : (len : Int) < 2 ^ 9
    · have hl' : len < 512 := by rw [h512] at hl; omega
      refine Nat.le_trans (nbits_cat_le (x := 2) (y := 9 + len) (nbits_eBits _) (nbits_cat_le (nbits_eUint 9 _) ?_)) (by omega)
      split
      · split
        · simp [eNil, Enc.nbits]
        · simp [Enc.nbits]
      · exact nbits_eUint _ _
    · have hn : ¬ (0 ≤ (len : Int) ∧ (len : Int) < 2 ^ 9) := fun h => hl h.2
      have : (eUint 9 (len : Int) : Enc R) = none := by unfold eUint; simp only [hn, if_false]
      rw [this]; simp [Enc.cat, Enc.nbits, eBits]

/-- `addr_std` without anycast: 2 + 1 + 8 + 256 bits -/
theorem nbits_eAddr_std_none (wc : Int) (hash : Bytes) : Enc.nbits (eAddr (Addr.std none wc hash) : Enc R) ≤ 267 := by
  simp only [eAddr]
  refine Nat.le_trans (nbits_cat_le (x := 2) (y := 265) (nbits_eBits _) (nbits_cat_le (x := 1) (y := 264) (nbits_eBool _)
    (nbits_cat_le (x := 8) (y := 256) (nbits_eInt _ _) ?_))) (by omega)
  split
  · rename_i hh; simp [eBits, Enc.nbits, bytesToBits_length, hh.1]
  · simp [Enc.nbits]

theorem isInt_nonext {a : Addr} (h : Addr.isInt a = true) : ∀ l v, a ≠ Addr.ext l v := by
  intro l v he; subst he; simp [Addr.isInt] at h

theorem nbits_encCurrency (c : Currency R) : Enc.nbits (encCurrency c) ≤ 125 :=
  nbits_cat_le (x := 124) (y := 1) (nbits_eGrams _) (nbits_eMaybeRef _)

/-- a header of `Message X` proper (address classes as block.tlb names them; no anycast in an internal header) has at
    most 1007 bits -/
theorem nbits_encInfo_conforms (i : Info R) (hc : i.Conforms) (hna : Info.IntNoAnycast i) : Enc.nbits (encInfo i) ≤ 1007 := by
  cases i with
  | int a b c src dest value ihr fwd lt at_ =>
    obtain ⟨⟨w1, h1, rfl⟩, ⟨w2, h2, rfl⟩⟩ := hna
    exact Nat.le_trans (nbits_cat_le (x := 1) (y := 1006) (nbits_eBool _) <| nbits_cat_le (x := 1) (y := 1005) (nbits_eBool _) <|
      nbits_cat_le (x := 1) (y := 1004) (nbits_eBool _) <| nbits_cat_le (x := 1) (y := 1003) (nbits_eBool _) <|
      nbits_cat_le (x := 267) (y := 736) (nbits_eAddr_std_none _ _) <| nbits_cat_le (x := 267) (y := 469) (nbits_eAddr_std_none _ _) <|
      nbits_cat_le (x := 125) (y := 344) (nbits_encCurrency _) <| nbits_cat_le (x := 124) (y := 220) (nbits_eGrams _) <|
      nbits_cat_le (x := 124) (y := 96) (nbits_eGrams _) <| nbits_cat_le (x := 64) (y := 32) (nbits_eUint _ _) (nbits_eUint _ _)) (by omega)
  | extIn src dest fee =>
    exact Nat.le_trans (nbits_cat_le (x := 2) (y := 948) (nbits_eBits _) <| nbits_cat_le (x := 522) (y := 426) (nbits_eAddr_le _) <|
      nbits_cat_le (x := 302) (y := 124) (nbits_eAddr_nonext _ (isInt_nonext hc.2)) (nbits_eGrams _)) (by omega)
  | extOut src dest lt at_ =>
    exact Nat.le_trans (nbits_cat_le (x := 2) (y := 920) (nbits_eBits _) <| nbits_cat_le (x := 302) (y := 618) (nbits_eAddr_nonext _ (isInt_nonext hc.1)) <|
      nbits_cat_le (x := 522) (y := 96) (nbits_eAddr_le _) <| nbits_cat_le (x := 64) (y := 32) (nbits_eUint _ _) (nbits_eUint _ _)) (by omega)

theorem nbits_eRefTo (ops : CellOps R) (e : Enc R) : Enc.nbits (eRefTo ops e) ≤ 0 := by
  unfold eRefTo; split
  · exact nbits_eRef _
  · exact nbits_none

theorem nrefs_eRefTo (ops : CellOps R) (e : Enc R) : Enc.nrefs (eRefTo ops e) ≤ 1 := by
  unfold eRefTo; split
  · exact nrefs_eRef _
  · simp [Enc.nrefs]

/-- `addr_none` or `addr_std` without anycast -/
def PlainAddr (a : Addr) : Prop := a = Addr.none ∨ ∃ w h, a = Addr.std none w h

theorem nbits_eAddr_plain {a : Addr} (h : PlainAddr a) : Enc.nbits (eAddr a : Enc R) ≤ 267 := by
  rcases h with rfl | ⟨w, hh, rfl⟩
  · exact Nat.le_trans (nbits_eBits _) (by simp)
  · exact nbits_eAddr_std_none _ _

theorem size_encSaleData (ops : CellOps R) (s : SaleData) (hm : PlainAddr s.marketplace) (hn : PlainAddr s.nft)
    (ho : PlainAddr s.nftOwner) : Enc.nbits (encSaleData ops s) ≤ 959 ∧ Enc.nrefs (encSaleData ops s) ≤ 1 := by
  unfold encSaleData
  constructor
  · exact Nat.le_trans (nbits_cat_le (x := 1) (y := 958) (nbits_eBool _) <| nbits_cat_le (x := 32) (y := 926) (nbits_eUint _ _) <|
      nbits_cat_le (x := 267) (y := 659) (nbits_eAddr_plain hm) <| nbits_cat_le (x := 267) (y := 392) (nbits_eAddr_plain hn) <|
      nbits_cat_le (x := 267) (y := 125) (nbits_eAddr_plain ho) <| nbits_cat_le (x := 124) (y := 1) (nbits_eGrams _) <|
      nbits_cat_le (x := 0) (y := 1) (nbits_eRefTo ops _) (nbits_eBool _)) (by omega)
  · exact Nat.le_trans (nrefs_cat_le (x := 0) (y := 1) (nrefs_eBool _) <| nrefs_cat_le (x := 0) (y := 1) (nrefs_eUint _ _) <|
      nrefs_cat_le (x := 0) (y := 1) (nrefs_eAddr _) <| nrefs_cat_le (x := 0) (y := 1) (nrefs_eAddr _) <|
      nrefs_cat_le (x := 0) (y := 1) (nrefs_eAddr _) <| nrefs_cat_le (x := 0) (y := 1) (nrefs_eGrams _) <|
      nrefs_cat_le (x := 1) (y := 0) (nrefs_eRefTo ops _) (nrefs_eBool _)) (by omega)

end TonVerif.Proofs.Message
